/-
  Parser-wide resource invariants of the SML model (C14): every function only moves the scan window
  forward inside the input (so error offsets stay inside it), and what it pre-allocates is paid for by
  the bytes it consumes (so the summed pre-allocation is linear in the input); and the fuel the entry
  points use never runs out.
-/
import GoSecs.Lemmas.Sml

namespace GoSecs.Sml
open GoSecs GoSecs.Secs2
set_option linter.unusedSimpArgs false

/-- The end of the input as seen from a state: position plus what is left. Conserved by the parser. -/
def St.total (st : St) : Nat := st.pos + st.data.length

/-- `st'` is `st` with some input consumed: same input length, same counters, window moved forward. -/
def Adv (st st' : St) : Prop :=
  st'.len = st.len ∧ st'.alloc = st.alloc ∧ st'.total = st.total ∧ st'.data.length ≤ st.data.length

theorem adv_refl (st : St) : Adv st st := ⟨rfl, rfl, rfl, Nat.le_refl _⟩

theorem adv_fwd (n : Nat) (st : St) : Adv st (fwd n st) := by
  unfold fwd
  split
  · exact adv_refl st
  · rename_i h
    have hl : n ≤ st.data.length := by
      have := (lenLt_false_iff st.data n).mp (by simpa using h); exact this
    refine ⟨rfl, rfl, ?_, ?_⟩
    · simp only [St.total, List.length_drop]; omega
    · simp only [List.length_drop]; omega

theorem wsSpan_len : ∀ (bs : Bytes) (n : Nat), (wsSpan n bs).1 + (wsSpan n bs).2.length = n + bs.length
  | [], n => by simp [wsSpan]
  | c :: r, n => by
    simp only [wsSpan]
    split
    · rw [wsSpan_len r (n + 1)]; simp; omega
    · simp

theorem adv_skipSpace (st : St) : Adv st (skipSpace st).2 := by
  have h := wsSpan_len st.data 0
  unfold skipSpace
  generalize hw : wsSpan 0 st.data = w
  rw [hw] at h
  obtain ⟨n, r⟩ := w
  cases r with
  | nil => exact adv_refl st
  | cons c r =>
    simp only [Nat.zero_add, List.length_cons] at h
    refine ⟨rfl, rfl, ?_, ?_⟩
    · simp only [St.total, List.length_cons]; omega
    · simp only [List.length_cons]; omega

theorem adv_trans {a b c : St} (h1 : Adv a b) (h2 : Adv b c) : Adv a c := by
  obtain ⟨a1, a2, a3, a4⟩ := h1
  obtain ⟨b1, b2, b3, b4⟩ := h2
  exact ⟨b1.trans a1, b2.trans a2, b3.trans a3, Nat.le_trans b4 a4⟩

theorem adv_skipComment (st : St) : Adv st (skipComment st) := by
  have h := adv_skipSpace st
  unfold skipComment
  split
  · rename_i st1 heq; rw [heq] at h; exact h
  · rename_i st1 heq
    rw [heq] at h
    repeat' split
    all_goals first | exact h | exact adv_trans h (adv_fwd _ _)

theorem adv_nextRune (st : St) : Adv st (nextRune st).2 := by
  unfold nextRune
  split
  · exact adv_refl st
  · rename_i c r heq
    refine ⟨rfl, rfl, ?_, ?_⟩
    · simp only [St.total, heq, List.length_cons]; omega
    · simp only [heq, List.length_cons]; omega

/-- `nextRune` that returns a byte consumed it. -/
theorem nextRune_some {st : St} {c : UInt8} {st' : St} (h : nextRune st = (some c, st')) :
    st'.data.length + 1 = st.data.length := by
  unfold nextRune at h
  split at h
  · cases h
  · rename_i c' r heq; cases h; simp [heq]

theorem adv_nextNS (st : St) : Adv st (nextNS st).2 := by
  have h := adv_skipSpace st
  unfold nextNS
  split
  · rename_i st1 heq; rw [heq] at h; exact h
  · rename_i st1 heq; rw [heq] at h; exact adv_trans h (adv_nextRune st1)

theorem nextNS_some {st : St} {c : UInt8} {st' : St} (h : nextNS st = (some c, st')) :
    st'.data.length + 1 ≤ st.data.length := by
  have hs := adv_skipSpace st
  unfold nextNS at h
  split at h
  · cases h
  · rename_i st1 heq
    rw [heq] at hs
    have h3 := nextRune_some h
    have h4 : st1.data.length ≤ st.data.length := hs.2.2.2
    omega

theorem adv_peekNS (st : St) : Adv st (peekNS st).2 := by
  have h := adv_skipSpace st
  unfold peekNS
  split
  · rename_i st1 heq; rw [heq] at h; exact h
  · rename_i st1 heq; rw [heq] at h; exact h

/-- A successful peek shows a byte that is still there. -/
theorem peekNS_some {st : St} {c : UInt8} {st' : St} (h : peekNS st = (some c, st')) : 1 ≤ st'.data.length := by
  unfold peekNS at h
  split at h
  · cases h
  · rename_i st1 heq
    simp only [Prod.mk.injEq] at h
    obtain ⟨h1, rfl⟩ := h
    cases hd : st1.data with
    | nil => simp [hd] at h1
    | cons x xs => simp

theorem adv_skipName (st : St) (k : Nat) : Adv st (skipName st k) := by
  simp only [skipName]
  repeat' split
  all_goals first | exact adv_refl st | exact adv_fwd _ _

theorem adv_skipQuote (st : St) : Adv st (skipQuote st) := by
  have h := adv_peekNS st
  unfold skipQuote
  generalize peekNS st = p at h
  obtain ⟨c, st1⟩ := p
  cases c with
  | none => exact h
  | some c =>
    simp only
    split
    · exact adv_trans h (adv_fwd _ _)
    · exact h

/-! ### The same facts in the form the arithmetic automation (`grind`) consumes -/

theorem adv_num {st st' : St} (h : Adv st st') :
    st'.len = st.len ∧ st'.alloc = st.alloc ∧ st'.pos + st'.data.length = st.pos + st.data.length ∧
      st'.data.length ≤ st.data.length := by
  simpa [Adv, St.total] using h

theorem skipSpace_f {st b st'} (h : skipSpace st = (b, st')) :
    st'.len = st.len ∧ st'.alloc = st.alloc ∧ st'.pos + st'.data.length = st.pos + st.data.length ∧
      st'.data.length ≤ st.data.length := by
  have := adv_skipSpace st; rw [h] at this; exact adv_num this
theorem nextRune_f {st b st'} (h : nextRune st = (b, st')) :
    st'.len = st.len ∧ st'.alloc = st.alloc ∧ st'.pos + st'.data.length = st.pos + st.data.length ∧
      st'.data.length ≤ st.data.length := by
  have := adv_nextRune st; rw [h] at this; exact adv_num this
theorem nextNS_f {st b st'} (h : nextNS st = (b, st')) :
    st'.len = st.len ∧ st'.alloc = st.alloc ∧ st'.pos + st'.data.length = st.pos + st.data.length ∧
      st'.data.length ≤ st.data.length := by
  have := adv_nextNS st; rw [h] at this; exact adv_num this
theorem peekNS_f {st b st'} (h : peekNS st = (b, st')) :
    st'.len = st.len ∧ st'.alloc = st.alloc ∧ st'.pos + st'.data.length = st.pos + st.data.length ∧
      st'.data.length ≤ st.data.length := by
  have := adv_peekNS st; rw [h] at this; exact adv_num this
attribute [grind →] skipSpace_f nextRune_f nextNS_f peekNS_f nextRune_some nextNS_some peekNS_some

theorem fwd_f1 (n : Nat) (st : St) : (fwd n st).len = st.len := (adv_num (adv_fwd n st)).1
theorem fwd_f2 (n : Nat) (st : St) : (fwd n st).alloc = st.alloc := (adv_num (adv_fwd n st)).2.1
theorem fwd_f3 (n : Nat) (st : St) : (fwd n st).pos + (fwd n st).data.length = st.pos + st.data.length := (adv_num (adv_fwd n st)).2.2.1
theorem fwd_f4 (n : Nat) (st : St) : (fwd n st).data.length ≤ st.data.length := (adv_num (adv_fwd n st)).2.2.2
theorem skipComment_f1 (st : St) : (skipComment st).len = st.len := (adv_num (adv_skipComment st)).1
theorem skipComment_f2 (st : St) : (skipComment st).alloc = st.alloc := (adv_num (adv_skipComment st)).2.1
theorem skipComment_f3 (st : St) : (skipComment st).pos + (skipComment st).data.length = st.pos + st.data.length := (adv_num (adv_skipComment st)).2.2.1
theorem skipComment_f4 (st : St) : (skipComment st).data.length ≤ st.data.length := (adv_num (adv_skipComment st)).2.2.2
theorem skipName_f1 (st : St) (k : Nat) : (skipName st k).len = st.len := (adv_num (adv_skipName st k)).1
theorem skipName_f2 (st : St) (k : Nat) : (skipName st k).alloc = st.alloc := (adv_num (adv_skipName st k)).2.1
theorem skipName_f3 (st : St) (k : Nat) : (skipName st k).pos + (skipName st k).data.length = st.pos + st.data.length := (adv_num (adv_skipName st k)).2.2.1
theorem skipName_f4 (st : St) (k : Nat) : (skipName st k).data.length ≤ st.data.length := (adv_num (adv_skipName st k)).2.2.2
theorem skipQuote_f1 (st : St) : (skipQuote st).len = st.len := (adv_num (adv_skipQuote st)).1
theorem skipQuote_f2 (st : St) : (skipQuote st).alloc = st.alloc := (adv_num (adv_skipQuote st)).2.1
theorem skipQuote_f3 (st : St) : (skipQuote st).pos + (skipQuote st).data.length = st.pos + st.data.length := (adv_num (adv_skipQuote st)).2.2.1
theorem skipQuote_f4 (st : St) : (skipQuote st).data.length ≤ st.data.length := (adv_num (adv_skipQuote st)).2.2.2
theorem skipSpace2_f1 (st : St) : (skipSpace st).2.len = st.len := (adv_num (adv_skipSpace st)).1
theorem skipSpace2_f2 (st : St) : (skipSpace st).2.alloc = st.alloc := (adv_num (adv_skipSpace st)).2.1
theorem skipSpace2_f3 (st : St) : (skipSpace st).2.pos + (skipSpace st).2.data.length = st.pos + st.data.length := (adv_num (adv_skipSpace st)).2.2.1
theorem skipSpace2_f4 (st : St) : (skipSpace st).2.data.length ≤ st.data.length := (adv_num (adv_skipSpace st)).2.2.2
attribute [grind =] fwd_f1 fwd_f2 skipComment_f1 skipComment_f2 skipName_f1 skipName_f2 skipQuote_f1 skipQuote_f2 skipSpace2_f1 skipSpace2_f2
grind_pattern fwd_f3 => fwd n st
grind_pattern fwd_f4 => fwd n st
grind_pattern skipComment_f3 => skipComment st
grind_pattern skipComment_f4 => skipComment st
grind_pattern skipName_f3 => skipName st k
grind_pattern skipName_f4 => skipName st k
grind_pattern skipQuote_f3 => skipQuote st
grind_pattern skipQuote_f4 => skipQuote st
grind_pattern skipSpace2_f3 => skipSpace st
grind_pattern skipSpace2_f4 => skipSpace st

/-- The constant of the allocation bound: bytes a parser may reserve per byte of input it consumes. -/
def allocC : Nat := 1024

/-- Success: window moved forward inside the same input, and whatever was reserved is paid for by
    the bytes consumed. -/
def OkSpec (st st' : St) : Prop :=
  st'.len = st.len ∧ st'.pos + st'.data.length = st.pos + st.data.length ∧ st'.data.length ≤ st.data.length ∧
    st'.alloc + 1024 * st'.data.length ≤ st.alloc + 1024 * st.data.length

/-- Failure: the offset of a syntax error lies inside the input; reserved so far is bounded. -/
def ErrSpec (st : St) (e : Fail) : Prop :=
  e.alloc ≤ st.alloc + 1024 * st.data.length + 1024 ∧ ∀ off, e.kind = .syn off → off ≤ st.pos + st.data.length

def Spec {α} (st : St) (r : P α) : Prop :=
  (∀ a st', r = .ok (a, st') → OkSpec st st') ∧ (∀ e, r = .error e → ErrSpec st e)


theorem spec_syn {α} (st0 st : St) (h1 : st.alloc ≤ st0.alloc + 1024 * st0.data.length + 1024)
    (h2 : st.pos ≤ st0.pos + st0.data.length) : Spec st0 (syn st : P α) := by
  constructor
  · intro a st' h; simp [syn, synAt] at h
  · intro e h; simp only [syn, synAt] at h; cases h
    exact ⟨h1, fun off ho => by cases ho; exact h2⟩
theorem spec_ok {α} (st0 : St) (a : α) (st : St) (h : OkSpec st0 st) : Spec st0 (.ok (a, st) : P α) := by
  constructor
  · intro a' st' h'; cases h'; exact h
  · intro e h'; cases h'
theorem spec_err {α} (st0 : St) (e : Fail) (h : ErrSpec st0 e) : Spec st0 (.error e : P α) := by
  constructor
  · intro a st' h'; cases h'
  · intro e' h'; cases h'; exact h

theorem digitSpan_len : ∀ (bs : Bytes) (n : Nat), (digitSpan n bs).1 + (digitSpan n bs).2.length = n + bs.length
  | [], n => by simp [digitSpan]
  | c :: r, n => by
    simp only [digitSpan]
    split
    · rw [digitSpan_len r (n + 1)]; simp; omega
    · simp

theorem nextNumber_ok' {limit st v st'} (h : nextNumber limit st = .ok (v, st')) :
    st'.len = st.len ∧ st'.alloc = st.alloc ∧ st'.pos + st'.data.length = st.pos + st.data.length ∧
      st'.data.length ≤ st.data.length := by
  have hl := digitSpan_len st.data 0
  unfold nextNumber at h
  generalize digitSpan 0 st.data = g at hl h
  obtain ⟨k, r⟩ := g
  simp only [Nat.zero_add] at hl
  repeat' (first | split at h | dsimp only at h)
  all_goals first
    | (simp [syn, synAt] at h; done)
    | (cases h; simp_all; omega)
theorem nextNumber_err' {limit st e} (h : nextNumber limit st = .error e) :
    e.alloc = st.alloc ∧ e.kind = .syn st.pos := by
  unfold nextNumber at h
  repeat' (first | split at h | dsimp only at h)
  all_goals first
    | (simp only [syn, synAt] at h; cases h; exact ⟨rfl, rfl⟩)
    | (cases h; done)
attribute [grind →] nextNumber_ok' nextNumber_err'

theorem syn_err' {α} {st : St} {e : Fail} (h : (syn st : P α) = .error e) : e.alloc = st.alloc ∧ e.kind = .syn st.pos := by
  simp only [syn, synAt] at h; cases h; exact ⟨rfl, rfl⟩
attribute [grind →] syn_err' syn_not_ok

/-- `parseItemSize`: like `OkSpec`, except that the `backward(1)` after a failed look-ahead at the end
    of the input may put one byte back. -/
def SizeOk (st st' : St) : Prop :=
  st'.len = st.len ∧ st'.alloc = st.alloc ∧ st'.pos + st'.data.length = st.pos + st.data.length ∧
    st'.data.length ≤ st.data.length + 1

theorem spec_parseItemSize (last : UInt8) (st : St) (hpos : 1 ≤ st.pos) :
    (∀ v st', parseItemSize last st = .ok (v, st') → SizeOk st st') ∧
    (∀ e, parseItemSize last st = .error e → ErrSpec st e) := by
  unfold parseItemSize
  constructor
  · intro v st' h
    repeat' (first | split at h | dsimp only at h)
    all_goals first
      | (cases h; simp only [SizeOk]; grind)
      | (simp only [SizeOk]; grind)
  · intro e h
    repeat' (first | split at h | dsimp only at h)
    all_goals first
      | (cases h; done)
      | (simp only [ErrSpec]; grind)

theorem parseItemSize_ok' {last st v st'} (hpos : 1 ≤ st.pos) (h : parseItemSize last st = .ok (v, st')) :
    st'.len = st.len ∧ st'.alloc = st.alloc ∧ st'.pos + st'.data.length = st.pos + st.data.length ∧
      st'.data.length ≤ st.data.length + 1 := (spec_parseItemSize last st hpos).1 v st' h
theorem parseItemSize_err' {last st e} (hpos : 1 ≤ st.pos) (h : parseItemSize last st = .error e) :
    e.alloc ≤ st.alloc + 1024 * st.data.length + 1024 ∧ ∀ off, e.kind = .syn off → off ≤ st.pos + st.data.length :=
  (spec_parseItemSize last st hpos).2 e h

/-- `parseItemType` only claims bytes that are there. -/
theorem parseItemType_k {data : Bytes} {ty : Ty} {k : Nat} (h : parseItemType data = some (ty, k)) :
    1 ≤ k ∧ k ≤ data.length := by
  unfold parseItemType at h
  cases data with
  | nil => simp at h
  | cons c0 r =>
    simp only at h
    repeat' (first | split at h)
    all_goals first
      | (cases h; simp; done)
      | (simp at h; done)
      | (cases h; simp only [List.length_cons]; omega)
      | skip
    all_goals first
      | (rename_i hb; cases h
         have := congrArg List.length hb
         simp [List.length_take] at this
         simp only [List.length_cons] at this ⊢; omega)
      | (simp only [Option.map_eq_some_iff] at h
         obtain ⟨w, _, hw⟩ := h; cases hw; simp)

/-! ### Value items, strings -/

theorem fieldsAux_len : ∀ (bs cur : Bytes) (skip : Nat),
    (fieldsAux cur skip bs).length ≤ bs.length + (if cur.isEmpty then 0 else 1)
  | [], cur, skip => by
    cases skip <;> simp [fieldsAux] <;> split <;> simp
  | c :: r, cur, skip + 1 => by
    have := fieldsAux_len r cur skip
    simp only [fieldsAux, List.length_cons]; omega
  | c :: r, cur, 0 => by
    simp only [fieldsAux]
    split
    · have := fieldsAux_len r (c :: cur) 0
      simp only [List.length_cons, List.isEmpty_cons] at this ⊢
      split <;> simp_all <;> omega
    · rename_i w _
      have := fieldsAux_len r [] w
      split
      · simp only [List.length_cons, List.isEmpty_nil] at this ⊢; simp_all; omega
      · simp only [List.length_cons, List.isEmpty_nil] at this ⊢; simp_all; omega

theorem fields_len (bs : Bytes) : (fields bs).length ≤ bs.length := by
  have := fieldsAux_len bs [] 0
  simpa [fields] using this

theorem spec_parseValues {α} (k : Nat) (hk : k ≤ 8) (conv : Bytes → Option α) (st : St) : Spec st (parseValues k conv st) := by
  unfold parseValues
  split
  · apply spec_syn <;> simp only <;> omega
  · rename_i i hi
    have hlt := indexByte_lt cGT st.data 0 i hi
    have hf := fields_len (st.data.take i)
    simp only [List.length_take] at hf
    have hm : k * (fields (st.data.take i)).length ≤ 8 * (fields (st.data.take i)).length :=
      Nat.mul_le_mul_right _ hk
    have hmin : min i st.data.length = i := by omega
    rw [hmin] at hf
    dsimp only
    split
    · apply spec_syn <;> simp only <;> omega
    · apply spec_ok
      simp only [OkSpec, List.length_drop]
      refine ⟨trivial, ?_, ?_, ?_⟩ <;> omega

/-- Index just behind the first `>`, 0 if there is none: the most `sb.Grow` may reserve. -/
def gtEnd (data : Bytes) : Nat :=
  match indexByte cGT 0 data with
  | none => 0
  | some k => k + 1

theorem indexByte_shift (b : UInt8) : ∀ (xs : Bytes) (i : Nat), indexByte b (i + 1) xs = (indexByte b i xs).map (· + 1)
  | [], i => rfl
  | x :: xs, i => by
    simp only [indexByte]
    split
    · rfl
    · exact indexByte_shift b xs (i + 1)

theorem gtEnd_cons (c : UInt8) (r : Bytes) : gtEnd (c :: r) = if c = cGT then 1 else (if gtEnd r = 0 then 0 else gtEnd r + 1) := by
  by_cases hc : c = cGT
  · simp [gtEnd, indexByte, hc]
  · have hs := indexByte_shift cGT r 0
    simp only [gtEnd, indexByte, hc, ↓reduceIte, Nat.zero_add] at hs ⊢
    rw [hs]
    have key : ∀ x : Option Nat,
        (match x.map (fun x => x + 1) with | none => 0 | some k => k + 1) =
        if (match x with | none => 0 | some k => k + 1) = 0 then 0
        else (match x with | none => 0 | some k => k + 1) + 1 := by
      intro x; cases x <;> simp
    exact key _

theorem asciiPrealloc_le_gtEnd (size : Nat) (data : Bytes) : asciiPrealloc size data ≤ gtEnd data := by
  unfold asciiPrealloc gtEnd
  cases indexByte cGT 0 data with
  | none => simp
  | some k => simp only; omega

/-- What the strict ASCII loop consumes reaches at least to the first `>` and stays inside the data. -/
theorem strictLoop_consumed (O : Oracle) (q : UInt8) : ∀ (data : Bytes) (m : AMode) (acc : Bytes) (i skip : Nat) (s : Bytes) (n : Nat),
    strictLoop O q m acc i skip data = some (s, n) → i + gtEnd data ≤ n ∧ n ≤ i + data.length ∧ i < n
  | [], m, acc, i, skip, s, n, h => by simp [strictLoop] at h
  | c :: r, m, acc, i, skip + 1, s, n, h => by
    simp only [strictLoop] at h
    have ih := strictLoop_consumed O q r m acc (i + 1) skip s n h
    rw [gtEnd_cons]
    simp only [List.length_cons]
    split <;> (try split) <;> omega
  | c :: r, m, acc, i, 0, s, n, h => by
    have ih := fun m acc sk h' => strictLoop_consumed O q r m acc (i + 1) sk s n h'
    rw [gtEnd_cons]
    simp only [List.length_cons]
    simp only [strictLoop] at h
    repeat' (first | split at h | dsimp only at h)
    all_goals first
      | (cases h; done)
      | (have := ih _ _ _ h; split <;> (try split) <;> omega)
      | (simp only [Option.some.injEq, Prod.mk.injEq] at h; obtain ⟨_, rfl⟩ := h
         simp_all)
      | skip

theorem fwd_exact_len (n : Nat) (st : St) (h : n ≤ st.data.length) : (fwd n st).data.length + n = st.data.length := by
  have hl : lenLt st.data n = false := (lenLt_false_iff st.data n).mpr h
  simp only [fwd, hl, Bool.false_eq_true, ↓reduceIte, List.length_drop]; omega

theorem spec_parseASCIIStrict (O : Oracle) (size : Nat) (st : St) : Spec st (parseASCIIStrict O size st) := by
  have ha := asciiPrealloc_le_gtEnd size st.data
  have hb := (asciiPrealloc_le size st.data).1
  unfold parseASCIIStrict
  dsimp only
  split
  · apply spec_syn <;> simp only <;> omega
  · rename_i s n hl
    have hc := strictLoop_consumed O (detectQuote st.data) st.data .dflt [] 0 0 s n hl
    have h3 := fwd_f3 n { st with alloc := st.alloc + asciiPrealloc size st.data }
    have h5 := fwd_exact_len n { st with alloc := st.alloc + asciiPrealloc size st.data } (by simp only; omega)
    apply spec_ok
    simp only [OkSpec, fwd_f1, fwd_f2] at h3 h5 ⊢
    refine ⟨trivial, h3, by omega, by omega⟩

theorem spec_parseASCIIFast (size : Nat) (st : St) : Spec st (parseASCIIFast size st) := by
  unfold parseASCIIFast
  repeat' (first | split | dsimp only)
  all_goals first
    | (apply spec_syn <;> grind)
    | (apply spec_ok; simp only [OkSpec]; grind)

theorem spec_parseQuoted (mk : UInt8 → Bytes → Item) (st : St) : Spec st (parseQuoted mk st) := by
  unfold parseQuoted
  repeat' (first | split | dsimp only)
  all_goals first
    | (apply spec_syn <;> grind)
    | (apply spec_ok; simp only [OkSpec]; grind)

theorem spec_map {α β} (st : St) (r : P α) (f : α → β) (h : Spec st r) :
    Spec st (match r with | .error e => .error e | .ok (vs, st) => (.ok (f vs, st) : P β)) := by
  rcases r with e | ⟨vs, st'⟩
  · exact spec_err _ _ (h.2 e rfl)
  · exact spec_ok _ _ _ (h.1 vs st' rfl)

theorem spec_parseLeaf (O : Oracle) (strict : Bool) (ty : Ty) (size : Nat) (st : St) : Spec st (parseLeaf O strict ty size st) := by
  cases ty <;> simp only [parseLeaf]
  · apply spec_syn <;> omega
  · split
    · exact spec_parseASCIIStrict _ _ _
    · exact spec_parseASCIIFast _ _
  · exact spec_parseQuoted _ _
  · exact spec_parseQuoted _ _
  all_goals
    split
    · rename_i h; exact spec_err _ _ ((spec_parseValues _ (by decide) _ _).2 _ h)
    · rename_i h; exact spec_ok _ _ _ ((spec_parseValues _ (by decide) _ _).1 _ _ h)

/-! ### Items and lists -/

theorem parseItemType_k' {data : Bytes} {ty : Ty} {k : Nat} (h : parseItemType data = some (ty, k)) :
    1 ≤ k ∧ k ≤ data.length := parseItemType_k h
attribute [grind →] parseItemType_k'
grind_pattern fwd_exact_len => fwd n st

theorem parseItemSize_ok2 {last st v st'} (h : parseItemSize last st = .ok (v, st')) : 1 ≤ st.pos →
    st'.len = st.len ∧ st'.alloc = st.alloc ∧ st'.pos + st'.data.length = st.pos + st.data.length ∧
      st'.data.length ≤ st.data.length + 1 := fun hpos => parseItemSize_ok' hpos h
theorem parseItemSize_err2 {last st e} (h : parseItemSize last st = .error e) : 1 ≤ st.pos →
    e.alloc ≤ st.alloc + 1024 * st.data.length + 1024 ∧ ∀ off, e.kind = .syn off → off ≤ st.pos + st.data.length :=
  fun hpos => parseItemSize_err' hpos h
attribute [grind →] parseItemSize_ok2 parseItemSize_err2

theorem listPrealloc_16 (size : Nat) (data : Bytes) : 16 * listPrealloc size data ≤ 1024 := by
  have := (listPrealloc_le size data).1
  simp only [maxListPrealloc] at this; omega
grind_pattern listPrealloc_16 => listPrealloc size data

theorem bumpAlloc_f (n : Nat) (st : St) : (bumpAlloc n st).len = st.len ∧ (bumpAlloc n st).alloc = st.alloc + n ∧
    (bumpAlloc n st).pos = st.pos ∧ (bumpAlloc n st).data = st.data := ⟨rfl, rfl, rfl, rfl⟩
grind_pattern bumpAlloc_f => bumpAlloc n st

theorem parseLeaf_ok' {O strict ty size st v st'} (h : parseLeaf O strict ty size st = .ok (v, st')) :
    st'.len = st.len ∧ st'.pos + st'.data.length = st.pos + st.data.length ∧ st'.data.length ≤ st.data.length ∧
      st'.alloc + 1024 * st'.data.length ≤ st.alloc + 1024 * st.data.length :=
  (spec_parseLeaf O strict ty size st).1 v st' h
theorem parseLeaf_err' {O strict ty size st e} (h : parseLeaf O strict ty size st = .error e) :
    e.alloc ≤ st.alloc + 1024 * st.data.length + 1024 ∧ ∀ off, e.kind = .syn off → off ≤ st.pos + st.data.length :=
  (spec_parseLeaf O strict ty size st).2 e h
attribute [grind →] parseLeaf_ok' parseLeaf_err'

/-- `parseItem` succeeds only by consuming input: at least the `<`. -/
def ItemOk (st st' : St) : Prop :=
  st'.len = st.len ∧ st'.pos + st'.data.length = st.pos + st.data.length ∧ st'.data.length + 1 ≤ st.data.length ∧
    st'.alloc + 1024 * st'.data.length ≤ st.alloc + 1024 * st.data.length

mutual
theorem spec_parseItem (O : Oracle) (strict : Bool) : ∀ (fuel depth : Nat) (st : St),
    (∀ it st', parseItem O strict fuel depth st = .ok (it, st') → ItemOk st st') ∧
    (∀ e, parseItem O strict fuel depth st = .error e → ErrSpec st e)
  | 0, _, st => by
    simp only [parseItem]
    exact ⟨fun it st' h => by simp [syn, synAt] at h, (spec_syn st st (by omega) (by omega) : Spec st (syn st : P Item)).2⟩
  | fuel + 1, depth, st => by
    have ihL1 : ∀ acc s it s', parseList O strict fuel depth acc s = .ok (it, s') →
        s'.len = s.len ∧ s'.pos + s'.data.length = s.pos + s.data.length ∧ s'.data.length ≤ s.data.length ∧
          s'.alloc + 1024 * s'.data.length ≤ s.alloc + 1024 * s.data.length :=
      fun acc s it s' h => (spec_parseList O strict fuel depth acc s).1 it s' h
    have ihL2 : ∀ acc s e, parseList O strict fuel depth acc s = .error e →
        e.alloc ≤ s.alloc + 1024 * s.data.length + 1024 ∧ ∀ off, e.kind = .syn off → off ≤ s.pos + s.data.length :=
      fun acc s e h => (spec_parseList O strict fuel depth acc s).2 e h
    constructor
    · intro it st' h
      unfold parseItem at h
      repeat' (first | split at h | dsimp only at h)
      all_goals first
        | (cases h; done)
        | (simp only [ItemOk]; grind)
        | (rename_i heq; split at heq <;> first
            | (simp only [ItemOk]; grind)
            | (split at heq <;> (simp only [ItemOk]; grind)))
    · intro e h
      unfold parseItem at h
      repeat' (first | split at h | dsimp only at h)
      all_goals first
        | (cases h; done)
        | (simp only [ErrSpec]; grind)
        | (rename_i heq; split at heq <;> first
            | (simp only [ErrSpec]; grind)
            | (split at heq <;> (simp only [ErrSpec]; grind)))
theorem spec_parseList (O : Oracle) (strict : Bool) : ∀ (fuel depth : Nat) (acc : List Item) (st : St),
    Spec st (parseList O strict fuel depth acc st)
  | 0, _, _, st => by simp only [parseList]; apply spec_syn <;> omega
  | fuel + 1, depth, acc, st => by
    have ihI1 : ∀ s it s', parseItem O strict fuel (depth + 1) s = .ok (it, s') →
        s'.len = s.len ∧ s'.pos + s'.data.length = s.pos + s.data.length ∧ s'.data.length + 1 ≤ s.data.length ∧
          s'.alloc + 1024 * s'.data.length ≤ s.alloc + 1024 * s.data.length :=
      fun s it s' h => (spec_parseItem O strict fuel (depth + 1) s).1 it s' h
    have ihI2 : ∀ s e, parseItem O strict fuel (depth + 1) s = .error e →
        e.alloc ≤ s.alloc + 1024 * s.data.length + 1024 ∧ ∀ off, e.kind = .syn off → off ≤ s.pos + s.data.length :=
      fun s e h => (spec_parseItem O strict fuel (depth + 1) s).2 e h
    have ihL1 : ∀ acc s it s', parseList O strict fuel depth acc s = .ok (it, s') →
        s'.len = s.len ∧ s'.pos + s'.data.length = s.pos + s.data.length ∧ s'.data.length ≤ s.data.length ∧
          s'.alloc + 1024 * s'.data.length ≤ s.alloc + 1024 * s.data.length :=
      fun acc s it s' h => (spec_parseList O strict fuel depth acc s).1 it s' h
    have ihL2 : ∀ acc s e, parseList O strict fuel depth acc s = .error e →
        e.alloc ≤ s.alloc + 1024 * s.data.length + 1024 ∧ ∀ off, e.kind = .syn off → off ≤ s.pos + s.data.length :=
      fun acc s e h => (spec_parseList O strict fuel depth acc s).2 e h
    constructor
    · intro it st' h
      unfold parseList at h
      repeat' (first | split at h | dsimp only at h)
      all_goals first
        | (cases h; done)
        | (simp only [OkSpec]; grind)
    · intro e h
      unfold parseList at h
      repeat' (first | split at h | dsimp only at h)
      all_goals first
        | (cases h; done)
        | (simp only [ErrSpec]; grind)
end

theorem parseItem_ok' {O strict fuel depth st it st'} (h : parseItem O strict fuel depth st = .ok (it, st')) :
    st'.len = st.len ∧ st'.pos + st'.data.length = st.pos + st.data.length ∧ st'.data.length + 1 ≤ st.data.length ∧
      st'.alloc + 1024 * st'.data.length ≤ st.alloc + 1024 * st.data.length :=
  (spec_parseItem O strict fuel depth st).1 it st' h
theorem parseItem_err' {O strict fuel depth st e} (h : parseItem O strict fuel depth st = .error e) :
    e.alloc ≤ st.alloc + 1024 * st.data.length + 1024 ∧ ∀ off, e.kind = .syn off → off ≤ st.pos + st.data.length :=
  (spec_parseItem O strict fuel depth st).2 e h
attribute [grind →] parseItem_ok' parseItem_err'

/-! ### Header, message, whole parse -/

theorem spec_headerWBit (s f : Nat) (st : St) : Spec st (headerWBit s f st) := by
  unfold headerWBit
  repeat' split
  all_goals (apply spec_ok; simp only [OkSpec]; grind)

theorem headerWBit_ok' {s f st v st'} (h : headerWBit s f st = .ok (v, st')) :
    st'.len = st.len ∧ st'.pos + st'.data.length = st.pos + st.data.length ∧ st'.data.length ≤ st.data.length ∧
      st'.alloc + 1024 * st'.data.length ≤ st.alloc + 1024 * st.data.length := (spec_headerWBit s f st).1 v st' h
theorem headerWBit_err' {s f st e} (h : headerWBit s f st = .error e) :
    e.alloc ≤ st.alloc + 1024 * st.data.length + 1024 ∧ ∀ off, e.kind = .syn off → off ≤ st.pos + st.data.length :=
  (spec_headerWBit s f st).2 e h
attribute [grind →] headerWBit_ok' headerWBit_err'

theorem spec_parseHeaderLine (st : St) : Spec st (parseHeaderLine st) := by
  constructor
  · intro v st' h
    unfold parseHeaderLine at h
    repeat' (first | split at h | dsimp only at h)
    all_goals first
      | (cases h; done)
      | (simp only [OkSpec]; grind)
  · intro e h
    unfold parseHeaderLine at h
    repeat' (first | split at h | dsimp only at h)
    all_goals first
      | (cases h; done)
      | (simp only [ErrSpec]; grind)

theorem parseHeaderLine_ok' {st v st'} (h : parseHeaderLine st = .ok (v, st')) :
    st'.len = st.len ∧ st'.pos + st'.data.length = st.pos + st.data.length ∧ st'.data.length ≤ st.data.length ∧
      st'.alloc + 1024 * st'.data.length ≤ st.alloc + 1024 * st.data.length := (spec_parseHeaderLine st).1 v st' h
theorem parseHeaderLine_err' {st e} (h : parseHeaderLine st = .error e) :
    e.alloc ≤ st.alloc + 1024 * st.data.length + 1024 ∧ ∀ off, e.kind = .syn off → off ≤ st.pos + st.data.length :=
  (spec_parseHeaderLine st).2 e h
attribute [grind →] parseHeaderLine_ok' parseHeaderLine_err'

theorem spec_parseBody (O : Oracle) (strict : Bool) (st : St) : Spec st (parseBody O strict st) := by
  constructor
  · intro v st' h
    unfold parseBody at h
    repeat' (first | split at h | dsimp only at h)
    all_goals (simp only [OkSpec]; grind)
  · intro e h
    unfold parseBody at h
    repeat' (first | split at h | dsimp only at h)
    all_goals first
      | (cases h; done)
      | (simp only [ErrSpec]; grind)

theorem parseBody_ok' {O strict st v st'} (h : parseBody O strict st = .ok (v, st')) :
    st'.len = st.len ∧ st'.pos + st'.data.length = st.pos + st.data.length ∧ st'.data.length ≤ st.data.length ∧
      st'.alloc + 1024 * st'.data.length ≤ st.alloc + 1024 * st.data.length := (spec_parseBody O strict st).1 v st' h
theorem parseBody_err' {O strict st e} (h : parseBody O strict st = .error e) :
    e.alloc ≤ st.alloc + 1024 * st.data.length + 1024 ∧ ∀ off, e.kind = .syn off → off ≤ st.pos + st.data.length :=
  (spec_parseBody O strict st).2 e h
attribute [grind →] parseBody_ok' parseBody_err'

theorem plainErr_err' {α} {st : St} {e : Fail} (h : (plainErr st : Except Fail α) = .error e) :
    e.alloc = st.alloc ∧ e.kind = .plain := by
  simp only [plainErr] at h; cases h; exact ⟨rfl, rfl⟩
attribute [grind →] plainErr_err' plainErr_not_ok

theorem spec_parseMsg (O : Oracle) (strict headerOnly : Bool) (st : St) : Spec st (parseMsg O strict headerOnly st) := by
  constructor
  · intro v st' h
    unfold parseMsg at h
    repeat' (first | split at h | dsimp only at h)
    all_goals first
      | (cases h; done)
      | (simp only [OkSpec]; grind)
  · intro e h
    unfold parseMsg at h
    repeat' (first | split at h | dsimp only at h)
    all_goals first
      | (cases h; done)
      | (simp only [ErrSpec]; grind)

theorem spec_parseLoop (O : Oracle) (strict : Bool) : ∀ (fuel : Nat) (acc : List Msg) (st : St),
    (∀ ms st', parseLoop O strict fuel acc st = .ok (ms, st') → OkSpec st st') ∧
    (∀ e, parseLoop O strict fuel acc st = .error e → ErrSpec st e)
  | 0, acc, st => by
    simp only [parseLoop]
    exact ⟨fun ms st' h => (by cases h; exact ⟨rfl, rfl, Nat.le_refl _, Nat.le_refl _⟩), fun e h => (by cases h)⟩
  | fuel + 1, acc, st => by
    have hm := spec_parseMsg O strict false st
    unfold parseLoop
    split
    · rename_i e he
      exact ⟨fun ms st' h => (by cases h), fun e' h => (by cases h; exact hm.2 e he)⟩
    · rename_i st1 he
      exact ⟨fun ms st' h => (by cases h; exact hm.1 _ _ he), fun e h => (by cases h)⟩
    · rename_i m st1 he
      have h1 := hm.1 _ _ he
      have ih := spec_parseLoop O strict fuel (m :: acc) st1
      simp only [OkSpec, ErrSpec] at h1 ih ⊢
      constructor
      · intro ms st' h; have := ih.1 ms st' h; omega
      · intro e h
        have := ih.2 e h
        exact ⟨by omega, fun off ho => by have := this.2 off ho; omega⟩

/-- **Summed pre-allocation is linear in the input** (`hint_alloc_bound`). -/
theorem parseAll_alloc_bound (O : Oracle) (strict : Bool) (input : Bytes) :
    (parseAll O strict input).alloc ≤ 1024 * input.length + 1024 := by
  have h := spec_parseLoop O strict (input.length + 1) [] (initSt input)
  unfold parseAll
  split
  · rename_i e he
    have := (h.2 e he).1
    simp only [initSt] at this
    unfold failOut; split <;> simp only <;> omega
  · rename_i ms st he
    have := h.1 ms st he
    simp only [OkSpec, initSt] at this
    simp only; omega

theorem parseOne_alloc_bound (O : Oracle) (strict headerOnly : Bool) (input : Bytes) :
    (parseOne O strict headerOnly input).alloc ≤ 1024 * input.length + 1024 := by
  have h := spec_parseMsg O strict headerOnly (initSt input)
  unfold parseOne
  split
  · rename_i e he
    have := (h.2 e he).1
    simp only [initSt] at this
    unfold failOut; split <;> simp only <;> omega
  · rename_i st he
    have := h.1 _ _ he
    simp only [OkSpec, initSt] at this
    simp only; omega
  · rename_i m st he
    have := h.1 _ _ he
    simp only [OkSpec, initSt] at this
    simp only; omega

/-- **Raw error offsets lie inside the input**: `newParseError` never has to clamp. -/
theorem parseAll_offset_in_input (O : Oracle) (strict : Bool) (input : Bytes) (p : Pos) (a d : Nat)
    (h : parseAll O strict input = ⟨.syntax p, a, d⟩) :
    ∃ off, off ≤ input.length ∧ p = newParseError input off ∧ p.offset = off := by
  have hs := spec_parseLoop O strict (input.length + 1) [] (initSt input)
  unfold parseAll at h
  split at h
  · rename_i e he
    have h2 := (hs.2 e he).2
    unfold failOut at h
    split at h
    · rename_i off hk
      have hoff := h2 off hk
      simp only [initSt, Nat.zero_add] at hoff
      cases h
      refine ⟨off, hoff, rfl, ?_⟩
      simp only [newParseError]
      split <;> omega
    · cases h
    · cases h
  · cases h


/-! ### Fuel -/

/-- With enough fuel the result does not depend on the fuel: `parseItem` on `n` remaining bytes
    needs at most `2n+1`, `parseList` at most `2n+2`. -/
theorem fuel_indep (O : Oracle) (strict : Bool) : ∀ (n : Nat),
    (∀ (st : St) (depth f1 f2 : Nat), st.data.length ≤ n → 2 * n + 1 ≤ f1 → 2 * n + 1 ≤ f2 →
      parseItem O strict f1 depth st = parseItem O strict f2 depth st) ∧
    (∀ (st : St) (depth : Nat) (acc : List Item) (f1 f2 : Nat), st.data.length ≤ n → 2 * n + 2 ≤ f1 → 2 * n + 2 ≤ f2 →
      parseList O strict f1 depth acc st = parseList O strict f2 depth acc st)
  | n => by
    -- induction hypotheses for strictly fewer bytes
    have ihI : ∀ m, m < n → ∀ (st : St) (depth f1 f2 : Nat), st.data.length ≤ m → 2 * m + 1 ≤ f1 → 2 * m + 1 ≤ f2 →
        parseItem O strict f1 depth st = parseItem O strict f2 depth st := fun m _ => (fuel_indep O strict m).1
    have ihL : ∀ m, m < n → ∀ (st : St) (depth : Nat) (acc : List Item) (f1 f2 : Nat), st.data.length ≤ m →
        2 * m + 2 ≤ f1 → 2 * m + 2 ≤ f2 →
        parseList O strict f1 depth acc st = parseList O strict f2 depth acc st := fun m _ => (fuel_indep O strict m).2
    have hItem : ∀ (st : St) (depth f1 f2 : Nat), st.data.length ≤ n → 2 * n + 1 ≤ f1 → 2 * n + 1 ≤ f2 →
        parseItem O strict f1 depth st = parseItem O strict f2 depth st := by
      intro st depth f1 f2 hn h1 h2
      obtain ⟨g1, rfl⟩ : ∃ g, f1 = g + 1 := ⟨f1 - 1, by omega⟩
      obtain ⟨g2, rfl⟩ : ∃ g, f2 = g + 1 := ⟨f2 - 1, by omega⟩
      -- the only fuel-dependent call is `parseList g depth [] X` on a state with fewer bytes
      have key : ∀ X : St, X.data.length + 1 ≤ st.data.length →
          parseList O strict g1 depth [] X = parseList O strict g2 depth [] X := by
        intro X hX
        exact ihL (n - 1) (by omega) X depth [] g1 g2 (by omega) (by omega) (by omega)
      unfold parseItem
      dsimp only
      split
      · rename_i st1 h1'
        split
        · rfl
        · rename_i ty k h2'
          split
          · rfl
          · rename_i mn size st4 h4'
            cases ty
            case list =>
              dsimp only
              by_cases hd : depth > maxListDepth
              · simp only [hd, ↓reduceIte]
              · simp only [hd, ↓reduceIte]
                rw [key _ (by grind)]
            all_goals rfl
      · rfl
    refine ⟨hItem, ?_⟩
    intro st depth acc f1 f2 hn h1 h2
    obtain ⟨g1, rfl⟩ : ∃ g, f1 = g + 1 := ⟨f1 - 1, by omega⟩
    obtain ⟨g2, rfl⟩ : ∃ g, f2 = g + 1 := ⟨f2 - 1, by omega⟩
    unfold parseList
    split
    · -- a child: same item for both fuels, then the rest of the list on fewer bytes
      rename_i st1 hp
      have hst1 : st1.data.length ≤ st.data.length := (peekNS_f hp).2.2.2
      rw [hItem st1 (depth + 1) g1 g2 (by omega) (by omega) (by omega)]
      split
      · rfl
      · rename_i it st2 hi
        have := (parseItem_ok' hi).2.2.1
        exact ihL (n - 1) (by omega) st2 depth (it :: acc) g1 g2 (by omega) (by omega) (by omega)
    · rfl
    · rfl
termination_by n => n

/-- The body parser's own fuel is enough: any larger fuel gives the same item (or error). -/
theorem fuel_suffices_body (O : Oracle) (strict : Bool) (st : St) (depth f : Nat) (h : 2 * st.data.length + 1 ≤ f) :
    parseItem O strict f depth st = parseItem O strict (2 * st.data.length + 1) depth st :=
  (fuel_indep O strict st.data.length).1 st depth f _ (Nat.le_refl _) h (Nat.le_refl _)

theorem parseHeaderLine_consumes {st v st'} (h : parseHeaderLine st = .ok (v, st')) :
    st'.data.length + 1 ≤ st.data.length := by
  unfold parseHeaderLine at h
  repeat' (first | split at h | dsimp only at h)
  all_goals first
    | (cases h; done)
    | grind
attribute [grind →] parseHeaderLine_consumes

/-- A message that is returned consumed at least one byte (its `S`). -/
theorem parseMsg_some_consumes (O : Oracle) (strict headerOnly : Bool) (st : St) (m : Msg) (st' : St)
    (h : parseMsg O strict headerOnly st = .ok (some m, st')) : st'.data.length + 1 ≤ st.data.length := by
  unfold parseMsg at h
  repeat' (first | split at h | dsimp only at h)
  all_goals first
    | (cases h; done)
    | grind

/-- `Parser.Parse`'s message loop: fuel `bytes left + 1` is enough. -/
theorem fuel_indep_loop (O : Oracle) (strict : Bool) : ∀ (n : Nat) (st : St) (acc : List Msg) (f1 f2 : Nat),
    st.data.length ≤ n → n + 1 ≤ f1 → n + 1 ≤ f2 →
    parseLoop O strict f1 acc st = parseLoop O strict f2 acc st
  | n, st, acc, f1, f2, hn, h1, h2 => by
    obtain ⟨g1, rfl⟩ : ∃ g, f1 = g + 1 := ⟨f1 - 1, by omega⟩
    obtain ⟨g2, rfl⟩ : ∃ g, f2 = g + 1 := ⟨f2 - 1, by omega⟩
    unfold parseLoop
    split
    · rfl
    · rfl
    · rename_i m st1 hm
      have hc := parseMsg_some_consumes O strict false st m st1 hm
      cases n with
      | zero => omega
      | succ k => exact fuel_indep_loop O strict k st1 (m :: acc) g1 g2 (by omega) (by omega) (by omega)

/-- **`fuel_suffices`.** The fuel the entry points use (`len(input) + 1` message-loop steps, and
    `2·(bytes left) + 1` for each body) never runs out: with any larger fuel the loop returns exactly
    the same messages, error and counters. -/
theorem parseLoop_fuel_suffices (O : Oracle) (strict : Bool) (input : Bytes) (f : Nat) (h : input.length + 1 ≤ f) :
    parseLoop O strict f [] (initSt input) = parseLoop O strict (input.length + 1) [] (initSt input) :=
  fuel_indep_loop O strict input.length (initSt input) [] f _ (by simp [initSt]) h (Nat.le_refl _)


end GoSecs.Sml
