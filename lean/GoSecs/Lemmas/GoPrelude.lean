/-
  Lemmas about the vocabulary of GoSecs/GoPrelude.lean, used by the `_gen` tie theorems: they lift the
  `Int`-level operations the translator emits to `Nat` operations on in-range operands, and evaluate the
  partial (`…?`) operations when their bounds hold.  Core Lean only.
-/
import GoSecs.GoPrelude

namespace Go

/-! ### byte-sized bit facts, by exhaustive evaluation -/

set_option maxRecDepth 8192 in
theorem or128_lt256 : ∀ n, n < 256 → (n ||| 128) = n % 128 + 128 := by decide
set_option maxRecDepth 8192 in
theorem and128_ne0_lt256 : ∀ n, n < 256 → ((n &&& 128) != 0) = decide (128 ≤ n) := by decide
set_option maxRecDepth 8192 in
theorem shr7_ne0_lt256 : ∀ n, n < 256 → ((n / 128) != 0) = decide (128 ≤ n) := by decide

/-! ### lifting to `Nat` -/

theorem wrapU8_nat (n : Nat) : wrapU 8 (n : Int) = ((n % 256 : Nat) : Int) := by simp [wrapU]
theorem wrapU16_nat (n : Nat) : wrapU 16 (n : Int) = ((n % 65536 : Nat) : Int) := by simp [wrapU]
theorem wrapU32_nat (n : Nat) : wrapU 32 (n : Int) = ((n % 4294967296 : Nat) : Int) := by simp [wrapU]
theorem wrapU64_nat (n : Nat) : wrapU 64 (n : Int) = ((n % 18446744073709551616 : Nat) : Int) := by simp [wrapU]
theorem shr7_nat (n : Nat) : shr (n : Int) 7 = ((n / 128 : Nat) : Int) := by simp [shr]
theorem shr8_nat (n : Nat) : shr (n : Int) 8 = ((n / 256 : Nat) : Int) := by simp [shr]
theorem shr16_nat (n : Nat) : shr (n : Int) 16 = ((n / 65536 : Nat) : Int) := by simp [shr]
theorem shr24_nat (n : Nat) : shr (n : Int) 24 = ((n / 16777216 : Nat) : Int) := by simp [shr]
theorem shl2_nat (n : Nat) : shl (n : Int) 2 = ((n * 4 : Nat) : Int) := by simp [shl]
theorem band_nat (n m : Nat) : band (n : Int) (m : Int) = ((n &&& m : Nat) : Int) := by simp [band]
theorem bor_nat (n m : Nat) : bor (n : Int) (m : Int) = ((n ||| m : Nat) : Int) := by simp [bor]
theorem band127_nat (n : Nat) : band (n : Int) 127 = ((n % 128 : Nat) : Int) := by
  simp only [band, Int.toNat_natCast, Int.reduceToNat]
  exact congrArg _ (Nat.and_two_pow_sub_one_eq_mod n 7)
theorem band3_nat (n : Nat) : band (n : Int) 3 = ((n % 4 : Nat) : Int) := by
  simp only [band, Int.toNat_natCast, Int.reduceToNat]
  exact congrArg _ (Nat.and_two_pow_sub_one_eq_mod n 2)
theorem band32767_nat (n : Nat) : band (n : Int) 32767 = ((n % 32768 : Nat) : Int) := by
  simp only [band, Int.toNat_natCast, Int.reduceToNat]
  exact congrArg _ (Nat.and_two_pow_sub_one_eq_mod n 15)
theorem band65535_nat (n : Nat) : band (n : Int) 65535 = ((n % 65536 : Nat) : Int) := by
  simp only [band, Int.toNat_natCast, Int.reduceToNat]
  exact congrArg _ (Nat.and_two_pow_sub_one_eq_mod n 16)
theorem band128_nat (n : Nat) : band (n : Int) 128 = ((n &&& 128 : Nat) : Int) := by
  simp only [band, Int.toNat_natCast, Int.reduceToNat]

theorem byte_nat (n : Nat) : byte (n : Int) = UInt8.ofNat n := by simp [byte]
theorem u8_ofNat (n : Nat) : u8 (UInt8.ofNat n) = ((n % 256 : Nat) : Int) := by simp [u8]
theorem u8_nat (b : UInt8) : u8 b = ((b.toNat : Nat) : Int) := rfl
theorem len_nat (b : Bytes) : len b = ((b.length : Nat) : Int) := rfl

theorem ofNat_mod256 (n : Nat) : UInt8.ofNat (n % 256) = UInt8.ofNat n := by
  apply UInt8.toNat_inj.mp; simp

theorem ofNat_congr {a b : Nat} (h : a % 256 = b % 256) : UInt8.ofNat a = UInt8.ofNat b := by
  rw [← ofNat_mod256 a, ← ofNat_mod256 b, h]

theorem ofNat_toNat (b : UInt8) : UInt8.ofNat b.toNat = b := by
  apply UInt8.toNat_inj.mp; simp

theorem natCast_bne_zero (n : Nat) : ((n : Int) != 0) = (n != 0) := by
  cases n with
  | zero => rfl
  | succ k =>
    have h1 : ((k + 1 : Nat) != 0) = true := by simp
    have h2 : (((k + 1 : Nat) : Int) != 0) = true := by
      simp only [bne_iff_ne, ne_eq]; omega
    rw [h1, h2]

theorem natCast_beq_zero (n : Nat) : ((n : Int) == 0) = (n == 0) := by
  cases n with
  | zero => rfl
  | succ k =>
    have h1 : ((k + 1 : Nat) == 0) = false := by simp
    have h2 : (((k + 1 : Nat) : Int) == 0) = false := by
      simp only [beq_eq_false_iff_ne, ne_eq]; omega
    rw [h1, h2]

/-- `b | 0x80` on a stored byte. -/
theorem byte_bor128_u8_ofNat (n : Nat) : byte (bor (u8 (UInt8.ofNat n)) 128) = UInt8.ofNat (n % 128 + 128) := by
  rw [u8_ofNat]
  simp only [bor, Int.toNat_natCast, Int.reduceToNat, byte]
  rw [or128_lt256 _ (Nat.mod_lt _ (by decide))]
  exact ofNat_congr (by omega)

/-- `b & 0x80 != 0` on a stored byte. -/
theorem band128_u8_ne0 (b : UInt8) : (band (u8 b) 128 != 0) = decide (128 ≤ b.toNat) := by
  rw [u8_nat, band128_nat, ← and128_ne0_lt256 _ b.toNat_lt, natCast_bne_zero]

/-- `b >> 7 != 0` on a stored byte. -/
theorem shr7_u8_ne0 (b : UInt8) : (shr (u8 b) 7 != 0) = decide (128 ≤ b.toNat) := by
  rw [u8_nat, shr7_nat, ← shr7_ne0_lt256 _ b.toNat_lt, natCast_bne_zero]

/-! ### partial operations when their bounds hold -/

theorem slice?_eq (b : Bytes) (i j : Nat) (h1 : i ≤ j) (h2 : j ≤ b.length) :
    slice? b (i : Int) (j : Int) = some ((b.drop i).take (j - i)) := by
  unfold slice? slice
  have : (0 : Int) ≤ i ∧ (i : Int) ≤ j ∧ (j : Int) ≤ (b.length : Int) := by omega
  simp only [this, and_self, reduceIte, Int.toNat_natCast]

theorem idx?_eq (b : Bytes) (i : Nat) (h : i < b.length) : idx? b (i : Int) = some (u8 b[i]) := by
  unfold idx?
  simp [h]

theorem beU16?_eq (b : Bytes) (h : 2 ≤ b.length) : beU16? b = some (beU16 b) := by
  unfold beU16?; simp [h]

theorem beU32?_eq (b : Bytes) (h : 4 ≤ b.length) : beU32? b = some (beU32 b) := by
  unfold beU32?; simp [h]

/-! ### checked operations at literal positions of explicit lists -/

theorem set?_0 (a : UInt8) (l : Bytes) (v : Int) : set? (a :: l) 0 v = some (byte v :: l) := by
  simp [set?, set] <;> omega
theorem set?_1 (a b : UInt8) (l : Bytes) (v : Int) : set? (a :: b :: l) 1 v = some (a :: byte v :: l) := by
  simp [set?, set] <;> omega
theorem set?_2 (a b c : UInt8) (l : Bytes) (v : Int) : set? (a :: b :: c :: l) 2 v = some (a :: b :: byte v :: l) := by
  simp [set?, set] <;> omega
theorem set?_3 (a b c d : UInt8) (l : Bytes) (v : Int) :
    set? (a :: b :: c :: d :: l) 3 v = some (a :: b :: c :: byte v :: l) := by
  simp [set?, set] <;> omega
theorem idx?_2 (a b c : UInt8) (l : Bytes) : idx? (a :: b :: c :: l) 2 = some (u8 c) := by
  simp [idx?]
theorem slice?_6_10 (a b c d e f g h i j : UInt8) :
    slice? [a, b, c, d, e, f, g, h, i, j] 6 10 = some [g, h, i, j] := by rfl

/-! ### the checksum loop shape: `for _, v := range b { sum += uint32(v) }` -/

def sumB : Bytes → Nat
  | [] => 0
  | x :: xs => x.toNat + sumB xs

theorem foldBFromM_sum32 (f : Int → Int → Int → Option Int)
    (hf : ∀ i v s, f i v s = some (wrapU 32 (s + v))) :
    ∀ (xs : Bytes) (i : Int) (s : Nat), s < 4294967296 →
      foldBFromM f i xs (s : Int) = some (((s + sumB xs) % 4294967296 : Nat) : Int)
  | [], _, s, hs => by
      simp only [foldBFromM, sumB, Nat.add_zero, Nat.mod_eq_of_lt hs]
  | x :: xs, i, s, hs => by
      have e : wrapU 32 ((s : Int) + u8 x) = (((s + x.toNat) % 4294967296 : Nat) : Int) := by
        rw [u8_nat, ← Int.natCast_add, wrapU32_nat]
      simp only [foldBFromM, hf, Option.bind_some, e]
      rw [foldBFromM_sum32 f hf xs (i + 1) _ (Nat.mod_lt _ (by decide))]
      simp only [sumB]
      congr 2
      omega

theorem foldBM_sum32 (f : Int → Int → Int → Option Int)
    (hf : ∀ i v s, f i v s = some (wrapU 32 (s + v))) (xs : Bytes) :
    foldBM xs f 0 = some (((sumB xs % 4294967296 : Nat)) : Int) := by
  have := foldBFromM_sum32 f hf xs 0 0 (by decide)
  simpa [foldBM] using this

end Go
