/-
  Helper lemmas about the SML model (Model/Sml.lean) used by Props/C13, C14, C15, part 2:
  the parser on encoder output (strict ASCII state machine, items, lists, header, messages) and the
  parser-wide invariants (no panic, recursion depth, hint allocation).  Part 1 is Lemmas/SmlBase.lean.
-/
import GoSecs.Lemmas.SmlBase

namespace GoSecs.Sml
open GoSecs GoSecs.Secs2
set_option linter.unusedSimpArgs false

/-! ## Strict ASCII: `parseASCIIStrict` reads back what `writeStrictASCII` writes -/

def IsQuote (q : UInt8) : Prop := q = cDQ ∨ q = cSQ

theorem hexUpper_facts : ∀ d, d < 16 → hexUpper d ≠ 32 ∧ hexUpper d ≠ 62 ∧ (hexUpper d).toNat < 128 ∧
    hexUpper d ≠ 34 ∧ hexUpper d ≠ 39 := by decide

theorem sl_dflt_sp (O : Oracle) (q : UInt8) (hq : IsQuote q) (acc : Bytes) (i : Nat) (r : Bytes) :
    strictLoop O q .dflt acc i 0 (32 :: r) = strictLoop O q .dflt acc (i + 1) 0 r := by
  have : (32 : UInt8) ≠ q := by rcases hq with h | h <;> subst h <;> decide
  simp [strictLoop, this, cSP, cGT, cBS, cDQ, cSQ]

theorem sl_dflt_q (O : Oracle) (q : UInt8) (acc : Bytes) (i : Nat) (r : Bytes) :
    strictLoop O q .dflt acc i 0 (q :: r) = strictLoop O q (.quoted false) acc (i + 1) 0 r := by
  simp [strictLoop, cSP, cGT, cBS, cDQ, cSQ]

theorem sl_dflt_gt (O : Oracle) (q : UInt8) (hq : IsQuote q) (acc : Bytes) (i : Nat) (r : Bytes) :
    strictLoop O q .dflt acc i 0 (cGT :: r) = some (acc.reverse, i + 1) := by
  have : cGT ≠ q := by rcases hq with h | h <;> subst h <;> decide
  simp [strictLoop, this, cSP, cGT, cBS, cDQ, cSQ]

theorem sl_quoted_q (O : Oracle) (q : UInt8) (hq : IsQuote q) (acc : Bytes) (i : Nat) (r : Bytes) :
    strictLoop O q (.quoted false) acc i 0 (q :: r) = strictLoop O q .dflt acc (i + 1) 0 r := by
  have : q ≠ cBS := by rcases hq with h | h <;> subst h <;> decide
  simp [strictLoop, this, cSP, cGT, cBS, cDQ, cSQ]

theorem sl_quoted_bs_bs (O : Oracle) (q : UInt8) (acc : Bytes) (i : Nat) (r : Bytes) :
    strictLoop O q (.quoted false) acc i 0 (cBS :: cBS :: r) = strictLoop O q (.quoted false) (cBS :: acc) (i + 2) 0 r := by
  simp [strictLoop, cSP, cGT, cBS, cDQ, cSQ]

theorem sl_quoted_bs_q (O : Oracle) (q : UInt8) (hq : IsQuote q) (acc : Bytes) (i : Nat) (r : Bytes) :
    strictLoop O q (.quoted false) acc i 0 (cBS :: q :: r) = strictLoop O q (.quoted false) (q :: acc) (i + 2) 0 r := by
  have : q ≠ cBS := by rcases hq with h | h <;> subst h <;> decide
  simp [strictLoop, this, cSP, cGT, cBS, cDQ, cSQ]

theorem sl_quoted_bs_gt (O : Oracle) (q : UInt8) (hq : IsQuote q) (acc : Bytes) (i : Nat) (r : Bytes) :
    strictLoop O q (.quoted false) acc i 0 (cBS :: cGT :: r) = strictLoop O q (.quoted false) (cGT :: acc) (i + 2) 0 r := by
  have : cGT ≠ q := by rcases hq with h | h <;> subst h <;> decide
  simp [strictLoop, this, cSP, cGT, cBS, cDQ, cSQ]

theorem sl_quoted_plain (O : Oracle) (q : UInt8) (c : UInt8) (acc : Bytes) (i : Nat) (r : Bytes)
    (h1 : c ≠ cBS) (h2 : c ≠ q) (h3 : c ≠ cGT) (h4 : c.toNat < 128) :
    strictLoop O q (.quoted false) acc i 0 (c :: r) = strictLoop O q (.quoted false) (c :: acc) (i + 1) 0 r := by
  simp [strictLoop, h1, h2, h3, h4, cSP, cGT, cBS, cDQ, cSQ] at *

/-- A `0xHH` token in default mode, terminated by a space or by `>`. -/
theorem sl_dflt_hex (O : Oracle) (q : UInt8) (hq : IsQuote q) (b : UInt8) (acc : Bytes) (i : Nat) (r : Bytes) :
    strictLoop O q .dflt acc i 0 (48 :: 120 :: hexUpper (b.toNat / 16) :: hexUpper (b.toNat % 16) :: 32 :: r) =
      strictLoop O q .dflt (b :: acc) (i + 5) 0 r ∧
    strictLoop O q .dflt acc i 0 (48 :: 120 :: hexUpper (b.toNat / 16) :: hexUpper (b.toNat % 16) :: cGT :: r) =
      some ((b :: acc).reverse, i + 5) := by
  have hb := b.toNat_lt
  obtain ⟨a1, a2, a3, a4, a5⟩ := hexUpper_facts (b.toNat / 16) (by omega)
  obtain ⟨b1, b2, b3, b4, b5⟩ := hexUpper_facts (b.toNat % 16) (by omega)
  have hq0 : (48 : UInt8) ≠ q := by rcases hq with h | h <;> subst h <;> decide
  have hp := parseCharTok_hexTok O b
  simp only [hexTok] at hp
  constructor <;>
    simp [strictLoop, hq0, a1, a2, a3, b1, b2, b3, hp, cSP, cGT, cBS, cDQ, cSQ]

theorem strictRuns_ff_head (q : UInt8) (c : UInt8) (cs : Bytes) :
    ∃ X, strictRuns q false false (c :: cs) = 32 :: X := by
  by_cases hp : isPrintASCII c = true <;> simp [strictRuns, hp, cSP]

theorem isPrint_lt (c : UInt8) (h : isPrintASCII c = true) : c.toNat < 128 := by
  simp [isPrintASCII] at h; omega

/-- The parser's state machine inverts the encoder's, from both of the encoder's states. -/
theorem strictLoop_strictRuns (O : Oracle) (q : UInt8) (hq : IsQuote q) (rest : Bytes) :
    ∀ (s : Bytes) (acc : Bytes) (i : Nat),
      (∀ first, strictLoop O q .dflt acc i 0 (strictRuns q first false s ++ cGT :: rest) =
        some (acc.reverse ++ s, i + (strictRuns q first false s).length + 1)) ∧
      (strictLoop O q (.quoted false) acc i 0 (strictRuns q false true s ++ cGT :: rest) =
        some (acc.reverse ++ s, i + (strictRuns q false true s).length + 1))
  | [], acc, i => by
    constructor
    · intro first
      simp [strictRuns, sl_dflt_gt O q hq]
    · simp [strictRuns, sl_quoted_q O q hq, sl_dflt_gt O q hq]
  | c :: cs, acc, i => by
    have ih := strictLoop_strictRuns O q hq rest cs
    by_cases hp : isPrintASCII c = true
    · -- printable: (open a run) (escape) c, continue inside the run
      have hlt := isPrint_lt c hp
      -- inside a run: escape + char
      have inrun : ∀ acc i, strictLoop O q (.quoted false) acc i 0
          (((if c = q ∨ c = cBS ∨ c = cGT then [cBS] else []) ++ (c :: strictRuns q false true cs)) ++ cGT :: rest) =
          some (acc.reverse ++ c :: cs,
            i + ((if c = q ∨ c = cBS ∨ c = cGT then [cBS] else []) ++ (c :: strictRuns q false true cs)).length + 1) := by
        intro acc i
        by_cases h1 : c = q
        · subst h1
          simp only [true_or, ↓reduceIte, List.cons_append, List.nil_append]
          rw [sl_quoted_bs_q O c hq, (ih (c :: acc) (i + 2)).2]
          simp; omega
        · by_cases h2 : c = cBS
          · subst h2
            simp only [or_true, true_or, ↓reduceIte, List.cons_append, List.nil_append]
            rw [sl_quoted_bs_bs, (ih (cBS :: acc) (i + 2)).2]
            simp; omega
          · by_cases h3 : c = cGT
            · subst h3
              simp only [or_true, ↓reduceIte, List.cons_append, List.nil_append]
              rw [sl_quoted_bs_gt O q hq, (ih (cGT :: acc) (i + 2)).2]
              simp; omega
            · simp only [h1, h2, h3, or_self, ↓reduceIte, List.nil_append, List.cons_append]
              rw [sl_quoted_plain O q c acc i _ h2 h1 h3 hlt, (ih (c :: acc) (i + 1)).2]
              simp; omega
      constructor
      · intro first
        cases first
        · have e : strictRuns q false false (c :: cs) =
              32 :: q :: ((if c = q ∨ c = cBS ∨ c = cGT then [cBS] else []) ++ (c :: strictRuns q false true cs)) := by
            simp [strictRuns, hp, cSP]
          rw [e]
          simp only [List.cons_append]
          rw [sl_dflt_sp O q hq, sl_dflt_q]
          have := inrun acc (i + 1 + 1)
          simp only [List.cons_append, List.append_assoc] at this ⊢
          rw [this]; simp; omega
        · have e : strictRuns q true false (c :: cs) =
              q :: ((if c = q ∨ c = cBS ∨ c = cGT then [cBS] else []) ++ (c :: strictRuns q false true cs)) := by
            simp [strictRuns, hp]
          rw [e]
          simp only [List.cons_append]
          rw [sl_dflt_q]
          have := inrun acc (i + 1)
          simp only [List.cons_append, List.append_assoc] at this ⊢
          rw [this]; simp; omega
      · have e : strictRuns q false true (c :: cs) =
            ((if c = q ∨ c = cBS ∨ c = cGT then [cBS] else []) ++ (c :: strictRuns q false true cs)) := by
          simp [strictRuns, hp]
        rw [e]
        exact inrun acc i
    · -- non-printable: close the run, 0xHH token
      -- the token in default mode followed by the rest of the string
      have tok : ∀ acc i, strictLoop O q .dflt acc i 0
          ((48 :: 120 :: hexUpper (c.toNat / 16) :: hexUpper (c.toNat % 16) :: strictRuns q false false cs) ++ cGT :: rest) =
          some (acc.reverse ++ c :: cs, i + (4 + (strictRuns q false false cs).length) + 1) := by
        intro acc i
        cases cs with
        | nil =>
          have e0 : strictRuns q false false [] = [] := by simp [strictRuns]
          rw [e0]
          simp only [List.cons_append, List.nil_append]
          rw [(sl_dflt_hex O q hq c acc i rest).2]
          simp
        | cons d ds =>
          obtain ⟨X, hX⟩ := strictRuns_ff_head q d ds
          have ih1 := (ih (c :: acc) (i + 4)).1 false
          rw [hX] at ih1 ⊢
          simp only [List.cons_append] at ih1 ⊢
          rw [sl_dflt_sp O q hq] at ih1
          rw [(sl_dflt_hex O q hq c acc i (X ++ cGT :: rest)).1]
          have e5 : i + 5 = i + 4 + 1 := by omega
          rw [e5, ih1]
          simp; omega
      constructor
      · intro first
        cases first
        · have e : strictRuns q false false (c :: cs) =
              32 :: 48 :: 120 :: hexUpper (c.toNat / 16) :: hexUpper (c.toNat % 16) :: strictRuns q false false cs := by
            simp [strictRuns, hp, cSP]
          rw [e]
          simp only [List.cons_append]
          rw [sl_dflt_sp O q hq]
          have := tok acc (i + 1)
          simp only [List.cons_append] at this
          rw [this]; simp; omega
        · have e : strictRuns q true false (c :: cs) =
              48 :: 120 :: hexUpper (c.toNat / 16) :: hexUpper (c.toNat % 16) :: strictRuns q false false cs := by
            simp [strictRuns, hp]
          rw [e]
          have := tok acc i
          rw [this]; simp; omega
      · have e : strictRuns q false true (c :: cs) =
            q :: 32 :: 48 :: 120 :: hexUpper (c.toNat / 16) :: hexUpper (c.toNat % 16) :: strictRuns q false false cs := by
          simp [strictRuns, hp, cSP]
        rw [e]
        simp only [List.cons_append]
        rw [sl_quoted_q O q hq, sl_dflt_sp O q hq]
        have := tok acc (i + 1 + 1)
        simp only [List.cons_append] at this
        rw [this]; simp; omega

theorem hexUpper_notq : ∀ d, d < 16 → hexUpper d ≠ cGT ∧ hexUpper d ≠ cSQ ∧ hexUpper d ≠ cDQ := by decide

/-- Quote detection finds the encoder's quote if the text has a quoted run, else defaults to `"`. -/
theorem detectQuote_strictRuns (q : UInt8) (hq : IsQuote q) (rest : Bytes) :
    ∀ (s : Bytes) (first : Bool),
      detectQuote (strictRuns q first false s ++ cGT :: rest) = if s.any isPrintASCII then q else cDQ
  | [], first => by simp [strictRuns, detectQuote]
  | c :: cs, first => by
    have hqq : q = cSQ ∨ q = cDQ := by rcases hq with h | h <;> simp [h]
    have hqgt : q ≠ cGT := by rcases hq with h | h <;> subst h <;> decide
    by_cases hp : isPrintASCII c = true
    · cases first <;> simp [strictRuns, hp, detectQuote, hqq, hqgt, cSP, cGT, cSQ, cDQ] <;>
        (rcases hq with h | h <;> subst h <;> simp [cDQ, cSQ])
    · have ih := detectQuote_strictRuns q hq rest cs false
      have hb := c.toNat_lt
      obtain ⟨a1, a2, a3⟩ := hexUpper_notq (c.toNat / 16) (by omega)
      obtain ⟨b1, b2, b3⟩ := hexUpper_notq (c.toNat % 16) (by omega)
      have hpf : isPrintASCII c = false := by simpa using hp
      cases first <;>
        simp [strictRuns, hp, hpf, detectQuote, a1, a2, a3, b1, b2, b3, cSP, cGT, cSQ, cDQ] <;>
        simpa [cGT, cDQ, hpf] using ih

theorem strictRuns_noprint (q q' : UInt8) : ∀ (s : Bytes) (first : Bool), s.any isPrintASCII = false →
    strictRuns q first false s = strictRuns q' first false s
  | [], _, _ => by simp [strictRuns]
  | c :: cs, first, h => by
    simp only [List.any_cons, Bool.or_eq_false_iff] at h
    have ih := strictRuns_noprint q q' cs false h.2
    simp [strictRuns, h.1, ih]

theorem parseASCIIStrict_of_loop (O : Oracle) (size : Nat) (st : St) (s : Bytes) (n : Nat)
    (h : strictLoop O (detectQuote st.data) .dflt [] 0 0 st.data = some (s, n)) :
    parseASCIIStrict O size st = .ok (.ascii s, fwd n { st with alloc := st.alloc + asciiPrealloc size st.data }) := by
  simp only [parseASCIIStrict, h]

theorem parseASCIIStrict_none (O : Oracle) (size : Nat) (st : St)
    (h : strictLoop O (detectQuote st.data) .dflt [] 0 0 st.data = none) :
    parseASCIIStrict O size st = syn { st with alloc := st.alloc + asciiPrealloc size st.data } := by
  simp only [parseASCIIStrict, h]

theorem fwd_len (n : Nat) (st : St) : (fwd n st).len = st.len := by
  simp only [fwd]; split <;> rfl

/-- `parseASCIIStrict` on `writeStrictASCII` output followed by `>`. -/
theorem parseASCIIStrict_write (O : Oracle) (q : UInt8) (hq : IsQuote q) (size : Nat) (st : St) (s rest : Bytes)
    (h : st.data = writeStrictASCII q s ++ cGT :: rest) :
    ∃ st', parseASCIIStrict O size st = .ok (.ascii s, st') ∧ st'.data = rest ∧ st'.len = st.len := by
  -- it suffices to run the loop with the detected quote over the whole rendering
  suffices hl : strictLoop O (detectQuote st.data) .dflt [] 0 0 st.data =
      some (s, (writeStrictASCII q s ++ [cGT]).length) by
    refine ⟨_, parseASCIIStrict_of_loop O size st s _ hl, ?_, by rw [fwd_len]⟩
    have hx := fwd_exact { st with alloc := st.alloc + asciiPrealloc size st.data } (writeStrictASCII q s ++ [cGT]) rest (by simp [h])
    rw [hx]; rfl
  cases s with
  | nil =>
    have hqgt : q ≠ cGT := by rcases hq with h | h <;> subst h <;> decide
    have hqq : q = cSQ ∨ q = cDQ := by rcases hq with h | h <;> simp [h]
    simp only [writeStrictASCII, List.cons_append, List.nil_append] at h ⊢
    have hd : detectQuote (q :: q :: cGT :: rest) = q := by simp [detectQuote, hqgt, hqq]
    rw [h, hd, sl_dflt_q, sl_quoted_q O q hq, sl_dflt_gt O q hq]; rfl
  | cons c cs =>
    have hw : writeStrictASCII q (c :: cs) = strictRuns q true false (c :: cs) := rfl
    rw [hw] at h ⊢
    have hd := detectQuote_strictRuns q hq rest (c :: cs) true
    by_cases hany : (c :: cs).any isPrintASCII = true
    · rw [hany] at hd; simp only [↓reduceIte] at hd
      have hl := (strictLoop_strictRuns O q hq rest (c :: cs) [] 0).1 true
      rw [h, hd, hl]; simp
    · have hany' : (c :: cs).any isPrintASCII = false := by simpa using hany
      rw [hany'] at hd; simp only [Bool.false_eq_true, ↓reduceIte] at hd
      have hdq : IsQuote cDQ := Or.inl rfl
      have hsw := strictRuns_noprint q cDQ (c :: cs) true hany'
      rw [hsw] at h hd ⊢
      have hl := (strictLoop_strictRuns O cDQ hdq rest (c :: cs) [] 0).1 true
      rw [h, hd, hl]; simp

/-! ## Numeric / boolean / binary bodies: `getItemValueStrings` on `spaced` output -/

/-- A byte that can occur in an element token: printable ASCII other than space, `>` and `/`. -/
def TokByte (c : UInt8) : Prop := 32 < c.toNat ∧ c.toNat < 128 ∧ c ≠ cGT ∧ c ≠ 47

def Tok (t : Bytes) : Prop := t ≠ [] ∧ ∀ c ∈ t, TokByte c

theorem spaceWidth_tokByte (c : UInt8) (r : Bytes) (h : TokByte c) : spaceWidth (c :: r) = 0 := by
  obtain ⟨h1, h2, _, _⟩ := h
  have n1 : c ≠ 0xC2 := by intro e; subst e; simp at h2
  have n2 : c ≠ 0xE1 := by intro e; subst e; simp at h2
  have n3 : c ≠ 0xE2 := by intro e; subst e; simp at h2
  have n4 : c ≠ 0xE3 := by intro e; subst e; simp at h2
  have n5 : c ≠ 32 := by intro e; subst e; simp at h1
  unfold spaceWidth
  split <;> simp_all
  omega

theorem spaceWidth_sp (r : Bytes) : spaceWidth (32 :: r) = 1 := by
  unfold spaceWidth
  split <;> simp_all

theorem fieldsAux_tok (t : Bytes) (ht : ∀ c ∈ t, TokByte c) (cur rest : Bytes) :
    fieldsAux cur 0 (t ++ rest) = fieldsAux (t.reverse ++ cur) 0 rest := by
  induction t generalizing cur with
  | nil => rfl
  | cons c cs ih =>
    have hc := ht c (by simp)
    have hcs : ∀ x ∈ cs, TokByte x := fun x hx => ht x (by simp [hx])
    simp only [List.cons_append, fieldsAux, spaceWidth_tokByte c _ hc]
    rw [ih hcs]; simp

theorem tok_rev_nonempty (t : Bytes) (h : Tok t) : t.reverse.isEmpty = false := by
  cases ht : t with
  | nil => exact absurd ht h.1
  | cons a as => simp

theorem fieldsAux_spaced {α} (f : α → Bytes) : ∀ (vs : List α), (∀ v ∈ vs, Tok (f v)) → ∀ (cur : Bytes),
    fieldsAux cur 0 (spaced f vs) = (if cur.isEmpty then [] else [cur.reverse]) ++ vs.map f
  | [], _, cur => by simp [spaced, fieldsAux]
  | v :: vs, hf, cur => by
    have hv := hf v (by simp)
    have hvs : ∀ x ∈ vs, Tok (f x) := fun x hx => hf x (by simp [hx])
    have ih := fieldsAux_spaced f vs hvs ((f v).reverse)
    have hne := tok_rev_nonempty _ hv
    have step : fieldsAux [] 0 (f v ++ spaced f vs) = f v :: vs.map f := by
      rw [fieldsAux_tok (f v) hv.2 [] _]
      simp only [List.append_nil]
      rw [ih, hne]; simp
    simp only [spaced, cSP, fieldsAux, spaceWidth_sp]
    split <;> simp_all

theorem fields_tok_spaced {α} (f : α → Bytes) (v : α) (vs : List α) (hf : ∀ x ∈ v :: vs, Tok (f x)) :
    fields (f v ++ spaced f vs) = (v :: vs).map f := by
  have hv := hf v (by simp)
  have hvs : ∀ x ∈ vs, Tok (f x) := fun x hx => hf x (by simp [hx])
  have ih := fieldsAux_spaced f vs hvs ((f v).reverse)
  have hne := tok_rev_nonempty _ hv
  simp only [fields]
  rw [fieldsAux_tok (f v) hv.2 [] _]
  simp only [List.append_nil]
  rw [ih, hne]; simp

theorem indexByte_notin (b : UInt8) (xs : Bytes) (r : Bytes) (i : Nat) (h : b ∉ xs) :
    indexByte b i (xs ++ b :: r) = some (i + xs.length) := by
  induction xs generalizing i with
  | nil => simp [indexByte]
  | cons x xs ih =>
    simp only [List.mem_cons, not_or] at h
    have hx : x ≠ b := fun e => h.1 e.symm
    simp only [List.cons_append, indexByte, hx, ↓reduceIte, List.length_cons]
    rw [ih (i + 1) h.2]; congr 1; omega

theorem gt_notin_spaced {α} (f : α → Bytes) (vs : List α) (hf : ∀ v ∈ vs, Tok (f v)) : cGT ∉ spaced f vs := by
  induction vs with
  | nil => simp [spaced]
  | cons v vs ih =>
    simp only [spaced, List.mem_cons, List.mem_append, not_or]
    refine ⟨by decide, ?_, ih (fun x hx => hf x (by simp [hx]))⟩
    intro hm
    exact ((hf v (by simp)).2 _ hm).2.2.1 rfl

theorem gt_notin_tok (t : Bytes) (ht : Tok t) : cGT ∉ t := fun hm => (ht.2 _ hm).2.2.1 rfl

theorem mapM_map_some {α β} (conv : β → Option α) (f : α → β) (g : α → α) (vs : List α)
    (h : ∀ v ∈ vs, conv (f v) = some (g v)) : (vs.map f).mapM conv = some (vs.map g) := by
  induction vs with
  | nil => rfl
  | cons v vs ih => simp [List.mapM_cons, h v (by simp), ih (fun x hx => h x (by simp [hx]))]

theorem parseValues_of {α} (k : Nat) (conv : Bytes → Option α) (st : St) (i : Nat) (vs : List α)
    (hi : indexByte cGT 0 st.data = some i) (hm : (fields (st.data.take i)).mapM conv = some vs) :
    parseValues k conv st = .ok (vs,
      { ({ st with alloc := st.alloc + k * (fields (st.data.take i)).length } : St) with
        pos := st.pos + (i + 1), data := st.data.drop (i + 1) }) := by
  simp only [parseValues, hi, hm]

/-- `parseValues` reads the tokens the encoder writes (state after `skipComment`, i.e. the leading
    space already consumed). -/
theorem parseValues_tokens {α} (k : Nat) (conv : Bytes → Option α) (f : α → Bytes) (g : α → α) (st : St) (vs : List α) (rest : Bytes)
    (hf : ∀ v ∈ vs, Tok (f v)) (hc : ∀ v ∈ vs, conv (f v) = some (g v))
    (h : st.data = (match vs with | [] => [] | v :: vs' => f v ++ spaced f vs') ++ cGT :: rest) :
    ∃ st', parseValues k conv st = .ok (vs.map g, st') ∧ st'.data = rest ∧ st'.len = st.len
      ∧ st'.maxDepth = st.maxDepth := by
  cases vs with
  | nil =>
    simp only [List.nil_append] at h
    refine ⟨_, parseValues_of k conv st 0 ([].map g) (by simp [h, indexByte]) (by simp [fields, fieldsAux]), ?_⟩
    simp [h]
  | cons v vs' =>
    simp only at h
    have hvs : ∀ x ∈ vs', Tok (f x) := fun x hx => hf x (by simp [hx])
    have hnot : cGT ∉ f v ++ spaced f vs' := by
      simp only [List.mem_append, not_or]
      exact ⟨gt_notin_tok _ (hf v (by simp)), gt_notin_spaced f vs' hvs⟩
    have hi := indexByte_notin cGT (f v ++ spaced f vs') rest 0 hnot
    rw [← h] at hi
    refine ⟨_, parseValues_of k conv st _ ((v :: vs').map g) hi ?_, ?_⟩
    · rw [h]; simp only [Nat.zero_add, List.take_left']
      rw [fields_tok_spaced f v vs' hf]
      exact mapM_map_some conv f g (v :: vs') hc
    · refine ⟨?_, rfl, rfl⟩
      show st.data.drop (0 + (f v ++ spaced f vs').length + 1) = rest
      rw [h]
      have : (f v ++ spaced f vs' ++ cGT :: rest) = (f v ++ spaced f vs' ++ [cGT]) ++ rest := by simp
      rw [this]
      have hl : 0 + (f v ++ spaced f vs').length + 1 = (f v ++ spaced f vs' ++ [cGT]).length := by simp; omega
      rw [hl, List.drop_left]

/-! ## `parseItem` on a tagged, size-hinted item `<TAG[n]body` -/

/-- The state in which the item body is parsed: after `<`, the tag, `[n]` (before `skipComment`). -/
def bodySt (st : St) (depth : Nat) (k : Nat) (body : Bytes) : St :=
  ({ st with maxDepth := max st.maxDepth depth } : St).adv k body

theorem parseItem_prefix (O : Oracle) (strict : Bool) (fuel depth : Nat) (st : St)
    (t0 : UInt8) (tr : Bytes) (ht0 : isWS t0 = false) (ty : Ty) (n : Nat) (body : Bytes)
    (hty : parseItemType ((t0 :: tr) ++ cLB :: (showDec n ++ cRB :: body)) = some (ty, (t0 :: tr).length))
    (hn : n ≤ maxInt32)
    (h : st.data = cLT :: ((t0 :: tr) ++ cLB :: (showDec n ++ cRB :: body))) :
    parseItem O strict (fuel + 1) depth st =
      (match (match ty with
              | .list =>
                if depth > maxListDepth then
                  syn (skipComment (bodySt st depth ((t0 :: tr).length + (showDec n).length + 3) body))
                else parseList O strict fuel depth []
                  (bumpAlloc (16 * listPrealloc n (skipComment (bodySt st depth ((t0 :: tr).length + (showDec n).length + 3) body)).data)
                    (skipComment (bodySt st depth ((t0 :: tr).length + (showDec n).length + 3) body)))
              | _ => parseLeaf O strict ty n (skipComment (bodySt st depth ((t0 :: tr).length + (showDec n).length + 3) body))) with
       | .error e => .error e
       | .ok (it, st) => .ok (it, skipComment st)) := by
  let st0 : St := { st with maxDepth := max st.maxDepth depth }
  have h0 : st0.data = [] ++ cLT :: ((t0 :: tr) ++ cLB :: (showDec n ++ cRB :: body)) := h
  have hnext := nextNS_ws st0 [] cLT _ h0 (by intro x hx; simp at hx) (by decide)
  have hss := skipSpace_none (st0.adv 1 ((t0 :: tr) ++ cLB :: (showDec n ++ cRB :: body))) t0
    (tr ++ cLB :: (showDec n ++ cRB :: body)) rfl ht0
  have hfw := fwd_exact (st0.adv 1 ((t0 :: tr) ++ cLB :: (showDec n ++ cRB :: body))) (t0 :: tr)
    (cLB :: (showDec n ++ cRB :: body)) rfl
  have hsz := fun last => parseItemSize_hint last
    ((st0.adv 1 ((t0 :: tr) ++ cLB :: (showDec n ++ cRB :: body))).adv (t0 :: tr).length (cLB :: (showDec n ++ cRB :: body)))
    n body rfl hn
  have hadv : ((st0.adv 1 ((t0 :: tr) ++ cLB :: (showDec n ++ cRB :: body))).adv (t0 :: tr).length
      (cLB :: (showDec n ++ cRB :: body))).adv ((showDec n).length + 2) body =
      bodySt st depth ((t0 :: tr).length + (showDec n).length + 3) body := by
    simp only [bodySt, St.adv_adv]; congr 1; omega
  simp only [hadv] at hsz
  unfold parseItem
  simp only [List.length_nil, Nat.zero_add] at hnext
  show (match nextNS st0 with
    | (some 60, st) => _
    | (_, st) => syn st) = _
  rw [hnext]
  simp only [hss, St.adv_data, hty, hfw]
  simp only [hsz]
  cases ty <;> rfl


theorem parseItem_prefix_leaf (O : Oracle) (strict : Bool) (fuel depth : Nat) (st : St)
    (t0 : UInt8) (tr : Bytes) (ht0 : isWS t0 = false) (ty : Ty) (hnl : ty ≠ .list) (n : Nat) (body : Bytes)
    (hty : parseItemType ((t0 :: tr) ++ cLB :: (showDec n ++ cRB :: body)) = some (ty, (t0 :: tr).length))
    (hn : n ≤ maxInt32)
    (h : st.data = cLT :: ((t0 :: tr) ++ cLB :: (showDec n ++ cRB :: body))) :
    parseItem O strict (fuel + 1) depth st =
      (match parseLeaf O strict ty n (skipComment (bodySt st depth ((t0 :: tr).length + (showDec n).length + 3) body)) with
       | .error e => .error e
       | .ok (it, st) => .ok (it, skipComment st)) := by
  rw [parseItem_prefix O strict fuel depth st t0 tr ht0 ty n body hty hn h]
  cases ty <;> first | rfl | exact absurd rfl hnl

theorem parseItem_prefix_list (O : Oracle) (strict : Bool) (fuel depth : Nat) (st : St)
    (t0 : UInt8) (tr : Bytes) (ht0 : isWS t0 = false) (n : Nat) (body : Bytes)
    (hty : parseItemType ((t0 :: tr) ++ cLB :: (showDec n ++ cRB :: body)) = some (.list, (t0 :: tr).length))
    (hn : n ≤ maxInt32) (hdepth : depth ≤ maxListDepth)
    (h : st.data = cLT :: ((t0 :: tr) ++ cLB :: (showDec n ++ cRB :: body))) :
    parseItem O strict (fuel + 1) depth st =
      (match parseList O strict fuel depth []
          (bumpAlloc (16 * listPrealloc n (skipComment (bodySt st depth ((t0 :: tr).length + (showDec n).length + 3) body)).data)
            (skipComment (bodySt st depth ((t0 :: tr).length + (showDec n).length + 3) body))) with
       | .error e => .error e
       | .ok (it, st) => .ok (it, skipComment st)) := by
  rw [parseItem_prefix O strict fuel depth st t0 tr ht0 .list n body hty hn h]
  simp only [if_neg (Nat.not_lt.mpr hdepth)]
  rfl

/-! ## Element tokens are tokens -/

theorem tokByte_of_isDigit (c : UInt8) (h : isDigit c = true) : TokByte c := by
  simp only [isDigit, Bool.and_eq_true, decide_eq_true_eq] at h
  refine ⟨by omega, by omega, ?_, ?_⟩ <;> (intro e; rw [e] at h; revert h; decide)

theorem tok_showDec (n : Nat) : Tok (showDec n) := by
  refine ⟨showDec_ne_nil n, fun c hc => tokByte_of_isDigit c ?_⟩
  have := showDec_all_digits n
  rw [List.all_eq_true] at this
  exact this c hc

theorem tok_showInt (v : Int) : Tok (showInt v) := by
  unfold showInt
  split
  · refine ⟨by simp, fun c hc => ?_⟩
    simp only [List.mem_cons] at hc
    rcases hc with rfl | hc
    · exact ⟨by decide, by decide, by decide, by decide⟩
    · exact (tok_showDec _).2 c hc
  · exact tok_showDec _

theorem tok_boolTok (b : Bool) : Tok (boolTok b) := by
  cases b <;> refine ⟨by simp [boolTok], fun c hc => ?_⟩ <;>
    simp [boolTok] at hc <;> (rcases hc with rfl | rfl | rfl | rfl | rfl <;> exact ⟨by decide, by decide, by decide, by decide⟩) <;>
    skip

theorem hexUpper_tok : ∀ d, d < 16 → 32 < (hexUpper d).toNat ∧ (hexUpper d).toNat < 128 ∧ hexUpper d ≠ cGT ∧ hexUpper d ≠ 47 := by
  decide

theorem tok_hexTok (b : UInt8) : Tok (hexTok b) := by
  have hb := b.toNat_lt
  refine ⟨by simp [hexTok], fun c hc => ?_⟩
  simp only [hexTok, List.mem_cons, List.not_mem_nil, or_false] at hc
  rcases hc with rfl | rfl | rfl | rfl
  · exact ⟨by decide, by decide, by decide, by decide⟩
  · exact ⟨by decide, by decide, by decide, by decide⟩
  · exact hexUpper_tok _ (by omega)
  · exact hexUpper_tok _ (by omega)

set_option maxRecDepth 20000 in
theorem showBin_table : ∀ n, n < 256 → (showBinAux 8 n []) ≠ [] ∧ ∀ c ∈ showBinAux 8 n [], c = 48 ∨ c = 49 := by
  decide

theorem tok_binTok (b : UInt8) : Tok (binTok b) := by
  have hb := b.toNat_lt
  obtain ⟨_, h2⟩ := showBin_table b.toNat hb
  refine ⟨by simp [binTok], fun c hc => ?_⟩
  simp only [binTok, List.mem_cons] at hc
  rcases hc with rfl | rfl | hc
  · exact ⟨by decide, by decide, by decide, by decide⟩
  · exact ⟨by decide, by decide, by decide, by decide⟩
  · rcases h2 c hc with rfl | rfl <;> exact ⟨by decide, by decide, by decide, by decide⟩

theorem tokByte_notWS (c : UInt8) (h : TokByte c) : isWS c = false := by
  obtain ⟨h1, _, _, _⟩ := h
  simp only [isWS, Bool.or_eq_false_iff, decide_eq_false_iff_not]
  refine ⟨⟨⟨?_, ?_⟩, ?_⟩, ?_⟩ <;> (intro e; subst e; simp at h1)

/-! ## Numeric leaves -/

/-- After `[n]`: `skipComment`, then the values up to `>`. -/
theorem values_after_skip {α} (conv : Bytes → Option α) (f : α → Bytes) (g : α → α) (st : St) (vs : List α) (rest : Bytes)
    (k : Nat) (hf : ∀ v ∈ vs, Tok (f v)) (hc : ∀ v ∈ vs, conv (f v) = some (g v))
    (h : st.data = spaced f vs ++ cGT :: rest) :
    ∃ st', parseValues k conv (skipComment st) = .ok (vs.map g, st') ∧ st'.data = rest ∧ st'.len = st.len := by
  cases vs with
  | nil =>
    have hs : skipComment st = st.adv 0 (cGT :: rest) :=
      skipComment_ws st [] cGT rest (by simpa [spaced] using h) (by intro x hx; simp at hx) (by decide) (by decide)
    obtain ⟨st', h1, h2, h3, _⟩ := parseValues_tokens k conv f g (skipComment st) [] rest hf hc
      (by rw [hs]; rfl)
    exact ⟨st', h1, h2, by rw [h3, hs]; rfl⟩
  | cons v vs' =>
    have hv := hf v (by simp)
    obtain ⟨a, as, hfa⟩ : ∃ a as, f v = a :: as := by
      cases hfv : f v with
      | nil => exact absurd hfv hv.1
      | cons a as => exact ⟨a, as, rfl⟩
    have ha : TokByte a := hv.2 a (by simp [hfa])
    have hdata : st.data = [cSP] ++ a :: (as ++ spaced f vs' ++ cGT :: rest) := by
      rw [h]; simp [spaced, hfa]
    have hs := skipComment_ws st [cSP] a _ hdata (by intro x hx; simp at hx; subst hx; decide)
      (tokByte_notWS a ha) ha.2.2.2
    obtain ⟨st', h1, h2, h3, _⟩ := parseValues_tokens k conv f g (skipComment st) (v :: vs') rest hf hc
      (by rw [hs]; simp [hfa])
    exact ⟨st', h1, h2, by rw [h3, hs]; rfl⟩

theorem numItem_append {α} (tag : Bytes) (f : α → Bytes) (vs : List α) (rest : Bytes) :
    numItem tag f vs ++ rest = cLT :: (tag ++ cLB :: (showDec vs.length ++ cRB :: (spaced f vs ++ cGT :: rest))) := by
  simp [numItem]

/-- A numeric / boolean / binary item as either renderer writes it, followed by white space and a
    non-space byte, is read back by `parseItem`. -/
theorem parseItem_numItem {α} (O : Oracle) (strict : Bool) (fuel depth : Nat) (st : St)
    (t0 : UInt8) (tr : Bytes) (ht0 : isWS t0 = false) (ty : Ty) (hnl : ty ≠ .list)
    (conv : Bytes → Option α) (f : α → Bytes) (g : α → α) (mk : List α → Item) (k : Nat)
    (hleaf : ∀ size st, parseLeaf O strict ty size st =
      (match parseValues k conv st with
       | .error e => .error e | .ok (vs, st) => .ok (mk vs, st)))
    (hty : ∀ X, parseItemType ((t0 :: tr) ++ cLB :: X) = some (ty, (t0 :: tr).length))
    (vs : List α) (hn : vs.length ≤ maxInt32) (hf : ∀ v ∈ vs, Tok (f v)) (hc : ∀ v ∈ vs, conv (f v) = some (g v))
    (ws : Bytes) (c : UInt8) (r : Bytes) (hws : AllWS ws) (hcw : isWS c = false) (hc47 : c ≠ 47)
    (h : st.data = numItem (t0 :: tr) f vs ++ (ws ++ c :: r)) :
    ∃ st', parseItem O strict (fuel + 1) depth st = .ok (mk (vs.map g), st') ∧ st'.data = c :: r ∧ st'.len = st.len := by
  rw [numItem_append] at h
  rw [parseItem_prefix_leaf O strict fuel depth st t0 tr ht0 ty hnl vs.length _ (hty _) hn h]
  obtain ⟨st1, h1, h2, h3⟩ := values_after_skip conv f g
    (bodySt st depth ((t0 :: tr).length + (showDec vs.length).length + 3) (spaced f vs ++ cGT :: (ws ++ c :: r)))
    vs (ws ++ c :: r) k hf hc rfl
  have hfin := skipComment_ws st1 ws c r h2 hws hcw hc47
  refine ⟨st1.adv ws.length (c :: r), ?_, rfl, ?_⟩
  · rw [hleaf, h1]
    simp only [hfin]
  · simp only [St.adv_len, h3]; rfl

/-! ## Items without a size hint (`<W "…">`, `<L<L>>`) -/

theorem parseItemSize_none (last : UInt8) (st : St) (ws : Bytes) (c : UInt8) (r : Bytes)
    (h : st.data = ws ++ c :: r) (hws : AllWS ws) (hc : isWS c = false) (hlb : c ≠ cLB) :
    parseItemSize last st = .ok ((0, 0), st.adv ws.length (c :: r)) := by
  unfold parseItemSize
  rw [skipSpace_ws st ws c r h hws hc]
  simp [hlb]

theorem parseItem_nohint (O : Oracle) (strict : Bool) (fuel depth : Nat) (st : St)
    (t0 : UInt8) (tr : Bytes) (ht0 : isWS t0 = false) (ty : Ty) (hnl : ty ≠ .list) (ws : Bytes) (c : UInt8) (body : Bytes)
    (hws : AllWS ws) (hc : isWS c = false) (hlb : c ≠ cLB)
    (hty : parseItemType ((t0 :: tr) ++ (ws ++ c :: body)) = some (ty, (t0 :: tr).length))
    (h : st.data = cLT :: ((t0 :: tr) ++ (ws ++ c :: body))) :
    parseItem O strict (fuel + 1) depth st =
      (match parseLeaf O strict ty 0 (skipComment (bodySt st depth ((t0 :: tr).length + ws.length + 1) (c :: body))) with
       | .error e => .error e
       | .ok (it, st) => .ok (it, skipComment st)) := by
  let st0 : St := { st with maxDepth := max st.maxDepth depth }
  have h0 : st0.data = [] ++ cLT :: ((t0 :: tr) ++ (ws ++ c :: body)) := h
  have hnext := nextNS_ws st0 [] cLT _ h0 (by intro x hx; simp at hx) (by decide)
  have hss := skipSpace_none (st0.adv 1 ((t0 :: tr) ++ (ws ++ c :: body))) t0 (tr ++ (ws ++ c :: body)) rfl ht0
  have hfw := fwd_exact (st0.adv 1 ((t0 :: tr) ++ (ws ++ c :: body))) (t0 :: tr) (ws ++ c :: body) rfl
  have hsz := fun last => parseItemSize_none last
    ((st0.adv 1 ((t0 :: tr) ++ (ws ++ c :: body))).adv (t0 :: tr).length (ws ++ c :: body)) ws c body rfl hws hc hlb
  have hadv : ((st0.adv 1 ((t0 :: tr) ++ (ws ++ c :: body))).adv (t0 :: tr).length (ws ++ c :: body)).adv ws.length (c :: body) =
      bodySt st depth ((t0 :: tr).length + ws.length + 1) (c :: body) := by
    simp only [bodySt, St.adv_adv]; congr 1; omega
  simp only [hadv] at hsz
  unfold parseItem
  simp only [List.length_nil, Nat.zero_add] at hnext
  show (match nextNS st0 with
    | (some 60, st) => _
    | (_, st) => syn st) = _
  rw [hnext]
  simp only [hss, St.adv_data, hty, hfw]
  simp only [hsz]
  cases ty <;> first | rfl | exact absurd rfl hnl

/-! ## JIS-8 and localized text -/

theorem scanQuoted_plain (q : UInt8) (hq : IsQuote q) (rest : Bytes) : ∀ (s : Bytes) (i lq : Nat),
    (∀ c ∈ s, c ≠ q ∧ c ≠ cGT) → lq ≤ i →
    scanQuoted q i lq (s ++ q :: cGT :: rest) = some (i + s.length, i + s.length + 1)
  | [], i, lq, _, _ => by
    have : cGT ≠ q := by rcases hq with e | e <;> subst e <;> decide
    simp [scanQuoted, this]
  | c :: cs, i, lq, h, hle => by
    have hc := h c (by simp)
    have ih := scanQuoted_plain q hq rest cs (i + 1) lq (fun x hx => h x (by simp [hx])) (by omega)
    simp only [List.cons_append, scanQuoted, hc.1, hc.2, ↓reduceIte, List.length_cons]
    rw [ih]; congr 2 <;> omega

/-- `parseJIS8` / `parseLocalizedStr` on ` q text q >` where the text has neither the quote nor `>`. -/
theorem parseQuoted_plain (mk : UInt8 → Bytes → Item) (q : UInt8) (hq : IsQuote q) (st : St) (s rest : Bytes)
    (hs : ∀ c ∈ s, c ≠ q ∧ c ≠ cGT) (h : st.data = q :: (s ++ q :: cGT :: rest)) :
    ∃ st', parseQuoted mk st = .ok (mk q s, st') ∧ st'.data = rest ∧ st'.len = st.len := by
  have hqws : isWS q = false := by rcases hq with e | e <;> subst e <;> decide
  have hq62 : q ≠ 62 := by rcases hq with e | e <;> subst e <;> decide
  have hqq : ¬(q ≠ cSQ ∧ q ≠ cDQ) := by rcases hq with e | e <;> subst e <;> decide
  have hn := nextNS_ws st [] q _ (by simpa using h) (by intro x hx; simp at hx) hqws
  have hsc := scanQuoted_plain q hq rest s 0 0 hs (Nat.le_refl 0)
  simp only [Nat.zero_add, List.length_nil] at hn hsc
  have hfw := fwd_exact (st.adv 1 (s ++ q :: cGT :: rest)) (s ++ [q, cGT]) rest (by simp)
  refine ⟨(st.adv 1 (s ++ q :: cGT :: rest)).adv (s ++ [q, cGT]).length rest, ?_, rfl, rfl⟩
  unfold parseQuoted
  rw [hn]
  have hlen : (s ++ [q, cGT]).length = s.length + 1 + 1 := by simp
  rw [hlen] at hfw
  split
  · rename_i heq; simp at heq; exact absurd heq.1 hq62
  · rename_i c' st' heq
    simp only [Prod.mk.injEq, Option.some.injEq] at heq
    obtain ⟨rfl, rfl⟩ := heq
    rw [if_neg hqq]
    simp only [St.adv_data, hsc, List.take_left', hfw, hlen]
  · rename_i heq; simp at heq

/-! ## Every leaf kind, as the strict encoder writes it -/

/-- What `ParseFloat(FormatFloat(v))` gives back for the element with bits `v` (for a NaN: some NaN,
    the payload is not preserved by the text form). -/
def canonF (O : Oracle) (w : FWidth) (v : Nat) : Nat := (O.parseF w (O.fmtF w v)).getD v

/-- What the strict parser returns for a value: the same item, with the localized-string header
    replaced by the one the parser always assigns (UTF-8 = 2) and every float element as
    `strconv` reads its rendering back (equal bits, or a NaN for a NaN: `LeafOK`). -/
def canonLeaf (O : Oracle) : Item → Item
  | .lstr _ s => .lstr 2 s
  | .float w vs => .float w (vs.map (canonF O w))
  | it => it

/-- The leaf grammar of the round-trip theorem.  Lengths are bounded by what a size hint may say
    (2³¹−1; the E5 cap 2²⁴−1 is far below).  ASCII: any bytes.  JIS-8: no quote, no `>`.
    Localized text: `strconv.Quote` renders it as `"body"` where the body has no bare `"` and no `>`
    and `unquoteLocalizedStr` (i.e. `strconv.Unquote` when the body has a backslash) gives the text back.
    Floats: the renderer yields a token that `ParseFloat` reads back to the same bits, or to a NaN
    if the element is a NaN (`floatBitsEq`: NaN payload bits aside, as the property states). -/
def LeafOK (O : Oracle) : Item → Prop
  | .empty => False
  | .list _ => False
  | .binary bs => bs.length ≤ maxInt32
  | .boolean vs => vs.length ≤ maxInt32
  | .ascii s => s.length ≤ maxInt32
  | .jis8 s => s.length ≤ maxInt32 ∧ ∀ c ∈ s, c ≠ cDQ ∧ c ≠ cSQ ∧ c ≠ cGT
  | .lstr _ s => ∃ body, goQuote O s = cDQ :: (body ++ [cDQ]) ∧ (∀ c ∈ body, c ≠ cDQ ∧ c ≠ cGT) ∧
      unquoteW O cDQ body = s
  | .int w vs => vs.length ≤ maxInt32 ∧ ∀ v ∈ vs, intLo w.bytes ≤ v ∧ v ≤ intHi w.bytes
  | .uint w vs => vs.length ≤ maxInt32 ∧ ∀ v ∈ vs, v < 256 ^ w.bytes
  | .float w vs => vs.length ≤ maxInt32 ∧ ∀ v ∈ vs, Tok (O.fmtF w v) ∧
      ∃ v', O.parseF w (O.fmtF w v) = some v' ∧ floatBitsEq w v v' = true

theorem quoteByte_isQuote (o : Opts) : IsQuote o.quoteByte := by
  unfold Opts.quoteByte; split
  · exact Or.inr rfl
  · exact Or.inl rfl

theorem writeStrictASCII_head (q : UInt8) (hq : IsQuote q) (s : Bytes) :
    ∃ a as, writeStrictASCII q s = a :: as ∧ isWS a = false ∧ a ≠ 47 := by
  have hqw : isWS q = false ∧ q ≠ 47 := by rcases hq with e | e <;> subst e <;> decide
  cases s with
  | nil => exact ⟨q, [q], rfl, hqw.1, hqw.2⟩
  | cons c cs =>
    by_cases hp : isPrintASCII c = true
    · exact ⟨q, _, by simp [writeStrictASCII, strictRuns, hp]; rfl, hqw.1, hqw.2⟩
    · exact ⟨48, _, by simp [writeStrictASCII, strictRuns, hp]; rfl, by decide, by decide⟩

theorem width_le8 (w : Width) : w.bytes ≤ 8 ∧ 0 < w.bytes := by cases w <;> simp [Width.bytes]

/-- Each leaf the strict encoder writes, followed by white space and a non-space byte other than
    `/`, is read back by `parseItem` (strict mode) as the same value. -/
theorem parseItem_leaf (O : Oracle) (o : Opts) (ho : o.strict = true) (it : Item) (hok : LeafOK O it)
    (fuel depth : Nat) (st : St) (ws : Bytes) (c : UInt8) (r : Bytes)
    (hws : AllWS ws) (hcw : isWS c = false) (hc47 : c ≠ 47)
    (h : st.data = encodeLeaf O o it ++ (ws ++ c :: r)) :
    ∃ st', parseItem O true (fuel + 1) depth st = .ok (canonLeaf O it, st') ∧ st'.data = c :: r ∧ st'.len = st.len := by
  cases it with
  | empty => exact absurd hok id
  | list cs => exact absurd hok id
  | binary bs =>
    by_cases hb : o.binLiteral = true
    · simpa [canonLeaf] using parseItem_numItem O true fuel depth st 66 [] (by decide) .binary (by decide) (parseBinTok O) binTok id .binary 1
        (by intro _ _; simp only [parseLeaf]; generalize parseValues _ _ _ = x; rcases x with e | ⟨vs, st⟩ <;> rfl) (fun _ => rfl) bs hok (fun v _ => tok_binTok v) (fun v _ => parseBinTok_binTok O v)
        ws c r hws hcw hc47 (by simpa [encodeLeaf, hb] using h)
    · simpa [canonLeaf] using parseItem_numItem O true fuel depth st 66 [] (by decide) .binary (by decide) (parseBinTok O) hexTok id .binary 1
        (by intro _ _; simp only [parseLeaf]; generalize parseValues _ _ _ = x; rcases x with e | ⟨vs, st⟩ <;> rfl) (fun _ => rfl) bs hok (fun v _ => tok_hexTok v) (fun v _ => parseBinTok_hexTok O v)
        ws c r hws hcw hc47 (by simpa [encodeLeaf, hb] using h)
  | boolean vs =>
    simpa [canonLeaf] using parseItem_numItem O true fuel depth st 66 [79, 79, 76, 69, 65, 78] (by decide) .boolean (by decide) parseBoolTok boolTok id
      .boolean 1 (by intro _ _; simp only [parseLeaf]; generalize parseValues _ _ _ = x; rcases x with e | ⟨vs, st⟩ <;> rfl) (fun _ => rfl) vs hok (fun v _ => tok_boolTok v) (fun v _ => parseBoolTok_boolTok v)
      ws c r hws hcw hc47 (by simpa [encodeLeaf] using h)
  | int w vs =>
    have hw := width_le8 w
    simpa [canonLeaf] using parseItem_numItem O true fuel depth st 73 (showDec w.bytes) (by decide) (.int w) (by simp) (parseIntW O w.bytes) showInt id
      (.int w) 8 (by intro _ _; simp only [parseLeaf]; generalize parseValues _ _ _ = x; rcases x with e | ⟨vs, st⟩ <;> rfl) (by cases w <;> intro X <;> rfl) vs hok.1 (fun v _ => tok_showInt v)
      (fun v hv => parseIntW_showInt O w.bytes v hw.1 hw.2 (hok.2 v hv).1 (hok.2 v hv).2)
      ws c r hws hcw hc47 (by simpa [encodeLeaf, intTag] using h)
  | uint w vs =>
    have hw := width_le8 w
    simpa [canonLeaf] using parseItem_numItem O true fuel depth st 85 (showDec w.bytes) (by decide) (.uint w) (by simp) (parseUintW O w.bytes) showDec id
      (.uint w) 8 (by intro _ _; simp only [parseLeaf]; generalize parseValues _ _ _ = x; rcases x with e | ⟨vs, st⟩ <;> rfl) (by cases w <;> intro X <;> rfl) vs hok.1 (fun v _ => tok_showDec v)
      (fun v hv => parseUintW_showDec O w.bytes v hw.1 (hok.2 v hv))
      ws c r hws hcw hc47 (by simpa [encodeLeaf, uintTag] using h)
  | float w vs =>
    exact parseItem_numItem O true fuel depth st 70 (showDec w.bytes) (by decide) (.float w) (by simp) (O.parseF w) (O.fmtF w) (canonF O w)
      (.float w) 8 (by intro _ _; simp only [parseLeaf]; generalize parseValues _ _ _ = x; rcases x with e | ⟨vs, st⟩ <;> rfl) (by cases w <;> intro X <;> rfl) vs hok.1 (fun v hv => (hok.2 v hv).1)
      (fun v hv => by obtain ⟨v', h1, _⟩ := (hok.2 v hv).2; simp [canonF, h1])
      ws c r hws hcw hc47 (by simpa [encodeLeaf, floatTag] using h)
  | ascii s =>
    have hq := quoteByte_isQuote o
    obtain ⟨a, as, hwa, haws, ha47⟩ := writeStrictASCII_head o.quoteByte hq s
    have hd : st.data = cLT :: ([65] ++ cLB :: (showDec s.length ++ cRB ::
        (cSP :: (writeStrictASCII o.quoteByte s ++ cGT :: (ws ++ c :: r))))) := by
      simpa [encodeLeaf, encodeString, ho] using h
    rw [parseItem_prefix_leaf O true fuel depth st 65 [] (by decide) .ascii (by simp) s.length _ rfl hok hd]
    have hsk := skipComment_ws
      (bodySt st depth (([65] : Bytes).length + (showDec s.length).length + 3)
        (cSP :: (writeStrictASCII o.quoteByte s ++ cGT :: (ws ++ c :: r))))
      [cSP] a (as ++ cGT :: (ws ++ c :: r)) (by simp [bodySt, hwa]) (by intro x hx; simp at hx; subst hx; decide) haws ha47
    rw [hsk]
    obtain ⟨st1, h1, h2, h3⟩ := parseASCIIStrict_write O o.quoteByte hq s.length
      ((bodySt st depth (([65] : Bytes).length + (showDec s.length).length + 3)
        (cSP :: (writeStrictASCII o.quoteByte s ++ cGT :: (ws ++ c :: r)))).adv ([cSP] : Bytes).length
        (a :: (as ++ cGT :: (ws ++ c :: r)))) s (ws ++ c :: r) (by simp [hwa])
    have hfin := skipComment_ws st1 ws c r h2 hws hcw hc47
    refine ⟨st1.adv ws.length (c :: r), ?_, rfl, ?_⟩
    · simp only [parseLeaf, ↓reduceIte, h1, hfin]; rfl
    · simp only [St.adv_len, h3]; rfl
  | jis8 s =>
    have hq := quoteByte_isQuote o
    have hqw : isWS o.quoteByte = false ∧ o.quoteByte ≠ 47 := by rcases hq with e | e <;> rw [e] <;> decide
    have hd : st.data = cLT :: ([74] ++ cLB :: (showDec s.length ++ cRB ::
        (cSP :: o.quoteByte :: (s ++ o.quoteByte :: cGT :: (ws ++ c :: r))))) := by
      simpa [encodeLeaf, encodeString, strItem] using h
    rw [parseItem_prefix_leaf O true fuel depth st 74 [] (by decide) .jis8 (by simp) s.length _ rfl hok.1 hd]
    have hsk := skipComment_ws
      (bodySt st depth (([74] : Bytes).length + (showDec s.length).length + 3)
        (cSP :: o.quoteByte :: (s ++ o.quoteByte :: cGT :: (ws ++ c :: r))))
      [cSP] o.quoteByte (s ++ o.quoteByte :: cGT :: (ws ++ c :: r)) (by simp [bodySt])
      (by intro x hx; simp at hx; subst hx; decide) hqw.1 hqw.2
    rw [hsk]
    have hs : ∀ x ∈ s, x ≠ o.quoteByte ∧ x ≠ cGT := by
      intro x hx
      obtain ⟨h1, h2, h3⟩ := hok.2 x hx
      refine ⟨?_, h3⟩
      rcases hq with e | e <;> rw [e] <;> assumption
    obtain ⟨st1, h1, h2, h3⟩ := parseQuoted_plain (fun _ s => .jis8 s) o.quoteByte hq
      ((bodySt st depth (([74] : Bytes).length + (showDec s.length).length + 3)
        (cSP :: o.quoteByte :: (s ++ o.quoteByte :: cGT :: (ws ++ c :: r)))).adv ([cSP] : Bytes).length
        (o.quoteByte :: (s ++ o.quoteByte :: cGT :: (ws ++ c :: r)))) s (ws ++ c :: r) hs rfl
    have hfin := skipComment_ws st1 ws c r h2 hws hcw hc47
    refine ⟨st1.adv ws.length (c :: r), ?_, rfl, ?_⟩
    · simp only [parseLeaf, h1, hfin]; rfl
    · simp only [St.adv_len, h3]; rfl
  | lstr l s =>
    obtain ⟨body, hqb, hbody, hun⟩ := hok
    have hd : st.data = cLT :: ([87] ++ ([cSP] ++ cDQ :: (body ++ cDQ :: cGT :: (ws ++ c :: r)))) := by
      simpa [encodeLeaf, hqb] using h
    rw [parseItem_nohint O true fuel depth st 87 [] (by decide) .lstr (by simp) [cSP] cDQ _
      (by intro x hx; simp at hx; subst hx; decide) (by decide) (by decide) rfl hd]
    have hsk := skipComment_ws
      (bodySt st depth (([87] : Bytes).length + ([cSP] : Bytes).length + 1) (cDQ :: (body ++ cDQ :: cGT :: (ws ++ c :: r))))
      [] cDQ (body ++ cDQ :: cGT :: (ws ++ c :: r)) (by simp [bodySt]) (by intro x hx; simp at hx) (by decide) (by decide)
    obtain ⟨st1, h1, h2, h3⟩ := parseQuoted_plain (fun q s => .lstr 2 (unquoteW O q s)) cDQ (Or.inl rfl)
      ((bodySt st depth (([87] : Bytes).length + ([cSP] : Bytes).length + 1) (cDQ :: (body ++ cDQ :: cGT :: (ws ++ c :: r)))).adv
        ([] : Bytes).length (cDQ :: (body ++ cDQ :: cGT :: (ws ++ c :: r)))) body (ws ++ c :: r) hbody rfl
    have hfin := skipComment_ws st1 ws c r h2 hws hcw hc47
    refine ⟨st1.adv ws.length (c :: r), ?_, rfl, ?_⟩
    · simp only [hsk, parseLeaf, h1, hfin, hun]; rfl
    · simp only [St.adv_len, h3]; rfl

/-! ## Lists: the encoder's indented layout is read back by `parseItem` / `parseList` -/

/-- The item text from its `<` on (the encoder puts `Repeat(indent, level)` in front of a list). -/
def coreItem (O : Oracle) (o : Opts) (level : Nat) : Item → Bytes
  | .list cs =>
    match cs with
    | [] => b!"<L[0]>"
    | _ :: _ => b!"<L[" ++ (showDec cs.length ++ (b!"]\n" ++ (encodeKids O o level cs ++ (repeatB o.indent level ++ [cGT]))))
  | it => encodeLeaf O o it

theorem encodeItem_core (O : Oracle) (o : Opts) (level : Nat) (it : Item) :
    encodeItem O o level it = (match it with | .list _ => repeatB o.indent level | _ => []) ++ coreItem O o level it := by
  cases it with
  | list cs => cases cs <;> simp [encodeItem, coreItem]
  | _ => simp [encodeItem, coreItem]

theorem encodeKids_cons (O : Oracle) (o : Opts) (level : Nat) (k : Item) (ks : List Item) :
    encodeKids O o level (k :: ks) =
      repeatB o.indent (level + 1) ++ (coreItem O o (level + 1) k ++ cNL :: encodeKids O o level ks) := by
  cases k with
  | list ds => simp [encodeKids, encodeItem_core]
  | _ => simp [encodeKids, encodeItem, coreItem]

/-- What `parseList` sees at the top of its loop: white space already skipped. -/
def kidsStripped (O : Oracle) (o : Opts) (level : Nat) (rest : Bytes) : List Item → Bytes
  | [] => cGT :: rest
  | k :: ks => coreItem O o (level + 1) k ++ cNL :: (encodeKids O o level ks ++ (repeatB o.indent level ++ cGT :: rest))

theorem allWS_repeat (u : Bytes) (h : AllWS u) (n : Nat) : AllWS (repeatB u n) := by
  induction n with
  | zero => intro x hx; simp [repeatB] at hx
  | succ n ih =>
    intro x hx
    simp only [repeatB, List.mem_append] at hx
    rcases hx with hx | hx
    · exact h x hx
    · exact ih x hx

theorem strip_kids (O : Oracle) (o : Opts) (hind : AllWS o.indent) (level : Nat) (rest : Bytes) (ks : List Item) :
    ∃ ws', AllWS ws' ∧
      cNL :: (encodeKids O o level ks ++ (repeatB o.indent level ++ cGT :: rest)) = ws' ++ kidsStripped O o level rest ks := by
  cases ks with
  | nil =>
    refine ⟨cNL :: repeatB o.indent level, ?_, by simp [encodeKids, kidsStripped]⟩
    intro x hx
    simp only [List.mem_cons] at hx
    rcases hx with rfl | hx
    · decide
    · exact allWS_repeat _ hind _ x hx
  | cons k ks' =>
    refine ⟨cNL :: repeatB o.indent (level + 1), ?_, by simp [encodeKids_cons, kidsStripped]⟩
    intro x hx
    simp only [List.mem_cons] at hx
    rcases hx with rfl | hx
    · decide
    · exact allWS_repeat _ hind _ x hx

mutual
/-- The grammar of the round-trip theorem: lists of bounded length over `LeafOK` leaves. -/
def OKItem (O : Oracle) : Item → Prop
  | .list cs => cs.length ≤ maxInt32 ∧ OKItems O cs
  | .empty => False
  | .binary bs => LeafOK O (.binary bs)
  | .boolean vs => LeafOK O (.boolean vs)
  | .ascii s => LeafOK O (.ascii s)
  | .jis8 s => LeafOK O (.jis8 s)
  | .lstr l s => LeafOK O (.lstr l s)
  | .int w vs => LeafOK O (.int w vs)
  | .uint w vs => LeafOK O (.uint w vs)
  | .float w vs => LeafOK O (.float w vs)
def OKItems (O : Oracle) : List Item → Prop
  | [] => True
  | c :: cs => OKItem O c ∧ OKItems O cs
end

mutual
/-- The parsed value: identical, except that localized strings come back with header 2 (UTF-8) and
    float elements as `strconv` reads their rendering back (`canonF`). -/
def canon (O : Oracle) : Item → Item
  | .list cs => .list (canonL O cs)
  | .lstr _ s => .lstr 2 s
  | .float w vs => .float w (vs.map (canonF O w))
  | it => it
def canonL (O : Oracle) : List Item → List Item
  | [] => []
  | c :: cs => canon O c :: canonL O cs
end

theorem coreItem_head (O : Oracle) (o : Opts) (level : Nat) (it : Item) (h : OKItem O it) :
    ∃ y, coreItem O o level it = cLT :: y := by
  cases it with
  | empty => simp [OKItem] at h
  | list cs => cases cs <;> exact ⟨_, rfl⟩
  | ascii s => simp only [coreItem, encodeLeaf, encodeString, strItem]; split <;> exact ⟨_, rfl⟩
  | jis8 s => exact ⟨_, rfl⟩
  | _ => exact ⟨_, rfl⟩

theorem kidsStripped_head (O : Oracle) (o : Opts) (level : Nat) (rest : Bytes) (ks : List Item) (h : OKItems O ks) :
    ∃ c' r', kidsStripped O o level rest ks = c' :: r' ∧ isWS c' = false ∧ c' ≠ 47 := by
  cases ks with
  | nil => exact ⟨cGT, rest, rfl, by decide, by decide⟩
  | cons k ks' =>
    obtain ⟨y, hy⟩ := coreItem_head O o (level + 1) k h.1
    exact ⟨cLT, _, by simp [kidsStripped, hy]; rfl, by decide, by decide⟩

theorem peekNS_none (st : St) (c : UInt8) (r : Bytes) (h : st.data = c :: r) (hc : isWS c = false) :
    peekNS st = (some c, st) := by
  simp [peekNS, skipSpace_none st c r h hc, h]

theorem parseList_lt (O : Oracle) (strict : Bool) (fuel depth : Nat) (acc : List Item) (st : St) (y : Bytes)
    (h : st.data = cLT :: y) :
    parseList O strict (fuel + 1) depth acc st =
      (match parseItem O strict fuel (depth + 1) st with
       | .error e => .error e
       | .ok (it, st) => parseList O strict fuel depth (it :: acc) st) := by
  rw [parseList, peekNS_none st cLT y h (by decide)]
  rfl

theorem parseList_gt (O : Oracle) (strict : Bool) (fuel depth : Nat) (acc : List Item) (st : St) (rest : Bytes)
    (h : st.data = cGT :: rest) :
    parseList O strict (fuel + 1) depth acc st = .ok (.list acc.reverse, st.adv 1 rest) := by
  rw [parseList, peekNS_none st cGT rest h (by decide)]
  show Except.ok (Item.list acc.reverse, _) = _
  simp [h, St.adv]

theorem canon_leaf (O : Oracle) (it : Item) (h : ∀ cs, it ≠ .list cs) : canon O it = canonLeaf O it := by
  cases it <;> simp [canon, canonLeaf] at h ⊢

theorem coreItem_leaf (O : Oracle) (o : Opts) (level : Nat) (it : Item) (h : ∀ cs, it ≠ .list cs) :
    coreItem O o level it = encodeLeaf O o it := by
  cases it <;> simp [coreItem] at h ⊢

theorem okItem_leaf (O : Oracle) (it : Item) (h : ∀ cs, it ≠ .list cs) (hok : OKItem O it) : LeafOK O it := by
  cases it <;> simp [OKItem] at h hok ⊢ <;> first | exact hok | skip
  all_goals simp_all [LeafOK, OKItem]

theorem parseItem_core_leaf (O : Oracle) (o : Opts) (ho : o.strict = true) (it : Item) (hnl : ∀ cs, it ≠ .list cs)
    (hok : OKItem O it) (level fuel depth : Nat) (st : St) (ws : Bytes) (c : UInt8) (r : Bytes)
    (hfuel : 2 * nodes it ≤ fuel) (hws : AllWS ws) (hcw : isWS c = false) (hc47 : c ≠ 47)
    (h : st.data = coreItem O o level it ++ (ws ++ c :: r)) :
    ∃ st', parseItem O true fuel depth st = .ok (canon O it, st') ∧ st'.data = c :: r ∧ st'.len = st.len := by
  have hn : nodes it = 1 := by cases it <;> simp [nodes] at hnl ⊢
  obtain ⟨f1, rfl⟩ : ∃ f1, fuel = f1 + 1 := ⟨fuel - 1, by omega⟩
  rw [coreItem_leaf O o level it hnl] at h
  rw [canon_leaf O it hnl]
  exact parseItem_leaf O o ho it (okItem_leaf O it hnl hok) f1 depth st ws c r hws hcw hc47 h

mutual
theorem parseItem_core (O : Oracle) (o : Opts) (ho : o.strict = true) (hind : AllWS o.indent) :
    ∀ (it : Item), OKItem O it → ∀ (level fuel depth : Nat) (st : St) (ws : Bytes) (c : UInt8) (r : Bytes),
      2 * nodes it ≤ fuel → depth + Secs2.depth it ≤ maxListDepth + 1 → AllWS ws → isWS c = false → c ≠ 47 →
      st.data = coreItem O o level it ++ (ws ++ c :: r) →
      ∃ st', parseItem O true fuel depth st = .ok (canon O it, st') ∧ st'.data = c :: r ∧ st'.len = st.len
  | .list [], _, level, fuel, depth, st, ws, c, r, hfuel, hdep, hws, hcw, hc47, h => by
    obtain ⟨f1, rfl⟩ : ∃ f1, fuel = f1 + 1 + 1 := ⟨fuel - 2, by simp [nodes, nodesL] at hfuel; omega⟩
    have hd : st.data = cLT :: ([76] ++ cLB :: (showDec 0 ++ cRB :: (cGT :: (ws ++ c :: r)))) := by
      rw [h, showDec_zero]; rfl
    rw [parseItem_prefix_list O true (f1 + 1) depth st 76 [] (by decide) 0 _ rfl (by decide) (by simp only [Secs2.depth, depthL] at hdep; omega) hd]
    have hsk := skipComment_ws (bodySt st depth (([76] : Bytes).length + (showDec 0).length + 3) (cGT :: (ws ++ c :: r)))
      [] cGT (ws ++ c :: r) rfl (by intro x hx; simp at hx) (by decide) (by decide)
    rw [hsk]
    simp only [St.adv_data]
    rw [parseList_gt O true f1 depth [] _ (ws ++ c :: r) rfl]
    have hfin := skipComment_ws
      ((bumpAlloc (16 * listPrealloc 0 (cGT :: (ws ++ c :: r))) ((bodySt st depth (([76] : Bytes).length + (showDec 0).length + 3) (cGT :: (ws ++ c :: r))).adv
        ([] : Bytes).length (cGT :: (ws ++ c :: r)))).adv 1 (ws ++ c :: r)) ws c r rfl hws hcw hc47
    have e : canon O (.list []) = .list ([] : List Item).reverse := by simp [canon, canonL]
    rw [e]
    refine ⟨skipComment _, rfl, ?_, ?_⟩
    · rw [hfin]; rfl
    · rw [hfin]; rfl
  | .list (k :: ks), hok, level, fuel, depth, st, ws, c, r, hfuel, hdep, hws, hcw, hc47, h => by
    obtain ⟨f1, rfl⟩ : ∃ f1, fuel = f1 + 1 := ⟨fuel - 1, by simp [nodes] at hfuel; omega⟩
    have hd : st.data = cLT :: ([76] ++ cLB :: (showDec (k :: ks).length ++ cRB ::
        (cNL :: (encodeKids O o level (k :: ks) ++ (repeatB o.indent level ++ cGT :: (ws ++ c :: r)))))) := by
      rw [h]; simp [coreItem]
    rw [parseItem_prefix_list O true f1 depth st 76 [] (by decide) (k :: ks).length _ rfl hok.1 (by simp only [Secs2.depth] at hdep; omega) hd]
    obtain ⟨ws', hws', hstrip⟩ := strip_kids O o hind level (ws ++ c :: r) (k :: ks)
    obtain ⟨c', r', hhead, hc'w, hc'47⟩ := kidsStripped_head O o level (ws ++ c :: r) (k :: ks) hok.2
    have hsk := skipComment_ws
      (bodySt st depth (([76] : Bytes).length + (showDec (k :: ks).length).length + 3)
        (cNL :: (encodeKids O o level (k :: ks) ++ (repeatB o.indent level ++ cGT :: (ws ++ c :: r)))))
      ws' c' r' (by simp only [bodySt, St.adv_data]; rw [hstrip, hhead]) hws' hc'w hc'47
    rw [hsk]
    simp only [St.adv_data]
    obtain ⟨st1, h1, h2, h3⟩ := parseList_kids O o ho hind (k :: ks) hok.2 level f1 depth []
      (bumpAlloc (16 * listPrealloc (k :: ks).length (c' :: r')) ((bodySt st depth (([76] : Bytes).length + (showDec (k :: ks).length).length + 3)
        (cNL :: (encodeKids O o level (k :: ks) ++ (repeatB o.indent level ++ cGT :: (ws ++ c :: r))))).adv ws'.length (c' :: r')))
      (ws ++ c :: r) (by simp only [nodes] at hfuel; omega) (by simp only [Secs2.depth] at hdep; omega) (by simp [bumpAlloc, hhead])
    have hfin := skipComment_ws st1 ws c r h2 hws hcw hc47
    refine ⟨st1.adv ws.length (c :: r), ?_, rfl, ?_⟩
    · rw [h1]; simp only [hfin, List.reverse_nil, List.nil_append, canon]
    · simp only [St.adv_len, h3]; rfl
  | .empty, hok, _, _, _, _, _, _, _, _, _, _, _, _, _ => by simp [OKItem] at hok
  | .binary bs, hok, level, fuel, depth, st, ws, c, r, hfuel, _, hws, hcw, hc47, h =>
    parseItem_core_leaf O o ho _ (by simp) hok level fuel depth st ws c r hfuel hws hcw hc47 h
  | .boolean vs, hok, level, fuel, depth, st, ws, c, r, hfuel, _, hws, hcw, hc47, h =>
    parseItem_core_leaf O o ho _ (by simp) hok level fuel depth st ws c r hfuel hws hcw hc47 h
  | .ascii s, hok, level, fuel, depth, st, ws, c, r, hfuel, _, hws, hcw, hc47, h =>
    parseItem_core_leaf O o ho _ (by simp) hok level fuel depth st ws c r hfuel hws hcw hc47 h
  | .jis8 s, hok, level, fuel, depth, st, ws, c, r, hfuel, _, hws, hcw, hc47, h =>
    parseItem_core_leaf O o ho _ (by simp) hok level fuel depth st ws c r hfuel hws hcw hc47 h
  | .lstr l s, hok, level, fuel, depth, st, ws, c, r, hfuel, _, hws, hcw, hc47, h =>
    parseItem_core_leaf O o ho _ (by simp) hok level fuel depth st ws c r hfuel hws hcw hc47 h
  | .int w vs, hok, level, fuel, depth, st, ws, c, r, hfuel, _, hws, hcw, hc47, h =>
    parseItem_core_leaf O o ho _ (by simp) hok level fuel depth st ws c r hfuel hws hcw hc47 h
  | .uint w vs, hok, level, fuel, depth, st, ws, c, r, hfuel, _, hws, hcw, hc47, h =>
    parseItem_core_leaf O o ho _ (by simp) hok level fuel depth st ws c r hfuel hws hcw hc47 h
  | .float w vs, hok, level, fuel, depth, st, ws, c, r, hfuel, _, hws, hcw, hc47, h =>
    parseItem_core_leaf O o ho _ (by simp) hok level fuel depth st ws c r hfuel hws hcw hc47 h
theorem parseList_kids (O : Oracle) (o : Opts) (ho : o.strict = true) (hind : AllWS o.indent) :
    ∀ (cs : List Item), OKItems O cs → ∀ (level fuel depth : Nat) (acc : List Item) (st : St) (rest : Bytes),
      2 * nodesL cs + 1 ≤ fuel → depth + 1 + depthL cs ≤ maxListDepth + 1 → st.data = kidsStripped O o level rest cs →
      ∃ st', parseList O true fuel depth acc st = .ok (.list (acc.reverse ++ canonL O cs), st') ∧ st'.data = rest ∧
        st'.len = st.len
  | [], _, level, fuel, depth, acc, st, rest, hfuel, _, h => by
    obtain ⟨f1, rfl⟩ : ∃ f1, fuel = f1 + 1 := ⟨fuel - 1, by omega⟩
    rw [parseList_gt O true f1 depth acc st rest h]
    exact ⟨st.adv 1 rest, by simp [canonL], rfl, rfl⟩
  | k :: ks, hok, level, fuel, depth, acc, st, rest, hfuel, hdep, h => by
    obtain ⟨f1, rfl⟩ : ∃ f1, fuel = f1 + 1 := ⟨fuel - 1, by omega⟩
    have hnk : 1 ≤ nodes k := by cases k <;> simp [nodes]
    simp only [nodesL] at hfuel
    obtain ⟨y, hy⟩ := coreItem_head O o (level + 1) k hok.1
    have hd : st.data = cLT :: (y ++ cNL :: (encodeKids O o level ks ++ (repeatB o.indent level ++ cGT :: rest))) := by
      rw [h]; simp [kidsStripped, hy]
    rw [parseList_lt O true f1 depth acc st _ hd]
    obtain ⟨ws', hws', hstrip⟩ := strip_kids O o hind level rest ks
    obtain ⟨c', r', hhead, hc'w, hc'47⟩ := kidsStripped_head O o level rest ks hok.2
    obtain ⟨st1, h1, h2, h3⟩ := parseItem_core O o ho hind k hok.1 (level + 1) f1 (depth + 1) st ws' c' r'
      (by omega) (by simp only [depthL] at hdep; omega) hws' hc'w hc'47 (by rw [h, kidsStripped, hstrip, hhead])
    rw [h1]
    obtain ⟨st2, g1, g2, g3⟩ := parseList_kids O o ho hind ks hok.2 level f1 depth (canon O k :: acc) st1 rest
      (by omega) (by simp only [depthL] at hdep; omega) (by rw [h2, hhead])
    refine ⟨st2, ?_, g2, by rw [g3, h3]⟩
    show parseList O true f1 depth (canon O k :: acc) st1 = _
    rw [g1]; simp [canonL]
end

/-! ## The header line -/

theorem skipComment_none (st : St) (c : UInt8) (r : Bytes) (h : st.data = c :: r) (hc : isWS c = false) (h47 : c ≠ 47) :
    skipComment st = st := by
  simp only [skipComment, skipSpace_none st c r h hc, h]
  split
  · rename_i heq; simp at heq; exact absurd heq.1 h47
  · rename_i heq; simp at heq; exact absurd heq.1 h47
  · rfl

theorem indexByte_none (b : UInt8) (xs : Bytes) (i : Nat) (h : b ∉ xs) : indexByte b i xs = none := by
  induction xs generalizing i with
  | nil => rfl
  | cons x xs ih =>
    simp only [List.mem_cons, not_or] at h
    have hx : x ≠ b := fun e => h.1 e.symm
    simp only [indexByte, hx, ↓reduceIte]
    exact ih (i + 1) h.2

theorem indexTerm_at (xs : Bytes) (r : Bytes) (i : Nat) (h : ∀ c ∈ xs, c ≠ cNL ∧ c ≠ cDot) :
    indexTerm i (xs ++ cNL :: r) = some (i + xs.length) := by
  induction xs generalizing i with
  | nil => simp [indexTerm]
  | cons x xs ih =>
    have hx := h x (by simp)
    simp only [List.cons_append, indexTerm, hx.1, hx.2, or_self, ↓reduceIte, List.length_cons]
    rw [ih (i + 1) (fun c hc => h c (by simp [hc]))]; congr 1; omega

/-- The S/F quote as the encoder writes it: nothing, or one quote character. -/
def IsSFQuote (Q : Bytes) : Prop := Q = [] ∨ ∃ q, IsQuote q ∧ Q = [q]

theorem sfQuoteBytes_is (s : QuoteStyle) : IsSFQuote (sfQuoteBytes s) := by
  cases s
  · exact Or.inr ⟨cDQ, Or.inl rfl, rfl⟩
  · exact Or.inr ⟨cSQ, Or.inr rfl, rfl⟩
  · exact Or.inl rfl

theorem skipQuote_quote (st : St) (q : UInt8) (hq : IsQuote q) (r : Bytes) (h : st.data = q :: r) :
    skipQuote st = st.adv 1 r := by
  have hqw : isWS q = false := by rcases hq with e | e <;> subst e <;> decide
  have hqq : q = cSQ ∨ q = cDQ := by rcases hq with e | e <;> simp [e]
  have := fwd_exact st [q] r (by simpa using h)
  simp only [skipQuote, peekNS_none st q r h hqw, hqq, ↓reduceIte]
  simpa using this

theorem skipQuote_other (st : St) (ws : Bytes) (c : UInt8) (r : Bytes) (h : st.data = ws ++ c :: r)
    (hws : AllWS ws) (hc : isWS c = false) (hnq : c ≠ cSQ ∧ c ≠ cDQ) : skipQuote st = st.adv ws.length (c :: r) := by
  simp [skipQuote, peekNS_ws st ws c r h hws hc, hnq.1, hnq.2]

theorem headerWBit_W (s f : Nat) (st : St) (ws : Bytes) (r : Bytes) (h : st.data = ws ++ 87 :: r) (hws : AllWS ws) :
    headerWBit s f st = .ok ((s, f, true), st.adv (ws.length + 1) r) := by
  have hp := peekNS_ws st ws 87 r h hws (by decide)
  have hfw := fwd_exact (st.adv ws.length (87 :: r)) [87] r rfl
  simp only [List.length_singleton] at hfw
  unfold headerWBit
  rw [hp]
  show Except.ok ((s, f, true), fwd 1 (st.adv ws.length (87 :: r))) = _
  rw [hfw, St.adv_adv]

theorem headerWBit_other (s f : Nat) (st : St) (ws : Bytes) (z : UInt8) (r : Bytes) (h : st.data = ws ++ z :: r)
    (hws : AllWS ws) (hz : isWS z = false) (hzW : z ≠ 87) :
    headerWBit s f st = .ok ((s, f, false), st.adv ws.length (z :: r)) := by
  have hp := peekNS_ws st ws z r h hws hz
  unfold headerWBit
  rw [hp]
  split
  · rename_i heq; simp at heq; exact absurd heq.1 hzW
  · rename_i heq; simp at heq; obtain ⟨_, rfl⟩ := heq; rfl

/-- The header line as `writeHeader` lays it out, with `Q` the S/F quote. -/
def headerBytes (Q : Bytes) (s f : Nat) (w : Bool) : Bytes :=
  Q ++ (83 :: (showDec s ++ (70 :: (showDec f ++ (Q ++ (if w then b!" W" else []))))))

theorem writeHeader_eq (o : Opts) (m : Msg) : writeHeader o m = headerBytes (sfQuoteBytes o.sfQuote) m.s m.f m.w := rfl

theorem headerBytes_chars (Q : Bytes) (hQ : IsSFQuote Q) (s f : Nat) (w : Bool) :
    ∀ c ∈ headerBytes Q s f w, c ≠ cNL ∧ c ≠ cDot ∧ c ≠ cLT ∧ c ≠ 58 := by
  have hdig : ∀ n, ∀ c ∈ showDec n, c ≠ cNL ∧ c ≠ cDot ∧ c ≠ cLT ∧ c ≠ 58 := by
    intro n c hc
    have hd := showDec_all_digits n
    rw [List.all_eq_true] at hd
    have := hd c hc
    simp only [isDigit, Bool.and_eq_true, decide_eq_true_eq] at this
    refine ⟨?_, ?_, ?_, ?_⟩ <;> (intro e; rw [e] at this; exact absurd this (by decide))
  have hQc : ∀ c ∈ Q, c ≠ cNL ∧ c ≠ cDot ∧ c ≠ cLT ∧ c ≠ 58 := by
    intro c hc
    rcases hQ with rfl | ⟨q, hq, rfl⟩
    · simp at hc
    · simp at hc; subst hc; rcases hq with e | e <;> subst e <;> decide
  intro c hc
  simp only [headerBytes, List.mem_append, List.mem_cons] at hc
  rcases hc with hc | rfl | hc | rfl | hc | hc | hc
  · exact hQc c hc
  · decide
  · exact hdig s c hc
  · decide
  · exact hdig f c hc
  · exact hQc c hc
  · cases w <;> simp at hc
    rcases hc with rfl | rfl <;> decide

/-- `skipName` finds no message name in the encoder's output. -/
theorem skipName_enc (st : St) (H ws0 : Bytes) (z : UInt8) (Z : Bytes)
    (hH : ∀ c ∈ H, c ≠ cLT ∧ c ≠ 58) (hws0 : AllWS ws0) (hz2 : z = cLT ∨ cLT ∉ z :: Z)
    (h : st.data = H ++ cNL :: (ws0 ++ z :: Z)) : skipName st (0 + H.length) = st := by
  have hpre : ∀ c ∈ H ++ cNL :: ws0, c ≠ cLT ∧ c ≠ 58 := by
    intro c hc
    rcases List.mem_append.mp hc with hc | hc
    · exact hH c hc
    · rcases List.mem_cons.mp hc with rfl | hc
      · decide
      · have := hws0 c hc
        constructor <;> (intro e; rw [e] at this; exact absurd this (by decide))
  have hdata2 : st.data = (H ++ cNL :: ws0) ++ z :: Z := by rw [h]; simp
  unfold skipName
  rcases hz2 with rfl | hnot
  · have hi : indexByte cLT 0 st.data = some (0 + (H ++ cNL :: ws0).length) := by
      rw [hdata2]; exact indexByte_notin cLT _ Z 0 (fun hm => (hpre _ hm).1 rfl)
    rw [hi]
    have hmax : max (0 + H.length) (0 + (H ++ cNL :: ws0).length) = (H ++ cNL :: ws0).length := by
      simp only [List.length_append, List.length_cons]; omega
    simp only [hmax]
    rw [hdata2, List.take_left' rfl, indexByte_none 58 _ 0 (fun hm => (hpre _ hm).2 rfl)]
  · have hi : indexByte cLT 0 st.data = none := by
      rw [hdata2]
      apply indexByte_none
      intro hm
      rcases List.mem_append.mp hm with h1 | h2
      · exact (hpre _ h1).1 rfl
      · exact hnot h2
    rw [hi]
    simp only [Nat.zero_add]
    rw [h, List.take_left' rfl, indexByte_none 58 _ 0 (fun hm => (hH _ hm).2 rfl)]

/-- `parseHSMSHeader` on the encoder's header line followed by a newline, white space and a
    non-space byte `z` that is neither a quote nor `W` (the body's `<`, or the final `.`). -/
theorem parseHeaderLine_enc (st : St) (Q : Bytes) (hQ : IsSFQuote Q) (s f : Nat) (w : Bool)
    (ws0 : Bytes) (z : UInt8) (Z : Bytes) (hs : s ≤ 127) (hf : f ≤ 255)
    (hws0 : AllWS ws0) (hz : isWS z = false) (hzq : z ≠ cSQ ∧ z ≠ cDQ) (hzW : z ≠ 87)
    (hz2 : z = cLT ∨ cLT ∉ z :: Z)
    (h : st.data = headerBytes Q s f w ++ cNL :: (ws0 ++ z :: Z)) :
    ∃ st' ws', parseHeaderLine st = .ok ((s, f, w), st') ∧ AllWS ws' ∧
      st'.data = ws' ++ z :: Z ∧ st'.len = st.len ∧ st'.maxDepth = st.maxDepth := by
  have hchars := headerBytes_chars Q hQ s f w
  have hk : indexTerm 0 st.data = some (0 + (headerBytes Q s f w).length) := by
    rw [h]; exact indexTerm_at _ _ 0 (fun c hc => ⟨(hchars c hc).1, (hchars c hc).2.1⟩)
  have hname := skipName_enc st (headerBytes Q s f w) ws0 z Z
    (fun c hc => ⟨(hchars c hc).2.2.1, (hchars c hc).2.2.2⟩) hws0 hz2 h
  -- the rest of the line after the function code
  let T : Bytes := Q ++ ((if w then b!" W" else []) ++ cNL :: (ws0 ++ z :: Z))
  have hdataS : st.data = Q ++ (83 :: (showDec s ++ (70 :: (showDec f ++ T)))) := by
    rw [h]; simp [headerBytes, T, List.append_assoc]
  obtain ⟨t0, T', hT, ht0⟩ : ∃ t0 T', T = t0 :: T' ∧ isDigit t0 = false := by
    rcases hQ with rfl | ⟨q, hq, rfl⟩
    · cases w
      · exact ⟨cNL, _, rfl, by decide⟩
      · exact ⟨32, _, rfl, by decide⟩
    · exact ⟨q, _, rfl, by rcases hq with e | e <;> subst e <;> decide⟩
  -- opening quote
  obtain ⟨st1, e1, d1, l1, m1⟩ : ∃ st1, skipQuote st = st1 ∧
      st1.data = 83 :: (showDec s ++ (70 :: (showDec f ++ T))) ∧ st1.len = st.len ∧ st1.maxDepth = st.maxDepth := by
    rcases hQ with rfl | ⟨q, hq, rfl⟩
    · exact ⟨_, skipQuote_other st [] 83 _ (by simpa using hdataS) (by intro x hx; simp at hx) (by decide) (by decide), rfl, rfl, rfl⟩
    · exact ⟨_, skipQuote_quote st q hq _ (by simpa using hdataS), rfl, rfl, rfl⟩
  have hnr1 : nextRune st1 = (some 83, st1.adv 1 (showDec s ++ (70 :: (showDec f ++ T)))) := by
    simp [nextRune, d1, St.adv]
  have hn1 := nextNumber_showDec 255 s (st1.adv 1 (showDec s ++ (70 :: (showDec f ++ T)))) 70 _ rfl (by decide) (by omega)
  have hnr2 : nextRune ((st1.adv 1 (showDec s ++ (70 :: (showDec f ++ T)))).adv (showDec s).length (70 :: (showDec f ++ T))) =
      (some 70, st1.adv (1 + (showDec s).length + 1) (showDec f ++ T)) := by
    simp [nextRune, St.adv, Nat.add_assoc]
  have hn2 := nextNumber_showDec 255 f (st1.adv (1 + (showDec s).length + 1) (showDec f ++ T)) t0 T'
    (by rw [St.adv_data, hT]) ht0 hf
  -- closing quote and W flag
  obtain ⟨st3, ws', e3, hws', d3, l3, m3⟩ : ∃ st3 ws', headerWBit s f (skipQuote
      ((st1.adv (1 + (showDec s).length + 1) (showDec f ++ T)).adv (showDec f).length (t0 :: T'))) = .ok ((s, f, w), st3) ∧
      AllWS ws' ∧ st3.data = ws' ++ z :: Z ∧ st3.len = st1.len ∧ st3.maxDepth = st1.maxDepth := by
    have hnlws : AllWS (cNL :: ws0) := by
      intro x hx; rcases List.mem_cons.mp hx with rfl | hx
      · decide
      · exact hws0 x hx
    rw [← hT]
    rcases hQ with rfl | ⟨q, hq, rfl⟩
    · cases w
      · have hsq := skipQuote_other ((st1.adv (1 + (showDec s).length + 1) (showDec f ++ T)).adv (showDec f).length T)
          (cNL :: ws0) z Z (by simp [T]) hnlws hz hzq
        rw [hsq]
        have hw := headerWBit_other s f _ [] z Z
          (show (((st1.adv (1 + (showDec s).length + 1) (showDec f ++ T)).adv (showDec f).length T).adv (cNL :: ws0).length (z :: Z)).data = [] ++ z :: Z from rfl)
          (by intro x hx; simp at hx) hz hzW
        exact ⟨_, [], hw, by intro x hx; simp at hx, rfl, rfl, rfl⟩
      · have hsq := skipQuote_other ((st1.adv (1 + (showDec s).length + 1) (showDec f ++ T)).adv (showDec f).length T)
          [32] 87 (cNL :: (ws0 ++ z :: Z)) (by simp [T]) (by intro x hx; simp at hx; subst hx; decide) (by decide) (by decide)
        rw [hsq]
        have hw := headerWBit_W s f _ [] (cNL :: (ws0 ++ z :: Z))
          (show (((st1.adv (1 + (showDec s).length + 1) (showDec f ++ T)).adv (showDec f).length T).adv ([32] : Bytes).length (87 :: cNL :: (ws0 ++ z :: Z))).data = [] ++ 87 :: cNL :: (ws0 ++ z :: Z) from rfl)
          (by intro x hx; simp at hx)
        exact ⟨_, cNL :: ws0, hw, hnlws, rfl, rfl, rfl⟩
    · have hsq := skipQuote_quote ((st1.adv (1 + (showDec s).length + 1) (showDec f ++ T)).adv (showDec f).length T) q hq
        ((if w then b!" W" else []) ++ cNL :: (ws0 ++ z :: Z)) (by simp [T])
      rw [hsq]
      cases w
      · have hw := headerWBit_other s f (((st1.adv (1 + (showDec s).length + 1) (showDec f ++ T)).adv (showDec f).length T).adv 1
            ((if false then b!" W" else []) ++ cNL :: (ws0 ++ z :: Z))) (cNL :: ws0) z Z (by simp) hnlws hz hzW
        exact ⟨_, [], hw, by intro x hx; simp at hx, rfl, rfl, rfl⟩
      · have hw := headerWBit_W s f (((st1.adv (1 + (showDec s).length + 1) (showDec f ++ T)).adv (showDec f).length T).adv 1
            ((if true then b!" W" else []) ++ cNL :: (ws0 ++ z :: Z))) [32] (cNL :: (ws0 ++ z :: Z)) (by simp)
            (by intro x hx; simp at hx; subst hx; decide)
        exact ⟨_, cNL :: ws0, hw, hnlws, rfl, rfl, rfl⟩
  refine ⟨st3, ws', ?_, hws', d3, by rw [l3, l1], by rw [m3, m1]⟩
  unfold parseHeaderLine
  rw [hk]
  simp only [hname, e1, hnr1, hn1]
  rw [if_neg (by omega)]
  simp only [hnr2, hn2, e3]

/-! ## Messages -/

theorem encodeLeaf_len (O : Oracle) (o : Opts) (it : Item) (h : OKItem O it) (hnl : ∀ cs, it ≠ .list cs) :
    2 ≤ (encodeLeaf O o it).length := by
  cases it with
  | empty => simp [OKItem] at h
  | list cs => exact absurd rfl (hnl cs)
  | ascii s => simp only [encodeLeaf, encodeString, strItem]; split <;> simp <;> omega
  | jis8 s => simp [encodeLeaf, encodeString, strItem]
  | lstr l s => simp [encodeLeaf]
  | binary bs => simp [encodeLeaf, numItem]
  | boolean bs => simp [encodeLeaf, numItem]
  | int w vs => simp [encodeLeaf, numItem]; omega
  | uint w vs => simp [encodeLeaf, numItem]; omega
  | float w vs => simp [encodeLeaf, numItem]; omega

mutual
theorem coreItem_len (O : Oracle) (o : Opts) : ∀ (it : Item), OKItem O it → ∀ level,
    2 * nodes it ≤ (coreItem O o level it).length
  | .list [], _, level => by simp [coreItem, nodes, nodesL]
  | .list (k :: ks), h, level => by
    have := encodeKids_len O o (k :: ks) h.2 level
    simp only [coreItem, nodes, List.length_append, List.length_cons, List.length_nil]
    omega
  | .empty, h, _ => by simp [OKItem] at h
  | .binary bs, h, level => by simpa [coreItem, nodes] using encodeLeaf_len O o _ h (by simp)
  | .boolean vs, h, level => by simpa [coreItem, nodes] using encodeLeaf_len O o _ h (by simp)
  | .ascii s, h, level => by simpa [coreItem, nodes] using encodeLeaf_len O o _ h (by simp)
  | .jis8 s, h, level => by simpa [coreItem, nodes] using encodeLeaf_len O o _ h (by simp)
  | .lstr l s, h, level => by simpa [coreItem, nodes] using encodeLeaf_len O o _ h (by simp)
  | .int w vs, h, level => by simpa [coreItem, nodes] using encodeLeaf_len O o _ h (by simp)
  | .uint w vs, h, level => by simpa [coreItem, nodes] using encodeLeaf_len O o _ h (by simp)
  | .float w vs, h, level => by simpa [coreItem, nodes] using encodeLeaf_len O o _ h (by simp)
theorem encodeKids_len (O : Oracle) (o : Opts) : ∀ (cs : List Item), OKItems O cs → ∀ level,
    2 * nodesL cs ≤ (encodeKids O o level cs).length
  | [], _, _ => by simp [nodesL]
  | k :: ks, h, level => by
    have h1 := coreItem_len O o k h.1 (level + 1)
    have h2 := encodeKids_len O o ks h.2 level
    rw [encodeKids_cons]
    simp only [nodesL, List.length_append, List.length_cons]
    omega
end

/-- What the strict parser returns for a message of the grammar. -/
def canonBody (O : Oracle) : Item → Item
  | .empty => .empty
  | it => canon O it

/-- The message grammar: stream ≤ 127, function ≤ 255, no W-bit on an even function, body empty or
    in the item grammar, within the E5 size caps and nested at most `MaxListDepth` deep (what `secs2`
    can encode). -/
def OKMsg (O : Oracle) (m : Msg) : Prop :=
  m.s ≤ 127 ∧ m.f ≤ 255 ∧ ¬(m.w = true ∧ m.f % 2 = 0) ∧
  (m.body = .empty ∨ (OKItem O m.body ∧ sizeOK (canon O m.body) = true ∧ Secs2.depth m.body ≤ maxListDepth))

theorem skipSpace_nil (st : St) (h : st.data = []) : skipSpace st = (false, st) := by
  simp [skipSpace, h, wsSpan]

theorem headerBytes_head (Q : Bytes) (hQ : IsSFQuote Q) (s f : Nat) (w : Bool) :
    ∃ c r, headerBytes Q s f w = c :: r ∧ isWS c = false ∧ c ≠ 47 := by
  rcases hQ with rfl | ⟨q, hq, rfl⟩
  · exact ⟨83, _, rfl, by decide, by decide⟩
  · exact ⟨q, _, rfl, by rcases hq with e | e <;> subst e <;> decide, by rcases hq with e | e <;> subst e <;> decide⟩

/-- `parseMsg` (strict) on `EncodeMessage` output. -/
theorem parseMsg_encodeMsg (O : Oracle) (o : Opts) (ho : o.strict = true) (hind : AllWS o.indent) (m : Msg)
    (hm : OKMsg O m) (st : St) (h : st.data = encodeMsg O o m) :
    ∃ st', parseMsg O true false st = .ok (some ⟨m.s, m.f, m.w, canonBody O m.body⟩, st') ∧ st'.data = [] := by
  obtain ⟨hs, hf, hwf, hbody⟩ := hm
  have hQ := sfQuoteBytes_is o.sfQuote
  obtain ⟨c0, r0, hc0, hc0w, hc047⟩ := headerBytes_head (sfQuoteBytes o.sfQuote) hQ m.s m.f m.w
  have hdata : st.data = headerBytes (sfQuoteBytes o.sfQuote) m.s m.f m.w ++ cNL :: (encodeItem O o 0 m.body ++ b!"\n.") := by
    rw [h]; simp [encodeMsg, writeHeader_eq]
  have hd0 : st.data = c0 :: (r0 ++ cNL :: (encodeItem O o 0 m.body ++ b!"\n.")) := by rw [hdata, hc0]; rfl
  have hsk0 := skipComment_none st c0 _ hd0 hc0w hc047
  have hpk0 := peekNS_none st c0 _ hd0 hc0w
  unfold parseMsg
  simp only [hsk0, hpk0]
  rcases hbody with hE | ⟨hok, hsz, hdp⟩
  · -- empty body: header, blank line, dot
    have hd : st.data = headerBytes (sfQuoteBytes o.sfQuote) m.s m.f m.w ++ cNL :: ([cNL] ++ cDot :: []) := by
      rw [hdata, hE]; simp [encodeItem, encodeLeaf]
    obtain ⟨st1, ws', e1, hws', d1, _⟩ := parseHeaderLine_enc st _ hQ m.s m.f m.w [cNL] cDot [] hs hf
      (by intro x hx; simp at hx; subst hx; decide) (by decide) (by decide) (by decide) (Or.inr (by decide)) hd
    rw [e1]
    simp only [Bool.false_eq_true, ↓reduceIte]
    have hsk1 := skipComment_ws st1 ws' cDot [] d1 hws' (by decide) (by decide)
    rw [hsk1]
    have hpk1 := peekNS_none (st1.adv ws'.length [cDot]) cDot [] rfl (by decide)
    have hnx1 := nextNS_ws (st1.adv ws'.length [cDot]) [] cDot [] rfl (by intro x hx; simp at hx) (by decide)
    have hpb : parseBody O true (st1.adv ws'.length [cDot]) = .ok (.empty, st1.adv ws'.length [cDot]) := by
      unfold parseBody; rw [hpk1]; rfl
    simp only [hpb, hnx1, hE, canonBody]
    have : sizeOK Item.empty = true := by simp [sizeOK]
    simp only [this, hwf]
    exact ⟨_, rfl, rfl⟩
  · -- a body of the grammar
    obtain ⟨y, hy⟩ := coreItem_head O o 0 m.body hok
    have hcore : encodeItem O o 0 m.body = coreItem O o 0 m.body := by
      rw [encodeItem_core]; cases m.body <;> simp [repeatB]
    have hd : st.data = headerBytes (sfQuoteBytes o.sfQuote) m.s m.f m.w ++ cNL :: ([] ++ cLT :: (y ++ b!"\n.")) := by
      rw [hdata, hcore, hy]; simp
    obtain ⟨st1, ws', e1, hws', d1, _⟩ := parseHeaderLine_enc st _ hQ m.s m.f m.w [] cLT (y ++ b!"\n.") hs hf
      (by intro x hx; simp at hx) (by decide) (by decide) (by decide) (Or.inl rfl) hd
    rw [e1]
    simp only [Bool.false_eq_true, ↓reduceIte]
    have hsk1 := skipComment_ws st1 ws' cLT (y ++ b!"\n.") d1 hws' (by decide) (by decide)
    rw [hsk1]
    have hpk1 := peekNS_none (st1.adv ws'.length (cLT :: (y ++ b!"\n."))) cLT _ rfl (by decide)
    have hlen := coreItem_len O o m.body hok 0
    obtain ⟨st2, e2, d2, _⟩ := parseItem_core O o ho hind m.body hok 0
      (2 * (st1.adv ws'.length (cLT :: (y ++ b!"\n."))).data.length + 1) 1 (st1.adv ws'.length (cLT :: (y ++ b!"\n.")))
      [cNL] cDot [] (by
        rw [hy] at hlen
        simp only [St.adv_data, List.length_cons, List.length_append] at hlen ⊢
        omega)
      (by omega)
      (by intro x hx; simp at hx; subst hx; decide) (by decide) (by decide)
      (by rw [St.adv_data, hy]; simp)
    have hne : parseBody O true (st1.adv ws'.length (cLT :: (y ++ b!"\n."))) =
        parseItem O true (2 * (st1.adv ws'.length (cLT :: (y ++ b!"\n."))).data.length + 1) 1 (st1.adv ws'.length (cLT :: (y ++ b!"\n."))) := by
      unfold parseBody; rw [hpk1]; rfl
    rw [hne, e2]
    have hnx := nextNS_ws st2 [] cDot [] d2 (by intro x hx; simp at hx) (by decide)
    simp only [hnx]
    have hcb : canonBody O m.body = canon O m.body := by
      cases hb : m.body <;> simp [canonBody]
      rw [hb] at hok; simp [OKItem] at hok
    rw [hcb]
    simp only [hsz, hwf, Bool.not_true, Bool.false_eq_true, ↓reduceIte]
    exact ⟨_, rfl, rfl⟩

/-- `Parser.Parse` (strict) on `EncodeMessage` output: exactly one message, the canonical one. -/
theorem parseAll_encodeMsg (O : Oracle) (o : Opts) (ho : o.strict = true) (hind : AllWS o.indent) (m : Msg)
    (hm : OKMsg O m) :
    ∃ a d, parseAll O true (encodeMsg O o m) = ⟨.ok [⟨m.s, m.f, m.w, canonBody O m.body⟩], a, d⟩ := by
  obtain ⟨st1, e1, d1⟩ := parseMsg_encodeMsg O o ho hind m hm (initSt (encodeMsg O o m)) rfl
  have e2 : parseMsg O true false st1 = .ok (none, st1) := by
    unfold parseMsg
    have hss := skipSpace_nil st1 d1
    simp [skipComment, peekNS, hss]
  have hfuel : ∃ f2, (encodeMsg O o m).length + 1 = f2 + 1 + 1 := by
    refine ⟨(encodeMsg O o m).length - 1, ?_⟩
    have : 1 ≤ (encodeMsg O o m).length := by simp [encodeMsg]; omega
    omega
  obtain ⟨f2, hf2⟩ := hfuel
  refine ⟨st1.alloc, st1.maxDepth, ?_⟩
  unfold parseAll
  rw [hf2]
  simp [parseLoop, e1, e2]

/-! ## Equality as the property states it: NaN payload bits and the localized-string header aside -/

mutual
/-- `secs2.Equal`-like comparison that ignores the localized-string header and treats every NaN like
    every other NaN (`floatBitsEq`). -/
def simItem : Item → Item → Bool
  | .empty, .empty => true
  | .list as, .list bs => simItems as bs
  | .binary a, .binary b => a == b
  | .boolean a, .boolean b => a == b
  | .ascii a, .ascii b => a == b
  | .jis8 a, .jis8 b => a == b
  | .lstr _ a, .lstr _ b => a == b
  | .int w a, .int v b => w == v && a == b
  | .uint w a, .uint v b => w == v && a == b
  | .float w a, .float v b => w == v && listAll2 (floatBitsEq w) a b
  | _, _ => false
def simItems : List Item → List Item → Bool
  | [], [] => true
  | a :: as, b :: bs => simItem a b && simItems as bs
  | _, _ => false
end

theorem listAll2_map_canonF (O : Oracle) (w : FWidth) : ∀ (vs : List Nat),
    (∀ v ∈ vs, ∃ v', O.parseF w (O.fmtF w v) = some v' ∧ floatBitsEq w v v' = true) →
    listAll2 (floatBitsEq w) vs (vs.map (canonF O w)) = true
  | [], _ => rfl
  | v :: vs, h => by
    obtain ⟨v', h1, h2⟩ := h v (by simp)
    have ih := listAll2_map_canonF O w vs (fun x hx => h x (by simp [hx]))
    simp [listAll2, canonF, h1, h2, ih]

mutual
/-- The parsed value is equal to the original in the property's sense. -/
theorem sim_canon (O : Oracle) : ∀ (it : Item), OKItem O it → simItem it (canon O it) = true
  | .list cs, h => by simp only [canon, simItem]; exact sim_canonL O cs h.2
  | .empty, h => by simp [OKItem] at h
  | .binary _, _ => by simp [canon, simItem]
  | .boolean _, _ => by simp [canon, simItem]
  | .ascii _, _ => by simp [canon, simItem]
  | .jis8 _, _ => by simp [canon, simItem]
  | .lstr _ _, _ => by simp [canon, simItem]
  | .int _ _, _ => by simp [canon, simItem]
  | .uint _ _, _ => by simp [canon, simItem]
  | .float w vs, h => by
    have hf : ∀ v ∈ vs, ∃ v', O.parseF w (O.fmtF w v) = some v' ∧ floatBitsEq w v v' = true := by
      simp only [OKItem, LeafOK] at h
      exact fun v hv => (h.2 v hv).2
    simp [canon, simItem, listAll2_map_canonF O w vs hf]
theorem sim_canonL (O : Oracle) : ∀ (cs : List Item), OKItems O cs → simItems cs (canonL O cs) = true
  | [], _ => rfl
  | c :: cs, h => by simp [canonL, simItems, sim_canon O c h.1, sim_canonL O cs h.2]
end

/-- A value whose floats `strconv` reads back exactly (every non-NaN, and the canonical NaNs) is
    its own canonical form up to the localized-string header. -/
theorem canonF_exact (O : Oracle) (w : FWidth) (vs : List Nat) (h : ∀ v ∈ vs, O.parseF w (O.fmtF w v) = some v) :
    vs.map (canonF O w) = vs := by
  induction vs with
  | nil => rfl
  | cons v vs ih => simp [canonF, h v (by simp), ih (fun x hx => h x (by simp [hx]))]

theorem repeatB_length (u : Bytes) (n : Nat) : (repeatB u n).length = n * u.length := by
  induction n with
  | zero => simp [repeatB]
  | succ n ih => simp [repeatB, ih, Nat.succ_mul]; omega


/-! ## C14: no panic (both modes) -/

/-- The result is not a run-time panic. -/
def NP {α} (r : Except Fail α) : Prop := ∀ e, r = .error e → e.kind ≠ .panic

theorem np_ok {α} (a : α) : NP (.ok a : Except Fail α) := by intro e h; cases h
theorem np_syn {α} (st : St) : NP (syn st : Except Fail α) := by
  intro e h; simp only [syn, synAt] at h; cases h; simp
theorem np_plain {α} (st : St) : NP (plainErr st : Except Fail α) := by
  intro e h; simp only [plainErr] at h; cases h; simp
theorem np_error {α β} (e : Fail) (h : NP (.error e : Except Fail α)) : NP (.error e : Except Fail β) := by
  intro e' h'; cases h'; exact h e rfl
theorem np_of_eq {α β} (r : Except Fail α) (e : Fail) (h : r = .error e) (hr : NP r) : NP (.error e : Except Fail β) := by
  intro e' h'; cases h'; exact hr e h

theorem np_nextNumber (limit : Nat) (st : St) : NP (nextNumber limit st) := by
  unfold nextNumber
  repeat' (first | split | dsimp only)
  all_goals first | exact np_syn _ | exact np_ok _

theorem np_fin (mn mx : Nat) (st : St) : NP (match nextNS st with
      | (some 93, st') => if mn > mx then (syn st' : P (Nat × Nat)) else .ok ((mn, mx), st')
      | (_, st') => syn st') := by
  repeat' split
  all_goals first | exact np_syn _ | exact np_ok _

theorem np_parseItemSize (last : UInt8) (st : St) : NP (parseItemSize last st) := by
  unfold parseItemSize
  repeat' (first | split | dsimp only)
  all_goals first
    | exact np_syn _
    | exact np_ok _
    | exact np_fin _ _ _
    | (rename_i h; exact np_of_eq _ _ h (np_nextNumber _ _))
    | skip

theorem np_parseValues {α} (k : Nat) (conv : Bytes → Option α) (st : St) : NP (parseValues k conv st) := by
  unfold parseValues
  repeat' (first | split | dsimp only)
  all_goals first | exact np_syn _ | exact np_ok _

theorem np_parseASCIIStrict (O : Oracle) (size : Nat) (st : St) : NP (parseASCIIStrict O size st) := by
  unfold parseASCIIStrict
  repeat' (first | split | dsimp only)
  all_goals first | exact np_syn _ | exact np_ok _

/-- The non-strict ASCII reader: since the close-quote scan stays inside the unread input it has no
    failing index any more, only syntax errors. -/
theorem np_parseASCIIFast (size : Nat) (st : St) : NP (parseASCIIFast size st) := by
  unfold parseASCIIFast
  repeat' (first | split | dsimp only)
  all_goals first | exact np_syn _ | exact np_ok _

theorem np_parseQuoted (mk : UInt8 → Bytes → Item) (st : St) : NP (parseQuoted mk st) := by
  unfold parseQuoted
  repeat' (first | split | dsimp only)
  all_goals first | exact np_syn _ | exact np_ok _

theorem np_parseLeaf (O : Oracle) (strict : Bool) (ty : Ty) (size : Nat) (st : St) : NP (parseLeaf O strict ty size st) := by
  cases ty <;> simp only [parseLeaf]
  · exact np_syn _
  · split
    · exact np_parseASCIIStrict _ _ _
    · exact np_parseASCIIFast _ _
  · exact np_parseQuoted _ _
  · exact np_parseQuoted _ _
  all_goals
    split
    · rename_i h; exact np_of_eq _ _ h (np_parseValues _ _ _)
    · exact np_ok _

mutual
theorem np_parseItem (O : Oracle) (strict : Bool) : ∀ (fuel depth : Nat) (st : St), NP (parseItem O strict fuel depth st)
  | 0, _, st => by simp only [parseItem]; exact np_syn _
  | fuel + 1, depth, st => by
    unfold parseItem
    repeat' (first | split | dsimp only)
    all_goals first
      | exact np_syn _
      | exact np_ok _
      | (rename_i h; exact np_of_eq _ _ h (np_parseItemSize _ _))
      | (rename_i h; exact np_of_eq _ _ h (np_parseList O strict fuel depth _ _))
      | (rename_i h; exact np_of_eq _ _ h (np_parseLeaf O strict _ _ _))
      | (rename_i h; split at h <;> first
          | exact np_of_eq _ _ h (np_syn _)
          | exact np_of_eq _ _ h (np_parseList O strict fuel depth _ _)
          | exact np_of_eq _ _ h (np_parseLeaf O strict _ _ _)
          | (split at h <;> first
              | exact np_of_eq _ _ h (np_syn _)
              | exact np_of_eq _ _ h (np_parseList O strict fuel depth _ _)))
      | skip
theorem np_parseList (O : Oracle) (strict : Bool) : ∀ (fuel depth : Nat) (acc : List Item) (st : St),
    NP (parseList O strict fuel depth acc st)
  | 0, _, _, st => by simp only [parseList]; exact np_syn _
  | fuel + 1, depth, acc, st => by
    unfold parseList
    repeat' (first | split | dsimp only)
    all_goals first
      | exact np_syn _
      | exact np_ok _
      | exact np_parseList O strict fuel depth _ _
      | (rename_i h; exact np_of_eq _ _ h (np_parseItem O strict fuel _ _))
      | skip
end

theorem np_headerWBit (s f : Nat) (st : St) : NP (headerWBit s f st) := by
  unfold headerWBit
  repeat' split
  all_goals exact np_ok _

theorem np_parseHeaderLine (st : St) : NP (parseHeaderLine st) := by
  unfold parseHeaderLine
  repeat' (first | split | dsimp only)
  all_goals first
    | exact np_syn _
    | exact np_ok _
    | exact np_headerWBit _ _ _
    | (rename_i h; exact np_of_eq _ _ h (np_nextNumber _ _))
    | skip

theorem np_parseBody (O : Oracle) (strict : Bool) (st : St) : NP (parseBody O strict st) := by
  unfold parseBody
  repeat' split
  all_goals first | exact np_ok _ | exact np_parseItem O strict _ _ _

theorem np_parseMsg (O : Oracle) (strict headerOnly : Bool) (st : St) : NP (parseMsg O strict headerOnly st) := by
  unfold parseMsg
  repeat' (first | split | dsimp only)
  all_goals first
    | exact np_syn _
    | exact np_plain _
    | exact np_ok _
    | (rename_i h; exact np_of_eq _ _ h (np_parseHeaderLine _))
    | (rename_i h; exact np_of_eq _ _ h (np_parseBody O strict _))
    | skip

theorem np_parseLoop (O : Oracle) (strict : Bool) : ∀ (fuel : Nat) (acc : List Msg) (st : St),
    NP (parseLoop O strict fuel acc st)
  | 0, _, _ => by simp only [parseLoop]; exact np_ok _
  | fuel + 1, acc, st => by
    unfold parseLoop
    repeat' split
    all_goals first
      | exact np_ok _
      | exact np_parseLoop O strict fuel _ _
      | (rename_i h; exact np_of_eq _ _ h (np_parseMsg O strict _ _))

/-- **No panic**, in both modes, for every input and all three entry points. -/
theorem parse_no_panic (O : Oracle) (strict : Bool) (input : Bytes) :
    (∀ a d, parseAll O strict input ≠ ⟨.panic, a, d⟩) ∧
    (∀ h a d, parseOne O strict h input ≠ ⟨.panic, a, d⟩) := by
  have key : ∀ e : Fail, e.kind ≠ .panic → ∀ a d, failOut input e ≠ ⟨.panic, a, d⟩ := by
    intro e he a d h
    unfold failOut at h
    split at h
    · cases h
    · cases h
    · rename_i hk; exact he hk
  constructor
  · intro a d h
    unfold parseAll at h
    split at h
    · rename_i e he
      exact key e (np_parseLoop O strict _ _ _ e he) a d h
    · cases h
  · intro ho a d h
    unfold parseOne at h
    split at h
    · rename_i e he
      exact key e (np_parseMsg O strict ho _ e he) a d h
    · cases h
    · cases h

/-! ## C14: recursion depth -/

theorem fwd_md (n : Nat) (st : St) : (fwd n st).maxDepth = st.maxDepth := by
  simp only [fwd]; split <;> rfl
theorem skipSpace_md (st : St) : (skipSpace st).2.maxDepth = st.maxDepth := by
  simp only [skipSpace]; split <;> rfl
theorem skipComment_md (st : St) : (skipComment st).maxDepth = st.maxDepth := by
  have := skipSpace_md st
  simp only [skipComment]
  repeat' split
  all_goals simp_all [fwd_md]
theorem nextRune_md (st : St) : (nextRune st).2.maxDepth = st.maxDepth := by
  simp only [nextRune]; split <;> rfl
theorem nextNS_md (st : St) : (nextNS st).2.maxDepth = st.maxDepth := by
  have := skipSpace_md st
  simp only [nextNS]; split <;> simp_all [nextRune_md]
theorem peekNS_md (st : St) : (peekNS st).2.maxDepth = st.maxDepth := by
  have := skipSpace_md st
  simp only [peekNS]; split <;> simp_all

theorem md_of_eq {α} {f : St → α × St} {st : St} {a : α} {st' : St} (hf : ∀ s, (f s).2.maxDepth = s.maxDepth)
    (h : f st = (a, st')) : st'.maxDepth = st.maxDepth := by
  have := hf st; rw [h] at this; exact this

theorem skipSpace_md' {st b st'} (h : skipSpace st = (b, st')) : st'.maxDepth = st.maxDepth := md_of_eq skipSpace_md h
theorem nextRune_md' {st b st'} (h : nextRune st = (b, st')) : st'.maxDepth = st.maxDepth := md_of_eq nextRune_md h
theorem nextNS_md' {st b st'} (h : nextNS st = (b, st')) : st'.maxDepth = st.maxDepth := md_of_eq nextNS_md h
theorem peekNS_md' {st b st'} (h : peekNS st = (b, st')) : st'.maxDepth = st.maxDepth := md_of_eq peekNS_md h

attribute [grind →] skipSpace_md' nextRune_md' nextNS_md' peekNS_md'
attribute [grind =] fwd_md skipComment_md

/-- The result's depth counter (state or failure) is the input state's. -/
def MDp {α} (st : St) (r : P α) : Prop :=
  (∀ a st', r = .ok (a, st') → st'.maxDepth = st.maxDepth) ∧ (∀ e, r = .error e → e.maxDepth = st.maxDepth)

theorem mdp_syn {α} (st st0 : St) (h : st.maxDepth = st0.maxDepth) : MDp st0 (syn st : P α) := by
  refine ⟨fun a st' h' => by simp [syn, synAt] at h', fun e h' => ?_⟩
  simp only [syn, synAt] at h'; cases h'; exact h
theorem mdp_ok {α} (a : α) (st st0 : St) (h : st.maxDepth = st0.maxDepth) : MDp st0 (.ok (a, st) : P α) := by
  refine ⟨fun a' st' h' => by cases h'; exact h, fun e h' => by cases h'⟩

theorem mdp_err {α} (e : Fail) (st0 : St) (h : e.maxDepth = st0.maxDepth) : MDp st0 (.error e : P α) := by
  constructor
  · intro a st' h'; cases h'
  · intro e' h'; cases h'; exact h

theorem mdp_nextNumber (limit : Nat) (st : St) : MDp st (nextNumber limit st) := by
  unfold nextNumber
  repeat' (first | split | dsimp only)
  all_goals first | exact mdp_syn _ _ rfl | exact mdp_ok _ _ _ rfl

theorem nextNumber_md' {limit st v st'} (h : nextNumber limit st = .ok (v, st')) : st'.maxDepth = st.maxDepth :=
  (mdp_nextNumber limit st).1 v st' h
theorem nextNumber_mde {limit st e} (h : nextNumber limit st = .error e) : e.maxDepth = st.maxDepth :=
  (mdp_nextNumber limit st).2 e h
attribute [grind →] nextNumber_md' nextNumber_mde

theorem mdp_parseItemSize (last : UInt8) (st : St) : MDp st (parseItemSize last st) := by
  unfold parseItemSize
  repeat' (first | split | dsimp only)
  all_goals first
    | (apply mdp_syn; grind)
    | (apply mdp_ok; grind)
    | (apply mdp_err; grind)
    | skip

theorem parseItemSize_md' {last st v st'} (h : parseItemSize last st = .ok (v, st')) : st'.maxDepth = st.maxDepth :=
  (mdp_parseItemSize last st).1 v st' h
theorem parseItemSize_mde {last st e} (h : parseItemSize last st = .error e) : e.maxDepth = st.maxDepth :=
  (mdp_parseItemSize last st).2 e h
attribute [grind →] parseItemSize_md' parseItemSize_mde

theorem mdp_parseValues {α} (k : Nat) (conv : Bytes → Option α) (st : St) : MDp st (parseValues k conv st) := by
  unfold parseValues
  repeat' (first | split | dsimp only)
  all_goals first | (apply mdp_syn; rfl) | (apply mdp_ok; rfl)

theorem mdp_parseASCIIStrict (O : Oracle) (size : Nat) (st : St) : MDp st (parseASCIIStrict O size st) := by
  unfold parseASCIIStrict
  repeat' (first | split | dsimp only)
  all_goals first | (apply mdp_syn; rfl) | (apply mdp_ok; simp [fwd_md])

theorem mdp_parseASCIIFast (size : Nat) (st : St) : MDp st (parseASCIIFast size st) := by
  unfold parseASCIIFast
  repeat' (first | split | dsimp only)
  all_goals first | (apply mdp_syn; grind) | (apply mdp_ok; grind)

theorem mdp_parseQuoted (mk : UInt8 → Bytes → Item) (st : St) : MDp st (parseQuoted mk st) := by
  unfold parseQuoted
  repeat' (first | split | dsimp only)
  all_goals first | (apply mdp_syn; grind) | (apply mdp_ok; grind)

theorem mdp_parseLeaf (O : Oracle) (strict : Bool) (ty : Ty) (size : Nat) (st : St) : MDp st (parseLeaf O strict ty size st) := by
  cases ty <;> simp only [parseLeaf]
  · exact mdp_syn _ _ rfl
  · split
    · exact mdp_parseASCIIStrict _ _ _
    · exact mdp_parseASCIIFast _ _
  · exact mdp_parseQuoted _ _
  · exact mdp_parseQuoted _ _
  all_goals
    split
    · rename_i h; exact mdp_err _ _ ((mdp_parseValues _ _ _).2 _ h)
    · rename_i h; exact mdp_ok _ _ _ ((mdp_parseValues _ _ _).1 _ _ h)

theorem parseLeaf_md' {O strict ty size st v st'} (h : parseLeaf O strict ty size st = .ok (v, st')) :
    st'.maxDepth = st.maxDepth := (mdp_parseLeaf O strict ty size st).1 v st' h
theorem parseLeaf_mde {O strict ty size st e} (h : parseLeaf O strict ty size st = .error e) :
    e.maxDepth = st.maxDepth := (mdp_parseLeaf O strict ty size st).2 e h
attribute [grind →] parseLeaf_md' parseLeaf_mde

/-- The depth counter of the result stays below `B`. -/
def MDb {α} (B : Nat) (r : P α) : Prop :=
  (∀ a st', r = .ok (a, st') → st'.maxDepth ≤ B) ∧ (∀ e, r = .error e → e.maxDepth ≤ B)

theorem mdb_syn {α} (B : Nat) (st : St) (h : st.maxDepth ≤ B) : MDb B (syn st : P α) := by
  constructor
  · intro a st' h'; simp [syn, synAt] at h'
  · intro e h'; simp only [syn, synAt] at h'; cases h'; exact h
theorem mdb_ok {α} (B : Nat) (a : α) (st : St) (h : st.maxDepth ≤ B) : MDb B (.ok (a, st) : P α) := by
  constructor
  · intro a' st' h'; cases h'; exact h
  · intro e h'; cases h'
theorem mdb_err {α} (B : Nat) (e : Fail) (h : e.maxDepth ≤ B) : MDb B (.error e : P α) := by
  constructor
  · intro a st' h'; cases h'
  · intro e' h'; cases h'; exact h

theorem syn_mde {α} {st : St} {e : Fail} (h : (syn st : P α) = .error e) : e.maxDepth = st.maxDepth := by
  simp only [syn, synAt] at h; cases h; rfl
theorem syn_not_ok {α} {st : St} {x : α × St} (h : (syn st : P α) = .ok x) : False := by
  simp [syn, synAt] at h
attribute [grind →] syn_mde syn_not_ok

theorem bumpAlloc_md (n : Nat) (st : St) : (bumpAlloc n st).maxDepth = st.maxDepth := rfl
attribute [grind =] bumpAlloc_md

mutual
theorem mdb_parseItem (O : Oracle) (strict : Bool) : ∀ (fuel depth : Nat) (st : St),
    depth ≤ maxListDepth + 1 → st.maxDepth ≤ maxListDepth + 1 →
    MDb (maxListDepth + 1) (parseItem O strict fuel depth st)
  | 0, _, st, _, hst => by simp only [parseItem]; exact mdb_syn _ _ hst
  | fuel + 1, depth, st, hd, hst => by
    have ihL1 : ∀ acc s it s', depth ≤ maxListDepth → s.maxDepth ≤ maxListDepth + 1 →
        parseList O strict fuel depth acc s = .ok (it, s') → s'.maxDepth ≤ maxListDepth + 1 :=
      fun acc s it s' h1 h2 h3 => (mdb_parseList O strict fuel depth acc s h1 h2).1 it s' h3
    have ihL2 : ∀ acc s e, depth ≤ maxListDepth → s.maxDepth ≤ maxListDepth + 1 →
        parseList O strict fuel depth acc s = .error e → e.maxDepth ≤ maxListDepth + 1 :=
      fun acc s e h1 h2 h3 => (mdb_parseList O strict fuel depth acc s h1 h2).2 e h3
    unfold parseItem
    repeat' (first | split | dsimp only)
    all_goals first
      | (apply mdb_syn; grind)
      | (apply mdb_ok; grind)
      | (apply mdb_err; grind)
      | (rename_i heq; split at heq <;> first
          | (apply mdb_err; grind)
          | (apply mdb_ok; grind)
          | (split at heq <;> first | (apply mdb_err; grind) | (apply mdb_ok; grind)))
      | skip
theorem mdb_parseList (O : Oracle) (strict : Bool) : ∀ (fuel depth : Nat) (acc : List Item) (st : St),
    depth ≤ maxListDepth → st.maxDepth ≤ maxListDepth + 1 →
    MDb (maxListDepth + 1) (parseList O strict fuel depth acc st)
  | 0, _, _, st, _, hst => by simp only [parseList]; exact mdb_syn _ _ hst
  | fuel + 1, depth, acc, st, hd, hst => by
    have ihI1 : ∀ s it s', s.maxDepth ≤ maxListDepth + 1 →
        parseItem O strict fuel (depth + 1) s = .ok (it, s') → s'.maxDepth ≤ maxListDepth + 1 :=
      fun s it s' h2 h3 => (mdb_parseItem O strict fuel (depth + 1) s (by omega) h2).1 it s' h3
    have ihI2 : ∀ s e, s.maxDepth ≤ maxListDepth + 1 →
        parseItem O strict fuel (depth + 1) s = .error e → e.maxDepth ≤ maxListDepth + 1 :=
      fun s e h2 h3 => (mdb_parseItem O strict fuel (depth + 1) s (by omega) h2).2 e h3
    unfold parseList
    repeat' (first | split | dsimp only)
    all_goals first
      | (apply mdb_syn; grind)
      | (apply mdb_ok; grind)
      | (apply mdb_err; grind)
      | (rename_i h1 h2; exact mdb_parseList O strict fuel depth _ _ hd (ihI1 _ _ _ (by grind) h2))
      | skip
end

theorem skipName_md (st : St) (k : Nat) : (skipName st k).maxDepth = st.maxDepth := by
  simp only [skipName]
  repeat' split
  all_goals simp [fwd_md]
theorem skipQuote_md (st : St) : (skipQuote st).maxDepth = st.maxDepth := by
  unfold skipQuote
  repeat' split
  all_goals grind
attribute [grind =] skipName_md skipQuote_md

theorem mdp_trans {α} {st1 st0 : St} {r : P α} (h : MDp st1 r) (e : st1.maxDepth = st0.maxDepth) : MDp st0 r :=
  ⟨fun a st' h' => (h.1 a st' h').trans e, fun x h' => (h.2 x h').trans e⟩

theorem mdp_headerWBit (s f : Nat) (st : St) : MDp st (headerWBit s f st) := by
  unfold headerWBit
  repeat' split
  all_goals (apply mdp_ok; grind)

theorem mdp_parseHeaderLine (st : St) : MDp st (parseHeaderLine st) := by
  unfold parseHeaderLine
  repeat' (first | split | dsimp only)
  all_goals first
    | (apply mdp_syn; grind)
    | (apply mdp_ok; grind)
    | (apply mdp_err; grind)
    | (exact mdp_trans (mdp_headerWBit _ _ _) (by grind))
    | skip

theorem parseHeaderLine_md' {st v st'} (h : parseHeaderLine st = .ok (v, st')) : st'.maxDepth = st.maxDepth :=
  (mdp_parseHeaderLine st).1 v st' h
theorem parseHeaderLine_mde {st e} (h : parseHeaderLine st = .error e) : e.maxDepth = st.maxDepth :=
  (mdp_parseHeaderLine st).2 e h
attribute [grind →] parseHeaderLine_md' parseHeaderLine_mde

theorem mdb_parseBody (O : Oracle) (strict : Bool) (st : St) (hst : st.maxDepth ≤ maxListDepth + 1) :
    MDb (maxListDepth + 1) (parseBody O strict st) := by
  unfold parseBody
  repeat' split
  · apply mdb_ok; grind
  · exact mdb_parseItem O strict _ 1 _ (by decide) (by grind)

theorem plainErr_mde {α} {st : St} {e : Fail} (h : (plainErr st : Except Fail α) = .error e) : e.maxDepth = st.maxDepth := by
  simp only [plainErr] at h; cases h; rfl
theorem plainErr_not_ok {α} {st : St} {x : α} (h : (plainErr st : Except Fail α) = .ok x) : False := by
  simp [plainErr] at h
attribute [grind →] plainErr_mde plainErr_not_ok

theorem mdb_plain {α} (B : Nat) (st : St) (h : st.maxDepth ≤ B) : MDb B (plainErr st : P α) := by
  constructor
  · intro a st' h'; simp [plainErr] at h'
  · intro e h'; simp only [plainErr] at h'; cases h'; exact h

theorem mdb_parseMsg (O : Oracle) (strict headerOnly : Bool) (st : St) (hst : st.maxDepth ≤ maxListDepth + 1) :
    MDb (maxListDepth + 1) (parseMsg O strict headerOnly st) := by
  have hb1 : ∀ s it s', s.maxDepth ≤ maxListDepth + 1 → parseBody O strict s = .ok (it, s') → s'.maxDepth ≤ maxListDepth + 1 :=
    fun s it s' h2 h3 => (mdb_parseBody O strict s h2).1 it s' h3
  have hb2 : ∀ s e, s.maxDepth ≤ maxListDepth + 1 → parseBody O strict s = .error e → e.maxDepth ≤ maxListDepth + 1 :=
    fun s e h2 h3 => (mdb_parseBody O strict s h2).2 e h3
  unfold parseMsg
  repeat' (first | split | dsimp only)
  all_goals first
    | (apply mdb_syn; grind)
    | (apply mdb_plain; grind)
    | (apply mdb_ok; grind)
    | (apply mdb_err; grind)
    | skip

theorem md_parseLoop (O : Oracle) (strict : Bool) : ∀ (fuel : Nat) (acc : List Msg) (st : St),
    st.maxDepth ≤ maxListDepth + 1 →
    (∀ ms st', parseLoop O strict fuel acc st = .ok (ms, st') → st'.maxDepth ≤ maxListDepth + 1) ∧
    (∀ e, parseLoop O strict fuel acc st = .error e → e.maxDepth ≤ maxListDepth + 1)
  | 0, acc, st, hst => by
    simp only [parseLoop]
    exact ⟨fun ms st' h => (by cases h; exact hst), fun e h => (by cases h)⟩
  | fuel + 1, acc, st, hst => by
    have hm := mdb_parseMsg O strict false st hst
    unfold parseLoop
    split
    · rename_i e he
      exact ⟨fun ms st' h => (by cases h), fun e' h => (by cases h; exact hm.2 e he)⟩
    · rename_i st1 he
      exact ⟨fun ms st' h => (by cases h; exact hm.1 _ _ he), fun e h => (by cases h)⟩
    · rename_i m st1 he
      exact md_parseLoop O strict fuel (m :: acc) st1 (hm.1 _ _ he)

/-- **Bounded recursion.** In both modes, on every input, the parser's recursion never goes deeper
    than `MaxListDepth + 1` activations of `parseItem` (64 nested lists and a leaf). -/
theorem parseAll_depth_bound (O : Oracle) (strict : Bool) (input : Bytes) :
    (parseAll O strict input).maxDepth ≤ maxListDepth + 1 := by
  have h := md_parseLoop O strict (input.length + 1) [] (initSt input) (by simp [initSt])
  unfold parseAll
  split
  · rename_i e he
    have := h.2 e he
    unfold failOut; split <;> exact this
  · rename_i ms st he
    exact h.1 ms st he

theorem parseOne_depth_bound (O : Oracle) (strict headerOnly : Bool) (input : Bytes) :
    (parseOne O strict headerOnly input).maxDepth ≤ maxListDepth + 1 := by
  have h := mdb_parseMsg O strict headerOnly (initSt input) (by simp [initSt])
  unfold parseOne
  split
  · rename_i e he
    have := h.2 e he
    unfold failOut; split <;> exact this
  · rename_i st he; exact h.1 _ _ he
  · rename_i m st he; exact h.1 _ _ he


/-! ## C14: what a size hint can make the parser reserve -/

theorem listPrealloc_le (size : Nat) (data : Bytes) :
    listPrealloc size data ≤ maxListPrealloc ∧ 3 * listPrealloc size data ≤ data.length ∧ listPrealloc size data ≤ size := by
  unfold listPrealloc
  have h1 : (data.take (3 * maxListPrealloc)).length ≤ data.length := by simp [List.length_take]; omega
  refine ⟨?_, ?_, ?_⟩ <;> omega

theorem indexByte_lt (b : UInt8) : ∀ (xs : Bytes) (i k : Nat), indexByte b i xs = some k → k < i + xs.length
  | [], _, _, h => by simp [indexByte] at h
  | x :: xs, i, k, h => by
    simp only [indexByte] at h
    split at h
    · cases h; simp
    · have := indexByte_lt b xs (i + 1) k h
      simp only [List.length_cons]; omega

theorem asciiPrealloc_le (size : Nat) (data : Bytes) : asciiPrealloc size data ≤ data.length ∧ asciiPrealloc size data ≤ size := by
  unfold asciiPrealloc
  split
  · simp
  · rename_i i h
    have := indexByte_lt cGT data 0 i h
    omega

end GoSecs.Sml
