/-
  Tie between the SECS-I inbound assembler regenerated from secs1/assembler.go (GoSecs/Gen/Secs1.lean, effect mode:
  `accept`, `beginMessage`, `startMessage`, `appendBlock`, `complete`, `reset`, `report` as state-passing functions
  on the assembler value; the clock `a.now()`, the live timers `a.timers()`, the notify callback, the metrics
  counters and `deliverFrame` as trace entries, their results from the oracle list) and the model `Asm.accept`
  (GoSecs/Model/Secs1.lean).

  `Asm.toGen s0 a` is the Go assembler value of a model assembler (callbacks / metrics pointer from `s0`); the clock
  reads `now` at every call of one `accept` (the model's single reading), the timers answer has `T4 = a.t4`.
  `accept_gen`: for every assembler state, every block, every clock reading and every verdict of the core on a
  delivered frame, the regenerated `accept` returns the encoding of the model's next state, consumes exactly the
  oracle values of the calls it makes, and its error / trace are `acceptRes`; `acceptRes_model`: that trace without
  the clock / timer reads is the model's event list rendered call by call, the error is the assembleFrame sentinel or
  the core's verdict.

  time.Time is an integer instant (translator assumption; `Sub` is subtraction).  Core Lean only.
-/
import GoSecs.Lemmas.Secs1Gen

set_option linter.unusedSimpArgs false

namespace GoSecs.Secs1
open GoSecs.Gen

/-- The Go assembler value of a model assembler (the callbacks and the metrics pointer come from `s0`). -/
def Asm.toGen (s0 : secs1_assembler) (a : Asm) : secs1_assembler :=
  { s0 with isEquip := a.isEquip, deviceID := (a.deviceID : Int), «open» := a.isOpen, header := a.header.toGen,
            blocks := a.blocks.map Block.toGen, expected := (a.expected : Int), lastBlockTime := (a.lastTime : Int),
            lastHeader := a.lastHeader.toList, haveLast := a.haveLast }

def clockEff : Go.Effect := .call "secs1.assembler.now" []
def timersEff : Go.Effect := .call "secs1.assembler.timers" []
def incEff (name : String) : Go.Effect := .call ("secs1.ConnectionMetrics." ++ name) []

def Violation.goName : Violation → String
  | .deviceID => "ErrDeviceIDMismatch"
  | .blockNumber => "ErrBlockNumberMismatch"
  | .header => "ErrHeaderMismatch"
  | .invalidFirst => "ErrInvalidFirstBlock"

/-- `a.report(v, blk.header)`: the notify callback, when one is installed. -/
def notifyEff (s0 : secs1_assembler) (v : Violation) (blk : Block) : List Go.Effect :=
  if s0.notify then [.call "secs1.assembler.notify" [.err (some v.goName), .bytes blk.hdr.toList]] else []

theorem zero_hdr : ({} : MsgHeader).toGen = secs1_messageHeader.zero := rfl

theorem reset_gen (s0 : secs1_assembler) (a : Asm) :
    secs1_assembler_reset (a.toGen s0) = (a.reset.toGen s0, []) := by
  simp [secs1_assembler_reset, Asm.toGen, Asm.reset, zero_hdr]

theorem report_gen (s0 : secs1_assembler) (a : Asm) (v : Violation) (blk : Block) :
    secs1_assembler_report (a.toGen s0) (some v.goName) blk.toGen.header = notifyEff s0 v blk := by
  unfold secs1_assembler_report notifyEff
  cases h : s0.notify <;> simp [Asm.toGen, h, Block.toGen]

/-- what `complete` asks of the oracle: the core's verdict on the delivered frame, when a frame is delivered -/
def completeOrc (a : Asm) (derr : Go.Err) : List Go.Val :=
  match assembleFrame a.blocks with
  | .ok _ => [.err derr]
  | .error _ => []

def completeRes (a : Asm) (derr : Go.Err) : Go.Err × List Go.Effect :=
  match assembleFrame a.blocks with
  | .ok f => (derr, [.call "secs1.assembler.deliverFrame" [.bytes f]])
  | .error e => (some e.goName, [])

theorem complete_gen (s0 : secs1_assembler) (a : Asm) (derr : Go.Err) (rest : List Go.Val) :
    secs1_assembler_complete (a.toGen s0) (completeOrc a derr ++ rest) =
      some (a.reset.toGen s0, (completeRes a derr).1, (completeRes a derr).2, rest) := by
  unfold secs1_assembler_complete
  have hb : (a.toGen s0).blocks = a.blocks.map Block.toGen := rfl
  rw [hb, assembleFrame_gen]
  simp only [Option.bind_some, reset_gen]
  unfold completeOrc completeRes
  cases assembleFrame a.blocks with
  | ok f => simp [Go.orc, Go.Val.asErr]
  | error e => simp [Go.wrapErr]

theorem complete_fst (a : Asm) : a.complete.1 = a.reset := by
  unfold Asm.complete; split <;> rfl

theorem blockNumber_lt (h : Hdr) : h.blockNumber < 32768 := by
  unfold Hdr.blockNumber; have := h.b5.toNat_lt; omega

theorem wrap16_succ (n : Nat) (h : n < 32768) : Go.wrapU 16 ((n : Int) + 1) = ((n + 1 : Nat) : Int) := by
  rw [Go.wrapU_of_range 16 _ (by omega) (by omega)]; simp

/-- `appendBlock`'s model state before `complete` -/
def Asm.appended (a : Asm) (now : Nat) (blk : Block) : Asm :=
  { a with blocks := a.blocks ++ [blk], expected := blk.hdr.blockNumber + 1, lastTime := now,
           lastHeader := blk.hdr, haveLast := true }

theorem appendBlock_gen (s0 : secs1_assembler) (a : Asm) (now : Nat) (blk : Block) (derr : Go.Err) (rest : List Go.Val) :
    secs1_assembler_appendBlock (a.toGen s0) blk.toGen
        (.int now :: ((if blk.hdr.eBit then completeOrc (a.appended now blk) derr else []) ++ rest)) =
      some ((a.appendBlock now blk).1.toGen s0,
        (if blk.hdr.eBit then (completeRes (a.appended now blk) derr).1 else none),
        clockEff :: (if blk.hdr.eBit then (completeRes (a.appended now blk) derr).2 else []), rest) := by
  unfold secs1_assembler_appendBlock
  have hst : ({ ({ ({ ({ ({ a.toGen s0 with blocks := (a.toGen s0).blocks ++ [blk.toGen] } : secs1_assembler) with
      expected := Go.wrapU 16 (secs1_block_blockNumber blk.toGen + 1) } : secs1_assembler) with
      lastBlockTime := (now : Int) } : secs1_assembler) with lastHeader := blk.toGen.header } : secs1_assembler) with
      haveLast := true } : secs1_assembler) = (a.appended now blk).toGen s0 := by
    rw [blockNumber_gen, wrap16_succ _ (blockNumber_lt _)]
    simp [Asm.toGen, Asm.appended, Block.toGen]
  simp only [Go.orc, List.headD_cons, Go.Val.asInt, List.tail_cons, hst, eBit_gen]
  cases he : blk.hdr.eBit
  · simp [Asm.appendBlock, he, Asm.appended, clockEff]
  · simp only [reduceIte, complete_gen, Option.bind_some]
    simp [Asm.appendBlock, he, Asm.appended, Asm.complete, clockEff, completeRes]
    cases assembleFrame (a.blocks ++ [blk]) <;> rfl

def validFirst (blk : Block) : Bool :=
  decide (blk.hdr.blockNumber = 1 ∨ (blk.hdr.blockNumber = 0 ∧ blk.hdr.eBit = true))

/-- `startMessage`'s model state before `complete` -/
def Asm.started (a : Asm) (now : Nat) (blk : Block) : Asm :=
  { a with isOpen := true, header := blk.hdr.msgHeader, blocks := [blk], expected := blk.hdr.blockNumber + 1,
           lastTime := now, lastHeader := blk.hdr, haveLast := true }

def startOrc (a : Asm) (now : Nat) (blk : Block) (derr : Go.Err) : List Go.Val :=
  if validFirst blk then .int now :: (if blk.hdr.eBit then completeOrc (a.started now blk) derr else []) else []

def startRes (s0 : secs1_assembler) (a : Asm) (now : Nat) (blk : Block) (notify : Bool) (derr : Go.Err) :
    Go.Err × List Go.Effect :=
  if validFirst blk then
    (if blk.hdr.eBit then (completeRes (a.started now blk) derr).1 else none,
     clockEff :: (if blk.hdr.eBit then (completeRes (a.started now blk) derr).2 else []))
  else (none, if notify then incEff "incInvalidFirstBlockCount" :: notifyEff s0 .invalidFirst blk else [])

theorem startMessage_gen (s0 : secs1_assembler) (a : Asm) (now : Nat) (blk : Block) (notify : Bool)
    (derr : Go.Err) (rest : List Go.Val) :
    secs1_assembler_startMessage (a.toGen s0) blk.toGen notify (startOrc a now blk derr ++ rest) =
      some ((a.startMessage now blk notify).1.toGen s0, (startRes s0 a now blk notify derr).1,
        (startRes s0 a now blk notify derr).2, rest) := by
  unfold secs1_assembler_startMessage
  have hbn := blockNumber_lt blk.hdr
  have hv : (((blk.hdr.blockNumber : Int) == 1) || (((blk.hdr.blockNumber : Int) == 0) && blk.hdr.eBit)) = validFirst blk := by
    unfold validFirst
    by_cases h1 : blk.hdr.blockNumber = 1
    · simp [h1]
    · by_cases h0 : blk.hdr.blockNumber = 0
      · simp [h0]
      · have e1 : ((blk.hdr.blockNumber : Int) == 1) = false := by simp; omega
        have e0 : ((blk.hdr.blockNumber : Int) == 0) = false := by simp; omega
        simp [h0, h1, e0, e1]
  simp only [blockNumber_gen, eBit_gen, hv]
  cases hvf : validFirst blk
  · -- not a valid first block
    have hm : a.startMessage now blk notify = (a, [.invalidFirst notify]) := by
      unfold Asm.startMessage; unfold validFirst at hvf; simp only [decide_eq_false_iff_not] at hvf
      simp only [hvf, reduceIte]
    rw [hm]
    cases notify
    · simp [startOrc, startRes, hvf]
    · have := report_gen s0 a .invalidFirst blk
      simp only [Violation.goName] at this
      simp [startOrc, startRes, hvf, this, incEff]
  · have hst : ({ ({ ({ ({ ({ ({ ({ a.toGen s0 with «open» := true } : secs1_assembler) with
        header := secs1_block_messageHeader blk.toGen } : secs1_assembler) with blocks := [blk.toGen] } : secs1_assembler) with
        expected := Go.wrapU 16 ((blk.hdr.blockNumber : Int) + 1) } : secs1_assembler) with
        lastBlockTime := (now : Int) } : secs1_assembler) with lastHeader := blk.toGen.header } : secs1_assembler) with
        haveLast := true } : secs1_assembler) = (a.started now blk).toGen s0 := by
      rw [messageHeader_gen, wrap16_succ _ hbn]
      simp [Asm.toGen, Asm.started, Block.toGen]
    have hm : a.startMessage now blk notify =
        (if blk.hdr.eBit then ((a.started now blk).complete.1, .started :: (a.started now blk).complete.2)
         else (a.started now blk, [.started])) := by
      unfold Asm.startMessage; unfold validFirst at hvf; simp only [decide_eq_true_eq] at hvf
      simp only [hvf, reduceIte]; rfl
    rw [hm]
    simp only [startOrc, startRes, hvf, reduceIte, Bool.not_true, Bool.false_eq_true, List.cons_append, Go.orc,
      List.headD_cons, Go.Val.asInt, List.tail_cons, hst]
    cases he : blk.hdr.eBit
    · simp [clockEff]
    · simp only [reduceIte, complete_gen, Option.bind_some]
      simp [clockEff, complete_fst]

/-! ### accept -/

def timerVals (tc : hsms_TimerConfig) : List Go.Val :=
  [.int tc.T1, .int tc.T2, .int tc.T3, .int tc.T4, .int tc.T5, .int tc.T6, .int tc.T7, .int tc.T8]

theorem ofVals_timers (tc : hsms_TimerConfig) (rest : List Go.Val) :
    hsms_TimerConfig.ofVals (timerVals tc ++ rest) = (tc, rest) := rfl

def continues (x : Asm) (blk : Block) : Bool :=
  decide (blk.hdr.blockNumber = x.expected ∧ blk.hdr.msgHeader = x.header)

def isDup (x : Asm) (blk : Block) : Bool := decide (x.haveLast = true ∧ blk.hdr = x.lastHeader)

/-- what one `accept` call asks of its environment, in call order: the clock and the live timers when a partial
    is open; the clock again when the block is taken; the core's verdict when a frame is delivered -/
def acceptOrc (a : Asm) (now : Nat) (tc : hsms_TimerConfig) (blk : Block) (derr : Go.Err) : List Go.Val :=
  if blk.hdr.deviceID ≠ a.deviceID then []
  else if blk.hdr.rBit = a.isEquip then []
  else
    (if a.isOpen then .int now :: timerVals tc else []) ++
    (let x := (a.expire now).1
     if isDup x blk then []
     else if x.isOpen then
       if continues x blk then
         .int now :: (if blk.hdr.eBit then completeOrc (x.appended now blk) derr else [])
       else startOrc x.reset now blk derr
     else startOrc x now blk derr)

def mismatchOf (x : Asm) (blk : Block) : Violation :=
  if blk.hdr.blockNumber ≠ x.expected then .blockNumber else .header

/-- the error `accept` returns and its trace, over the model -/
def acceptRes (s0 : secs1_assembler) (a : Asm) (now : Nat) (blk : Block) (derr : Go.Err) : Go.Err × List Go.Effect :=
  if blk.hdr.deviceID ≠ a.deviceID then (none, incEff "incDeviceIDMismatchCount" :: notifyEff s0 .deviceID blk)
  else if blk.hdr.rBit = a.isEquip then (none, [incEff "incBlockDirDropCount"])
  else
    let pre : List Go.Effect := (if a.isOpen then [clockEff, timersEff] else []) ++
      (if (a.expire now).2 = [] then [] else [incEff "incPartialTimeoutCount"])
    let x := (a.expire now).1
    if isDup x blk then (none, pre ++ [incEff "incBlockDupDropCount"])
    else if x.isOpen then
      if continues x blk then
        (if blk.hdr.eBit then (completeRes (x.appended now blk) derr).1 else none,
         pre ++ clockEff :: (if blk.hdr.eBit then (completeRes (x.appended now blk) derr).2 else []))
      else
        ((startRes s0 x.reset now blk false derr).1,
         pre ++ incEff "incBlockNumberMismatchCount" :: (notifyEff s0 (mismatchOf x blk) blk ++
           (startRes s0 x.reset now blk false derr).2))
    else ((startRes s0 x now blk true derr).1, pre ++ (startRes s0 x now blk true derr).2)

theorem hdr_toList_inj (h1 h2 : Hdr) : (h1.toList == h2.toList) = decide (h1 = h2) := by
  by_cases h : h1 = h2
  · subst h; simp
  · have : h1.toList ≠ h2.toList := by
      intro e; apply h
      cases h1; cases h2
      simp only [Hdr.toList, List.cons.injEq, and_true] at e
      simp [e]
    simp [h, this]

theorem msgHeader_beq (h1 h2 : MsgHeader) : (h1.toGen == h2.toGen) = decide (h1 = h2) := by
  by_cases h : h1 = h2
  · subst h; simp
  · have : h1.toGen ≠ h2.toGen := fun e => h (toGen_inj _ _ e)
    simp [h, this]

theorem b_dev (s0 : secs1_assembler) (a : Asm) (blk : Block) :
    (secs1_block_deviceID blk.toGen != (a.toGen s0).deviceID) = decide (blk.hdr.deviceID ≠ a.deviceID) := by
  rw [deviceID_gen]
  show ((blk.hdr.deviceID : Int) != (a.deviceID : Int)) = _
  by_cases h : blk.hdr.deviceID = a.deviceID
  · simp [h]
  · have : ((blk.hdr.deviceID : Int) != (a.deviceID : Int)) = true := by simp; omega
    simp [h, this]

theorem b_dir (s0 : secs1_assembler) (a : Asm) (blk : Block) :
    (secs1_block_rBit blk.toGen == (a.toGen s0).isEquip) = decide (blk.hdr.rBit = a.isEquip) := by
  rw [rBit_gen]; show (blk.hdr.rBit == a.isEquip) = _
  cases blk.hdr.rBit <;> cases a.isEquip <;> rfl

theorem b_dup (s0 : secs1_assembler) (x : Asm) (blk : Block) :
    ((x.toGen s0).haveLast && (blk.toGen.header == (x.toGen s0).lastHeader)) = isDup x blk := by
  show (x.haveLast && (blk.hdr.toList == x.lastHeader.toList)) = _
  rw [hdr_toList_inj]; unfold isDup
  cases x.haveLast <;> simp

theorem b_cont (s0 : secs1_assembler) (x : Asm) (blk : Block) :
    ((secs1_block_blockNumber blk.toGen == (x.toGen s0).expected) &&
      (secs1_block_messageHeader blk.toGen == (x.toGen s0).header)) = continues x blk := by
  rw [blockNumber_gen, messageHeader_gen]
  show (((blk.hdr.blockNumber : Int) == (x.expected : Int)) && (blk.hdr.msgHeader.toGen == x.header.toGen)) = _
  rw [msgHeader_beq]; unfold continues
  by_cases h : blk.hdr.blockNumber = x.expected
  · simp [h]
  · have : ((blk.hdr.blockNumber : Int) == (x.expected : Int)) = false := by simp; omega
    simp [h, this]

theorem b_bn (s0 : secs1_assembler) (x : Asm) (blk : Block) :
    (secs1_block_blockNumber blk.toGen != (x.toGen s0).expected) = decide (blk.hdr.blockNumber ≠ x.expected) := by
  rw [blockNumber_gen]
  show ((blk.hdr.blockNumber : Int) != (x.expected : Int)) = _
  by_cases h : blk.hdr.blockNumber = x.expected
  · simp [h]
  · have : ((blk.hdr.blockNumber : Int) != (x.expected : Int)) = true := by simp; omega
    simp [h, this]

theorem b_t4 (now last t4 : Nat) : decide (((now : Int) - (last : Int)) > (t4 : Int)) = decide (now - last > t4) := by
  by_cases h : now - last > t4
  · have : ((now : Int) - (last : Int)) > (t4 : Int) := by omega
    simp [h, this]
  · have : ¬ ((now : Int) - (last : Int)) > (t4 : Int) := by omega
    simp [h, this]

theorem acceptAddressed_fst (x : Asm) (now : Nat) (blk : Block) :
    (x.acceptAddressed now blk).1 =
      if isDup x blk then x
      else if x.isOpen then
        (if continues x blk then (x.appendBlock now blk).1 else (x.reset.startMessage now blk false).1)
      else (x.startMessage now blk true).1 := by
  unfold Asm.acceptAddressed isDup continues
  by_cases h1 : x.haveLast = true ∧ blk.hdr = x.lastHeader
  · simp [h1]
  · simp only [h1, reduceIte, decide_false, Bool.false_eq_true]
    cases x.isOpen
    · simp
    · by_cases h2 : blk.hdr.blockNumber = x.expected ∧ blk.hdr.msgHeader = x.header <;> simp [h2]

theorem expire_cases (a : Asm) (now : Nat) :
    a.expire now = if a.isOpen && decide (now - a.lastTime > a.t4) then (a.reset, [.t4Discard]) else (a, []) := rfl

/-- steps 3–5 of the generated `accept`, for the state `x` after the T4 check -/
theorem accept_gen (s0 : secs1_assembler) (a : Asm) (now : Nat) (tc : hsms_TimerConfig) (htc : tc.T4 = (a.t4 : Int))
    (blk : Block) (derr : Go.Err) :
    secs1_assembler_accept (a.toGen s0) blk.toGen (acceptOrc a now tc blk derr) =
      some ((a.accept now blk).1.toGen s0, (acceptRes s0 a now blk derr).1, (acceptRes s0 a now blk derr).2, []) := by
  unfold secs1_assembler_accept
  simp only [b_dev, b_dir]
  by_cases hdev : blk.hdr.deviceID ≠ a.deviceID
  · have := report_gen s0 a .deviceID blk
    simp only [Violation.goName] at this
    simp [hdev, acceptOrc, acceptRes, Asm.accept, this, incEff]
  · by_cases hdir : blk.hdr.rBit = a.isEquip
    · simp [hdev, hdir, acceptOrc, acceptRes, Asm.accept, incEff]
    · simp only [hdev, hdir, decide_false, Bool.false_eq_true, reduceIte, acceptOrc, acceptRes, Asm.accept]
      rw [acceptAddressed_fst]
      cases hopen : a.isOpen
      · have hx : a.expire now = (a, []) := by rw [expire_cases]; simp [hopen]
        have ho : (a.toGen s0).«open» = false := hopen
        simp only [hx, ho, Bool.false_eq_true, reduceIte, List.nil_append, Option.bind_some, b_dup]
        cases hd : isDup a blk
        · simp only [Bool.false_eq_true, reduceIte, hopen]
          have := startMessage_gen s0 a now blk true derr []
          simp only [List.append_nil] at this
          simp [secs1_assembler_beginMessage, this]
        · simp [incEff]
      · have ho : (a.toGen s0).«open» = true := hopen
        have hlast : (a.toGen s0).lastBlockTime = (a.lastTime : Int) := rfl
        simp only [ho, reduceIte, List.cons_append, Go.orc, List.headD_cons, Go.Val.asInt, List.tail_cons,
          ofVals_timers, htc, hlast, b_t4, List.nil_append]
        by_cases hexp : now - a.lastTime > a.t4
        · have hx : a.expire now = (a.reset, [.t4Discard]) := by rw [expire_cases]; simp [hopen, hexp]
          have hro : (a.reset.toGen s0).«open» = false := rfl
          have hro' : a.reset.isOpen = false := rfl
          simp only [hexp, decide_true, reduceIte, reset_gen, Option.bind_some, hx, b_dup, hro, hro', Bool.false_eq_true]
          cases hd : isDup a.reset blk
          · simp only [Bool.false_eq_true, reduceIte]
            have := startMessage_gen s0 a.reset now blk true derr []
            simp only [List.append_nil] at this
            simp [secs1_assembler_beginMessage, this, clockEff, timersEff, incEff]
          · simp [incEff, clockEff, timersEff]
        · have hx : a.expire now = (a, []) := by rw [expire_cases]; simp [hopen, hexp]
          simp only [hexp, decide_false, Bool.false_eq_true, reduceIte, Option.bind_some, hx, b_dup, ho]
          cases hd : isDup a blk
          · simp only [Bool.false_eq_true, reduceIte, hopen, b_cont]
            cases hc : continues a blk
            · -- unexpected block: abort, report, re-evaluate as a first block
              simp only [Bool.false_eq_true, reduceIte, b_bn]
              have hst := startMessage_gen s0 a.reset now blk false derr []
              simp only [List.append_nil] at hst
              by_cases hbn : blk.hdr.blockNumber ≠ a.expected
              · have hrep : secs1_assembler_report (a.toGen s0) (some "ErrBlockNumberMismatch") blk.toGen.header =
                    notifyEff s0 .blockNumber blk := report_gen s0 a .blockNumber blk
                have hm : mismatchOf a blk = .blockNumber := by simp [mismatchOf, hbn]
                simp [hbn, hrep, reset_gen, hst, clockEff, timersEff, incEff, hm]
              · have hrep : secs1_assembler_report (a.toGen s0) (some "ErrHeaderMismatch") blk.toGen.header =
                    notifyEff s0 .header blk := report_gen s0 a .header blk
                have hm : mismatchOf a blk = .header := by simp [mismatchOf, hbn]
                simp [hbn, hrep, reset_gen, hst, clockEff, timersEff, incEff, hm]
            · have hap := appendBlock_gen s0 a now blk derr []
              simp only [List.append_nil] at hap
              simp [hap, clockEff, timersEff]
          · simp [incEff, clockEff, timersEff]

/-! ### the trace and the returned error, in the model's own events -/

/-- what a model event is in the Go trace (`started` / `appended` / `frameErr` leave no call) -/
def AEv.effects (s0 : secs1_assembler) (blk : Block) : AEv → List Go.Effect
  | .devMismatch => incEff "incDeviceIDMismatchCount" :: notifyEff s0 .deviceID blk
  | .dirDrop => [incEff "incBlockDirDropCount"]
  | .t4Discard => [incEff "incPartialTimeoutCount"]
  | .dupDrop => [incEff "incBlockDupDropCount"]
  | .mismatch v => incEff "incBlockNumberMismatchCount" :: notifyEff s0 v blk
  | .invalidFirst true => incEff "incInvalidFirstBlockCount" :: notifyEff s0 .invalidFirst blk
  | .invalidFirst false => []
  | .started => []
  | .appended => []
  | .delivered f => [.call "secs1.assembler.deliverFrame" [.bytes f]]
  | .frameErr _ => []

/-- the error `accept` returns: the assembleFrame sentinel, or the core's verdict on a delivered frame -/
def errOf (derr : Go.Err) : List AEv → Go.Err
  | [] => none
  | .frameErr e :: _ => some e.goName
  | .delivered _ :: _ => derr
  | _ :: rest => errOf derr rest

/-- the trace without the clock / timer reads -/
def obs (tr : List Go.Effect) : List Go.Effect := tr.filter fun e => !(e == clockEff || e == timersEff)

theorem obs_append (a b : List Go.Effect) : obs (a ++ b) = obs a ++ obs b := by simp [obs]
@[simp] theorem obs_nil : obs [] = [] := rfl
theorem obs_clock (t : List Go.Effect) : obs (clockEff :: t) = obs t := by simp [obs]
theorem obs_timers (t : List Go.Effect) : obs (timersEff :: t) = obs t := by
  have : (timersEff == clockEff) = false := by decide
  simp [obs, this]
theorem obs_keep (e : Go.Effect) (t : List Go.Effect) (h1 : (e == clockEff) = false) (h2 : (e == timersEff) = false) :
    obs (e :: t) = e :: obs t := by simp [obs, h1, h2]

theorem obs_notify (s0 : secs1_assembler) (v : Violation) (blk : Block) : obs (notifyEff s0 v blk) = notifyEff s0 v blk := by
  unfold notifyEff
  cases s0.notify
  · rfl
  · exact obs_keep _ _ (by simp [clockEff]) (by simp [timersEff])

theorem obs_deliver (f : Bytes) (t : List Go.Effect) :
    obs (.call "secs1.assembler.deliverFrame" [.bytes f] :: t) = .call "secs1.assembler.deliverFrame" [.bytes f] :: obs t :=
  obs_keep _ _ (by simp [clockEff]) (by simp [timersEff])

theorem obs_complete (s0 : secs1_assembler) (blk : Block) (a : Asm) (derr : Go.Err) :
    obs (completeRes a derr).2 = a.complete.2.flatMap (AEv.effects s0 blk) ∧
    (completeRes a derr).1 = errOf derr a.complete.2 := by
  unfold completeRes Asm.complete
  cases assembleFrame a.blocks with
  | ok f => simp [obs_deliver, AEv.effects, errOf]
  | error e => simp [AEv.effects, errOf]

theorem obs_inc1 (t : List Go.Effect) : obs (incEff "incDeviceIDMismatchCount" :: t) = incEff "incDeviceIDMismatchCount" :: obs t :=
  obs_keep _ _ (by decide) (by decide)
theorem obs_inc2 (t : List Go.Effect) : obs (incEff "incBlockDirDropCount" :: t) = incEff "incBlockDirDropCount" :: obs t :=
  obs_keep _ _ (by decide) (by decide)
theorem obs_inc3 (t : List Go.Effect) : obs (incEff "incPartialTimeoutCount" :: t) = incEff "incPartialTimeoutCount" :: obs t :=
  obs_keep _ _ (by decide) (by decide)
theorem obs_inc4 (t : List Go.Effect) : obs (incEff "incBlockDupDropCount" :: t) = incEff "incBlockDupDropCount" :: obs t :=
  obs_keep _ _ (by decide) (by decide)
theorem obs_inc5 (t : List Go.Effect) : obs (incEff "incBlockNumberMismatchCount" :: t) = incEff "incBlockNumberMismatchCount" :: obs t :=
  obs_keep _ _ (by decide) (by decide)
theorem obs_inc6 (t : List Go.Effect) : obs (incEff "incInvalidFirstBlockCount" :: t) = incEff "incInvalidFirstBlockCount" :: obs t :=
  obs_keep _ _ (by decide) (by decide)

theorem startRes_model (s0 : secs1_assembler) (x : Asm) (now : Nat) (blk : Block) (notify : Bool) (derr : Go.Err) :
    obs (startRes s0 x now blk notify derr).2 = (x.startMessage now blk notify).2.flatMap (AEv.effects s0 blk) ∧
    (startRes s0 x now blk notify derr).1 = errOf derr (x.startMessage now blk notify).2 := by
  unfold startRes Asm.startMessage validFirst
  by_cases hv : blk.hdr.blockNumber = 1 ∨ blk.hdr.blockNumber = 0 ∧ blk.hdr.eBit = true
  · simp only [hv, decide_true, reduceIte]
    have hc := obs_complete s0 blk (x.started now blk) derr
    cases he : blk.hdr.eBit
    · simp [obs_clock, AEv.effects, errOf]
    · simp only [reduceIte, obs_clock]
      show obs (completeRes (x.started now blk) derr).2 = List.flatMap (AEv.effects s0 blk) (AEv.started :: (x.started now blk).complete.2) ∧
        (completeRes (x.started now blk) derr).1 = errOf derr (AEv.started :: (x.started now blk).complete.2)
      simp [hc.1, hc.2, AEv.effects, errOf]
  · simp only [hv, decide_false, Bool.false_eq_true, reduceIte]
    cases notify <;> simp [AEv.effects, errOf, obs_inc6, obs_notify]

theorem acceptAddressed_snd (x : Asm) (now : Nat) (blk : Block) :
    (x.acceptAddressed now blk).2 =
      if isDup x blk then [.dupDrop]
      else if x.isOpen then
        (if continues x blk then (x.appendBlock now blk).2
         else .mismatch (mismatchOf x blk) :: (x.reset.startMessage now blk false).2)
      else (x.startMessage now blk true).2 := by
  unfold Asm.acceptAddressed isDup continues mismatchOf
  by_cases h1 : x.haveLast = true ∧ blk.hdr = x.lastHeader
  · simp [h1]
  · simp only [h1, reduceIte, decide_false, Bool.false_eq_true]
    cases x.isOpen
    · simp
    · by_cases h2 : blk.hdr.blockNumber = x.expected ∧ blk.hdr.msgHeader = x.header <;> simp [h2]

theorem appendRes_model (s0 : secs1_assembler) (x : Asm) (now : Nat) (blk : Block) (derr : Go.Err) :
    obs (clockEff :: (if blk.hdr.eBit then (completeRes (x.appended now blk) derr).2 else [])) =
      (x.appendBlock now blk).2.flatMap (AEv.effects s0 blk) ∧
    (if blk.hdr.eBit then (completeRes (x.appended now blk) derr).1 else none) = errOf derr (x.appendBlock now blk).2 := by
  unfold Asm.appendBlock
  have hc := obs_complete s0 blk (x.appended now blk) derr
  cases he : blk.hdr.eBit
  · simp [obs_clock, AEv.effects, errOf]
  · simp only [reduceIte, obs_clock]
    show obs (completeRes (x.appended now blk) derr).2 = List.flatMap (AEv.effects s0 blk) (AEv.appended :: (x.appended now blk).complete.2) ∧
      (completeRes (x.appended now blk) derr).1 = errOf derr (AEv.appended :: (x.appended now blk).complete.2)
    simp [hc.1, hc.2, AEv.effects, errOf]

/-- **The trace and the error of `accept` are the model's events.** Dropping the clock / timer reads, the trace
    `acceptRes` describes is the model's event list rendered call by call; the returned error is the assembleFrame
    sentinel or the core's verdict on the delivered frame. -/
theorem acceptRes_model (s0 : secs1_assembler) (a : Asm) (now : Nat) (blk : Block) (derr : Go.Err) :
    obs (acceptRes s0 a now blk derr).2 = (a.accept now blk).2.flatMap (AEv.effects s0 blk) ∧
    (acceptRes s0 a now blk derr).1 = errOf derr (a.accept now blk).2 := by
  unfold acceptRes Asm.accept
  by_cases hdev : blk.hdr.deviceID ≠ a.deviceID
  · simp [hdev, AEv.effects, errOf, obs_inc1, obs_notify]
  · by_cases hdir : blk.hdr.rBit = a.isEquip
    · simp [hdev, hdir, AEv.effects, errOf, obs_inc2]
    · simp only [hdev, hdir, reduceIte, acceptAddressed_snd]
      have hpre : ∀ (t : List Go.Effect),
          obs (((if a.isOpen = true then [clockEff, timersEff] else []) ++
            (if (a.expire now).2 = [] then [] else [incEff "incPartialTimeoutCount"])) ++ t) =
          (a.expire now).2.flatMap (AEv.effects s0 blk) ++ obs t := by
        intro t
        rw [expire_cases]
        cases a.isOpen <;> by_cases hexp : now - a.lastTime > a.t4 <;>
          simp [hexp, obs_append, obs_clock, obs_timers, obs_inc3, AEv.effects]
      have herr : ∀ (l : List AEv), errOf derr ((a.expire now).2 ++ l) = errOf derr l := by
        intro l; rw [expire_cases]; split <;> simp [errOf]
      generalize (a.expire now).1 = x
      cases hd : isDup x blk
      · cases ho : x.isOpen
        · have hs := startRes_model s0 x now blk true derr
          simp only [Bool.false_eq_true, reduceIte, hpre, List.flatMap_append, herr, hs.1, hs.2, and_self]
        · cases hc : continues x blk
          · have hs := startRes_model s0 x.reset now blk false derr
            simp only [Bool.false_eq_true, reduceIte, hpre, List.flatMap_append, herr, List.flatMap_cons]
            rw [obs_inc5, obs_append, obs_notify, hs.1, hs.2]
            simp [AEv.effects, errOf]
          · have hs := appendRes_model s0 x now blk derr
            simp only [Bool.false_eq_true, reduceIte, hpre, List.flatMap_append, herr, hs.1, hs.2, and_self]
      · simp only [reduceIte, hpre, List.flatMap_append, herr]
        simp [AEv.effects, errOf, obs_inc4]

end GoSecs.Secs1
