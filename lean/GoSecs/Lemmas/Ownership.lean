/-
  Helper lemmas for C12 (ownership / region model and the sync.Once cell): the single-step facts that
  Props/C12.lean lifts to whole operation sequences and schedules.  Core Lean only.
-/
import GoSecs.Model.Ownership

namespace GoSecs.Ownership

theorem inv_init : Separated init := by
  simp [Separated, init]

theorem inv_step (s : State) (op : Op) (h : Separated s) (hs : op.kind.safe = true) : Separated (step s op) := by
  obtain ⟨hd, ho, hc⟩ := h
  cases op with
  | callerAlloc c =>
    refine ⟨?_, ?_, ?_⟩ <;> simp only [step]
    · intro r hr hm
      rcases List.mem_cons.mp hm with rfl | hm
      · exact Nat.lt_irrefl _ (ho _ hr)
      · exact hd r hr hm
    · intro r hr; exact Nat.lt_succ_of_lt (ho r hr)
    · intro r hr
      rcases List.mem_cons.mp hr with rfl | hr
      · exact Nat.lt_succ_self _
      · exact Nat.lt_succ_of_lt (hc r hr)
  | constructCopy a =>
    simp only [step]; split
    · refine ⟨?_, ?_, ?_⟩
      · intro r hr hm
        rcases List.mem_cons.mp hr with rfl | hr
        · exact Nat.lt_irrefl _ (hc _ hm)
        · exact hd r hr hm
      · intro r hr
        rcases List.mem_cons.mp hr with rfl | hr
        · exact Nat.lt_succ_self _
        · exact Nat.lt_succ_of_lt (ho r hr)
      · intro r hr; exact Nat.lt_succ_of_lt (hc r hr)
    · exact ⟨hd, ho, hc⟩
  | constructTransfer a =>
    simp only [step]; split
    · rename_i ha
      refine ⟨?_, ?_, ?_⟩
      · intro r hr hm
        have hm' := List.mem_filter.mp hm
        rcases List.mem_cons.mp hr with rfl | hr
        · simp at hm'
        · exact hd r hr hm'.1
      · intro r hr
        rcases List.mem_cons.mp hr with rfl | hr
        · exact hc _ ha
        · exact ho r hr
      · intro r hr; exact hc r (List.mem_filter.mp hr).1
    · exact ⟨hd, ho, hc⟩
  | constructRetain a => simp [Op.kind, Kind.safe] at hs
  | accessFresh src =>
    simp only [step]; split
    · refine ⟨?_, ?_, ?_⟩
      · intro r hr hm
        rcases List.mem_cons.mp hm with rfl | hm
        · exact Nat.lt_irrefl _ (ho _ hr)
        · exact hd r hr hm
      · intro r hr; exact Nat.lt_succ_of_lt (ho r hr)
      · intro r hr
        rcases List.mem_cons.mp hr with rfl | hr
        · exact Nat.lt_succ_self _
        · exact Nat.lt_succ_of_lt (hc r hr)
    · exact ⟨hd, ho, hc⟩
  | accessView src => simp [Op.kind, Kind.safe] at hs
  | appendTo src buf =>
    simp only [step]; split
    · exact ⟨hd, ho, hc⟩
    · exact ⟨hd, ho, hc⟩
  | callerMutate r i v =>
    simp only [step]; split
    · exact ⟨hd, ho, hc⟩
    · exact ⟨hd, ho, hc⟩

/-- A safe operation never writes an item-owned region. -/
theorem heap_step (s : State) (op : Op) (h : Separated s) (hs : op.kind.safe = true) (r : Region) (hr : r ∈ s.owned) :
    (step s op).heap r = s.heap r := by
  obtain ⟨hd, ho, hc⟩ := h
  have hne : r ≠ s.next := Nat.ne_of_lt (ho r hr)
  cases op with
  | callerAlloc c => simp [step, put, hne]
  | constructCopy a => simp only [step]; split <;> simp [put, hne]
  | constructTransfer a => simp only [step]; split <;> rfl
  | constructRetain a => simp [Op.kind, Kind.safe] at hs
  | accessFresh src => simp only [step]; split <;> simp [put, hne]
  | accessView src => simp [Op.kind, Kind.safe] at hs
  | appendTo src buf =>
    simp only [step]; split
    · rename_i hg
      have : r ≠ buf := fun e => hd r hr (e ▸ hg.2)
      simp [put, this]
    · rfl
  | callerMutate q i v =>
    simp only [step]; split
    · rename_i hg
      have : r ≠ q := fun e => hd r hr (e ▸ hg)
      simp [put, this]
    · rfl

/-- Items are never dropped: a region an item owns stays item-owned (any operation). -/
theorem owned_step (s : State) (op : Op) (r : Region) (hr : r ∈ s.owned) : r ∈ (step s op).owned := by
  cases op <;> simp only [step] <;> (try split) <;> simp [hr]

namespace LazyOnce
open Once

variable {B V : Type}

/-- Invariant of the Once cell. -/
def J (f : B → V) (b : B) (c : Cfg B V) : Prop :=
  c.body = b ∧
  match c.once with
  | .idle => c.cell = none ∧ c.computations = 0 ∧ ∀ i, c.gs i = .want
  | .running o => c.cell = none ∧ c.computations = 0 ∧ c.gs o = .inF ∧ ∀ i, i ≠ o → c.gs i = .want
  | .done => c.cell = some (f b) ∧ c.computations = 1 ∧
      ∀ i, c.gs i ≠ .inF ∧ ∀ v, c.gs i = .got v → v = some (f b)

theorem J_init (f : B → V) (b : B) : J f b (Once.init b) := by
  simp [J, Once.init]

theorem J_step (f : B → V) (b : B) (c : Cfg B V) (g : Nat) (h : J f b c) : J f b (Once.step f c g) := by
  obtain ⟨hb, h⟩ := h
  unfold Once.step
  cases hg : c.gs g with
  | want =>
    cases ho : c.once with
    | idle =>
      rw [ho] at h
      obtain ⟨h1, h2, h3⟩ := h
      refine ⟨hb, ?_⟩
      simp only []
      refine ⟨h1, h2, by simp [setG], ?_⟩
      intro i hi; simp [setG, hi, h3 i]
    | running o => simp only []; exact ⟨hb, by rw [ho]; rw [ho] at h; exact h⟩
    | done =>
      rw [ho] at h
      obtain ⟨h1, h2, h3⟩ := h
      refine ⟨hb, ?_⟩
      simp only []
      refine ⟨h1, h2, ?_⟩
      intro i
      by_cases hi : i = g
      · subst hi; simp [setG]
      · simp only [setG, hi, if_false]; exact h3 i
  | inF =>
    refine ⟨hb, ?_⟩
    simp only []
    cases ho : c.once with
    | idle => rw [ho] at h; have := h.2.2 g; rw [hg] at this; cases this
    | running o =>
      rw [ho] at h
      obtain ⟨h1, h2, h3, h4⟩ := h
      have hgo : g = o := by
        by_cases e : g = o
        · exact e
        · have := h4 g e; rw [hg] at this; cases this
      subst hgo
      refine ⟨by rw [hb], by omega, ?_⟩
      intro i
      by_cases hi : i = g
      · subst hi; simp [setG]
      · simp [setG, hi, h4 i hi]
    | done => rw [ho] at h; exact absurd hg (h.2.2 g).1
  | afterDo =>
    refine ⟨hb, ?_⟩
    simp only []
    cases ho : c.once with
    | idle => rw [ho] at h; have := h.2.2 g; rw [hg] at this; cases this
    | running o =>
      rw [ho] at h
      obtain ⟨_, _, h3, h4⟩ := h
      by_cases e : g = o
      · subst e; rw [hg] at h3; cases h3
      · have := h4 g e; rw [hg] at this; cases this
    | done =>
      rw [ho] at h
      obtain ⟨h1, h2, h3⟩ := h
      refine ⟨h1, h2, ?_⟩
      intro i
      by_cases hi : i = g
      · subst hi; simp [setG, h1]
      · simp only [setG, hi, if_false]; exact h3 i
  | got v => simp only []; exact ⟨hb, h⟩

theorem J_run (f : B → V) (b : B) (sched : List Nat) (c : Cfg B V) (h : J f b c) : J f b (Once.run f c sched) := by
  induction sched generalizing c with
  | nil => exact h
  | cons g rest ih => simp only [Once.run, List.foldl_cons]; exact ih _ (J_step f b c g h)

end LazyOnce

end GoSecs.Ownership
