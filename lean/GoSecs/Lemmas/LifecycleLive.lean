/-
  Lifecycle model, second part (C10): the second inductive invariant `Inv2` (what Close's waits rely
  on) and deadlock freedom of Close (`close_never_stuck_inv`).  Core Lean only.
-/
import GoSecs.Lemmas.Lifecycle

namespace GoSecs.Lifecycle

/-! ## Second invariant: what Close's waits rely on; no deadlock in Close (C10) -/

/-- api positions in which the supervisor of this Open cycle must still be fully alive and un-closed -/
def apiOpenish (api : ApiPc) (sd : Bool) : Bool :=
  match api with
  | .idle => !sd
  | .openWaitSel _ | .closeReq _ | .openStart _ _ | .openColdWait _ => true
  | _ => false

/-- the supervisor is somewhere inside the processing of evClose -/
def closingPc : RunPc → Bool
  | .reactCheck true | .reactSpawn _ true | .reactTeardown _ true | .closeTeardown => true
  | _ => false

/-- Second invariant: what Close's (and a rolled-back Open's) waits rely on. -/
structure Inv2 (c : Cfg) : Prop where
  Q : ∀ (i : Nat) (l : Loop), c.loops[i]? = some l → Pub c l.prev
  P2 : ∀ s, c.sup = some s → s.pc = .exited → s.stopReq = true
  P5 : apiOpenish c.api c.shutdown = true → ∀ s, c.sup = some s →
        s.closed = false ∧ Ev.close ∉ s.queue ∧ s.stopReq = false
  P3 : (c.api = .closeJoinSup ∨ c.api = .openRollbackSup) → ∀ s, c.sup = some s → s.stopReq = true
  P : ∀ e, (c.api = .closeWaitEpoch e ∨ c.api = .openRollbackWait e) → phaseOf c e = .live →
        ∃ s, c.sup = some s ∧ s.closeEpoch = some e ∧ s.stopReq = false ∧
          (closingPc s.pc = true ∨ (s.closed = false ∧ Ev.close ∈ s.queue))

theorem inv2_init (a : Bool) : Inv2 (init a) := by
  constructor <;> simp [init, apiOpenish]

macro "inv2_frame" h:ident : tactic =>
  `(tactic| (constructor <;> (first | exact ($h).Q | exact ($h).P2 | exact ($h).P5 | exact ($h).P3 | exact ($h).P | skip)))

macro "inv2_fin" h:ident h2:ident : tactic =>
  `(tactic| (obtain ⟨E1, E2, R1, R2, R3a, R3b, R4a, R4b, R5a, R5b, S1, S2a, S2b, S2c, S3, S4, S5, S6a, S6b, S6c, G1, G2, U, L1a, L1b, L1c, A1, A4, A5a, A5b, O2⟩ := $h
             obtain ⟨Q, P2, P5, P3, P⟩ := $h2
             (try simp only [Pub, CurDone, AllPubDone, NoLive, supSt, phaseOf, isDone, setPhase_epochs, setPhase_cur, setPhase_sup, setPhase_loops, setPhase_tr, setPhase_api, setPhase_shutdown, setPhase_gen, setPhase_active,
               teardown_epochs, teardown_cur, teardown_sup, teardown_loops, teardown_tr, teardown_api, teardown_shutdown, teardown_gen, teardown_active,
               setLoop_epochs, setLoop_cur, setLoop_sup, setLoop_loops, setLoop_tr, setLoop_api, setLoop_shutdown, setLoop_gen, setLoop_active,
               setSup_epochs, setSup_cur, setSup_sup, setSup_loops, setSup_tr, setSup_api, setSup_shutdown, setSup_gen, setSup_active,
               inject_epochs, inject_cur, inject_sup, inject_loops, inject_tr, inject_api, inject_shutdown, inject_gen, inject_active,
               commitConnected_epochs, commitConnected_cur, commitConnected_sup, commitConnected_loops, commitConnected_tr, commitConnected_api, commitConnected_shutdown, commitConnected_gen, commitConnected_active,
               register_epochs, register_cur, register_sup, register_loops, register_tr, register_api, register_shutdown, register_gen, register_active,
               Option.map_eq_some_iff, Option.map_eq_none_iff] at *)
             grind [Pub, CurDone, AllPubDone, NoLive, NotSpawning, NotReacting, SupFresh, apiShut, apiEpoch, supPcEpoch, loopPcEpoch, loopArmed, supSt, phaseOf, apiOpenish, closingPc]))

set_option maxHeartbeats 1000000 in
theorem inv2_openEnter (c c' : Cfg) (m : Mode) (h : Inv c) (h2 : Inv2 c) (hs : step? c (.openEnter m) = some c') : Inv2 c' := by
  step_cases hs <;> inv2_frame h2 <;> inv2_fin h h2

set_option maxHeartbeats 1000000 in
theorem inv2_openArm (c c' : Cfg)  (h : Inv c) (h2 : Inv2 c) (hs : step? c .openArm = some c') : Inv2 c' := by
  step_cases hs <;> inv2_frame h2 <;> inv2_fin h h2

set_option maxHeartbeats 1000000 in
theorem inv2_openStartOk (c c' : Cfg)  (h : Inv c) (h2 : Inv2 c) (hs : step? c .openStartOk = some c') : Inv2 c' := by
  step_cases hs <;> inv2_frame h2 <;> inv2_fin h h2

set_option maxHeartbeats 1000000 in
theorem inv2_openStartFail (c c' : Cfg)  (h : Inv c) (h2 : Inv2 c) (hs : step? c .openStartFail = some c') : Inv2 c' := by
  step_cases hs <;> inv2_frame h2 <;> inv2_fin h h2

set_option maxHeartbeats 1000000 in
theorem inv2_openColdDone (c c' : Cfg)  (h : Inv c) (h2 : Inv2 c) (hs : step? c .openColdDone = some c') : Inv2 c' := by
  step_cases hs <;> inv2_frame h2 <;> inv2_fin h h2

set_option maxHeartbeats 1000000 in
theorem inv2_openRollbackEpoch (c c' : Cfg)  (h : Inv c) (h2 : Inv2 c) (hs : step? c .openRollbackEpoch = some c') : Inv2 c' := by
  step_cases hs <;> inv2_frame h2 <;> inv2_fin h h2

set_option maxHeartbeats 1000000 in
theorem inv2_openRollbackDone (c c' : Cfg)  (h : Inv c) (h2 : Inv2 c) (hs : step? c .openRollbackDone = some c') : Inv2 c' := by
  step_cases hs <;> inv2_frame h2 <;> inv2_fin h h2

set_option maxHeartbeats 1000000 in
theorem inv2_openWaitRet (c c' : Cfg) (r : WaitRes) (h : Inv c) (h2 : Inv2 c) (hs : step? c (.openWaitRet r) = some c') : Inv2 c' := by
  step_cases hs <;> inv2_frame h2 <;> inv2_fin h h2

set_option maxHeartbeats 1000000 in
theorem inv2_closeEnter (c c' : Cfg)  (h : Inv c) (h2 : Inv2 c) (hs : step? c .closeEnter = some c') : Inv2 c' := by
  step_cases hs <;> inv2_frame h2 <;> inv2_fin h h2

set_option maxHeartbeats 1000000 in
theorem inv2_closeRequest (c c' : Cfg)  (h : Inv c) (h2 : Inv2 c) (hs : step? c .closeRequest = some c') : Inv2 c' := by
  step_cases hs <;> inv2_frame h2 <;> (first | (inv2_fin h h2; done) | skip)
  · rename_i e0 hapi _
    intro e he hlive
    simp only [Cfg.api] at he
    have hee : e = e0 := by rcases he with he | he <;> simp_all
    subst hee
    have hsome : c.sup.isSome = true := by
      cases hc : c.sup with
      | none => have := (h.S4 hc).2.2.2.2.2; simp [hapi] at this
      | some s => rfl
    obtain ⟨s, hs⟩ := Option.isSome_iff_exists.1 hsome
    obtain ⟨hcl, hq, hst⟩ := h2.P5 (by simp [hapi, apiOpenish]) s hs
    have hpc : s.pc ≠ .exited := fun hp => by have := h2.P2 s hs hp; simp [hst] at this
    refine ⟨{ s with closeEpoch := some e, queue := s.queue ++ [.close] }, ?_, rfl, hst, Or.inr ⟨hcl, by simp⟩⟩
    simp [inject, setSup, hs, hpc]

set_option maxHeartbeats 1000000 in
theorem inv2_closeEpochDone (c c' : Cfg)  (h : Inv c) (h2 : Inv2 c) (hs : step? c .closeEpochDone = some c') : Inv2 c' := by
  step_cases hs <;> inv2_frame h2 <;> inv2_fin h h2

set_option maxHeartbeats 1000000 in
theorem inv2_closeSupDone (c c' : Cfg)  (h : Inv c) (h2 : Inv2 c) (hs : step? c .closeSupDone = some c') : Inv2 c' := by
  step_cases hs <;> inv2_frame h2 <;> inv2_fin h h2

set_option maxHeartbeats 1000000 in
theorem inv2_closeLoopsDone (c c' : Cfg)  (h : Inv c) (h2 : Inv2 c) (hs : step? c .closeLoopsDone = some c') : Inv2 c' := by
  step_cases hs <;> inv2_frame h2 <;> inv2_fin h h2

set_option maxHeartbeats 1000000 in
theorem inv2_supStep (c c' : Cfg)  (h : Inv c) (h2 : Inv2 c) (hs : step? c .supStep = some c') : Inv2 c' := by
  step_cases hs <;> inv2_frame h2 <;> inv2_fin h h2

set_option maxHeartbeats 1000000 in
theorem inv2_reactCheck (c c' : Cfg)  (h : Inv c) (h2 : Inv2 c) (hs : step? c .reactCheck = some c') : Inv2 c' := by
  step_cases hs <;> inv2_frame h2 <;> inv2_fin h h2

set_option maxHeartbeats 1000000 in
theorem inv2_reactSpawn (c c' : Cfg)  (h : Inv c) (h2 : Inv2 c) (hs : step? c .reactSpawn = some c') : Inv2 c' := by
  step_cases hs <;> inv2_frame h2 <;> (first | (inv2_fin h h2; done) | skip)
  · rename_i _ s hs _ e closing hpc
    intro i l hl
    simp only [Pub] at *
    by_cases hi : i < c.loops.length
    · rw [List.getElem?_append_left hi] at hl
      exact h2.Q i l hl
    · have : i = c.loops.length := by
        have := (List.getElem?_eq_some_iff.1 hl).1
        simp at this; omega
      subst this
      simp at hl
      subst hl
      exact h.R3a s e hs (by simp [hpc, supPcEpoch])
  · rename_i _ s hs _ e closing hpc
    intro e' he' hlive
    obtain ⟨s', hs', hce, hst, hcl⟩ := h2.P e' he' hlive
    rw [hs] at hs'; cases hs'
    refine ⟨_, rfl, hce, hst, ?_⟩
    rcases hcl with hcl | hcl
    · left; cases closing <;> simp_all [closingPc]
    · right; exact hcl

set_option maxHeartbeats 1000000 in
theorem inv2_reactTeardown (c c' : Cfg)  (h : Inv c) (h2 : Inv2 c) (hs : step? c .reactTeardown = some c') : Inv2 c' := by
  step_cases hs <;> inv2_frame h2 <;> inv2_fin h h2

set_option maxHeartbeats 1000000 in
theorem inv2_closeTeardown (c c' : Cfg)  (h : Inv c) (h2 : Inv2 c) (hs : step? c .closeTeardown = some c') : Inv2 c' := by
  step_cases hs <;> inv2_frame h2 <;> inv2_fin h h2

set_option maxHeartbeats 1000000 in
theorem inv2_supExit (c c' : Cfg)  (h : Inv c) (h2 : Inv2 c) (hs : step? c .supExit = some c') : Inv2 c' := by
  step_cases hs <;> inv2_frame h2 <;> inv2_fin h h2

set_option maxHeartbeats 1000000 in
theorem inv2_joinSeal (c c' : Cfg) (e : Nat) (h : Inv c) (h2 : Inv2 c) (hs : step? c (.joinSeal e) = some c') : Inv2 c' := by
  step_cases hs <;> inv2_frame h2 <;> inv2_fin h h2

set_option maxHeartbeats 1000000 in
theorem inv2_joinStop (c c' : Cfg) (e : Nat) (h : Inv c) (h2 : Inv2 c) (hs : step? c (.joinStop e) = some c') : Inv2 c' := by
  step_cases hs <;> inv2_frame h2 <;> inv2_fin h h2

set_option maxHeartbeats 1000000 in
theorem inv2_joinDone (c c' : Cfg) (e : Nat) (h : Inv c) (h2 : Inv2 c) (hs : step? c (.joinDone e) = some c') : Inv2 c' := by
  step_cases hs <;> inv2_frame h2 <;> inv2_fin h h2

set_option maxHeartbeats 1000000 in
theorem inv2_loopWake (c c' : Cfg) (i : Nat) (h : Inv c) (h2 : Inv2 c) (hs : step? c (.loopWake i) = some c') : Inv2 c' := by
  step_cases hs <;> inv2_frame h2 <;> inv2_fin h h2

set_option maxHeartbeats 1000000 in
theorem inv2_loopSleep (c c' : Cfg) (i : Nat) (h : Inv c) (h2 : Inv2 c) (hs : step? c (.loopSleep i) = some c') : Inv2 c' := by
  step_cases hs <;> inv2_frame h2 <;> inv2_fin h h2

set_option maxHeartbeats 1000000 in
theorem inv2_loopFence (c c' : Cfg) (i : Nat) (h : Inv c) (h2 : Inv2 c) (hs : step? c (.loopFence i) = some c') : Inv2 c' := by
  step_cases hs <;> inv2_frame h2 <;> inv2_fin h h2

set_option maxHeartbeats 1000000 in
theorem inv2_loopPublish (c c' : Cfg) (i : Nat) (h : Inv c) (h2 : Inv2 c) (hs : step? c (.loopPublish i) = some c') : Inv2 c' := by
  step_cases hs <;> inv2_frame h2 <;> inv2_fin h h2

set_option maxHeartbeats 1000000 in
theorem inv2_loopStartOk (c c' : Cfg) (i : Nat) (h : Inv c) (h2 : Inv2 c) (hs : step? c (.loopStartOk i) = some c') : Inv2 c' := by
  step_cases hs <;> inv2_frame h2 <;> inv2_fin h h2

set_option maxHeartbeats 1000000 in
theorem inv2_loopStartFail (c c' : Cfg) (i : Nat) (h : Inv c) (h2 : Inv2 c) (hs : step? c (.loopStartFail i) = some c') : Inv2 c' := by
  step_cases hs <;> inv2_frame h2 <;> inv2_fin h h2

set_option maxHeartbeats 1000000 in
theorem inv2_loopFailDone (c c' : Cfg) (i : Nat) (h : Inv c) (h2 : Inv2 c) (hs : step? c (.loopFailDone i) = some c') : Inv2 c' := by
  step_cases hs <;> inv2_frame h2 <;> inv2_fin h h2

set_option maxHeartbeats 1000000 in
theorem inv2_envAccept (c c' : Cfg)  (h : Inv c) (h2 : Inv2 c) (hs : step? c .envAccept = some c') : Inv2 c' := by
  step_cases hs <;> inv2_frame h2 <;> inv2_fin h h2

set_option maxHeartbeats 1000000 in
theorem inv2_envSelected (c c' : Cfg)  (h : Inv c) (h2 : Inv2 c) (hs : step? c .envSelected = some c') : Inv2 c' := by
  step_cases hs <;> inv2_frame h2 <;> inv2_fin h h2

set_option maxHeartbeats 1000000 in
theorem inv2_envSelectLost (c c' : Cfg)  (h : Inv c) (h2 : Inv2 c) (hs : step? c .envSelectLost = some c') : Inv2 c' := by
  step_cases hs <;> inv2_frame h2 <;> inv2_fin h h2

set_option maxHeartbeats 1000000 in
theorem inv2_envDown (c c' : Cfg)  (h : Inv c) (h2 : Inv2 c) (hs : step? c .envDown = some c') : Inv2 c' := by
  step_cases hs <;> inv2_frame h2 <;> inv2_fin h h2

set_option maxHeartbeats 1000000 in
theorem inv2_envT7 (c c' : Cfg)  (h : Inv c) (h2 : Inv2 c) (hs : step? c .envT7 = some c') : Inv2 c' := by
  step_cases hs <;> inv2_frame h2 <;> inv2_fin h h2


theorem inv2_step? (c c' : Cfg) (a : Act) (h : Inv c) (h2 : Inv2 c) (hs : step? c a = some c') : Inv2 c' := by
  cases a with
  | openEnter m => exact inv2_openEnter c c' m h h2 hs
  | openArm => exact inv2_openArm c c' h h2 hs
  | openStartOk => exact inv2_openStartOk c c' h h2 hs
  | openStartFail => exact inv2_openStartFail c c' h h2 hs
  | openColdDone => exact inv2_openColdDone c c' h h2 hs
  | openRollbackEpoch => exact inv2_openRollbackEpoch c c' h h2 hs
  | openRollbackDone => exact inv2_openRollbackDone c c' h h2 hs
  | openWaitRet r => exact inv2_openWaitRet c c' r h h2 hs
  | closeEnter => exact inv2_closeEnter c c' h h2 hs
  | closeRequest => exact inv2_closeRequest c c' h h2 hs
  | closeEpochDone => exact inv2_closeEpochDone c c' h h2 hs
  | closeSupDone => exact inv2_closeSupDone c c' h h2 hs
  | closeLoopsDone => exact inv2_closeLoopsDone c c' h h2 hs
  | supStep => exact inv2_supStep c c' h h2 hs
  | reactCheck => exact inv2_reactCheck c c' h h2 hs
  | reactSpawn => exact inv2_reactSpawn c c' h h2 hs
  | reactTeardown => exact inv2_reactTeardown c c' h h2 hs
  | closeTeardown => exact inv2_closeTeardown c c' h h2 hs
  | supExit => exact inv2_supExit c c' h h2 hs
  | joinSeal e => exact inv2_joinSeal c c' e h h2 hs
  | joinStop e => exact inv2_joinStop c c' e h h2 hs
  | joinDone e => exact inv2_joinDone c c' e h h2 hs
  | loopWake i => exact inv2_loopWake c c' i h h2 hs
  | loopSleep i => exact inv2_loopSleep c c' i h h2 hs
  | loopFence i => exact inv2_loopFence c c' i h h2 hs
  | loopPublish i => exact inv2_loopPublish c c' i h h2 hs
  | loopStartOk i => exact inv2_loopStartOk c c' i h h2 hs
  | loopStartFail i => exact inv2_loopStartFail c c' i h h2 hs
  | loopFailDone i => exact inv2_loopFailDone c c' i h h2 hs
  | envAccept => exact inv2_envAccept c c' h h2 hs
  | envSelected => exact inv2_envSelected c c' h h2 hs
  | envSelectLost => exact inv2_envSelectLost c c' h h2 hs
  | envDown => exact inv2_envDown c c' h h2 hs
  | envT7 => exact inv2_envT7 c c' h h2 hs

/-- Both invariants hold after every interleaving. -/
theorem inv12_run (c : Cfg) (as : List Act) (h : Inv c) (h2 : Inv2 c) : Inv (run c as) ∧ Inv2 (run c as) := by
  induction as generalizing c with
  | nil => exact ⟨h, h2⟩
  | cons a as ih =>
    show Inv (run (step c a) as) ∧ Inv2 (run (step c a) as)
    apply ih
    · exact inv_step c a h
    · unfold step
      cases hs : step? c a with
      | none => exact h2
      | some c' => exact inv2_step? c c' a h h2 hs

/-- Actions that are the library's own progress while a Close / rollback is in flight: everything
    except entering Open/Close, the Open-path dial, and peer / transport-goroutine events. A stale loop's
    pending dial is counted as returning (`loopStartFail`): its generation ctx is cancelled by then. -/
def isLibAct : Act → Bool
  | .openEnter _ | .closeEnter | .openStartOk | .openStartFail | .openWaitRet _ | .loopStartOk _
  | .envAccept | .envSelected | .envSelectLost | .envDown | .envT7 => false
  | _ => true

/-- api positions of a Close (or a rolled-back Open) that has passed its entry and not yet returned -/
def closingApi : ApiPc → Bool
  | .closeReq _ | .closeWaitEpoch _ | .closeJoinSup | .closeJoinLoops | .openRollbackWait _ | .openRollbackSup => true
  | _ => false

theorem phase_done_of_pub (c : Cfg) (h : Inv c) (hcd : CurDone c) (e : Nat) (hp : Pub c e) : isDone c e = true := by
  obtain ⟨ep, hep, hpub⟩ := hp
  have := allDone_of_curDone c h hcd e ep hep hpub
  simp [isDone, phaseOf, hep, this]

/-- the supervisor's next step is enabled whenever it is mid-reaction -/
theorem sup_reaction_enabled (c : Cfg) (s : Sup) (hs : c.sup = some s)
    (hpc : s.pc ≠ .idle) (hex : s.pc ≠ .exited) :
    ∃ a, isLibAct a = true ∧ (step? c a).isSome = true := by
  cases hp : s.pc with
  | idle => exact absurd hp hpc
  | exited => exact absurd hp hex
  | reactCheck b => exact ⟨.reactCheck, rfl, by simp [step?, hs, hp]⟩
  | reactSpawn e b => exact ⟨.reactSpawn, rfl, by simp [step?, hs, hp]⟩
  | reactTeardown e b => exact ⟨.reactTeardown, rfl, by simp [step?, hs, hp]⟩
  | closeTeardown => exact ⟨.closeTeardown, rfl, by simp [step?, hs, hp]⟩

theorem supStep_enabled (c : Cfg) (s : Sup) (hs : c.sup = some s) (hpc : s.pc = .idle) (ev : Ev) (q : List Ev)
    (hq : s.queue = ev :: q) : (step? c .supStep).isSome = true := by
  simp only [step?, hs, hpc, hq]
  cases ev <;> simp <;> (repeat' split) <;> simp

/-- waiting on epoch `e` with the supervisor obliged to tear it down: something can move -/
theorem wait_epoch_progress (c : Cfg) (h : Inv c) (h2 : Inv2 c) (e : Nat)
    (hapi : c.api = .closeWaitEpoch e ∨ c.api = .openRollbackWait e) :
    ∃ a, isLibAct a = true ∧ (step? c a).isSome = true := by
  rcases phase_cases (phaseOf c e) with hph | hph | hph | hph | hph
  · obtain ⟨s, hs, _, hst, hcl⟩ := h2.P e hapi hph
    have hex : s.pc ≠ .exited := fun hp => by have := h2.P2 s hs hp; simp [hst] at this
    by_cases hidle : s.pc = .idle
    · rcases hcl with hcl | ⟨_, hin⟩
      · simp [hidle, closingPc] at hcl
      · cases hq : s.queue with
        | nil => simp [hq] at hin
        | cons ev q => exact ⟨.supStep, rfl, supStep_enabled c s hs hidle ev q hq⟩
    · exact sup_reaction_enabled c s hs hidle hex
  · exact ⟨.joinSeal e, rfl, by simp [step?, hph]⟩
  · exact ⟨.joinStop e, rfl, by simp [step?, hph]⟩
  · exact ⟨.joinDone e, rfl, by simp [step?, hph]⟩
  · rcases hapi with hapi | hapi
    · exact ⟨.closeEpochDone, rfl, by simp [step?, hapi, isDone, hph]⟩
    · exact ⟨.openRollbackEpoch, rfl, by simp [step?, hapi, isDone, hph]⟩

/-- waiting for the supervisor to exit (`supWg.Wait`): something can move -/
theorem wait_sup_progress (c : Cfg) (h : Inv c) (h2 : Inv2 c)
    (hapi : c.api = .closeJoinSup ∨ c.api = .openRollbackSup) :
    ∃ a, isLibAct a = true ∧ (step? c a).isSome = true := by
  have hsome : ∃ s, c.sup = some s := by
    cases hc : c.sup with
    | none => have := (h.S4 hc).2.2.2.2.2; rcases hapi with hapi | hapi <;> simp [hapi] at this
    | some s => exact ⟨s, rfl⟩
  obtain ⟨s, hs⟩ := hsome
  have hst := h2.P3 hapi s hs
  by_cases hex : s.pc = .exited
  · rcases hapi with hapi | hapi
    · exact ⟨.closeSupDone, rfl, by simp [step?, hapi, hs, hex]⟩
    · exact ⟨.openRollbackDone, rfl, by simp [step?, hapi, hs, hex]⟩
  · by_cases hidle : s.pc = .idle
    · exact ⟨.supExit, rfl, by simp [step?, hs, hidle, hst]⟩
    · exact sup_reaction_enabled c s hs hidle hex

/-- waiting for the reconnect loops to exit (`connectLoopWg.Wait`): something can move -/
theorem wait_loops_progress (c : Cfg) (h : Inv c) (h2 : Inv2 c) (hapi : c.api = .closeJoinLoops) :
    ∃ a, isLibAct a = true ∧ (step? c a).isSome = true := by
  by_cases hl : loopsExited c = true
  · exact ⟨.closeLoopsDone, rfl, by simp [step?, hapi, hl]⟩
  · have hnl : ¬ NoLive c := fun hn => hl ((loopsExited_iff c).2 hn)
    unfold NoLive at hnl
    obtain ⟨i, hi⟩ := Classical.not_forall.1 hnl
    obtain ⟨l, hl2⟩ := Classical.not_forall.1 hi
    have hil : c.loops[i]? = some l := Classical.byContradiction fun hn => hl2 (fun hh => absurd hh hn)
    have hlive : l.pc ≠ .exited := fun hp => hl2 (fun _ => hp)
    have hcd := (h.S2b hapi).1
    cases hp : l.pc with
    | exited => exact absurd hp hlive
    | waitPrev =>
      have := phase_done_of_pub c h hcd l.prev (h2.Q i l hil)
      exact ⟨.loopWake i, rfl, by simp [step?, hil, hp, this]⟩
    | sleep => exact ⟨.loopSleep i, rfl, by simp [step?, hil, hp]⟩
    | fence => exact ⟨.loopFence i, rfl, by simp [step?, hil, hp]; split <;> simp⟩
    | publish e => exact ⟨.loopPublish i, rfl, by simp [step?, hil, hp]; split <;> simp⟩
    | start e => exact ⟨.loopStartFail i, rfl, by simp [step?, hil, hp]⟩
    | failWait e =>
      have := phase_done_of_pub c h hcd e (h.R4a i l e hil (by simp [hp, loopPcEpoch]))
      exact ⟨.loopFailDone i, rfl, by simp [step?, hil, hp, this]⟩

/-- **No deadlock in Close.** In every configuration satisfying the invariants in which a Close (or a
    failed Open's rollback) is between its entry and its return, some library action is enabled. -/
theorem close_never_stuck_inv (c : Cfg) (h : Inv c) (h2 : Inv2 c) (hc : closingApi c.api = true) :
    ∃ a, isLibAct a = true ∧ (step? c a).isSome = true := by
  cases hapi : c.api with
  | closeReq e =>
    -- `requestClose` parks while the events channel is full; then the (live) supervisor can move
    by_cases hok : injectOk c = true
    · exact ⟨.closeRequest, rfl, by simp [step?, hapi, hok]⟩
    · cases hsup : c.sup with
      | none => simp [injectOk, hsup] at hok
      | some s =>
        simp only [injectOk, hsup, Bool.or_eq_true, beq_iff_eq, decide_eq_true_eq, not_or, Nat.not_lt] at hok
        obtain ⟨hex, hlen⟩ := hok
        by_cases hidle : s.pc = .idle
        · cases hq : s.queue with
          | nil => simp [hq, eventsCap] at hlen
          | cons ev q => exact ⟨.supStep, rfl, supStep_enabled c s hsup hidle ev q hq⟩
        · exact sup_reaction_enabled c s hsup hidle hex
  | closeWaitEpoch e => exact wait_epoch_progress c h h2 e (Or.inl hapi)
  | openRollbackWait e => exact wait_epoch_progress c h h2 e (Or.inr hapi)
  | closeJoinSup => exact wait_sup_progress c h h2 (Or.inl hapi)
  | openRollbackSup => exact wait_sup_progress c h h2 (Or.inr hapi)
  | closeJoinLoops => exact wait_loops_progress c h h2 hapi
  | idle => simp [hapi, closingApi] at hc
  | openJoin m => simp [hapi, closingApi] at hc
  | openStart m e => simp [hapi, closingApi] at hc
  | openColdWait e => simp [hapi, closingApi] at hc
  | openWaitSel e => simp [hapi, closingApi] at hc


end GoSecs.Lifecycle
