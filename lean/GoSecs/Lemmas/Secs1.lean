/-
  Helper lemmas for the secs1 model (C17, C18).  Core Lean only.
-/
import GoSecs.Model.Secs1
import GoSecs.Spec.E4Receive

namespace GoSecs.Secs1

/-! ## Headers -/


theorem ofNat_toNat (n : Nat) : (UInt8.ofNat n).toNat = n % 256 := by simp [UInt8.toNat_ofNat']

theorem hdr_ofList_toList (h : Hdr) (rest : Bytes) : Hdr.ofList (h.toList ++ rest) = h := by
  cases h; simp [Hdr.ofList, Hdr.toList]

structure MsgHeader.Valid (h : MsgHeader) : Prop where
  dev : h.deviceID ≤ 0x7FFF
  stream : h.stream ≤ 0x7F
  function : h.function ≤ 0xFF

theorem buildHeader_msgHeader (h : MsgHeader) (hv : h.Valid) (bn : Nat) (last : Bool) :
    (buildHeader h bn last).msgHeader = h := by
  obtain ⟨h1, h2, h3⟩ := hv
  cases h with
  | mk dev r st fn w s0 s1 s2 s3 =>
  simp only at h1 h2 h3
  simp only [buildHeader, Hdr.msgHeader, Hdr.deviceID, Hdr.rBit, Hdr.stream, Hdr.function, Hdr.waitBit, orTop, ofNat_toNat]
  cases r <;> cases w <;> simp <;> omega

theorem buildHeader_blockNumber (h : MsgHeader) (bn : Nat) (hb : bn ≤ 32767) (last : Bool) :
    (buildHeader h bn last).blockNumber = bn ∧ (buildHeader h bn last).eBit = last := by
  simp only [buildHeader, Hdr.blockNumber, Hdr.eBit, orTop, ofNat_toNat]
  cases last <;> simp <;> omega

/-! ## splitBody -/


theorem bodiesOf_cons (b : Block) (bs : List Block) : bodiesOf (b :: bs) = b.body ++ bodiesOf bs := by
  simp [bodiesOf]

theorem splitLoop_bodies (h : MsgHeader) : ∀ (fuel bn : Nat) (rest : Bytes),
    rest.length ≤ 244 * fuel → 0 < fuel → bodiesOf (splitLoop h fuel bn rest) = rest := by
  intro fuel
  induction fuel with
  | zero => intro bn rest _ h0; omega
  | succ fuel ih =>
    intro bn rest hlen _
    simp only [splitLoop, maxBlockBodySize]
    by_cases hd : (rest.drop 244).isEmpty = true
    · simp [hd, bodiesOf]
    · simp only [hd, Bool.false_eq_true, reduceIte, bodiesOf_cons]
      have hne : rest.drop 244 ≠ [] := by simpa using hd
      have hl : 244 < rest.length := by
        rcases Nat.lt_or_ge 244 rest.length with h' | h'
        · exact h'
        · exact absurd (List.drop_eq_nil_iff.mpr h') hne
      have hfuel : 0 < fuel := by omega
      rw [ih (bn+1) (rest.drop 244) (by simp; omega) hfuel]
      exact List.take_append_drop 244 rest

theorem splitLoop_length (h : MsgHeader) : ∀ (fuel bn : Nat) (rest : Bytes),
    rest.length ≤ 244 * fuel → 0 < fuel →
    (splitLoop h fuel bn rest).length = if rest.length = 0 then 1 else (rest.length + 243) / 244 := by
  intro fuel
  induction fuel with
  | zero => intro bn rest _ h0; omega
  | succ fuel ih =>
    intro bn rest hlen _
    simp only [splitLoop, maxBlockBodySize]
    by_cases hd : (rest.drop 244).isEmpty = true
    · have : rest.length ≤ 244 := by
        have : rest.drop 244 = [] := by simpa using hd
        exact List.drop_eq_nil_iff.mp this
      simp only [hd, reduceIte, List.length_cons, List.length_nil]
      split <;> omega
    · simp only [hd, Bool.false_eq_true, reduceIte, List.length_cons]
      have hne : rest.drop 244 ≠ [] := by simpa using hd
      have hl : 244 < rest.length := by
        rcases Nat.lt_or_ge 244 rest.length with h' | h'
        · exact h'
        · exact absurd (List.drop_eq_nil_iff.mpr h') hne
      have hfuel : 0 < fuel := by omega
      rw [ih (bn+1) (rest.drop 244) (by simp; omega) hfuel]
      simp only [List.length_drop]
      split <;> split <;> omega

theorem splitLoop_get (h : MsgHeader) : ∀ (fuel bn : Nat) (rest : Bytes),
    rest.length ≤ 244 * fuel → 0 < fuel → ∀ (i : Nat) (hi : i < (splitLoop h fuel bn rest).length),
    (splitLoop h fuel bn rest)[i] =
      { hdr := buildHeader h (bn + i) (decide (i + 1 = (splitLoop h fuel bn rest).length)),
        body := (rest.drop (244 * i)).take 244 } := by
  intro fuel
  induction fuel with
  | zero => intro bn rest _ h0; omega
  | succ fuel ih =>
    intro bn rest hlen _ i hi
    have hlenEq := splitLoop_length h (fuel+1) bn rest hlen (by omega)
    revert hi
    simp only [splitLoop, maxBlockBodySize]
    by_cases hd : (rest.drop 244).isEmpty = true
    · have hle : rest.length ≤ 244 := by
        have : rest.drop 244 = [] := by simpa using hd
        exact List.drop_eq_nil_iff.mp this
      simp only [hd, reduceIte, List.length_cons, List.length_nil]
      intro hi
      have : i = 0 := by omega
      subst this
      simp [List.take_of_length_le hle]
    · simp only [hd, Bool.false_eq_true, reduceIte, List.length_cons]
      have hne : rest.drop 244 ≠ [] := by simpa using hd
      have hl : 244 < rest.length := by
        rcases Nat.lt_or_ge 244 rest.length with h' | h'
        · exact h'
        · exact absurd (List.drop_eq_nil_iff.mpr h') hne
      have hfuel : 0 < fuel := by omega
      have hl2 : (rest.drop 244).length ≤ 244 * fuel := by simp; omega
      have hpos : 0 < (splitLoop h fuel (bn+1) (rest.drop 244)).length := by
        rw [splitLoop_length h fuel (bn+1) _ hl2 hfuel]; simp only [List.length_drop]; split <;> omega
      intro hi
      cases i with
      | zero =>
        have hf : decide (0 + 1 = (splitLoop h fuel (bn + 1) (List.drop 244 rest)).length + 1) = false := by
          simp; intro hnil; rw [hnil] at hpos; simp at hpos
        simp only [List.getElem_cons_zero, Nat.add_zero, Nat.mul_zero, List.drop_zero, hf]
      | succ j =>
        simp only [List.getElem_cons_succ]
        rw [ih (bn+1) (rest.drop 244) hl2 hfuel j (by omega)]
        congr 1
        · congr 1
          · omega
          · simp
        · rw [List.drop_drop]; congr 2; omega


/-! ## Checksum, wire form, parseBlock -/


theorem hdr_toList_length (h : Hdr) : h.toList.length = 10 := rfl

theorem sumBytes_append (a b : Bytes) : sumBytes (a ++ b) = sumBytes a + sumBytes b := by
  induction a with
  | nil => simp [sumBytes]
  | cons x xs ih => simp [sumBytes, ih]; omega

theorem sumBytes_le (l : Bytes) : sumBytes l ≤ 255 * l.length := by
  induction l with
  | nil => simp [sumBytes]
  | cons x xs ih =>
    have := x.toNat_lt
    simp only [sumBytes, List.length_cons]; omega

theorem sumBytes_set (l : Bytes) : ∀ (j : Nat) (v : UInt8) (hj : j < l.length),
    sumBytes (l.set j v) + l[j].toNat = sumBytes l + v.toNat := by
  induction l with
  | nil => intro j v hj; simp at hj
  | cons x xs ih =>
    intro j v hj
    cases j with
    | zero => simp [sumBytes]; omega
    | succ k =>
      simp only [List.set_cons_succ, sumBytes, List.getElem_cons_succ]
      have := ih k v (by simpa using hj)
      omega

theorem payload_length (b : Block) : b.payload.length = 10 + b.body.length := by
  simp [Block.payload, hdr_toList_length]

theorem wire_length (b : Block) : b.wire.length = 13 + b.body.length := by
  simp [Block.wire, payload_length]; omega

theorem parse_wire (b : Block) (hb : b.body.length ≤ 244) : parseWire b.wire = .ok b := by
  have hpl := payload_length b
  have hlb : (UInt8.ofNat (blockHeaderSize + b.body.length)).toNat = 10 + b.body.length := by
    rw [ofNat_toNat]; simp only [blockHeaderSize]; omega
  have hcs : checksum b.payload < 65536 := Nat.mod_lt _ (by omega)
  simp only [Block.wire, parseWire, parseBlock, hlb, minBlockLength, maxBlockLength, checksumSize]
  have h1 : ¬ (10 + b.body.length < 10 ∨ 10 + b.body.length > 254) := by omega
  have h2 : (b.payload ++ beBytes 2 (checksum b.payload)).length = 10 + b.body.length + 2 := by
    simp [hpl]
  have h3 : List.take (10 + b.body.length) (b.payload ++ beBytes 2 (checksum b.payload)) = b.payload := by
    rw [← hpl]; exact List.take_left' rfl
  have h4 : List.drop (10 + b.body.length) (b.payload ++ beBytes 2 (checksum b.payload)) = beBytes 2 (checksum b.payload) := by
    rw [← hpl]; exact List.drop_left' rfl
  have h5 : beVal (beBytes 2 (checksum b.payload)) = checksum b.payload := by
    rw [beVal_beBytes]; exact Nat.mod_eq_of_lt (by simpa using hcs)
  simp only [h1, h2, h3, h4, h5, reduceIte, ne_eq, not_true_eq_false]
  have h6 : Hdr.ofList (b.payload ++ beBytes 2 (checksum b.payload)) = b.hdr := by
    simp only [Block.payload, List.append_assoc]; exact hdr_ofList_toList _ _
  have h7 : List.drop blockHeaderSize b.payload = b.body := by
    simp only [Block.payload, blockHeaderSize]; exact List.drop_left' rfl
  rw [h6, h7]


/-! ## Single-byte corruption -/

theorem beVal_inj (a b : Bytes) (hl : a.length = b.length) (hv : beVal a = beVal b) : a = b := by
  rw [← beBytes_beVal a, ← beBytes_beVal b, hl, hv]

theorem uint8_ne_toNat {a b : UInt8} (h : a ≠ b) : a.toNat ≠ b.toNat := by
  intro e; exact h (UInt8.toNat_inj.mp e)

/-- Any change of exactly one byte of a serialized block is rejected. -/
theorem corrupt_one_byte (b : Block) (hb : b.body.length ≤ 244) (i : Nat) (hi : i < b.wire.length) (v : UInt8)
    (hv : v ≠ b.wire[i]) : ∃ e, parseWire (b.wire.set i v) = .error e := by
  have hpl := payload_length b
  have hlb : (UInt8.ofNat (blockHeaderSize + b.body.length)).toNat = 10 + b.body.length := by
    rw [ofNat_toNat]; simp only [blockHeaderSize]; omega
  have hsum : sumBytes b.payload < 65536 := by
    have := sumBytes_le b.payload; omega
  have hrl : (b.payload ++ beBytes 2 (checksum b.payload)).length = 10 + b.body.length + 2 := by simp [hpl]
  cases i with
  | zero =>
    simp only [Block.wire, List.set_cons_zero, parseWire, parseBlock, minBlockLength, maxBlockLength, checksumSize]
    simp only [Block.wire, List.getElem_cons_zero] at hv
    have hne := uint8_ne_toNat hv
    rw [hlb] at hne
    by_cases h1 : v.toNat < 10 ∨ v.toNat > 254
    · exact ⟨.invalidLength, by simp only [h1, reduceIte]⟩
    · have h2 : (b.payload ++ beBytes 2 (checksum b.payload)).length ≠ v.toNat + 2 := by rw [hrl]; omega
      exact ⟨.invalidLength, by simp only [h1, h2, reduceIte, ne_eq, not_false_eq_true]⟩
  | succ j =>
    have hj : j < (b.payload ++ beBytes 2 (checksum b.payload)).length := by
      simpa [Block.wire] using hi
    simp only [Block.wire, List.set_cons_succ, parseWire, parseBlock, hlb, minBlockLength, maxBlockLength, checksumSize]
    simp only [Block.wire, List.getElem_cons_succ] at hv
    have h1 : ¬ (10 + b.body.length < 10 ∨ 10 + b.body.length > 254) := by omega
    have h2 : ((b.payload ++ beBytes 2 (checksum b.payload)).set j v).length = 10 + b.body.length + 2 := by
      rw [List.length_set, hrl]
    simp only [h1, h2, reduceIte, ne_eq, not_true_eq_false]
    refine ⟨.checksumMismatch, ?_⟩
    have hcs : checksum b.payload = sumBytes b.payload := Nat.mod_eq_of_lt hsum
    suffices h : checksum (List.take (10 + b.body.length) ((b.payload ++ beBytes 2 (checksum b.payload)).set j v)) ≠
        beVal (List.drop (10 + b.body.length) ((b.payload ++ beBytes 2 (checksum b.payload)).set j v)) by
      simp only [h, not_false_eq_true, reduceIte]
    by_cases hjp : j < b.payload.length
    · -- the changed byte is in header/body: the sum moves by a nonzero amount below 256
      rw [List.set_append_left _ _ hjp]
      have e1 : List.take (10 + b.body.length) (b.payload.set j v ++ beBytes 2 (checksum b.payload)) = b.payload.set j v := by
        rw [← hpl]; exact List.take_left' (by simp)
      have e2 : List.drop (10 + b.body.length) (b.payload.set j v ++ beBytes 2 (checksum b.payload)) = beBytes 2 (checksum b.payload) := by
        rw [← hpl]; exact List.drop_left' (by simp)
      rw [e1, e2, beVal_beBytes, Nat.mod_eq_of_lt (show checksum b.payload < 256 ^ 2 by rw [hcs]; omega), hcs]
      have hset := sumBytes_set b.payload j v hjp
      have hle := sumBytes_le (b.payload.set j v)
      rw [List.length_set] at hle
      have hvne : v.toNat ≠ (b.payload[j]).toNat := by
        apply uint8_ne_toNat
        rw [List.getElem_append_left hjp] at hv
        exact hv
      have : sumBytes (b.payload.set j v) < 65536 := by omega
      simp only [checksum, Nat.mod_eq_of_lt this]
      omega
    · -- the changed byte is one of the two checksum bytes
      have hjp' : b.payload.length ≤ j := by omega
      rw [List.set_append_right _ _ hjp']
      have e1 : List.take (10 + b.body.length) (b.payload ++ (beBytes 2 (checksum b.payload)).set (j - b.payload.length) v) = b.payload := by
        rw [← hpl]; exact List.take_left' rfl
      have e2 : List.drop (10 + b.body.length) (b.payload ++ (beBytes 2 (checksum b.payload)).set (j - b.payload.length) v)
          = (beBytes 2 (checksum b.payload)).set (j - b.payload.length) v := by
        rw [← hpl]; exact List.drop_left' rfl
      rw [e1, e2]
      intro heq
      have hv0 : beVal (beBytes 2 (checksum b.payload)) = checksum b.payload := by
        rw [beVal_beBytes]; exact Nat.mod_eq_of_lt (by rw [hcs]; omega)
      have := beVal_inj ((beBytes 2 (checksum b.payload)).set (j - b.payload.length) v) (beBytes 2 (checksum b.payload))
        (by simp) (by rw [← heq, hv0])
      have hk : j - b.payload.length < (beBytes 2 (checksum b.payload)).length := by
        simp; rw [hrl] at hj; omega
      have hget := congrArg (fun l => l[j - b.payload.length]?) this
      simp only [List.getElem?_set_self hk] at hget
      rw [List.getElem_append_right hjp'] at hv
      rw [List.getElem?_eq_getElem hk] at hget
      exact hv (Option.some.inj hget)



/-! ## The assembler simulates the E4 reference receiver -/
open GoSecs.Spec.E4Receive


/-! ## assembleFrame on well-formed accumulations -/

/-- `bs` (from position `i` of `n`) are numbered `i+1, i+2, …`, carry the E-bit exactly at position `n`,
    and share the invariant header. -/
def InOrder (hdr : MsgHeader) (n i : Nat) (bs : List Block) : Prop :=
  ∀ k (hk : k < bs.length), bs[k].hdr.blockNumber = i + k + 1 ∧ bs[k].hdr.eBit = decide (i + k + 1 = n) ∧
    bs[k].hdr.msgHeader = hdr

theorem checkBlocks_inOrder (hdr : MsgHeader) (n : Nat) : ∀ (bs : List Block) (i : Nat),
    InOrder hdr n i bs → checkBlocks hdr false n i bs = none := by
  intro bs
  induction bs with
  | nil => intro i _; rfl
  | cons b bs ih =>
    intro i h
    have h0 := h 0 (by simp)
    simp only [List.getElem_cons_zero, Nat.add_zero] at h0
    obtain ⟨h1, h2, h3⟩ := h0
    simp only [checkBlocks, Bool.false_eq_true, reduceIte, h1, h2, h3, ne_eq, not_true_eq_false]
    apply ih
    intro k hk
    have := h (k+1) (by simpa using hk)
    simp only [List.getElem_cons_succ] at this
    have e : i + (k + 1) + 1 = i + 1 + k + 1 := by omega
    rw [e] at this
    exact this

theorem assembleFrame_inOrder (hdr : MsgHeader) (bs : List Block) (hne : bs ≠ [])
    (h : InOrder hdr bs.length 0 bs) : assembleFrame bs = .ok (hsmsHeader hdr ++ bodiesOf bs) := by
  cases bs with
  | nil => exact absurd rfl hne
  | cons b rest =>
    have h0 := h 0 (by simp)
    simp only [List.getElem_cons_zero, Nat.add_zero, Nat.zero_add] at h0
    have hs : ((b :: rest).length == 1 && b.hdr.blockNumber == 0) = false := by
      rw [h0.1]; simp
    simp only [assembleFrame, hs, h0.2.2, checkBlocks_inOrder hdr _ _ 0 h]

theorem assembleFrame_single (b : Block) (hn : b.hdr.blockNumber = 1 ∨ b.hdr.blockNumber = 0) (he : b.hdr.eBit = true) :
    assembleFrame [b] = .ok (hsmsHeader b.hdr.msgHeader ++ b.body) := by
  rcases hn with hn | hn <;>
    simp [assembleFrame, checkBlocks, hn, he, bodiesOf]



/-- Invariant of the assembler's accumulation state. -/
structure Inv (a : Asm) : Prop where
  closed : a.isOpen = false → a.blocks = []
  opened : a.isOpen = true → a.blocks ≠ [] ∧ a.expected = a.blocks.length + 1
  wf : ∀ k (hk : k < a.blocks.length), a.blocks[k].hdr.blockNumber = k + 1 ∧ a.blocks[k].hdr.eBit = false ∧
        a.blocks[k].hdr.msgHeader = a.header

/-- Simulation relation between the assembler model and the E4 reference receiver. -/
structure Rel (c : Cfg) (a : Asm) (s : RState) : Prop where
  eq : a.isEquip = c.isEquip
  dev : a.deviceID = c.deviceID
  t4 : a.t4 = c.t4
  last : s.last = if a.haveLast then some a.lastHeader else none
  blocks : a.blocks = (s.part.map (·.blk)).reverse
  hd : ∀ p ps, s.part = p :: ps → a.isOpen = true ∧ a.lastTime = p.time ∧ a.header = p.blk.hdr.msgHeader
  nil : s.part = [] → a.isOpen = false

theorem inv_init (eq : Bool) (dev t4 : Nat) : Inv (Asm.init eq dev t4) :=
  ⟨fun _ => rfl, fun h => by simp [Asm.init] at h, fun k hk => by simp [Asm.init] at hk⟩

theorem rel_init (c : Cfg) : Rel c (Asm.init c.isEquip c.deviceID c.t4) {} :=
  ⟨rfl, rfl, rfl, rfl, rfl, fun p ps h => by simp at h, fun _ => rfl⟩

theorem inv_reset (a : Asm) : Inv a.reset :=
  ⟨fun _ => rfl, fun h => by simp [Asm.reset] at h, fun k hk => by simp [Asm.reset] at hk⟩

theorem rel_reset {c : Cfg} {a : Asm} {s : RState} (h : Rel c a s) : Rel c a.reset { s with part := [] } :=
  ⟨h.eq, h.dev, h.t4, h.last, rfl, fun p ps hp => by simp at hp, fun _ => rfl⟩

theorem deliveredOf_append (l1 l2 : List AEv) :
    deliveredOf (l1 ++ l2) = (deliveredOf l1).orElse (fun _ => deliveredOf l2) := by
  induction l1 with
  | nil => simp [deliveredOf]
  | cons x xs ih => cases x <;> simp [deliveredOf, ih]

theorem hasFrameErr_append (l1 l2 : List AEv) : hasFrameErr (l1 ++ l2) = (hasFrameErr l1 || hasFrameErr l2) := by
  induction l1 with
  | nil => simp [hasFrameErr]
  | cons x xs ih => cases x <;> simp [hasFrameErr, ih]

/-- T4 step. -/
theorem expire_sim {c : Cfg} {a : Asm} {s : RState} (hR : Rel c a s) (t : Nat) :
    Inv (a.expire t).1 ∨ True → Rel c (a.expire t).1 { s with part := afterT4 c s.part t } ∧
      deliveredOf (a.expire t).2 = none ∧ hasFrameErr (a.expire t).2 = false := by
  intro _
  cases hp : s.part with
  | nil =>
    have hc := hR.nil hp
    simp only [Asm.expire, hc, Bool.false_and, Bool.false_eq_true, reduceIte, afterT4, deliveredOf, hasFrameErr]
    refine ⟨?_, trivial, trivial⟩
    have : ({ s with part := [] } : RState) = s := by cases s; simp_all
    rw [this]; exact hR
  | cons p ps =>
    obtain ⟨ho, ht, _⟩ := hR.hd p ps hp
    simp only [Asm.expire, ho, Bool.true_and, afterT4, ht, hR.t4, decide_eq_true_eq]
    by_cases hgt : t - p.time > c.t4
    · simp only [hgt, reduceIte, deliveredOf, hasFrameErr]
      exact ⟨rel_reset hR, trivial, trivial⟩
    · simp only [hgt, reduceIte, deliveredOf, hasFrameErr]
      refine ⟨?_, trivial, trivial⟩
      have : ({ s with part := p :: ps } : RState) = s := by cases s; simp_all
      rw [this]; exact hR

theorem inv_expire {a : Asm} (hI : Inv a) (t : Nat) : Inv (a.expire t).1 := by
  simp only [Asm.expire]; split
  · exact inv_reset a
  · exact hI


theorem bodyOf_eq (l : List TBlock) : bodyOf l = bodiesOf (l.map (·.blk)) := by
  simp [bodyOf, bodiesOf, List.map_map, Function.comp_def]

/-- The reference receiver's answer to a non-duplicate block that does not continue the message in progress. -/
def specFresh (s : RState) (e : TBlock) : RState × Option Msg :=
  if firstBlock e.blk then
    if e.blk.hdr.eBit then ({ last := some e.blk.hdr, part := [] }, some ⟨e.blk.hdr.msgHeader, bodyOf [e]⟩)
    else ({ last := some e.blk.hdr, part := [e] }, none)
  else ({ s with part := [] }, none)

theorem accept1_fresh (s : RState) (e : TBlock) (hnd : s.last ≠ some e.blk.hdr)
    (hc : continues s.part e.blk = false) : accept1 s e = specFresh s e := by
  simp only [accept1, hnd, reduceIte, hc, Bool.false_eq_true, specFresh]
  by_cases hf : firstBlock e.blk = true
  · simp only [hf, reduceIte, List.reverse_cons, List.reverse_nil, List.nil_append]
  · simp only [hf, Bool.false_eq_true, reduceIte]

theorem firstBlock_iff (b : Block) :
    firstBlock b = true ↔ (b.hdr.blockNumber = 1 ∨ (b.hdr.blockNumber = 0 ∧ b.hdr.eBit = true)) := by
  simp [firstBlock]

theorem start_sim {c : Cfg} {a : Asm} {s : RState} (hR : Rel c a s) (hs : s.part = []) (e : TBlock) (flag : Bool) :
    Inv (a.startMessage e.time e.blk flag).1 ∧ Rel c (a.startMessage e.time e.blk flag).1 (specFresh s e).1 ∧
    deliveredOf (a.startMessage e.time e.blk flag).2 = (specFresh s e).2.map Msg.image ∧
    hasFrameErr (a.startMessage e.time e.blk flag).2 = false := by
  by_cases hf : firstBlock e.blk = true
  · have hf' := (firstBlock_iff e.blk).mp hf
    by_cases he : e.blk.hdr.eBit = true
    · have hn : e.blk.hdr.blockNumber = 1 ∨ e.blk.hdr.blockNumber = 0 := by
        rcases hf' with h | h
        · exact Or.inl h
        · exact Or.inr h.1
      simp only [Asm.startMessage, hf', reduceIte]
      simp only [he, reduceIte, Asm.complete, assembleFrame_single e.blk hn he, specFresh, hf,
        deliveredOf, hasFrameErr, Option.map_some]
      refine ⟨inv_reset _, ?_, ?_, trivial⟩
      · exact ⟨hR.eq, hR.dev, hR.t4, rfl, rfl, fun p ps hp => by simp at hp, fun _ => rfl⟩
      · simp [Msg.image, bodyOf]
    · have hn : e.blk.hdr.blockNumber = 1 := by
        rcases hf' with h | h
        · exact h
        · exact absurd h.2 he
      simp only [Asm.startMessage, hf', reduceIte]
      simp only [he, reduceIte, Bool.false_eq_true, specFresh, hf, deliveredOf, hasFrameErr, Option.map_none]
      refine ⟨⟨fun h => by simp at h, fun _ => by simp [hn], ?_⟩, ?_, trivial, trivial⟩
      · intro k hk
        have : k = 0 := by simpa using hk
        subst this
        simp only [List.getElem_cons_zero]
        exact ⟨hn, by simpa using he, trivial⟩
      · refine ⟨hR.eq, hR.dev, hR.t4, rfl, rfl, ?_, fun h => by simp at h⟩
        intro p ps hp
        simp only [List.cons.injEq] at hp
        obtain ⟨rfl, _⟩ := hp
        exact ⟨rfl, rfl, rfl⟩
  · have hf' : ¬ (e.blk.hdr.blockNumber = 1 ∨ (e.blk.hdr.blockNumber = 0 ∧ e.blk.hdr.eBit = true)) :=
      fun h => hf ((firstBlock_iff e.blk).mpr h)
    have hc : a.isOpen = false := hR.nil hs
    simp only [Asm.startMessage, hf', reduceIte, specFresh, hf, Bool.false_eq_true, deliveredOf, hasFrameErr, Option.map_none]
    refine ⟨?_, ?_, trivial, trivial⟩
    · have hb : a.blocks = [] := by rw [hR.blocks, hs]; rfl
      refine ⟨fun _ => hb, fun h => ?_, fun k hk => ?_⟩
      · rw [hc] at h; cases h
      · rw [hb] at hk; simp at hk
    · have : ({ s with part := [] } : RState) = s := by cases s; simp_all
      rw [this]; exact hR


theorem specFresh_part_nil (s : RState) (e : TBlock) : specFresh { s with part := [] } e = specFresh s e := by
  simp [specFresh]

theorem dup_iff {c : Cfg} {a : Asm} {s : RState} (hR : Rel c a s) (h : Hdr) :
    (a.haveLast = true ∧ h = a.lastHeader) ↔ s.last = some h := by
  rw [hR.last]
  cases a.haveLast <;> simp [eq_comm]

theorem core_sim {c : Cfg} {a : Asm} {s : RState} (hI : Inv a) (hR : Rel c a s) (e : TBlock) :
    Inv (a.acceptAddressed e.time e.blk).1 ∧ Rel c (a.acceptAddressed e.time e.blk).1 (accept1 s e).1 ∧
    deliveredOf (a.acceptAddressed e.time e.blk).2 = (accept1 s e).2.map Msg.image ∧
    hasFrameErr (a.acceptAddressed e.time e.blk).2 = false := by
  by_cases hd : s.last = some e.blk.hdr
  · -- retransmission
    have hd' := (dup_iff hR e.blk.hdr).mpr hd
    simp only [Asm.acceptAddressed, hd', and_self, reduceIte, accept1, hd, deliveredOf, hasFrameErr, Option.map_none, and_true]
    exact ⟨hI, hR⟩
  · have hd' : ¬ (a.haveLast = true ∧ e.blk.hdr = a.lastHeader) := fun h => hd ((dup_iff hR e.blk.hdr).mp h)
    cases hp : s.part with
    | nil =>
      have hc : a.isOpen = false := hR.nil hp
      have hcont : continues s.part e.blk = false := by rw [hp]; rfl
      rw [accept1_fresh s e hd hcont]
      simp only [Asm.acceptAddressed, hd', reduceIte, hc, Bool.false_eq_true]
      exact start_sim hR hp e true
    | cons p ps =>
      obtain ⟨ho, ht, hh⟩ := hR.hd p ps hp
      obtain ⟨hne, hexp⟩ := hI.opened ho
      have hlen : a.blocks.length = ps.length + 1 := by rw [hR.blocks, hp]; simp
      by_cases hcont : continues s.part e.blk = true
      · -- the expected next block
        have hc' : e.blk.hdr.blockNumber = ps.length + 1 + 1 ∧ e.blk.hdr.msgHeader = p.blk.hdr.msgHeader := by
          simpa [continues, hp] using hcont
        have hm : e.blk.hdr.blockNumber = a.expected ∧ e.blk.hdr.msgHeader = a.header := by
          rw [hexp, hlen, hh]; exact hc'
        have hio : InOrder a.header (a.blocks ++ [e.blk]).length 0 (a.blocks ++ [e.blk]) ∨ e.blk.hdr.eBit = false := by
          by_cases he : e.blk.hdr.eBit = true
          · left
            intro k hk
            by_cases hk' : k < a.blocks.length
            · rw [List.getElem_append_left hk']
              obtain ⟨w1, w2, w3⟩ := hI.wf k hk'
              refine ⟨by omega, ?_, w3⟩
              rw [w2]; simp; omega
            · have hk2 : k = a.blocks.length := by simp at hk; omega
              subst hk2
              simp only [List.getElem_append_right (Nat.le_refl _), Nat.sub_self, List.getElem_cons_zero]
              refine ⟨by rw [hm.1, hexp]; omega, ?_, hm.2⟩
              rw [he]; simp
          · right; simpa using he
        simp only [Asm.acceptAddressed, hd', reduceIte, ho, hm, and_self, Asm.appendBlock]
        simp only [accept1, hd, reduceIte, hcont]
        by_cases he : e.blk.hdr.eBit = true
        · have hio' : InOrder a.header (a.blocks ++ [e.blk]).length 0 (a.blocks ++ [e.blk]) := by
            rcases hio with h | h
            · exact h
            · rw [he] at h; cases h
          simp only [he, reduceIte, Asm.complete, assembleFrame_inOrder a.header _ (by simp) hio', deliveredOf, hasFrameErr,
            Option.map_some]
          refine ⟨inv_reset _, ?_, ?_, trivial⟩
          · exact ⟨hR.eq, hR.dev, hR.t4, rfl, rfl, fun p ps hp => by simp at hp, fun _ => rfl⟩
          · simp only [Msg.image, bodyOf_eq, hm.2, Option.some.injEq]
            congr 1
            rw [hR.blocks, hp]; simp
        · simp only [he, Bool.false_eq_true, reduceIte, deliveredOf, hasFrameErr, Option.map_none]
          have he' : e.blk.hdr.eBit = false := by simpa using he
          refine ⟨⟨fun h => by simp at h, fun _ => ⟨by simp, by simp [hexp]⟩, ?_⟩, ?_, trivial, trivial⟩
          · intro k hk
            by_cases hk' : k < a.blocks.length
            · simp only [List.getElem_append_left hk']; exact hI.wf k hk'
            · have hk2 : k = a.blocks.length := by simp at hk; omega
              subst hk2
              simp only [List.getElem_append_right (Nat.le_refl _), Nat.sub_self, List.getElem_cons_zero]
              exact ⟨by rw [hm.1, hexp], he', hm.2⟩
          · refine ⟨hR.eq, hR.dev, hR.t4, rfl, ?_, ?_, fun h => by simp at h⟩
            · simp only [hR.blocks, hp]; simp
            · intro q qs hq
              simp only [List.cons.injEq] at hq
              obtain ⟨rfl, _⟩ := hq
              exact ⟨rfl, rfl, hm.2.symm⟩
      · -- not the expected block: abort and re-evaluate as a first block
        have hcf : continues s.part e.blk = false := by simpa using hcont
        have hm : ¬ (e.blk.hdr.blockNumber = a.expected ∧ e.blk.hdr.msgHeader = a.header) := by
          intro h
          apply hcont
          rw [hexp, hlen, hh] at h
          simp [continues, hp, h.1, h.2]
        rw [accept1_fresh s e hd hcf, ← specFresh_part_nil]
        simp only [Asm.acceptAddressed, hd', reduceIte, ho, hm, deliveredOf, hasFrameErr]
        exact start_sim (rel_reset hR) rfl e false


theorem addressed_iff {c : Cfg} {a : Asm} {s : RState} (hR : Rel c a s) (b : Block) :
    addressed c b = true ↔ (¬ b.hdr.deviceID ≠ a.deviceID ∧ ¬ b.hdr.rBit = a.isEquip) := by
  rw [hR.dev, hR.eq]
  simp only [addressed, Bool.and_eq_true, decide_eq_true_eq, bne_iff_ne, ne_eq, Decidable.not_not]

/-- One `accept` call simulates one step of the E4 reference receiver. -/
theorem accept_sim {c : Cfg} {a : Asm} {s : RState} (hI : Inv a) (hR : Rel c a s) (e : TBlock) :
    Inv (a.accept e.time e.blk).1 ∧ Rel c (a.accept e.time e.blk).1 (step c s e).1 ∧
    deliveredOf (a.accept e.time e.blk).2 = (step c s e).2.map Msg.image ∧
    hasFrameErr (a.accept e.time e.blk).2 = false := by
  by_cases had : addressed c e.blk = true
  · obtain ⟨h1, h2⟩ := (addressed_iff hR e.blk).mp had
    simp only [Asm.accept, h1, h2, reduceIte, step, had, Bool.not_true, Bool.false_eq_true]
    obtain ⟨hR1, hd1, hf1⟩ := expire_sim hR e.time (Or.inr trivial)
    have hI1 := inv_expire hI e.time
    obtain ⟨r1, r2, r3, r4⟩ := core_sim hI1 hR1 e
    refine ⟨r1, r2, ?_, ?_⟩
    · rw [deliveredOf_append, hd1]; exact r3
    · rw [hasFrameErr_append, hf1, r4]; rfl
  · have had' : addressed c e.blk = false := by simpa using had
    simp only [step, had', Bool.not_false, reduceIte, Option.map_none]
    by_cases h1 : e.blk.hdr.deviceID ≠ a.deviceID
    · simp only [Asm.accept, h1, ne_eq, not_false_eq_true, reduceIte, deliveredOf, hasFrameErr, and_true]
      exact ⟨hI, hR⟩
    · have h2 : e.blk.hdr.rBit = a.isEquip := by
        apply Classical.byContradiction
        intro h2
        exact had ((addressed_iff hR e.blk).mpr ⟨h1, h2⟩)
      simp only [Asm.accept, h1, h2, reduceIte, deliveredOf, hasFrameErr, and_true]
      exact ⟨hI, hR⟩

/-- Whole sequences: the per-block deliveries of the assembler are those of the reference receiver,
    and no trace contains an `assembleFrame` error. -/
theorem run_sim {c : Cfg} : ∀ (evs : List TBlock) {a : Asm} {s : RState}, Inv a → Rel c a s →
    (a.run evs).2.map deliveredOf = (Spec.E4Receive.run c s evs).2.map (·.map Msg.image) ∧
    (∀ tr ∈ (a.run evs).2, hasFrameErr tr = false) ∧
    Inv (a.run evs).1 ∧ Rel c (a.run evs).1 (Spec.E4Receive.run c s evs).1 := by
  intro evs
  induction evs with
  | nil => intro a s hI hR; exact ⟨rfl, fun _ h => by simp [Asm.run] at h, hI, hR⟩
  | cons e es ih =>
    intro a s hI hR
    obtain ⟨r1, r2, r3, r4⟩ := accept_sim hI hR e
    obtain ⟨q1, q2, q3, q4⟩ := ih r1 r2
    simp only [Asm.run, Spec.E4Receive.run, List.map_cons, r3, q1, List.mem_cons]
    refine ⟨trivial, ?_, q3, q4⟩
    intro tr htr
    rcases htr with rfl | h
    · exact r4
    · exact q2 tr h



/-! ## splitBody, assembled -/
theorem split_ok (body : Bytes) (h : MsgHeader) (hv : h.Valid) (hlen : body.length ≤ 244 * 32767) :
    ∃ bs, splitBody body h = .ok bs ∧ bs.length = max 1 ((body.length + 243) / 244) ∧
      (∀ i (hi : i < bs.length), bs[i] = { hdr := buildHeader h (1 + i) (decide (i + 1 = bs.length)),
                                            body := (body.drop (244 * i)).take 244 }) ∧
      bodiesOf bs = body := by
  obtain ⟨h1, h2, _⟩ := hv
  have e1 : ¬ h.deviceID > 0x7FFF := by omega
  have e2 : ¬ h.stream > 0x7F := by omega
  have e3 : ¬ body.length > maxBlockBodySize * maxBlockNumber := by simp only [maxBlockBodySize, maxBlockNumber]; omega
  by_cases h0 : body.length = 0
  · have hb : body = [] := List.eq_nil_of_length_eq_zero h0
    refine ⟨[{ hdr := buildHeader h 1 true, body := [] }], ?_, ?_, ?_, ?_⟩
    · subst hb
      simp [splitBody, splitBodyN, e1, e2, maxBlockBodySize, maxBlockNumber]
    · simp [h0]
    · intro i hi
      have : i = 0 := by simpa using hi
      subst this; simp [hb]
    · simp [bodiesOf, hb]
  · have hfuel : body.length ≤ 244 * (body.length / maxBlockBodySize + 1) := by simp only [maxBlockBodySize]; omega
    refine ⟨splitLoop h (body.length / maxBlockBodySize + 1) 1 body, ?_, ?_, ?_, ?_⟩
    · simp only [splitBody, splitBodyN, e1, e2, e3, h0, reduceIte]
    · rw [splitLoop_length h _ 1 body hfuel (by omega)]; simp only [h0, reduceIte]; omega
    · exact splitLoop_get h _ 1 body hfuel (by omega)
    · exact splitLoop_bodies h _ 1 body hfuel (by omega)



theorem acceptAddressed_dup (a : Asm) (now : Nat) (blk : Block) (h1 : a.haveLast = true) (h2 : blk.hdr = a.lastHeader) :
    a.acceptAddressed now blk = (a, [.dupDrop]) := by
  simp only [Asm.acceptAddressed, h1, h2, and_self, reduceIte]


/-! ## C18: the sendBlock RTY loop and receiveBlock -/


theorem push_attempts (t : SendTrace) (a : Attempt) (o : Bytes) (d : Option Block) :
    (t.push a o d).attempts = a :: t.attempts := rfl

theorem maxRun_le_of (as : List Attempt) : ∀ (cur best B : Nat), cur + as.length ≤ B → best ≤ B → maxRun as cur best ≤ B := by
  induction as with
  | nil => intro cur best B h1 h2; simp only [maxRun]; simp at h1; omega
  | cons a as ih =>
    intro cur best B h1 h2
    simp only [List.length_cons] at h1
    cases a <;> simp only [maxRun]
    · exact ih (cur+1) best B (by omega) h2
    · exact ih (cur+1) best B (by omega) h2
    · exact ih 0 (max cur best) B (by omega) (by omega)
    · exact ih (cur+1) best B (by omega) h2

theorem sendSilent_attempts (n : Nat) : (sendSilent n).attempts = List.replicate n .retry := by
  induction n with
  | zero => rfl
  | succ n ih => simp [sendSilent, push_attempts, ih, List.replicate_succ]

/-- Runs of attempts without an intervening successful yield never exceed `limit + 1`. -/
theorem sendLoop_maxRun (isEquip : Bool) (limit : Nat) (blk : Block) : ∀ (sched : List PeerAct) (r cur best B : Nat),
    cur + (limit + 1 - r) ≤ B → best ≤ B → limit + 1 ≤ B →
    maxRun (sendLoop isEquip limit blk r sched).attempts cur best ≤ B := by
  intro sched
  induction sched with
  | nil =>
    intro r cur best B h1 h2 _
    simp only [sendLoop, sendSilent_attempts]
    exact maxRun_le_of _ cur best B (by simpa using h1) h2
  | cons act rest ih =>
    intro r cur best B h1 h2 h3
    simp only [sendLoop]
    by_cases hr : r > limit
    · simp only [hr, reduceIte, maxRun]; omega
    · simp only [hr, reduceIte]
      have hr' : r ≤ limit := by omega
      cases hk : (sendAttempt isEquip blk act).1 with
      | ok => simp only [push_attempts, maxRun]; omega
      | retry => simp only [push_attempts, maxRun]; exact ih (r+1) (cur+1) best B (by omega) h2 h3
      | yieldFailed => simp only [push_attempts, maxRun]; exact ih (r+1) (cur+1) best B (by omega) h2 h3
      | yieldDelivered => simp only [push_attempts, maxRun]; exact ih 0 0 (max cur best) B (by omega) (by omega) h3



theorem push_ok (t : SendTrace) (a : Attempt) (o : Bytes) (d : Option Block) : (t.push a o d).ok = t.ok := rfl
theorem sendSilent_ok (n : Nat) : (sendSilent n).ok = false := by
  induction n with
  | zero => rfl
  | succ n ih => simp [sendSilent, push_ok, ih]

/-- `sendBlock` returns nil exactly when one attempt ended with the peer's ACK, and that attempt is the last. -/
theorem sendLoop_ok_count (isEquip : Bool) (limit : Nat) (blk : Block) : ∀ (sched : List PeerAct) (r : Nat),
    (sendLoop isEquip limit blk r sched).attempts.count .ok = (if (sendLoop isEquip limit blk r sched).ok then 1 else 0) ∧
    ((sendLoop isEquip limit blk r sched).ok = true → (sendLoop isEquip limit blk r sched).attempts.getLast? = some .ok) := by
  intro sched
  induction sched with
  | nil =>
    intro r
    simp only [sendLoop, sendSilent_attempts, sendSilent_ok]
    refine ⟨?_, fun h => by cases h⟩
    simp [List.count_replicate]
  | cons act rest ih =>
    intro r
    simp only [sendLoop]
    by_cases hr : r > limit
    · simp [hr]
    · simp only [hr, reduceIte]
      cases hk : (sendAttempt isEquip blk act).1 with
      | ok => simp [push_attempts, push_ok]
      | retry =>
        obtain ⟨h1, h2⟩ := ih (r+1)
        simp only [push_attempts, push_ok]
        refine ⟨by rw [List.count_cons_of_ne (by decide)]; exact h1, fun h => ?_⟩
        have := h2 h
        cases hl : (sendLoop isEquip limit blk (r + 1) rest).attempts with
        | nil => rw [hl] at this; cases this
        | cons x xs => rw [hl] at this; simpa [List.getLast?_cons_cons] using this
      | yieldFailed =>
        obtain ⟨h1, h2⟩ := ih (r+1)
        simp only [push_attempts, push_ok]
        refine ⟨by rw [List.count_cons_of_ne (by decide)]; exact h1, fun h => ?_⟩
        have := h2 h
        cases hl : (sendLoop isEquip limit blk (r + 1) rest).attempts with
        | nil => rw [hl] at this; cases this
        | cons x xs => rw [hl] at this; simpa [List.getLast?_cons_cons] using this
      | yieldDelivered =>
        obtain ⟨h1, h2⟩ := ih 0
        simp only [push_attempts, push_ok]
        refine ⟨by rw [List.count_cons_of_ne (by decide)]; exact h1, fun h => ?_⟩
        have := h2 h
        cases hl : (sendLoop isEquip limit blk 0 rest).attempts with
        | nil => rw [hl] at this; cases this
        | cons x xs => rw [hl] at this; simpa [List.getLast?_cons_cons] using this

/-- On the receive path a flipped character anywhere after the length character is never ACKed. -/
theorem receive_rejects_flipped (b : Block) (hb : b.body.length ≤ 244) (j : Nat) (hj : j + 1 < b.wire.length) (v : UInt8)
    (hv : v ≠ b.wire[j+1]) : ∀ b', receiveBytes (b.wire.set (j+1) v) ≠ .block b' := by
  intro b' h
  obtain ⟨e, he⟩ := corrupt_one_byte b hb (j+1) hj v hv
  have hlb : (UInt8.ofNat (blockHeaderSize + b.body.length)).toNat = 10 + b.body.length := by
    rw [ofNat_toNat]; simp only [blockHeaderSize]; omega
  have hl : ((b.payload ++ beBytes 2 (checksum b.payload)).set j v).length = 10 + b.body.length + 2 := by
    simp [payload_length]
  simp only [Block.wire, List.set_cons_succ, parseWire] at he
  simp only [Block.wire, List.set_cons_succ, receiveBytes, hlb, minBlockLength, maxBlockLength, checksumSize] at h
  have h1 : ¬ (10 + b.body.length < 10 ∨ 10 + b.body.length > 254) := by omega
  have h2 : ¬ (((b.payload ++ beBytes 2 (checksum b.payload)).set j v).length < 10 + b.body.length + 2) := by omega
  simp only [h1, h2, reduceIte] at h
  rw [List.take_of_length_le (by omega), he] at h
  cases h



/-! ## C18: two endpoints over a faulty line -/


@[simp] theorem take_succeeded (e : Endpoint) (b : Block) : (e.take b).succeeded = e.succeeded := by
  simp only [Endpoint.take]; split <;> rfl
@[simp] theorem take_cur (e : Endpoint) (b : Block) : (e.take b).cur = e.cur := by
  simp only [Endpoint.take]; split <;> rfl
@[simp] theorem take_retry (e : Endpoint) (b : Block) : (e.take b).retry = e.retry := by
  simp only [Endpoint.take]; split <;> rfl
@[simp] theorem take_limit (e : Endpoint) (b : Block) : (e.take b).limit = e.limit := by
  simp only [Endpoint.take]; split <;> rfl
@[simp] theorem acked_delivered (e : Endpoint) : e.acked.delivered = e.delivered := by
  simp only [Endpoint.acked]; split <;> rfl
@[simp] theorem teardown_delivered (e : Endpoint) : e.teardown.delivered = e.delivered := rfl
@[simp] theorem teardown_succeeded (e : Endpoint) : e.teardown.succeeded = e.succeeded := rfl
@[simp] theorem load_delivered (e : Endpoint) : e.load.delivered = e.delivered := by
  simp only [Endpoint.load]
  split
  · split <;> rfl
  · rfl
@[simp] theorem load_succeeded (e : Endpoint) : e.load.succeeded = e.succeeded := by
  simp only [Endpoint.load]
  split
  · split <;> rfl
  · rfl

theorem settle_master_delivered (l : Line) : l.settle.master.delivered = l.master.delivered := by
  simp only [Line.settle]; split <;> rfl
theorem settle_slave_succeeded (l : Line) : l.settle.slave.succeeded = l.slave.succeeded := by
  simp only [Line.settle]; split <;> rfl
theorem settle_slave_delivered (l : Line) : l.settle.slave.delivered = l.slave.delivered := by
  simp only [Line.settle]; split <;> rfl
theorem settle_master_succeeded (l : Line) : l.settle.master.succeeded = l.master.succeeded := by
  simp only [Line.settle]; split <;> rfl

/-- While the master has a block to send, a step never advances the slave's sends nor hands the
    master anything from the slave. -/
theorem master_first (l : Line) (f : Fault) (m : OutMsg) (blk : Block) (rest : List Block)
    (hm : l.master.load.cur = some (m, blk :: rest)) :
    (l.step f).slave.succeeded = l.slave.succeeded ∧ (l.step f).master.delivered = l.master.delivered := by
  simp only [Line.step, hm]
  cases hf : f.effect <;>
    simp only [settle_master_delivered, settle_slave_succeeded, take_succeeded, acked_delivered, load_delivered,
      load_succeeded, and_self]

/-- Once the master has nothing to send, the slave's postponed block is the one transferred. -/
theorem slave_follows (l : Line) (m : OutMsg) (blk : Block) (rest : List Block)
    (hm : l.master.load.cur = none) (hs : l.slave.load.cur = some (m, blk :: rest)) :
    (l.step .none).master.delivered = (l.master.load.take blk).delivered ∧
    (l.step .none).slave.succeeded = l.slave.load.acked.succeeded := by
  simp only [Line.step, hm, hs, Fault.effect, settle_master_delivered, settle_slave_succeeded, and_self]



/-! ## Exactly once under retransmission (reference receiver) -/


/-- One block on the line as the receiver sees it: its first intact arrival, then retransmissions of the
    same block (the sender missed our ACK) at the given instants. -/
def withDups (e : TBlock) (dups : List Nat) : List TBlock := e :: dups.map (fun t => ⟨t, e.blk⟩)

def expand : List (TBlock × List Nat) → List TBlock
  | [] => []
  | (e, ds) :: r => withDups e ds ++ expand r

/-- Blocks `n, n+1, …` of a message with invariant header `hdr`, each within T4 of its predecessor
    (`pt` = arrival of the previous block), E-bit exactly on the last, retransmissions within T4 of the
    block they repeat. -/
def ContD (c : Cfg) (hdr : MsgHeader) : Nat → Nat → List (TBlock × List Nat) → Prop
  | _, _, [] => True
  | pt, n, (e, ds) :: r =>
    addressed c e.blk = true ∧ e.blk.hdr.blockNumber = n ∧ e.blk.hdr.msgHeader = hdr ∧ e.time - pt ≤ c.t4 ∧
    e.blk.hdr.eBit = r.isEmpty ∧ (∀ t ∈ ds, t - e.time ≤ c.t4) ∧ ContD c hdr e.time (n + 1) r

theorem run_append (c : Cfg) (s : RState) (a b : List TBlock) :
    Spec.E4Receive.run c s (a ++ b) =
      ((Spec.E4Receive.run c (Spec.E4Receive.run c s a).1 b).1,
       (Spec.E4Receive.run c s a).2 ++ (Spec.E4Receive.run c (Spec.E4Receive.run c s a).1 b).2) := by
  induction a generalizing s with
  | nil => simp [Spec.E4Receive.run]
  | cons e es ih => simp [Spec.E4Receive.run, ih]

/-- Retransmissions of the last accepted block change nothing (as long as T4 has not run out). -/
theorem dups_ignored (c : Cfg) (s : RState) (b : Block) (hl : s.last = some b.hdr) (ha : addressed c b = true) :
    ∀ (ds : List Nat), (∀ t ∈ ds, afterT4 c s.part t = s.part) →
    Spec.E4Receive.run c s (ds.map (fun t => ⟨t, b⟩)) = (s, ds.map (fun _ => none)) := by
  intro ds
  induction ds with
  | nil => intro _; rfl
  | cons t ts ih =>
    intro h
    have ht := h t (by simp)
    have hstep : step c s ⟨t, b⟩ = (s, none) := by
      simp only [step, ha, Bool.not_true, Bool.false_eq_true, reduceIte, ht]
      simp only [accept1, hl, reduceIte]
      cases s; simp_all
    simp only [List.map_cons, Spec.E4Receive.run, hstep]
    rw [ih (fun t' ht' => h t' (by simp [ht']))]

theorem filterMap_none {α} (l : List Nat) : (l.map (fun _ => (none : Option α))).filterMap id = [] := by
  induction l with
  | nil => rfl
  | cons x xs ih => simpa using ih

theorem hdr_ne_of_blockNumber_ne {a b : Hdr} (h : a.blockNumber ≠ b.blockNumber) : a ≠ b := by
  intro e; exact h (by rw [e])

theorem hdr_ne_of_msgHeader_ne {a b : Hdr} (h : a.msgHeader ≠ b.msgHeader) : a ≠ b := by
  intro e; exact h (by rw [e])

/-- Continuing an open message through its remaining blocks (with retransmissions) delivers it exactly
    once, at the E-bit block, and leaves no message in progress. -/
theorem contD_run (c : Cfg) (hdr : MsgHeader) : ∀ (r : List (TBlock × List Nat)) (s : RState) (p : TBlock) (ps : List TBlock),
    s.part = p :: ps → s.last = some p.blk.hdr → p.blk.hdr.blockNumber = ps.length + 1 → p.blk.hdr.msgHeader = hdr →
    r ≠ [] → ContD c hdr p.time (ps.length + 2) r →
    ∃ lastHdr, (Spec.E4Receive.run c s (expand r)).1 = { last := some lastHdr, part := [] } ∧ lastHdr.msgHeader = hdr ∧
      (Spec.E4Receive.run c s (expand r)).2.filterMap id = [⟨hdr, bodyOf ((p :: ps).reverse ++ r.map (·.1))⟩] := by
  intro r
  induction r with
  | nil => intro s p ps _ _ _ _ hne; exact absurd rfl hne
  | cons x r ih =>
    intro s p ps hp hl hn hh _ hc
    obtain ⟨e, ds⟩ := x
    obtain ⟨ha, hnum, hhdr, hgap, hE, hds, hrest⟩ := hc
    -- the step on `e`
    have hT4 : afterT4 c s.part e.time = p :: ps := by
      simp only [afterT4, hp]
      have : ¬ (e.time - p.time > c.t4) := by omega
      simp only [this, reduceIte]
    have hnd : s.last ≠ some e.blk.hdr := by
      rw [hl]
      intro h
      have := Option.some.inj h
      have h2 : p.blk.hdr.blockNumber ≠ e.blk.hdr.blockNumber := by omega
      exact hdr_ne_of_blockNumber_ne h2 this
    have hcont : continues (p :: ps) e.blk = true := by
      simp only [continues, List.length_cons, hnum, hhdr, hh, decide_true, Bool.and_self]
    by_cases hlast : r = []
    · -- `e` is the E-bit block
      subst hlast
      have hEt : e.blk.hdr.eBit = true := by simpa using hE
      have hstep : step c s e = ({ last := some e.blk.hdr, part := [] }, some ⟨hdr, bodyOf ((p :: ps).reverse ++ [e])⟩) := by
        simp only [step, ha, Bool.not_true, Bool.false_eq_true, reduceIte, hT4, accept1, hnd, hcont, hEt, hhdr,
          List.reverse_cons, List.append_assoc]
      simp only [expand, withDups, List.append_nil, List.cons_append, Spec.E4Receive.run, hstep]
      have hd := dups_ignored c { last := some e.blk.hdr, part := [] } e.blk rfl ha ds (fun t _ => rfl)
      rw [hd]
      refine ⟨e.blk.hdr, rfl, hhdr, ?_⟩
      simp [filterMap_none]
    · have hEf : e.blk.hdr.eBit = false := by
        cases r with
        | nil => exact absurd rfl hlast
        | cons _ _ => simpa using hE
      have hstep : step c s e = ({ last := some e.blk.hdr, part := e :: p :: ps }, none) := by
        simp only [step, ha, Bool.not_true, Bool.false_eq_true, reduceIte, hT4, accept1, hnd, hcont, hEf]
      have hd := dups_ignored c { last := some e.blk.hdr, part := e :: p :: ps } e.blk rfl ha ds (by
        intro t ht
        simp only [afterT4]
        have := hds t ht
        have : ¬ (t - e.time > c.t4) := by omega
        simp only [this, reduceIte])
      have ih' := ih { last := some e.blk.hdr, part := e :: p :: ps } e (p :: ps) rfl rfl
        (by simp only [List.length_cons]; omega) hhdr hlast (by simpa [List.length_cons] using hrest)
      obtain ⟨lh, h1, h1', h2⟩ := ih'
      refine ⟨lh, ?_, h1', ?_⟩
      · simp only [expand, withDups, List.cons_append, Spec.E4Receive.run, hstep]
        rw [run_append, hd]
        exact h1
      · simp only [expand, withDups, List.cons_append, Spec.E4Receive.run, hstep]
        rw [run_append, hd]
        rw [List.filterMap_cons_none rfl, List.filterMap_append, filterMap_none, List.nil_append, h2]
        simp [List.reverse_cons, List.append_assoc]


/-- One message on the line as the receiver sees it: each block's first arrival and its retransmissions. -/
structure Transmission where
  hdr : MsgHeader
  blocks : List (TBlock × List Nat)

def Transmission.events (t : Transmission) : List TBlock := expand t.blocks
def Transmission.msg (t : Transmission) : Msg := ⟨t.hdr, bodyOf (t.blocks.map (·.1))⟩

/-- Blocks numbered from 1, addressed to `c`, invariant header `hdr`, gaps within T4, E-bit on the last. -/
def Transmission.WF (c : Cfg) (t : Transmission) : Prop :=
  match t.blocks with
  | [] => False
  | (e, _) :: _ => ContD c t.hdr e.time 1 t.blocks

theorem transmission_run (c : Cfg) (t : Transmission) (hw : t.WF c) (s : RState)
    (hnd : ∀ h, s.last = some h → h.msgHeader ≠ t.hdr) :
    ∃ lastHdr, (Spec.E4Receive.run c s t.events).1 = { last := some lastHdr, part := [] } ∧ lastHdr.msgHeader = t.hdr ∧
      (Spec.E4Receive.run c s t.events).2.filterMap id = [t.msg] := by
  obtain ⟨hdr, blocks⟩ := t
  cases blocks with
  | nil => exact absurd hw (by simp [Transmission.WF])
  | cons x r =>
    obtain ⟨e, ds⟩ := x
    simp only [Transmission.WF, ContD] at hw
    obtain ⟨ha, hnum, hhdr, _, hE, hds, hrest⟩ := hw
    have hnd' : s.last ≠ some e.blk.hdr := by
      intro h; exact hnd _ h hhdr
    have hcont : continues (afterT4 c s.part e.time) e.blk = false := by
      cases hp : afterT4 c s.part e.time with
      | nil => rfl
      | cons q qs => simp [continues, hnum]
    have hfirst : firstBlock e.blk = true := by simp [firstBlock, hnum]
    simp only [Transmission.events, Transmission.msg, expand, withDups, List.cons_append, Spec.E4Receive.run]
    by_cases hlast : r = []
    · subst hlast
      have hEt : e.blk.hdr.eBit = true := by simpa using hE
      have hstep : step c s e = ({ last := some e.blk.hdr, part := [] }, some ⟨hdr, bodyOf [e]⟩) := by
        simp only [step, ha, Bool.not_true, Bool.false_eq_true, reduceIte, accept1, hnd', hcont, hfirst, hEt, hhdr,
          List.reverse_cons, List.reverse_nil, List.nil_append]
      have hd := dups_ignored c { last := some e.blk.hdr, part := [] } e.blk rfl ha ds (fun t _ => rfl)
      simp only [hstep, expand, List.append_nil, hd]
      refine ⟨e.blk.hdr, rfl, hhdr, ?_⟩
      simp [filterMap_none]
    · have hEf : e.blk.hdr.eBit = false := by
        cases r with
        | nil => exact absurd rfl hlast
        | cons _ _ => simpa using hE
      have hstep : step c s e = ({ last := some e.blk.hdr, part := [e] }, none) := by
        simp only [step, ha, Bool.not_true, Bool.false_eq_true, reduceIte, accept1, hnd', hcont, hfirst, hEf]
      have hd := dups_ignored c { last := some e.blk.hdr, part := [e] } e.blk rfl ha ds (by
        intro t ht
        simp only [afterT4]
        have := hds t ht
        have : ¬ (t - e.time > c.t4) := by omega
        simp only [this, reduceIte])
      obtain ⟨lh, h1, h1', h2⟩ := contD_run c hdr r { last := some e.blk.hdr, part := [e] } e [] rfl rfl
        (by simpa using hnum) hhdr hlast (by simpa using hrest)
      simp only [hstep]
      rw [run_append, hd]
      refine ⟨lh, h1, h1', ?_⟩
      rw [List.filterMap_cons_none rfl, List.filterMap_append, filterMap_none, List.nil_append, h2]
      simp

/-- Consecutive messages carry different invariant headers (different system bytes). -/
def DistinctConsecutive : List Transmission → Prop
  | [] => True
  | [_] => True
  | a :: b :: r => a.hdr ≠ b.hdr ∧ DistinctConsecutive (b :: r)

theorem transmissions_run (c : Cfg) : ∀ (ts : List Transmission) (s : RState), (∀ t ∈ ts, t.WF c) → DistinctConsecutive ts →
    (∀ h t, s.last = some h → ts.head? = some t → h.msgHeader ≠ t.hdr) →
    (Spec.E4Receive.run c s (ts.flatMap Transmission.events)).2.filterMap id = ts.map Transmission.msg := by
  intro ts
  induction ts with
  | nil => intro s _ _ _; rfl
  | cons t ts ih =>
    intro s hw hd hs
    obtain ⟨lh, h1, h2, h3⟩ := transmission_run c t (hw t (by simp)) s (fun h hh => hs h t hh rfl)
    simp only [List.flatMap_cons, List.map_cons]
    rw [run_append, List.filterMap_append, h3, h1]
    simp only [List.singleton_append, List.cons.injEq, true_and]
    apply ih
    · intro t' ht'; exact hw t' (by simp [ht'])
    · cases ts with
      | nil => trivial
      | cons b r => exact hd.2
    · intro h t' hh ht'
      cases ts with
      | nil => simp at ht'
      | cons b r =>
        simp only [List.head?_cons, Option.some.injEq] at ht'
        subst ht'
        have := Option.some.inj hh
        rw [RState.mk.injEq] at *
        simp_all [DistinctConsecutive]


/-- Arrival schedule of one message's blocks: for each block its arrival instant and the instants of its
    retransmissions. -/
abbrev Arrivals := List (Nat × List Nat)

def Arrivals.times (a : Arrivals) : List Nat := a.flatMap (fun x => x.1 :: x.2)

def onLine : List Block → Arrivals → List (TBlock × List Nat)
  | b :: bs, (t, ds) :: r => (⟨t, b⟩, ds) :: onLine bs r
  | _, _ => []

theorem onLine_map_fst : ∀ (bs : List Block) (a : Arrivals), a.length = bs.length →
    bodyOf ((onLine bs a).map (·.1)) = bodiesOf bs := by
  intro bs
  induction bs with
  | nil => intro a _; cases a <;> rfl
  | cons b bs ih =>
    intro a ha
    cases a with
    | nil => simp at ha
    | cons x r =>
      obtain ⟨t, ds⟩ := x
      have := ih r (by simpa using ha)
      simp only [onLine, List.map_cons, bodyOf, bodiesOf, List.flatten_cons] at *
      rw [this]

theorem contD_onLine (c : Cfg) (hdr : MsgHeader) : ∀ (bs : List Block) (a : Arrivals) (n pt : Nat),
    a.length = bs.length →
    (∀ i (hi : i < bs.length), addressed c bs[i] = true ∧ bs[i].hdr.blockNumber = n + i ∧ bs[i].hdr.msgHeader = hdr ∧
      bs[i].hdr.eBit = decide (i + 1 = bs.length)) →
    (∀ x ∈ pt :: a.times, ∀ y ∈ pt :: a.times, y - x ≤ c.t4) →
    ContD c hdr pt n (onLine bs a) := by
  intro bs
  induction bs with
  | nil => intro a n pt _ _ _; cases a <;> trivial
  | cons b bs ih =>
    intro a n pt ha hb hw
    cases a with
    | nil => simp at ha
    | cons x r =>
      obtain ⟨t, ds⟩ := x
      have h0 := hb 0 (by simp)
      simp only [List.getElem_cons_zero, Nat.add_zero, Nat.zero_add, List.length_cons] at h0
      obtain ⟨a0, n0, m0, e0⟩ := h0
      have htm : t ∈ pt :: Arrivals.times ((t, ds) :: r) := by simp [Arrivals.times]
      refine ⟨a0, n0, m0, hw pt (by simp) t htm, ?_, ?_, ?_⟩
      · rw [e0]
        cases bs with
        | nil => simp [onLine]
        | cons b' bs' =>
          cases r with
          | nil => simp at ha
          | cons y r' => obtain ⟨t', ds'⟩ := y; simp [onLine]
      · intro t' ht'
        exact hw t htm t' (by simp [Arrivals.times, ht'])
      · apply ih r (n + 1) t (by simpa using ha)
        · intro i hi
          have := hb (i + 1) (by simpa using hi)
          simp only [List.getElem_cons_succ, List.length_cons] at this
          obtain ⟨a1, n1, m1, e1⟩ := this
          refine ⟨a1, by omega, m1, ?_⟩
          rw [e1]; simp
        · intro x hx y hy
          apply hw
          · simp only [List.mem_cons, Arrivals.times, List.flatMap_cons, List.mem_append] at hx ⊢
            rcases hx with rfl | hx
            · right; left; left; rfl
            · right; right; exact hx
          · simp only [List.mem_cons, Arrivals.times, List.flatMap_cons, List.mem_append] at hy ⊢
            rcases hy with rfl | hy
            · right; left; left; rfl
            · right; right; exact hy


/-- A message the sender side may put on the line toward receiver `c`. -/
structure Sendable (c : Cfg) (m : OutMsg) : Prop where
  valid : m.hdr.Valid
  len : m.body.length ≤ 244 * 32767
  dev : m.hdr.deviceID = c.deviceID
  dir : m.hdr.rBit = !c.isEquip

/-- What the receiver sees of one sent message: its blocks in order, each followed by its retransmissions. -/
def lineEvents (m : OutMsg) (a : Arrivals) : List TBlock :=
  match splitBody m.body m.hdr with
  | .ok bs => expand (onLine bs a)
  | .error _ => []

/-- The arrival schedule fits the message (one entry per block) and stays inside one T4 window. -/
def Fits (c : Cfg) (m : OutMsg) (a : Arrivals) : Prop :=
  a.length = max 1 ((m.body.length + 243) / 244) ∧ ∀ x ∈ a.times, ∀ y ∈ a.times, y - x ≤ c.t4

theorem wf_onLine (c : Cfg) (m : OutMsg) (a : Arrivals) (bs : List Block) (hs : Sendable c m) (hf : Fits c m a)
    (h2 : bs.length = max 1 ((m.body.length + 243) / 244))
    (h3 : ∀ i (hi : i < bs.length),
      bs[i] = { hdr := buildHeader m.hdr (1 + i) (decide (i + 1 = bs.length)), body := (m.body.drop (244 * i)).take 244 }) :
    (⟨m.hdr, onLine bs a⟩ : Transmission).WF c := by
  have hlen : a.length = bs.length := by rw [h2]; exact hf.1
  cases hbs : bs with
  | nil => rw [hbs] at h2; simp at h2; omega
  | cons b bs' =>
    cases ha : a with
    | nil => rw [ha, hbs] at hlen; simp at hlen
    | cons x r =>
      obtain ⟨t, ds⟩ := x
      simp only [Transmission.WF, onLine]
      have := contD_onLine c m.hdr bs a 1 t hlen (by
        intro i hi
        have hb : 1 + i ≤ 32767 := by
          have : bs.length ≤ 32767 := by rw [h2]; have := hs.len; omega
          omega
        rw [h3 i hi]
        obtain ⟨e1, e2⟩ := buildHeader_blockNumber m.hdr (1 + i) hb (decide (i + 1 = bs.length))
        have e3 := buildHeader_msgHeader m.hdr hs.valid (1 + i) (decide (i + 1 = bs.length))
        refine ⟨?_, e1, e3, e2⟩
        simp only [addressed, Hdr.msgHeader] at *
        have hd : (buildHeader m.hdr (1 + i) (decide (i + 1 = bs.length))).deviceID = m.hdr.deviceID := by
          have := congrArg MsgHeader.deviceID e3; simpa [Hdr.msgHeader] using this
        have hr : (buildHeader m.hdr (1 + i) (decide (i + 1 = bs.length))).rBit = m.hdr.rBit := by
          have := congrArg MsgHeader.rBit e3; simpa [Hdr.msgHeader] using this
        rw [hd, hr, hs.dev, hs.dir]
        cases c.isEquip <;> simp) (by
        intro x hx y hy
        have ht : t ∈ a.times := by rw [ha]; simp [Arrivals.times]
        apply hf.2
        · rcases List.mem_cons.mp hx with rfl | hx
          · exact ht
          · exact hx
        · rcases List.mem_cons.mp hy with rfl | hy
          · exact ht
          · exact hy)
      rw [hbs, ha] at this
      simpa [onLine] using this

theorem flatMap_congr' {α β} (f g : α → List β) : ∀ (l : List α), (∀ x ∈ l, f x = g x) → l.flatMap f = l.flatMap g := by
  intro l
  induction l with
  | nil => intro _; rfl
  | cons a r ih =>
    intro h
    simp only [List.flatMap_cons]
    rw [h a (by simp), ih (fun x hx => h x (by simp [hx]))]

def transmissionOf (x : OutMsg × Arrivals) : Transmission :=
  match splitBody x.1.body x.1.hdr with
  | .ok bs => ⟨x.1.hdr, onLine bs x.2⟩
  | .error _ => ⟨x.1.hdr, []⟩

theorem transmissionOf_spec (c : Cfg) (x : OutMsg × Arrivals) (hs : Sendable c x.1) (hf : Fits c x.1 x.2) :
    (transmissionOf x).WF c ∧ (transmissionOf x).hdr = x.1.hdr ∧ (transmissionOf x).events = lineEvents x.1 x.2 ∧
    (transmissionOf x).msg = ⟨x.1.hdr, x.1.body⟩ := by
  obtain ⟨bs, hb, hl, hg, hbd⟩ := split_ok x.1.body x.1.hdr hs.valid hs.len
  have ht : transmissionOf x = ⟨x.1.hdr, onLine bs x.2⟩ := by simp only [transmissionOf, hb]
  rw [ht]
  refine ⟨wf_onLine c x.1 x.2 bs hs hf hl hg, rfl, ?_, ?_⟩
  · simp only [Transmission.events, lineEvents, hb]
  · simp only [Transmission.msg, onLine_map_fst bs x.2 (by rw [hl]; exact hf.1), hbd]

/-- Consecutive messages have different invariant headers. -/
def DistinctHdrs : List (OutMsg × Arrivals) → Prop
  | [] => True
  | [_] => True
  | a :: b :: r => a.1.hdr ≠ b.1.hdr ∧ DistinctHdrs (b :: r)

theorem distinct_transmissions (c : Cfg) : ∀ (ms : List (OutMsg × Arrivals)),
    (∀ x ∈ ms, Sendable c x.1 ∧ Fits c x.1 x.2) → DistinctHdrs ms → DistinctConsecutive (ms.map transmissionOf) := by
  intro ms
  induction ms with
  | nil => intro _ _; trivial
  | cons a r ih =>
    intro hs hd
    cases r with
    | nil => trivial
    | cons b r' =>
      have ha := (transmissionOf_spec c a (hs a (by simp)).1 (hs a (by simp)).2).2.1
      have hb := (transmissionOf_spec c b (hs b (by simp)).1 (hs b (by simp)).2).2.1
      simp only [List.map_cons, DistinctConsecutive]
      refine ⟨by rw [ha, hb]; exact hd.1, ?_⟩
      have := ih (fun x hx => hs x (by simp [hx])) hd.2
      simpa using this

/-- **Exactly once under retransmission** (reference receiver). -/
theorem exactly_once_spec (c : Cfg) (ms : List (OutMsg × Arrivals))
    (hs : ∀ x ∈ ms, Sendable c x.1 ∧ Fits c x.1 x.2) (hd : DistinctHdrs ms) :
    (receive c (ms.flatMap (fun x => lineEvents x.1 x.2))).filterMap id = ms.map (fun x => ⟨x.1.hdr, x.1.body⟩) := by
  have hev : ms.flatMap (fun x => lineEvents x.1 x.2) = (ms.map transmissionOf).flatMap Transmission.events := by
    rw [List.flatMap_map]
    apply flatMap_congr'
    intro x hx
    exact ((transmissionOf_spec c x (hs x hx).1 (hs x hx).2).2.2.1).symm
  have hmsg : (ms.map transmissionOf).map Transmission.msg = ms.map (fun x => ⟨x.1.hdr, x.1.body⟩) := by
    rw [List.map_map]
    apply List.map_congr_left
    intro x hx
    exact (transmissionOf_spec c x (hs x hx).1 (hs x hx).2).2.2.2
  rw [receive, hev, ← hmsg]
  apply transmissions_run c _ {}
  · intro t ht
    obtain ⟨x, hx, rfl⟩ := List.mem_map.mp ht
    exact (transmissionOf_spec c x (hs x hx).1 (hs x hx).2).1
  · exact distinct_transmissions c ms hs hd
  · intro h t hh; cases hh


theorem filterMap_map_image (l : List (Option Msg)) :
    (l.map (·.map Msg.image)).filterMap id = (l.filterMap id).map Msg.image := by
  induction l with
  | nil => rfl
  | cons x xs ih => cases x <;> simp [ih]

theorem filterMap_deliveredOf (l : List (List AEv)) : l.filterMap deliveredOf = (l.map deliveredOf).filterMap id := by
  induction l with
  | nil => rfl
  | cons x xs ih =>
    cases h : deliveredOf x with
    | none => rw [List.filterMap_cons_none h, List.map_cons, h, List.filterMap_cons_none rfl, ih]
    | some f =>
      rw [List.filterMap_cons_some h, List.map_cons, h, ih]
      exact (List.filterMap_cons_some (f := id) (a := some f) (b := f) rfl).symm

/-- **Exactly once under retransmission** (assembler model). -/
theorem exactly_once_asm (c : Cfg) (ms : List (OutMsg × Arrivals))
    (hs : ∀ x ∈ ms, Sendable c x.1 ∧ Fits c x.1 x.2) (hd : DistinctHdrs ms) :
    ((Asm.init c.isEquip c.deviceID c.t4).run (ms.flatMap (fun x => lineEvents x.1 x.2))).2.filterMap deliveredOf =
      ms.map (fun x => x.1.image) := by
  rw [filterMap_deliveredOf, (run_sim _ (inv_init _ _ _) (rel_init c)).1]
  have := exactly_once_spec c ms hs hd
  simp only [receive] at this
  rw [filterMap_map_image, this, List.map_map]
  rfl


/-! ## Progress of the two-endpoint line -/


theorem acked_of_cur (e : Endpoint) (m : OutMsg) (blk : Block) (rest : List Block) (h : e.cur = some (m, blk :: rest)) :
    e.acked.cur = (if rest = [] then none else some (m, rest)) ∧ e.acked.retry = 0 := by
  cases rest with
  | nil => simp [Endpoint.acked, h]
  | cons b bs => simp [Endpoint.acked, h]

theorem settle_cases (l : Line) :
    (l.settle = ⟨l.master.teardown, l.slave.teardown⟩) ∨
    (l.settle = l ∧ l.master.retry ≤ l.master.limit ∧ l.slave.retry ≤ l.slave.limit) := by
  simp only [Line.settle]
  split
  · left; rfl
  · rename_i h
    right
    exact ⟨rfl, by omega, by omega⟩

theorem step_master (l : Line) (f : Fault) (m : OutMsg) (blk : Block) (rest : List Block)
    (hm : l.master.load.cur = some (m, blk :: rest)) :
    l.step f = (match f.effect with
      | .transferred => Line.settle ⟨l.master.load.acked,
          { l.slave.load.take blk with retry := if l.slave.load.cur.isSome then 0 else l.slave.load.retry }⟩
      | .ackLost => Line.settle ⟨{ l.master.load with retry := l.master.load.retry + 1 },
          { l.slave.load.take blk with retry := if l.slave.load.cur.isSome then 0 else l.slave.load.retry }⟩
      | .notReceived => Line.settle ⟨{ l.master.load with retry := l.master.load.retry + 1 },
          { l.slave.load with retry := if l.slave.load.cur.isSome then l.slave.load.retry + 1 else l.slave.load.retry }⟩) := by
  simp only [Line.step, hm]
  cases f.effect <;> simp only [hm]

/-- One step with the master holding a block: ACKed, or one more retry within the limit, or the link is
    re-established with nothing on the line. -/
theorem master_step_progress (l : Line) (f : Fault) (m : OutMsg) (blk : Block) (rest : List Block)
    (hm : l.master.load.cur = some (m, blk :: rest)) :
    ((l.step f).master.cur = (if rest = [] then none else some (m, rest)) ∧ (l.step f).master.retry = 0) ∨
    ((l.step f).master.cur = l.master.load.cur ∧ (l.step f).master.retry = l.master.load.retry + 1 ∧
      (l.step f).master.retry ≤ l.master.load.limit) ∨
    ((l.step f).master.cur = none ∧ (l.step f).master.retry = 0 ∧ (l.step f).slave.cur = none ∧ (l.step f).slave.retry = 0) := by
  obtain ⟨ha1, ha2⟩ := acked_of_cur l.master.load m blk rest hm
  rw [step_master l f m blk rest hm]
  cases hf : f.effect <;> simp only
  · rcases settle_cases ⟨l.master.load.acked, { l.slave.load.take blk with retry := if l.slave.load.cur.isSome then 0 else l.slave.load.retry }⟩ with h | ⟨h, _, _⟩
    · rw [h]; right; right; exact ⟨rfl, rfl, rfl, rfl⟩
    · rw [h]; left; exact ⟨ha1, ha2⟩
  · rcases settle_cases ⟨{ l.master.load with retry := l.master.load.retry + 1 }, { l.slave.load with retry := if l.slave.load.cur.isSome then l.slave.load.retry + 1 else l.slave.load.retry }⟩ with h | ⟨h, h1, _⟩
    · rw [h]; right; right; exact ⟨rfl, rfl, rfl, rfl⟩
    · rw [h]; right; left; exact ⟨rfl, rfl, h1⟩
  · rcases settle_cases ⟨{ l.master.load with retry := l.master.load.retry + 1 }, { l.slave.load.take blk with retry := if l.slave.load.cur.isSome then 0 else l.slave.load.retry }⟩ with h | ⟨h, h1, _⟩
    · rw [h]; right; right; exact ⟨rfl, rfl, rfl, rfl⟩
    · rw [h]; right; left; exact ⟨rfl, rfl, h1⟩



/-! ## Only complete messages are delivered (declarative soundness of the reference receiver) -/


/-- An in-order list of accepted blocks that can still grow into a message. -/
structure Growing (c : Cfg) (hdr : MsgHeader) (r : List TBlock) : Prop where
  each : ∀ e ∈ r, addressed c e.blk = true ∧ e.blk.hdr.msgHeader = hdr ∧ e.blk.hdr.eBit = false
  num : ∀ i (h : i < r.length), r[i].blk.hdr.blockNumber = i + 1
  gaps : ∀ i (h : i + 1 < r.length), r[i+1].time - r[i].time ≤ c.t4

theorem growing_nil (c : Cfg) (hdr : MsgHeader) : Growing c hdr [] :=
  ⟨fun _ h => by simp at h, fun _ h => by simp at h, fun _ h => by simp at h⟩

theorem getElem_snoc_lt {α} (r : List α) (e : α) (i : Nat) (h : i < r.length) :
    (r ++ [e])[i]'(by simp; omega) = r[i] := List.getElem_append_left h

theorem getElem_snoc_last {α} (r : List α) (e : α) : (r ++ [e])[r.length]'(by simp) = e := by
  simp

/-- Appending the expected next block (not the last one) keeps the run growing. -/
theorem growing_snoc {c : Cfg} {hdr : MsgHeader} {r : List TBlock} (hg : Growing c hdr r) (e : TBlock)
    (ha : addressed c e.blk = true) (hh : e.blk.hdr.msgHeader = hdr) (he : e.blk.hdr.eBit = false)
    (hn : e.blk.hdr.blockNumber = r.length + 1)
    (ht : ∀ (h : 0 < r.length), e.time - (r[r.length - 1]'(by omega)).time ≤ c.t4) : Growing c hdr (r ++ [e]) := by
  refine ⟨?_, ?_, ?_⟩
  · intro x hx
    rcases List.mem_append.mp hx with hx | hx
    · exact hg.each x hx
    · have : x = e := by simpa using hx
      subst this; exact ⟨ha, hh, he⟩
  · intro i hi
    by_cases h : i < r.length
    · rw [getElem_snoc_lt r e i h]; exact hg.num i h
    · have : i = r.length := by simp at hi; omega
      subst this; rw [getElem_snoc_last]; exact hn
  · intro i hi
    have hi' : i + 1 ≤ r.length := by simp at hi; omega
    by_cases h : i + 1 < r.length
    · rw [getElem_snoc_lt r e (i+1) h, getElem_snoc_lt r e i (by omega)]; exact hg.gaps i h
    · have h1 : i + 1 = r.length := by omega
      have e1 : (r ++ [e])[i + 1]'hi = e := by
        have := getElem_snoc_last r e
        simp only [← h1] at this
        exact this
      rw [e1, getElem_snoc_lt r e i (by omega)]
      have := ht (by omega)
      have e2 : r.length - 1 = i := by omega
      simp only [e2] at this
      exact this

/-- Appending the expected next block carrying the E-bit completes a message. -/
theorem growing_complete {c : Cfg} {hdr : MsgHeader} {r : List TBlock} (hg : Growing c hdr r) (e : TBlock)
    (ha : addressed c e.blk = true) (hh : e.blk.hdr.msgHeader = hdr) (he : e.blk.hdr.eBit = true)
    (hn : e.blk.hdr.blockNumber = r.length + 1 ∨ (r = [] ∧ e.blk.hdr.blockNumber = 0))
    (ht : ∀ (h : 0 < r.length), e.time - (r[r.length - 1]'(by omega)).time ≤ c.t4) :
    IsMessage c (r ++ [e]) ⟨hdr, bodyOf (r ++ [e])⟩ := by
  refine ⟨by simp, ?_, ?_, ?_, ?_, ?_, rfl⟩
  · intro x hx
    rcases List.mem_append.mp hx with hx | hx
    · exact (hg.each x hx).1
    · have : x = e := by simpa using hx
      subst this; exact ha
  · rcases hn with hn | ⟨hr, hn⟩
    · left
      intro i hi
      by_cases h : i < r.length
      · rw [getElem_snoc_lt r e i h]; exact hg.num i h
      · have : i = r.length := by simp at hi; omega
        subst this; rw [getElem_snoc_last]; exact hn
    · right
      subst hr
      refine ⟨rfl, ?_⟩
      intro x hx
      have : x = e := by simpa using hx
      subst this; exact hn
  · intro i hi
    by_cases h : i < r.length
    · rw [getElem_snoc_lt r e i h, (hg.each r[i] (List.getElem_mem h)).2.2]
      simp; omega
    · have : i = r.length := by simp at hi; omega
      subst this; rw [getElem_snoc_last, he]; simp
  · intro x hx
    rcases List.mem_append.mp hx with hx | hx
    · exact (hg.each x hx).2.1
    · have : x = e := by simpa using hx
      subst this; exact hh
  · intro i hi
    have hi' : i + 1 ≤ r.length := by simp at hi; omega
    by_cases h : i + 1 < r.length
    · rw [getElem_snoc_lt r e (i+1) h, getElem_snoc_lt r e i (by omega)]; exact hg.gaps i h
    · have h1 : i + 1 = r.length := by omega
      have e1 : (r ++ [e])[i + 1]'hi = e := by
        have := getElem_snoc_last r e
        simp only [← h1] at this
        exact this
      rw [e1, getElem_snoc_lt r e i (by omega)]
      have := ht (by omega)
      have e2 : r.length - 1 = i := by omega
      simp only [e2] at this
      exact this


/-- Invariant of the reference receiver relative to the blocks consumed so far (`pre`). -/
structure SInv (c : Cfg) (s : RState) (pre : List TBlock) : Prop where
  ex : ∃ hdr, Growing c hdr s.part.reverse ∧ (∀ p ps, s.part = p :: ps → p.blk.hdr.msgHeader = hdr)
  sub : List.Sublist s.part.reverse pre

theorem sinv_nil (c : Cfg) (last : Option Hdr) (pre : List TBlock) : SInv c { last := last, part := [] } pre :=
  ⟨⟨{}, growing_nil c _, fun p ps h => by simp at h⟩, by simp⟩

theorem sinv_weaken {c : Cfg} {s : RState} {pre : List TBlock} (h : SInv c s pre) (e : TBlock) : SInv c s (pre ++ [e]) :=
  ⟨h.ex, h.sub.trans (List.sublist_append_left pre [e])⟩

theorem sinv_last {c : Cfg} {l1 : Option Hdr} {part pre : List TBlock} (l2 : Option Hdr)
    (h : SInv c { last := l1, part := part } pre) : SInv c { last := l2, part := part } pre := ⟨h.ex, h.sub⟩

theorem reverse_last (p : TBlock) (ps : List TBlock) (h : (p :: ps).reverse.length - 1 < (p :: ps).reverse.length) :
    (p :: ps).reverse[(p :: ps).reverse.length - 1] = p := by
  simp [List.getElem_reverse]

theorem step_sound {c : Cfg} {s : RState} {pre : List TBlock} (hS : SInv c s pre) (e : TBlock) :
    SInv c (step c s e).1 (pre ++ [e]) ∧
    ∀ m, (step c s e).2 = some m → ∃ run, List.Sublist run (pre ++ [e]) ∧ IsMessage c run m := by
  by_cases hnad : addressed c e.blk = false
  · simp only [step, hnad, Bool.not_false, reduceIte]
    exact ⟨sinv_weaken hS e, fun m h => by cases h⟩
  have had : addressed c e.blk = true := by simpa using hnad
  simp only [step, had, Bool.not_true, Bool.false_eq_true, reduceIte]
  -- after the T4 rule
  have hS1 : SInv c { s with part := afterT4 c s.part e.time } pre ∧
      (∀ p ps, afterT4 c s.part e.time = p :: ps → e.time - p.time ≤ c.t4) := by
    cases hp : s.part with
    | nil => exact ⟨by simpa [afterT4, hp] using sinv_nil c s.last pre, fun p ps h => by simp [afterT4] at h⟩
    | cons p ps =>
      simp only [afterT4]
      by_cases hgt : e.time - p.time > c.t4
      · simp only [hgt, reduceIte]
        exact ⟨sinv_nil c s.last pre, fun p ps h => by simp at h⟩
      · simp only [hgt, reduceIte]
        refine ⟨?_, ?_⟩
        · have : ({ s with part := p :: ps } : RState) = s := by cases s; simp_all
          rw [this]; exact hS
        · intro q qs hq
          simp only [List.cons.injEq] at hq
          obtain ⟨rfl, _⟩ := hq
          omega
  obtain ⟨hS1, hT⟩ := hS1
  generalize hp1 : afterT4 c s.part e.time = part1 at hS1 hT
  by_cases hd : s.last = some e.blk.hdr
  · simp only [accept1, hd, reduceIte]
    exact ⟨sinv_last _ (sinv_weaken hS1 e), fun m h => by cases h⟩
  simp only [accept1, hd, reduceIte]
  obtain ⟨⟨hdr, hg, hhd⟩, hsub⟩ := hS1
  simp only at hg hhd hsub
  by_cases hc : continues part1 e.blk = true
  · -- expected continuation
    cases hpp : part1 with
    | nil => rw [hpp] at hc; simp [continues] at hc
    | cons p ps =>
      rw [hpp] at hc hg hsub
      have hc' : e.blk.hdr.blockNumber = ps.length + 1 + 1 ∧ e.blk.hdr.msgHeader = p.blk.hdr.msgHeader := by
        simpa [continues] using hc
      have hph := hhd p ps hpp
      have hlen : (p :: ps).reverse.length = ps.length + 1 := by simp
      have hn : e.blk.hdr.blockNumber = (p :: ps).reverse.length + 1 := by rw [hlen]; exact hc'.1
      have hh : e.blk.hdr.msgHeader = hdr := by rw [hc'.2]; exact hph
      have ht : ∀ (h : 0 < (p :: ps).reverse.length),
          e.time - ((p :: ps).reverse[(p :: ps).reverse.length - 1]'(by omega)).time ≤ c.t4 := by
        intro h
        rw [reverse_last p ps (by omega)]
        exact hT p ps hpp
      simp only [hc, reduceIte]
      by_cases he : e.blk.hdr.eBit = true
      · simp only [he, reduceIte]
        refine ⟨sinv_nil c _ _, ?_⟩
        intro m hm
        have hm' := (Option.some.inj hm).symm
        subst hm'
        refine ⟨(p :: ps).reverse ++ [e], hsub.append (List.Sublist.refl _), ?_⟩
        have := growing_complete hg e had hh he (Or.inl hn) ht
        rw [hh]
        simpa [List.reverse_cons] using this
      · have he' : e.blk.hdr.eBit = false := by simpa using he
        simp only [he', Bool.false_eq_true, reduceIte]
        refine ⟨⟨⟨hdr, ?_, ?_⟩, ?_⟩, fun m h => by cases h⟩
        · have := growing_snoc hg e had hh he' hn ht
          simpa [List.reverse_cons] using this
        · intro q qs hq
          simp only [List.cons.injEq] at hq
          obtain ⟨rfl, _⟩ := hq
          exact hh
        · have := hsub.append (List.Sublist.refl [e])
          simpa [List.reverse_cons] using this
  · have hc' : continues part1 e.blk = false := by simpa using hc
    simp only [hc', Bool.false_eq_true, reduceIte]
    by_cases hf : firstBlock e.blk = true
    · have hf' : e.blk.hdr.blockNumber = 1 ∨ (e.blk.hdr.blockNumber = 0 ∧ e.blk.hdr.eBit = true) := by
        simpa [firstBlock] using hf
      simp only [hf, reduceIte]
      by_cases he : e.blk.hdr.eBit = true
      · simp only [he, reduceIte]
        refine ⟨sinv_nil c _ _, ?_⟩
        intro m hm
        have hm' := (Option.some.inj hm).symm
        subst hm'
        refine ⟨[e], List.sublist_append_right pre [e], ?_⟩
        have hn : e.blk.hdr.blockNumber = ([] : List TBlock).length + 1 ∨ (([] : List TBlock) = [] ∧ e.blk.hdr.blockNumber = 0) := by
          rcases hf' with h | h
          · left; simpa using h
          · right; exact ⟨rfl, h.1⟩
        have := growing_complete (growing_nil c e.blk.hdr.msgHeader) e had rfl he hn (fun h => by simp at h)
        simpa using this
      · have he' : e.blk.hdr.eBit = false := by simpa using he
        have hn : e.blk.hdr.blockNumber = 1 := by
          rcases hf' with h | h
          · exact h
          · rw [h.2] at he'; cases he'
        simp only [he', Bool.false_eq_true, reduceIte]
        refine ⟨⟨⟨e.blk.hdr.msgHeader, ?_, ?_⟩, ?_⟩, fun m h => by cases h⟩
        · have := growing_snoc (growing_nil c e.blk.hdr.msgHeader) e had rfl he' (by simpa using hn) (fun h => by simp at h)
          simpa using this
        · intro q qs hq
          simp only [List.cons.injEq] at hq
          obtain ⟨rfl, _⟩ := hq
          rfl
        · simpa using List.sublist_append_right pre [e]
    · simp only [hf, Bool.false_eq_true, reduceIte]
      exact ⟨sinv_nil c _ _, fun m h => by cases h⟩

/-- **Only complete messages are delivered** (reference receiver): every delivery is the message of a run
    of blocks that really arrived, in that order, before or at that point, and that run is a complete
    message in the declarative sense. -/
theorem run_sound (c : Cfg) : ∀ (evs pre : List TBlock) (s : RState), SInv c s pre → ∀ (j : Nat) (m : Msg),
    (Spec.E4Receive.run c s evs).2[j]? = some (some m) →
    ∃ run, List.Sublist run (pre ++ evs.take (j + 1)) ∧ IsMessage c run m := by
  intro evs
  induction evs with
  | nil => intro pre s _ j m h; simp [Spec.E4Receive.run] at h
  | cons e es ih =>
    intro pre s hS j m h
    obtain ⟨h1, h2⟩ := step_sound hS e
    cases j with
    | zero =>
      simp only [Spec.E4Receive.run, List.getElem?_cons_zero, Option.some.injEq] at h
      obtain ⟨run, hr1, hr2⟩ := h2 m h
      exact ⟨run, by simpa using hr1, hr2⟩
    | succ k =>
      simp only [Spec.E4Receive.run, List.getElem?_cons_succ] at h
      obtain ⟨run, hr1, hr2⟩ := ih (pre ++ [e]) _ h1 k m h
      refine ⟨run, ?_, hr2⟩
      simpa [List.take_succ_cons, List.append_assoc] using hr1


end GoSecs.Secs1
