/-
  Helper lemmas for the secs2 codec model (used by Props/C01, C02, …).
-/
import GoSecs.Model.Secs2

namespace GoSecs.Secs2

theorem lenCount_pos (n : Nat) : 0 < lenCount n := by
  unfold lenCount; split
  · omega
  · split <;> omega

theorem lenCount_le3 (n : Nat) : lenCount n ≤ 3 := by
  unfold lenCount; split
  · omega
  · split <;> omega

theorem lt_pow_lenCount (n : Nat) (h : n ≤ maxByteSize) : n < 256 ^ lenCount n := by
  unfold lenCount maxByteSize at *
  split
  · omega
  · split <;> omega

theorem header_byte_toNat (fc n : Nat) (hfc : fc < 64) :
    (UInt8.ofNat (fc * 4 + lenCount n)).toNat = fc * 4 + lenCount n := by
  have := lenCount_le3 n
  simp [UInt8.toNat_ofNat']
  omega

theorem beVal_header_len (n : Nat) (h : n ≤ maxByteSize) :
    beVal (beBytes (lenCount n) n) = n := by
  rw [beVal_beBytes]; exact Nat.mod_eq_of_lt (lt_pow_lenCount n h)

/-- What `dec` does after reading a well-formed header. -/
theorem dec_header (fuel d fc n : Nat) (body : Bytes) (hfc : fc < 64) (hn : n ≤ maxByteSize) :
    dec (fuel+1) d (header fc n ++ body) =
      if fc = fcList then
        if d + 1 > maxListDepth then .error .depth
        else if lenLt body (n * 2) then .error .count
        else match decL fuel (d + 1) n body with
          | .error e => .error e
          | .ok (cs, r3) => .ok (.list cs, r3)
      else decLeaf fc n body := by
  have hb := header_byte_toNat fc n hfc
  have hp := lenCount_pos n
  have h3 := lenCount_le3 n
  have hdiv : (fc * 4 + lenCount n) / 4 = fc := by omega
  have hmod : (fc * 4 + lenCount n) % 4 = lenCount n := by omega
  simp only [header, List.cons_append, dec, hb, hdiv, hmod]
  have hk : lenCount n ≠ 0 := by omega
  have htake : (beBytes (lenCount n) n ++ body).take (lenCount n) = beBytes (lenCount n) n := by
    simp
  have hdrop : (beBytes (lenCount n) n ++ body).drop (lenCount n) = body := by
    simp
  have hlen : lenLt (beBytes (lenCount n) n ++ body) (lenCount n) = false := by
    rw [lenLt_false_iff]; simp
  simp only [hk, if_false, hlen, htake, hdrop, beVal_header_len n hn, Bool.false_eq_true]
  rfl

end GoSecs.Secs2

namespace GoSecs.Secs2

/-! ### payload lemmas -/

@[simp] theorem encNats_length (k : Nat) (vs : List Nat) : (encNats k vs).length = vs.length * k := by
  induction vs with
  | nil => simp [encNats]
  | cons v vs ih => simp [encNats, ih, Nat.add_mul]; omega

@[simp] theorem encInts_length (k : Nat) (vs : List Int) : (encInts k vs).length = vs.length * k := by
  induction vs with
  | nil => simp [encInts]
  | cons v vs ih => simp [encInts, ih, Nat.add_mul]; omega

theorem decNats_encNats (k : Nat) (vs : List Nat) (h : ∀ v ∈ vs, v < 256 ^ k) :
    decNats k vs.length (encNats k vs) = vs := by
  induction vs with
  | nil => simp [decNats]
  | cons v vs ih =>
    have hv : v < 256 ^ k := h v (by simp)
    have ih' := ih (fun x hx => h x (by simp [hx]))
    simp [decNats, encNats, beVal_beBytes, Nat.mod_eq_of_lt hv, ih']

theorem encInts_eq (k : Nat) (vs : List Int) : encInts k vs = encNats k (vs.map (intToU k)) := by
  induction vs with
  | nil => rfl
  | cons v vs ih => simp [encInts, encNats, ih]

theorem intToU_lt (k : Nat) (v : Int) : intToU k v < 256 ^ k := by
  unfold intToU
  have hp : (0 : Int) < ((256 ^ k : Nat) : Int) := by
    have : 0 < 256 ^ k := Nat.pow_pos (by omega)
    omega
  have h1 := Int.emod_lt_of_pos v hp
  have h2 := Int.emod_nonneg v (Int.ne_of_gt hp)
  omega

theorem intOfU_intToU (k : Nat) (hk : 0 < k) (v : Int) (hlo : intLo k ≤ v) (hhi : v ≤ intHi k) :
    intOfU k (intToU k v) = v := by
  unfold intOfU intToU intLo intHi at *
  have hp : 0 < 256 ^ k := Nat.pow_pos (by omega)
  have heven : 256 ^ k = 2 * (256 ^ k / 2) := by
    obtain ⟨j, rfl⟩ : ∃ j, k = j + 1 := ⟨k - 1, by omega⟩
    rw [Nat.pow_succ]; omega
  generalize 256 ^ k = M at *
  by_cases hv : 0 ≤ v
  · have : v % (M : Int) = v := Int.emod_eq_of_lt hv (by omega)
    rw [this]
    have hvn : ((v.toNat : Nat) : Int) = v := Int.toNat_of_nonneg hv
    split <;> omega
  · have h1 : v % (M : Int) = v + M := by
      have : (v + M) % (M : Int) = v + M := Int.emod_eq_of_lt (by omega) (by omega)
      rw [← this]; simp
    rw [h1]
    have hvn : (((v + (M:Int)).toNat : Nat) : Int) = v + M := Int.toNat_of_nonneg (by omega)
    split <;> omega

theorem map_intOfU_intToU (k : Nat) (hk : 0 < k) (vs : List Int)
    (h : ∀ v ∈ vs, intLo k ≤ v ∧ v ≤ intHi k) : (vs.map (intToU k)).map (intOfU k) = vs := by
  induction vs with
  | nil => rfl
  | cons v vs ih =>
    have hv := h v (by simp)
    simp [intOfU_intToU k hk v hv.1 hv.2, ih (fun x hx => h x (by simp [hx]))]

theorem map_boolByte_ne_zero (vs : List Bool) : (vs.map boolByte).map (fun b => b != 0) = vs := by
  induction vs with
  | nil => rfl
  | cons v vs ih => cases v <;> simp [boolByte, ih]

theorem Width.bytes_pos (w : Width) : 0 < w.bytes := by cases w <;> simp [Width.bytes]
theorem FWidth.bytes_pos (w : FWidth) : 0 < w.bytes := by cases w <;> simp [FWidth.bytes]

/-! ### leaf decode of leaf encode -/

theorem take_drop_payload (n : Nat) (p rest : Bytes) (hp : p.length = n) :
    (p ++ rest).take n = p ∧ (p ++ rest).drop n = rest ∧ lenLt (p ++ rest) n = false := by
  subst hp; refine ⟨by simp, by simp, ?_⟩; rw [lenLt_false_iff]; simp

theorem decLeaf_binary (bs rest : Bytes) :
    decLeaf fcBinary bs.length (bs ++ rest) = .ok (.binary bs, rest) := by
  obtain ⟨h1, h2, h3⟩ := take_drop_payload bs.length bs rest rfl
  simp only [decLeaf, fcBinary, fcASCII, fcJIS8, h1, h2, h3, Nat.reduceEqDiff, reduceIte,
    Bool.false_eq_true]
theorem decLeaf_ascii (bs rest : Bytes) :
    decLeaf fcASCII bs.length (bs ++ rest) = .ok (.ascii bs, rest) := by
  obtain ⟨h1, h2, h3⟩ := take_drop_payload bs.length bs rest rfl
  simp only [decLeaf, fcASCII, h1, h2, h3, reduceIte, Bool.false_eq_true]
theorem decLeaf_jis8 (bs rest : Bytes) :
    decLeaf fcJIS8 bs.length (bs ++ rest) = .ok (.jis8 bs, rest) := by
  obtain ⟨h1, h2, h3⟩ := take_drop_payload bs.length bs rest rfl
  simp only [decLeaf, fcASCII, fcJIS8, h1, h2, h3, Nat.reduceEqDiff, reduceIte, Bool.false_eq_true]
theorem decLeaf_boolean (vs : List Bool) (rest : Bytes) :
    decLeaf fcBoolean vs.length (vs.map boolByte ++ rest) = .ok (.boolean vs, rest) := by
  obtain ⟨h1, h2, h3⟩ := take_drop_payload vs.length (vs.map boolByte) rest (by simp)
  simp only [decLeaf, fcBoolean, fcASCII, fcJIS8, fcBinary, h1, h2, h3, map_boolByte_ne_zero,
    Nat.reduceEqDiff, reduceIte, Bool.false_eq_true]
theorem decLeaf_lstr (lsh : Nat) (hl : lsh < 65536) (bs rest : Bytes) :
    decLeaf fcLStr (bs.length + 2) ((beBytes 2 lsh ++ bs) ++ rest) = .ok (.lstr lsh bs, rest) := by
  obtain ⟨h1, h2, h3⟩ := take_drop_payload (bs.length + 2) (beBytes 2 lsh ++ bs) rest (by simp; omega)
  have h0 : ((beBytes 2 lsh ++ bs) ++ rest).take 2 = beBytes 2 lsh := by simp
  have h4 : (beBytes 2 lsh ++ bs).drop 2 = bs := by simp
  have h5 : beVal (beBytes 2 lsh) = lsh := by rw [beVal_beBytes]; exact Nat.mod_eq_of_lt (by omega)
  have h6 : ¬ bs.length + 2 < 2 := by omega
  simp only [decLeaf, fcLStr, fcBoolean, fcASCII, fcJIS8, fcBinary, h0, h1, h2, h3, h4, h5, h6,
    Nat.reduceEqDiff, reduceIte, Bool.false_eq_true]

theorem decLeaf_uint (w : Width) (vs : List Nat) (h : ∀ v ∈ vs, v < 256 ^ w.bytes) (rest : Bytes) :
    decLeaf (fcUint w) (vs.length * w.bytes) (encNats w.bytes vs ++ rest) = .ok (.uint w vs, rest) := by
  have hp := w.bytes_pos
  obtain ⟨h1, h2, h3⟩ := take_drop_payload (vs.length * w.bytes) (encNats w.bytes vs) rest (by simp)
  have h4 : vs.length * w.bytes / w.bytes = vs.length := Nat.mul_div_cancel _ hp
  have h5 : vs.length * w.bytes % w.bytes = 0 := Nat.mul_mod_left _ _
  have h6 := decNats_encNats w.bytes vs h
  cases w <;>
    simp only [decLeaf, fcUint, fcLStr, fcBoolean, fcASCII, fcJIS8, fcBinary, widthOfIntFc,
      widthOfUintFc, h1, h2, h3, h4, h5, h6, Nat.reduceEqDiff, reduceIte, ne_eq, not_true_eq_false, Bool.false_eq_true]

theorem decLeaf_float (w : FWidth) (vs : List Nat) (h : ∀ v ∈ vs, v < 256 ^ w.bytes) (rest : Bytes) :
    decLeaf (fcFloat w) (vs.length * w.bytes) (encNats w.bytes vs ++ rest) = .ok (.float w vs, rest) := by
  have hp := w.bytes_pos
  obtain ⟨h1, h2, h3⟩ := take_drop_payload (vs.length * w.bytes) (encNats w.bytes vs) rest (by simp)
  have h4 : vs.length * w.bytes / w.bytes = vs.length := Nat.mul_div_cancel _ hp
  have h5 : vs.length * w.bytes % w.bytes = 0 := Nat.mul_mod_left _ _
  have h6 := decNats_encNats w.bytes vs h
  cases w <;>
    simp only [decLeaf, fcFloat, fcLStr, fcBoolean, fcASCII, fcJIS8, fcBinary, widthOfIntFc,
      widthOfUintFc, widthOfFloatFc, h1, h2, h3, h4, h5, h6, Nat.reduceEqDiff, reduceIte, ne_eq,
      not_true_eq_false, Bool.false_eq_true]

theorem decLeaf_int (w : Width) (vs : List Int)
    (h : ∀ v ∈ vs, intLo w.bytes ≤ v ∧ v ≤ intHi w.bytes) (rest : Bytes) :
    decLeaf (fcInt w) (vs.length * w.bytes) (encInts w.bytes vs ++ rest) = .ok (.int w vs, rest) := by
  have hp := w.bytes_pos
  rw [encInts_eq]
  have hl : (vs.map (intToU w.bytes)).length = vs.length := by simp
  obtain ⟨h1, h2, h3⟩ := take_drop_payload (vs.length * w.bytes)
    (encNats w.bytes (vs.map (intToU w.bytes))) rest (by simp)
  have h4 : vs.length * w.bytes / w.bytes = vs.length := Nat.mul_div_cancel _ hp
  have h5 : vs.length * w.bytes % w.bytes = 0 := Nat.mul_mod_left _ _
  have h6 : decNats w.bytes vs.length (encNats w.bytes (vs.map (intToU w.bytes))) = vs.map (intToU w.bytes) := by
    have := decNats_encNats w.bytes (vs.map (intToU w.bytes))
      (by intro v hv; simp at hv; obtain ⟨a, _, rfl⟩ := hv; exact intToU_lt _ _)
    simpa [hl] using this
  have h7 := map_intOfU_intToU w.bytes hp vs h
  cases w <;>
    simp only [decLeaf, fcInt, fcLStr, fcBoolean, fcASCII, fcJIS8, fcBinary, widthOfIntFc,
      h1, h2, h3, h4, h5, h6, h7, Nat.reduceEqDiff, reduceIte, ne_eq, not_true_eq_false, Bool.false_eq_true]

end GoSecs.Secs2

namespace GoSecs.Secs2

/-! ### fuel measure and the round trip -/
mutual
def sz : Item → Nat
  | .list cs => 1 + szL cs
  | _ => 1
def szL : List Item → Nat
  | [] => 1
  | c :: cs => 1 + sz c + szL cs
end

theorem header_length (fc n : Nat) : (header fc n).length = 1 + lenCount n := by
  simp [header]; omega

theorem header_length_ge2 (fc n : Nat) : 2 ≤ (header fc n).length := by
  have := lenCount_pos n
  rw [header_length]; omega

theorem enc_length_ge2 : ∀ (it : Item), WF it → 2 ≤ (enc it).length := by
  intro it h
  cases it with
  | empty => simp [WF] at h
  | list cs => simp only [enc, List.length_append]; have := header_length_ge2 fcList cs.length; omega
  | binary bs => simp only [enc, List.length_append]; have := header_length_ge2 fcBinary bs.length; omega
  | boolean vs => simp only [enc, List.length_append]; have := header_length_ge2 fcBoolean vs.length; omega
  | ascii bs => simp only [enc, List.length_append]; have := header_length_ge2 fcASCII bs.length; omega
  | jis8 bs => simp only [enc, List.length_append]; have := header_length_ge2 fcJIS8 bs.length; omega
  | lstr l bs => simp only [enc, List.length_append]; have := header_length_ge2 fcLStr (bs.length + 2); omega
  | int w vs => simp only [enc, List.length_append]; have := header_length_ge2 (fcInt w) (vs.length * w.bytes); omega
  | uint w vs => simp only [enc, List.length_append]; have := header_length_ge2 (fcUint w) (vs.length * w.bytes); omega
  | float w vs => simp only [enc, List.length_append]; have := header_length_ge2 (fcFloat w) (vs.length * w.bytes); omega

theorem encL_length_ge : ∀ (cs : List Item), WFL cs → 2 * cs.length ≤ (encL cs).length
  | [], _ => by simp [encL]
  | c :: cs, h => by
    have h1 := enc_length_ge2 c h.1
    have h2 := encL_length_ge cs h.2
    simp only [encL, List.length_append, List.length_cons]; omega

theorem fcInt_lt (w : Width) : fcInt w < 64 ∧ fcInt w ≠ fcList := by cases w <;> simp [fcInt, fcList]
theorem fcUint_lt (w : Width) : fcUint w < 64 ∧ fcUint w ≠ fcList := by cases w <;> simp [fcUint, fcList]
theorem fcFloat_lt (w : FWidth) : fcFloat w < 64 ∧ fcFloat w ≠ fcList := by cases w <;> simp [fcFloat, fcList]

mutual
/-- Decoding the encoding of a well-formed item (followed by anything) returns that item and
    leaves the rest, for every fuel above the item's size and every depth that keeps the item
    within `MaxListDepth`. -/
theorem dec_enc : ∀ (it : Item), WF it → ∀ (fuel d : Nat) (rest : Bytes),
    sz it ≤ fuel → d + depth it ≤ maxListDepth → dec fuel d (enc it ++ rest) = .ok (it, rest)
  | .empty, h, _, _, _, _, _ => by simp [WF] at h
  | .list cs, h, fuel, d, rest, hf, hd => by
    obtain ⟨f, rfl⟩ : ∃ f, fuel = f + 1 := ⟨fuel - 1, by simp [sz] at hf; omega⟩
    simp only [enc, List.append_assoc]
    rw [dec_header f d fcList cs.length _ (by simp [fcList]) h.1]
    have hlen := encL_length_ge cs h.2
    simp only [depth] at hd
    have h1 : ¬ d + 1 > maxListDepth := by omega
    have h2 : lenLt (encL cs ++ rest) (cs.length * 2) = false := by
      rw [lenLt_false_iff, List.length_append]; omega
    have h3 := decL_encL cs h.2 f (d + 1) rest (by simp [sz] at hf; omega) (by omega)
    simp only [h1, h2, h3, if_true, if_false, Bool.false_eq_true]
  | .binary bs, h, fuel, d, rest, hf, _ => by
    obtain ⟨f, rfl⟩ : ∃ f, fuel = f + 1 := ⟨fuel - 1, by simp [sz] at hf; omega⟩
    simp only [enc, List.append_assoc]
    rw [dec_header f d fcBinary bs.length _ (by simp [fcBinary]) h]
    simp only [fcBinary, fcList, Nat.reduceEqDiff, if_false]
    exact decLeaf_binary bs rest
  | .boolean vs, h, fuel, d, rest, hf, _ => by
    obtain ⟨f, rfl⟩ : ∃ f, fuel = f + 1 := ⟨fuel - 1, by simp [sz] at hf; omega⟩
    simp only [enc, List.append_assoc]
    rw [dec_header f d fcBoolean vs.length _ (by simp [fcBoolean]) h]
    simp only [fcBoolean, fcList, Nat.reduceEqDiff, if_false]
    exact decLeaf_boolean vs rest
  | .ascii bs, h, fuel, d, rest, hf, _ => by
    obtain ⟨f, rfl⟩ : ∃ f, fuel = f + 1 := ⟨fuel - 1, by simp [sz] at hf; omega⟩
    simp only [enc, List.append_assoc]
    rw [dec_header f d fcASCII bs.length _ (by simp [fcASCII]) h]
    simp only [fcASCII, fcList, Nat.reduceEqDiff, if_false]
    exact decLeaf_ascii bs rest
  | .jis8 bs, h, fuel, d, rest, hf, _ => by
    obtain ⟨f, rfl⟩ : ∃ f, fuel = f + 1 := ⟨fuel - 1, by simp [sz] at hf; omega⟩
    simp only [enc, List.append_assoc]
    rw [dec_header f d fcJIS8 bs.length _ (by simp [fcJIS8]) h]
    simp only [fcJIS8, fcList, Nat.reduceEqDiff, if_false]
    exact decLeaf_jis8 bs rest
  | .lstr lsh bs, h, fuel, d, rest, hf, _ => by
    obtain ⟨f, rfl⟩ : ∃ f, fuel = f + 1 := ⟨fuel - 1, by simp [sz] at hf; omega⟩
    simp only [enc]
    rw [List.append_assoc, dec_header f d fcLStr (bs.length + 2) _ (by simp [fcLStr]) h.2]
    simp only [fcLStr, fcList, Nat.reduceEqDiff, if_false]
    exact decLeaf_lstr lsh h.1 bs rest
  | .int w vs, h, fuel, d, rest, hf, _ => by
    obtain ⟨f, rfl⟩ : ∃ f, fuel = f + 1 := ⟨fuel - 1, by simp [sz] at hf; omega⟩
    simp only [enc, List.append_assoc]
    rw [dec_header f d (fcInt w) _ _ (fcInt_lt w).1 h.1]
    simp only [(fcInt_lt w).2, if_false]
    exact decLeaf_int w vs h.2 rest
  | .uint w vs, h, fuel, d, rest, hf, _ => by
    obtain ⟨f, rfl⟩ : ∃ f, fuel = f + 1 := ⟨fuel - 1, by simp [sz] at hf; omega⟩
    simp only [enc, List.append_assoc]
    rw [dec_header f d (fcUint w) _ _ (fcUint_lt w).1 h.1]
    simp only [(fcUint_lt w).2, if_false]
    exact decLeaf_uint w vs h.2 rest
  | .float w vs, h, fuel, d, rest, hf, _ => by
    obtain ⟨f, rfl⟩ : ∃ f, fuel = f + 1 := ⟨fuel - 1, by simp [sz] at hf; omega⟩
    simp only [enc, List.append_assoc]
    rw [dec_header f d (fcFloat w) _ _ (fcFloat_lt w).1 h.1]
    simp only [(fcFloat_lt w).2, if_false]
    exact decLeaf_float w vs h.2 rest
theorem decL_encL : ∀ (cs : List Item), WFL cs → ∀ (fuel d : Nat) (rest : Bytes),
    szL cs ≤ fuel → d + depthL cs ≤ maxListDepth →
    decL fuel d cs.length (encL cs ++ rest) = .ok (cs, rest)
  | [], _, fuel, d, rest, hf, _ => by
    obtain ⟨f, rfl⟩ : ∃ f, fuel = f + 1 := ⟨fuel - 1, by simp [szL] at hf; omega⟩
    simp [decL, encL]
  | c :: cs, h, fuel, d, rest, hf, hd => by
    obtain ⟨f, rfl⟩ : ∃ f, fuel = f + 1 := ⟨fuel - 1, by simp [szL] at hf; omega⟩
    simp only [szL] at hf
    simp only [depthL] at hd
    have h1 := dec_enc c h.1 f d (encL cs ++ rest) (by omega) (by omega)
    have h2 := decL_encL cs h.2 f d rest (by omega) (by omega)
    simp only [encL, List.length_cons, List.append_assoc, decL, h1, h2]
end

end GoSecs.Secs2

namespace GoSecs.Secs2

mutual
theorem sz_le : ∀ (it : Item), WF it → sz it + 2 ≤ 2 * (enc it).length
  | .empty, h => by simp [WF] at h
  | .list cs, h => by
    have := szL_le cs h.2
    have := header_length_ge2 fcList cs.length
    simp only [sz, enc, List.length_append]; omega
  | .binary bs, _ => by have := header_length_ge2 fcBinary bs.length; simp only [sz, enc, List.length_append]; omega
  | .boolean bs, _ => by have := header_length_ge2 fcBoolean bs.length; simp only [sz, enc, List.length_append]; omega
  | .ascii bs, _ => by have := header_length_ge2 fcASCII bs.length; simp only [sz, enc, List.length_append]; omega
  | .jis8 bs, _ => by have := header_length_ge2 fcJIS8 bs.length; simp only [sz, enc, List.length_append]; omega
  | .lstr _ bs, _ => by have := header_length_ge2 fcLStr (bs.length + 2); simp only [sz, enc, List.length_append]; omega
  | .int w vs, _ => by have := header_length_ge2 (fcInt w) (vs.length * w.bytes); simp only [sz, enc, List.length_append]; omega
  | .uint w vs, _ => by have := header_length_ge2 (fcUint w) (vs.length * w.bytes); simp only [sz, enc, List.length_append]; omega
  | .float w vs, _ => by have := header_length_ge2 (fcFloat w) (vs.length * w.bytes); simp only [sz, enc, List.length_append]; omega
theorem szL_le : ∀ (cs : List Item), WFL cs → szL cs ≤ 2 * (encL cs).length + 1
  | [], _ => by simp [szL]
  | c :: cs, h => by
    have := sz_le c h.1
    have := szL_le cs h.2
    simp only [szL, encL, List.length_append]; omega
end

mutual
theorem enc_length : ∀ (it : Item), (enc it).length = encodedLen it
  | .empty => rfl
  | .list cs => by simp only [enc, encodedLen, List.length_append, header_length, headerLen, encL_length cs]
  | .binary bs => by simp only [enc, encodedLen, List.length_append, header_length, headerLen]
  | .boolean bs => by simp only [enc, encodedLen, List.length_append, header_length, headerLen, List.length_map]
  | .ascii bs => by simp only [enc, encodedLen, List.length_append, header_length, headerLen]
  | .jis8 bs => by simp only [enc, encodedLen, List.length_append, header_length, headerLen]
  | .lstr _ bs => by simp only [enc, encodedLen, List.length_append, header_length, headerLen, beBytes_length]; omega
  | .int w vs => by simp only [enc, encodedLen, List.length_append, header_length, headerLen, encInts_length]
  | .uint w vs => by simp only [enc, encodedLen, List.length_append, header_length, headerLen, encNats_length]
  | .float w vs => by simp only [enc, encodedLen, List.length_append, header_length, headerLen, encNats_length]
theorem encL_length : ∀ (cs : List Item), (encL cs).length = encodedLenL cs
  | [] => rfl
  | c :: cs => by simp only [encL, encodedLenL, List.length_append, enc_length c, encL_length cs]
end

theorem floatBitsEq_refl (w : FWidth) (a : Nat) : floatBitsEq w a a = true := by
  cases w <;> simp [floatBitsEq]

theorem listAll2_refl {α} (f : α → α → Bool) (hf : ∀ a, f a a = true) : ∀ l, listAll2 f l l = true
  | [] => rfl
  | a :: l => by simp [listAll2, hf a, listAll2_refl f hf l]

mutual
theorem equalItem_refl : ∀ (it : Item), equalItem it it = true
  | .empty => rfl
  | .list cs => by simp only [equalItem, equalItems_refl cs]
  | .binary _ => by simp [equalItem]
  | .boolean _ => by simp [equalItem]
  | .ascii _ => by simp [equalItem]
  | .jis8 _ => by simp [equalItem]
  | .lstr _ _ => by simp [equalItem]
  | .int _ _ => by simp [equalItem]
  | .uint _ _ => by simp [equalItem]
  | .float w vs => by simp [equalItem, listAll2_refl _ (floatBitsEq_refl w)]
theorem equalItems_refl : ∀ (cs : List Item), equalItems cs cs = true
  | [] => rfl
  | c :: cs => by simp only [equalItems, equalItem_refl c, equalItems_refl cs, Bool.and_self]
end

/-- Top-level `Decode` on an encoding followed by arbitrary trailing bytes. -/
theorem decode_enc (it : Item) (h : WF it) (hd : depth it ≤ maxListDepth) (rest : Bytes) :
    decode (enc it ++ rest) = .ok (it, (enc it).length) := by
  have h2 := enc_length_ge2 it h
  have hs := sz_le it h
  have hne : enc it ++ rest ≠ [] := by
    intro e; have := congrArg List.length e
    rw [List.length_append, List.length_nil] at this; omega
  unfold decode
  split
  · contradiction
  · have hfu : sz it ≤ fuelFor (enc it ++ rest) := by
      simp only [fuelFor, List.length_append]; omega
    rw [dec_enc it h _ 0 rest hfu (by omega)]
    simp

end GoSecs.Secs2
