/-
  Helper lemmas for the lifecycle model (C10, C11).  Core Lean only.
-/
import GoSecs.Model.Lifecycle

namespace GoSecs.Lifecycle

/-! ## Backoff arithmetic -/

theorem sleepFor_le (d c : Int) : sleepFor d c ≤ c := by unfold sleepFor; split <;> omega
theorem sleepFor_le_delay (d c : Int) : sleepFor d c ≤ d := by unfold sleepFor; split <;> omega
theorem sleepFor_eq_min (d c : Int) : sleepFor d c = min d c := by unfold sleepFor; omega
theorem sleepFor_pos (d c : Int) (hd : 0 < d) (hc : 0 < c) : 0 < sleepFor d c := by
  unfold sleepFor; split <;> omega
theorem clampNext_le (s c : Int) : clampNext s c ≤ c := by unfold clampNext; split <;> omega
theorem clampNext_pos (s c : Int) (h : 0 < c) : 0 < clampNext s c := by unfold clampNext; split <;> omega
theorem clampNext_of_range (s c : Int) (h0 : 0 < s) (h1 : s ≤ c) : clampNext s c = s := by
  unfold clampNext; split <;> omega
theorem clampNext_of_out (s c : Int) (h : s ≤ 0 ∨ s > c) : clampNext s c = c := by
  unfold clampNext; split <;> omega

/-- The stated hypothesis on the float product of iteration `k`: it did not shrink the delay, or it is
    out of range (non-positive after NaN/Inf/overflow conversion, or above the ceiling). -/
def ScaledOK (initial : Int) (scaled ceil : Nat → Int) (k : Nat) : Prop :=
  scaled k ≥ delayAt initial scaled ceil k ∨ scaled k ≤ 0 ∨ scaled k > ceil k

theorem delay_succ_ge (initial : Int) (scaled ceil : Nat → Int) (k : Nat)
    (h : ScaledOK initial scaled ceil k) :
    sleepAt initial scaled ceil k ≤ delayAt initial scaled ceil (k+1) := by
  unfold ScaledOK at h
  show sleepFor (delayAt initial scaled ceil k) (ceil k) ≤ clampNext (scaled k) (ceil k)
  generalize delayAt initial scaled ceil k = d at h ⊢
  unfold sleepFor clampNext
  split <;> split <;> omega

theorem delayAt_pos (initial : Int) (scaled ceil : Nat → Int) (hi : 0 < initial) (hc : ∀ k, 0 < ceil k)
    (k : Nat) : 0 < delayAt initial scaled ceil k := by
  cases k with
  | zero => exact hi
  | succ k => exact clampNext_pos _ _ (hc k)

theorem backoffRun_eq (initial : Int) (scaled ceil : Nat → Int) (n : Nat) (k : Nat) :
    backoffRun (delayAt initial scaled ceil k) ((List.range' k n).map (fun j => (scaled j, ceil j)))
      = (List.range' k n).map (sleepAt initial scaled ceil) := by
  induction n generalizing k with
  | zero => rfl
  | succ n ih =>
    simp only [List.range'_succ, List.map_cons, backoffRun]
    have := ih (k+1)
    simp only [delayAt] at this
    rw [this]; rfl

/-! ## List helpers -/

theorem modify_concat_length {α} (l : List α) (a : α) (f : α → α) :
    (l ++ [a]).modify l.length f = l ++ [f a] := by
  induction l with
  | nil => rfl
  | cons x xs ih => simp [ih]

/-! ## Frame lemmas: which helper touches which field -/

@[simp] theorem setPhase_reconnects (c e p) : (setPhase c e p).reconnects = c.reconnects := rfl
@[simp] theorem teardown_reconnects (c e) : (teardown c e).reconnects = c.reconnects := by
  unfold teardown; split <;> rfl
@[simp] theorem setLoop_reconnects (c i f) : (setLoop c i f).reconnects = c.reconnects := rfl
@[simp] theorem setSup_reconnects (c f) : (setSup c f).reconnects = c.reconnects := rfl
@[simp] theorem commitConnected_reconnects (c) : (commitConnected c).reconnects = c.reconnects := rfl
@[simp] theorem inject_reconnects (c ev) : (inject c ev).reconnects = c.reconnects := rfl
@[simp] theorem register_reconnects (c e) : (register c e).reconnects = c.reconnects := rfl

@[simp] theorem setPhase_dials (c e p) : (setPhase c e p).dials = c.dials := rfl
@[simp] theorem teardown_dials (c e) : (teardown c e).dials = c.dials := by
  unfold teardown; split <;> rfl
@[simp] theorem setLoop_dials (c i f) : (setLoop c i f).dials = c.dials := rfl
@[simp] theorem setSup_dials (c f) : (setSup c f).dials = c.dials := rfl
@[simp] theorem commitConnected_dials (c) : (commitConnected c).dials = c.dials := rfl
@[simp] theorem inject_dials (c ev) : (inject c ev).dials = c.dials := rfl
@[simp] theorem register_dials (c e) : (register c e).dials = c.dials := rfl

/-- Does action `a` increment `Reconnects()` in configuration `c`?  Exactly: a counting loop's
    `tr.Start` succeeds (dial/listen ok and the start gate is not sealed). -/
def countsReconnect (c : Cfg) : Act → Bool
  | .loopStartOk i =>
    match c.loops[i]? with
    | some l => (match l.pc with | .start _ => l.count && !c.tr.stopping | _ => false)
    | none => false
  | _ => false

theorem reconnects_step (c : Cfg) (a : Act) :
    (step c a).reconnects = c.reconnects + (if countsReconnect c a then 1 else 0) := by
  cases a <;> simp only [step, step?, countsReconnect] <;> (repeat' split) <;> simp_all

/-- Number of counting successful re-dials along a run. -/
def countSucc : Cfg → List Act → Nat
  | _, [] => 0
  | c, a :: as => (if countsReconnect c a then 1 else 0) + countSucc (step c a) as

theorem reconnects_run (c : Cfg) (as : List Act) :
    (run c as).reconnects = c.reconnects + countSucc c as := by
  induction as generalizing c with
  | nil => rfl
  | cons a as ih =>
    show (run (step c a) as).reconnects = _
    rw [ih, reconnects_step]; simp only [countSucc]; omega

/-! ## Recovery after a failure (C11) -/

/-- An established generation `e` with an idle, drained supervisor `s`. -/
structure Established (c : Cfg) (e : Nat) (s : Sup) : Prop where
  hsup : c.sup = some s
  hidle : s.pc = .idle
  hq : s.queue = []
  hopen : s.closed = false
  hup : s.st ≠ .nc
  hns : c.shutdown = false
  hcur : c.cur = some e
  howner : c.tr.owner = some e
  hlive : c.epochs[e]? = some { published := true, phase := .live }

/-- The library-side schedule that follows an injected failure: the supervisor processes the event,
    reacts (spawns the loop, tears the generation down), the join completes, the loop wakes, sleeps
    the initial delay, passes both fences, publishes and dials. -/
def recoverySchedule (c : Cfg) (e : Nat) : List Act :=
  let i := c.loops.length
  [.supStep, .reactCheck, .reactSpawn, .reactTeardown, .joinSeal e, .joinStop e, .joinDone e,
   .loopWake i, .loopSleep i, .loopFence i, .loopPublish i, .loopStartOk i]

theorem spawn_after (c : Cfg) (e : Nat) (s : Sup) (h : Established c e s)
    (a : Act) (ha : a = .envDown ∨ (a = .envT7 ∧ s.st = .ns)) :
    let c' := run c [a, .supStep, .reactCheck, .reactSpawn, .reactTeardown]
    c'.loops = c.loops ++ [{ prev := e, gen := c.gen, count := true, pc := .waitPrev, k := 0 }]
      ∧ phaseOf c' e = .torn ∧ supSt c' = .nc ∧ c'.cur = some e ∧ c'.shutdown = false
      ∧ c'.dials = c.dials := by
  obtain ⟨hsup, hidle, hq, hopen, hup, hns, hcur, howner, hlive⟩ := h
  obtain ⟨st, closed, queue, pc, stopReq, closeEpoch⟩ := s
  simp only at hidle hq hopen hup ha
  subst hidle hq hopen
  rcases ha with ha | ⟨ha, hst⟩ <;> subst ha <;>
    simp_all [run, step, step?, inject, injectOk, eventsCap, setSup, teardown, phaseOf, setPhase, supSt]

theorem redial_after (c : Cfg) (e : Nat) (s : Sup) (h : Established c e s)
    (a : Act) (ha : a = .envDown ∨ (a = .envT7 ∧ s.st = .ns)) :
    let c' := run c (a :: recoverySchedule c e)
    c'.dials = c.dials + 1 ∧ c'.reconnects = c.reconnects + 1 ∧ c'.cur = some c.epochs.length
      ∧ c'.tr.owner = some c.epochs.length ∧ c'.tr.stopping = false
      ∧ (c.active = true → supSt c' = .ns) ∧ (c.active = false → c'.tr.acceptAvail = true) := by
  obtain ⟨hsup, hidle, hq, hopen, hup, hns, hcur, howner, hlive⟩ := h
  obtain ⟨st, closed, queue, pc, stopReq, closeEpoch⟩ := s
  simp only at hidle hq hopen hup ha
  subst hidle hq hopen
  have he : e < c.epochs.length := by
    have := hlive; rw [List.getElem?_eq_some_iff] at this; exact this.1
  cases hact : c.active <;> rcases ha with ha | ⟨ha, hst⟩ <;> subst ha <;>
    simp_all [run, step, step?, inject, injectOk, eventsCap, setSup, teardown, phaseOf, setPhase, supSt, recoverySchedule,
      isDone, setLoop, modify_concat_length, stale, register, commitConnected]

/-! ## Closed configurations (C10) -/

/-- The configuration a completed Close (or a rolled-back Open) leaves behind. -/
structure Closed (c : Cfg) : Prop where
  api : c.api = .idle
  shutdown : c.shutdown = true
  sup : ∃ s, c.sup = some s ∧ s.pc = .exited
  loops : loopsExited c = true
  epochs : ∀ (e : Nat) (ep : Epoch), c.epochs[e]? = some ep →
    (ep.published = true → ep.phase = .done) ∧ (ep.published = false → ep.phase = .live)
  owner : c.tr.owner = none
  avail : c.tr.acceptAvail = false
  cur : ∃ (e : Nat) (ep : Epoch), c.cur = some e ∧ c.epochs[e]? = some ep ∧ ep.published = true

theorem exited_of_loopsExited (c : Cfg) (h : loopsExited c = true) (i : Nat) (l : Loop)
    (hl : c.loops[i]? = some l) : l.pc = .exited := by
  unfold loopsExited at h
  rw [List.all_eq_true] at h
  have := h l (List.mem_of_getElem? hl)
  simpa using this

theorem phaseOf_closed (c : Cfg) (h : Closed c) (e : Nat) : phaseOf c e = .done ∨ phaseOf c e = .live := by
  unfold phaseOf
  cases he : c.epochs[e]? with
  | none => simp
  | some ep =>
    have := h.epochs e ep he
    cases hp : ep.published <;> simp_all

/-- In a closed configuration nothing is enabled that changes anything, except a new Open. -/
theorem closed_dead (c : Cfg) (h : Closed c) (a : Act) (ha : ∀ m, a ≠ .openEnter m) : step c a = c := by
  obtain ⟨s, hs, hpc⟩ := h.sup
  obtain ⟨e, ep, hcur, hep, hpub⟩ := h.cur
  have hdone : isDone c e = true := by
    have := (h.epochs e ep hep).1 hpub
    simp [isDone, phaseOf, hep, this]
  have hapi := h.api
  have hown := h.owner
  have hloops := exited_of_loopsExited c h.loops
  have hph := phaseOf_closed c h
  cases a <;> simp only [step, step?, hapi, hs, hcur, hpc, hown] <;> try (simp_all; done)
  case joinSeal e' => rcases hph e' with h1 | h1 <;> simp [h1]
  case joinStop e' => rcases hph e' with h1 | h1 <;> simp [h1]
  case joinDone e' => rcases hph e' with h1 | h1 <;> simp [h1]
  all_goals
    (rename_i i
     cases hl : c.loops[i]? with
     | none => simp
     | some l => have := hloops i l hl; simp [this])

theorem closed_run (c : Cfg) (h : Closed c) (as : List Act) (ha : ∀ a ∈ as, ∀ m, a ≠ .openEnter m) :
    run c as = c := by
  induction as with
  | nil => rfl
  | cons a as ih =>
    show run (step c a) as = c
    rw [closed_dead c h a (ha a (List.mem_cons_self ..))]
    exact ih (fun b hb => ha b (List.mem_cons_of_mem _ hb))

/-! ## The lifecycle invariant (C10) -/

def Pub (c : Cfg) (e : Nat) : Prop := ∃ ep, c.epochs[e]? = some ep ∧ ep.published = true
def CurDone (c : Cfg) : Prop := ∃ x, c.cur = some x ∧ phaseOf c x = .done
def AllPubDone (c : Cfg) : Prop :=
  ∀ (e : Nat) (ep : Epoch), c.epochs[e]? = some ep → ep.published = true → ep.phase = .done
def NoLive (c : Cfg) : Prop := ∀ (i : Nat) (l : Loop), c.loops[i]? = some l → l.pc = .exited
def NotSpawning (pc : RunPc) : Prop := ∀ e b, pc ≠ .reactSpawn e b
def NotReacting (pc : RunPc) : Prop := (∀ b, pc ≠ .reactCheck b) ∧ (∀ e b, pc ≠ .reactSpawn e b)
def SupFresh (s : Sup) : Prop :=
  s.pc = .idle ∧ s.queue = [] ∧ s.st = .nc ∧ s.closed = false ∧ s.stopReq = false

/-- which value of `shutdown` each api program counter implies -/
def apiShut : ApiPc → Option Bool
  | .closeReq _ | .closeWaitEpoch _ | .closeJoinSup | .closeJoinLoops | .openRollbackWait _ | .openRollbackSup => some true
  | .openJoin _ | .openStart _ _ | .openColdWait _ | .openWaitSel _ => some false
  | .idle => none

/-- the epoch an api program counter has pinned and expects to still be `cur` -/
def apiEpoch : ApiPc → Option Nat
  | .openStart _ e | .openColdWait e | .openRollbackWait e | .closeReq e | .closeWaitEpoch e => some e
  | _ => none

/-- the epoch a reaction in progress refers to -/
def supPcEpoch : RunPc → Option Nat
  | .reactSpawn e _ | .reactTeardown e _ => some e
  | _ => none

/-- the published epoch a loop is starting / waiting on -/
def loopPcEpoch : LoopPc → Option Nat
  | .start e | .failWait e => some e
  | _ => none

/-- loop program counters from which a publish can still follow without another dial -/
def loopArmed : LoopPc → Bool
  | .sleep | .fence | .publish _ => true
  | _ => false

structure Inv (c : Cfg) : Prop where
  E1 : ∀ (e : Nat) (ep : Epoch), c.epochs[e]? = some ep → ep.published = false → ep.phase = .live
  E2 : ∀ (e : Nat) (ep : Epoch), c.epochs[e]? = some ep → ep.published = true → c.cur ≠ some e → ep.phase = .done
  R1 : ∀ e, c.cur = some e → Pub c e
  R2 : ∀ e, apiEpoch c.api = some e → c.cur = some e
  R3a : ∀ s e, c.sup = some s → supPcEpoch s.pc = some e → Pub c e
  R3b : ∀ s e, c.sup = some s → s.closeEpoch = some e → Pub c e
  R4a : ∀ (i : Nat) (l : Loop) e, c.loops[i]? = some l → loopPcEpoch l.pc = some e → Pub c e
  R4b : ∀ (i : Nat) (l : Loop) e, c.loops[i]? = some l → l.pc = .publish e →
        ∃ ep, c.epochs[e]? = some ep ∧ ep.published = false
  R5a : ∀ e, c.tr.owner = some e → Pub c e ∧ (phaseOf c e = .live ∨ phaseOf c e = .torn ∨ phaseOf c e = .sealed)
  R5b : c.tr.owner = none → c.tr.acceptAvail = false
  S1 : ∀ b, apiShut c.api = some b → c.shutdown = b
  S2a : c.api = .closeJoinSup → CurDone c
  S2b : c.api = .closeJoinLoops → CurDone c ∧ ∃ s, c.sup = some s ∧ s.pc = .exited
  S2c : c.api = .openRollbackSup → CurDone c ∧ NoLive c ∧ c.tr.owner = none ∧ ∀ s, c.sup = some s → NotSpawning s.pc
  S3 : c.api = .idle → c.shutdown = true →
        (∃ s, c.sup = some s ∧ s.pc = .exited) ∧ NoLive c ∧ AllPubDone c ∧ c.tr.owner = none ∧ c.cur.isSome = true
  S4 : c.sup = none → c.cur = none ∧ c.loops = [] ∧ c.epochs = [] ∧ c.tr.owner = none ∧ c.shutdown = false ∧
        (c.api = .idle ∨ ∃ m, c.api = .openJoin m)
  S5 : ∀ m, c.api = .openJoin m → NoLive c ∧ c.tr.owner = none ∧ AllPubDone c ∧ (∀ s, c.sup = some s → s.pc = .exited)
  S6a : ∀ m e, c.api = .openStart m e → NoLive c ∧ c.tr.owner = none ∧ phaseOf c e = .live ∧
        (∃ s, c.sup = some s ∧ SupFresh s) ∧ c.tr.stopping = false
  S6b : ∀ e, c.api = .openColdWait e → NoLive c ∧ c.tr.owner = none ∧ (∃ s, c.sup = some s ∧ SupFresh s) ∧ c.active = true
  S6c : ∀ e, c.api = .openRollbackWait e → NoLive c ∧ c.tr.owner = none ∧ ∀ s, c.sup = some s → NotSpawning s.pc
  G1 : ∀ (i : Nat) (l : Loop), c.loops[i]? = some l → l.gen ≤ c.gen
  G2 : c.shutdown = false → ∀ (i : Nat) (l : Loop), c.loops[i]? = some l → l.pc ≠ .exited → l.gen = c.gen
  U : c.shutdown = false → ∀ (i j : Nat) (li lj : Loop), c.loops[i]? = some li → c.loops[j]? = some lj →
        li.pc ≠ .exited → lj.pc ≠ .exited → i = j
  L1a : c.shutdown = false → ∀ (i : Nat) (l : Loop), c.loops[i]? = some l → l.pc = .waitPrev → c.cur = some l.prev
  L1b : c.shutdown = false → ∀ (i : Nat) (l : Loop), c.loops[i]? = some l → loopArmed l.pc = true → CurDone c
  L1c : c.shutdown = false → ∀ (i : Nat) (l : Loop) e, c.loops[i]? = some l → loopPcEpoch l.pc = some e → c.cur = some e
  A1 : c.shutdown = false → ∀ (i : Nat) (l : Loop), c.loops[i]? = some l → l.pc ≠ .exited →
        supSt c = .nc ∧ c.tr.acceptAvail = false ∧ ∀ s, c.sup = some s → NotReacting s.pc
  A4 : c.shutdown = false → c.tr.acceptAvail = true → supSt c = .nc
  A5a : c.shutdown = false → ∀ s b, c.sup = some s → s.pc = .reactCheck b →
        s.st = .nc ∧ c.tr.acceptAvail = false ∧ NoLive c
  A5b : c.shutdown = false → ∀ s e b, c.sup = some s → s.pc = .reactSpawn e b →
        s.st = .nc ∧ c.tr.acceptAvail = false ∧ NoLive c ∧ c.cur = some e
  O2 : ∀ (i : Nat) (l : Loop) e, c.loops[i]? = some l → l.pc = .start e →
        (phaseOf c e = .sealed ∨ phaseOf c e = .stopped ∨ phaseOf c e = .done) → c.tr.stopping = true

theorem loopsExited_iff (c : Cfg) : loopsExited c = true ↔ NoLive c := by
  unfold loopsExited NoLive
  rw [List.all_eq_true]
  constructor
  · intro h i l hl
    have := h l (List.mem_of_getElem? hl)
    simpa using this
  · intro h l hl
    obtain ⟨i, hi⟩ := List.getElem?_of_mem hl
    simp [h i l hi]

theorem inv_init (a : Bool) : Inv (init a) := by
  constructor <;> simp [init, Pub, CurDone, AllPubDone, NoLive, apiShut, supSt, apiEpoch]


/-! frame lemmas -/
@[simp] theorem setPhase_active (c : Cfg) (e : Nat) (p : Phase) : (setPhase c e p).active = c.active := rfl
@[simp] theorem teardown_active (c : Cfg) (e : Nat) : (teardown c e).active = c.active := by
  unfold teardown; split <;> rfl
@[simp] theorem setLoop_active (c : Cfg) (i : Nat) (f : Loop → Loop) : (setLoop c i f).active = c.active := rfl
@[simp] theorem setSup_active (c : Cfg) (f : Sup → Sup) : (setSup c f).active = c.active := rfl
@[simp] theorem commitConnected_active (c : Cfg) : (commitConnected c).active = c.active := rfl
@[simp] theorem inject_active (c : Cfg) (ev : Ev) : (inject c ev).active = c.active := rfl
@[simp] theorem register_active (c : Cfg) (e : Nat) : (register c e).active = c.active := rfl
@[simp] theorem setPhase_api (c : Cfg) (e : Nat) (p : Phase) : (setPhase c e p).api = c.api := rfl
@[simp] theorem teardown_api (c : Cfg) (e : Nat) : (teardown c e).api = c.api := by
  unfold teardown; split <;> rfl
@[simp] theorem setLoop_api (c : Cfg) (i : Nat) (f : Loop → Loop) : (setLoop c i f).api = c.api := rfl
@[simp] theorem setSup_api (c : Cfg) (f : Sup → Sup) : (setSup c f).api = c.api := rfl
@[simp] theorem commitConnected_api (c : Cfg) : (commitConnected c).api = c.api := rfl
@[simp] theorem inject_api (c : Cfg) (ev : Ev) : (inject c ev).api = c.api := rfl
@[simp] theorem register_api (c : Cfg) (e : Nat) : (register c e).api = c.api := rfl
@[simp] theorem setPhase_shutdown (c : Cfg) (e : Nat) (p : Phase) : (setPhase c e p).shutdown = c.shutdown := rfl
@[simp] theorem teardown_shutdown (c : Cfg) (e : Nat) : (teardown c e).shutdown = c.shutdown := by
  unfold teardown; split <;> rfl
@[simp] theorem setLoop_shutdown (c : Cfg) (i : Nat) (f : Loop → Loop) : (setLoop c i f).shutdown = c.shutdown := rfl
@[simp] theorem setSup_shutdown (c : Cfg) (f : Sup → Sup) : (setSup c f).shutdown = c.shutdown := rfl
@[simp] theorem commitConnected_shutdown (c : Cfg) : (commitConnected c).shutdown = c.shutdown := rfl
@[simp] theorem inject_shutdown (c : Cfg) (ev : Ev) : (inject c ev).shutdown = c.shutdown := rfl
@[simp] theorem register_shutdown (c : Cfg) (e : Nat) : (register c e).shutdown = c.shutdown := rfl
@[simp] theorem setPhase_gen (c : Cfg) (e : Nat) (p : Phase) : (setPhase c e p).gen = c.gen := rfl
@[simp] theorem teardown_gen (c : Cfg) (e : Nat) : (teardown c e).gen = c.gen := by
  unfold teardown; split <;> rfl
@[simp] theorem setLoop_gen (c : Cfg) (i : Nat) (f : Loop → Loop) : (setLoop c i f).gen = c.gen := rfl
@[simp] theorem setSup_gen (c : Cfg) (f : Sup → Sup) : (setSup c f).gen = c.gen := rfl
@[simp] theorem commitConnected_gen (c : Cfg) : (commitConnected c).gen = c.gen := rfl
@[simp] theorem inject_gen (c : Cfg) (ev : Ev) : (inject c ev).gen = c.gen := rfl
@[simp] theorem register_gen (c : Cfg) (e : Nat) : (register c e).gen = c.gen := rfl
@[simp] theorem setPhase_cur (c : Cfg) (e : Nat) (p : Phase) : (setPhase c e p).cur = c.cur := rfl
@[simp] theorem teardown_cur (c : Cfg) (e : Nat) : (teardown c e).cur = c.cur := by
  unfold teardown; split <;> rfl
@[simp] theorem setLoop_cur (c : Cfg) (i : Nat) (f : Loop → Loop) : (setLoop c i f).cur = c.cur := rfl
@[simp] theorem setSup_cur (c : Cfg) (f : Sup → Sup) : (setSup c f).cur = c.cur := rfl
@[simp] theorem commitConnected_cur (c : Cfg) : (commitConnected c).cur = c.cur := rfl
@[simp] theorem inject_cur (c : Cfg) (ev : Ev) : (inject c ev).cur = c.cur := rfl
@[simp] theorem register_cur (c : Cfg) (e : Nat) : (register c e).cur = c.cur := rfl
@[simp] theorem setPhase_sup (c : Cfg) (e : Nat) (p : Phase) : (setPhase c e p).sup = c.sup := rfl
@[simp] theorem teardown_sup (c : Cfg) (e : Nat) : (teardown c e).sup = c.sup := by
  unfold teardown; split <;> rfl
@[simp] theorem setLoop_sup (c : Cfg) (i : Nat) (f : Loop → Loop) : (setLoop c i f).sup = c.sup := rfl
@[simp] theorem setSup_sup (c : Cfg) (f : Sup → Sup) : (setSup c f).sup = c.sup.map f := rfl
@[simp] theorem commitConnected_sup (c : Cfg) : (commitConnected c).sup = c.sup.map (fun s => if s.st = .nc then { s with st := .ns } else s) := rfl
@[simp] theorem inject_sup (c : Cfg) (ev : Ev) : (inject c ev).sup = c.sup.map (fun s => if s.pc = .exited then s else { s with queue := s.queue ++ [ev] }) := rfl
@[simp] theorem register_sup (c : Cfg) (e : Nat) : (register c e).sup = c.sup.map (fun s => if c.active = true ∧ s.st = .nc then { s with st := .ns } else s) := rfl
@[simp] theorem setPhase_epochs (c : Cfg) (e : Nat) (p : Phase) : (setPhase c e p).epochs = c.epochs.modify e (fun ep => { ep with phase := p }) := rfl
@[simp] theorem teardown_epochs (c : Cfg) (e : Nat) : (teardown c e).epochs = if phaseOf c e = .live then c.epochs.modify e (fun ep => { ep with phase := .torn }) else c.epochs := by
  unfold teardown; split <;> simp_all
@[simp] theorem setLoop_epochs (c : Cfg) (i : Nat) (f : Loop → Loop) : (setLoop c i f).epochs = c.epochs := rfl
@[simp] theorem setSup_epochs (c : Cfg) (f : Sup → Sup) : (setSup c f).epochs = c.epochs := rfl
@[simp] theorem commitConnected_epochs (c : Cfg) : (commitConnected c).epochs = c.epochs := rfl
@[simp] theorem inject_epochs (c : Cfg) (ev : Ev) : (inject c ev).epochs = c.epochs := rfl
@[simp] theorem register_epochs (c : Cfg) (e : Nat) : (register c e).epochs = c.epochs := rfl
@[simp] theorem setPhase_loops (c : Cfg) (e : Nat) (p : Phase) : (setPhase c e p).loops = c.loops := rfl
@[simp] theorem teardown_loops (c : Cfg) (e : Nat) : (teardown c e).loops = c.loops := by
  unfold teardown; split <;> rfl
@[simp] theorem setLoop_loops (c : Cfg) (i : Nat) (f : Loop → Loop) : (setLoop c i f).loops = c.loops.modify i f := rfl
@[simp] theorem setSup_loops (c : Cfg) (f : Sup → Sup) : (setSup c f).loops = c.loops := rfl
@[simp] theorem commitConnected_loops (c : Cfg) : (commitConnected c).loops = c.loops := rfl
@[simp] theorem inject_loops (c : Cfg) (ev : Ev) : (inject c ev).loops = c.loops := rfl
@[simp] theorem register_loops (c : Cfg) (e : Nat) : (register c e).loops = c.loops := rfl
@[simp] theorem setPhase_tr (c : Cfg) (e : Nat) (p : Phase) : (setPhase c e p).tr = c.tr := rfl
@[simp] theorem teardown_tr (c : Cfg) (e : Nat) : (teardown c e).tr = c.tr := by
  unfold teardown; split <;> rfl
@[simp] theorem setLoop_tr (c : Cfg) (i : Nat) (f : Loop → Loop) : (setLoop c i f).tr = c.tr := rfl
@[simp] theorem setSup_tr (c : Cfg) (f : Sup → Sup) : (setSup c f).tr = c.tr := rfl
@[simp] theorem commitConnected_tr (c : Cfg) : (commitConnected c).tr = c.tr := rfl
@[simp] theorem inject_tr (c : Cfg) (ev : Ev) : (inject c ev).tr = c.tr := rfl
@[simp] theorem register_tr (c : Cfg) (e : Nat) : (register c e).tr = { c.tr with owner := some e, acceptAvail := !c.active } := rfl

theorem phaseOf_some (c : Cfg) (e : Nat) (ep : Epoch) (h : c.epochs[e]? = some ep) : phaseOf c e = ep.phase := by
  simp [phaseOf, h]

/-- split a step into its enabled branches and substitute the successor -/
macro "step_cases" hs:ident : tactic =>
  `(tactic| (simp only [step?] at $hs:ident <;> (repeat' split at $hs:ident) <;> cases $hs:ident))


/-- close every field of `Inv c'` whose statement is definitionally the same as for `c` -/
macro "inv_frame" h:ident : tactic =>
  `(tactic| (constructor <;> (first | exact ($h).E1 | exact ($h).E2 | exact ($h).R1 | exact ($h).R2 | exact ($h).R3a | exact ($h).R3b | exact ($h).R4a | exact ($h).R4b | exact ($h).R5a | exact ($h).R5b | exact ($h).S1 | exact ($h).S2a | exact ($h).S2b | exact ($h).S2c | exact ($h).S3 | exact ($h).S4 | exact ($h).S5 | exact ($h).S6a | exact ($h).S6b | exact ($h).S6c | exact ($h).G1 | exact ($h).G2 | exact ($h).U | exact ($h).L1a | exact ($h).L1b | exact ($h).L1c | exact ($h).A1 | exact ($h).A4 | exact ($h).A5a | exact ($h).A5b | exact ($h).O2 | skip)))

/-- finisher for the fields an action really touches: all invariant facts in context, helper
    updates normalised by the frame lemmas, then `grind` -/
macro "inv_fin" h:ident : tactic =>
  `(tactic| (obtain ⟨E1, E2, R1, R2, R3a, R3b, R4a, R4b, R5a, R5b, S1, S2a, S2b, S2c, S3, S4, S5, S6a, S6b, S6c, G1, G2, U, L1a, L1b, L1c, A1, A4, A5a, A5b, O2⟩ := $h
             (try simp only [Pub, CurDone, AllPubDone, NoLive, supSt, phaseOf, isDone, setPhase_epochs, setPhase_cur, setPhase_sup, setPhase_loops, setPhase_tr, setPhase_api, setPhase_shutdown, setPhase_gen, setPhase_active,
               teardown_epochs, teardown_cur, teardown_sup, teardown_loops, teardown_tr, teardown_api, teardown_shutdown, teardown_gen, teardown_active,
               setLoop_epochs, setLoop_cur, setLoop_sup, setLoop_loops, setLoop_tr, setLoop_api, setLoop_shutdown, setLoop_gen, setLoop_active,
               setSup_epochs, setSup_cur, setSup_sup, setSup_loops, setSup_tr, setSup_api, setSup_shutdown, setSup_gen, setSup_active,
               inject_epochs, inject_cur, inject_sup, inject_loops, inject_tr, inject_api, inject_shutdown, inject_gen, inject_active,
               commitConnected_epochs, commitConnected_cur, commitConnected_sup, commitConnected_loops, commitConnected_tr, commitConnected_api, commitConnected_shutdown, commitConnected_gen, commitConnected_active,
               register_epochs, register_cur, register_sup, register_loops, register_tr, register_api, register_shutdown, register_gen, register_active,
               Option.map_eq_some_iff, Option.map_eq_none_iff] at *)
             grind [Pub, CurDone, AllPubDone, NoLive, NotSpawning, NotReacting, SupFresh, apiShut, apiEpoch, supPcEpoch, loopPcEpoch, loopArmed, supSt, phaseOf]))



@[simp] theorem supSt_inject (c : Cfg) (ev : Ev) : supSt (inject c ev) = supSt c := by
  unfold supSt inject setSup
  cases c.sup <;> simp
  split <;> rfl

/-! ### Preservation, one action at a time -/

theorem phase_cases (p : Phase) : p = .live ∨ p = .torn ∨ p = .sealed ∨ p = .stopped ∨ p = .done := by
  cases p <;> simp

theorem getElem?_append_of_some {α} (l : List α) (x : α) (e : Nat) (a : α) (h : l[e]? = some a) :
    (l ++ [x])[e]? = some a := by
  have hlt : e < l.length := (List.getElem?_eq_some_iff.1 h).1
  rw [List.getElem?_append_left hlt]; exact h

/-- every published epoch done ⇒ the transport runs no generation -/
theorem owner_none_of_allDone (c : Cfg) (h : Inv c) (hd : AllPubDone c) : c.tr.owner = none := by
  cases ho : c.tr.owner with
  | none => rfl
  | some x =>
    obtain ⟨⟨ep, hep, hpub⟩, hph⟩ := h.R5a x ho
    have := hd x ep hep hpub
    simp [phaseOf, hep, this] at hph

theorem allDone_of_curDone (c : Cfg) (h : Inv c) (hc : CurDone c) : AllPubDone c := by
  obtain ⟨x, hx, hph⟩ := hc
  intro e ep hep hpub
  by_cases hxe : c.cur = some e
  · rw [hx] at hxe; cases hxe
    simpa [phaseOf, hep] using hph
  · exact h.E2 e ep hep hpub hxe

theorem not_stale (c : Cfg) (l : Loop) (h : ¬ stale c l = true) : c.shutdown = false ∧ c.gen = l.gen := by
  unfold stale at h
  cases hs : c.shutdown <;> simp_all

/-- at an idle api with no supervisor, or after shutdown, no loop is live and everything published is done -/
theorem idle_quiet (c : Cfg) (h : Inv c) (hapi : c.api = .idle) (hg : ¬ (c.sup.isSome = true ∧ ¬ c.shutdown = true)) :
    NoLive c ∧ c.tr.owner = none ∧ AllPubDone c ∧ (∀ s, c.sup = some s → s.pc = .exited) := by
  by_cases hsup : c.sup.isSome = true
  · have hsd : c.shutdown = true := by
      cases hb : c.shutdown
      · exact absurd ⟨hsup, by simp [hb]⟩ hg
      · rfl
    obtain ⟨⟨s, hs, hpc⟩, hl, hp, ho, _⟩ := h.S3 hapi hsd
    exact ⟨hl, ho, hp, fun s' hs' => by rw [hs] at hs'; cases hs'; exact hpc⟩
  · have hnone : c.sup = none := by cases hc : c.sup <;> simp_all
    obtain ⟨_, hl, he, ho, _, _⟩ := h.S4 hnone
    refine ⟨?_, ho, ?_, ?_⟩
    · intro i l hil; simp [hl] at hil
    · intro e ep hep; simp [he] at hep
    · intro s hs; simp [hnone] at hs

set_option maxHeartbeats 1000000 in
theorem inv_openEnter (c c' : Cfg) (m : Mode) (h : Inv c) (hs : step? c (.openEnter m) = some c') : Inv c' := by
  simp only [step?] at hs
  split at hs
  · cases hs
  · rename_i hapi
    have hapi : c.api = .idle := by simpa using hapi
    split at hs
    · cases hs; exact h
    · rename_i hg
      cases hs
      obtain ⟨hl, ho, hp, hx⟩ := idle_quiet c h hapi hg
      inv_frame h <;> (first | (inv_fin h; done) | skip)
      all_goals (simp only []; intros; first | (exact ⟨hl, ho, hp, hx⟩) | skip)

set_option maxHeartbeats 1000000 in
theorem inv_openArm (c c' : Cfg) (h : Inv c) (hs : step? c .openArm = some c') : Inv c' := by
  step_cases hs <;> inv_frame h <;> (first | (inv_fin h; done) | skip)
  · intro e he
    simp only [Option.some.injEq] at he
    subst he
    exact ⟨{ published := true }, by simp, rfl⟩

set_option maxHeartbeats 1000000 in
theorem inv_closeLoopsDone (c c' : Cfg) (h : Inv c) (hs : step? c .closeLoopsDone = some c') : Inv c' := by
  step_cases hs <;> inv_frame h <;> (first | (inv_fin h; done) | skip)
  · rename_i hapi hl
    obtain ⟨hcd, s, hs, hpc⟩ := h.S2b hapi
    have had := allDone_of_curDone c h hcd
    intro _ _
    refine ⟨⟨{ s with st := .nc }, by simp [setSup, hs], hpc⟩, (loopsExited_iff c).1 hl, had, owner_none_of_allDone c h had, ?_⟩
    obtain ⟨x, hx, _⟩ := hcd
    simp [setSup, hx]

set_option maxHeartbeats 1000000 in
theorem inv_loopStartOk (c c' : Cfg) (i : Nat) (h : Inv c) (hs : step? c (.loopStartOk i) = some c') : Inv c' := by
  step_cases hs <;> inv_frame h <;> (first | (inv_fin h; done) | skip)
  all_goals
    (rename_i l hl _ e hpc hst _
     first
     | -- R5a
       (simp only [Pub, phaseOf, setLoop_tr, setLoop_epochs, register_tr, register_epochs]
        intro e' he'
        have he : e' = e := by simpa using he'.symm
        subst he
        have hp := h.R4a i l e' hl (by simp [hpc, loopPcEpoch])
        have ho := h.O2 i l e' hl hpc
        refine ⟨hp, ?_⟩
        rcases phase_cases (phaseOf c e') with h1 | h1 | h1 | h1 | h1
        · exact Or.inl h1
        · exact Or.inr (Or.inl h1)
        · exact absurd (ho (Or.inl h1)) hst
        · exact absurd (ho (Or.inr (Or.inl h1))) hst
        · exact absurd (ho (Or.inr (Or.inr h1))) hst)
     | -- A4
       (simp only [setLoop_shutdown, register_shutdown, setLoop_tr, register_tr, supSt, setLoop_sup, register_sup]
        intro hsd hav
        have hact : c.active = false := by simpa using hav
        have := (h.A1 hsd i l hl (by simp [hpc])).1
        simpa [supSt, hact] using this))

set_option maxHeartbeats 1000000 in
theorem inv_loopFence (c c' : Cfg) (i : Nat) (h : Inv c) (hs : step? c (.loopFence i) = some c') : Inv c' := by
  step_cases hs <;> inv_frame h <;> (first | (inv_fin h; done) | skip)
  · rename_i l0 hl0 hpc0 hst
    intro j l e hl hpc
    simp only [setLoop_loops, setLoop_epochs, List.getElem?_modify] at hl ⊢
    by_cases hij : i = j
    · subst hij
      simp [hl0] at hl
      subst hl
      simp at hpc
      subst hpc
      exact ⟨{}, by simp, rfl⟩
    · simp [hij] at hl
      obtain ⟨ep, hep, hp⟩ := h.R4b j l e hl hpc
      exact ⟨ep, getElem?_append_of_some _ _ _ _ hep, hp⟩

set_option maxHeartbeats 1000000 in
theorem inv_loopPublish (c c' : Cfg) (i : Nat) (h : Inv c) (hs : step? c (.loopPublish i) = some c') : Inv c' := by
  step_cases hs <;> inv_frame h <;> (first | (inv_fin h; done) | skip)
  all_goals
    (rename_i l0 hl0 _ e hpc0 hst
     obtain ⟨hsd, hgen⟩ := not_stale c l0 hst
     have hlive : l0.pc ≠ .exited := by simp [hpc0]
     have hNoLive : ¬ NoLive c := fun hn => hlive (hn i l0 hl0)
     have huniq : ∀ (j : Nat) (l : Loop), c.loops[j]? = some l → l.pc ≠ .exited → j = i :=
       fun j l hl hp => h.U hsd j i l l0 hl hl0 hp hlive
     obtain ⟨ep0, hep0, hunpub⟩ := h.R4b i l0 e hl0 hpc0
     have hcd : CurDone c := h.L1b hsd i l0 hl0 (by simp [hpc0, loopArmed]))
  case h_1.isFalse.refl.E2 =>
    intro e' ep hep hpub hne
    simp only [setLoop_epochs, setLoop_cur, List.getElem?_modify] at hep hne
    by_cases hee : e = e'
    · subst hee; exact absurd rfl hne
    · simp [hee] at hep
      exact allDone_of_curDone c h hcd e' ep hep hpub
  case h_1.isFalse.refl.R2 =>
    intro x hx
    simp only [setLoop_api] at hx
    exfalso
    cases hapi : c.api <;> simp [hapi, apiEpoch] at hx
    · exact hNoLive (h.S6a _ _ hapi).1
    · exact hNoLive (h.S6b _ hapi).1
    · exact hNoLive (h.S6c _ hapi).1
    · have := h.S1 true (by simp [hapi, apiShut]); simp [hsd] at this
    · have := h.S1 true (by simp [hapi, apiShut]); simp [hsd] at this
  case h_1.isFalse.refl.R4b =>
    intro j l e' hl hpc
    simp only [setLoop_loops, List.getElem?_modify] at hl
    by_cases hij : i = j
    · subst hij; simp [hl0] at hl; subst hl; simp at hpc
    · simp [hij] at hl
      exact absurd (huniq j l hl (by simp [hpc])) (fun h' => hij h'.symm)
  case h_1.isFalse.refl.S2a =>
    intro hapi
    simp only [setLoop_api] at hapi
    have := h.S1 true (by simp [hapi, apiShut]); simp [hsd] at this
  case h_1.isFalse.refl.S2b =>
    intro hapi
    simp only [setLoop_api] at hapi
    have := h.S1 true (by simp [hapi, apiShut]); simp [hsd] at this
  case h_1.isFalse.refl.O2 =>
    intro j l e' hl hpc hph
    simp only [setLoop_loops, List.getElem?_modify] at hl
    exfalso
    by_cases hij : i = j
    · subst hij
      simp [hl0] at hl; subst hl; simp at hpc; subst hpc
      have hlv : ep0.phase = .live := h.E1 e ep0 hep0 hunpub
      simp [phaseOf, List.getElem?_modify, hep0, hlv] at hph
    · simp [hij] at hl
      exact absurd (huniq j l hl (by simp [hpc])) (fun h' => hij h'.symm)

set_option maxHeartbeats 1000000 in
theorem inv_envDown (c c' : Cfg) (h : Inv c) (hs : step? c .envDown = some c') : Inv c' := by
  step_cases hs <;> inv_frame h <;> (first | (inv_fin h; done) | skip)
  · simp only [inject_shutdown, inject_loops, inject_tr, supSt_inject, inject_sup, Option.map_eq_some_iff]
    intro hsd i l hl hpc
    obtain ⟨h1, h2, h3⟩ := h.A1 hsd i l hl hpc
    refine ⟨h1, h2, ?_⟩
    rintro s ⟨s0, hs0, rfl⟩
    have := h3 s0 hs0
    split <;> simpa [NotReacting] using this
  · simpa using h.A4

set_option maxHeartbeats 1000000 in
theorem inv_envT7 (c c' : Cfg) (h : Inv c) (hs : step? c .envT7 = some c') : Inv c' := by
  step_cases hs <;> inv_frame h <;> (first | (inv_fin h; done) | skip)
  · simp only [inject_shutdown, inject_loops, inject_tr, supSt_inject, inject_sup, Option.map_eq_some_iff]
    intro hsd i l hl hpc
    obtain ⟨h1, h2, h3⟩ := h.A1 hsd i l hl hpc
    refine ⟨h1, h2, ?_⟩
    rintro s ⟨s0, hs0, rfl⟩
    have := h3 s0 hs0
    split <;> simpa [NotReacting] using this
  · simpa using h.A4

set_option maxHeartbeats 1000000 in
theorem inv_openStartOk (c c' : Cfg)  (h : Inv c) (hs : step? c .openStartOk = some c') : Inv c' := by
  step_cases hs <;> inv_frame h <;> inv_fin h

set_option maxHeartbeats 1000000 in
theorem inv_openStartFail (c c' : Cfg)  (h : Inv c) (hs : step? c .openStartFail = some c') : Inv c' := by
  step_cases hs <;> inv_frame h <;> inv_fin h

set_option maxHeartbeats 1000000 in
theorem inv_openColdDone (c c' : Cfg)  (h : Inv c) (hs : step? c .openColdDone = some c') : Inv c' := by
  step_cases hs <;> inv_frame h <;> inv_fin h

set_option maxHeartbeats 1000000 in
theorem inv_openRollbackEpoch (c c' : Cfg)  (h : Inv c) (hs : step? c .openRollbackEpoch = some c') : Inv c' := by
  step_cases hs <;> inv_frame h <;> inv_fin h

set_option maxHeartbeats 1000000 in
theorem inv_openRollbackDone (c c' : Cfg)  (h : Inv c) (hs : step? c .openRollbackDone = some c') : Inv c' := by
  step_cases hs <;> inv_frame h <;> inv_fin h

set_option maxHeartbeats 1000000 in
theorem inv_openWaitRet (c c' : Cfg) (r : WaitRes) (h : Inv c) (hs : step? c (.openWaitRet r) = some c') : Inv c' := by
  step_cases hs <;> inv_frame h <;> inv_fin h

set_option maxHeartbeats 1000000 in
theorem inv_closeEnter (c c' : Cfg)  (h : Inv c) (hs : step? c .closeEnter = some c') : Inv c' := by
  step_cases hs <;> inv_frame h <;> inv_fin h

set_option maxHeartbeats 1000000 in
theorem inv_closeRequest (c c' : Cfg)  (h : Inv c) (hs : step? c .closeRequest = some c') : Inv c' := by
  step_cases hs <;> inv_frame h <;> inv_fin h

set_option maxHeartbeats 1000000 in
theorem inv_closeEpochDone (c c' : Cfg)  (h : Inv c) (hs : step? c .closeEpochDone = some c') : Inv c' := by
  step_cases hs <;> inv_frame h <;> inv_fin h

set_option maxHeartbeats 1000000 in
theorem inv_closeSupDone (c c' : Cfg)  (h : Inv c) (hs : step? c .closeSupDone = some c') : Inv c' := by
  step_cases hs <;> inv_frame h <;> inv_fin h

set_option maxHeartbeats 1000000 in
theorem inv_supStep (c c' : Cfg)  (h : Inv c) (hs : step? c .supStep = some c') : Inv c' := by
  step_cases hs <;> inv_frame h <;> inv_fin h

set_option maxHeartbeats 1000000 in
theorem inv_reactCheck (c c' : Cfg)  (h : Inv c) (hs : step? c .reactCheck = some c') : Inv c' := by
  step_cases hs <;> inv_frame h <;> inv_fin h

set_option maxHeartbeats 1000000 in
theorem inv_reactSpawn (c c' : Cfg)  (h : Inv c) (hs : step? c .reactSpawn = some c') : Inv c' := by
  step_cases hs <;> inv_frame h <;> inv_fin h

set_option maxHeartbeats 1000000 in
theorem inv_reactTeardown (c c' : Cfg)  (h : Inv c) (hs : step? c .reactTeardown = some c') : Inv c' := by
  step_cases hs <;> inv_frame h <;> inv_fin h

set_option maxHeartbeats 1000000 in
theorem inv_closeTeardown (c c' : Cfg)  (h : Inv c) (hs : step? c .closeTeardown = some c') : Inv c' := by
  step_cases hs <;> inv_frame h <;> inv_fin h

set_option maxHeartbeats 1000000 in
theorem inv_supExit (c c' : Cfg)  (h : Inv c) (hs : step? c .supExit = some c') : Inv c' := by
  step_cases hs <;> inv_frame h <;> inv_fin h

set_option maxHeartbeats 1000000 in
theorem inv_joinSeal (c c' : Cfg) (e : Nat) (h : Inv c) (hs : step? c (.joinSeal e) = some c') : Inv c' := by
  step_cases hs <;> inv_frame h <;> inv_fin h

set_option maxHeartbeats 1000000 in
theorem inv_joinStop (c c' : Cfg) (e : Nat) (h : Inv c) (hs : step? c (.joinStop e) = some c') : Inv c' := by
  step_cases hs <;> inv_frame h <;> inv_fin h

set_option maxHeartbeats 1000000 in
theorem inv_joinDone (c c' : Cfg) (e : Nat) (h : Inv c) (hs : step? c (.joinDone e) = some c') : Inv c' := by
  step_cases hs <;> inv_frame h <;> inv_fin h

set_option maxHeartbeats 1000000 in
theorem inv_loopWake (c c' : Cfg) (i : Nat) (h : Inv c) (hs : step? c (.loopWake i) = some c') : Inv c' := by
  step_cases hs <;> inv_frame h <;> inv_fin h

set_option maxHeartbeats 1000000 in
theorem inv_loopSleep (c c' : Cfg) (i : Nat) (h : Inv c) (hs : step? c (.loopSleep i) = some c') : Inv c' := by
  step_cases hs <;> inv_frame h <;> inv_fin h

set_option maxHeartbeats 1000000 in
theorem inv_loopStartFail (c c' : Cfg) (i : Nat) (h : Inv c) (hs : step? c (.loopStartFail i) = some c') : Inv c' := by
  step_cases hs <;> inv_frame h <;> inv_fin h

set_option maxHeartbeats 1000000 in
theorem inv_loopFailDone (c c' : Cfg) (i : Nat) (h : Inv c) (hs : step? c (.loopFailDone i) = some c') : Inv c' := by
  step_cases hs <;> inv_frame h <;> inv_fin h

set_option maxHeartbeats 1000000 in
theorem inv_envAccept (c c' : Cfg)  (h : Inv c) (hs : step? c .envAccept = some c') : Inv c' := by
  step_cases hs <;> inv_frame h <;> inv_fin h

set_option maxHeartbeats 1000000 in
theorem inv_envSelected (c c' : Cfg)  (h : Inv c) (hs : step? c .envSelected = some c') : Inv c' := by
  step_cases hs <;> inv_frame h <;> inv_fin h

set_option maxHeartbeats 1000000 in
theorem inv_envSelectLost (c c' : Cfg)  (h : Inv c) (hs : step? c .envSelectLost = some c') : Inv c' := by
  step_cases hs <;> inv_frame h <;> inv_fin h

/-- **The invariant is inductive**: every enabled action preserves it. -/
theorem inv_step? (c c' : Cfg) (a : Act) (h : Inv c) (hs : step? c a = some c') : Inv c' := by
  cases a with
  | openEnter m => exact inv_openEnter c c' m h hs
  | openArm => exact inv_openArm c c' h hs
  | openStartOk => exact inv_openStartOk c c' h hs
  | openStartFail => exact inv_openStartFail c c' h hs
  | openColdDone => exact inv_openColdDone c c' h hs
  | openRollbackEpoch => exact inv_openRollbackEpoch c c' h hs
  | openRollbackDone => exact inv_openRollbackDone c c' h hs
  | openWaitRet r => exact inv_openWaitRet c c' r h hs
  | closeEnter => exact inv_closeEnter c c' h hs
  | closeRequest => exact inv_closeRequest c c' h hs
  | closeEpochDone => exact inv_closeEpochDone c c' h hs
  | closeSupDone => exact inv_closeSupDone c c' h hs
  | closeLoopsDone => exact inv_closeLoopsDone c c' h hs
  | supStep => exact inv_supStep c c' h hs
  | reactCheck => exact inv_reactCheck c c' h hs
  | reactSpawn => exact inv_reactSpawn c c' h hs
  | reactTeardown => exact inv_reactTeardown c c' h hs
  | closeTeardown => exact inv_closeTeardown c c' h hs
  | supExit => exact inv_supExit c c' h hs
  | joinSeal e => exact inv_joinSeal c c' e h hs
  | joinStop e => exact inv_joinStop c c' e h hs
  | joinDone e => exact inv_joinDone c c' e h hs
  | loopWake i => exact inv_loopWake c c' i h hs
  | loopSleep i => exact inv_loopSleep c c' i h hs
  | loopFence i => exact inv_loopFence c c' i h hs
  | loopPublish i => exact inv_loopPublish c c' i h hs
  | loopStartOk i => exact inv_loopStartOk c c' i h hs
  | loopStartFail i => exact inv_loopStartFail c c' i h hs
  | loopFailDone i => exact inv_loopFailDone c c' i h hs
  | envAccept => exact inv_envAccept c c' h hs
  | envSelected => exact inv_envSelected c c' h hs
  | envSelectLost => exact inv_envSelectLost c c' h hs
  | envDown => exact inv_envDown c c' h hs
  | envT7 => exact inv_envT7 c c' h hs

theorem inv_step (c : Cfg) (a : Act) (h : Inv c) : Inv (step c a) := by
  unfold step
  cases hs : step? c a with
  | none => exact h
  | some c' => exact inv_step? c c' a h hs

/-- The invariant holds after every interleaving. -/
theorem inv_run (c : Cfg) (as : List Act) (h : Inv c) : Inv (run c as) := by
  induction as generalizing c with
  | nil => exact h
  | cons a as ih => exact ih (step c a) (inv_step c a h)

/-- An idle api with `shutdown` set is exactly the closed configuration. -/
theorem closed_of_inv (c : Cfg) (h : Inv c) (hapi : c.api = .idle) (hsd : c.shutdown = true) : Closed c := by
  obtain ⟨hsup, hl, hp, ho, hcur⟩ := h.S3 hapi hsd
  refine ⟨hapi, hsd, hsup, (loopsExited_iff c).2 hl, ?_, ho, h.R5b ho, ?_⟩
  · intro e ep hep
    exact ⟨fun hpub => hp e ep hep hpub, fun hunp => h.E1 e ep hep hunp⟩
  · cases hc : c.cur with
    | none => simp [hc] at hcur
    | some e =>
      obtain ⟨ep, hep, hpub⟩ := h.R1 e hc
      exact ⟨e, ep, rfl, hep, hpub⟩

end GoSecs.Lifecycle
