/-
  Tie lemmas between the secs1 functions regenerated from the Go source (GoSecs/Gen/Secs1.lean,
  GoSecs/Gen/Wire.lean) and the hand-written model (GoSecs/Model/Secs1.lean): for ALL inputs the
  translated `buildHeader`, the `block` accessors, `block.appendTo` (length byte + checksum), `parseBlock`,
  `splitBody` (the offset / length / block-number arithmetic of the splitter) and `assembleFrame` (the
  receive-side validation and the synthesized HSMS frame) compute exactly what
  the model computes — and never panic.  Re-exported as the `…_gen` theorems of Props/C17 and Props/C18.
  Core Lean only.
-/
import GoSecs.Model.Secs1
import GoSecs.Gen.Secs1
import GoSecs.Lemmas.GoPrelude

set_option linter.unusedSimpArgs false

namespace GoSecs.Secs1
open GoSecs.Gen

/-! ### model values as the generated structures -/

def MsgHeader.toGen (h : MsgHeader) : secs1_messageHeader :=
  { deviceID := h.deviceID, rBit := h.rBit, stream := h.stream, function := h.function, waitBit := h.waitBit,
    systemBytes := [h.s0, h.s1, h.s2, h.s3] }

def Block.toGen (b : Block) : secs1_block := { header := b.hdr.toList, body := { b := b.body } }

/-- The sentinel the Go code wraps for each model error. -/
def ParseErr.goName : ParseErr → String
  | .invalidLength => "ErrInvalidLength"
  | .checksumMismatch => "ErrChecksumMismatch"

def SplitErr.goName : SplitErr → String
  | .invalidHeader => "ErrInvalidHeader"
  | .tooLarge => "ErrMessageTooLarge"

/-! ### buildHeader and the accessors -/

theorem buildHeader_gen (h : MsgHeader) (bn : Nat) (last : Bool) :
    secs1_buildHeader h.toGen bn last = (buildHeader h bn last).toList := by
  obtain ⟨dev, r, st, fn, w, s0, s1, s2, s3⟩ := h
  unfold secs1_buildHeader buildHeader Hdr.toList MsgHeader.toGen
  cases r <;> cases w <;> cases last <;>
  simp only [List.replicate, Go.set, List.set_cons_zero, List.set_cons_succ, Go.getB, List.getD_cons_zero, List.getD_cons_succ,
    Go.splice, Go.copy, Go.slice, Bool.false_eq_true, reduceIte, orTop, List.take, List.drop, List.length,
    List.cons_append, List.nil_append, List.cons.injEq, and_true, true_and,
    Go.shr8_nat, Go.wrapU8_nat, Go.band127_nat, Go.byte_nat, Go.byte_bor128_u8_ofNat, Go.ofNat_mod256, Nat.mod_mod] <;>
  (try constructor) <;> exact Go.ofNat_congr (by omega)

theorem deviceID_gen (b : Block) : secs1_block_deviceID b.toGen = (b.hdr.deviceID : Int) := by
  unfold secs1_block_deviceID Block.toGen Hdr.toList Hdr.deviceID
  simp only [Go.slice, List.drop, List.take, Go.beU16, Go.getB, List.getD_cons_zero, List.getD_cons_succ, Go.u8_nat]
  have h0 := b.hdr.b0.toNat_lt
  have h1 := b.hdr.b1.toNat_lt
  rw [show ((b.hdr.b0.toNat : Int) * 256 + (b.hdr.b1.toNat : Int)) = ((b.hdr.b0.toNat * 256 + b.hdr.b1.toNat : Nat) : Int) by simp]
  rw [Go.band32767_nat]
  congr 1
  omega

theorem rBit_gen (b : Block) : secs1_block_rBit b.toGen = b.hdr.rBit := by
  unfold secs1_block_rBit Block.toGen Hdr.toList Hdr.rBit
  simp only [Go.getB, List.getD_cons_zero, Go.band128_u8_ne0]

theorem stream_gen (b : Block) : secs1_block_stream b.toGen = (b.hdr.stream : Int) := by
  unfold secs1_block_stream Block.toGen Hdr.toList Hdr.stream
  simp only [Go.getB, List.getD_cons_zero, List.getD_cons_succ, Go.u8_nat, Go.band127_nat]

theorem waitBit_gen (b : Block) : secs1_block_waitBit b.toGen = b.hdr.waitBit := by
  unfold secs1_block_waitBit Block.toGen Hdr.toList Hdr.waitBit
  simp only [Go.getB, List.getD_cons_zero, List.getD_cons_succ, Go.band128_u8_ne0]

theorem function_gen (b : Block) : secs1_block_function b.toGen = (b.hdr.function : Int) := by
  unfold secs1_block_function Block.toGen Hdr.toList Hdr.function
  simp only [Go.getB, List.getD_cons_zero, List.getD_cons_succ, Go.u8_nat]

theorem blockNumber_gen (b : Block) : secs1_block_blockNumber b.toGen = (b.hdr.blockNumber : Int) := by
  unfold secs1_block_blockNumber Block.toGen Hdr.toList Hdr.blockNumber
  simp only [Go.slice, List.drop, List.take, Go.beU16, Go.getB, List.getD_cons_zero, List.getD_cons_succ, Go.u8_nat]
  have h0 := b.hdr.b4.toNat_lt
  have h1 := b.hdr.b5.toNat_lt
  rw [show ((b.hdr.b4.toNat : Int) * 256 + (b.hdr.b5.toNat : Int)) = ((b.hdr.b4.toNat * 256 + b.hdr.b5.toNat : Nat) : Int) by simp]
  rw [Go.band32767_nat]
  congr 1
  omega

theorem eBit_gen (b : Block) : secs1_block_eBit b.toGen = b.hdr.eBit := by
  unfold secs1_block_eBit Block.toGen Hdr.toList Hdr.eBit
  simp only [Go.getB, List.getD_cons_zero, List.getD_cons_succ, Go.band128_u8_ne0]

theorem systemBytes_gen (b : Block) : secs1_block_systemBytes b.toGen = [b.hdr.b6, b.hdr.b7, b.hdr.b8, b.hdr.b9] := by
  unfold secs1_block_systemBytes Block.toGen Hdr.toList
  simp [Go.slice]

theorem messageHeader_gen (b : Block) : secs1_block_messageHeader b.toGen = b.hdr.msgHeader.toGen := by
  unfold secs1_block_messageHeader
  rw [deviceID_gen, rBit_gen, stream_gen, function_gen, waitBit_gen, systemBytes_gen]
  rfl

/-! ### block.appendTo: length byte, payload, 16-bit checksum -/

theorem sumBytes_eq (p : Bytes) : sumBytes p = Go.sumB p := by
  induction p with
  | nil => rfl
  | cons x xs ih => simp [sumBytes, Go.sumB, ih]

theorem beBytes2 (v : Nat) : beBytes 2 v = [UInt8.ofNat (v / 256 % 256), UInt8.ofNat (v % 256)] := by
  simp [beBytes]

theorem cs_bytes (s : Nat) :
    let cs := Go.wrapU 16 (Go.band ((s % 4294967296 : Nat) : Int) 65535)
    [Go.byte (Go.wrapU 8 (Go.shr cs 8)), Go.byte (Go.wrapU 8 cs)] = beBytes 2 (s % 65536) := by
  simp only [Go.band65535_nat, Go.wrapU16_nat, Go.shr8_nat, Go.wrapU8_nat, Go.byte_nat, beBytes2, List.cons.injEq, and_true]
  constructor <;> exact Go.ofNat_congr (by omega)

theorem appendTo_gen (b : Block) (dst : Bytes) : secs1_block_appendTo b.toGen dst = some (appendTo dst b) := by
  unfold secs1_block_appendTo Block.toGen
  simp only [internal_wire_Chunk_Len, internal_wire_Chunk_AppendTo]
  have hs : Go.slice? (dst ++ [Go.byte (Go.wrapU 8 (10 + Go.len b.body))] ++ b.hdr.toList ++ b.body)
      (Go.len (dst ++ [Go.byte (Go.wrapU 8 (10 + Go.len b.body))]))
      (Go.len (dst ++ [Go.byte (Go.wrapU 8 (10 + Go.len b.body))] ++ b.hdr.toList ++ b.body))
      = some (b.hdr.toList ++ b.body) := by
    simp only [Go.len_nat]
    rw [Go.slice?_eq _ _ _ (by simp) (by simp)]
    simp [List.append_assoc]
    apply List.take_of_length_le
    simp; omega
  rw [hs]
  simp only [Option.bind_some]
  rw [Go.foldBM_sum32 _ (fun _ _ _ => rfl)]
  simp only [Option.bind_some]
  rw [cs_bytes]
  simp only [appendTo, Block.wire, Block.payload, checksum, sumBytes_eq, blockHeaderSize, Go.len_nat]
  have hb : Go.byte (Go.wrapU 8 (10 + (b.body.length : Int))) = UInt8.ofNat (10 + b.body.length) := by
    rw [show (10 : Int) + (b.body.length : Int) = ((10 + b.body.length : Nat) : Int) by simp, Go.wrapU8_nat, Go.byte_nat,
      Go.ofNat_mod256]
  rw [hb]
  simp only [List.append_assoc, List.cons_append, List.nil_append]

/-! ### parseBlock -/

theorem ofList_toList (l : Bytes) (h : 10 ≤ l.length) : (Hdr.ofList l).toList = l.take 10 := by
  match l, h with
  | a :: b :: c :: d :: e :: f :: g :: i :: j :: k :: rest, _ => rfl

theorem beU16_len2 (t : Bytes) (h : t.length = 2) : Go.beU16 t = ((beVal t : Nat) : Int) := by
  match t, h with
  | [a, b], _ => simp [Go.beU16, Go.getB, Go.u8_nat, beVal]

theorem parseBlock_unfold (lb : UInt8) (rest : Bytes) : parseBlock lb rest =
    (if lb.toNat < 10 ∨ lb.toNat > 254 then .error .invalidLength
     else if rest.length ≠ lb.toNat + 2 then .error .invalidLength
     else if checksum (rest.take lb.toNat) ≠ beVal (rest.drop lb.toNat) then .error .checksumMismatch
     else .ok { hdr := Hdr.ofList rest, body := (rest.take lb.toNat).drop 10 }) := rfl

theorem parseBlock_gen (lb : UInt8) (rest : Bytes) :
    secs1_parseBlock (lb.toNat : Int) rest =
      some (match parseBlock lb rest with
        | .ok b => (b.toGen, none)
        | .error e => (secs1_block.zero, some e.goName)) := by
  rw [parseBlock_unfold]
  unfold secs1_parseBlock
  by_cases h1 : lb.toNat < 10 ∨ lb.toNat > 254
  · have : ((decide ((lb.toNat : Int) < 10)) || (decide ((lb.toNat : Int) > 254))) = true := by
      simp only [Bool.or_eq_true, decide_eq_true_eq]; omega
    simp only [this, h1, reduceIte, ParseErr.goName]
  · have : ((decide ((lb.toNat : Int) < 10)) || (decide ((lb.toNat : Int) > 254))) = false := by
      simp only [Bool.or_eq_false_iff, decide_eq_false_iff_not]; omega
    simp only [this, h1, reduceIte, Bool.false_eq_true]
    by_cases h2 : rest.length ≠ lb.toNat + 2
    · have : (Go.len rest != (lb.toNat : Int) + 2) = true := by
        simp only [Go.len_nat, bne_iff_ne, ne_eq]; omega
      rw [if_pos h2]
      simp only [this, reduceIte, ParseErr.goName]
    · have : (Go.len rest != (lb.toNat : Int) + 2) = false := by
        simp only [Go.len_nat, bne_eq_false_iff_eq]; omega
      rw [if_neg h2]
      simp only [this, reduceIte, Bool.false_eq_true]
      have hlen : rest.length = lb.toNat + 2 := by omega
      have hn : 10 ≤ lb.toNat := by omega
      have s1 : Go.slice? rest 0 (lb.toNat : Int) = some (rest.take lb.toNat) := by
        have := Go.slice?_eq rest 0 lb.toNat (by omega) (by omega)
        simpa using this
      have s2 : Go.slice? rest (lb.toNat : Int) ((lb.toNat : Int) + 2) = some (rest.drop lb.toNat) := by
        have := Go.slice?_eq rest lb.toNat (lb.toNat + 2) (by omega) (by omega)
        rw [show ((lb.toNat + 2 : Nat) : Int) = (lb.toNat : Int) + 2 by simp] at this
        rw [this]
        congr 1
        apply List.take_of_length_le
        simp; omega
      have s3 : Go.slice? rest 0 10 = some (rest.take 10) := by
        have := Go.slice?_eq rest 0 10 (by omega) (by omega)
        simpa using this
      have s4 : Go.slice? rest 10 (lb.toNat : Int) = some ((rest.take lb.toNat).drop 10) := by
        have := Go.slice?_eq rest 10 lb.toNat (by omega) (by omega)
        rw [List.drop_take]
        simpa using this
      rw [s1]
      simp only [Option.bind_some]
      rw [Go.foldBM_sum32 _ (fun _ _ _ => rfl)]
      simp only [Option.bind_some, s2]
      rw [Go.beU16?_eq _ (by simp; omega)]
      simp only [Option.bind_some]
      rw [beU16_len2 _ (by simp; omega), Go.band65535_nat, Go.wrapU16_nat]
      by_cases h3 : checksum (rest.take lb.toNat) ≠ beVal (rest.drop lb.toNat)
      · have : ((((Go.sumB (List.take lb.toNat rest) % 4294967296 % 65536 % 65536 : Nat)) : Int) !=
            ((beVal (List.drop lb.toNat rest) : Nat) : Int)) = true := by
          simp only [checksum, sumBytes_eq] at h3
          simp only [bne_iff_ne, ne_eq]; omega
        rw [if_pos h3]
        simp only [this, reduceIte, ParseErr.goName]
      · have : ((((Go.sumB (List.take lb.toNat rest) % 4294967296 % 65536 % 65536 : Nat)) : Int) !=
            ((beVal (List.drop lb.toNat rest) : Nat) : Int)) = false := by
          simp only [checksum, sumBytes_eq] at h3
          simp only [bne_eq_false_iff_eq]; omega
        rw [if_neg h3]
        simp only [this, reduceIte, Bool.false_eq_true, s3, s4, Option.bind_some, Block.toGen, internal_wire_ChunkOf,
          ofList_toList rest (by omega)]
        simp only [Go.copy, List.length_take, List.length_replicate, List.take_take, Nat.min_self]
        rw [Nat.min_eq_left (by omega)]
        simp

/-! ### splitBody: offsets, lengths, block numbers -/

theorem wrapU16_succ (c : Nat) : Go.wrapU 16 ((c : Int) + 1) = (((c + 1) % 65536 : Nat) : Int) := by
  rw [show (c : Int) + 1 = ((c + 1 : Nat) : Int) by simp, Go.wrapU16_nat]

theorem buildHeader_mod (h : MsgHeader) (bn : Nat) (last : Bool) :
    buildHeader h (bn % 65536) last = buildHeader h bn last := by
  unfold buildHeader
  have e1 : bn % 65536 / 256 % 256 = bn / 256 % 256 := by omega
  have e2 : bn % 65536 % 256 = bn % 256 := by omega
  rw [e1, e2]

theorem chunk_eq (body : Bytes) (off n : Nat) (h : off + n ≤ body.length) :
    internal_wire_rawFrameBody_Chunk { body := body } (off : Int) (n : Int) = some { b := (body.drop off).take n } := by
  unfold internal_wire_rawFrameBody_Chunk internal_wire_chunkView
  have hg : ((((decide ((off : Int) < 0)) || (decide ((n : Int) < 0))) || (decide ((off : Int) > (Go.len body)))) ||
      (decide ((n : Int) > ((Go.len body) - (off : Int))))) = false := by
    simp only [Go.len_nat, Bool.or_eq_false_iff, decide_eq_false_iff_not, gt_iff_lt]; omega
  simp only [hg, Bool.false_eq_true, reduceIte, Option.bind_some]
  rw [show (off : Int) + (n : Int) = ((off + n : Nat) : Int) by simp, Go.slice?_eq _ _ _ (by omega) h]
  simp only [Option.bind_some, Nat.add_sub_cancel_left]


/-- The body of the generated `for off := 0; off < total; off += 244` loop of `splitBody`. -/
def SplitStep (body : Bytes) (h : MsgHeader) (f : Int → List secs1_block × Int → Option (List secs1_block × Int)) : Prop :=
  ∀ (off : Int) (out : List secs1_block) (bn : Int), f off (out, bn) =
    (internal_wire_rawFrameBody_Chunk { body := body } off (min 244 ((body.length : Int) - off))).bind fun t =>
      some (out ++ [{ secs1_block.zero with
                        header := secs1_buildHeader h.toGen bn (off + min 244 ((body.length : Int) - off) == (body.length : Int)),
                        body := t }], Go.wrapU 16 (bn + 1))

theorem splitLoop_gen (body : Bytes) (h : MsgHeader) (f) (hf : SplitStep body h f) :
    ∀ (n off bn : Nat) (out : List secs1_block) (fuel : Nat),
      off < body.length → n = Go.iters (off : Int) (body.length : Int) 244 → n ≤ fuel →
      Go.foldUpNM 244 f n (off : Int) (out, ((bn % 65536 : Nat) : Int)) =
        some (out ++ (splitLoop h fuel bn (body.drop off)).map Block.toGen, (((bn + n) % 65536 : Nat) : Int)) := by
  intro n
  induction n with
  | zero =>
    intro off bn out fuel hoff hn _
    exfalso
    unfold Go.iters at hn
    have : (off : Int) < (body.length : Int) := by omega
    simp only [this, reduceIte] at hn
    omega
  | succ n ih =>
    intro off bn out fuel hoff hn hfuel
    obtain ⟨fuel, rfl⟩ : ∃ k, fuel = k + 1 := ⟨fuel - 1, by omega⟩
    unfold Go.iters at hn
    have hlt : (off : Int) < (body.length : Int) := by omega
    simp only [hlt, reduceIte] at hn
    simp only [Go.foldUpNM]
    rw [hf (off : Int) out _]
    by_cases hc : body.length - off ≤ 244
    · -- the last block
      have hmin : min (244 : Int) ((body.length : Int) - (off : Int)) = ((body.length - off : Nat) : Int) := by omega
      rw [hmin, chunk_eq body off (body.length - off) (by omega)]
      have hn0 : n = 0 := by omega
      subst hn0
      have hlast : ((off : Int) + ((body.length - off : Nat) : Int) == (body.length : Int)) = true := by
        simp only [beq_iff_eq]; omega
      have htl : ((body.drop off).drop maxBlockBodySize).isEmpty = true := by
        simp [maxBlockBodySize]; omega
      simp only [Option.bind_some, Go.foldUpNM, hlast, splitLoop, htl, reduceIte, List.map, Block.toGen,
        buildHeader_gen, buildHeader_mod, Go.wrapU16_nat]
      have e : List.take (body.length - off) (List.drop off body) = List.drop off body := by
        apply List.take_of_length_le; simp
      rw [e]
      congr 3
      rw [wrapU16_succ]; congr 1; omega
    · -- a full block, more follow
      have hmin : min (244 : Int) ((body.length : Int) - (off : Int)) = ((244 : Nat) : Int) := by omega
      rw [hmin, chunk_eq body off 244 (by omega)]
      have hlast : ((off : Int) + ((244 : Nat) : Int) == (body.length : Int)) = false := by
        simp only [beq_eq_false_iff_ne, ne_eq]; omega
      have htl : ((body.drop off).drop maxBlockBodySize).isEmpty = false := by
        simp [maxBlockBodySize]; omega
      simp only [Option.bind_some, hlast, splitLoop, htl, reduceIte, List.map, Block.toGen, Bool.false_eq_true,
        buildHeader_gen, buildHeader_mod, maxBlockBodySize, List.drop_drop]
      rw [wrapU16_succ]
      have e1 : (bn % 65536 + 1) % 65536 = (bn + 1) % 65536 := by omega
      rw [e1, show (off : Int) + 244 = ((off + 244 : Nat) : Int) by simp]
      rw [ih (off + 244) (bn + 1) _ fuel (by omega) (by unfold Go.iters; split <;> omega) (by omega)]
      simp only [List.append_assoc, List.cons_append, List.nil_append, Block.toGen]
      have htl' : (List.drop (off + 244) body).isEmpty = false := by
        simp; omega
      have e2 : bn + 1 + n = bn + (n + 1) := by omega
      simp only [htl', Bool.false_eq_true, reduceIte, List.map, Block.toGen, e2]

theorem splitBody_unfold (body : Bytes) (h : MsgHeader) : splitBody body h =
    (if h.deviceID > 0x7FFF then .error .invalidHeader
     else if h.stream > 0x7F then .error .invalidHeader
     else if body.length > 7995148 then .error .tooLarge
     else if body.length = 0 then .ok [{ hdr := buildHeader h 1 true, body := [] }]
     else .ok (splitLoop h (body.length / 244 + 1) 1 body)) := rfl

theorem splitLoop_gen0 (body : Bytes) (h : MsgHeader) (f) (hf : SplitStep body h f) (hpos : 0 < body.length) :
    Go.foldUpM 0 (body.length : Int) 244 f ([], 1) =
      some ((splitLoop h (body.length / 244 + 1) 1 body).map Block.toGen,
            (((1 + Go.iters 0 (body.length : Int) 244) % 65536 : Nat) : Int)) := by
  have := splitLoop_gen body h f hf (Go.iters 0 (body.length : Int) 244) 0 1 [] (body.length / 244 + 1)
    hpos rfl (by unfold Go.iters; split <;> omega)
  simpa [Go.foldUpM] using this

theorem splitBody_gen (body : Bytes) (h : MsgHeader) :
    secs1_splitBody { body := body } h.toGen =
      some (match splitBody body h with
        | .ok bs => (bs.map Block.toGen, none)
        | .error e => ([], some e.goName)) := by
  rw [splitBody_unfold]
  unfold secs1_splitBody
  by_cases h1 : h.deviceID > 0x7FFF
  · have : decide ((h.toGen.deviceID : Int) > 32767) = true := by
      show decide ((h.deviceID : Int) > 32767) = true
      simp only [decide_eq_true_eq]; omega
    rw [if_pos h1]
    simp only [this, reduceIte, SplitErr.goName]
  · have : decide ((h.toGen.deviceID : Int) > 32767) = false := by
      show decide ((h.deviceID : Int) > 32767) = false
      simp only [decide_eq_false_iff_not]; omega
    rw [if_neg h1]
    simp only [this, Bool.false_eq_true, reduceIte]
    by_cases h2 : h.stream > 0x7F
    · have : decide ((h.toGen.stream : Int) > 127) = true := by
        show decide ((h.stream : Int) > 127) = true
        simp only [decide_eq_true_eq]; omega
      rw [if_pos h2]
      simp only [this, reduceIte, SplitErr.goName]
    · have : decide ((h.toGen.stream : Int) > 127) = false := by
        show decide ((h.stream : Int) > 127) = false
        simp only [decide_eq_false_iff_not]; omega
      rw [if_neg h2]
      simp only [this, Bool.false_eq_true, reduceIte]
      by_cases h3 : body.length > 7995148
      · have : decide (internal_wire_rawFrameBody_Len { body := body } > 7995148) = true := by
          show decide (((body.length : Nat) : Int) > 7995148) = true
          simp only [decide_eq_true_eq]; omega
        rw [if_pos h3]
        simp only [this, reduceIte, SplitErr.goName]
      · have : decide (internal_wire_rawFrameBody_Len { body := body } > 7995148) = false := by
          show decide (((body.length : Nat) : Int) > 7995148) = false
          simp only [decide_eq_false_iff_not]; omega
        rw [if_neg h3]
        simp only [this, Bool.false_eq_true, reduceIte]
        by_cases h4 : body.length = 0
        · have : (internal_wire_rawFrameBody_Len { body := body } == 0) = true := by
            show (((body.length : Nat) : Int) == 0) = true
            simp only [beq_iff_eq]; omega
          rw [if_pos h4]
          simp only [this, reduceIte, List.nil_append, List.map, Block.toGen]
          rw [show (1 : Int) = ((1 : Nat) : Int) from rfl, buildHeader_gen h 1 true]
          rfl
        · have : (internal_wire_rawFrameBody_Len { body := body } == 0) = false := by
            show (((body.length : Nat) : Int) == 0) = false
            simp only [beq_eq_false_iff_ne, ne_eq]; omega
          rw [if_neg h4]
          simp only [this, Bool.false_eq_true, reduceIte]
          simp only [internal_wire_rawFrameBody_Len, Go.len_nat]
          rw [splitLoop_gen0 body h _ (fun _ _ _ => rfl) (by omega)]
          rfl

/-! ### assembleFrame: block-number / E-bit / header validation, the synthesized HSMS header, the body -/

def FrameErr.goName : FrameErr → String
  | .empty => "ErrEmptyBlocks"
  | .blockNumber => "ErrBlockNumberMismatch"
  | .eBit => "ErrEBitPlacement"
  | .header => "ErrHeaderMismatch"

theorem toGen_inj (h1 h2 : MsgHeader) (h : h1.toGen = h2.toGen) : h1 = h2 := by
  cases h1; cases h2
  simp only [MsgHeader.toGen, secs1_messageHeader.mk.injEq, List.cons.injEq, and_true] at h
  obtain ⟨a, b, c, d, e, f, g, i, j⟩ := h
  simp only [MsgHeader.mk.injEq]
  refine ⟨by omega, b, by omega, by omega, e, f, g, i, j⟩

theorem hdr_bne (h1 h2 : MsgHeader) : (h1.toGen != h2.toGen) = decide (h1 ≠ h2) := by
  by_cases h : h1 = h2
  · subst h; simp
  · have : h1.toGen ≠ h2.toGen := fun e => h (toGen_inj _ _ e)
    simp [h, this]

/-- The validation loop of the generated `assembleFrame`. -/
def CheckStep (first : MsgHeader) (single0 : Bool) (n : Nat)
    (f : Int → secs1_block → Int → Option (Go.Ctl Int (Go.Bytes × Go.Err))) : Prop :=
  ∀ (i : Int) (b : secs1_block) (total : Int), f i b total =
    ((if single0 then some (0 : Int) else some (i + 1)) : Option Int).bind fun wantNum =>
      if (secs1_block_blockNumber b != wantNum) then some (.ret (([] : Go.Bytes), some "ErrBlockNumberMismatch"))
      else if (secs1_block_eBit b != (i == ((n : Int) - 1))) then some (.ret (([] : Go.Bytes), some "ErrEBitPlacement"))
      else if (secs1_block_messageHeader b != first.toGen) then some (.ret (([] : Go.Bytes), some "ErrHeaderMismatch"))
      else some (.next (total + internal_wire_Chunk_Len b.body))

def bodyLen (bs : List Block) : Nat := (bodiesOf bs).length

theorem checkBlocks_loop (first : MsgHeader) (single0 : Bool) (n : Nat) (f) (hf : CheckStep first single0 n f) :
    ∀ (bs : List Block) (i total : Nat),
      Go.loopLFromM f (i : Int) (bs.map Block.toGen) (total : Int) =
        some (match checkBlocks first single0 n i bs with
          | some e => .error (([] : Go.Bytes), some e.goName)
          | none => .ok (((total + bodyLen bs : Nat)) : Int)) := by
  intro bs
  induction bs with
  | nil => intro i total; simp [Go.loopLFromM, checkBlocks, bodyLen, bodiesOf]
  | cons b bs ih =>
    intro i total
    simp only [List.map, Go.loopLFromM, checkBlocks]
    rw [hf]
    have hbn : secs1_block_blockNumber b.toGen = (b.hdr.blockNumber : Int) := blockNumber_gen b
    have heb : secs1_block_eBit b.toGen = b.hdr.eBit := eBit_gen b
    have hmh : secs1_block_messageHeader b.toGen = b.hdr.msgHeader.toGen := messageHeader_gen b
    rw [hbn, heb, hmh, hdr_bne]
    have hlen : internal_wire_Chunk_Len b.toGen.body = (b.body.length : Int) := rfl
    rw [hlen]
    have hidx : ((i : Int) == (n : Int) - 1) = decide (i + 1 = n) := by
      by_cases h : i + 1 = n
      · have : ((i : Int) == (n : Int) - 1) = true := by simp only [beq_iff_eq]; omega
        simp [this, h]
      · have : ((i : Int) == (n : Int) - 1) = false := by simp only [beq_eq_false_iff_ne, ne_eq]; omega
        simp [this, h]
    rw [hidx]
    -- the block number this position must carry
    have hw : ((if single0 then some (0 : Int) else some ((i : Int) + 1)) : Option Int)
        = some (((if single0 then 0 else i + 1 : Nat)) : Int) := by
      cases single0 <;> simp
    rw [hw]
    simp only [Option.bind_some]
    generalize (if single0 then 0 else i + 1 : Nat) = want
    by_cases h1 : b.hdr.blockNumber ≠ want
    · have : ((b.hdr.blockNumber : Int) != (want : Int)) = true := by simp only [bne_iff_ne, ne_eq]; omega
      rw [if_pos h1]
      simp only [this, reduceIte, FrameErr.goName]
    · have : ((b.hdr.blockNumber : Int) != (want : Int)) = false := by simp only [bne_eq_false_iff_eq]; omega
      rw [if_neg h1]
      simp only [this, Bool.false_eq_true, reduceIte]
      by_cases h2 : b.hdr.eBit ≠ decide (i + 1 = n)
      · have : (b.hdr.eBit != decide (i + 1 = n)) = true := by simpa using h2
        rw [if_pos h2]
        simp only [this, reduceIte, FrameErr.goName]
      · have : (b.hdr.eBit != decide (i + 1 = n)) = false := by simpa using h2
        rw [if_neg h2]
        simp only [this, Bool.false_eq_true, reduceIte]
        by_cases h3 : b.hdr.msgHeader ≠ first
        · rw [if_pos h3]
          have d : decide (b.hdr.msgHeader ≠ first) = true := decide_eq_true h3
          simp only [d, reduceIte, FrameErr.goName]
        · rw [if_neg h3]
          have d : decide (b.hdr.msgHeader ≠ first) = false := decide_eq_false h3
          simp only [d, Bool.false_eq_true, reduceIte]
          have := ih (i + 1) (total + b.body.length)
          rw [show ((i + 1 : Nat) : Int) = (i : Int) + 1 by simp,
              show ((total + b.body.length : Nat) : Int) = (total : Int) + (b.body.length : Int) by simp] at this
          rw [this]
          have hb : total + b.body.length + bodyLen bs = total + bodyLen (b :: bs) := by
            simp [bodyLen, bodiesOf]; omega
          rw [hb]

theorem checkBlocks_loop0 (first : MsgHeader) (single0 : Bool) (n : Nat) (f) (hf : CheckStep first single0 n f)
    (bs : List Block) :
    Go.loopLFromM f 0 (bs.map Block.toGen) 0 =
      some (match checkBlocks first single0 n 0 bs with
        | some e => .error (([] : Go.Bytes), some e.goName)
        | none => .ok ((bodyLen bs : Nat) : Int)) := by
  have := checkBlocks_loop first single0 n f hf bs 0 0
  simpa using this

theorem bodies_fold (g : Int → secs1_block → Go.Bytes → Option Go.Bytes)
    (hg : ∀ i b st, g i b st = some (internal_wire_Chunk_AppendTo b.body st)) :
    ∀ (bs : List Block) (i : Int) (buf : Bytes),
      Go.foldLFromM g i (bs.map Block.toGen) buf = some (buf ++ bodiesOf bs) := by
  intro bs
  induction bs with
  | nil => intro i buf; simp [Go.foldLFromM, bodiesOf]
  | cons b bs ih =>
    intro i buf
    simp only [List.map, Go.foldLFromM, hg, Option.bind_some, ih]
    simp [internal_wire_Chunk_AppendTo, Block.toGen, bodiesOf]

theorem assembleFrame_unfold (blocks : List Block) : assembleFrame blocks =
    (match blocks with
     | [] => .error .empty
     | b0 :: _ =>
       match checkBlocks b0.hdr.msgHeader (blocks.length == 1 && b0.hdr.blockNumber == 0) blocks.length 0 blocks with
       | some e => .error e
       | none => .ok (hsmsHeader b0.hdr.msgHeader ++ bodiesOf blocks)) := by
  cases blocks <;> rfl

theorem assembleFrame_gen (blocks : List Block) :
    secs1_assembleFrame (blocks.map Block.toGen) =
      some (match assembleFrame blocks with
        | .ok f => (f, none)
        | .error e => (([] : Go.Bytes), some e.goName)) := by
  rw [assembleFrame_unfold]
  unfold secs1_assembleFrame
  cases blocks with
  | nil => simp [Go.lenL, FrameErr.goName]
  | cons b0 rest =>
    have hl : (Go.lenL ((b0 :: rest).map Block.toGen) == 0) = false := by
      simp only [Go.lenL, List.length_map, List.length_cons, beq_eq_false_iff_ne, ne_eq]; omega
    simp only [hl, Bool.false_eq_true, reduceIte]
    have h0 : Go.idxL? ((b0 :: rest).map Block.toGen) 0 = some b0.toGen := by simp [Go.idxL?]
    simp only [h0, Option.bind_some]
    -- singleBlockZero
    have hs : (if (Go.lenL ((b0 :: rest).map Block.toGen) == 1) = true
          then some (secs1_block_blockNumber b0.toGen == 0) else some false)
        = some ((b0 :: rest).length == 1 && b0.hdr.blockNumber == 0) := by
      rw [blockNumber_gen]
      by_cases h : (b0 :: rest).length = 1
      · have : (Go.lenL ((b0 :: rest).map Block.toGen) == 1) = true := by
          simp only [Go.lenL, List.length_map, beq_iff_eq]; omega
        simp only [this, reduceIte, Go.natCast_beq_zero, h, beq_self_eq_true, Bool.true_and]
      · have : (Go.lenL ((b0 :: rest).map Block.toGen) == 1) = false := by
          simp only [Go.lenL, List.length_map, beq_eq_false_iff_ne, ne_eq]; omega
        have h' : ((b0 :: rest).length == 1) = false := by simpa using h
        simp only [this, Bool.false_eq_true, reduceIte, h', Bool.false_and]
    rw [hs]
    simp only [Option.bind_some, Go.loopLM]
    rw [messageHeader_gen]
    rw [checkBlocks_loop0 b0.hdr.msgHeader ((b0 :: rest).length == 1 && b0.hdr.blockNumber == 0)
      (b0 :: rest).length _ (by
        intro i b total
        simp only [Go.lenL, List.length_map]) (b0 :: rest)]
    simp only [Option.bind_some]
    cases checkBlocks b0.hdr.msgHeader ((b0 :: rest).length == 1 && b0.hdr.blockNumber == 0) (b0 :: rest).length 0
        (b0 :: rest) with
    | some e => rfl
    | none =>
      simp only []
      have hm : Go.make? 10 (10 + ((bodyLen (b0 :: rest) : Nat) : Int)) = some (List.replicate 10 0) := by
        unfold Go.make?
        have : (0 : Int) ≤ 10 ∧ (10 : Int) ≤ 10 + ((bodyLen (b0 :: rest) : Nat) : Int) := by omega
        simp only [this, and_self, reduceIte]
        rfl
      rw [hm]
      simp only [Option.bind_some, Go.foldLM]
      generalize b0.hdr.msgHeader = h
      obtain ⟨dev, r, st, fn, w, s0, s1, s2, s3⟩ := h
      cases w <;>
      simp only [MsgHeader.toGen, List.replicate, Go.set?_0, Go.set?_1, Go.set?_2, Go.set?_3, Go.idx?_2, Go.slice?_6_10,
        Option.bind_some, Bool.false_eq_true, reduceIte, Go.splice, Go.copy, List.take, List.drop, List.length,
        List.cons_append, List.nil_append, bodies_fold _ (fun _ _ _ => rfl), hsmsHeader, orTop,
        Go.shr8_nat, Go.wrapU8_nat, Go.band127_nat, Go.byte_nat, Go.byte_bor128_u8_ofNat, Go.ofNat_mod256, Nat.mod_mod]

end GoSecs.Secs1
