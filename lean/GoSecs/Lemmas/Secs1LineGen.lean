/-
  Tie between the SECS-I line engine regenerated from secs1/line.go (GoSecs/Gen/Secs1.lean, effect mode with the I/O
  extension of tools/go2lean: `readByte`, `readFull`, `writeByte`, `writeAll`, `drainUntilSilence`, `receiveBlock`,
  `sendBlockData`, `sendBlockOnce`, `sendBlock`; `conn.SetReadDeadline`, `conn.Write`, `reader.ReadByte`, `reader.Read`,
  the clock `l.now()`, the live timers `l.timers()`, the context poll, the metrics counters and the `deliver` callback
  are trace entries, their results come from the oracle list) and the hand-written sequential line engine below
  (`…S` functions over a script of environment answers `Io.Ans`).

  Part 1 (`…_gen`): for every script, every fuel, both roles, every block and retry limit for which the sequential
  function returns, the regenerated function returns the same results, the trace is the sequential function's events
  (`LnEv`) rendered call by call, and the same answers are left unused.
  Part 2 (Lemmas/Secs1LineModel.lean): on the script of a peer schedule the sequential functions are the model's
  `sendAttempt` / `sendBlock` / `receiveBytes` (GoSecs/Model/Secs1.lean).

  time.Time / time.Duration are integers (nanoseconds, translator assumption).  Core Lean only.
-/
import GoSecs.Lemmas.Secs1Gen
import GoSecs.Lemmas.IoScript

set_option linter.unusedSimpArgs false
set_option linter.unusedVariables false

namespace GoSecs.Secs1
open GoSecs.Gen GoSecs.Io

/-- what the line engine does, one entry per call that leaves the translated code -/
inductive LnEv where
  | clock                          -- l.now()
  | timers                         -- l.timers()
  | deadline (t : Int)             -- conn.SetReadDeadline(t)
  | readByte                       -- reader.ReadByte()
  | read (room : Nat)              -- reader.Read(p), len(p) = room
  | write (p : Bytes)              -- conn.Write(p)
  | poll                           -- select { case <-ctx.Done(): … default: }
  | ctxErr                         -- ctx.Err()
  | inc (counter : String)         -- l.metrics.inc…()
  | deliver (blk : secs1_block)    -- deliver(recv)
  deriving DecidableEq, Repr

def LnEv.eff : LnEv → Go.Effect
  | .clock => .call "secs1.lineIO.now" []
  | .timers => .call "secs1.lineIO.timers" []
  | .deadline t => .call "net.Conn.SetReadDeadline" [.int t]
  | .readByte => .call "bufio.Reader.ReadByte" []
  | .read room => .call "bufio.Reader.Read" [.int (room : Int)]
  | .write p => .call "net.Conn.Write" [.bytes p]
  | .poll => .call "context.Context.Done.poll" []
  | .ctxErr => .call "context.Context.Err" []
  | .inc c => .call ("secs1.ConnectionMetrics." ++ c) []
  | .deliver b => .call "secs1.lineIO.sendBlock.deliver" (secs1_block.toVals b)

def rend (evs : List LnEv) : List Go.Effect := evs.map LnEv.eff

theorem rend_append (a b : List LnEv) : rend (a ++ b) = rend a ++ rend b := by simp [rend]
@[simp] theorem rend_nil : rend [] = [] := rfl
theorem rend_cons (a : LnEv) (b : List LnEv) : rend (a :: b) = a.eff :: rend b := rfl

/-! ## `readByte`, `writeByte` -/

/-- `l.readByte(timeout)`: the clock, the deadline, one byte -/
def readByteS (timeout : Int) (s : List Ans) : Option (UInt8 × Go.Err × List LnEv × List Ans) :=
  (expClock s).bind fun (t, s1) =>
  (expErr s1).bind fun (de, s2) =>
  if de.isSome then some (0, de, [.clock, .deadline (t + timeout)], s2)
  else (expByte s2).bind fun (b, e, s3) => some (b, e, [.clock, .deadline (t + timeout), .readByte], s3)

theorem wrapU8_byte (b : UInt8) : Go.wrapU 8 (b.toNat : Int) = (b.toNat : Int) := by
  rw [Go.wrapU8_nat]; have := b.toNat_lt; congr 1; omega

theorem readByte_gen (l : secs1_lineIO) (timeout : Int) (s : List Ans) (rest : List Go.Val)
    (b : UInt8) (e : Go.Err) (evs : List LnEv) (s' : List Ans) (h : readByteS timeout s = some (b, e, evs, s')) :
    secs1_lineIO_readByte l timeout (enc s ++ rest) = ((b.toNat : Int), e, rend evs, enc s' ++ rest) := by
  simp only [readByteS, Option.bind_eq_some_iff] at h
  obtain ⟨⟨t, s1⟩, hc, ⟨de, s2⟩, hd, h⟩ := h
  have := expClock_some hc
  subst this
  have := expErr_some hd
  subst this
  cases de with
  | some d =>
    simp only [Option.isSome_some, reduceIte, Option.some.injEq, Prod.mk.injEq] at h
    obtain ⟨rfl, rfl, rfl, rfl⟩ := h
    simp [secs1_lineIO_readByte, enc_cons, Ans.vals, Go.orc, Go.Val.asInt, Go.Val.asErr, rend, LnEv.eff]
  | none =>
    simp only [Option.isSome_none, Bool.false_eq_true, reduceIte, Option.bind_eq_some_iff, Option.some.injEq,
      Prod.mk.injEq] at h
    obtain ⟨⟨b', e', s3⟩, hb, rfl, rfl, rfl, rfl⟩ := h
    have := expByte_some hb
    subst this
    simp [secs1_lineIO_readByte, enc_cons, Ans.vals, Go.orc, Go.Val.asInt, Go.Val.asErr, rend, LnEv.eff, wrapU8_byte]

/-- `l.writeByte(b)` -/
def writeByteS (b : UInt8) (s : List Ans) : Option (Go.Err × List LnEv × List Ans) :=
  (expWrote s).bind fun (_, e, s1) => some (e, [.write [b]], s1)

theorem writeByte_gen (l : secs1_lineIO) (b : UInt8) (s : List Ans) (rest : List Go.Val)
    (e : Go.Err) (evs : List LnEv) (s' : List Ans) (h : writeByteS b s = some (e, evs, s')) :
    secs1_lineIO_writeByte l (b.toNat : Int) (enc s ++ rest) = (e, rend evs, enc s' ++ rest) := by
  simp only [writeByteS, Option.bind_eq_some_iff, Option.some.injEq, Prod.mk.injEq] at h
  obtain ⟨⟨n, e', s1⟩, hw, rfl, rfl, rfl⟩ := h
  have := expWrote_some hw
  subst this
  simp [secs1_lineIO_writeByte, enc_cons, Ans.vals, Go.orc, Go.Val.asInt, Go.Val.asErr, rend, LnEv.eff, Go.byte_nat,
    Go.ofNat_toNat]

/-! ## `writeAll` -/

structure WrSt where
  evs : List LnEv := []
  script : List Ans := []
  written : Int := 0

def wrGuard (data : Bytes) (st : WrSt) : Bool := decide (st.written < (data.length : Int))

/-- one `conn.Write(data[written:])`; `written` below 0 (a writer that reports a negative count) makes the slice
    panic: no claim -/
def wrStep (data : Bytes) (st : WrSt) : Option (Step WrSt (Go.Err × WrSt)) :=
  if st.written < 0 then none
  else
    (expWrote st.script).bind fun (n, e, s1) =>
    let st' : WrSt := { evs := st.evs ++ [.write (data.drop st.written.toNat)], script := s1, written := st.written + n }
    if e.isSome then some (.done (e, st')) else some (.next st')

/-- `l.writeAll(data)` -/
def writeAllS (fuel : Nat) (data : Bytes) (s : List Ans) : Option (Go.Err × List LnEv × List Ans) :=
  match mloop (wrGuard data) (wrStep data) fuel { script := s } with
  | none => none
  | some (.ok st) => some (none, st.evs, st.script)
  | some (.error (e, st)) => some (e, st.evs, st.script)

def wrEnc (rest : List Go.Val) (st : WrSt) : (List Go.Effect) × (List Go.Val) × Int :=
  (rend st.evs, enc st.script ++ rest, st.written)

def wrRes (rest : List Go.Val) (r : Go.Err × WrSt) : Go.Err × List Go.Effect × List Go.Val :=
  (r.1, rend r.2.evs, enc r.2.script ++ rest)

theorem writeAll_body (data : Bytes) (rest : List Go.Val) (st : WrSt) (x : Step WrSt (Go.Err × WrSt))
    (hg : wrGuard data st = true) (hs : wrStep data st = some x) :
    secs1_lineIO_writeAll_loop1_body data (wrEnc rest st) =
      some (Step.ctl (wrEnc rest) (wrRes rest) x) := by
  obtain ⟨evs, script, written⟩ := st
  simp only [wrGuard, decide_eq_true_eq] at hg
  simp only [wrStep] at hs
  by_cases hneg : written < 0
  · simp [hneg] at hs
  · simp only [hneg, reduceIte, Option.bind_eq_some_iff] at hs
    obtain ⟨⟨n, e, s1⟩, hw, hs⟩ := hs
    have := expWrote_some hw
    subst this
    have hk : written = ((written.toNat : Nat) : Int) := by omega
    have hsl : Go.slice? data written (Go.len data) = some (data.drop written.toNat) := by
      rw [hk]; exact slice_tail data written.toNat (by omega)
    cases e with
    | some e =>
      simp only [Option.isSome_some, reduceIte, Option.some.injEq] at hs
      subst hs
      simp [secs1_lineIO_writeAll_loop1_body, Step.ctl, wrEnc, wrRes, hsl, enc_cons, Ans.vals, Go.orc, Go.Val.asInt, Go.Val.asErr,
        rend, LnEv.eff]
    | none =>
      simp only [Option.isSome_none, Bool.false_eq_true, reduceIte, Option.some.injEq] at hs
      subst hs
      simp [secs1_lineIO_writeAll_loop1_body, Step.ctl, wrEnc, hsl, enc_cons, Ans.vals, Go.orc, Go.Val.asInt, Go.Val.asErr,
        rend, LnEv.eff]

theorem writeAll_gen (l : secs1_lineIO) (fuel : Nat) (data : Bytes) (s : List Ans) (rest : List Go.Val)
    (e : Go.Err) (evs : List LnEv) (s' : List Ans) (h : writeAllS fuel data s = some (e, evs, s')) :
    secs1_lineIO_writeAll l data fuel (enc s ++ rest) = some (e, rend evs, enc s' ++ rest) := by
  unfold writeAllS at h
  cases hm : mloop (wrGuard data) (wrStep data) fuel { script := s } with
  | none => simp [hm] at h
  | some r =>
    have sim := loopWhileM_sim (secs1_lineIO_writeAll_loop1_cond data) (secs1_lineIO_writeAll_loop1_body data)
      (secs1_lineIO_writeAll_loop1_post data) (wrGuard data) (wrStep data) (wrEnc rest) (wrRes rest)
      (fun st => rfl)
      (fun st x hg hs => writeAll_body data rest st x hg hs)
      (fun st => rfl) fuel _ r hm
    have e0 : wrEnc rest { script := s } = (([] : List Go.Effect), enc s ++ rest, (0 : Int)) := rfl
    rw [e0] at sim
    unfold secs1_lineIO_writeAll
    simp only [sim, Option.bind_some]
    cases r with
    | ok st =>
      simp only [hm, Option.some.injEq, Prod.mk.injEq] at h
      obtain ⟨rfl, rfl, rfl⟩ := h
      rfl
    | error r =>
      obtain ⟨e', st⟩ := r
      simp only [hm, Option.some.injEq, Prod.mk.injEq] at h
      obtain ⟨rfl, rfl, rfl⟩ := h
      rfl

/-! ## `readFull` -/

structure RfSt where
  evs : List LnEv := []
  script : List Ans := []
  buf : Bytes := []
  read : Nat := 0

def rfGuard (st : RfSt) : Bool := decide (st.read < st.buf.length)

/-- one iteration: the T1 deadline (clock + the LIVE T1) is re-armed before EACH Read -/
def rfStep (st : RfSt) : Option (Step RfSt (Go.Err × RfSt)) :=
  (expClock st.script).bind fun (t, s1) =>
  (expTimers s1).bind fun (tc, s2) =>
  (expErr s2).bind fun (de, s3) =>
  if de.isSome then
    some (.done (de, { st with evs := st.evs ++ [.clock, .timers, .deadline (t + tc.T1)], script := s3 }))
  else
    (expRead s3).bind fun (data, e, s4) =>
    let got := data.take (st.buf.length - st.read)
    let st' : RfSt :=
      { evs := st.evs ++ [.clock, .timers, .deadline (t + tc.T1), .read (st.buf.length - st.read)], script := s4,
        buf := st.buf.take st.read ++ got ++ st.buf.drop (st.read + got.length), read := st.read + got.length }
    if e.isSome then some (.done (e, st')) else some (.next st')

/-- `l.readFull(buf)`: error, the buffer afterwards -/
def readFullS (fuel : Nat) (buf : Bytes) (s : List Ans) : Option (Go.Err × Bytes × List LnEv × List Ans) :=
  match mloop rfGuard rfStep fuel { script := s, buf := buf } with
  | none => none
  | some (.ok st) => some (none, st.buf, st.evs, st.script)
  | some (.error (e, st)) => some (e, st.buf, st.evs, st.script)

def rfEnc (rest : List Go.Val) (st : RfSt) : (List Go.Effect) × (List Go.Val) × Go.Bytes × Int :=
  (rend st.evs, enc st.script ++ rest, st.buf, (st.read : Int))

def rfRes (rest : List Go.Val) (r : Go.Err × RfSt) : Go.Err × Go.Bytes × List Go.Effect × List Go.Val :=
  (r.1, r.2.buf, rend r.2.evs, enc r.2.script ++ rest)

theorem readFull_body (rest : List Go.Val) (st : RfSt) (x : Step RfSt (Go.Err × RfSt))
    (hg : rfGuard st = true) (hs : rfStep st = some x) :
    secs1_lineIO_readFull_loop1_body (rfEnc rest st) =
      some (Step.ctl (rfEnc rest) (rfRes rest) x) := by
  obtain ⟨evs, script, buf, read⟩ := st
  simp only [rfGuard, decide_eq_true_eq] at hg
  have hle : read ≤ buf.length := by omega
  have hsl : Go.slice? buf (read : Int) ((buf.length : Nat) : Int) = some (buf.drop read) := slice_tail buf read hle
  simp only [rfStep, Option.bind_eq_some_iff] at hs
  obtain ⟨⟨t, s1⟩, hc, ⟨tc, s2⟩, ht, ⟨de, s3⟩, hd, hs⟩ := hs
  have := expClock_some hc; subst this
  have := expTimers_some ht; subst this
  have := expErr_some hd; subst this
  cases de with
  | some d =>
    simp only [Option.isSome_some, reduceIte, Option.some.injEq] at hs
    subst hs
    simp [secs1_lineIO_readFull_loop1_body, Step.ctl, rfEnc, rfRes, enc_cons, Ans.vals, List.append_assoc, ofVals_timers, Go.orc,
      Go.Val.asInt, Go.Val.asErr, rend, LnEv.eff]
  | none =>
    simp only [Option.isSome_none, Bool.false_eq_true, reduceIte, Option.bind_eq_some_iff] at hs
    obtain ⟨⟨data, e, s4⟩, hr, hs⟩ := hs
    have := expRead_some hr; subst this
    have hgot : (data.take (buf.length - read)).length ≤ buf.length - read := by simp; omega
    have hsp := splice_read buf (data.take (buf.length - read)) read hle hgot
    simp only at hs
    generalize hgd : List.take (buf.length - read) data = got at hs hgot hsp
    cases e with
    | some e =>
      simp only [Option.isSome_some, reduceIte, Option.some.injEq] at hs
      subst hs
      simp [secs1_lineIO_readFull_loop1_body, Step.ctl, rfEnc, rfRes, enc_cons, Ans.vals, List.append_assoc, ofVals_timers, Go.orc,
        Go.Val.asInt, Go.Val.asErr, Go.Val.asBytes, rend, LnEv.eff, hsl, hgd, hsp, Go.len]
    | none =>
      simp only [Option.isSome_none, Bool.false_eq_true, reduceIte, Option.some.injEq] at hs
      subst hs
      simp [secs1_lineIO_readFull_loop1_body, Step.ctl, rfEnc, enc_cons, Ans.vals, List.append_assoc, ofVals_timers, Go.orc,
        Go.Val.asInt, Go.Val.asErr, Go.Val.asBytes, rend, LnEv.eff, hsl, hgd, hsp, Go.len]
      rw [← hgd]; simp

theorem readFull_gen (l : secs1_lineIO) (fuel : Nat) (buf : Bytes) (s : List Ans) (rest : List Go.Val)
    (e : Go.Err) (buf' : Bytes) (evs : List LnEv) (s' : List Ans) (h : readFullS fuel buf s = some (e, buf', evs, s')) :
    secs1_lineIO_readFull l buf fuel (enc s ++ rest) = some (e, buf', rend evs, enc s' ++ rest) := by
  unfold readFullS at h
  cases hm : mloop rfGuard rfStep fuel { script := s, buf := buf } with
  | none => simp [hm] at h
  | some r =>
    have sim := loopWhileM_sim secs1_lineIO_readFull_loop1_cond secs1_lineIO_readFull_loop1_body
      secs1_lineIO_readFull_loop1_post rfGuard rfStep (rfEnc rest) (rfRes rest)
      (fun st => by
        have hd : decide ((st.read : Int) < (st.buf.length : Int)) = decide (st.read < st.buf.length) := by
          by_cases hh : st.read < st.buf.length
          · rw [decide_eq_true hh, decide_eq_true (by omega)]
          · rw [decide_eq_false hh, decide_eq_false (by omega)]
        show some (decide ((st.read : Int) < (st.buf.length : Int)), rfEnc rest st) = _
        rw [hd]; rfl)
      (fun st x hg hs => readFull_body rest st x hg hs)
      (fun st => rfl) fuel _ r hm
    have e0 : rfEnc rest { script := s, buf := buf } = (([] : List Go.Effect), enc s ++ rest, buf, (0 : Int)) := rfl
    rw [e0] at sim
    unfold secs1_lineIO_readFull
    simp only [sim, Option.bind_some]
    cases r with
    | ok st =>
      simp only [hm, Option.some.injEq, Prod.mk.injEq] at h
      obtain ⟨rfl, rfl, rfl, rfl⟩ := h
      rfl
    | error r =>
      obtain ⟨e', st⟩ := r
      simp only [hm, Option.some.injEq, Prod.mk.injEq] at h
      obtain ⟨rfl, rfl, rfl, rfl⟩ := h
      rfl

/-! ## `drainUntilSilence` -/

structure DrSt where
  evs : List LnEv := []
  script : List Ans := []
  buf : Bytes := []

/-- one iteration: re-arm T1 (the result of SetReadDeadline is ignored), Read into the 256-byte scratch buffer; an
    error (T1 elapsed with no data) ends the drain -/
def drStep (st : DrSt) : Option (Step DrSt DrSt) :=
  (expClock st.script).bind fun (t, s1) =>
  (expTimers s1).bind fun (tc, s2) =>
  (expRead s2).bind fun (data, e, s3) =>
  let st' : DrSt :=
    { evs := st.evs ++ [.clock, .timers, .deadline (t + tc.T1), .read st.buf.length], script := s3,
      buf := Go.copy st.buf (data.take st.buf.length) }
  if e.isSome then some (.done st') else some (.next st')

/-- `make([]byte, 256)` -/
def drainBuf : Bytes := List.replicate 256 0

/-- `l.drainUntilSilence()` -/
def drainS (fuel : Nat) (s : List Ans) : Option (List LnEv × List Ans) :=
  match mloop (fun _ => true) drStep fuel { script := s, buf := drainBuf } with
  | some (.error st) => some (st.evs, st.script)
  | _ => none

def drEnc (rest : List Go.Val) (st : DrSt) : (List Go.Effect) × (List Go.Val) × Go.Bytes :=
  (rend st.evs, enc st.script ++ rest, st.buf)

def drRes (rest : List Go.Val) (st : DrSt) : List Go.Effect × List Go.Val := (rend st.evs, enc st.script ++ rest)

theorem drain_body (rest : List Go.Val) (st : DrSt) (x : Step DrSt DrSt) (hs : drStep st = some x) :
    secs1_lineIO_drainUntilSilence_loop1_body (drEnc rest st) =
      some (Step.ctl (drEnc rest) (drRes rest) x) := by
  obtain ⟨evs, script, buf⟩ := st
  simp only [drStep, Option.bind_eq_some_iff] at hs
  obtain ⟨⟨t, s1⟩, hc, ⟨tc, s2⟩, ht, ⟨data, e, s3⟩, hr, hs⟩ := hs
  have := expClock_some hc; subst this
  have := expTimers_some ht; subst this
  have := expRead_some hr; subst this
  cases e with
  | some e =>
    simp only [Option.isSome_some, reduceIte, Option.some.injEq] at hs
    subst hs
    simp [secs1_lineIO_drainUntilSilence_loop1_body, Step.ctl, drEnc, drRes, enc_cons, Ans.vals, List.append_assoc, ofVals_timers,
      Go.orc, Go.Val.asInt, Go.Val.asErr, Go.Val.asBytes, rend, LnEv.eff, Go.len]
  | none =>
    simp only [Option.isSome_none, Bool.false_eq_true, reduceIte, Option.some.injEq] at hs
    subst hs
    simp [secs1_lineIO_drainUntilSilence_loop1_body, Step.ctl, drEnc, enc_cons, Ans.vals, List.append_assoc, ofVals_timers,
      Go.orc, Go.Val.asInt, Go.Val.asErr, Go.Val.asBytes, rend, LnEv.eff, Go.len]

theorem drain_gen (l : secs1_lineIO) (fuel : Nat) (s : List Ans) (rest : List Go.Val)
    (evs : List LnEv) (s' : List Ans) (h : drainS fuel s = some (evs, s')) :
    secs1_lineIO_drainUntilSilence l fuel (enc s ++ rest) = some (rend evs, enc s' ++ rest) := by
  unfold drainS at h
  cases hm : mloop (fun _ => true) drStep fuel { script := s, buf := drainBuf } with
  | none => simp [hm] at h
  | some r =>
    have sim := loopWhileM_sim secs1_lineIO_drainUntilSilence_loop1_cond secs1_lineIO_drainUntilSilence_loop1_body
      secs1_lineIO_drainUntilSilence_loop1_post (fun _ => true) drStep (drEnc rest) (drRes rest)
      (fun st => rfl)
      (fun st x _ hs => drain_body rest st x hs)
      (fun st => rfl) fuel _ r hm
    have e0 : drEnc rest { script := s, buf := drainBuf } =
        (([] : List Go.Effect), enc s ++ rest, List.replicate 256 (0 : UInt8)) := rfl
    rw [e0] at sim
    unfold secs1_lineIO_drainUntilSilence
    simp only [sim, Option.bind_some]
    cases r with
    | ok st => simp [hm] at h
    | error st =>
      simp only [hm, Option.some.injEq, Prod.mk.injEq] at h
      obtain ⟨rfl, rfl⟩ := h
      rfl

/-! ## `sendBlockData` -/

theorem byte_beq (b : UInt8) (k : UInt8) : (((b.toNat : Nat) : Int) == ((k.toNat : Nat) : Int)) = decide (b = k) := by
  by_cases h : b = k
  · subst h; simp
  · have : b.toNat ≠ k.toNat := fun hh => h (UInt8.toNat_inj.mp hh)
    simp [h]; omega

/-- `l.sendBlockData(blk)`: write the wire form, wait for one character under T2 -/
def sendDataS (fuel : Nat) (blk : Block) (s : List Ans) : Option (Int × Go.Err × List LnEv × List Ans) :=
  (writeAllS fuel blk.wire s).bind fun (we, ev1, s1) =>
  if we.isSome then some (3, Go.wrapErr "secs1: send block data: %w" we, ev1, s1)
  else
    (expTimers s1).bind fun (tc, s2) =>
    (readByteS tc.T2 s2).bind fun (b, e, ev2, s3) =>
    if e.isSome then some (1, some "ErrT2Timeout", ev1 ++ .timers :: ev2, s3)
    else if b = ACK then some (0, none, ev1 ++ .timers :: ev2, s3)
    else some (1, some "secs1: expected ACK (0x%02X), got 0x%02X", ev1 ++ .timers :: ev2, s3)

theorem sendData_gen (l : secs1_lineIO) (fuel : Nat) (blk : Block) (s : List Ans) (rest : List Go.Val)
    (code : Int) (err : Go.Err) (evs : List LnEv) (s' : List Ans) (h : sendDataS fuel blk s = some (code, err, evs, s')) :
    secs1_lineIO_sendBlockData l blk.toGen fuel (enc s ++ rest) = some (code, err, rend evs, enc s' ++ rest) := by
  simp only [sendDataS, Option.bind_eq_some_iff] at h
  obtain ⟨⟨we, ev1, s1⟩, hw, h⟩ := h
  have gw := writeAll_gen l fuel blk.wire s rest we ev1 s1 hw
  have ha : secs1_block_appendTo blk.toGen [] = some blk.wire := by
    rw [appendTo_gen]; simp [appendTo]
  unfold secs1_lineIO_sendBlockData
  simp only [ha, Option.bind_some, gw, List.nil_append]
  cases we with
  | some w =>
    simp only [Option.isSome_some, reduceIte, Option.some.injEq, Prod.mk.injEq] at h
    obtain ⟨rfl, rfl, rfl, rfl⟩ := h
    simp
  | none =>
    simp only [Option.isSome_none, Bool.false_eq_true, reduceIte, Option.bind_eq_some_iff] at h ⊢
    obtain ⟨⟨tc, s2⟩, ht, ⟨b, e, ev2, s3⟩, hb, h⟩ := h
    have := expTimers_some ht; subst this
    have gb := readByte_gen l tc.T2 s2 rest b e ev2 s3 hb
    simp only [enc_cons, Ans.vals, List.append_assoc, ofVals_timers, gb]
    cases e with
    | some e =>
      simp only [Option.isSome_some, reduceIte, Option.some.injEq, Prod.mk.injEq] at h
      obtain ⟨rfl, rfl, rfl, rfl⟩ := h
      simp [rend, LnEv.eff]
    | none =>
      simp only [Option.isSome_none, Bool.false_eq_true, reduceIte] at h ⊢
      have hk := byte_beq b ACK
      have h6 : ((ACK.toNat : Nat) : Int) = 6 := by decide
      rw [h6] at hk
      by_cases hb6 : b = ACK
      · simp only [hb6, reduceIte, Option.some.injEq, Prod.mk.injEq] at h
        obtain ⟨rfl, rfl, rfl, rfl⟩ := h
        simp [rend, LnEv.eff]
        rw [hb6]; exact h6
      · simp only [hb6, reduceIte, Option.some.injEq, Prod.mk.injEq] at h
        obtain ⟨rfl, rfl, rfl, rfl⟩ := h
        simp [hk, hb6, rend, LnEv.eff]

/-! ## `sendBlockOnce` -/

structure SoSt where
  evs : List LnEv := []
  script : List Ans := []

/-- one iteration of the wait for EOT (`deadline` = the clock reading after the ENQ plus T2): context poll, remaining
    T2 budget, one character; EOT → transmit; ENQ at a slave → contention (detected only); anything else is ignored -/
def soStep (fuel : Nat) (isEquip : Bool) (blk : Block) (deadline : Int) (st : SoSt) :
    Option (Step SoSt ((Int × Go.Err) × SoSt)) :=
  (expPoll st.script).bind fun (c, s1) =>
  if c then (expErr s1).bind fun (e, s2) => some (.done ((3, e), ⟨st.evs ++ [.poll, .ctxErr], s2⟩))
  else
    (expClock s1).bind fun (t, s2) =>
    if deadline - t ≤ 0 then some (.done ((1, some "ErrT2Timeout"), ⟨st.evs ++ [.poll, .clock], s2⟩))
    else
      (readByteS (deadline - t) s2).bind fun (b, e, ev, s3) =>
      if e.isSome then some (.done ((1, some "ErrT2Timeout"), ⟨st.evs ++ [.poll, .clock] ++ ev, s3⟩))
      else if b = EOT then
        (sendDataS fuel blk s3).bind fun (code, err, ev2, s4) =>
          some (.done ((code, err), ⟨st.evs ++ [.poll, .clock] ++ ev ++ ev2, s4⟩))
      else if b = ENQ ∧ isEquip = false then some (.done ((2, none), ⟨st.evs ++ [.poll, .clock] ++ ev, s3⟩))
      else some (.next ⟨st.evs ++ [.poll, .clock] ++ ev, s3⟩)

/-- `l.sendBlockOnce(ctx, blk)`: result code (sendOK 0, sendRetry 1, sendContention 2, sendAbort 3), error -/
def sendOnceS (fuel : Nat) (isEquip : Bool) (blk : Block) (s : List Ans) : Option (Int × Go.Err × List LnEv × List Ans) :=
  (writeByteS ENQ s).bind fun (we, ev0, s1) =>
  if we.isSome then some (3, Go.wrapErr "secs1: send ENQ: %w" we, ev0, s1)
  else
    (expClock s1).bind fun (t0, s2) =>
    (expTimers s2).bind fun (tc, s3) =>
    match mloop (fun _ => true) (soStep fuel isEquip blk (t0 + tc.T2)) fuel ⟨ev0 ++ [.clock, .timers], s3⟩ with
    | some (.error ((code, err), st)) => some (code, err, st.evs, st.script)
    | _ => none

def soEnc (rest : List Go.Val) (st : SoSt) : (List Go.Effect) × (List Go.Val) := (rend st.evs, enc st.script ++ rest)

def soRes (rest : List Go.Val) (r : (Int × Go.Err) × SoSt) : Int × Go.Err × List Go.Effect × List Go.Val :=
  (r.1.1, r.1.2, rend r.2.evs, enc r.2.script ++ rest)

theorem sendOnce_body (l : secs1_lineIO) (fuel : Nat) (blk : Block) (deadline : Int) (rest : List Go.Val) (st : SoSt)
    (x : Step SoSt ((Int × Go.Err) × SoSt)) (hs : soStep fuel l.isEquip blk deadline st = some x) :
    secs1_lineIO_sendBlockOnce_loop1_body l blk.toGen deadline fuel (soEnc rest st) =
      some (Step.ctl (soEnc rest) (soRes rest) x) := by
  obtain ⟨evs, script⟩ := st
  simp only [soStep, Option.bind_eq_some_iff] at hs
  obtain ⟨⟨c, s1⟩, hp, hs⟩ := hs
  have := expPoll_some hp; subst this
  cases c with
  | true =>
    simp only [reduceIte, Option.bind_eq_some_iff, Option.some.injEq] at hs
    obtain ⟨⟨e, s2⟩, he, rfl⟩ := hs
    have := expErr_some he; subst this
    simp [secs1_lineIO_sendBlockOnce_loop1_body, Step.ctl, soEnc, soRes, enc_cons, Ans.vals, Go.orc, Go.Val.asBool,
      Go.Val.asErr, rend, LnEv.eff]
  | false =>
    simp only [Bool.false_eq_true, reduceIte, Option.bind_eq_some_iff] at hs
    obtain ⟨⟨t, s2⟩, hc, hs⟩ := hs
    have := expClock_some hc; subst this
    by_cases hrem : deadline - t ≤ 0
    · simp only [hrem, reduceIte, Option.some.injEq] at hs
      subst hs
      simp [secs1_lineIO_sendBlockOnce_loop1_body, Step.ctl, soEnc, soRes, enc_cons, Ans.vals, Go.orc, Go.Val.asBool,
        Go.Val.asInt, rend, LnEv.eff, hrem]
    · simp only [hrem, reduceIte, Option.bind_eq_some_iff] at hs
      obtain ⟨⟨b, e, ev, s3⟩, hb, hs⟩ := hs
      have gb := readByte_gen l (deadline - t) s2 rest b e ev s3 hb
      have k4 := byte_beq b EOT
      have k5 := byte_beq b ENQ
      have h4 : ((EOT.toNat : Nat) : Int) = 4 := by decide
      have h5 : ((ENQ.toNat : Nat) : Int) = 5 := by decide
      rw [h4] at k4
      rw [h5] at k5
      simp only [secs1_lineIO_sendBlockOnce_loop1_body, soEnc, enc_cons, Ans.vals, List.cons_append, List.nil_append,
        Go.orc, List.headD_cons, List.tail_cons, Go.Val.asBool, Go.Val.asInt, Bool.false_eq_true, reduceIte, hrem,
        decide_false, gb]
      cases e with
      | some e =>
        simp only [Option.isSome_some, reduceIte, Option.some.injEq] at hs
        subst hs
        simp [Step.ctl, soRes, rend, LnEv.eff]
      | none =>
        simp only [Option.isSome_none, Bool.false_eq_true, reduceIte] at hs ⊢
        by_cases hb4 : b = EOT
        · simp only [hb4, reduceIte, Option.bind_eq_some_iff, Option.some.injEq] at hs
          obtain ⟨⟨code, err, ev2, s4⟩, hd, rfl⟩ := hs
          have gd := sendData_gen l fuel blk s3 rest code err ev2 s4 hd
          have k4' : (((b.toNat : Nat) : Int) == 4) = true := by rw [k4]; simp [hb4]
          simp [k4', gd, Step.ctl, soRes, rend, LnEv.eff]
        · have k4' : (((b.toNat : Nat) : Int) == 4) = false := by rw [k4]; simp [hb4]
          simp only [hb4, reduceIte] at hs
          by_cases hb5 : b = ENQ ∧ l.isEquip = false
          · simp only [hb5, and_self, reduceIte, Option.some.injEq] at hs
            subst hs
            have k5' : (((b.toNat : Nat) : Int) == 5) = true := by rw [k5]; simp [hb5.1]
            simp [k4', k5', hb5.2, Step.ctl, soRes, rend, LnEv.eff]
          · simp only [hb5, reduceIte, Option.some.injEq] at hs
            subst hs
            have k5' : ((((b.toNat : Nat) : Int) == 5) && !l.isEquip) = false := by
              rw [k5]
              by_cases h5b : b = ENQ
              · have : l.isEquip = true := by
                  cases hq : l.isEquip
                  · exact absurd ⟨h5b, hq⟩ hb5
                  · rfl
                simp [h5b, this]
              · simp [h5b]
            simp [k4', k5', Step.ctl, soEnc, rend, LnEv.eff]

theorem sendOnce_gen (l : secs1_lineIO) (fuel : Nat) (blk : Block) (s : List Ans) (rest : List Go.Val)
    (code : Int) (err : Go.Err) (evs : List LnEv) (s' : List Ans)
    (h : sendOnceS fuel l.isEquip blk s = some (code, err, evs, s')) :
    secs1_lineIO_sendBlockOnce l blk.toGen fuel (enc s ++ rest) = some (code, err, rend evs, enc s' ++ rest) := by
  simp only [sendOnceS, Option.bind_eq_some_iff] at h
  obtain ⟨⟨we, ev0, s1⟩, hw, h⟩ := h
  have h5 : ((ENQ.toNat : Nat) : Int) = 5 := by decide
  have gw := writeByte_gen l ENQ s rest we ev0 s1 hw
  rw [h5] at gw
  unfold secs1_lineIO_sendBlockOnce
  simp only [gw, List.nil_append]
  cases we with
  | some w =>
    simp only [Option.isSome_some, reduceIte, Option.some.injEq, Prod.mk.injEq] at h
    obtain ⟨rfl, rfl, rfl, rfl⟩ := h
    simp
  | none =>
    simp only [Option.isSome_none, Bool.false_eq_true, reduceIte, Option.bind_eq_some_iff] at h
    simp only [Option.isSome_none, Bool.false_eq_true, reduceIte]
    obtain ⟨⟨t0, s2⟩, hc, ⟨tc, s3⟩, ht, h⟩ := h
    have := expClock_some hc; subst this
    have := expTimers_some ht; subst this
    simp only at h
    cases hm : mloop (fun _ => true) (soStep fuel l.isEquip blk (t0 + tc.T2)) fuel ⟨ev0 ++ [.clock, .timers], s3⟩ with
    | none => simp [hm] at h
    | some r =>
      have sim := loopWhileM_sim (secs1_lineIO_sendBlockOnce_loop1_cond l blk.toGen (t0 + tc.T2) fuel)
        (secs1_lineIO_sendBlockOnce_loop1_body l blk.toGen (t0 + tc.T2) fuel)
        (secs1_lineIO_sendBlockOnce_loop1_post l blk.toGen (t0 + tc.T2) fuel)
        (fun _ => true) (soStep fuel l.isEquip blk (t0 + tc.T2)) (soEnc rest) (soRes rest)
        (fun st => rfl)
        (fun st x _ hs => sendOnce_body l fuel blk (t0 + tc.T2) rest st x hs)
        (fun st => rfl) fuel _ r hm
      have e0 : soEnc rest ⟨ev0 ++ [.clock, .timers], s3⟩ =
          (rend ev0 ++ [Go.Effect.call "secs1.lineIO.now" []] ++ [Go.Effect.call "secs1.lineIO.timers" []],
            enc s3 ++ rest) := by
        simp [soEnc, rend, LnEv.eff]
      rw [e0] at sim
      simp only [enc_cons, Ans.vals, List.cons_append, List.nil_append, List.append_assoc, Go.orc, List.headD_cons,
        List.tail_cons, Go.Val.asInt, ofVals_timers] at sim ⊢
      simp only [sim, Option.bind_some]
      cases r with
      | ok st => simp [hm] at h
      | error r =>
        obtain ⟨⟨c, e⟩, st⟩ := r
        simp only [hm, Option.some.injEq, Prod.mk.injEq] at h
        obtain ⟨rfl, rfl, rfl, rfl⟩ := h
        rfl

/-! ## `receiveBlock` -/

/-- the block value `receiveBlock` returns: the parsed block, or `block{}` next to an error -/
def blkGen : Option Block → secs1_block
  | some b => b.toGen
  | none => secs1_block.zero

/-- `_ = l.writeByte(nak); l.metrics.incBlockNAKSentCount()` -/
def nakS (s : List Ans) : Option (List LnEv × List Ans) :=
  (writeByteS NAK s).bind fun (_, ev, s1) => some (ev ++ [.inc "incBlockNAKSentCount"], s1)

/-- `l.receiveBlock(ctx)` (after our EOT): length byte under T2; range check → drain, NAK; body under T1 → NAK;
    parse (length, checksum) → drain, NAK; ACK. -/
def receiveS (fuel : Nat) (s : List Ans) : Option (Option Block × Go.Err × List LnEv × List Ans) :=
  (expPoll s).bind fun (c, s1) =>
  if c then (expErr s1).bind fun (e, s2) => some (none, e, [.poll, .ctxErr], s2)
  else
    (expTimers s1).bind fun (tc, s2) =>
    (readByteS tc.T2 s2).bind fun (lb, e, ev1, s3) =>
    if e.isSome then
      (nakS s3).bind fun (ev, s4) => some (none, some "ErrT2Timeout", [.poll, .timers] ++ ev1 ++ ev, s4)
    else if lb.toNat < 10 ∨ lb.toNat > 254 then
      (drainS fuel s3).bind fun (evd, s4) =>
      (nakS s4).bind fun (ev, s5) => some (none, some "ErrInvalidLength", [.poll, .timers] ++ ev1 ++ evd ++ ev, s5)
    else
      (readFullS fuel (List.replicate (lb.toNat + 2) 0) s3).bind fun (re, buf, evr, s4) =>
      if re.isSome then
        (nakS s4).bind fun (ev, s5) => some (none, some "ErrT1Timeout", [.poll, .timers] ++ ev1 ++ evr ++ ev, s5)
      else
        match parseBlock lb buf with
        | .error pe =>
          (drainS fuel s4).bind fun (evd, s5) =>
          (nakS s5).bind fun (ev, s6) => some (none, some pe.goName, [.poll, .timers] ++ ev1 ++ evr ++ evd ++ ev, s6)
        | .ok b =>
          (writeByteS ACK s4).bind fun (we, evw, s5) =>
          if we.isSome then
            some (some b, Go.wrapErr "secs1: failed to send ACK: %w" we, [.poll, .timers] ++ ev1 ++ evr ++ evw, s5)
          else some (some b, none, [.poll, .timers] ++ ev1 ++ evr ++ evw ++ [.inc "incBlockRecvCount"], s5)

theorem nak_gen (l : secs1_lineIO) (s : List Ans) (rest : List Go.Val) (ev : List LnEv) (s' : List Ans)
    (h : nakS s = some (ev, s')) :
    ∃ e evw, secs1_lineIO_writeByte l 21 (enc s ++ rest) = (e, rend evw, enc s' ++ rest) ∧
      ev = evw ++ [.inc "incBlockNAKSentCount"] := by
  simp only [nakS, Option.bind_eq_some_iff, Option.some.injEq, Prod.mk.injEq] at h
  obtain ⟨⟨e, evw, s1⟩, hw, rfl, rfl⟩ := h
  have h21 : ((NAK.toNat : Nat) : Int) = 21 := by decide
  have gw := writeByte_gen l NAK s rest e evw s1 hw
  rw [h21] at gw
  exact ⟨e, evw, gw, rfl⟩

theorem receive_gen (l : secs1_lineIO) (fuel : Nat) (s : List Ans) (rest : List Go.Val)
    (ob : Option Block) (err : Go.Err) (evs : List LnEv) (s' : List Ans)
    (h : receiveS fuel s = some (ob, err, evs, s')) :
    secs1_lineIO_receiveBlock l fuel (enc s ++ rest) = some (blkGen ob, err, rend evs, enc s' ++ rest) := by
  simp only [receiveS, Option.bind_eq_some_iff] at h
  obtain ⟨⟨c, s1⟩, hp, h⟩ := h
  have := expPoll_some hp; subst this
  unfold secs1_lineIO_receiveBlock
  simp only [enc_cons, Ans.vals, List.cons_append, List.nil_append, Go.orc, List.headD_cons, List.tail_cons,
    Go.Val.asBool]
  cases c with
  | true =>
    simp only [reduceIte, Option.bind_eq_some_iff, Option.some.injEq, Prod.mk.injEq] at h
    obtain ⟨⟨e, s2⟩, he, rfl, rfl, rfl, rfl⟩ := h
    have := expErr_some he; subst this
    simp [enc_cons, Ans.vals, Go.orc, Go.Val.asErr, blkGen, rend, LnEv.eff]
  | false =>
    simp only [Bool.false_eq_true, reduceIte, Option.bind_eq_some_iff] at h
    obtain ⟨⟨tc, s2⟩, ht, ⟨lb, e, ev1, s3⟩, hb, h⟩ := h
    have := expTimers_some ht; subst this
    have gb := readByte_gen l tc.T2 s2 rest lb e ev1 s3 hb
    simp only [Bool.false_eq_true, reduceIte, enc_cons, Ans.vals, List.append_assoc, ofVals_timers, gb]
    cases e with
    | some e =>
      simp only [Option.isSome_some, reduceIte, Option.bind_eq_some_iff, Option.some.injEq, Prod.mk.injEq] at h
      obtain ⟨⟨ev, s4⟩, hn, rfl, rfl, rfl, rfl⟩ := h
      obtain ⟨e', evw, gw, rfl⟩ := nak_gen l s3 rest ev s4 hn
      simp [gw, blkGen, rend, LnEv.eff]
    | none =>
      simp only [Option.isSome_none, Bool.false_eq_true, reduceIte] at h ⊢
      by_cases hr : lb.toNat < 10 ∨ lb.toNat > 254
      · have hr' : (decide (((lb.toNat : Nat) : Int) < 10) || decide (((lb.toNat : Nat) : Int) > 254)) = true := by
          rcases hr with h1 | h1
          · simp; left; omega
          · simp; right; omega
        simp only [hr, reduceIte, Option.bind_eq_some_iff, Option.some.injEq, Prod.mk.injEq] at h
        obtain ⟨⟨evd, s4⟩, hd, ⟨ev, s5⟩, hn, rfl, rfl, rfl, rfl⟩ := h
        have gd := drain_gen l fuel s3 rest evd s4 hd
        obtain ⟨e', evw, gw, rfl⟩ := nak_gen l s4 rest ev s5 hn
        simp [hr', gd, gw, blkGen, rend, LnEv.eff]
      · have hr' : (decide (((lb.toNat : Nat) : Int) < 10) || decide (((lb.toNat : Nat) : Int) > 254)) = false := by
          simp; omega
        simp only [hr, reduceIte, Option.bind_eq_some_iff] at h
        obtain ⟨⟨re, buf, evr, s4⟩, hf, h⟩ := h
        have hmk : Go.make? (((lb.toNat : Nat) : Int) + 2) (((lb.toNat : Nat) : Int) + 2) =
            some (List.replicate (lb.toNat + 2) 0) := by
          have : (((lb.toNat : Nat) : Int) + 2).toNat = lb.toNat + 2 := by omega
          simp [Go.make?, this]; omega
        have gf := readFull_gen l fuel (List.replicate (lb.toNat + 2) 0) s3 rest re buf evr s4 hf
        simp only [hr', Bool.false_eq_true, reduceIte, hmk, Option.bind_some, gf]
        cases re with
        | some re =>
          simp only [Option.isSome_some, reduceIte, Option.bind_eq_some_iff, Option.some.injEq, Prod.mk.injEq] at h
          obtain ⟨⟨ev, s5⟩, hn, rfl, rfl, rfl, rfl⟩ := h
          obtain ⟨e', evw, gw, rfl⟩ := nak_gen l s4 rest ev s5 hn
          simp [gw, blkGen, rend, LnEv.eff]
        | none =>
          simp only [Option.isSome_none, Bool.false_eq_true, reduceIte] at h ⊢
          rw [parseBlock_gen]
          simp only [Option.bind_some]
          cases hpb : parseBlock lb buf with
          | error pe =>
            simp only [hpb, Option.bind_eq_some_iff, Option.some.injEq, Prod.mk.injEq] at h
            obtain ⟨⟨evd, s5⟩, hd, ⟨ev, s6⟩, hn, rfl, rfl, rfl, rfl⟩ := h
            have gd := drain_gen l fuel s4 rest evd s5 hd
            obtain ⟨e', evw, gw, rfl⟩ := nak_gen l s5 rest ev s6 hn
            simp [gd, gw, blkGen, rend, LnEv.eff]
          | ok b =>
            simp only [hpb, Option.bind_eq_some_iff] at h
            obtain ⟨⟨we, evw, s5⟩, hw, h⟩ := h
            have h6 : ((ACK.toNat : Nat) : Int) = 6 := by decide
            have gw := writeByte_gen l ACK s4 rest we evw s5 hw
            rw [h6] at gw
            cases we with
            | some w =>
              simp only [Option.isSome_some, reduceIte, Option.some.injEq, Prod.mk.injEq] at h
              obtain ⟨rfl, rfl, rfl, rfl⟩ := h
              simp [gw, blkGen, rend, LnEv.eff]
            | none =>
              simp only [Option.isSome_none, Bool.false_eq_true, reduceIte, Option.some.injEq, Prod.mk.injEq] at h
              obtain ⟨rfl, rfl, rfl, rfl⟩ := h
              simp [gw, blkGen, rend, LnEv.eff]

/-! ## `sendBlock`: the RTY loop -/

structure SbSt where
  evs : List LnEv := []
  script : List Ans := []
  retry : Int := 0

def sbGuard (limit : Int) (st : SbSt) : Bool := decide (st.retry ≤ limit)

/-- one iteration of `for retry <= retryLimit`: context poll, ONE attempt, then by its result —
    sendOK: count, return nil;  sendContention: count the yield, EOT, `receiveBlock`; a failed receive is a retry
    (`retry++`), a received block is delivered and `retry = 0`;  sendRetry: count, `retry++`;  sendAbort: return the error -/
def sbStep (fuel : Nat) (isEquip : Bool) (blk : Block) (st : SbSt) : Option (Step SbSt (Go.Err × SbSt)) :=
  (expPoll st.script).bind fun (c, s1) =>
  if c then (expErr s1).bind fun (e, s2) => some (.done (e, ⟨st.evs ++ [.poll, .ctxErr], s2, st.retry⟩))
  else
    (sendOnceS fuel isEquip blk s1).bind fun (code, err, ev1, s2) =>
    if code = 0 then some (.done (none, ⟨st.evs ++ .poll :: ev1 ++ [.inc "incBlockSendCount"], s2, st.retry⟩))
    else if code = 2 then
      (writeByteS EOT s2).bind fun (we, evw, s3) =>
      if we.isSome then
        some (.done (Go.wrapErr "secs1: send EOT (contention yield): %w" we,
                     ⟨st.evs ++ .poll :: ev1 ++ .inc "incContentionYieldCount" :: evw, s3, st.retry⟩))
      else
        (receiveS fuel s3).bind fun (rb, rerr, evr, s4) =>
        if rerr.isSome then
          some (.next ⟨st.evs ++ .poll :: ev1 ++ .inc "incContentionYieldCount" :: evw ++ evr ++ [.inc "incBlockRetryCount"],
                       s4, st.retry + 1⟩)
        else
          some (.next ⟨st.evs ++ .poll :: ev1 ++ .inc "incContentionYieldCount" :: evw ++ evr ++ [.deliver (blkGen rb)],
                       s4, 0⟩)
    else if code = 1 then some (.next ⟨st.evs ++ .poll :: ev1 ++ [.inc "incBlockRetryCount"], s2, st.retry + 1⟩)
    else if code = 3 then some (.done (err, ⟨st.evs ++ .poll :: ev1, s2, st.retry⟩))
    else some (.next ⟨st.evs ++ .poll :: ev1, s2, st.retry⟩)

/-- `l.sendBlock(ctx, blk, retryLimit, deliver)` -/
def sendBlockS (fuel : Nat) (isEquip : Bool) (blk : Block) (limit : Int) (s : List Ans) :
    Option (Go.Err × List LnEv × List Ans) :=
  match mloop (sbGuard limit) (sbStep fuel isEquip blk) fuel { script := s } with
  | none => none
  | some (.ok st) => some (some "ErrSendFailed", st.evs ++ [.inc "incBlockSendFailedCount"], st.script)
  | some (.error (e, st)) => some (e, st.evs, st.script)

def sbEnc (rest : List Go.Val) (st : SbSt) : (List Go.Effect) × (List Go.Val) × Int :=
  (rend st.evs, enc st.script ++ rest, st.retry)

def sbRes (rest : List Go.Val) (r : Go.Err × SbSt) : Go.Err × List Go.Effect × List Go.Val :=
  (r.1, rend r.2.evs, enc r.2.script ++ rest)

theorem sendBlock_body (l : secs1_lineIO) (fuel : Nat) (blk : Block) (limit : Int) (rest : List Go.Val) (st : SbSt)
    (x : Step SbSt (Go.Err × SbSt)) (hs : sbStep fuel l.isEquip blk st = some x) :
    secs1_lineIO_sendBlock_loop1_body l blk.toGen limit fuel (sbEnc rest st) =
      some (Step.ctl (sbEnc rest) (sbRes rest) x) := by
  obtain ⟨evs, script, retry⟩ := st
  simp only [sbStep, Option.bind_eq_some_iff] at hs
  obtain ⟨⟨c, s1⟩, hp, hs⟩ := hs
  have := expPoll_some hp; subst this
  cases c with
  | true =>
    simp only [reduceIte, Option.bind_eq_some_iff, Option.some.injEq] at hs
    obtain ⟨⟨e, s2⟩, he, rfl⟩ := hs
    have := expErr_some he; subst this
    simp [secs1_lineIO_sendBlock_loop1_body, Step.ctl, sbEnc, sbRes, enc_cons, Ans.vals, Go.orc, Go.Val.asBool,
      Go.Val.asErr, rend, LnEv.eff]
  | false =>
    simp only [Bool.false_eq_true, reduceIte, Option.bind_eq_some_iff] at hs
    obtain ⟨⟨code, err, ev1, s2⟩, ho, hs⟩ := hs
    have go := sendOnce_gen l fuel blk s1 rest code err ev1 s2 ho
    simp only [secs1_lineIO_sendBlock_loop1_body, sbEnc, enc_cons, Ans.vals, List.cons_append, List.nil_append,
      Go.orc, List.headD_cons, List.tail_cons, Go.Val.asBool, Bool.false_eq_true, reduceIte, go, Option.bind_some]
    by_cases c0 : code = 0
    · subst c0
      simp only [reduceIte, Option.some.injEq] at hs
      subst hs
      simp [Step.ctl, sbRes, rend, LnEv.eff]
    · have b0 : (code == 0) = false := by simp [c0]
      simp only [c0, reduceIte] at hs
      by_cases c2 : code = 2
      · subst c2
        simp only [reduceIte, Option.bind_eq_some_iff] at hs
        obtain ⟨⟨we, evw, s3⟩, hw, hs⟩ := hs
        have h4 : ((EOT.toNat : Nat) : Int) = 4 := by decide
        have gw := writeByte_gen l EOT s2 rest we evw s3 hw
        rw [h4] at gw
        cases we with
        | some w =>
          simp only [Option.isSome_some, reduceIte, Option.some.injEq] at hs
          subst hs
          simp [gw, Step.ctl, sbRes, rend, LnEv.eff]
        | none =>
          simp only [Option.isSome_none, Bool.false_eq_true, reduceIte, Option.bind_eq_some_iff] at hs
          obtain ⟨⟨rb, rerr, evr, s4⟩, hr, hs⟩ := hs
          have gr := receive_gen l fuel s3 rest rb rerr evr s4 hr
          cases rerr with
          | some re =>
            simp only [Option.isSome_some, reduceIte, Option.some.injEq] at hs
            subst hs
            simp [gw, gr, Step.ctl, sbEnc, rend, LnEv.eff]
          | none =>
            simp only [Option.isSome_none, Bool.false_eq_true, reduceIte, Option.some.injEq] at hs
            subst hs
            simp [gw, gr, Step.ctl, sbEnc, rend, LnEv.eff]
      · have b2 : (code == 2) = false := by simp [c2]
        simp only [c2, reduceIte] at hs
        by_cases c1 : code = 1
        · subst c1
          simp only [reduceIte, Option.some.injEq] at hs
          subst hs
          simp [Step.ctl, sbEnc, rend, LnEv.eff]
        · have b1 : (code == 1) = false := by simp [c1]
          simp only [c1, reduceIte] at hs
          by_cases c3 : code = 3
          · subst c3
            simp only [reduceIte, Option.some.injEq] at hs
            subst hs
            simp [Step.ctl, sbRes, rend, LnEv.eff]
          · have b3 : (code == 3) = false := by simp [c3]
            simp only [c3, reduceIte, Option.some.injEq] at hs
            subst hs
            simp [b0, b1, b2, b3, Step.ctl, sbEnc, rend, LnEv.eff]

/-- **`sendBlock`, regenerated from secs1/line.go, is the sequential `sendBlockS`** — the RTY loop with its bound
    `retry <= retryLimit`, the yield action and the reset of the counter after a delivered yield — for both roles, every
    block, every retry limit, every script and every fuel for which `sendBlockS` returns. -/
theorem sendBlock_gen (l : secs1_lineIO) (fuel : Nat) (blk : Block) (limit : Int) (s : List Ans) (rest : List Go.Val)
    (err : Go.Err) (evs : List LnEv) (s' : List Ans)
    (h : sendBlockS fuel l.isEquip blk limit s = some (err, evs, s')) :
    secs1_lineIO_sendBlock l blk.toGen limit fuel (enc s ++ rest) = some (err, rend evs, enc s' ++ rest) := by
  unfold sendBlockS at h
  cases hm : mloop (sbGuard limit) (sbStep fuel l.isEquip blk) fuel { script := s } with
  | none => simp [hm] at h
  | some r =>
    have sim := loopWhileM_sim (secs1_lineIO_sendBlock_loop1_cond l blk.toGen limit fuel)
      (secs1_lineIO_sendBlock_loop1_body l blk.toGen limit fuel)
      (secs1_lineIO_sendBlock_loop1_post l blk.toGen limit fuel)
      (sbGuard limit) (sbStep fuel l.isEquip blk) (sbEnc rest) (sbRes rest)
      (fun st => rfl)
      (fun st x _ hs => sendBlock_body l fuel blk limit rest st x hs)
      (fun st => rfl) fuel _ r hm
    have e0 : sbEnc rest { script := s } = (([] : List Go.Effect), enc s ++ rest, (0 : Int)) := rfl
    rw [e0] at sim
    unfold secs1_lineIO_sendBlock
    simp only [sim, Option.bind_some]
    cases r with
    | ok st =>
      simp only [hm, Option.some.injEq, Prod.mk.injEq] at h
      obtain ⟨rfl, rfl, rfl⟩ := h
      simp [sbEnc, rend, LnEv.eff]
    | error r =>
      obtain ⟨e', st⟩ := r
      simp only [hm, Option.some.injEq, Prod.mk.injEq] at h
      obtain ⟨rfl, rfl, rfl⟩ := h
      rfl

end GoSecs.Secs1
