/-
  Sequence tags of the supervisor model (generation for disconnects, NotSelected dwell for T7):
  the counters only grow, every tag in flight is bounded by its counter, and once a Select commit has
  happened in (or after) dwell `d` the state is not NotSelected for as long as the dwell number is still `d`.
  Used by Props/C05 for the stale-event theorems.
-/
import GoSecs.Lemmas.Supervisor

namespace GoSecs.Sup

theorem commit_gen (c : Cfg) (ev : Ev) (cur : St) : (commit c ev cur).gen = c.gen := by
  unfold commit; cases h : outcome ev cur c.st (deselPending c) <;> simp

theorem commit_dwell (c : Cfg) (ev : Ev) (cur : St) :
    (commit c ev cur).dwell =
      if outcome ev cur c.st (deselPending c) = .store then dwellAfterStore c (transition cur ev).1 else c.dwell := by
  unfold commit; cases h : outcome ev cur c.st (deselPending c) <;> simp

theorem dwellAfterStore_ge (c : Cfg) (n : St) : c.dwell ≤ dwellAfterStore c n := by
  unfold dwellAfterStore; split <;> omega

/-! ### The counters only grow -/

theorem gen_mono_step (c : Cfg) (a : Act) : c.gen ≤ (step c a).gen := by
  unfold step; split
  · exact Nat.le_refl _
  cases a <;> simp only [stepLive]
  case casConnected => split <;> simp
  case casSelected => split <;> simp
  case casSelectLost => split <;> simp
  case injStart => split <;> simp
  case injRecv => split <;> simp
  case inject k => simp
  case runLoad => (repeat' split) <;> simp
  case runCommit =>
    split
    · simp
    · split
      · simp
      · rw [commit_gen]; exact Nat.le_refl _
  case deliver => split <;> simp
  case closeReturn => split <;> simp

theorem dwell_mono_step (c : Cfg) (a : Act) : c.dwell ≤ (step c a).dwell := by
  unfold step; split
  · exact Nat.le_refl _
  cases a <;> simp only [stepLive]
  case casConnected => split <;> simp
  case casSelected => split <;> simp
  case casSelectLost => split <;> simp
  case injStart => split <;> simp
  case injRecv => split <;> simp
  case inject k => simp
  case runLoad => (repeat' split) <;> simp
  case runCommit =>
    split
    · simp
    · split
      · simp
      · rw [commit_dwell]; split
        · exact dwellAfterStore_ge _ _
        · exact Nat.le_refl _
  case deliver => split <;> simp
  case closeReturn => split <;> simp

theorem gen_mono_run (as : List Act) (c : Cfg) : c.gen ≤ (run c as).gen := by
  induction as generalizing c with
  | nil => exact Nat.le_refl _
  | cons a as ih => exact Nat.le_trans (gen_mono_step c a) (ih (step c a))

theorem dwell_mono_run (as : List Act) (c : Cfg) : c.dwell ≤ (run c as).dwell := by
  induction as generalizing c with
  | nil => exact Nat.le_refl _
  | cons a as ih => exact Nat.le_trans (dwell_mono_step c a) (ih (step c a))

/-- A successful TCP-up commit opens a new generation. -/
theorem casConnected_gen (c : Cfg) (hst : c.stopped = false) (hp : c.pendStart = none) (hs : c.st = .NC) :
    (step c .casConnected).gen = c.gen + 1 ∧ (step c .casConnected).st = .NS := by
  simp [step, hst, stepLive, hp, hs]

/-- A successful Select commit. -/
theorem casSelected_ok (c : Cfg) (hst : c.stopped = false) (hp : c.pendRecv = none) (hs : c.st = .NS) :
    (step c .casSelected).st = .S ∧ (step c .casSelected).dwell = c.dwell := by
  simp [step, hst, stepLive, hp, hs]

/-! ### Every tag in flight is bounded by its counter -/

def tagOK (c : Cfg) : Ev → Prop
  | .disc g => g ≤ c.gen
  | .t7 d => d ≤ c.dwell
  | _ => True

theorem tagOK_mono (c c' : Cfg) (hg : c.gen ≤ c'.gen) (hd : c.dwell ≤ c'.dwell) (e : Ev) (h : tagOK c e) :
    tagOK c' e := by
  cases e <;> simp_all [tagOK] <;> omega

structure TagInv (c : Cfg) : Prop where
  queue : ∀ e ∈ c.queue, tagOK c e
  pendStart : ∀ e, c.pendStart = some e → tagOK c e
  pendRecv : ∀ e, c.pendRecv = some e → tagOK c e
  loaded : ∀ ev cur, c.pc = .loaded ev cur → tagOK c ev

theorem tagInv_init : TagInv init := ⟨by simp [init], by simp [init], by simp [init], by simp [init]⟩

/-- Transport of the invariant along a step that only moves events around and lets the counters grow. -/
theorem tagInv_of (c c' : Cfg) (h : TagInv c) (hg : c.gen ≤ c'.gen) (hd : c.dwell ≤ c'.dwell)
    (hq : ∀ e ∈ c'.queue, e ∈ c.queue ∨ c.pendStart = some e ∨ c.pendRecv = some e ∨ tagOK c' e)
    (hps : ∀ e, c'.pendStart = some e → c.pendStart = some e ∨ tagOK c' e)
    (hpr : ∀ e, c'.pendRecv = some e → c.pendRecv = some e ∨ tagOK c' e)
    (hl : ∀ ev cur, c'.pc = .loaded ev cur → c.pc = .loaded ev cur ∨ ev ∈ c.queue) : TagInv c' := by
  have mono := tagOK_mono c c' hg hd
  refine ⟨?_, ?_, ?_, ?_⟩
  · intro e he
    rcases hq e he with h1 | h1 | h1 | h1
    · exact mono e (h.queue e h1)
    · exact mono e (h.pendStart e h1)
    · exact mono e (h.pendRecv e h1)
    · exact h1
  · intro e he
    rcases hps e he with h1 | h1
    · exact mono e (h.pendStart e h1)
    · exact h1
  · intro e he
    rcases hpr e he with h1 | h1
    · exact mono e (h.pendRecv e h1)
    · exact h1
  · intro ev cur he
    rcases hl ev cur he with h1 | h1
    · exact mono ev (h.loaded ev cur h1)
    · exact mono ev (h.queue ev h1)

theorem tagInv_step (c : Cfg) (a : Act) (h : TagInv c) : TagInv (step c a) := by
  have hg := gen_mono_step c a
  have hd := dwell_mono_step c a
  refine tagInv_of c _ h hg hd ?_ ?_ ?_ ?_ <;> clear hg hd <;> unfold step <;> split <;>
    try (first | (intro e he; exact Or.inl he) | (intro ev cur he; exact Or.inl he))
  all_goals (rename_i hstop; clear hstop)
  -- queue
  · cases a <;> simp only [stepLive]
    case casConnected => split <;> (intro e he; exact Or.inl he)
    case casSelected => split <;> (intro e he; exact Or.inl he)
    case casSelectLost => split <;> (intro e he; exact Or.inl he)
    case injStart =>
      split
      · rename_i x hx; intro e he
        rcases List.mem_append.1 he with he | he
        · exact Or.inl he
        · simp at he; subst he; exact Or.inr (Or.inl hx)
      · intro e he; exact Or.inl he
    case injRecv =>
      split
      · rename_i x hx; intro e he
        rcases List.mem_append.1 he with he | he
        · exact Or.inl he
        · simp at he; subst he; exact Or.inr (Or.inr (Or.inl hx))
      · intro e he; exact Or.inl he
    case inject k =>
      intro e he
      rcases List.mem_append.1 he with he | he
      · exact Or.inl he
      · simp at he; subst he
        refine Or.inr (Or.inr (Or.inr ?_))
        cases k <;> simp [Inj.toEv, tagOK]
    case runLoad =>
      split
      · rename_i e0 q hpc hq
        (repeat' split) <;> (intro e he; left; rw [hq]; exact List.mem_cons_of_mem _ he)
      · intro e he; exact Or.inl he
    case runCommit =>
      split
      · intro e he; exact Or.inl he
      · split
        · intro e he; exact Or.inl he
        · intro e he; rw [commit_queue] at he; exact Or.inl he
    case deliver => split <;> (intro e he; exact Or.inl he)
    case closeReturn => split <;> (intro e he; exact Or.inl he)
  -- pendStart
  · cases a <;> simp only [stepLive]
    case casConnected =>
      split
      · intro e he; right; simp at he; subst he; trivial
      · intro e he; exact Or.inl he
    case casSelected => split <;> (intro e he; exact Or.inl he)
    case casSelectLost => split <;> (intro e he; exact Or.inl he)
    case injStart =>
      split
      · intro e he; simp at he
      · intro e he; exact Or.inl he
    case injRecv => split <;> (intro e he; exact Or.inl he)
    case inject k => intro e he; exact Or.inl he
    case runLoad => (repeat' split) <;> (intro e he; exact Or.inl he)
    case runCommit =>
      split
      · intro e he; exact Or.inl he
      · split
        · intro e he; exact Or.inl he
        · intro e he; rw [commit_pendStart] at he; exact Or.inl he
    case deliver => split <;> (intro e he; exact Or.inl he)
    case closeReturn => split <;> (intro e he; exact Or.inl he)
  -- pendRecv
  · cases a <;> simp only [stepLive]
    case casConnected => split <;> (intro e he; exact Or.inl he)
    case casSelected =>
      split
      · intro e he; right; simp at he; subst he; trivial
      · intro e he; exact Or.inl he
    case casSelectLost =>
      split
      · intro e he; right; simp at he; subst he; trivial
      · intro e he; exact Or.inl he
    case injStart => split <;> (intro e he; exact Or.inl he)
    case injRecv =>
      split
      · intro e he; simp at he
      · intro e he; exact Or.inl he
    case inject k => intro e he; exact Or.inl he
    case runLoad => (repeat' split) <;> (intro e he; exact Or.inl he)
    case runCommit =>
      split
      · intro e he; exact Or.inl he
      · split
        · intro e he; exact Or.inl he
        · intro e he; rw [commit_pendRecv] at he; exact Or.inl he
    case deliver => split <;> (intro e he; exact Or.inl he)
    case closeReturn => split <;> (intro e he; exact Or.inl he)
  -- loaded
  · cases a <;> simp only [stepLive]
    case casConnected => split <;> (intro ev cur he; exact Or.inl he)
    case casSelected => split <;> (intro ev cur he; exact Or.inl he)
    case casSelectLost => split <;> (intro ev cur he; exact Or.inl he)
    case injStart => split <;> (intro ev cur he; exact Or.inl he)
    case injRecv => split <;> (intro ev cur he; exact Or.inl he)
    case inject k => intro ev cur he; exact Or.inl he
    case runLoad =>
      split
      · rename_i e0 q hpc hq
        split
        · intro ev cur he; exact Or.inl he
        · split
          · intro ev cur he; exact Or.inl he
          · intro ev cur he
            have : RunPc.loaded e0 c.st = RunPc.loaded ev cur := he
            injection this with h1 h2
            right; rw [hq, ← h1]; exact List.mem_cons_self
      · intro ev cur he; exact Or.inl he
    case runCommit =>
      split
      · intro ev cur he; exact Or.inl he
      · split
        · intro ev cur he; cases he
        · intro ev cur he; rw [commit_pc] at he; cases he
    case deliver => split <;> (intro ev cur he; exact Or.inl he)
    case closeReturn => split <;> (intro ev cur he; exact Or.inl he)

theorem tagInv_run (as : List Act) : TagInv (run init as) := by
  suffices ∀ c, TagInv c → TagInv (run c as) from this init tagInv_init
  induction as with
  | nil => intro c h; exact h
  | cons a as ih => intro c h; exact ih _ (tagInv_step c a h)

/-! ### After a Select commit in or after dwell `d`, the state is not NotSelected while the dwell is still `d` -/

/-- `d` is not a future dwell, and if it is the current one the session is not NotSelected (it was
    selected in this dwell and has not re-entered NotSelected since: every entry bumps the counter). -/
def DwellInv (d : Nat) (c : Cfg) : Prop := d ≤ c.dwell ∧ (c.dwell = d → c.st ≠ .NS)

theorem dwellInv_step (d : Nat) (c : Cfg) (a : Act) (h : DwellInv d c) : DwellInv d (step c a) := by
  obtain ⟨hle, hns⟩ := h
  unfold step; split
  · exact ⟨hle, hns⟩
  rename_i hstop; clear hstop
  cases a <;> simp only [stepLive]
  case casConnected =>
    split
    · exact ⟨by show d ≤ c.dwell + 1; omega, by intro h; exfalso; (have : c.dwell + 1 = d := h); omega⟩
    · exact ⟨hle, hns⟩
  case casSelected =>
    split
    · exact ⟨hle, fun _ => by simp⟩
    · exact ⟨hle, hns⟩
  case casSelectLost =>
    split
    · exact ⟨by show d ≤ c.dwell + 1; omega, by intro h; exfalso; (have : c.dwell + 1 = d := h); omega⟩
    · exact ⟨hle, hns⟩
  case injStart => split <;> exact ⟨hle, hns⟩
  case injRecv => split <;> exact ⟨hle, hns⟩
  case inject k => exact ⟨hle, hns⟩
  case runLoad => (repeat' split) <;> exact ⟨hle, hns⟩
  case deliver => split <;> exact ⟨hle, hns⟩
  case closeReturn =>
    split
    · exact ⟨hle, fun _ => by simp⟩
    · exact ⟨hle, hns⟩
  case runCommit =>
    split
    · exact ⟨hle, hns⟩
    · rename_i ev cur hp
      split
      · exact ⟨hle, hns⟩
      · unfold DwellInv
        rw [commit_dwell, commit_st]
        split
        · -- the run goroutine stores: a store of NotSelected opens a new dwell
          unfold dwellAfterStore
          split
          · exact ⟨by omega, by intro h; omega⟩
          · rename_i hne; exact ⟨hle, fun _ => hne⟩
        · exact ⟨hle, hns⟩

theorem dwellInv_run (d : Nat) (as : List Act) (c : Cfg) (h : DwellInv d c) : DwellInv d (run c as) := by
  induction as generalizing c with
  | nil => exact h
  | cons a as ih => exact ih _ (dwellInv_step d c a h)

end GoSecs.Sup
