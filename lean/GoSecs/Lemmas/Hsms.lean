/-
  Helper lemmas for the HSMS message model (C03, C04).
-/
import GoSecs.Model.Hsms
import GoSecs.Lemmas.Secs2

namespace GoSecs.Hsms
open GoSecs GoSecs.Secs2

/-! ### Header ⇄ bytes -/

@[simp] theorem Header.toBytes_length (h : Header) : h.toBytes.length = 10 := rfl

theorem Header.ofBytes_toBytes (h : Header) (rest : Bytes) :
    Header.ofBytes (h.toBytes ++ rest) = some (h, rest) := rfl

/-- `ofBytes` succeeds exactly on inputs of at least ten bytes, and then splits them. -/
theorem Header.ofBytes_eq_some (bs : Bytes) (h : Header) (rest : Bytes)
    (e : Header.ofBytes bs = some (h, rest)) : bs = h.toBytes ++ rest := by
  match bs, e with
  | a :: b :: c :: d :: e' :: f :: g :: h' :: i :: j :: r, e =>
    simp only [Header.ofBytes, Option.some.injEq, Prod.mk.injEq] at e
    obtain ⟨rfl, rfl⟩ := e
    rfl

theorem Header.ofBytes_eq_none (bs : Bytes) : Header.ofBytes bs = none ↔ bs.length < 10 := by
  match bs with
  | [] | [_] | [_, _] | [_, _, _] | [_, _, _, _] | [_, _, _, _, _] | [_, _, _, _, _, _]
  | [_, _, _, _, _, _, _] | [_, _, _, _, _, _, _, _] | [_, _, _, _, _, _, _, _, _] =>
    simp [Header.ofBytes]
  | _ :: _ :: _ :: _ :: _ :: _ :: _ :: _ :: _ :: _ :: r =>
    simp [Header.ofBytes]

/-! ### Bodies -/

theorem Body.len_eq (b : Body) : b.len = b.bytes.length := by
  cases b with
  | tree it => simp [Body.len, Body.bytes, enc_length]
  | raw bs => rfl

/-! ### Length prefix -/

theorem beVal_beBytes4 (L : Nat) (h : L < 4294967296) : beVal (beBytes 4 L) = L := by
  rw [beVal_beBytes]; exact Nat.mod_eq_of_lt (by simpa using h)

theorem take4_frame (L : Nat) (p : Bytes) : (beBytes 4 L ++ p).take 4 = beBytes 4 L := by
  rw [List.take_append_of_le_length (by simp)]
  exact List.take_of_length_le (by simp)

theorem drop4_frame (L : Nat) (p : Bytes) : (beBytes 4 L ++ p).drop 4 = p := by
  rw [List.drop_append_of_le_length (by simp)]
  simp [List.drop_of_length_le]

/-- A frame whose length field equals its payload size and lies in [10, cap] is handed to
    `decodeOwnedFrame` unchanged. -/
theorem decodeHSMSMessage_frame (p : Bytes) (h10 : 10 ≤ p.length) (hmax : p.length ≤ maxMsgLen) :
    decodeHSMSMessage (beBytes 4 p.length ++ p) = decodeOwnedFrame p := by
  have hlt : lenLt (beBytes 4 p.length ++ p) 14 = false := by
    rw [lenLt_false_iff]; simp; omega
  have hv : beVal (beBytes 4 p.length) = p.length :=
    beVal_beBytes4 _ (by unfold maxMsgLen at hmax; omega)
  unfold decodeHSMSMessage
  simp only [hlt, take4_frame, drop4_frame, hv, Bool.false_eq_true, reduceIte]
  have h1 : ¬ p.length < 10 := by omega
  have h2 : ¬ p.length > maxMsgLen := by omega
  simp [h1, h2]

/-- Conversely every accepted input has that shape. -/
theorem decodeHSMSMessage_ok (bs : Bytes) (m : Msg) (h : decodeHSMSMessage bs = .ok m) :
    ∃ p, bs = beBytes 4 p.length ++ p ∧ 10 ≤ p.length ∧ p.length ≤ maxMsgLen ∧ decodeOwnedFrame p = .ok m := by
  unfold decodeHSMSMessage at h
  by_cases h14 : lenLt bs 14 = true
  · simp [h14] at h
  · have h14' : 14 ≤ bs.length := by
      rw [Bool.not_eq_true, lenLt_false_iff] at h14; exact h14
    simp only [h14, Bool.false_eq_true, reduceIte] at h
    by_cases h1 : beVal (bs.take 4) < 10
    · simp [h1] at h
    · by_cases h2 : beVal (bs.take 4) > maxMsgLen
      · simp [h1, h2] at h
      · by_cases h3 : bs.length - 4 = beVal (bs.take 4)
        · simp only [h1, h2, h3, reduceIte, bne_self_eq_false, Bool.false_eq_true, List.length_drop] at h
          refine ⟨bs.drop 4, ?_, by simp only [List.length_drop]; omega, by simp only [List.length_drop]; omega, h⟩
          have ht : (bs.take 4).length = 4 := by simp; omega
          have := beBytes_beVal (bs.take 4)
          rw [ht] at this
          rw [List.length_drop, h3, this, List.take_append_drop]
        · simp [h1, h2, h3] at h

/-! ### Header bit packing -/

/-- `stream & 0x7F | (w ? 0x80 : 0)` is `stream + 128·w` for the streams the gate admits. -/
theorem wStream_arith : ∀ n, n < 128 → ∀ w : Bool,
    ((n &&& 0x7F) ||| (if w then 0x80 else 0)) = n + (if w then 128 else 0) := by
  decide

theorem wStreamByte_eq (s : UInt8) (hs : s.toNat ≤ 127) (w : Bool) :
    wStreamByte s w = UInt8.ofNat (s.toNat + (if w then 128 else 0)) := by
  unfold wStreamByte
  rw [wStream_arith s.toNat (by omega) w]

theorem stream_unpack : ∀ n, n < 128 → ∀ w : Bool,
    ((n + (if w then 128 else 0)) &&& 0x7F) = n ∧ (((n + (if w then 128 else 0)) >>> 7 != 0) = w) := by
  decide

/-! ### Re-stamping at header level -/

def stampH (h : Header) : Stamp → Header
  | .sid v => h.withSessionID v
  | .sys s => h.withSys s
  | .id v => h.withSys (sysOfID v)

/-- The last session-id stamp of a chain (starting from `acc`). -/
def lastSid (acc : Option Nat) (l : List Stamp) : Option Nat :=
  l.foldl (fun a s => match s with | .sid v => some v | _ => a) acc

/-- The last system-bytes stamp of a chain (`WithID v` stamps `ToSystemBytes v`). -/
def lastSys (acc : Option Sys) (l : List Stamp) : Option Sys :=
  l.foldl (fun a s => match s with | .sys y => some y | .id v => some (sysOfID v) | .sid _ => a) acc

/-- Apply at most one session-id stamp and at most one system-bytes stamp. -/
def applyLast (h : Header) (a : Option Nat) (b : Option Sys) : Header :=
  let h1 := match a with | some v => h.withSessionID v | none => h
  match b with | some s => h1.withSys s | none => h1

theorem stampH_applyLast (h : Header) (a : Option Nat) (b : Option Sys) (s : Stamp) :
    stampH (applyLast h a b) s = applyLast h (lastSid a [s]) (lastSys b [s]) := by
  cases s <;> cases a <;> cases b <;> rfl

theorem foldl_stampH (h : Header) (l : List Stamp) : ∀ (a : Option Nat) (b : Option Sys),
    l.foldl stampH (applyLast h a b) = applyLast h (lastSid a l) (lastSys b l) := by
  induction l with
  | nil => intro a b; rfl
  | cons s l ih =>
    intro a b
    rw [List.foldl_cons, stampH_applyLast, ih]
    rfl

theorem Msg.stamp_hdr (m : Msg) (s : Stamp) : (m.stamp s).hdr = stampH m.hdr s := by
  cases m <;> cases s <;> rfl

theorem Msg.stamps_hdr (l : List Stamp) : ∀ (m : Msg), (m.stamps l).hdr = l.foldl stampH m.hdr := by
  induction l with
  | nil => intro m; rfl
  | cons s l ih => intro m; simp only [Msg.stamps, List.foldl_cons] at ih ⊢; rw [ih, Msg.stamp_hdr]

/-- A message with its header replaced. -/
def Msg.setHdr : Msg → Header → Msg
  | .data m, h => .data { m with hdr := h }
  | .control m, h => .control { m with hdr := h }

theorem Msg.stamp_eq_setHdr (m : Msg) (s : Stamp) : m.stamp s = m.setHdr (stampH m.hdr s) := by
  cases m <;> cases s <;> rfl

theorem Msg.setHdr_setHdr (m : Msg) (a b : Header) : (m.setHdr a).setHdr b = m.setHdr b := by
  cases m <;> rfl

theorem Msg.setHdr_hdr (m : Msg) (a : Header) : (m.setHdr a).hdr = a := by
  cases m <;> rfl

theorem Msg.setHdr_self (m : Msg) : m.setHdr m.hdr = m := by
  cases m <;> rfl

theorem Msg.stamps_eq_setHdr (l : List Stamp) : ∀ (m : Msg), m.stamps l = m.setHdr (l.foldl stampH m.hdr) := by
  induction l with
  | nil => intro m; exact (Msg.setHdr_self m).symm
  | cons s l ih =>
    intro m
    simp only [Msg.stamps, List.foldl_cons] at ih ⊢
    rw [ih, Msg.stamp_eq_setHdr, Msg.setHdr_setHdr, Msg.setHdr_hdr]

theorem take4_drop14 (a b c : Bytes) (ha : a.length = 4) (hb : b.length = 10) :
    (a ++ b ++ c).take 4 = a ∧ (a ++ b ++ c).drop 14 = c := by
  constructor
  · rw [List.append_assoc, List.take_append_of_le_length (by omega), List.take_of_length_le (by omega)]
  · rw [List.drop_append_of_le_length (by simp; omega)]
    have : (a ++ b).length = 14 := by simp; omega
    rw [List.drop_of_length_le (by omega)]; rfl

/-- Replacing the header changes only the ten header bytes of the frame. -/
theorem Msg.toBytes_setHdr (m : Msg) (h : Header) :
    (m.setHdr h).toBytes = m.toBytes.take 4 ++ h.toBytes ++ m.toBytes.drop 14 := by
  cases m with
  | data d =>
    simp only [Msg.setHdr, Msg.toBytes]
    obtain ⟨e1, e2⟩ := take4_drop14 (beBytes 4 (10 + d.body.len)) d.hdr.toBytes d.body.bytes (by simp) rfl
    rw [e1, e2]
  | control c => rfl

end GoSecs.Hsms
