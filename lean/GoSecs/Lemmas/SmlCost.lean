/-
  Step counts of the SML parser model (C14, the TIME clause): bounds for the cost functions of
  Model/SmlCost.lean.

  Every scan examines at most the unread input, so every non-recursive parser function costs at most
  `k·(bytes left) + k0` steps; the loops whose cost is not of that shape (`numStr += …` in
  `parseASCIIStrict`, one `checkASCIICloseQuote` per byte in `parseASCIIFast`) cost at most
  `(bytes consumed)·(c·(bytes left) + 1)`.  With the potential `pot L = 10·L² + 70·L` of the bytes left
  this gives, by induction over the parse: `steps + pot(left after) ≤ pot(left before)` for every
  `parseItem` activation (it consumes its `<`, which pays for its own scans), hence for lists; a
  message costs at most `pot` of what it consumes plus `17·L + 63`, and a message consumes a byte, which
  pays for that with the second potential `potM L = 9·L² + 70·L`.
-/
import GoSecs.Lemmas.SmlInv
import GoSecs.Model.SmlCost

namespace GoSecs.Sml
open GoSecs GoSecs.Secs2
set_option linter.unusedSimpArgs false

/-! ### Elementary scans and scanner primitives: at most the unread input -/

theorem idxExam_le (p : UInt8 → Bool) : ∀ bs : Bytes, idxExam p bs ≤ bs.length
  | [] => by simp [idxExam]
  | c :: r => by
    have := idxExam_le p r
    simp only [idxExam, List.length_cons]; split <;> omega

/-- A scan that finds nothing examines everything. -/
theorem idxExam_all (p : UInt8 → Bool) : ∀ bs : Bytes, (∀ c ∈ bs, p c = false) → idxExam p bs = bs.length
  | [], _ => rfl
  | c :: r, h => by
    have h1 : p c = false := h c (List.mem_cons_self ..)
    have := idxExam_all p r (fun x hx => h x (List.mem_cons_of_mem _ hx))
    simp only [idxExam, h1, List.length_cons]; simp; omega

theorem starSlashExam_le : ∀ bs : Bytes, starSlashExam bs ≤ bs.length
  | [] => by simp [starSlashExam]
  | [_] => by simp [starSlashExam]
  | c :: d :: r => by
    have := starSlashExam_le (d :: r)
    simp only [starSlashExam, List.length_cons] at this ⊢; split <;> omega

grind_pattern idxExam_le => idxExam p bs
grind_pattern starSlashExam_le => starSlashExam bs

theorem skipSpaceCost_le (st : St) : skipSpaceCost st ≤ st.data.length + 2 := by
  have := idxExam_le notWS st.data
  simp only [skipSpaceCost, fwdCost]; split <;> omega
grind_pattern skipSpaceCost_le => skipSpaceCost st

theorem skipCommentCost_le (st : St) : skipCommentCost st ≤ 2 * st.data.length + 8 := by
  have h0 := skipSpaceCost_le st
  unfold skipCommentCost
  split
  · omega
  · rename_i st1 h
    have h1 := (skipSpace_f h).2.2.2
    have h2 := idxExam_le (isByte cNL) st1.data
    have h3 := starSlashExam_le st1.data
    simp only [fwdCost]
    repeat' (first | split | dsimp only)
    all_goals grind
grind_pattern skipCommentCost_le => skipCommentCost st

theorem peekNSCost_le (st : St) : peekNSCost st ≤ st.data.length + 4 := by
  have h0 := skipSpaceCost_le st
  simp only [peekNSCost]; split <;> omega
grind_pattern peekNSCost_le => peekNSCost st

theorem nextRuneCost_le (st : St) : nextRuneCost st ≤ 2 := by
  simp only [nextRuneCost, fwdCost]; split <;> omega
grind_pattern nextRuneCost_le => nextRuneCost st

theorem nextNSCost_le (st : St) : nextNSCost st ≤ st.data.length + 5 := by
  have h0 := skipSpaceCost_le st
  have h1 := nextRuneCost_le (skipSpace st).2
  simp only [nextNSCost]; split <;> omega
grind_pattern nextNSCost_le => nextNSCost st

theorem nextNumberCost_le (st : St) : nextNumberCost st ≤ 2 * st.data.length + 2 := by
  have := idxExam_le notDigit st.data
  simp only [nextNumberCost, fwdCost]; omega
grind_pattern nextNumberCost_le => nextNumberCost st

theorem parseItemTypeCost_le (data : Bytes) : parseItemTypeCost data ≤ 18 := by
  simp only [parseItemTypeCost, fwdCost]; repeat' split
  all_goals omega
grind_pattern parseItemTypeCost_le => parseItemTypeCost data

theorem parseItemSizeCost_le (st : St) : parseItemSizeCost st ≤ 8 * st.data.length + 25 := by
  unfold parseItemSizeCost
  simp only [fwdCost]
  repeat' (first | split | dsimp only)
  all_goals grind


/-! ### Loops with a super-linear cost -/

def tlen : AMode → Nat
  | .num tok => tok.length
  | _ => 0

theorem utf8Width_le (bs : Bytes) : utf8Width bs ≤ 4 := by
  unfold utf8Width
  repeat' (first | split | dsimp only)
  all_goals omega

theorem runeOut_len (bs : Bytes) : (runeOut bs).1.length ≤ 4 := by
  have := utf8Width_le bs
  unfold runeOut
  split
  · simp
  · rename_i w hw
    simp only [List.length_take]; omega

theorem ro_len (c : UInt8) (r : Bytes) :
    (if c.toNat < 128 then (([c], 0) : Bytes × Nat) else runeOut (c :: r)).1.length ≤ 4 := by
  split
  · simp
  · exact runeOut_len _

/-- One loop step: `x` steps now, the rest bounded with a budget `T'` that did not grow. -/
theorem loop_step {e T T' x c : Nat} (hT : T' ≤ T) (hx : x ≤ T + 1) (ih : c ≤ e * (T' + 1)) :
    x + c ≤ (e + 1) * (T + 1) := by
  have h1 : e * (T' + 1) ≤ e * (T + 1) := Nat.mul_le_mul_left _ (by omega)
  have h2 : (e + 1) * (T + 1) = e * (T + 1) + (T + 1) := Nat.succ_mul _ _
  omega

/-- `loop_step` in the shape the success lemma needs: `n - i` bytes visited, of which this is the first. -/
theorem loop_step_sub {n i t t' x c : Nat} (hin : i + 1 ≤ n) (ht : t' ≤ t + 4) (hx : x ≤ t + 5)
    (ih : c ≤ (n - (i + 1)) * (t' + 4 * (n - (i + 1)) + 1)) :
    x + c ≤ (n - i) * (t + 4 * (n - i) + 1) := by
  obtain ⟨e, he⟩ : ∃ e, n - i = e + 1 := ⟨n - i - 1, by omega⟩
  have he' : n - (i + 1) = e := by omega
  rw [he]; rw [he'] at ih
  exact loop_step (T' := t' + 4 * e) (by omega) (by omega) ih

theorem strictLoop_cost (O : Oracle) (q : UInt8) : ∀ (data : Bytes) (m : AMode) (acc : Bytes) (i skip : Nat) (s : Bytes) (n : Nat),
    strictLoop O q m acc i skip data = some (s, n) →
      strictCost O q m skip data ≤ (n - i) * (tlen m + 4 * (n - i) + 1)
  | [], m, acc, i, skip, s, n, h => by simp [strictLoop] at h
  | c :: r, m, acc, i, skip + 1, s, n, h => by
    simp only [strictLoop] at h
    have hc := (strictLoop_consumed O q r m acc (i + 1) skip s n h).2.2
    have ih := strictLoop_cost O q r m acc (i + 1) skip s n h
    simp only [strictCost]
    exact loop_step_sub (by omega) (by omega) (by omega) ih
  | c :: r, m, acc, i, 0, s, n, h => by
    have hro := ro_len c r
    have ih := fun m acc sk h' => strictLoop_cost O q r m acc (i + 1) sk s n h'
    have hc := fun m acc sk h' => (strictLoop_consumed O q r m acc (i + 1) sk s n h').2.2
    simp only [strictLoop] at h
    simp only [strictCost]
    generalize (if c.toNat < 128 then (([c], 0) : Bytes × Nat) else runeOut (c :: r)) = ro at hro h ⊢
    obtain ⟨w, sk⟩ := ro
    dsimp only at hro h ⊢
    cases m with
    | dflt =>
      dsimp only at h ⊢
      by_cases h1 : c = q
      · simp only [h1, reduceIte] at h ⊢
        exact loop_step_sub (by have := hc _ _ _ h; omega) (by simp only [tlen]; omega) (by simp only [tlen]; omega) (ih _ _ _ h)
      · simp only [h1, reduceIte] at h ⊢
        by_cases h2 : c = cSP
        · simp only [h2, reduceIte] at h ⊢
          exact loop_step_sub (by have := hc _ _ _ h; omega) (by simp only [tlen]; omega) (by simp only [tlen]; omega) (ih _ _ _ h)
        · simp only [h2, reduceIte] at h ⊢
          by_cases h3 : c = cGT
          · simp only [h3, reduceIte] at h ⊢
            simp only [Option.some.injEq, Prod.mk.injEq] at h; obtain ⟨_, rfl⟩ := h
            simp only [tlen, Nat.add_sub_cancel_left]; omega
          · simp only [h3, reduceIte] at h ⊢
            have h4 := ih _ _ _ h
            simp only [tlen, List.length_reverse] at h4 ⊢
            have := loop_step_sub (x := 1 + w.length) (t := 0) (by have := hc _ _ _ h; omega) (t' := w.length) (by omega) (by omega) h4
            omega
    | quoted esc =>
      dsimp only at h ⊢
      by_cases h1 : c = cBS
      · simp only [h1, reduceIte] at h ⊢
        cases esc <;> simp only [reduceIte, Bool.false_eq_true] at h ⊢ <;>
          exact loop_step_sub (by have := hc _ _ _ h; omega) (by simp only [tlen]; omega) (by simp only [tlen]; omega) (ih _ _ _ h)
      · simp only [h1, reduceIte] at h ⊢
        by_cases h2 : c = q
        · simp only [h2, reduceIte] at h ⊢
          cases esc <;> simp only [reduceIte, Bool.false_eq_true] at h ⊢ <;>
            exact loop_step_sub (by have := hc _ _ _ h; omega) (by simp only [tlen]; omega) (by simp only [tlen]; omega) (ih _ _ _ h)
        · simp only [h2, reduceIte] at h ⊢
          by_cases h3 : c = cGT
          · simp only [h3, reduceIte] at h ⊢
            cases esc <;> simp only [reduceIte, Bool.false_eq_true] at h ⊢
            · cases h
            · exact loop_step_sub (by have := hc _ _ _ h; omega) (by simp only [tlen]; omega) (by simp only [tlen]; omega) (ih _ _ _ h)
          · simp only [h3, reduceIte] at h ⊢
            exact loop_step_sub (by have := hc _ _ _ h; omega) (by simp only [tlen]; omega) (by simp only [tlen]; omega) (ih _ _ _ h)
    | num tok =>
      dsimp only at h ⊢
      by_cases h1 : c = cSP
      · simp only [h1, reduceIte] at h ⊢
        cases hp : parseCharTok O tok.reverse with
        | none => simp only [hp] at h; cases h
        | some b =>
          simp only [hp] at h ⊢
          have h4 := ih _ _ _ h
          have := loop_step_sub (x := 1 + tok.length) (t := tlen (.num tok)) (by have := hc _ _ _ h; omega) (t' := tlen .dflt)
            (by simp only [tlen]; omega) (by simp only [tlen]; omega) h4
          simp only [tlen] at this ⊢
          omega
      · simp only [h1, reduceIte] at h ⊢
        by_cases h3 : c = cGT
        · simp only [h3, reduceIte] at h ⊢
          cases hp : parseCharTok O tok.reverse with
          | none => simp only [hp] at h; cases h
          | some b =>
            simp only [hp, Option.some.injEq, Prod.mk.injEq] at h; obtain ⟨_, rfl⟩ := h
            simp only [tlen, Nat.add_sub_cancel_left]; omega
        · simp only [h3, reduceIte] at h ⊢
          have h4 := ih _ _ _ h
          have := loop_step_sub (x := 1 + (tok.length + w.length)) (t := tlen (.num tok)) (by have := hc _ _ _ h; omega)
            (t' := tlen (.num (w.reverse ++ tok)))
            (by simp only [tlen, List.length_append, List.length_reverse]; omega) (by simp only [tlen]; omega) h4
          simp only [tlen] at this ⊢
          omega
theorem strictCost_le (O : Oracle) (q : UInt8) : ∀ (data : Bytes) (m : AMode) (skip : Nat),
    strictCost O q m skip data ≤ data.length * (tlen m + 4 * data.length + 1)
  | [], m, skip => by simp [strictCost]
  | c :: r, m, skip + 1 => by
    simp only [strictCost, List.length_cons]
    exact loop_step (by omega) (by omega) (strictCost_le O q r m skip)
  | c :: r, m, 0 => by
    have hro := ro_len c r
    have ih := fun m sk => strictCost_le O q r m sk
    simp only [strictCost, List.length_cons]
    generalize (if c.toNat < 128 then (([c], 0) : Bytes × Nat) else runeOut (c :: r)) = ro at hro ⊢
    obtain ⟨w, sk⟩ := ro
    dsimp only at hro ⊢
    cases m with
    | dflt =>
      dsimp only
      repeat' split
      · exact loop_step (T' := tlen (.quoted false) + 4 * r.length) (by simp only [tlen]; omega) (by simp only [tlen]; omega) (ih _ _)
      · exact loop_step (T' := tlen .dflt + 4 * r.length) (by simp only [tlen]; omega) (by simp only [tlen]; omega) (ih _ _)
      · have := @loop_step r.length (tlen AMode.dflt + 4 * (r.length + 1)) 0 1 0 (by omega) (by omega) (by omega); omega
      · have := @loop_step r.length (tlen AMode.dflt + 4 * (r.length + 1)) _ (1 + w.length) _
          (by simp only [tlen, List.length_reverse]; omega) (by simp only [tlen]; omega) (ih (.num w.reverse) sk)
        omega
    | quoted esc =>
      dsimp only
      repeat' split
      all_goals first
        | exact loop_step (T' := tlen (.quoted false) + 4 * r.length) (by simp only [tlen]; omega) (by simp only [tlen]; omega) (ih _ _)
        | exact loop_step (T' := tlen (.quoted true) + 4 * r.length) (by simp only [tlen]; omega) (by simp only [tlen]; omega) (ih _ _)
        | exact loop_step (T' := tlen .dflt + 4 * r.length) (by simp only [tlen]; omega) (by simp only [tlen]; omega) (ih _ _)
        | (have := @loop_step r.length (tlen (AMode.quoted esc) + 4 * (r.length + 1)) 0 1 0 (by omega) (by omega) (by omega); omega)
    | num tok =>
      dsimp only
      repeat' split
      · have := @loop_step r.length (tlen (AMode.num tok) + 4 * (r.length + 1)) 0 (1 + tok.length) 0 (by omega) (by simp only [tlen]; omega) (by omega)
        omega
      · have := @loop_step r.length (tlen (AMode.num tok) + 4 * (r.length + 1)) _ (1 + tok.length) _
          (by simp only [tlen]; omega) (by simp only [tlen]; omega) (ih .dflt 0)
        omega
      · have := @loop_step r.length (tlen (AMode.num tok) + 4 * (r.length + 1)) 0 (1 + tok.length) 0 (by omega) (by simp only [tlen]; omega) (by omega)
        omega
      · have := @loop_step r.length (tlen (AMode.num tok) + 4 * (r.length + 1)) _ (1 + (tok.length + w.length)) _
          (by simp only [tlen, List.length_append, List.length_reverse]; omega) (by simp only [tlen]; omega) (ih (.num (w.reverse ++ tok)) sk)
        omega
theorem checkCloseCost_le (q : UInt8) (rest : Bytes) : checkCloseCost q rest ≤ rest.length + 1 := by
  unfold checkCloseCost
  cases rest with
  | nil => simp
  | cons c r =>
    have := idxExam_le notWS r
    dsimp only
    split <;> simp only [List.length_cons] <;> omega

theorem closeScan_yes : ∀ (r : Bytes) (nidx n : Nat), closeScan nidx r = .yes n → nidx + 1 ≤ n ∧ n ≤ nidx + r.length
  | [], _, _, h => by simp [closeScan] at h
  | c :: r, nidx, n, h => by
    simp only [closeScan] at h
    split at h
    · have := closeScan_yes r (nidx + 1) n h
      simp only [List.length_cons]; omega
    · split at h
      · cases h; simp only [List.length_cons]; omega
      · cases h

theorem checkClose_yes {q : UInt8} {idx : Nat} {rest : Bytes} {n : Nat} (h : checkClose q idx rest = .yes n) :
    idx + 2 ≤ n ∧ n ≤ idx + rest.length := by
  unfold checkClose at h
  cases rest with
  | nil => cases h
  | cons c r =>
    dsimp only at h
    split at h
    · cases h
    · have := closeScan_yes r (idx + 1) n h
      simp only [List.length_cons]; omega

theorem fastCost_le (q : UInt8) : ∀ (data : Bytes) (i : Nat), fastCost q i data ≤ data.length * (data.length + 1)
  | [], _ => by simp [fastCost]
  | c :: r, i => by
    have hc := checkCloseCost_le q (c :: r)
    have ih := fastCost_le q r (i + 1)
    simp only [fastCost]
    simp only [List.length_cons] at hc ⊢
    split
    · have := @loop_step r.length (r.length + 1) 0 (checkCloseCost q (c :: r)) 0 (by omega) (by omega) (by omega)
      omega
    · exact loop_step (by omega) (by omega) ih

theorem fastLoop_cost (q : UInt8) : ∀ (data pre : Bytes) (i : Nat) (s : Bytes) (n : Nat),
    fastLoop q pre i data = some (s, n) →
      i + 2 ≤ n ∧ n ≤ i + data.length ∧ fastCost q i data ≤ (n - i) * (data.length + 1)
  | [], _, _, _, _, h => by simp [fastLoop] at h
  | c :: r, pre, i, s, n, h => by
    have hc := checkCloseCost_le q (c :: r)
    simp only [fastLoop] at h
    simp only [fastCost]
    simp only [List.length_cons] at hc ⊢
    split at h
    · rename_i n' hy
      cases h
      simp only [hy]
      have := checkClose_yes hy
      simp only [List.length_cons] at this
      refine ⟨this.1, this.2, ?_⟩
      obtain ⟨e, he⟩ : ∃ e, n - i = e + 1 := ⟨n - i - 1, by omega⟩
      rw [he]
      have := @loop_step e (r.length + 1) 0 (checkCloseCost q (c :: r)) 0 (by omega) (by omega) (by omega)
      omega
    · rename_i hy
      simp only [hy]
      have ih := fastLoop_cost q r (c :: pre) (i + 1) s n h
      refine ⟨by omega, by omega, ?_⟩
      obtain ⟨e, he⟩ : ∃ e, n - i = e + 1 := ⟨n - i - 1, by omega⟩
      have he' : n - (i + 1) = e := by omega
      rw [he]; rw [he'] at ih
      exact loop_step (T' := r.length) (by omega) (by omega) ih.2.2

/-! ### The potential -/

/-- Potential of the bytes left. -/
def pot (L : Nat) : Nat := 10 * (L * L) + 70 * L

theorem pot_mono {a b : Nat} (h : a ≤ b) : pot a + (b - a) ≤ pot b := by
  obtain ⟨n, rfl⟩ : ∃ n, b = a + n := ⟨b - a, by omega⟩
  simp only [pot]; grind

theorem pot_le {a b : Nat} (h : a ≤ b) : pot a ≤ pot b := by
  have := pot_mono h; omega

theorem pot_ge (a : Nat) : a ≤ pot a := by
  simp only [pot]; omega

/-- Consuming one byte pays for `20·(bytes left) + 60` steps. -/
theorem pot_step {a b : Nat} (h : a + 1 ≤ b) : pot a + 20 * b + 60 ≤ pot b := by
  obtain ⟨n, rfl⟩ : ∃ n, b = a + 1 + n := ⟨b - (a + 1), by omega⟩
  simp only [pot]; grind

theorem pot_fastS {n b : Nat} (h : n ≤ b) : n * (b + 1) + pot (b - n) ≤ pot b := by
  obtain ⟨a, rfl⟩ : ∃ a, b = a + n := ⟨b - n, by omega⟩
  simp only [pot, Nat.add_sub_cancel]; grind

theorem pot_strictS {n b : Nat} (h : n ≤ b) : n * (4 * n + 1) + pot (b - n) ≤ pot b := by
  obtain ⟨a, rfl⟩ : ∃ a, b = a + n := ⟨b - n, by omega⟩
  simp only [pot, Nat.add_sub_cancel]; grind

theorem pot_strictF (b : Nat) : b * (4 * b + 1) ≤ pot b := by
  simp only [pot]; grind
theorem pot_fastF (b : Nat) : b * (b + 1) ≤ pot b := by
  simp only [pot]; grind

/-- Cost specification of a parser function started at `st` with result `r` and `c` steps. -/
def CostSpec {α} (k k0 : Nat) (st : St) (r : P α) (c : Nat) : Prop :=
  (∀ a st', r = .ok (a, st') → c + pot st'.data.length ≤ pot st.data.length + k * st.data.length + k0) ∧
  (∀ e, r = .error e → c ≤ pot st.data.length + k * st.data.length + k0)

/-- A linear cost and a window that only moves forward. -/
theorem costSpec_linear {α} {k k0 : Nat} {st : St} {r : P α} {c : Nat}
    (hc : c ≤ k * st.data.length + k0) (hs : Spec st r) : CostSpec k k0 st r c := by
  constructor
  · intro a st' h
    have := pot_le (hs.1 a st' h).2.2.1
    omega
  · intro e _; omega

/-! ### Value items -/

def tokW : List Bytes → Nat
  | [] => 0
  | t :: ts => 2 * t.length + 1 + tokW ts

theorem convCost_le {α} (conv : Bytes → Option α) : ∀ ts, convCost conv ts ≤ tokW ts
  | [] => by simp [convCost, tokW]
  | t :: ts => by
    have := convCost_le conv ts
    simp only [convCost, tokW]; split <;> omega

theorem fieldsAux_tokW : ∀ (bs cur : Bytes) (skip : Nat),
    tokW (fieldsAux cur skip bs) ≤ 2 * bs.length + 2 * cur.length + 1
  | [], cur, skip => by
    cases skip <;> simp only [fieldsAux] <;> split <;> simp [tokW]
  | c :: r, cur, skip + 1 => by
    have := fieldsAux_tokW r cur skip
    simp only [fieldsAux, List.length_cons]; omega
  | c :: r, cur, 0 => by
    simp only [fieldsAux]
    split
    · have := fieldsAux_tokW r (c :: cur) 0
      simp only [List.length_cons] at this ⊢; omega
    · rename_i w _
      have := fieldsAux_tokW r [] w
      split
      · simp only [List.length_cons, List.length_nil] at this ⊢; omega
      · simp only [tokW, List.length_cons, List.length_nil, List.length_reverse] at this ⊢; omega

theorem parseValuesCost_le {α} (conv : Bytes → Option α) (st : St) :
    parseValuesCost conv st ≤ 5 * st.data.length + 4 := by
  have h1 := idxExam_le (isByte cGT) st.data
  unfold parseValuesCost
  split
  · omega
  · rename_i i hi
    have hlt := indexByte_lt cGT st.data 0 i hi
    have h2 := convCost_le conv (fields (st.data.take i))
    have h3 := fieldsAux_tokW (st.data.take i) [] 0
    simp only [List.length_take, List.length_nil] at h3
    have hmin : min i st.data.length = i := by omega
    rw [hmin] at h3
    simp only [fwdCost, fields] at h2 ⊢
    grind

theorem scanQuotedExam_le (q : UInt8) : ∀ (bs : Bytes) (i lq : Nat), scanQuotedExam q i lq bs ≤ bs.length
  | [], _, _ => by simp [scanQuotedExam]
  | c :: r, i, lq => by
    have h1 := scanQuotedExam_le q r (i + 1) i
    have h2 := scanQuotedExam_le q r (i + 1) lq
    simp only [scanQuotedExam, List.length_cons]
    repeat' split
    all_goals omega

grind_pattern scanQuotedExam_le => scanQuotedExam q i lq bs

theorem parseQuotedCost_le (w : Bool) (st : St) : parseQuotedCost w st ≤ 4 * st.data.length + 7 := by
  have h0 := nextNSCost_le st
  unfold parseQuotedCost
  simp only [fwdCost]
  repeat' (first | split | dsimp only)
  all_goals grind

/-! ### ASCII items -/

theorem parseASCIIStrict_cost (O : Oracle) (size : Nat) (st : St) :
    CostSpec 5 9 st (parseASCIIStrict O size st) (parseASCIIStrictCost O st) := by
  have h1 := idxExam_le isQuoteOrGT st.data
  have h2 := idxExam_le (isByte cGT) st.data
  unfold parseASCIIStrict parseASCIIStrictCost
  dsimp only
  cases hl : strictLoop O (detectQuote st.data) .dflt [] 0 0 st.data with
  | none =>
    have h3 := strictCost_le O (detectQuote st.data) st.data .dflt 0
    have h4 := pot_strictF st.data.length
    simp only [tlen, Nat.zero_add] at h3
    constructor
    · intro a st' h; simp [syn, synAt] at h
    · intro e _; simp only; omega
  | some sn =>
    obtain ⟨s, n⟩ := sn
    have hc := strictLoop_consumed O (detectQuote st.data) st.data .dflt [] 0 0 s n hl
    have h3 := strictLoop_cost O (detectQuote st.data) st.data .dflt [] 0 0 s n hl
    simp only [tlen, Nat.zero_add, Nat.sub_zero] at h3
    have h4 := pot_strictS (n := n) (b := st.data.length) (by omega)
    have h5 := fwd_exact_len n { st with alloc := st.alloc + asciiPrealloc size st.data } (by simp only; omega)
    constructor
    · intro a st' h
      simp only [Except.ok.injEq, Prod.mk.injEq] at h
      obtain ⟨_, rfl⟩ := h
      have h6 : (fwd n { st with alloc := st.alloc + asciiPrealloc size st.data }).data.length = st.data.length - n := by
        simp only at h5; omega
      rw [h6]; simp only [fwdCost]; omega
    · intro e h; cases h

theorem fastLoop_some_pot {c : UInt8} {st1 : St} {s : Bytes} {n : Nat} (hl : fastLoop c [] 0 st1.data = some (s, n)) :
    fastCost c 0 st1.data + pot (fwd n st1).data.length ≤ pot st1.data.length := by
  have h3 := fastLoop_cost c st1.data [] 0 s n hl
  simp only [Nat.zero_add, Nat.sub_zero] at h3
  have h4 := pot_fastS (n := n) (b := st1.data.length) (by omega)
  have h5 := fwd_exact_len n st1 (by omega)
  have h6 : (fwd n st1).data.length = st1.data.length - n := by omega
  rw [h6]; omega

theorem fastLoop_none_pot {c : UInt8} {data : Bytes} (_hl : fastLoop c [] 0 data = none) :
    fastCost c 0 data ≤ pot data.length := by
  have h3 := fastCost_le c data 0
  have h4 := pot_fastF data.length
  omega

theorem checkClose_drop_yes {q : UInt8} {k n : Nat} {data : Bytes} (h : checkClose q k (data.drop k) = .yes n)
    (hk : k ≤ data.length) : n ≤ data.length := by
  have := (checkClose_yes h).2
  simp only [List.length_drop] at this; omega

section FastAscii
local grind_pattern pot_le => pot a, pot b
grind_pattern checkCloseCost_le => checkCloseCost q rest
attribute [grind →] fastLoop_some_pot fastLoop_none_pot checkClose_drop_yes

theorem parseASCIIFast_cost (size : Nat) (st : St) :
    CostSpec 5 9 st (parseASCIIFast size st) (parseASCIIFastCost size st) := by
  have h0 := nextNSCost_le st
  unfold parseASCIIFast parseASCIIFastCost
  simp only [fwdCost]
  constructor
  · intro a st' h
    repeat' (first | split at h | dsimp only at h)
    all_goals first
      | (cases h; done)
      | (exfalso; exact syn_not_ok h)
      | skip
    all_goals (simp only [*, fwdCost]; grind)
  · intro e h
    repeat' (first | split at h | dsimp only at h)
    all_goals first
      | (cases h; done)
      | (simp only [*, fwdCost]; grind)

end FastAscii

/-! ### Leaves -/

theorem parseLeaf_cost (O : Oracle) (strict : Bool) (ty : Ty) (size : Nat) (st : St) :
    CostSpec 5 9 st (parseLeaf O strict ty size st) (parseLeafCost O strict ty size st) := by
  have hs := spec_parseLeaf O strict ty size st
  cases ty
  case ascii =>
    simp only [parseLeaf, parseLeafCost]
    split
    · exact parseASCIIStrict_cost _ _ _
    · exact parseASCIIFast_cost _ _
  case list =>
    simp only [parseLeaf, parseLeafCost]
    constructor
    · intro a st' h; exact (syn_not_ok h).elim
    · intro e _; omega
  all_goals
    refine costSpec_linear ?_ hs
    simp only [parseLeafCost]
    first
      | (have := parseQuotedCost_le false st; omega)
      | (have := parseQuotedCost_le true st; omega)
      | (have := parseValuesCost_le parseBoolTok st; omega)
      | (have := parseValuesCost_le (parseBinTok O) st; omega)
      | (rename_i w; have := parseValuesCost_le (O.parseF w) st; omega)
      | (rename_i w; have := parseValuesCost_le (parseIntW O w.bytes) st; omega)
      | (rename_i w; have := parseValuesCost_le (parseUintW O w.bytes) st; omega)

theorem parseLeaf_cost_ok {O strict ty size st v st'} (h : parseLeaf O strict ty size st = .ok (v, st')) :
    parseLeafCost O strict ty size st + pot st'.data.length ≤ pot st.data.length + 5 * st.data.length + 9 :=
  (parseLeaf_cost O strict ty size st).1 v st' h
theorem parseLeaf_cost_err {O strict ty size st e} (h : parseLeaf O strict ty size st = .error e) :
    parseLeafCost O strict ty size st ≤ pot st.data.length + 5 * st.data.length + 9 :=
  (parseLeaf_cost O strict ty size st).2 e h
attribute [grind →] parseLeaf_cost_ok parseLeaf_cost_err

/-! ### Items and lists -/

grind_pattern parseItemSizeCost_le => parseItemSizeCost st


mutual
theorem parseItem_cost (O : Oracle) (strict : Bool) : ∀ (fuel depth : Nat) (st : St),
    (∀ it st', parseItem O strict fuel depth st = .ok (it, st') →
      parseItemCost O strict fuel depth st + pot st'.data.length + (st.data.length + 5) ≤ pot st.data.length) ∧
    (∀ e, parseItem O strict fuel depth st = .error e →
      parseItemCost O strict fuel depth st ≤ pot st.data.length + 6)
  | 0, _, st => by
    simp only [parseItem, parseItemCost]
    exact ⟨fun it st' h => (syn_not_ok h).elim, fun e _ => by omega⟩
  | fuel + 1, depth, st => by
    have ihL1 : ∀ acc s stl it s', parseList O strict fuel depth acc stl = .ok (it, s') →
        parseListCost O strict fuel depth acc s stl + pot s'.data.length ≤ s + pot stl.data.length :=
      fun acc s stl it s' h => (parseList_cost O strict fuel depth acc s stl).1 it s' h
    have ihL2 : ∀ acc s stl e, parseList O strict fuel depth acc stl = .error e →
        parseListCost O strict fuel depth acc s stl ≤ s + pot stl.data.length + stl.data.length + 11 :=
      fun acc s stl e h => (parseList_cost O strict fuel depth acc s stl).2 e h
    have hge := pot_ge st.data.length
    have hc0 := nextNSCost_le { st with maxDepth := max st.maxDepth depth }
    simp only at hc0
    constructor
    · intro it st' h
      unfold parseItem at h
      unfold parseItemCost
      dsimp only at h ⊢
      split at h
      · split at h
        · exact (syn_not_ok h).elim
        · rename_i ty k hty
          split at h
          · cases h
          · rename_i mn size st3 hsz
            have hp1 := @pot_step (skipComment st3).data.length st.data.length
            cases ty
            case list =>
              dsimp only at h
              split at h
              · cases h
              · rename_i it1 st5 hr
                have hp2 := pot_le (skipComment_f4 st5)
                split at hr
                · exact (syn_not_ok hr).elim
                · have hl := (spec_parseList O strict fuel depth [] _).1 it1 st5 hr
                  simp only [OkSpec] at hl
                  have hih := ihL1 [] 0 _ it1 st5 hr
                  simp only [*, fwdCost]; grind
            all_goals
              dsimp only at h
              split at h
              · cases h
              · rename_i it1 st5 hr
                have hp2 := pot_le (skipComment_f4 st5)
                simp only [*, fwdCost]; grind
      · exact (syn_not_ok h).elim
    · intro e h
      have hp0 := @pot_step 0 st.data.length
      have hpz : pot 0 = 0 := by simp [pot]
      unfold parseItem at h
      unfold parseItemCost
      dsimp only at h ⊢
      split at h
      · split at h
        · simp only [*, fwdCost]; grind
        · rename_i ty k hty
          split at h
          · simp only [*, fwdCost]; grind
          · rename_i mn size st3 hsz
            have hp1 := @pot_step (skipComment st3).data.length st.data.length
            cases ty
            case list =>
              dsimp only at h
              split at h
              · rename_i e1 hr
                split at hr
                · simp only [*, fwdCost]; grind
                · have hih := ihL2 [] 0 _ e1 hr
                  simp only [*, fwdCost]; grind
              · cases h
            all_goals
              dsimp only at h
              split at h
              · rename_i e1 hr
                simp only [*, fwdCost]; grind
              · cases h
      · simp only [*, fwdCost]; grind
theorem parseList_cost (O : Oracle) (strict : Bool) : ∀ (fuel depth : Nat) (acc : List Item) (s : Nat) (st : St),
    (∀ it st', parseList O strict fuel depth acc st = .ok (it, st') →
      parseListCost O strict fuel depth acc s st + pot st'.data.length ≤ s + pot st.data.length) ∧
    (∀ e, parseList O strict fuel depth acc st = .error e →
      parseListCost O strict fuel depth acc s st ≤ s + pot st.data.length + st.data.length + 11)
  | 0, _, _, s, st => by
    simp only [parseList, parseListCost]
    exact ⟨fun it st' h => (syn_not_ok h).elim, fun e _ => by omega⟩
  | fuel + 1, depth, acc, s, st => by
    have ihI1 : ∀ s1 it s', parseItem O strict fuel (depth + 1) s1 = .ok (it, s') →
        parseItemCost O strict fuel (depth + 1) s1 + pot s'.data.length + (s1.data.length + 5) ≤ pot s1.data.length :=
      fun s1 it s' h => (parseItem_cost O strict fuel (depth + 1) s1).1 it s' h
    have ihI2 : ∀ s1 e, parseItem O strict fuel (depth + 1) s1 = .error e →
        parseItemCost O strict fuel (depth + 1) s1 ≤ pot s1.data.length + 6 :=
      fun s1 e h => (parseItem_cost O strict fuel (depth + 1) s1).2 e h
    have ihL1 : ∀ acc s stl it s', parseList O strict fuel depth acc stl = .ok (it, s') →
        parseListCost O strict fuel depth acc s stl + pot s'.data.length ≤ s + pot stl.data.length :=
      fun acc s stl it s' h => (parseList_cost O strict fuel depth acc s stl).1 it s' h
    have ihL2 : ∀ acc s stl e, parseList O strict fuel depth acc stl = .error e →
        parseListCost O strict fuel depth acc s stl ≤ s + pot stl.data.length + stl.data.length + 11 :=
      fun acc s stl e h => (parseList_cost O strict fuel depth acc s stl).2 e h
    have hc0 := peekNSCost_le st
    constructor
    · intro it st' h
      unfold parseList at h
      unfold parseListCost
      dsimp only at h ⊢
      split at h
      · rename_i st1 hpk
        have hm := pot_mono (peekNS_f hpk).2.2.2
        split at h
        · cases h
        · rename_i it1 st2 hi
          have h1 := ihI1 _ _ _ hi
          have h2 := ihL1 _ (s + 1 + peekNSCost st + parseItemCost O strict fuel (depth + 1) st1) _ _ _ h
          simp only [*, fwdCost]; grind
      · rename_i st1 hpk
        have hp := @pot_step st'.data.length st.data.length
        simp only [*, fwdCost]; grind
      · exact (syn_not_ok h).elim
    · intro e h
      unfold parseList at h
      unfold parseListCost
      dsimp only at h ⊢
      split at h
      · rename_i st1 hpk
        have hm := pot_mono (peekNS_f hpk).2.2.2
        split at h
        · rename_i e1 hi
          have h1 := ihI2 _ _ hi
          simp only [*, fwdCost]; grind
        · rename_i it1 st2 hi
          have h1 := ihI1 _ _ _ hi
          have h2 := ihL2 _ (s + 1 + peekNSCost st + parseItemCost O strict fuel (depth + 1) st1) _ _ h
          simp only [*, fwdCost]; grind
      · cases h
      · have hge := pot_ge st.data.length
        simp only [*, fwdCost]; grind
end

theorem parseItem_cost_ok {O strict fuel depth st it st'} (h : parseItem O strict fuel depth st = .ok (it, st')) :
    parseItemCost O strict fuel depth st + pot st'.data.length + (st.data.length + 5) ≤ pot st.data.length :=
  (parseItem_cost O strict fuel depth st).1 it st' h
theorem parseItem_cost_err {O strict fuel depth st e} (h : parseItem O strict fuel depth st = .error e) :
    parseItemCost O strict fuel depth st ≤ pot st.data.length + 6 :=
  (parseItem_cost O strict fuel depth st).2 e h
attribute [grind →] parseItem_cost_ok parseItem_cost_err

/-! ### Header, message -/

theorem skipNameCost_le (st : St) (k : Nat) : skipNameCost st k ≤ 2 * st.data.length + 1 := by
  have h1 := idxExam_le (isByte cLT) st.data
  unfold skipNameCost
  simp only [fwdCost]
  repeat' (first | split | dsimp only)
  all_goals grind
grind_pattern skipNameCost_le => skipNameCost st k

theorem skipQuoteCost_le (st : St) : skipQuoteCost st ≤ st.data.length + 5 := by
  have := peekNSCost_le st
  unfold skipQuoteCost
  simp only [fwdCost]
  repeat' (first | split | dsimp only)
  all_goals omega
grind_pattern skipQuoteCost_le => skipQuoteCost st

theorem headerWBitCost_le (st : St) : headerWBitCost st ≤ st.data.length + 5 := by
  have := peekNSCost_le st
  unfold headerWBitCost
  simp only [fwdCost]
  repeat' (first | split | dsimp only)
  all_goals omega
grind_pattern headerWBitCost_le => headerWBitCost st

theorem parseHeaderLineCost_le (st : St) : parseHeaderLineCost st ≤ 10 * st.data.length + 25 := by
  have h1 := idxExam_le isTerm st.data
  unfold parseHeaderLineCost
  repeat' (first | split | dsimp only)
  all_goals grind
grind_pattern parseHeaderLineCost_le => parseHeaderLineCost st

theorem parseBody_cost (O : Oracle) (strict : Bool) (st : St) :
    (∀ it st', parseBody O strict st = .ok (it, st') →
      parseBodyCost O strict st + pot st'.data.length ≤ pot st.data.length + st.data.length + 5) ∧
    (∀ e, parseBody O strict st = .error e →
      parseBodyCost O strict st ≤ pot st.data.length + st.data.length + 11) := by
  have hc0 := peekNSCost_le st
  constructor
  · intro it st' h
    unfold parseBody at h
    unfold parseBodyCost
    split at h
    · rename_i st1 hpk
      have hm := pot_le (peekNS_f hpk).2.2.2
      simp only [*, fwdCost]; grind
    · rename_i o st1 hne hpk
      have hm := pot_le (peekNS_f hpk).2.2.2
      simp only [*, fwdCost]; grind
  · intro e h
    unfold parseBody at h
    unfold parseBodyCost
    split at h
    · cases h
    · rename_i o st1 hne hpk
      have hm := pot_le (peekNS_f hpk).2.2.2
      simp only [*, fwdCost]; grind

theorem parseBody_cost_ok {O strict st it st'} (h : parseBody O strict st = .ok (it, st')) :
    parseBodyCost O strict st + pot st'.data.length ≤ pot st.data.length + st.data.length + 5 :=
  (parseBody_cost O strict st).1 it st' h
theorem parseBody_cost_err {O strict st e} (h : parseBody O strict st = .error e) :
    parseBodyCost O strict st ≤ pot st.data.length + st.data.length + 11 :=
  (parseBody_cost O strict st).2 e h
attribute [grind →] parseBody_cost_ok parseBody_cost_err

section Msg
local grind_pattern pot_le => pot a, pot b

theorem parseMsg_cost (O : Oracle) (strict headerOnly : Bool) (st : St) :
    (∀ v st', parseMsg O strict headerOnly st = .ok (v, st') →
      parseMsgCost O strict headerOnly st + pot st'.data.length ≤ pot st.data.length + 17 * st.data.length + 57) ∧
    (∀ e, parseMsg O strict headerOnly st = .error e →
      parseMsgCost O strict headerOnly st ≤ pot st.data.length + 17 * st.data.length + 63) := by
  constructor
  · intro v st' h
    unfold parseMsg at h
    unfold parseMsgCost
    repeat' (first | split at h | dsimp only at h)
    all_goals first
      | (cases h; done)
      | (simp only [*, fwdCost]; grind)
  · intro e h
    unfold parseMsg at h
    unfold parseMsgCost
    repeat' (first | split at h | dsimp only at h)
    all_goals first
      | (cases h; done)
      | (simp only [*, fwdCost]; grind)
end Msg

/-! ### The message loop and the entry points -/

/-- Second potential: a returned message consumed a byte, which pays for the message's own
    `17·L + 58` steps of header scans over the unread input. -/
def potM (L : Nat) : Nat := 9 * (L * L) + 70 * L

theorem potM_step {a b : Nat} (h : a + 1 ≤ b) : potM a + 17 * a + 58 ≤ potM b := by
  obtain ⟨n, rfl⟩ : ∃ n, b = a + 1 + n := ⟨b - (a + 1), by omega⟩
  simp only [potM]; grind

theorem parseLoop_cost (O : Oracle) (strict : Bool) : ∀ (fuel : Nat) (acc : List Msg) (s : Nat) (st : St),
    parseLoopCost O strict fuel acc s st ≤
      s + potM st.data.length + pot st.data.length + 17 * st.data.length + 64
  | 0, acc, s, st => by simp only [parseLoopCost]; omega
  | fuel + 1, acc, s, st => by
    have hm := parseMsg_cost O strict false st
    unfold parseLoopCost
    dsimp only
    split
    · rename_i e he
      have := hm.2 e he; omega
    · rename_i st1 he
      have := hm.1 _ _ he; omega
    · rename_i m st1 he
      have h1 := hm.1 _ _ he
      have h2 := parseMsg_some_consumes O strict false st m st1 he
      have h3 := potM_step h2
      have ih := parseLoop_cost O strict fuel (m :: acc) (s + 1 + parseMsgCost O strict false st) st1
      omega

theorem failCost_le (input : Bytes) (e : Fail) : failCost input e ≤ input.length + 1 := by
  unfold failCost; split <;> omega

/-- `Parse`: at most `19·n² + 158·n + 66` steps on `n` bytes. -/
theorem parseAllSteps_le (O : Oracle) (strict : Bool) (input : Bytes) :
    parseAllSteps O strict input ≤ 19 * (input.length * input.length) + 158 * input.length + 66 := by
  have h := parseLoop_cost O strict (input.length + 1) [] 1 (initSt input)
  unfold parseAllSteps
  simp only [initSt, pot, potM] at h ⊢
  split
  · rename_i e _
    have := failCost_le input e; omega
  · omega

/-- `ParseMessage` / `ParseHeader`: at most `10·n² + 88·n + 65` steps on `n` bytes. -/
theorem parseOneSteps_le (O : Oracle) (strict headerOnly : Bool) (input : Bytes) :
    parseOneSteps O strict headerOnly input ≤ 10 * (input.length * input.length) + 88 * input.length + 65 := by
  have h := parseMsg_cost O strict headerOnly (initSt input)
  unfold parseOneSteps
  split
  · rename_i e he
    have h1 := h.2 e he
    have := failCost_le input e
    simp only [initSt, pot] at h1 ⊢; omega
  · rename_i x he
    obtain ⟨v, st'⟩ := x
    have h1 := h.1 v st' he
    simp only [initSt, pot] at h1 ⊢; omega

end GoSecs.Sml
