/-
  Tie between the supervisor's per-goroutine code regenerated from hsms/supervisor.go (GoSecs/Gen/Hsms.lean,
  effect mode: state passing for the receiver, atomics as fields with SEQUENTIAL meaning, an effect trace of
  every atomic operation and every untranslated call) and the interleaving model GoSecs/Model/Supervisor.lean.

  `Loc` is the part of a configuration that ONE call of `step` / a commit / an injector reads and writes: the
  `state` atomic, the run-owned `lastReacted` / `closed`, and the three counters.  `stepLoc`, `commitConnectedLoc`,
  … are the code's sequential reading, written over the model's own `transition`; two families of theorems:

    * `…_gen_loc`   the regenerated Go function, run on the encoding of a `Loc`, returns the encoding of what the
                    `Loc`-level function returns AND exactly its trace of atomic operations / calls — for all
                    inputs (this is the statement that breaks when the source changes);
    * `…_model`     the `Loc`-level function is the composition of the model's atomic actions of that thread run
                    without interleaving (`runLoad; runCommit` for `step`, `cas…; inj…` for a commit).

  Core Lean only.
-/
import GoSecs.Lemmas.SupervisorSeq
import GoSecs.Gen.Hsms
import GoSecs.Lemmas.GoPrelude

set_option linter.unusedSimpArgs false

namespace GoSecs.Sup
open GoSecs.Gen

/-! ## Events on the wire: kind in the low byte, sequence tag + 1 above it (`withTag` / `split`) -/

theorem or_tag (k m : Nat) (hk : k < 256) : (k ||| m * 256) = k + m * 256 := by
  have h := Nat.shiftLeft_add_eq_or_of_lt (i := 8) (b := k) (by simpa using hk) m
  rw [Nat.shiftLeft_eq] at h
  rw [Nat.or_comm, ← h]; omega

/-- `fsmEvent.withTag`: for a bare kind and a tag below 2^56 - 1. -/
theorem withTag_gen (k seq : Nat) (hk : k < 256) (hs : seq + 1 < 2 ^ 56) :
    hsms_fsmEvent_withTag (k : Int) (seq : Int) = ((k + (seq + 1) * 256 : Nat) : Int) := by
  unfold hsms_fsmEvent_withTag
  have e1 : ((seq : Int) + 1) = ((seq + 1 : Nat) : Int) := by simp
  rw [e1, Go.wrapU64_nat, Nat.mod_eq_of_lt (by omega)]
  have e2 : Go.shl ((seq + 1 : Nat) : Int) 8 = (((seq + 1) * 256 : Nat) : Int) := by simp [Go.shl]
  rw [e2, Go.wrapU64_nat, Nat.mod_eq_of_lt (by omega), Go.bor_nat, or_tag k _ hk]

/-- `fsmEvent.split`: kind, tag, tagged — for every event value `kind + m * 256` (m = 0: untagged). -/
theorem split_gen (k m : Nat) (hk : k < 256) (hm : m ≤ 2 ^ 56) :
    hsms_fsmEvent_split ((k + m * 256 : Nat) : Int) =
      ((k : Int), (if m = 0 then 0 else ((m - 1 : Nat) : Int)), decide (m ≠ 0)) := by
  unfold hsms_fsmEvent_split
  have e1 : Go.band ((k + m * 256 : Nat) : Int) 255 = (k : Int) := by
    simp only [Go.band, Int.toNat_natCast, Int.reduceToNat]
    have := Nat.and_two_pow_sub_one_eq_mod (k + m * 256) 8
    simp at this
    rw [this]; congr 1; omega
  have e2 : Go.shr ((k + m * 256 : Nat) : Int) 8 = (m : Int) := by
    rw [Go.shr8_nat]; congr 1; omega
  simp only [e1, e2]
  cases m with
  | zero => simp
  | succ n =>
    have : (((n + 1 : Nat) : Int) != 0) = true := by simp; omega
    simp only [this, reduceIte]
    simp [Go.wrapU]
    omega

/-- `split` undoes `withTag`. -/
theorem split_withTag_gen (k seq : Nat) (hk : k < 256) (hs : seq + 1 < 2 ^ 56) :
    hsms_fsmEvent_split (hsms_fsmEvent_withTag (k : Int) (seq : Int)) = ((k : Int), (seq : Int), true) := by
  rw [withTag_gen k seq hk hs, split_gen k (seq + 1) hk (by omega)]
  simp

theorem Ev.toNat_lt (e : Ev) : e.toNat < 256 := by cases e <;> simp [Ev.toNat]

theorem split_wire (e : Ev) (h : e.tagOk) :
    hsms_fsmEvent_split e.wire = ((e.toNat : Int), ((e.tag.getD 0 : Nat) : Int), e.tag.isSome) := by
  cases e <;> simp only [Ev.wire, Ev.tag, Ev.tagOk] at h ⊢
  case disc g => have := split_gen 3 (g + 1) (by decide) (by omega); simpa [Ev.toNat] using this
  case t7 d => have := split_gen 5 (d + 1) (by decide) (by omega); simpa [Ev.toNat] using this
  all_goals (first | (have := split_gen 0 0 (by decide) (by decide); simpa [Ev.toNat] using this)
                   | (have := split_gen 1 0 (by decide) (by decide); simpa [Ev.toNat] using this)
                   | (have := split_gen 2 0 (by decide) (by decide); simpa [Ev.toNat] using this)
                   | (have := split_gen 4 0 (by decide) (by decide); simpa [Ev.toNat] using this))

/-! ## Encoding a `Loc` as the generated `hsms_supervisor` (every other field from `s0`) -/

def Loc.enc (s0 : hsms_supervisor) (l : Loc) : hsms_supervisor :=
  { s0 with state := (l.st.toNat : Int), lastReacted := (l.lastReacted.toNat : Int), closed := l.closed,
            deselectPending := (l.desel : Int), generation := (l.gen : Int), dwell := (l.dwell : Int) }

def envOf (s0 : hsms_supervisor) : Env :=
  { hook := s0.testHookAfterStateLoad, epoch := s0.closeEpoch, timeoutFn := s0.closeTimeout }

/-- the counters stay inside their machine types -/
def Loc.ok (l : Loc) : Prop := l.desel < 2 ^ 31 ∧ l.gen + 1 < 2 ^ 64 ∧ l.dwell + 1 < 2 ^ 64

/-! ## `step`: the regenerated function computes `stepLoc`, state and trace, for every input -/

@[simp] theorem St.toNat_NC : St.NC.toNat = 0 := rfl
@[simp] theorem St.toNat_NS : St.NS.toNat = 1 := rfl
@[simp] theorem St.toNat_S : St.S.toNat = 2 := rfl

/-- the statement of the tie for one event -/
def StepTie (e : Ev) : Prop :=
  ∀ (s0 : hsms_supervisor) (l : Loc) (orc : List Go.Val), l.ok → e.tagOk →
    hsms_supervisor_step (l.enc s0) e.wire orc =
      some ((stepLoc (envOf s0) l e orc).1.enc s0, (stepLoc (envOf s0) l e orc).2.1, (stepLoc (envOf s0) l e orc).2.2)

section
attribute [local simp] Loc.enc stepLoc consumeLoc staleLoc storeLoc reactLoc latchLoc envOf Ev.toNat transition
      hsms_transition hsms_supervisor_fireTransition hsms_supervisor_resolveCloseTimeout fireTr stV
      hsms_stateChange.toVals Go.loopWhileM

theorem wrapU64_succ (n : Nat) (h : n + 1 < 2 ^ 64) : Go.wrapU 64 ((n : Int) + 1) = (n : Int) + 1 :=
  Go.wrapU_of_range _ _ (by omega) (by omega)

set_option maxHeartbeats 1000000 in
theorem step_tie_tcpUp : StepTie .tcpUp := by
  intro s0 l orc hl ht
  obtain ⟨st, lr, closed, desel, gen, dwell⟩ := l
  obtain ⟨hd, hg, hw⟩ := hl
  simp only at hd hg hw
  have w1 := wrapU64_succ dwell hw
  unfold hsms_supervisor_step
  rw [split_wire _ ht]
  simp only [Ev.toNat, Ev.tag]
  cases closed
  · cases hh : s0.testHookAfterStateLoad <;> cases st <;> cases lr <;> simp [hh, w1]
  · simp

set_option maxHeartbeats 1000000 in
theorem step_tie_selAcc : StepTie .selAcc := by
  intro s0 l orc hl ht
  obtain ⟨st, lr, closed, desel, gen, dwell⟩ := l
  obtain ⟨hd, hg, hw⟩ := hl
  simp only at hd hg hw
  have w1 := wrapU64_succ dwell hw
  unfold hsms_supervisor_step
  rw [split_wire _ ht]
  simp only [Ev.toNat, Ev.tag]
  cases closed
  · by_cases h0 : 0 < desel
    · have h0' : (0 : Int) < desel := by omega
      cases hh : s0.testHookAfterStateLoad <;> cases st <;> cases lr <;> simp [hh, w1, h0, h0']
    · have h0' : ¬ (0 : Int) < desel := by omega
      cases hh : s0.testHookAfterStateLoad <;> cases st <;> cases lr <;> simp [hh, w1, h0, h0']
  · simp

set_option maxHeartbeats 1000000 in
theorem step_tie_selLost : StepTie .selLost := by
  intro s0 l orc hl ht
  obtain ⟨st, lr, closed, desel, gen, dwell⟩ := l
  obtain ⟨hd, hg, hw⟩ := hl
  simp only at hd hg hw
  have w1 := wrapU64_succ dwell hw
  unfold hsms_supervisor_step
  rw [split_wire _ ht]
  simp only [Ev.toNat, Ev.tag]
  by_cases h0 : 0 < desel
  · have w2 : Go.wrapS 32 ((desel : Int) - 1) = ((desel - 1 : Nat) : Int) := by
      unfold Go.wrapS; simp; omega
    have h0' : (0 : Int) < desel := by omega
    cases closed
    · cases hh : s0.testHookAfterStateLoad <;> cases st <;> cases lr <;> simp [hh, w1, w2, h0, h0']
    · simp [w1, w2, h0, h0']
  · have h0' : ¬ (0 : Int) < desel := by omega
    cases closed
    · cases hh : s0.testHookAfterStateLoad <;> cases st <;> cases lr <;> simp [hh, w1, h0, h0']
    · simp [w1, h0, h0']

set_option maxHeartbeats 1000000 in
theorem step_tie_disc (g : Nat) : StepTie (.disc g) := by
  intro s0 l orc hl ht
  obtain ⟨st, lr, closed, desel, gen, dwell⟩ := l
  obtain ⟨hd, hg, hw⟩ := hl
  simp only at hd hg hw
  have w1 := wrapU64_succ dwell hw
  unfold hsms_supervisor_step
  rw [split_wire _ ht]
  simp only [Ev.toNat, Ev.tag]
  cases closed
  · by_cases h0 : g < gen
    · have h0' : (g : Int) < gen := by omega
      cases hh : s0.testHookAfterStateLoad <;> cases st <;> cases lr <;> simp [hh, w1, h0, h0']
    · have h0' : ¬ (g : Int) < gen := by omega
      cases hh : s0.testHookAfterStateLoad <;> cases st <;> cases lr <;> simp [hh, w1, h0, h0']
  · simp

set_option maxHeartbeats 1000000 in
theorem step_tie_t7 (d : Nat) : StepTie (.t7 d) := by
  intro s0 l orc hl ht
  obtain ⟨st, lr, closed, desel, gen, dwell⟩ := l
  obtain ⟨hd, hg, hw⟩ := hl
  simp only at hd hg hw
  have w1 := wrapU64_succ dwell hw
  unfold hsms_supervisor_step
  rw [split_wire _ ht]
  simp only [Ev.toNat, Ev.tag]
  cases closed
  · by_cases h0 : d < dwell
    · have h0' : (d : Int) < dwell := by omega
      cases hh : s0.testHookAfterStateLoad <;> cases st <;> cases lr <;> simp [hh, w1, h0, h0']
    · have h0' : ¬ (d : Int) < dwell := by omega
      cases hh : s0.testHookAfterStateLoad <;> cases st <;> cases lr <;> simp [hh, w1, h0, h0']
  · simp

set_option maxHeartbeats 1000000 in
theorem step_tie_close_aux (s0 : hsms_supervisor) (l : Loc) (orc : List Go.Val) (hl : l.ok)
    (hook epoch tfn : Bool) (hh : s0.testHookAfterStateLoad = hook) (he : s0.closeEpoch = epoch)
    (hf : s0.closeTimeout = tfn) :
    hsms_supervisor_step (l.enc s0) Ev.close.wire orc =
      some ((stepLoc (envOf s0) l .close orc).1.enc s0, (stepLoc (envOf s0) l .close orc).2.1,
        (stepLoc (envOf s0) l .close orc).2.2) := by
  obtain ⟨st, lr, closed, desel, gen, dwell⟩ := l
  obtain ⟨hd, hg, hw⟩ := hl
  simp only at hd hg hw
  have w1 := wrapU64_succ dwell hw
  unfold hsms_supervisor_step
  rw [split_wire _ (by simp [Ev.tagOk, Ev.tag])]
  simp only [Ev.toNat, Ev.tag]
  cases closed
  · cases hook <;> cases epoch <;> cases tfn <;> cases st <;> cases lr <;> simp [hh, he, hf, w1]
  · simp

theorem step_tie_close : StepTie .close := fun s0 l orc hl _ =>
  step_tie_close_aux s0 l orc hl _ _ _ rfl rfl rfl

end

/-- **`step_gen`, thread-local form.** For every supervisor value, every event as the injectors encode it, every
    oracle list: the regenerated `step` returns the encoding of `stepLoc`'s state, exactly `stepLoc`'s trace of
    atomic operations and calls, and `stepLoc`'s unused oracle values (and never panics / runs out of fuel). -/
theorem step_gen_loc (e : Ev) : StepTie e := by
  cases e
  · exact step_tie_tcpUp
  · exact step_tie_selAcc
  · exact step_tie_selLost
  · exact step_tie_disc _
  · exact step_tie_close
  · exact step_tie_t7 _

/-! ## Commits, injectors, `State`: the regenerated functions compute the `…Loc` functions, state and trace -/

theorem wrapU64_rollback (n : Nat) (h : n + 1 < 2 ^ 64) :
    Go.wrapU 64 ((n : Int) + 1 + 18446744073709551615) = (n : Int) := by
  unfold Go.wrapU; simp; omega

/-- **`CommitConnected`**: generation.Add(1), dwell.Add(1), CAS(NotConnected → NotSelected), then inject(evTCPUp) /
    roll both counters back — state, result and trace, for every supervisor value. -/
theorem commitConnected_gen_loc (s0 : hsms_supervisor) (l : Loc) (hl : l.ok) :
    hsms_supervisor_CommitConnected (l.enc s0) =
      ((commitConnectedLoc l).1.enc s0, (commitConnectedLoc l).2.1, (commitConnectedLoc l).2.2) := by
  obtain ⟨st, lr, closed, desel, gen, dwell⟩ := l
  obtain ⟨hd, hg, hw⟩ := hl
  simp only at hd hg hw
  have w1 := wrapU64_succ dwell hw
  have w2 := wrapU64_succ gen hg
  have w3 := wrapU64_rollback dwell hw
  have w4 := wrapU64_rollback gen hg
  cases st <;> simp [hsms_supervisor_CommitConnected, commitConnectedLoc, Loc.enc, stV, Ev.wire, Ev.tag, Ev.toNat,
    minus1U64, w1, w2, w3, w4]

/-- **`CommitSelected`**: CAS(NotSelected → Selected), then inject(evSelectAccepted). -/
theorem commitSelected_gen_loc (s0 : hsms_supervisor) (l : Loc) :
    hsms_supervisor_CommitSelected (l.enc s0) =
      ((commitSelectedLoc l).1.enc s0, (commitSelectedLoc l).2.1, (commitSelectedLoc l).2.2) := by
  obtain ⟨st, lr, closed, desel, gen, dwell⟩ := l
  cases st <;> simp [hsms_supervisor_CommitSelected, commitSelectedLoc, Loc.enc, stV, Ev.wire, Ev.tag, Ev.toNat]

/-- **`CommitSelectLost`**: deselectPending.Add(1), dwell.Add(1), CAS(Selected → NotSelected), then
    inject(evSelectLost) / take the announcement and the dwell back. -/
theorem commitSelectLost_gen_loc (s0 : hsms_supervisor) (l : Loc) (hl : l.ok) (hd1 : l.desel + 1 < 2 ^ 31) :
    hsms_supervisor_CommitSelectLost (l.enc s0) =
      ((commitSelectLostLoc l).1.enc s0, (commitSelectLostLoc l).2.1, (commitSelectLostLoc l).2.2) := by
  obtain ⟨st, lr, closed, desel, gen, dwell⟩ := l
  obtain ⟨hd, hg, hw⟩ := hl
  simp only at hd hg hw hd1
  have w1 := wrapU64_succ dwell hw
  have w3 := wrapU64_rollback dwell hw
  have w5 : Go.wrapS 32 ((desel : Int) + 1) = (desel : Int) + 1 := by unfold Go.wrapS; simp; omega
  have w6 : Go.wrapS 32 ((desel : Int) + 1 + -1) = (desel : Int) := by unfold Go.wrapS; simp; omega
  cases st <;> simp [hsms_supervisor_CommitSelectLost, commitSelectLostLoc, Loc.enc, stV, Ev.wire, Ev.tag, Ev.toNat,
    minus1U64, w1, w3, w5, w6]

/-- **`injectDisconnect`**: generation.Load(), inject(evDisconnect tagged with it). -/
theorem injectDisconnect_gen_loc (s0 : hsms_supervisor) (l : Loc) (hg : l.gen + 1 < 2 ^ 56) :
    hsms_supervisor_injectDisconnect (l.enc s0) = injectLoc l .disc := by
  have := withTag_gen 3 l.gen (by decide) hg
  have e3 : ((3 : Nat) : Int) = 3 := rfl
  rw [e3] at this
  simp [hsms_supervisor_injectDisconnect, injectLoc, Loc.enc, Ev.wire, Ev.tag, Ev.toNat, this]

/-- **`injectT7Timeout`**: dwell.Load(), inject(evT7Timeout tagged with it). -/
theorem injectT7Timeout_gen_loc (s0 : hsms_supervisor) (l : Loc) (hw : l.dwell + 1 < 2 ^ 56) :
    hsms_supervisor_injectT7Timeout (l.enc s0) = injectLoc l .t7 := by
  have := withTag_gen 5 l.dwell (by decide) hw
  have e5 : ((5 : Nat) : Int) = 5 := rfl
  rw [e5] at this
  simp [hsms_supervisor_injectT7Timeout, injectLoc, Loc.enc, Ev.wire, Ev.tag, Ev.toNat, this]

/-- `State()` is one atomic load. -/
theorem state_gen_loc (s0 : hsms_supervisor) (l : Loc) :
    hsms_supervisor_State (l.enc s0) = ((l.st.toNat : Int), [.atomic "supervisor.state" "Load" []]) := by
  simp [hsms_supervisor_State, Loc.enc]

end GoSecs.Sup
