/-
  "Never undone or replayed by later internal processing": in histories whose only causes are the
  synchronous commits (no disconnect / T7 / close event), the run goroutine never changes `st`.
-/
import GoSecs.Lemmas.Supervisor

namespace GoSecs.Sup

def isRecvEv : Ev → Bool
  | .selAcc => true
  | .selLost => true
  | _ => false

def isCommitEv : Ev → Bool
  | .tcpUp => true
  | .selAcc => true
  | .selLost => true
  | _ => false

/-- Only commit CASes, their injects, the run goroutine and the notifier act. -/
def Act.commitOnly : Act → Bool
  | .inject _ => false
  | .closeReturn => false
  | _ => true

/-- Receive-thread commit events not yet loaded by the run goroutine, oldest first. -/
def recvPending (c : Cfg) : List Ev := c.queue.filter isRecvEv ++ c.pendRecv.toList

/-- adjacent events differ and the last one announces `s` -/
def AltEnd (s : St) : List Ev → Prop
  | [] => True
  | [e] => tgt e = some s
  | a :: b :: r => a ≠ b ∧ AltEnd s (b :: r)

theorem altEnd_tail (s : St) (a : Ev) (q : List Ev) (h : AltEnd s (a :: q)) : AltEnd s q := by
  cases q with
  | nil => trivial
  | cons b r => exact h.2

theorem altEnd_snoc (s s' : St) (e : Ev) (hne : s ≠ s') (he : tgt e = some s') :
    ∀ (q : List Ev), AltEnd s q → AltEnd s' (q ++ [e])
  | [], _ => he
  | [a], h => by
    refine ⟨?_, he⟩
    intro hae; subst hae
    have h' : tgt a = some s := h
    rw [he] at h'; exact hne (Option.some.inj h').symm
  | a :: b :: r, h => ⟨h.1, altEnd_snoc s s' e hne he (b :: r) h.2⟩

theorem altEnd_head_selAcc (q : List Ev) (hq : ∀ e ∈ q, isRecvEv e = true)
    (h : AltEnd .NS (.selAcc :: q)) : Ev.selLost ∈ q := by
  cases q with
  | nil => simp [AltEnd, tgt] at h
  | cons b r =>
    have hb := hq b (by simp)
    have hne := h.1
    cases b <;> simp_all [isRecvEv]

/-- Commit events carry no tag: they are never stale. -/
theorem commitEv_not_stale (c : Cfg) (ev : Ev) (h : isCommitEv ev = true) : stale c ev = false := by
  cases ev <;> simp_all [isCommitEv, stale]

structure ReplayInv (c : Cfg) : Prop where
  notClosed : c.closed = false
  notStopped : c.stopped = false
  queueCommit : ∀ e ∈ c.queue, isCommitEv e = true
  pendStart : ∀ e, c.pendStart = some e → e = .tcpUp
  pendRecv : ∀ e, c.pendRecv = some e → isRecvEv e = true
  nc : c.st = .NC → c.queue = [] ∧ c.pendStart = none ∧ c.pendRecv = none ∧ c.pc = .idle
  alt : AltEnd c.st (recvPending c)
  loaded : ∀ e cur, c.pc = .loaded e cur → isCommitEv e = true ∧ cur ≠ .NC ∧
    (e = .selAcc → cur = .NS → deselPending c = true) ∧ ¬ (e = .selLost ∧ cur = .S)

theorem replayInv_init : ReplayInv init :=
  ⟨rfl, rfl, by simp [init], by simp [init], by simp [init], by simp [init], trivial, by simp [init]⟩

/-- Under the invariant the store half of `step` never changes the state. -/
theorem replay_commit_st (c : Cfg) (h : ReplayInv c) (ev : Ev) (cur : St) (hp : c.pc = .loaded ev cur) :
    (commit c ev cur).st = c.st := by
  obtain ⟨hce, hcur, hsel, hlost⟩ := h.loaded ev cur hp
  rw [commit_st]
  cases ev <;> simp [isCommitEv] at hce
  · cases cur <;> simp_all [outcome, transition]
  · cases cur
    · exact absurd rfl hcur
    · have := hsel rfl rfl; simp [outcome, transition, this]
    · simp [outcome, transition]
  · cases cur <;> simp_all [outcome, transition]

end GoSecs.Sup

namespace GoSecs.Sup

theorem commit_stopped (c : Cfg) (ev : Ev) (cur : St) : (commit c ev cur).stopped = c.stopped := by
  unfold commit
  cases outcome ev cur c.st (deselPending c) <;> simp [latch, reactTo, fire, emit] <;>
    (repeat' split) <;> simp

theorem deselPending_congr (c c' : Cfg) (hq : ∀ e, e ∈ c'.queue ↔ e ∈ c.queue) (hp : c'.pendRecv = c.pendRecv) :
    deselPending c' = deselPending c := by
  unfold deselPending; rw [hp]
  have : decide (Ev.selLost ∈ c'.queue) = decide (Ev.selLost ∈ c.queue) := by
    simp only [hq]
  rw [this]

theorem replayInv_step (c : Cfg) (a : Act) (ha : a.commitOnly = true) (h : ReplayInv c) :
    ReplayInv (step c a) := by
  unfold step
  rw [if_neg (by simp [h.notStopped])]
  cases a with
  | inject ev => simp [Act.commitOnly] at ha
  | closeReturn => simp [Act.commitOnly] at ha
  | deliver =>
    simp only [stepLive]
    split
    · exact h
    · exact ⟨h.notClosed, h.notStopped, h.queueCommit, h.pendStart, h.pendRecv, h.nc, h.alt, h.loaded⟩
  | casConnected =>
    simp only [stepLive]
    split
    · rename_i hc
      obtain ⟨hq, _, hpr, hpc⟩ := h.nc hc.2
      refine ⟨h.notClosed, h.notStopped, h.queueCommit, ?_, h.pendRecv, ?_, ?_, ?_⟩
      · intro e he; simpa using he.symm
      · intro hs; cases hs
      · show AltEnd .NS (recvPending { c with st := .NS, pendStart := some .tcpUp })
        simp [recvPending, hq, hpr, AltEnd]
      · intro e cur hp; rw [show ({ c with st := St.NS, pendStart := some Ev.tcpUp } : Cfg).pc = c.pc from rfl, hpc] at hp
        cases hp
    · exact h
  | casSelected =>
    simp only [stepLive]
    split
    · rename_i hc
      have hpr : c.pendRecv = none := by simpa using hc.1
      refine ⟨h.notClosed, h.notStopped, h.queueCommit, h.pendStart, ?_, ?_, ?_, ?_⟩
      · intro e he; have : e = .selAcc := by simpa using he.symm
        subst this; rfl
      · intro hs; cases hs
      · show AltEnd .S (recvPending { c with st := .S, pendRecv := some .selAcc })
        have hold := h.alt
        simp only [recvPending, hpr, Option.toList, List.append_nil] at hold ⊢
        rw [hc.2] at hold
        exact altEnd_snoc .NS .S .selAcc (by decide) rfl _ hold
      · intro e cur hp
        obtain ⟨h1, h2, h3, h4⟩ := h.loaded e cur hp
        refine ⟨h1, h2, ?_, h4⟩
        intro he hcur
        have := h3 he hcur
        simp only [deselPending, hpr] at this ⊢
        simpa using this
    · exact h
  | casSelectLost =>
    simp only [stepLive]
    split
    · rename_i hc
      have hpr : c.pendRecv = none := by simpa using hc.1
      refine ⟨h.notClosed, h.notStopped, h.queueCommit, h.pendStart, ?_, ?_, ?_, ?_⟩
      · intro e he; have : e = .selLost := by simpa using he.symm
        subst this; rfl
      · intro hs; cases hs
      · show AltEnd .NS (recvPending { c with st := .NS, pendRecv := some .selLost })
        have hold := h.alt
        simp only [recvPending, hpr, Option.toList, List.append_nil] at hold ⊢
        rw [hc.2] at hold
        exact altEnd_snoc .S .NS .selLost (by decide) rfl _ hold
      · intro e cur hp
        obtain ⟨h1, h2, _, h4⟩ := h.loaded e cur hp
        refine ⟨h1, h2, ?_, h4⟩
        intro _ _
        simp [deselPending]
    · exact h
  | injStart =>
    simp only [stepLive]
    split
    · rename_i e he
      have het := h.pendStart e he
      subst het
      refine ⟨h.notClosed, h.notStopped, ?_, ?_, h.pendRecv, ?_, ?_, ?_⟩
      · intro x hx
        rcases List.mem_append.1 hx with hx | hx
        · exact h.queueCommit x hx
        · simp at hx; subst hx; rfl
      · intro x hx; cases hx
      · intro hs; have := (h.nc hs).2.1; rw [he] at this; cases this
      · show AltEnd c.st (recvPending { c with pendStart := none, queue := c.queue ++ [.tcpUp] })
        have hold := h.alt
        simp only [recvPending, List.filter_append] at hold ⊢
        simpa [isRecvEv] using hold
      · intro x cur hp
        obtain ⟨h1, h2, h3, h4⟩ := h.loaded x cur hp
        refine ⟨h1, h2, ?_, h4⟩
        intro hx hcur
        have := h3 hx hcur
        simp only [deselPending] at this ⊢
        simpa using this
    · exact h
  | injRecv =>
    simp only [stepLive]
    split
    · rename_i e he
      have her := h.pendRecv e he
      refine ⟨h.notClosed, h.notStopped, ?_, h.pendStart, ?_, ?_, ?_, ?_⟩
      · intro x hx
        rcases List.mem_append.1 hx with hx | hx
        · exact h.queueCommit x hx
        · simp at hx; subst hx; cases x <;> simp_all [isRecvEv, isCommitEv]
      · intro x hx; cases hx
      · intro hs; have := (h.nc hs).2.2.1; rw [he] at this; cases this
      · show AltEnd c.st (recvPending { c with pendRecv := none, queue := c.queue ++ [e] })
        have hold := h.alt
        simp only [recvPending, List.filter_append, he, Option.toList] at hold ⊢
        simpa [her] using hold
      · intro x cur hp
        obtain ⟨h1, h2, h3, h4⟩ := h.loaded x cur hp
        refine ⟨h1, h2, ?_, h4⟩
        intro hx hcur
        have := h3 hx hcur
        simp only [deselPending, he] at this ⊢
        cases e <;> simp_all
    · exact h
  | runCommit =>
    simp only [stepLive]
    split
    · exact h
    · rename_i ev cur hp
      have hst := replay_commit_st c h ev cur hp
      have hce := (h.loaded ev cur hp).1
      rw [if_neg (by simp [commitEv_not_stale c ev hce])]
      refine ⟨?_, ?_, ?_, ?_, ?_, ?_, ?_, ?_⟩
      · rw [commit_closed, h.notClosed]; cases ev <;> simp_all [isCommitEv]
      · rw [commit_stopped]; exact h.notStopped
      · rw [commit_queue]; exact h.queueCommit
      · rw [commit_pendStart]; exact h.pendStart
      · rw [commit_pendRecv]; exact h.pendRecv
      · intro hs; rw [hst] at hs; have := (h.nc hs).2.2.2; rw [hp] at this; cases this
      · rw [hst]; unfold recvPending; rw [commit_queue, commit_pendRecv]; exact h.alt
      · intro e cur' hp'; rw [commit_pc] at hp'; cases hp'
  | runLoad =>
    simp only [stepLive]
    split
    · rename_i e q hpc hq
      rw [if_neg (by simp [h.notClosed])]
      have hqc : ∀ x ∈ q, isCommitEv x = true := fun x hx => h.queueCommit x (by rw [hq]; simp [hx])
      have hec : isCommitEv e = true := h.queueCommit e (by rw [hq]; simp)
      have hne : c.st ≠ .NC := by intro hs; have := (h.nc hs).1; rw [hq] at this; cases this
      have halt : AltEnd c.st (recvPending { c with queue := q }) := by
        have hold := h.alt
        simp only [recvPending, hq, List.filter_cons] at hold ⊢
        split at hold
        · exact altEnd_tail _ _ _ hold
        · exact hold
      split
      · -- stale select-lost dropped
        exact ⟨h.notClosed, h.notStopped, hqc, h.pendStart, h.pendRecv, fun hs => absurd hs hne, halt,
          fun x cur hp => by rw [show ({ c with queue := q } : Cfg).pc = c.pc from rfl, hpc] at hp; cases hp⟩
      · rename_i hab
        refine ⟨h.notClosed, h.notStopped, hqc, h.pendStart, h.pendRecv, fun hs => absurd hs hne, halt, ?_⟩
        intro x cur hp
        have hx : x = e ∧ cur = c.st := by
          have : RunPc.loaded e c.st = RunPc.loaded x cur := hp
          injection this with h1 h2; exact ⟨h1.symm, h2.symm⟩
        obtain ⟨rfl, rfl⟩ := hx
        refine ⟨hec, hne, ?_, hab⟩
        intro hsel hns
        subst hsel
        have hold := h.alt
        simp only [recvPending, hq, List.filter_cons, isRecvEv, if_true] at hold
        rw [hns] at hold
        have hmem := altEnd_head_selAcc _ (by
          intro y hy
          rcases List.mem_append.1 hy with hy | hy
          · exact (List.mem_filter.1 hy).2
          · cases hpr : c.pendRecv with
            | none => rw [hpr] at hy; cases hy
            | some z => rw [hpr] at hy; simp at hy; subst hy; exact h.pendRecv _ hpr) hold
        show deselPending { c with queue := q, pc := .loaded .selAcc c.st } = true
        simp only [deselPending, Bool.or_eq_true, decide_eq_true_eq, beq_iff_eq]
        rcases List.mem_append.1 hmem with hm | hm
        · exact Or.inl (List.mem_filter.1 hm).1
        · right
          cases hpr : c.pendRecv with
          | none => rw [hpr] at hm; cases hm
          | some z => rw [hpr] at hm; simp at hm; rw [hm]
    · exact h

theorem replayInv_run (as : List Act) (hall : ∀ a ∈ as, a.commitOnly = true) : ReplayInv (run init as) := by
  suffices ∀ c, ReplayInv c → ReplayInv (run c as) from this init replayInv_init
  induction as with
  | nil => intro c h; exact h
  | cons a as ih =>
    intro c h
    exact ih (fun x hx => hall x (by simp [hx])) _ (replayInv_step c a (hall a (by simp)) h)

/-- Under the invariant neither half of a run step changes the state. -/
theorem replay_run_steps_keep_state (c : Cfg) (h : ReplayInv c) :
    (step c .runLoad).st = c.st ∧ (step c .runCommit).st = c.st := by
  unfold step
  rw [if_neg (by simp [h.notStopped])]
  constructor
  · simp only [stepLive]; (repeat' split) <;> rfl
  · simp only [stepLive]
    cases hp : c.pc with
    | idle => simp [h.notStopped]
    | loaded ev cur =>
      simpa [h.notStopped, commitEv_not_stale c ev (h.loaded ev cur hp).1] using replay_commit_st c h ev cur hp

end GoSecs.Sup
