/-
  Tie lemmas between the length gate of `readFrame` regenerated from hsmsss/transport_recv.go
  (GoSecs/Gen/Hsmsss.lean, a window of the function: from `msgLen := …` to before `allocFrame`) and the
  stream-framing model (GoSecs/Model/Framing.lean).  Re-exported in Props/C04.  Core Lean only.
-/
import GoSecs.Model.Framing
import GoSecs.Gen.Hsmsss
import GoSecs.Lemmas.GoPrelude

set_option linter.unusedSimpArgs false

namespace GoSecs.Framing
open GoSecs.Gen GoSecs.Hsms

/-- The model's per-byte step applies `lengthGate` exactly when the 4-byte prefix completes: the link is
    dropped with the gate's reason, or the frame length is accepted and that many bytes are requested from
    `allocFrame` — never before the gate. -/
theorem stepByte_gate (cap : Nat) (s : RState) (b : UInt8) (hd : s.dropped = none) (hl : s.len = none)
    (h4 : ¬ s.got + 1 < 4) :
    stepByte cap s b =
      (match lengthGate cap (beVal (b :: s.rbuf).reverse) with
       | .error d => { s with rbuf := b :: s.rbuf, got := s.got + 1, started := true, idle := 0, dropped := some d }
       | .ok L => { s with rbuf := b :: s.rbuf, got := s.got + 1, started := true, idle := 0, len := some L,
                           alloc := s.alloc + L }) := by
  unfold stepByte lengthGate
  simp only [hd, hl, h4, reduceIte]
  split
  · rfl
  · split <;> rfl

theorem beU32_four (a b c d : UInt8) : Go.beU32 [a, b, c, d] = ((beVal [a, b, c, d] : Nat) : Int) := by
  simp [Go.beU32, Go.getB, Go.u8_nat, beVal]; omega

/-- What `readFrame` does with the gate's verdict: the error it returns, or the length it goes on with. -/
def gateOut : Except Drop Nat → Except (Bytes × Go.Err) Int
  | .error .lenSmall => .error ([], some "hsmsss: frame length %d below minimum 10 (protocol error)")
  | .error _ => .error ([], some "hsmsss: frame length %d exceeds maximum %d")
  | .ok L => .ok (L : Int)

theorem lengthGate_gen (a b c d : UInt8) :
    hsmsss_transport_readFrame_lengthGate [a, b, c, d] = gateOut (lengthGate maxMsgLen (beVal [a, b, c, d])) := by
  unfold hsmsss_transport_readFrame_lengthGate
  rw [beU32_four]
  generalize beVal [a, b, c, d] = L
  by_cases h1 : L < 10
  · have : decide ((L : Int) < 10) = true := decide_eq_true (by omega)
    have g : lengthGate maxMsgLen L = .error .lenSmall := by simp [lengthGate, h1]
    simp only [this, reduceIte]
    rw [g]
    rfl
  · have : decide ((L : Int) < 10) = false := decide_eq_false (by omega)
    simp only [this, reduceIte, Bool.false_eq_true]
    by_cases h2 : L > maxMsgLen
    · have : decide ((L : Int) > 16777215) = true := decide_eq_true (by unfold maxMsgLen at h2; omega)
      have g : lengthGate maxMsgLen L = .error .lenBig := by simp [lengthGate, h1, h2]
      simp only [this, reduceIte]
      rw [g]
      rfl
    · have : decide ((L : Int) > 16777215) = false := decide_eq_false (by unfold maxMsgLen at h2; omega)
      have g : lengthGate maxMsgLen L = .ok L := by simp [lengthGate, h1, h2]
      simp only [this, reduceIte, Bool.false_eq_true]
      rw [g]
      rfl

end GoSecs.Framing
