/-
  Tie lemmas between the secs2 functions regenerated from the Go source (GoSecs/Gen/Secs2.lean,
  `headerLen` in GoSecs/Gen/Funcs.lean) and the hand-written model (GoSecs/Model/Secs2.lean): the decode-side
  item header parse (the first part of `decodeItem`), the item header composition `appendHeaderBytesFC` (format byte = fc<<2 | number of length bytes, minimal big-endian
  length bytes, size cap) and the `EncodedLen` arithmetic of every leaf item kind.  For ALL inputs.
  Re-exported as the `…_gen` theorems of Props/C01 and Props/C02.  Core Lean only.
-/
import GoSecs.Model.Secs2
import GoSecs.Gen.Secs2
import GoSecs.Lemmas.GoPrelude

set_option linter.unusedSimpArgs false

namespace GoSecs.Secs2
open GoSecs.Gen

/-- The implementation's `headerLen` is the E5 minimal header length, for every non-negative size. -/
theorem headerLen_nat (n : Nat) : secs2_headerLen (n : Int) = (headerLen n : Int) := by
  unfold secs2_headerLen headerLen lenCount
  by_cases h1 : n ≤ 255
  · have : ¬ ((n : Int) > 65535) := by omega
    have : ¬ ((n : Int) > 255) := by omega
    simp [*]
  · by_cases h2 : n ≤ 65535
    · have : ¬ ((n : Int) > 65535) := by omega
      have : ((n : Int) > 255) := by omega
      simp [*]
    · have : ((n : Int) > 65535) := by omega
      simp [*]

/-! ### appendHeaderBytesFC -/

theorem lenBytes_eq (n : Nat) :
    ([Go.byte (Go.wrapU 8 (Go.shr (n : Int) 16)), Go.byte (Go.wrapU 8 (Go.shr (n : Int) 8)), Go.byte (Go.wrapU 8 (n : Int))] : Bytes)
      = [UInt8.ofNat (n / 65536), UInt8.ofNat (n / 256), UInt8.ofNat n] := by
  simp only [Go.shr16_nat, Go.shr8_nat, Go.wrapU8_nat, Go.byte_nat, Go.ofNat_mod256]

theorem u8_ofNat_eq0 (k : Nat) : (Go.u8 (UInt8.ofNat k) == 0) = (k % 256 == 0) := by
  rw [Go.u8_ofNat, Go.natCast_beq_zero]

theorem fcByte (fc k : Nat) :
    Go.byte (Go.wrapU 8 (Go.wrapU 8 (Go.shl (fc : Int) 2) + Go.wrapU 8 (k : Int))) = UInt8.ofNat (fc * 4 + k % 256) := by
  rw [Go.shl2_nat, Go.wrapU8_nat, Go.wrapU8_nat, ← Int.natCast_add, Go.wrapU8_nat, Go.byte_nat]
  exact Go.ofNat_congr (by omega)

theorem slice3_2 (a b c : UInt8) : Go.slice? [a, b, c] (3 - (3 - 1 - 1)) (Go.len [a, b, c]) = some [c] := by rfl
theorem slice3_1 (a b c : UInt8) : Go.slice? [a, b, c] (3 - (3 - 1)) (Go.len [a, b, c]) = some [b, c] := by rfl
theorem slice3_0 (a b c : UInt8) : Go.slice? [a, b, c] (3 - 3) (Go.len [a, b, c]) = some [a, b, c] := by rfl

theorem appendHeaderBytesFC_gen (dst : Bytes) (fc n : Nat) :
    secs2_appendHeaderBytesFC dst (fc : Int) (n : Int) =
      some (if n > maxByteSize then (dst, some "size limit exceeded") else (dst ++ header fc n, none)) := by
  unfold secs2_appendHeaderBytesFC
  by_cases h : n > maxByteSize
  · have : decide ((n : Int) > 16777215) = true := by
      simp only [decide_eq_true_eq]; unfold maxByteSize at h; omega
    simp only [this, h, reduceIte]
  · have : decide ((n : Int) > 16777215) = false := by
      simp only [decide_eq_false_iff_not]; unfold maxByteSize at h; omega
    simp only [this, h, reduceIte, Bool.false_eq_true, lenBytes_eq, Go.getB, List.getD_cons_zero, List.getD_cons_succ,
      u8_ofNat_eq0]
    unfold maxByteSize at h
    by_cases h1 : n ≤ 255
    · have a : (n / 65536 % 256 == 0) = true := by simp only [beq_iff_eq]; omega
      have b : (n / 256 % 256 == 0) = true := by simp only [beq_iff_eq]; omega
      have hc : lenCount n = 1 := by simp [lenCount, h1]
      simp only [a, b, reduceIte, Option.bind_some, slice3_2, header, hc, beBytes]
      rw [show (3 - 1 - 1 : Int) = ((1 : Nat) : Int) from rfl, fcByte]
      simp only [List.append_assoc, List.cons_append, List.nil_append, Nat.pow_zero, Nat.div_one]
      rw [Go.ofNat_mod256]
    · by_cases h2 : n ≤ 65535
      · have a : (n / 65536 % 256 == 0) = true := by simp only [beq_iff_eq]; omega
        have b : (n / 256 % 256 == 0) = false := by simp only [beq_eq_false_iff_ne, ne_eq]; omega
        have hc : lenCount n = 2 := by simp [lenCount, h1, h2]
        simp only [a, b, reduceIte, Option.bind_some, Bool.false_eq_true, slice3_1, header, hc, beBytes]
        rw [show (3 - 1 : Int) = ((2 : Nat) : Int) from rfl, fcByte]
        simp only [List.append_assoc, List.cons_append, List.nil_append, Nat.pow_zero, Nat.div_one, Nat.pow_one]
        rw [Go.ofNat_mod256, Go.ofNat_mod256]
      · have a : (n / 65536 % 256 == 0) = false := by simp only [beq_eq_false_iff_ne, ne_eq]; omega
        have hc : lenCount n = 3 := by simp [lenCount, h1, h2]
        simp only [a, reduceIte, Option.bind_some, Bool.false_eq_true, slice3_0, header, hc, beBytes]
        rw [show (3 : Int) = ((3 : Nat) : Int) from rfl, fcByte]
        simp only [List.append_assoc, List.cons_append, List.nil_append, Nat.pow_zero, Nat.div_one, Nat.pow_one]
        rw [Go.ofNat_mod256, Go.ofNat_mod256, Go.ofNat_mod256]

/-! ### EncodedLen: `headerLen(n) + n` with the right `n` per item kind -/

/-- A constructed item: no deferred error, no decoder-owned raw bytes. -/
def base0 : secs2_baseItem := { itemErr := none, rawPtr := false, rawLen := 0 }

theorem hl_add (n : Nat) : secs2_headerLen (n : Int) + (n : Int) = ((headerLen n + n : Nat) : Int) := by
  rw [headerLen_nat]; simp

theorem asciiEncodedLen_gen (it : secs2_ASCIIItem) :
    secs2_ASCIIItem_EncodedLen it =
      if it.baseItem.itemErr.isSome then 0 else if it.baseItem.rawPtr then it.baseItem.rawLen
      else (encodedLen (.ascii it.value) : Int) := by
  unfold secs2_ASCIIItem_EncodedLen
  simp only [Go.len_nat, hl_add, encodedLen]

theorem jis8EncodedLen_gen (it : secs2_JIS8Item) :
    secs2_JIS8Item_EncodedLen it =
      if it.baseItem.itemErr.isSome then 0 else if it.baseItem.rawPtr then it.baseItem.rawLen
      else (encodedLen (.jis8 it.value) : Int) := by
  unfold secs2_JIS8Item_EncodedLen
  simp only [Go.len_nat, hl_add, encodedLen]

theorem binaryEncodedLen_gen (it : secs2_BinaryItem) :
    secs2_BinaryItem_EncodedLen it =
      if it.baseItem.itemErr.isSome then 0 else if it.baseItem.rawPtr then it.baseItem.rawLen
      else (encodedLen (.binary it.values) : Int) := by
  unfold secs2_BinaryItem_EncodedLen
  simp only [Go.len_nat, hl_add, encodedLen]

/-- The `+2` (the LSH) is inside `headerLen` AND in the payload term. -/
theorem lstrEncodedLen_gen (it : secs2_LocalizedStrItem) :
    secs2_LocalizedStrItem_EncodedLen it =
      if it.baseItem.itemErr.isSome then 0 else if it.baseItem.rawPtr then it.baseItem.rawLen
      else (encodedLen (.lstr it.lsh.toNat it.value) : Int) := by
  unfold secs2_LocalizedStrItem_EncodedLen
  have e : Go.len it.value + 2 = ((it.value.length + 2 : Nat) : Int) := by simp [Go.len]
  simp only [e, hl_add, encodedLen]

theorem lstrSize_gen (it : secs2_LocalizedStrItem) : secs2_LocalizedStrItem_Size it = ((it.value.length + 2 : Nat) : Int) := by
  unfold secs2_LocalizedStrItem_Size; simp [Go.len]

/-- Boolean items keep their element count in `size`. -/
theorem booleanEncodedLen_gen (b : secs2_baseItem) (scalar values : Bool) (vs : List Bool) :
    secs2_BooleanItem_EncodedLen { size := (vs.length : Int), scalar := scalar, baseItem := b, values := values } =
      if b.itemErr.isSome then 0 else if b.rawPtr then b.rawLen else (encodedLen (.boolean vs) : Int) := by
  unfold secs2_BooleanItem_EncodedLen
  simp only [hl_add, encodedLen]

/-- Numeric items: `size` elements of `byteSize` bytes each. -/
theorem intEncodedLen_gen (b : secs2_baseItem) (scalar : Int) (values : Bool) (w : Width) (vs : List Int) :
    secs2_IntItem_EncodedLen { size := (vs.length : Int), byteSize := (w.bytes : Int), scalar := scalar, baseItem := b, values := values } =
      if b.itemErr.isSome then 0 else if b.rawPtr then b.rawLen else (encodedLen (.int w vs) : Int) := by
  unfold secs2_IntItem_EncodedLen
  have e : (vs.length : Int) * (w.bytes : Int) = ((vs.length * w.bytes : Nat) : Int) := by simp
  simp only [e, hl_add, encodedLen]

theorem uintEncodedLen_gen (b : secs2_baseItem) (scalar : Int) (values : Bool) (w : Width) (vs : List Nat) :
    secs2_UintItem_EncodedLen { size := (vs.length : Int), byteSize := (w.bytes : Int), scalar := scalar, baseItem := b, values := values } =
      if b.itemErr.isSome then 0 else if b.rawPtr then b.rawLen else (encodedLen (.uint w vs) : Int) := by
  unfold secs2_UintItem_EncodedLen
  have e : (vs.length : Int) * (w.bytes : Int) = ((vs.length * w.bytes : Nat) : Int) := by simp
  simp only [e, hl_add, encodedLen]

theorem floatEncodedLen_gen (b : secs2_baseItem) (values : Bool) (w : FWidth) (vs : List Nat) :
    secs2_FloatItem_EncodedLen { size := (vs.length : Int), byteSize := (w.bytes : Int), baseItem := b, values := values } =
      if b.itemErr.isSome then 0 else if b.rawPtr then b.rawLen else (encodedLen (.float w vs) : Int) := by
  unfold secs2_FloatItem_EncodedLen
  have e : (vs.length : Int) * (w.bytes : Int) = ((vs.length * w.bytes : Nat) : Int) := by simp
  simp only [e, hl_add, encodedLen]

/-! ### the item header parse of `decodeItem` (a window of the function: entry .. `switch formatCode`) -/

theorem mul256_or (a b : Nat) (hb : b < 256) : (a * 256) ||| b = a * 256 + b := by
  have := Nat.shiftLeft_add_eq_or_of_lt (show b < 2 ^ 8 from hb) a
  simp only [Nat.shiftLeft_eq, Nat.reducePow] at this
  exact this.symm
theorem mul65536_or (a b : Nat) (hb : b < 65536) : (a * 65536) ||| b = a * 65536 + b := by
  have := Nat.shiftLeft_add_eq_or_of_lt (show b < 2 ^ 16 from hb) a
  simp only [Nat.shiftLeft_eq, Nat.reducePow] at this
  exact this.symm

theorem shl8_nat (n : Nat) : Go.shl (n : Int) 8 = ((n * 256 : Nat) : Int) := by simp [Go.shl]
theorem shl16_nat (n : Nat) : Go.shl (n : Int) 16 = ((n * 65536 : Nat) : Int) := by simp [Go.shl]
theorem shr2_nat (n : Nat) : Go.shr (n : Int) 2 = ((n / 4 : Nat) : Int) := by simp [Go.shr]

theorem beVal_take1 (l : Bytes) (i : Nat) (h : i < l.length) : beVal ((l.drop i).take 1) = l[i].toNat := by
  rw [List.drop_eq_getElem_cons h]
  show beVal [l[i]] = _
  simp [beVal]
theorem beVal_take2 (l : Bytes) (i : Nat) (h : i + 1 < l.length) :
    beVal ((l.drop i).take 2) = l[i].toNat * 256 + l[i + 1].toNat := by
  rw [List.drop_eq_getElem_cons (by omega : i < l.length), List.drop_eq_getElem_cons h]
  show beVal [l[i], l[i + 1]] = _
  simp [beVal]
theorem beVal_take3 (l : Bytes) (i : Nat) (h : i + 2 < l.length) :
    beVal ((l.drop i).take 3) = l[i].toNat * 65536 + l[i + 1].toNat * 256 + l[i + 2].toNat := by
  rw [List.drop_eq_getElem_cons (by omega : i < l.length), List.drop_eq_getElem_cons (by omega : i + 1 < l.length),
    List.drop_eq_getElem_cons h]
  show beVal [l[i], l[i + 1], l[i + 2]] = _
  simp [beVal]
  omega

/-- The message `decodeItem` returns for each header error. -/
def DErr.goMsg : DErr → String
  | .eofFormat => "unexpected end of data: need format byte"
  | .zeroLen => "invalid item header: length-byte count is zero"
  | _ => "unexpected end of data: need %d length bytes, have %d"

/-- `dec` parses exactly the header `decHeader` describes. -/
theorem dec_via_decHeader (fuel depth : Nat) (bs : Bytes) :
    dec (fuel + 1) depth bs =
      (match decHeader bs with
       | .error e => .error e
       | .ok (fc, _, n, r2) =>
         if fc = fcList then
           if depth + 1 > maxListDepth then .error .depth
           else if lenLt r2 (n * 2) then .error .count
           else match decL fuel (depth + 1) n r2 with
             | .error e => .error e
             | .ok (cs, r3) => .ok (.list cs, r3)
         else decLeaf fc n r2) := by
  cases bs with
  | nil => simp [dec, decHeader]
  | cons fb r1 =>
    simp only [dec, decHeader]
    split
    · rfl
    · split <;> rfl

/-- the view of a parsed header the Go code continues with: (pos after the header, startPos, format byte,
    format code, number of length bytes, length field) -/
def headerOut (pos : Nat) : Except DErr (Nat × Nat × Nat × Bytes) → Except (Bool × Int × Go.Err) (Int × Int × Int × Int × Int × Int)
  | .error e => .error (false, (if e = .eofFormat then (pos : Int) else ((pos + 1 : Nat) : Int)), some e.goMsg)
  | .ok (fc, k, n, _) => .ok (((pos + 1 + k : Nat) : Int), (pos : Int), ((fc * 4 + k : Nat) : Int), (fc : Int), (k : Int), (n : Int))

theorem decodeItemHeader_gen (owned : Bytes) (pos : Nat) :
    secs2_decodeItem_header owned (pos : Int) = some (headerOut pos (decHeader (owned.drop pos))) := by
  unfold secs2_decodeItem_header
  by_cases h0 : pos ≥ owned.length
  · have : decide ((pos : Int) ≥ Go.len owned) = true := decide_eq_true (by show (pos : Int) ≥ ((owned.length : Nat) : Int); omega)
    have hd : owned.drop pos = [] := List.drop_eq_nil_of_le h0
    simp only [this, reduceIte, hd, decHeader, headerOut, DErr.goMsg]
  · have : decide ((pos : Int) ≥ Go.len owned) = false := decide_eq_false (by show ¬ (pos : Int) ≥ ((owned.length : Nat) : Int); omega)
    have hlt : pos < owned.length := by omega
    have hd : owned.drop pos = owned[pos] :: owned.drop (pos + 1) := List.drop_eq_getElem_cons hlt
    simp only [this, Bool.false_eq_true, reduceIte, Go.idx?_eq owned pos hlt, Option.bind_some, hd, decHeader]
    generalize owned[pos] = fb
    have hfb := fb.toNat_lt
    rw [Go.u8_nat]
    simp only [shr2_nat, Go.band3_nat]
    have hfbe : fb.toNat = fb.toNat / 4 * 4 + fb.toNat % 4 := by omega
    have hk : fb.toNat % 4 < 4 := Nat.mod_lt _ (by decide)
    generalize fb.toNat % 4 = k at *
    generalize fb.toNat / 4 = fc at *
    have hlen : (owned.drop (pos + 1)).length = owned.length - (pos + 1) := by simp
    have hk4 : k = 0 ∨ k = 1 ∨ k = 2 ∨ k = 3 := by omega
    have c0 : ((0 : Nat) : Int) = 0 := rfl
    have c1 : ((1 : Nat) : Int) = 1 := rfl
    have c2 : ((2 : Nat) : Int) = 2 := rfl
    have c3 : ((3 : Nat) : Int) = 3 := rfl
    have c0 : ((0 : Nat) : Int) = 0 := rfl
    have c1 : ((1 : Nat) : Int) = 1 := rfl
    have c2 : ((2 : Nat) : Int) = 2 := rfl
    have c3 : ((3 : Nat) : Int) = 3 := rfl
    rcases hk4 with rfl | rfl | rfl | rfl
    · simp [headerOut, DErr.goMsg]
    · -- 1 length byte(s)
      simp only [c1]
      by_cases hl : lenLt (owned.drop (pos + 1)) 1 = true
      · have h1 := (lenLt_iff _ _).1 hl
        have : decide ((pos : Int) + 1 + 1 > Go.len owned) = true :=
          decide_eq_true (by show (pos : Int) + 1 + 1 > ((owned.length : Nat) : Int); omega)
        simp only [this, hl, reduceIte, headerOut, DErr.goMsg]
        simp
      · have hl' : lenLt (owned.drop (pos + 1)) 1 = false := by simpa using hl
        have h1 := (lenLt_false_iff _ _).1 hl'
        have : decide ((pos : Int) + 1 + 1 > Go.len owned) = false :=
          decide_eq_false (by show ¬ (pos : Int) + 1 + 1 > ((owned.length : Nat) : Int); omega)
        have i1 : pos + 1 + 0 < owned.length := by omega
        have e0 : Go.idx? owned ((pos : Int) + 1) = some (Go.u8 owned[pos + 1]) := by
          have := Go.idx?_eq owned (pos + 1) (by omega)
          simpa using this
        simp only [this, hl', e0, Option.bind_some, reduceIte, Bool.false_eq_true, headerOut,
          beVal_take1 owned (pos + 1) (by omega), Go.u8_nat, shl8_nat, shl16_nat, Go.bor_nat]
        simp [hfbe]
    · -- 2 length byte(s)
      simp only [c2]
      by_cases hl : lenLt (owned.drop (pos + 1)) 2 = true
      · have h1 := (lenLt_iff _ _).1 hl
        have : decide ((pos : Int) + 1 + 2 > Go.len owned) = true :=
          decide_eq_true (by show (pos : Int) + 1 + 2 > ((owned.length : Nat) : Int); omega)
        simp only [this, hl, reduceIte, headerOut, DErr.goMsg]
        simp
      · have hl' : lenLt (owned.drop (pos + 1)) 2 = false := by simpa using hl
        have h1 := (lenLt_false_iff _ _).1 hl'
        have : decide ((pos : Int) + 1 + 2 > Go.len owned) = false :=
          decide_eq_false (by show ¬ (pos : Int) + 1 + 2 > ((owned.length : Nat) : Int); omega)
        have i1 : pos + 1 + 1 < owned.length := by omega
        have e0 : Go.idx? owned ((pos : Int) + 1) = some (Go.u8 owned[pos + 1]) := by
          have := Go.idx?_eq owned (pos + 1) (by omega)
          simpa using this
        have e1 : Go.idx? owned ((pos : Int) + 1 + 1) = some (Go.u8 owned[pos + 1 + 1]) := by
          have := Go.idx?_eq owned (pos + 1 + 1) (by omega)
          simpa using this
        simp only [this, hl', e0, e1, Option.bind_some, reduceIte, Bool.false_eq_true, headerOut,
          beVal_take2 owned (pos + 1) (by omega), Go.u8_nat, shl8_nat, shl16_nat, Go.bor_nat]
        have hb := owned[pos + 1 + 1].toNat_lt
        rw [mul256_or _ _ hb]
        simp [hfbe]
    · -- 3 length byte(s)
      simp only [c3]
      by_cases hl : lenLt (owned.drop (pos + 1)) 3 = true
      · have h1 := (lenLt_iff _ _).1 hl
        have : decide ((pos : Int) + 1 + 3 > Go.len owned) = true :=
          decide_eq_true (by show (pos : Int) + 1 + 3 > ((owned.length : Nat) : Int); omega)
        simp only [this, hl, reduceIte, headerOut, DErr.goMsg]
        simp
      · have hl' : lenLt (owned.drop (pos + 1)) 3 = false := by simpa using hl
        have h1 := (lenLt_false_iff _ _).1 hl'
        have : decide ((pos : Int) + 1 + 3 > Go.len owned) = false :=
          decide_eq_false (by show ¬ (pos : Int) + 1 + 3 > ((owned.length : Nat) : Int); omega)
        have i1 : pos + 1 + 2 < owned.length := by omega
        have e0 : Go.idx? owned ((pos : Int) + 1) = some (Go.u8 owned[pos + 1]) := by
          have := Go.idx?_eq owned (pos + 1) (by omega)
          simpa using this
        have e1 : Go.idx? owned ((pos : Int) + 1 + 1) = some (Go.u8 owned[pos + 1 + 1]) := by
          have := Go.idx?_eq owned (pos + 1 + 1) (by omega)
          simpa using this
        have e2 : Go.idx? owned ((pos : Int) + 1 + 2) = some (Go.u8 owned[pos + 1 + 2]) := by
          have := Go.idx?_eq owned (pos + 1 + 2) (by omega)
          simpa using this
        simp only [this, hl', e0, e1, e2, Option.bind_some, reduceIte, Bool.false_eq_true, headerOut,
          beVal_take3 owned (pos + 1) (by omega), Go.u8_nat, shl8_nat, shl16_nat, Go.bor_nat]
        have hb1 := owned[pos + 1 + 1].toNat_lt
        have hb2 := owned[pos + 1 + 2].toNat_lt
        rw [mul256_or _ _ hb1, show owned[pos + 1].toNat * 65536 ||| owned[pos + 1 + 1].toNat * 256
            = owned[pos + 1].toNat * 65536 + owned[pos + 1 + 1].toNat * 256 from by
              have := mul65536_or owned[pos + 1].toNat (owned[pos + 1 + 1].toNat * 256) (by omega); exact this]
        have e3 : owned[pos + 1].toNat * 65536 + owned[pos + 1 + 1].toNat * 256 ||| owned[pos + 1 + 2].toNat
            = owned[pos + 1].toNat * 65536 + owned[pos + 1 + 1].toNat * 256 + owned[pos + 1 + 2].toNat := by
          have : owned[pos + 1].toNat * 65536 + owned[pos + 1 + 1].toNat * 256
              = (owned[pos + 1].toNat * 256 + owned[pos + 1 + 1].toNat) * 256 := by omega
          rw [this, mul256_or _ _ hb2]
        rw [e3]
        simp [hfbe]

end GoSecs.Secs2
