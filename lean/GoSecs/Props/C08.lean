/-
  C08 — HSMS-SS control procedures answer every peer frame sequence per SEMI E37.

  Property theorems only. `Responder.dispatch` (Model/Responder.lean) is the line-by-line transcription of
  `dispatchFrame` and the responder procedures; `E37.prescribed` (Spec/E37Table.lean) is the independently
  written table of what E37/E37.1 prescribe. The decision logic is stated outright by `dispatch_meets_table`:
  the transcribed code and the table agree on EVERY state and EVERY frame (next state, the frames sent back,
  deliveries, and whether the link ends). Helper lemmas: Lemmas/Responder.lean.
-/
import GoSecs.Lemmas.Responder
import GoSecs.Lemmas.HsmsGen
import GoSecs.Lemmas.ResponderGen
import GoSecs.Gen.Consts
import GoSecs.Gen.Funcs
import GoSecs.Gen.Facts

set_option linter.unusedSimpArgs false

namespace GoSecs.Props.C08
open GoSecs GoSecs.Responder GoSecs.E37

/-! ## Tie to the source (regenerated on every run) -/

/-- `hsms.IsValidSType` as translated from the working tree is the model's SType table, for every byte. -/
theorem isValidSType_gen (n : Nat) (h : n < 256) : Gen.hsms_IsValidSType (n : Int) = isValidSType n := by
  by_cases h0 : n = 0; · subst h0; decide
  by_cases h1 : n = 1; · subst h1; decide
  by_cases h2 : n = 2; · subst h2; decide
  by_cases h3 : n = 3; · subst h3; decide
  by_cases h4 : n = 4; · subst h4; decide
  by_cases h5 : n = 5; · subst h5; decide
  by_cases h6 : n = 6; · subst h6; decide
  by_cases h7 : n = 7; · subst h7; decide
  by_cases h9 : n = 9; · subst h9; decide
  unfold Gen.hsms_IsValidSType isValidSType
  try rw [Go.wrapU_of_range 8 n (by omega) (by omega)]   -- `MsgType(b)` is emitted as `b` (same width)
  have i0 : ¬ ((n : Int) = 0) := by omega
  have i1 : ¬ ((n : Int) = 1) := by omega
  have i2 : ¬ ((n : Int) = 2) := by omega
  have i3 : ¬ ((n : Int) = 3) := by omega
  have i4 : ¬ ((n : Int) = 4) := by omega
  have i5 : ¬ ((n : Int) = 5) := by omega
  have i6 : ¬ ((n : Int) = 6) := by omega
  have i7 : ¬ ((n : Int) = 7) := by omega
  have i9 : ¬ ((n : Int) = 9) := by omega
  simp [h0, h1, h2, h3, h4, h5, h6, h7, h9, i0, i1, i2, i3, i4, i5, i6, i7, i9]

/-- The response constructors the control procedures answer with (regenerated from hsms/control_msg.go):
    `NewSelectRsp` / `NewDeselectRsp` / `NewLinktestRsp` refuse a request of the wrong type and otherwise echo
    session id and system bytes with the status in header byte 3; `NewRejectReqRaw` echoes PType (reason 2) or
    SType. For every request, status and reason. -/
theorem responseCtors_gen (req : Hsms.ControlMsg) (status : UInt8) :
    Gen.hsms_NewSelectRsp req.toGen (status.toNat : Int) =
      (match Hsms.newSelectRsp req status with
       | .ok m => (m.toGen, none) | .error _ => Hsms.wrongReq "expected select.req message") ∧
    Gen.hsms_NewDeselectRsp req.toGen (status.toNat : Int) =
      (match Hsms.newDeselectRsp req status with
       | .ok m => (m.toGen, none) | .error _ => Hsms.wrongReq "expected deselect.req message") ∧
    Gen.hsms_NewLinktestRsp req.toGen =
      (match Hsms.newLinktestRsp req with
       | .ok m => (m.toGen, none) | .error _ => Hsms.wrongReq "expected linktest.req message") :=
  ⟨Hsms.newSelectRsp_gen req status, Hsms.newDeselectRsp_gen req status, Hsms.newLinktestRsp_gen req⟩

theorem rejectCtor_gen (sid : Nat) (p st : UInt8) (s : Hsms.Sys) (reason : UInt8) :
    Gen.hsms_NewRejectReqRaw (sid : Int) (p.toNat : Int) (st.toNat : Int) s.toBytes (reason.toNat : Int) =
      (Hsms.newRejectReqRaw sid p st s reason).toGen :=
  Hsms.newRejectReqRaw_gen sid p st s reason

/-- `(*ControlMessage).Type()` — what `dispatchFrame` / the procedures switch on — is the model's. -/
theorem controlType_gen (m : Hsms.ControlMsg) : Gen.hsms_ControlMessage_Type m.toGen = (m.type : Int) :=
  Hsms.controlType_gen m

/-- SType values, reject reasons and select / deselect status codes of the Go source are the model's. -/
theorem consts_gen :
    Gen.hsms_DataMsgType = (stData : Int) ∧ Gen.hsms_SelectReqType = (stSelectReq : Int) ∧
    Gen.hsms_SelectRspType = (stSelectRsp : Int) ∧ Gen.hsms_DeselectReqType = (stDeselectReq : Int) ∧
    Gen.hsms_DeselectRspType = (stDeselectRsp : Int) ∧ Gen.hsms_LinktestReqType = (stLinktestReq : Int) ∧
    Gen.hsms_LinktestRspType = (stLinktestRsp : Int) ∧ Gen.hsms_RejectReqType = (stRejectReq : Int) ∧
    Gen.hsms_SeparateReqType = (stSeparateReq : Int) ∧
    Gen.hsms_RejectSTypeNotSupported = (rejectSTypeNotSupported : Int) ∧
    Gen.hsms_RejectPTypeNotSupported = (rejectPTypeNotSupported : Int) ∧
    Gen.hsms_RejectTransactionNotOpen = (rejectTransactionNotOpen : Int) ∧
    Gen.hsms_RejectNotSelected = (rejectNotSelected : Int) ∧
    Gen.hsms_SelectStatusSuccess = (selectStatusSuccess : Int) ∧
    Gen.hsms_SelectStatusAlreadyActive = (selectStatusAlreadyActive : Int) ∧
    Gen.hsms_DeselectStatusSuccess = (deselectStatusSuccess : Int) ∧
    Gen.hsms_DeselectStatusNotEstablished = (deselectStatusNotEstablished : Int) := by
  decide

/-- **Where the timers and commits live in the source** (regenerated table): T7 is armed exactly on entering the
    receive loop and after a successful Deselect; it is cancelled exactly where `CommitSelected` is called (Select
    responder and the routed status-0 Select.rsp), which are also the two places the linktest is started; T7 expiry
    is reported only by `runT7`; the link is dropped (`TCPDown`) only by the Select procedure, a peer Separate, the
    linktest and the receive loop's read error; `SelectLost` only by the Deselect responder; `TCPUp` by the two
    connect procedures. The model (`step`) places its effects at exactly these points. -/
theorem control_sites_gen :
    sitesOf "t.armT7" = ["transport.handleDeselectReq", "transport.recvLoop"] ∧
    sitesOf "t.cancelT7" = ["transport.handleSelectReq", "transport.dispatchFrame"] ∧
    sitesOf "rt.CommitSelected" = ["transport.handleSelectReq", "transport.dispatchFrame"] ∧
    sitesOf "t.startLinktest" = ["transport.handleSelectReq", "transport.dispatchFrame"] ∧
    sitesOf "t.stopLinktest" = ["transport.handleDeselectReq"] ∧
    sitesOf "rt.SelectLost" = ["transport.handleDeselectReq"] ∧
    sitesOf "rt.T7Expired" = ["transport.runT7"] ∧
    sitesOf "rt.TCPUp" = ["transport.startActive", "transport.acceptLoop"] ∧
    sitesOf "rt.TCPDown" = ["transport.runSelectProcedure", "transport.handleSeparateReq", "transport.runLinktest",
      "transport.recvLoop"] := by
  decide

/-- The model's SType predicate is exactly membership in the E37 SType table. -/
theorem isValidSType_iff_table (n : Nat) : isValidSType n = true ↔ (stypeTable.lookup n).isSome = true := by
  rw [lookup_stype]
  unfold isValidSType
  by_cases h0 : n = 0; · simp [h0]
  by_cases h1 : n = 1; · simp [h1]
  by_cases h2 : n = 2; · simp [h2]
  by_cases h3 : n = 3; · simp [h3]
  by_cases h4 : n = 4; · simp [h4]
  by_cases h5 : n = 5; · simp [h5]
  by_cases h6 : n = 6; · simp [h6]
  by_cases h7 : n = 7; · simp [h7]
  by_cases h9 : n = 9; · simp [h9]
  simp [h0, h1, h2, h3, h4, h5, h6, h7, h9]

/-! ## The property -/

/-- **One step, all states × all frames.** On an established link (NotSelected or Selected, any set of open
    transactions), for every frame — every SType, every PType, with or without body, any session id, system
    bytes, status byte — the transcribed dispatcher does exactly what the E37 table prescribes: same next
    state, same frames sent back (Select/Deselect/Linktest.rsp, Reject.req with reason and echoed bytes, S9F1),
    same deliveries, same link effect. -/
theorem dispatch_meets_table (c : Cfg) (s : RState) (f : Frame) (h : s.st ≠ .notConnected) :
    dispatch c s f = prescribed c s f :=
  dispatch_eq_prescribed c s f h

/-- **`dispatch_gen`: the SOURCE's dispatcher is the model's.** `Gen.hsmsss_transport_dispatchFrame` (with
    `handleControlReq`, `handleSelectReq`, `handleDeselectReq`, `handleLinktestReq`, `handleSeparateReq`, `sendReject`,
    `sendRejectNotSelected`, `sendRejectTransactionNotOpen`, `selectStatus`) is re-translated from
    hsmsss/transport_recv.go / transport_control.go on every run. For every link-up state, every header, every body:
    run on the frame with the runtime's answers it returns normally, uses exactly those answers, stops the receive
    loop exactly on a peer Separate while Selected, and its effect trace (frames queued, deliveries, RouteReply, the
    CommitSelected / SelectLost commits, T7 armed / cancelled, linktest started / stopped, TCPDown), applied in program
    order to the model state, gives `Responder.dispatch`'s next state, outputs and link effect. -/
theorem dispatch_gen (c : Cfg) (s : RState) (h : Hsms.Header) (body : Bytes) (re : Bool)
    (t : Gen.hsmsss_transport) (g : Gen.hsmsss_genWG) (hs : s.st ≠ .notConnected) :
    ∃ tr, Gen.hsmsss_transport_dispatchFrame t g (wire h body) (answers c s h body re) =
        some (decide ((dispatch c s (frameOf h body)).2.2 ≠ .peerSeparate), tr, []) ∧
      tr.foldl (applyEff c) (s, [], .none) = dispatch c s (frameOf h body) :=
  dispatch_gen_tie c s h body re t g hs

/-- **The source meets the E37 table.** `dispatch_meets_table` as a statement about the regenerated dispatcher:
    its effects, applied in order, are what the table prescribes — for every link-up state and every frame. -/
theorem dispatch_source_meets_table (c : Cfg) (s : RState) (h : Hsms.Header) (body : Bytes) (re : Bool)
    (t : Gen.hsmsss_transport) (g : Gen.hsmsss_genWG) (hs : s.st ≠ .notConnected) :
    ∃ cont tr, Gen.hsmsss_transport_dispatchFrame t g (wire h body) (answers c s h body re) = some (cont, tr, []) ∧
      tr.foldl (applyEff c) (s, [], .none) = prescribed c s (frameOf h body) := by
  obtain ⟨tr, h1, h2⟩ := dispatch_gen c s h body re t g hs
  exact ⟨_, tr, h1, by rw [h2, dispatch_meets_table c s _ hs]⟩

/-- The order the H2 invariant is about, read off the regenerated Select responder: the commit comes BEFORE the
    Select.rsp is queued, and T7 is cancelled / the linktest started only for a genuine commit. -/
theorem select_responder_trace (t : Gen.hsmsss_transport) (g : Gen.hsmsss_genWG) (req : Hsms.ControlMsg)
    (hty : req.type = Hsms.stSelectReq) :
    (Gen.hsmsss_transport_handleSelectReq t g req.toGen [.bool true]).1 =
      [.call "hsms.TransportRuntime.CommitSelected" [], .call "hsmsss.transport.cancelT7" [],
       .call "hsmsss.transport.startLinktest" [],
       sendEff ⟨Hsms.ctlHeader req.hdr.sid0 req.hdr.sid1 0 0 Hsms.stSelectRsp req.hdr.sys, false⟩] ∧
    (Gen.hsmsss_transport_handleSelectReq t g req.toGen [.bool false]).1 =
      [.call "hsms.TransportRuntime.CommitSelected" [],
       sendEff ⟨Hsms.ctlHeader req.hdr.sid0 req.hdr.sid1 0 1 Hsms.stSelectRsp req.hdr.sys, false⟩] := by
  constructor
  · rw [handleSelectReq_gen t g req true [] hty]; rfl
  · rw [handleSelectReq_gen t g req false [] hty]; rfl

/-- **All finite sequences.** The responses to any frame sequence, from any state, are the table's, frame by
    frame, in order (by induction over the sequence). -/
theorem responses_of_sequence (c : Cfg) (s : RState) (fs : List Frame) : run c s fs = runTable c s fs :=
  run_eq_runTable c fs s

/-- **State after arbitrary prefixes.** With no transaction of our own open (passive endpoint), as long as the
    link is still up the session is Selected after a history iff the most recent Select.req / Deselect.req /
    Separate.req in it is a Select.req — whatever rejects, linktests, data, orphan responses or duplicate
    selects lie in between (deselect-select-deselect, reject storms between selects, …). Hence a Select.req is
    answered 0 iff no un-released select precedes it, else 1; likewise Deselect.req. -/
theorem selected_iff_history (c : Cfg) (s : RState) (fs : List Frame) (hn : NoTx s) (hu : s.st ≠ .notConnected)
    (hfin : (run c s fs).1.st ≠ .notConnected) :
    (run c s fs).1.st = .selected ↔ selectedAfter (decide (s.st = .selected)) fs.reverse = true :=
  selected_iff_history_gen c fs s hn hu hfin

/-- **A Reject is never a disconnect.** Whenever handling a frame sends a Reject.req (unsupported PType,
    undefined SType, control frame with body, orphan response, data while not Selected), the link stays up and
    the state — logical state and open transactions — is exactly what it was. -/
theorem reject_never_disconnects (c : Cfg) (s : RState) (f : Frame)
    (h : ∃ o ∈ (dispatch c s f).2.1, o.isReject = true) :
    (dispatch c s f).1 = s ∧ (dispatch c s f).2.2 = .none := by
  by_cases hu : s.st = .notConnected
  · rw [dispatch_notConnected c s f hu] at h ⊢; simp at h
  · rw [dispatch_eq_prescribed c s f hu] at h ⊢; exact prescribed_reject c s f h

/-- … and a whole storm of such frames (anything that is not a well-formed Select/Deselect/Separate.req) between
    two selects leaves the state untouched. -/
theorem reject_storm_transparent (c : Cfg) (s : RState) (fs : List Frame) (hn : NoTx s) (hu : s.st ≠ .notConnected)
    (h : ∀ f ∈ fs, markOf f = .neutral) : (run c s fs).1 = s :=
  neutral_keeps_state c fs s hn hu h

/-- **Echo.** Every control frame sent back carries the system bytes of the frame it answers; a Reject.req also
    carries its session id, a reason in 1..4, and the offending type byte: the PType (≠ 0) for reason 2, the
    SType for reasons 1 and 3, and 0 = SType of a data message for reason 4. -/
theorem echo_system_bytes (c : Cfg) (s : RState) (f : Frame) : ∀ o ∈ (dispatch c s f).2.1, o.echoes f := by
  by_cases hu : s.st = .notConnected
  · rw [dispatch_notConnected c s f hu]; simp
  · rw [dispatch_eq_prescribed c s f hu]; exact prescribed_echo c s f

/-- At most one action per received frame (no reject storms of our own making). -/
theorem at_most_one_reply (c : Cfg) (s : RState) (f : Frame) : (dispatch c s f).2.1.length ≤ 1 := by
  by_cases hu : s.st = .notConnected
  · rw [dispatch_notConnected c s f hu]; simp
  · rw [dispatch_eq_prescribed c s f hu]; exact prescribed_len c s f

/-- The link ends only by a peer Separate.req while Selected or by the failure of our own Select; then
    nothing is sent back (in particular no Separate). -/
theorem link_end_sends_nothing (c : Cfg) (s : RState) (f : Frame) (h : (dispatch c s f).2.2 ≠ .none) :
    (dispatch c s f).2.1 = [] ∧ (dispatch c s f).1.st = .notConnected := by
  by_cases hu : s.st = .notConnected
  · rw [dispatch_notConnected c s f hu] at h; simp at h
  · rw [dispatch_eq_prescribed c s f hu] at h ⊢; exact prescribed_effect c s f h

/-- **Separate.req**: while Selected it ends the connection without any reply; otherwise it is ignored. -/
theorem separate_semantics (c : Cfg) (s : RState) (f : Frame) (hf : classOf f = .separateReq) (hu : s.st ≠ .notConnected) :
    (s.st = .selected → dispatch c s f = (down s, [], .peerSeparate)) ∧
    (s.st = .notSelected → dispatch c s f = (s, [], .none)) := by
  rw [dispatch_eq_prescribed c s f hu]
  unfold prescribed
  simp only [hf]
  constructor <;> intro h <;> simp [selected, h, down, disconnected]

/-- **Select.req / Deselect.req / Linktest.req** are answered with the prescribed status, echoing session id and
    system bytes (Linktest.rsp carries session id 0xFFFF). -/
theorem control_requests_answered (c : Cfg) (s : RState) (f : Frame) (hu : s.st ≠ .notConnected) :
    (classOf f = .selectReq →
      (dispatch c s f).2.1 = [.ctrl f.session 0 (if s.st = .selected then 1 else 0) 2 f.sys] ∧
      (dispatch c s f).1.st = .selected) ∧
    (classOf f = .deselectReq →
      (dispatch c s f).2.1 = [.ctrl f.session 0 (if s.st = .selected then 0 else 1) 4 f.sys] ∧
      (dispatch c s f).1.st = .notSelected) ∧
    (classOf f = .linktestReq → dispatch c s f = (s, [.ctrl 0xFFFF 0 0 6 f.sys], .none)) := by
  rw [dispatch_eq_prescribed c s f hu]
  unfold prescribed
  refine ⟨?_, ?_, ?_⟩ <;> intro hf <;> simp only [hf] <;>
    cases hst : s.st <;> simp_all [selected, enterSelected, leaveSelected, selectRsp, deselectRsp, linktestRsp]

/-- **Second TCP connection** to a passive endpoint with a live session: refused (closed at once), and the live
    session's state is not touched. -/
theorem second_connection_refused (s : RState) : acceptConn true s = (true, s, .refuse) := rfl

/-- The first connection of a generation is adopted and starts in NotSelected. -/
theorem first_connection_adopted (s : RState) :
    acceptConn false s = (true, ⟨.notSelected, none, [], [], true⟩, .adopt) := rfl

/-! ## Establishment, the active Select procedure and the timers (as events) -/

/-- **Connection establishment.** Adopting a TCP connection enters NotSelected with the T7 dwell armed; the active
    role (and only it) opens with a Select.req carrying the CONFIGURED session id, which becomes the one open
    control transaction (bounded by T6). -/
theorem tcp_up_starts_procedure (c : Cfg) (active : Bool) (x : Nat) :
    step c .idle (.tcpUp active x) =
      (⟨.notSelected, if active then some x else none, [], [], c.t7⟩,
       if active then [.ctrl c.sessionID 0 0 1 x] else [], .none) := by
  simp [step, RState.idle, stSelectReq]

/-- **Outcomes of the active Select procedure.** Whatever ends it — T6 expiry, or any control response / Reject.req
    carrying the Select.req's system bytes — the transaction is closed and exactly one of three things holds:
    Select.rsp status 0 ⇒ Selected (committed on the receive step itself), nothing dropped; Select.rsp status 1
    ("already active") ⇒ no transition at all (Selected iff the peer's own Select.req had already selected us;
    otherwise the T7 dwell keeps running, see `t7_expiry_drops_not_selected`); anything else — status ≥ 2,
    Deselect.rsp, Linktest.rsp, Reject.req, T6 — ⇒ the link is dropped (TCPDown) and nothing is sent. -/
theorem active_select_outcomes (c : Cfg) (s : RState) (x : Nat) (e : Ev) (ho : s.openSel = some x)
    (hu : s.st ≠ .notConnected) (hc : ClosesSelect x e) :
    (step c s e).1.openSel = none ∧
    ((∃ f, e = .frame f ∧ classOf f = .selectRsp ∧ f.b3 = 0 ∧ (step c s e).1.st = .selected ∧ (step c s e).2.2 = .none) ∨
     (∃ f, e = .frame f ∧ classOf f = .selectRsp ∧ f.b3 = 1 ∧ (step c s e).1.st = s.st ∧
        (step c s e).1.t7 = s.t7 ∧ (step c s e).2.2 = .none) ∨
     ((step c s e).1.st = .notConnected ∧ (step c s e).2.2 = .selectFailed ∧ (step c s e).2.1 = [])) :=
  select_outcomes c s x e ho hu hc

/-- … never both: a procedure that dropped the link did not also leave it Selected. -/
theorem select_never_both (c : Cfg) (s : RState) (e : Ev) :
    ¬ ((step c s e).1.st = .selected ∧ (step c s e).2.2 = .selectFailed) := by
  rintro ⟨h1, h2⟩
  cases e with
  | tcpUp a y => simp only [step] at h2; split at h2 <;> simp at h2
  | t6Select => simp only [step] at h1 h2; split at h2 <;> simp_all [down]
  | t7 => simp only [step] at h2; (repeat' split at h2) <;> simp at h2
  | t8 => simp only [step] at h2; split at h2 <;> simp at h2
  | frame f =>
    have := link_end_sends_nothing c s f (by simp only [step] at h2; rw [h2]; simp)
    simp only [step] at h1
    rw [this.2] at h1; cases h1

/-- **A peer Select.req to an active endpoint** whose own Select.req is still unanswered is served like any other:
    status 0, Selected at once; our own procedure stays open (it still ends by one of the outcomes above). -/
theorem peer_select_during_own_select (c : Cfg) (s : RState) (x : Nat) (f : Frame) (ho : s.openSel = some x)
    (hs : s.st = .notSelected) (hf : classOf f = .selectReq) :
    step c s (.frame f) = ({ s with st := .selected, t7 := false }, [.ctrl f.session 0 0 2 f.sys], .none) := by
  have hu : s.st ≠ .notConnected := by rw [hs]; simp
  simp only [step, dispatch_eq_prescribed c s f hu]
  unfold prescribed
  simp [hf, selected, hs, enterSelected, selectRsp]

/-- **T7 is armed exactly while NotSelected** (T7 configured): in every state reachable from the idle endpoint by
    any sequence of connection, frame and timer events. -/
theorem t7_armed_iff_not_selected (c : Cfg) (hc : c.t7 = true) (es : List Ev) :
    (runEv c .idle es).1.t7 = true ↔ (runEv c .idle es).1.st = .notSelected := by
  have h := runEv_tinv c es .idle (idle_tinv c)
  exact ⟨h.1, h.2 hc⟩

/-- **T7 never fires while Selected**: in a reachable Selected state the timer is not armed (its expiry event is
    not enabled); and even a stray expiry delivered to a Selected endpoint changes nothing. -/
theorem t7_never_fires_while_selected (c : Cfg) (es : List Ev) (hs : (runEv c .idle es).1.st = .selected) :
    ¬ Enabled (runEv c .idle es).1 .t7 ∧
    (∀ s : RState, s.st = .selected → (step c s .t7).2.2 = .none ∧ (step c s .t7).1.st = .selected ∧ (step c s .t7).2.1 = []) := by
  have h := runEv_tinv c es .idle (idle_tinv c)
  constructor
  · intro he
    have := h.1 he
    rw [hs] at this; cases this
  · intro s h1
    simp only [step]
    cases s.t7 <;> simp [h1]

/-- **T7 expiry in NotSelected drops the link** (no frame is sent). -/
theorem t7_expiry_drops_not_selected (c : Cfg) (s : RState) (ht : s.t7 = true) (hs : s.st = .notSelected) :
    step c s .t7 = (down s, [], .t7Expired) := by
  simp [step, ht, hs]

/-- **Deselect re-arms T7, Select cancels it.** -/
theorem deselect_rearms_t7 (c : Cfg) (s : RState) (f : Frame) (hs : s.st = .selected) (hf : classOf f = .deselectReq) :
    (step c s (.frame f)).1.st = .notSelected ∧ (step c s (.frame f)).1.t7 = c.t7 := by
  have hu : s.st ≠ .notConnected := by rw [hs]; simp
  simp only [step, dispatch_eq_prescribed c s f hu]
  unfold prescribed
  simp [hf, selected, hs, leaveSelected]

theorem select_cancels_t7 (c : Cfg) (s : RState) (f : Frame) (hs : s.st = .notSelected) (hf : classOf f = .selectReq) :
    (step c s (.frame f)).1.st = .selected ∧ (step c s (.frame f)).1.t7 = false := by
  have hu : s.st ≠ .notConnected := by rw [hs]; simp
  simp only [step, dispatch_eq_prescribed c s f hu]
  unfold prescribed
  simp [hf, selected, hs, enterSelected]

/-- **T6 / T8 expiry**: an unanswered Select.req and a stalled frame both end the connection, without a reply. -/
theorem t6_t8_drop (c : Cfg) (s : RState) (hu : s.st ≠ .notConnected) :
    (s.openSel ≠ none → step c s .t6Select = (down s, [], .selectFailed)) ∧
    step c s .t8 = (down s, [], .t8Expired) := by
  constructor
  · intro h; simp [step, h, hu]
  · simp [step, hu]

/-- Timers fire only when armed: with no Select.req pending / no dwell armed the events change nothing. -/
theorem disarmed_timers_are_inert (c : Cfg) (s : RState) :
    (s.openSel = none → step c s .t6Select = (s, [], .none)) ∧ (s.t7 = false → step c s .t7 = (s, [], .none)) := by
  constructor <;> intro h <;> simp [step, h]

/-! ## Non-vacuity -/

def cfg0 : Cfg := ⟨true, 0x1234, true⟩
def up : RState := ⟨.notSelected, none, [], [], true⟩
def selReq : Frame := ⟨0xFFFF, 0, 0, 0, 1, 77, 0⟩
def deselReq : Frame := ⟨0xFFFF, 0, 0, 0, 3, 78, 0⟩
def junk : Frame := ⟨1, 2, 3, 1, 200, 79, 5⟩
def orphan : Frame := ⟨0xFFFF, 0, 0, 0, 6, 80, 0⟩

example : NoTx up ∧ up.st ≠ .notConnected := by simp [NoTx, up]
example : outs cfg0 up [selReq, junk, orphan, selReq, deselReq, selReq] =
    [.ctrl 0xFFFF 0 0 2 77, .ctrl 1 1 2 7 79, .ctrl 0xFFFF 6 3 7 80, .ctrl 0xFFFF 0 1 2 77,
     .ctrl 0xFFFF 0 0 4 78, .ctrl 0xFFFF 0 0 2 77] := by decide
example : ∃ o ∈ (dispatch cfg0 up junk).2.1, o.isReject = true := by decide
example : classOf ⟨0xFFFF, 0, 0, 0, 9, 5, 0⟩ = .separateReq := by decide
example : ClosesSelect 7 (.frame ⟨0xFFFF, 0, 3, 0, 2, 7, 0⟩) := by simp [ClosesSelect]; decide
example : (runEv cfg0 .idle [.tcpUp true 7, .frame selReq, .frame ⟨0x1234, 0, 1, 0, 2, 7, 0⟩, .frame deselReq, .t7]).2.map (·.2) =
    [.none, .none, .none, .none, .t7Expired] := by decide

end GoSecs.Props.C08
