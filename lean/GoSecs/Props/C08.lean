/-
  C08 — HSMS-SS control procedures answer every peer frame sequence per SEMI E37.

  Property theorems only. `Responder.dispatch` (Model/Responder.lean) is the line-by-line transcription of
  `dispatchFrame` and the responder procedures; `E37.prescribed` (Spec/E37Table.lean) is the independently
  written table of what E37/E37.1 prescribe. The decision logic is stated outright by `dispatch_meets_table`:
  the transcribed code and the table agree on EVERY state and EVERY frame (next state, the frames sent back,
  deliveries, and whether the link ends). Helper lemmas: Lemmas/Responder.lean.
-/
import GoSecs.Lemmas.Responder
import GoSecs.Gen.Consts
import GoSecs.Gen.Funcs

set_option linter.unusedSimpArgs false

namespace GoSecs.Props.C08
open GoSecs GoSecs.Responder GoSecs.E37

/-! ## Tie to the source (regenerated on every run) -/

/-- `hsms.IsValidSType` as translated from the working tree is the model's SType table, for every byte. -/
theorem isValidSType_gen (n : Nat) (h : n < 256) : Gen.hsms_IsValidSType (n : Int) = isValidSType n := by
  by_cases h0 : n = 0; · subst h0; decide
  by_cases h1 : n = 1; · subst h1; decide
  by_cases h2 : n = 2; · subst h2; decide
  by_cases h3 : n = 3; · subst h3; decide
  by_cases h4 : n = 4; · subst h4; decide
  by_cases h5 : n = 5; · subst h5; decide
  by_cases h6 : n = 6; · subst h6; decide
  by_cases h7 : n = 7; · subst h7; decide
  by_cases h9 : n = 9; · subst h9; decide
  unfold Gen.hsms_IsValidSType isValidSType
  rw [Go.wrapU_of_range 8 n (by omega) (by omega)]
  have i0 : ¬ ((n : Int) = 0) := by omega
  have i1 : ¬ ((n : Int) = 1) := by omega
  have i2 : ¬ ((n : Int) = 2) := by omega
  have i3 : ¬ ((n : Int) = 3) := by omega
  have i4 : ¬ ((n : Int) = 4) := by omega
  have i5 : ¬ ((n : Int) = 5) := by omega
  have i6 : ¬ ((n : Int) = 6) := by omega
  have i7 : ¬ ((n : Int) = 7) := by omega
  have i9 : ¬ ((n : Int) = 9) := by omega
  simp [h0, h1, h2, h3, h4, h5, h6, h7, h9, i0, i1, i2, i3, i4, i5, i6, i7, i9]

/-- SType values, reject reasons and select / deselect status codes of the Go source are the model's. -/
theorem consts_gen :
    Gen.hsms_DataMsgType = (stData : Int) ∧ Gen.hsms_SelectReqType = (stSelectReq : Int) ∧
    Gen.hsms_SelectRspType = (stSelectRsp : Int) ∧ Gen.hsms_DeselectReqType = (stDeselectReq : Int) ∧
    Gen.hsms_DeselectRspType = (stDeselectRsp : Int) ∧ Gen.hsms_LinktestReqType = (stLinktestReq : Int) ∧
    Gen.hsms_LinktestRspType = (stLinktestRsp : Int) ∧ Gen.hsms_RejectReqType = (stRejectReq : Int) ∧
    Gen.hsms_SeparateReqType = (stSeparateReq : Int) ∧
    Gen.hsms_RejectSTypeNotSupported = (rejectSTypeNotSupported : Int) ∧
    Gen.hsms_RejectPTypeNotSupported = (rejectPTypeNotSupported : Int) ∧
    Gen.hsms_RejectTransactionNotOpen = (rejectTransactionNotOpen : Int) ∧
    Gen.hsms_RejectNotSelected = (rejectNotSelected : Int) ∧
    Gen.hsms_SelectStatusSuccess = (selectStatusSuccess : Int) ∧
    Gen.hsms_SelectStatusAlreadyActive = (selectStatusAlreadyActive : Int) ∧
    Gen.hsms_DeselectStatusSuccess = (deselectStatusSuccess : Int) ∧
    Gen.hsms_DeselectStatusNotEstablished = (deselectStatusNotEstablished : Int) := by
  decide

/-- The model's SType predicate is exactly membership in the E37 SType table. -/
theorem isValidSType_iff_table (n : Nat) : isValidSType n = true ↔ (stypeTable.lookup n).isSome = true := by
  rw [lookup_stype]
  unfold isValidSType
  by_cases h0 : n = 0; · simp [h0]
  by_cases h1 : n = 1; · simp [h1]
  by_cases h2 : n = 2; · simp [h2]
  by_cases h3 : n = 3; · simp [h3]
  by_cases h4 : n = 4; · simp [h4]
  by_cases h5 : n = 5; · simp [h5]
  by_cases h6 : n = 6; · simp [h6]
  by_cases h7 : n = 7; · simp [h7]
  by_cases h9 : n = 9; · simp [h9]
  simp [h0, h1, h2, h3, h4, h5, h6, h7, h9]

/-! ## The property -/

/-- **One step, all states × all frames.** On an established link (NotSelected or Selected, any set of open
    transactions), for every frame — every SType, every PType, with or without body, any session id, system
    bytes, status byte — the transcribed dispatcher does exactly what the E37 table prescribes: same next
    state, same frames sent back (Select/Deselect/Linktest.rsp, Reject.req with reason and echoed bytes, S9F1),
    same deliveries, same link effect. -/
theorem dispatch_meets_table (c : Cfg) (s : RState) (f : Frame) (h : s.st ≠ .notConnected) :
    dispatch c s f = prescribed c s f :=
  dispatch_eq_prescribed c s f h

/-- **All finite sequences.** The responses to any frame sequence, from any state, are the table's, frame by
    frame, in order (by induction over the sequence). -/
theorem responses_of_sequence (c : Cfg) (s : RState) (fs : List Frame) : run c s fs = runTable c s fs :=
  run_eq_runTable c fs s

/-- **State after arbitrary prefixes.** With no transaction of our own open (passive endpoint), as long as the
    link is still up the session is Selected after a history iff the most recent Select.req / Deselect.req /
    Separate.req in it is a Select.req — whatever rejects, linktests, data, orphan responses or duplicate
    selects lie in between (deselect-select-deselect, reject storms between selects, …). Hence a Select.req is
    answered 0 iff no un-released select precedes it, else 1; likewise Deselect.req. -/
theorem selected_iff_history (c : Cfg) (s : RState) (fs : List Frame) (hn : NoTx s) (hu : s.st ≠ .notConnected)
    (hfin : (run c s fs).1.st ≠ .notConnected) :
    (run c s fs).1.st = .selected ↔ selectedAfter (decide (s.st = .selected)) fs.reverse = true :=
  selected_iff_history_gen c fs s hn hu hfin

/-- **A Reject is never a disconnect.** Whenever handling a frame sends a Reject.req (unsupported PType,
    undefined SType, control frame with body, orphan response, data while not Selected), the link stays up and
    the state — logical state and open transactions — is exactly what it was. -/
theorem reject_never_disconnects (c : Cfg) (s : RState) (f : Frame)
    (h : ∃ o ∈ (dispatch c s f).2.1, o.isReject = true) :
    (dispatch c s f).1 = s ∧ (dispatch c s f).2.2 = .none := by
  by_cases hu : s.st = .notConnected
  · rw [dispatch_notConnected c s f hu] at h ⊢; simp at h
  · rw [dispatch_eq_prescribed c s f hu] at h ⊢; exact prescribed_reject c s f h

/-- … and a whole storm of such frames (anything that is not a well-formed Select/Deselect/Separate.req) between
    two selects leaves the state untouched. -/
theorem reject_storm_transparent (c : Cfg) (s : RState) (fs : List Frame) (hn : NoTx s) (hu : s.st ≠ .notConnected)
    (h : ∀ f ∈ fs, markOf f = .neutral) : (run c s fs).1 = s :=
  neutral_keeps_state c fs s hn hu h

/-- **Echo.** Every control frame sent back carries the system bytes of the frame it answers; a Reject.req also
    carries its session id, a reason in 1..4, and the offending type byte: the PType (≠ 0) for reason 2, the
    SType for reasons 1 and 3, and 0 = SType of a data message for reason 4. -/
theorem echo_system_bytes (c : Cfg) (s : RState) (f : Frame) : ∀ o ∈ (dispatch c s f).2.1, o.echoes f := by
  by_cases hu : s.st = .notConnected
  · rw [dispatch_notConnected c s f hu]; simp
  · rw [dispatch_eq_prescribed c s f hu]; exact prescribed_echo c s f

/-- At most one action per received frame (no reject storms of our own making). -/
theorem at_most_one_reply (c : Cfg) (s : RState) (f : Frame) : (dispatch c s f).2.1.length ≤ 1 := by
  by_cases hu : s.st = .notConnected
  · rw [dispatch_notConnected c s f hu]; simp
  · rw [dispatch_eq_prescribed c s f hu]; exact prescribed_len c s f

/-- The link ends only by a peer Separate.req while Selected or by the failure of our own Select; then
    nothing is sent back (in particular no Separate). -/
theorem link_end_sends_nothing (c : Cfg) (s : RState) (f : Frame) (h : (dispatch c s f).2.2 ≠ .none) :
    (dispatch c s f).2.1 = [] ∧ (dispatch c s f).1.st = .notConnected := by
  by_cases hu : s.st = .notConnected
  · rw [dispatch_notConnected c s f hu] at h; simp at h
  · rw [dispatch_eq_prescribed c s f hu] at h ⊢; exact prescribed_effect c s f h

/-- **Separate.req**: while Selected it ends the connection without any reply; otherwise it is ignored. -/
theorem separate_semantics (c : Cfg) (s : RState) (f : Frame) (hf : classOf f = .separateReq) (hu : s.st ≠ .notConnected) :
    (s.st = .selected → dispatch c s f = ({ s with st := .notConnected }, [], .peerSeparate)) ∧
    (s.st = .notSelected → dispatch c s f = (s, [], .none)) := by
  rw [dispatch_eq_prescribed c s f hu]
  unfold prescribed
  simp only [hf]
  constructor <;> intro h <;> simp [selected, h, down]

/-- **Select.req / Deselect.req / Linktest.req** are answered with the prescribed status, echoing session id and
    system bytes (Linktest.rsp carries session id 0xFFFF). -/
theorem control_requests_answered (c : Cfg) (s : RState) (f : Frame) (hu : s.st ≠ .notConnected) :
    (classOf f = .selectReq →
      (dispatch c s f).2.1 = [.ctrl f.session 0 (if s.st = .selected then 1 else 0) 2 f.sys] ∧
      (dispatch c s f).1.st = .selected) ∧
    (classOf f = .deselectReq →
      (dispatch c s f).2.1 = [.ctrl f.session 0 (if s.st = .selected then 0 else 1) 4 f.sys] ∧
      (dispatch c s f).1.st = .notSelected) ∧
    (classOf f = .linktestReq → dispatch c s f = (s, [.ctrl 0xFFFF 0 0 6 f.sys], .none)) := by
  rw [dispatch_eq_prescribed c s f hu]
  unfold prescribed
  refine ⟨?_, ?_, ?_⟩ <;> intro hf <;> simp only [hf] <;>
    cases hst : s.st <;> simp_all [selected, enterSelected, selectRsp, deselectRsp, linktestRsp]

/-- **Second TCP connection** to a passive endpoint with a live session: refused (closed at once), and the live
    session's state is not touched. -/
theorem second_connection_refused (s : RState) : acceptConn true s = (true, s, .refuse) := rfl

/-- The first connection of a generation is adopted and starts in NotSelected. -/
theorem first_connection_adopted (s : RState) :
    acceptConn false s = (true, ⟨.notSelected, none, []⟩, .adopt) := rfl

/-! ## Non-vacuity -/

def cfg0 : Cfg := ⟨true, 0x1234⟩
def up : RState := ⟨.notSelected, none, []⟩
def selReq : Frame := ⟨0xFFFF, 0, 0, 0, 1, 77, 0⟩
def deselReq : Frame := ⟨0xFFFF, 0, 0, 0, 3, 78, 0⟩
def junk : Frame := ⟨1, 2, 3, 1, 200, 79, 5⟩
def orphan : Frame := ⟨0xFFFF, 0, 0, 0, 6, 80, 0⟩

example : NoTx up ∧ up.st ≠ .notConnected := by simp [NoTx, up]
example : outs cfg0 up [selReq, junk, orphan, selReq, deselReq, selReq] =
    [.ctrl 0xFFFF 0 0 2 77, .ctrl 1 1 2 7 79, .ctrl 0xFFFF 6 3 7 80, .ctrl 0xFFFF 0 1 2 77,
     .ctrl 0xFFFF 0 0 4 78, .ctrl 0xFFFF 0 0 2 77] := by decide
example : ∃ o ∈ (dispatch cfg0 up junk).2.1, o.isReject = true := by decide
example : classOf ⟨0xFFFF, 0, 0, 0, 9, 5, 0⟩ = .separateReq := by decide

end GoSecs.Props.C08
