/-
  C02 — the SECS-II decoder is total, memory-bounded and faithful on arbitrary bytes.

  `decode` (Model/Secs2) is `Decode`/`DecodeOwned` (one function in the model: both call
  `decodeItem`; their agreement on the implementation is a correspondence obligation).
  `Parses` (Spec/E5Grammar) is the E5 grammar, written independently of the decoder.
  Totality is definitional (every Lean function terminates); `decode_never_fuel` shows the
  structural-recursion budget never decides an outcome.
-/
import GoSecs.Lemmas.Secs2Grammar
import GoSecs.Lemmas.Secs2Gen
import GoSecs.Gen.Consts

namespace GoSecs.Props.C02
open GoSecs GoSecs.Secs2

/-- The recursion budget is a proof device only: no input makes the decoder stop for lack of it. -/
theorem decode_never_fuel (bs : Bytes) : decode bs ≠ .error .fuel := decode_ne_fuel bs

/-- **Soundness.** Whatever `decode` accepts is, on exactly the consumed prefix, an item of the E5
    grammar with the returned value, nested no deeper than the limit, and well-formed. -/
theorem decode_sound (bs : Bytes) (it : Item) (n : Nat) (hne : bs ≠ [])
    (h : decode bs = .ok (it, n)) :
    n ≤ bs.length ∧ 2 ≤ n ∧ Parses it (bs.take n) ∧ depth it ≤ maxListDepth ∧ WF it := by
  unfold decode at h
  split at h
  · contradiction
  · split at h
    · cases h
    · rename_i it' rest hd
      injection h with h; injection h with ha hb; subst ha hb
      obtain ⟨p, hp, hpar, hdep⟩ := (dec_sound_aux _).1 0 bs it' rest hd
      have h2 := parses_length_ge2 it' p hpar
      have hlen : bs.length - rest.length = p.length := by rw [hp]; simp
      refine ⟨by omega, by omega, ?_, by have := hdep (Nat.zero_le _); omega, parses_wf it' p hpar⟩
      rw [hlen, hp]; simpa using hpar

/-- **Completeness.** Every grammatical encoding — canonical or with a longer-than-needed length
    field — of an item within the depth limit is accepted with exactly that value, whatever follows. -/
theorem decode_complete (it : Item) (p rest : Bytes) (hp : Parses it p)
    (hd : depth it ≤ maxListDepth) : decode (p ++ rest) = .ok (it, p.length) := by
  have h2 := parses_length_ge2 it p hp
  have hwf := parses_wf it p hp
  have hne : p ++ rest ≠ [] := by
    intro e; have := congrArg List.length e
    rw [List.length_append, List.length_nil] at this; omega
  -- fuel: sz it ≤ 2 * |enc it| - 2, but here the input need not be canonical; bound sz by nodes ≤ |p|/2
  have hsz : sz it ≤ fuelFor (p ++ rest) := by
    have := sz_le_parses it p hp
    simp only [fuelFor, List.length_append]; omega
  unfold decode
  split
  · contradiction
  · rw [dec_of_parses it p hp _ 0 rest hsz (by omega)]
    simp
where
  sz_le_parses : ∀ (it : Item) (p : Bytes), Parses it p → sz it + 2 ≤ 2 * p.length := by
    intro it p h
    exact (sz_le_parses_aux it).1 p h
  sz_le_parses_aux : ∀ (it : Item),
      (∀ p, Parses it p → sz it + 2 ≤ 2 * p.length) ∧ True := by
    intro it; exact ⟨szP it, trivial⟩
  szP : ∀ (it : Item) (p : Bytes), Parses it p → sz it + 2 ≤ 2 * p.length
    | .empty, _, h => by simp [Parses] at h
    | .list cs, p, h => by
      simp only [Parses] at h
      obtain ⟨hdr, body, rfl, hh, hb⟩ := h
      have := isHeader_length _ _ _ hh
      have := szLP cs body hb
      simp only [sz, List.length_append]; omega
    | .binary _, p, h => by have := parses_length_ge2 _ p h; simp only [sz]; omega
    | .boolean _, p, h => by have := parses_length_ge2 _ p h; simp only [sz]; omega
    | .ascii _, p, h => by have := parses_length_ge2 _ p h; simp only [sz]; omega
    | .jis8 _, p, h => by have := parses_length_ge2 _ p h; simp only [sz]; omega
    | .lstr _ _, p, h => by have := parses_length_ge2 _ p h; simp only [sz]; omega
    | .int _ _, p, h => by have := parses_length_ge2 _ p h; simp only [sz]; omega
    | .uint _ _, p, h => by have := parses_length_ge2 _ p h; simp only [sz]; omega
    | .float _ _, p, h => by have := parses_length_ge2 _ p h; simp only [sz]; omega
  szLP : ∀ (cs : List Item) (p : Bytes), ParsesL cs p → szL cs ≤ 2 * p.length + 1
    | [], _, _ => by simp [szL]
    | c :: cs, p, h => by
      simp only [ParsesL] at h
      obtain ⟨p1, p2, rfl, h1, h2⟩ := h
      have := szP c p1 h1
      have := szLP cs p2 h2
      simp only [szL, List.length_append]; omega

/-- **Exactly the grammar**: a non-empty input is accepted iff a prefix of it is a grammatical item
    within the depth limit (and then the value is the grammar's). -/
theorem accepts_iff_grammar (bs : Bytes) (hne : bs ≠ []) (it : Item) (n : Nat) :
    decode bs = .ok (it, n) ↔
      (n ≤ bs.length ∧ Parses it (bs.take n) ∧ depth it ≤ maxListDepth) := by
  constructor
  · intro h
    obtain ⟨h1, _, h3, h4, _⟩ := decode_sound bs it n hne h
    exact ⟨h1, h3, h4⟩
  · intro ⟨h1, h2, h3⟩
    have := decode_complete it (bs.take n) (bs.drop n) h2 h3
    rw [List.take_append_drop] at this
    rw [this]; simp [List.length_take]; omega

/-- **Values are faithful**: the decoded value, re-encoded canonically, decodes to itself — so no
    information in the returned item is lost or invented (the implementation returns the consumed
    raw bytes on re-encoding; that equality is a correspondence obligation, see `canonical_reencode`). -/
theorem reencode_faithful (bs : Bytes) (it : Item) (n : Nat) (hne : bs ≠ [])
    (h : decode bs = .ok (it, n)) : decode (enc it) = .ok (it, (enc it).length) := by
  obtain ⟨_, _, _, hd, hwf⟩ := decode_sound bs it n hne h
  have := decode_enc it hwf hd []
  simpa using this

/-- The canonical encoding of a well-formed item is grammatical for that item
    (so `decode_complete` covers everything the encoder emits). -/
theorem enc_parses : ∀ (it : Item), WF it → Parses it (enc it) := encP
where
  encP : ∀ (it : Item), WF it → Parses it (enc it)
    | .empty, h => by simp [WF] at h
    | .list cs, h => by
      simp only [Parses, enc]
      exact ⟨_, _, rfl, header_isHeader _ _ (by simp [fcList]) h.1, encLP cs h.2⟩
    | .binary bs, h => by
      simp only [Parses, enc]
      exact ⟨fcBinary, _, bs, rfl, header_isHeader _ _ (by simp [fcBinary]) h, rfl, rfl⟩
    | .boolean vs, h => by
      simp only [Parses, enc]
      refine ⟨fcBoolean, _, vs.map boolByte, rfl, ?_, rfl, map_boolByte_ne_zero vs⟩
      simpa using header_isHeader fcBoolean vs.length (by simp [fcBoolean]) h
    | .ascii bs, h => by
      simp only [Parses, enc]
      exact ⟨fcASCII, _, bs, rfl, header_isHeader _ _ (by simp [fcASCII]) h, rfl, rfl⟩
    | .jis8 bs, h => by
      simp only [Parses, enc]
      exact ⟨fcJIS8, _, bs, rfl, header_isHeader _ _ (by simp [fcJIS8]) h, rfl, rfl⟩
    | .lstr l bs, h => by
      simp only [Parses, enc]
      have hl := h.1
      refine ⟨fcLStr, _, beBytes 2 l ++ bs, rfl, ?_, rfl, ?_⟩
      · have := header_isHeader fcLStr (bs.length + 2) (by simp [fcLStr]) h.2
        simpa [Nat.add_comm] using this
      · refine ⟨UInt8.ofNat (l / 256 % 256), UInt8.ofNat (l % 256), by simp [beBytes], ?_⟩
        simp [UInt8.toNat_ofNat']; omega
    | .int w vs, h => by
      simp only [Parses, enc]
      refine ⟨fcInt w, _, encInts w.bytes vs, rfl, ?_, rfl, rfl, h.2⟩
      simpa using header_isHeader (fcInt w) (vs.length * w.bytes) (fcInt_lt w).1 h.1
    | .uint w vs, h => by
      simp only [Parses, enc]
      refine ⟨fcUint w, _, encNats w.bytes vs, rfl, ?_, rfl, rfl, h.2⟩
      simpa using header_isHeader (fcUint w) (vs.length * w.bytes) (fcUint_lt w).1 h.1
    | .float w vs, h => by
      simp only [Parses, enc]
      refine ⟨fcFloat w, _, encNats w.bytes vs, rfl, ?_, rfl, rfl, h.2⟩
      simpa using header_isHeader (fcFloat w) (vs.length * w.bytes) (fcFloat_lt w).1 h.1
  encLP : ∀ (cs : List Item), WFL cs → ParsesL cs (encL cs)
    | [], _ => by simp [ParsesL, encL]
    | c :: cs, h => by
      simp only [ParsesL, encL]
      exact ⟨_, _, rfl, encP c h.1, encLP cs h.2⟩

/-! ### Each malformed class named by the property is rejected -/

/-- zero length-byte count -/
theorem reject_zero_length_bytes (fb : UInt8) (r : Bytes) (h : fb.toNat % 4 = 0) :
    decode (fb :: r) = .error .zeroLen := by
  simp [decode, dec, fuelFor, h]

/-- truncated header (fewer bytes than the announced length-byte count) -/
theorem reject_truncated_header (fb : UInt8) (r : Bytes) (h0 : fb.toNat % 4 ≠ 0)
    (h : r.length < fb.toNat % 4) : decode (fb :: r) = .error .eofLen := by
  have : lenLt r (fb.toNat % 4) = true := (lenLt_iff _ _).2 h
  simp [decode, dec, fuelFor, h0, this]

/-- any accepted item satisfies the grammar, hence: unknown format codes, truncated payloads,
    payloads that are not a multiple of the element width, localized strings shorter than their
    2-byte header, and nesting deeper than `MaxListDepth` are all rejected. -/
theorem reject_nongrammatical (bs : Bytes) (hne : bs ≠ [])
    (h : ¬ ∃ it n, n ≤ bs.length ∧ Parses it (bs.take n) ∧ depth it ≤ maxListDepth) :
    ∃ e, decode bs = .error e := by
  cases hd : decode bs with
  | error e => exact ⟨e, rfl⟩
  | ok v =>
    obtain ⟨it, n⟩ := v
    exact absurd ⟨it, n, ((accepts_iff_grammar bs hne it n).1 hd)⟩ h

/-- nesting 65 deep is rejected: a list header met at depth 64 is an error whatever follows -/
theorem reject_depth_65 (fuel : Nat) (fb : UInt8) (r : Bytes) (hfc : fb.toNat / 4 = fcList)
    (hk : fb.toNat % 4 ≠ 0) (hl : lenLt r (fb.toNat % 4) = false) :
    dec (fuel + 1) maxListDepth (fb :: r) = .error .depth := by
  simp [dec, hk, hl, hfc, maxListDepth]

/-- localized string shorter than its header -/
theorem reject_short_lstr (n : Nat) (r : Bytes) (h : n < 2) : decLeaf fcLStr n r = .error .lstrShort := by
  simp [decLeaf, fcLStr, fcASCII, fcJIS8, fcBinary, fcBoolean, h]

/-- payload length not a multiple of the element width -/
theorem reject_width_mismatch (w : Width) (n : Nat) (r : Bytes) (h : n % w.bytes ≠ 0) :
    decLeaf (fcInt w) n r = .error .width ∧ decLeaf (fcUint w) n r = .error .width := by
  cases w <;> simp_all [decLeaf, fcInt, fcUint, fcLStr, fcASCII, fcJIS8, fcBinary, fcBoolean,
    widthOfIntFc, widthOfUintFc, Width.bytes]

/-- unknown format code -/
theorem reject_unknown_fc (fc n : Nat) (r : Bytes)
    (h : fc ∉ [fcBinary, fcBoolean, fcASCII, fcJIS8, fcLStr, 24, 25, 26, 28, 32, 36, 40, 41, 42, 44]) :
    decLeaf fc n r = .error .unknownFc := by
  simp only [List.mem_cons, List.not_mem_nil, or_false, not_or, fcBinary, fcBoolean, fcASCII,
    fcJIS8, fcLStr] at h
  simp [decLeaf, fcLStr, fcASCII, fcJIS8, fcBinary, fcBoolean, widthOfIntFc, widthOfUintFc,
    widthOfFloatFc, h]

/-! ### Memory -/

/-- **Allocation bound**: for every input, the bytes `Decode` asks the allocator for on account of
    lengths the input claims are at most 521 × the input length (see `allocDecode`). -/
theorem alloc_bound (bs : Bytes) : allocDecode bs ≤ 521 * bs.length := allocDecode_le bs

/-- The list pre-check is what makes that true: a list is only allocated when its claimed child
    count fits twice into the remaining input (16-byte slots ≤ 8 × remaining bytes). -/
theorem list_alloc_guarded (n : Nat) (r : Bytes) (h : lenLt r (n * 2) = false) :
    16 * n ≤ 8 * r.length := by
  have := (lenLt_false_iff _ _).1 h; omega

/-- The header the decoder must be able to read back is the header the encoder writes: `appendHeaderBytesFC`
    (regenerated from secs2/item.go) appends the model's `header fc n` — the item header of `Parses` / `decode` —
    for every format code and every length within the cap. -/
theorem appendHeaderBytesFC_gen (dst : Bytes) (fc n : Nat) :
    Gen.secs2_appendHeaderBytesFC dst (fc : Int) (n : Int) =
      some (if n > maxByteSize then (dst, some "size limit exceeded") else (dst ++ header fc n, none)) :=
  Secs2.appendHeaderBytesFC_gen dst fc n

/-- **The header parse of `decodeItem`, regenerated from secs2/decode.go** (its statements from the entry up to
    `switch formatCode`): format byte → format code `>> 2` and length-byte count `& 3`, the zero-count and
    short-input rejections (with the position the Go code reports), the 1..3 length bytes combined big-endian with
    shifts and ORs — is the model's `decHeader` on `owned[pos:]`, for every buffer and every position; and it
    never indexes out of range. -/
theorem decodeItemHeader_gen (owned : Bytes) (pos : Nat) :
    Gen.secs2_decodeItem_header owned (pos : Int) = some (headerOut pos (decHeader (owned.drop pos))) :=
  Secs2.decodeItemHeader_gen owned pos

/-- …and `decHeader` is the header the model decoder `dec` (the subject of every theorem above) parses. -/
theorem dec_via_decHeader (fuel depth : Nat) (bs : Bytes) :
    dec (fuel + 1) depth bs =
      (match decHeader bs with
       | .error e => .error e
       | .ok (fc, _, n, r2) =>
         if fc = fcList then
           if depth + 1 > maxListDepth then .error .depth
           else if lenLt r2 (n * 2) then .error .count
           else match decL fuel (depth + 1) n r2 with
             | .error e => .error e
             | .ok (cs, r3) => .ok (.list cs, r3)
         else decLeaf fc n r2) :=
  Secs2.dec_via_decHeader fuel depth bs

theorem consts_gen :
    Gen.secs2_MaxListDepth = (maxListDepth : Int) ∧ Gen.secs2_MaxByteSize = (maxByteSize : Int) := by
  decide

/-! ### Non-vacuity -/
example : decode [0x01, 0x01, 0xA5, 0x02, 0x00, 0x07] = .ok (.list [.uint .w1 [0, 7]], 6) := by rfl
example : Parses (.uint .w1 [5]) [0xA6, 0x00, 0x01, 0x05] :=   -- non-canonical 2-byte length field
  ⟨41, [0xA6, 0x00, 0x01], [0x05], rfl, ⟨2, [0x00, 0x01], by decide, by decide, by decide, rfl, by decide, by decide⟩,
    rfl, rfl, by simp [Width.bytes]⟩

end GoSecs.Props.C02
