/-
  C12 — items and messages are immutable, alias-free and safe for concurrent readers.

  A pure model of an item is immutable by construction, so the theorems are about OWNERSHIP
  (Model/Ownership.lean) and about the tables `Gen.returnProvenance` / `Gen.paramRetention`, which
  tools/go2lean/provenance.go regenerates from the Go source on every run (tie T1):

    table_safe                the WHOLE regenerated tables, by `decide`: every result class of every exported
                              function of secs2 / hsms is fresh | clone | value | string | nil | append-param; the
                              only non-fresh results in the three packages are the three internal/wire bridge
                              functions; the only parameters that are not `copied` are exactly the documented
                              ownership-transfer entry points, and those are `retained` (never `unknown:`)
    api_kinds_safe            hence every operation kind the public API consists of is a safe kind
    disjointness_invariant    for EVERY sequence of safe-kind operations item-owned and caller-reachable mutable
                              regions stay disjoint (induction over the operation list)
    observations_unchanged    hence every later observation of every item equals the earlier one
    api_observations_unchanged  the same, stated for sequences whose kinds come from the regenerated tables
    view_breaks_immutability / retain_breaks_immutability   the two excluded kinds really are unsafe (witnesses)
    lazy_once                 sync.Once memo cell: under EVERY interleaving of any number of goroutines / copies
                              the memo is computed at most once, it is `f body` for the immutable body, and
                              every caller that finished read exactly that value
    lazy_once_body_immutable  no step changes the body the memo is a function of

  NOT proved here (stated in props.d/C12.json): data-race freedom is the Go race detector's verdict on the
  schedules the harness explores (`-race`, thorough tier); `sync.Once.Do` is modelled (blocking, happens-before
  completion), not verified; the table is a may-alias analysis by go2lean (trusted translator) whose external-callee
  assumptions are listed there; the internal/wire bridge functions (`Buffers`, `OwnedBytes`, `ChunkOf`,
  `AdoptBody`) are only reachable from the in-repo transports, which are trusted not to write through them.
-/
import GoSecs.Model.Ownership
import GoSecs.Lemmas.Ownership
import GoSecs.Gen.Provenance

namespace GoSecs.Props.C12
open GoSecs GoSecs.Ownership

/-! ## The regenerated tables -/

/-- Result classes under which the caller never holds item-owned storage. -/
def safeReturnClasses : List String := "append-param" :: freshClasses

/-- The internal zero-copy bridge (package internal/wire, not importable by applications): the only
    functions of the three packages whose result is item/message-owned storage. -/
def internalBridgeViews : List String := ["wire.OwnedBytes", "wire.rawFrameBody.Buffers", "wire.treeBody.Buffers"]

/-- The documented ownership-transfer entry points — the ONLY functions that keep a caller's buffer:
    `secs2.DecodeOwned` ("transfers ownership of data's backing array"), `secs2.DecodeOwnedFrame` (capability
    token from internal/framecodec), `hsms.DecodeOwnedHSMSPayload` ("transfers ownership of payload"),
    `connection.DeliverOwnedFrame` (TransportRuntime: "a freshly-read, GC-owned frame buffer"), and the
    internal/wire adopters `AdoptBody` / `ChunkOf` ("wraps already-owned body bytes zero-copy"). -/
def ownershipTransfer : List (String × String) := [
  ("hsms.DecodeOwnedHSMSPayload", "payload"),
  ("hsms.connection.DeliverOwnedFrame", "frame"),
  ("secs2.DecodeOwned", "data"),
  ("secs2.DecodeOwnedFrame", "body"),
  ("wire.AdoptBody", "body"),
  ("wire.ChunkOf", "b")]

/-- **table_safe** — over the whole regenerated tables (a finite quantifier discharged by `decide`):
    1. the only rows of `returnProvenance` whose class is not fresh/clone/value/string/nil/append-param are the
       three internal/wire bridge functions — in particular no exported method of secs2 or hsms returns a
       `view:`, `via:` or `unknown:` class;
    2. the only rows of `paramRetention` that are not `copied` are exactly the documented ownership-transfer
       entry points — no copying entry point (constructors, `Decode`, `DecodeHSMSMessage`, `DecodeHSMSPayload`,
       `UnmarshalBinary`, the append helpers) retains a caller slice;
    3. each of those rows is `retained` (so none is an `unknown:` hand-off). -/
theorem table_safe :
    (Gen.returnProvenance.filter (fun r => !safeReturnClasses.contains r.2.2)).map (·.1) = internalBridgeViews ∧
    (Gen.paramRetention.filter (fun r => r.2.2 != "copied")).map (fun r => (r.1, r.2.1)) = ownershipTransfer ∧
    (Gen.paramRetention.filter (fun r => r.2.2 != "copied")).all (fun r => r.2.2 == "retained") = true := by
  decide

/-- The tables are not empty / not trivially safe: they list the accessor surface the property is about. -/
theorem table_covers :
    Gen.returnProvenance.contains ("secs2.BinaryItem.ToBinary", "0", "clone") = true ∧
    Gen.returnProvenance.contains ("secs2.ListItem.ToList", "0", "clone") = true ∧
    Gen.returnProvenance.contains ("secs2.BinaryItem.AppendTo", "0", "append-param") = true ∧
    Gen.returnProvenance.contains ("hsms.DataMessage.ToBytes", "0", "fresh") = true ∧
    Gen.returnProvenance.contains ("hsms.DataMessage.HeaderBytes", "0", "value") = true ∧
    Gen.paramRetention.contains ("secs2.NewBinaryItem", "values", "copied") = true ∧
    Gen.paramRetention.contains ("secs2.Decode", "data", "copied") = true ∧
    Gen.paramRetention.contains ("hsms.DecodeHSMSMessage", "data", "copied") = true ∧
    Gen.paramRetention.contains ("hsms.DecodeHSMSPayload", "payload", "copied") = true := by
  decide

/-- The operation kinds of the public API (everything outside the internal bridge), read off the tables,
    plus what the application itself can do. -/
def apiKinds : List Kind :=
  ((Gen.returnProvenance.filter (fun r => !internalBridgeViews.contains r.1)).map (fun r => kindOfReturnClass r.2.2)) ++
  (Gen.paramRetention.map (fun r => kindOfParamClass (ownershipTransfer.contains (r.1, r.2.1)) r.2.2)) ++
  [.callerAlloc, .callerMutate]

/-- Lifting the table to the model: every operation kind the API consists of is a safe kind. -/
theorem api_kinds_safe : apiKinds.all Kind.safe = true := by decide

/-! ## Disjointness is an invariant of every safe sequence -/

/-- **disjointness_invariant** — for EVERY sequence of operations whose kinds are the safe ones (construct-copying,
    ownership transfer, access-fresh, append-to-caller-buffer, caller allocation, caller mutation), from any state
    in which item-owned and caller-reachable regions are disjoint, they are still disjoint afterwards. -/
theorem disjointness_invariant (ops : List Op) (s : State) (h : Separated s) (hs : ∀ op ∈ ops, op.kind.safe = true) :
    Separated (run s ops) := by
  induction ops generalizing s with
  | nil => exact h
  | cons op rest ih =>
    simp only [run, List.foldl_cons]
    exact ih (step s op) (inv_step s op h (hs op (by simp))) (fun o ho => hs o (by simp [ho]))

theorem disjoint_from_init (ops : List Op) (hs : ∀ op ∈ ops, op.kind.safe = true) :
    ∀ r, r ∈ (run init ops).owned → r ∉ (run init ops).caller :=
  (disjointness_invariant ops init inv_init hs).1

/-- **observations_unchanged** — whatever safe-kind operations follow (constructions, decodes, accessor calls,
    appends into caller buffers, and ARBITRARY writes by the application to every buffer it passed in or got
    back), every region an item owned before is still owned and still holds the same bytes: every later
    observation of that item equals the earlier one. -/
theorem observations_unchanged (ops : List Op) (s : State) (h : Separated s) (hs : ∀ op ∈ ops, op.kind.safe = true)
    (r : Region) (hr : r ∈ s.owned) :
    r ∈ (run s ops).owned ∧ (run s ops).heap r = s.heap r := by
  induction ops generalizing s with
  | nil => exact ⟨hr, rfl⟩
  | cons op rest ih =>
    simp only [run, List.foldl_cons]
    have hop := hs op (by simp)
    have := ih (step s op) (inv_step s op h hop) (fun o ho => hs o (by simp [ho])) (owned_step s op r hr)
    exact ⟨this.1, this.2.trans (heap_step s op h hop r hr)⟩

/-- The same for an item created anywhere in the middle of a history: split the history at the point of the
    earlier observation. -/
theorem later_observation_equals_earlier (before after : List Op)
    (hb : ∀ op ∈ before, op.kind.safe = true) (ha : ∀ op ∈ after, op.kind.safe = true)
    (r : Region) (hr : r ∈ (run init before).owned) :
    (run init (before ++ after)).heap r = (run init before).heap r := by
  have : run init (before ++ after) = run (run init before) after := by simp [run, List.foldl_append]
  rw [this]
  exact (observations_unchanged after _ (disjointness_invariant before init inv_init hb) ha r hr).2

/-- Stated against the regenerated tables: any history made of API calls whose kinds are those the tables assign
    (and of application-side allocations and writes) leaves every earlier observation unchanged. -/
theorem api_observations_unchanged (before after : List Op)
    (hb : ∀ op ∈ before, op.kind ∈ apiKinds) (ha : ∀ op ∈ after, op.kind ∈ apiKinds)
    (r : Region) (hr : r ∈ (run init before).owned) :
    (run init (before ++ after)).heap r = (run init before).heap r := by
  have hsafe : ∀ k ∈ apiKinds, k.safe = true := List.all_eq_true.mp api_kinds_safe
  exact later_observation_equals_earlier before after (fun o ho => hsafe _ (hb o ho)) (fun o ho => hsafe _ (ha o ho)) r hr

/-! ## The two excluded kinds really are unsafe (so `table_safe` is not vacuous about them) -/

/-- An accessor returning item storage (a `view:` class — e.g. `ToBinary` returning `item.values`):
    the application writes through the result and the item's observation changes. -/
theorem view_breaks_immutability :
    let ops := [Op.callerAlloc [1, 2, 3], .constructCopy 0, .accessView 1]
    observe (run init ops) = [(1, [1, 2, 3])] ∧
    observe (run init (ops ++ [.callerMutate 1 0 9])) = [(1, [9, 2, 3])] := by
  decide

/-- A constructor keeping the caller's slice without a transfer contract (`NewBinaryItem` keeping `v`, `Decode`
    without its `bytes.Clone`): the application reuses its buffer and the item's observation changes. -/
theorem retain_breaks_immutability :
    let ops := [Op.callerAlloc [1, 2, 3], .constructRetain 0]
    observe (run init ops) = [(0, [1, 2, 3])] ∧
    observe (run init (ops ++ [.callerMutate 0 2 7])) = [(0, [1, 2, 7])] := by
  decide

/-! ## Lazy decode / encode happens at most once and yields one value -/

open Ownership.Once in
/-- **lazy_once** — for every interleaving (`sched` = which goroutine moves next, any length, any number of
    goroutines; re-stamped / derived copies share the cell pointer, so they are just more callers) of first calls
    of a lazily memoized path: the memo function ran at most once, the cell — once set — holds `f body` for the
    immutable body, and every caller that has finished obtained exactly that value. -/
theorem lazy_once {B V : Type} (f : B → V) (b : B) (sched : List Nat) :
    let c := Once.run f (Once.init b) sched
    c.computations ≤ 1 ∧
    (∀ v, c.cell = some v → v = f b) ∧
    (∀ g v, c.gs g = .got v → v = some (f b)) := by
  have h := Ownership.LazyOnce.J_run f b sched _ (Ownership.LazyOnce.J_init f b)
  obtain ⟨_, h⟩ := h
  intro c
  cases ho : c.once with
  | idle =>
    have h' : c.cell = none ∧ c.computations = 0 ∧ ∀ i, c.gs i = .want := by
      have := h; rw [show (Once.run f (Once.init b) sched).once = c.once from rfl, ho] at this; exact this
    refine ⟨by omega, ?_, ?_⟩
    · intro v hv; rw [h'.1] at hv; cases hv
    · intro g v hg; rw [h'.2.2 g] at hg; cases hg
  | running o =>
    have h' : c.cell = none ∧ c.computations = 0 ∧ c.gs o = .inF ∧ ∀ i, i ≠ o → c.gs i = .want := by
      have := h; rw [show (Once.run f (Once.init b) sched).once = c.once from rfl, ho] at this; exact this
    refine ⟨by omega, ?_, ?_⟩
    · intro v hv; rw [h'.1] at hv; cases hv
    · intro g v hg
      by_cases e : g = o
      · subst e; rw [h'.2.2.1] at hg; cases hg
      · rw [h'.2.2.2 g e] at hg; cases hg
  | done =>
    have h' : c.cell = some (f b) ∧ c.computations = 1 ∧
        ∀ i, c.gs i ≠ .inF ∧ ∀ v, c.gs i = .got v → v = some (f b) := by
      have := h; rw [show (Once.run f (Once.init b) sched).once = c.once from rfl, ho] at this; exact this
    refine ⟨by omega, ?_, ?_⟩
    · intro v hv; rw [h'.1] at hv; cases hv; rfl
    · intro g v hg; exact (h'.2.2 g).2 v hg

open Ownership.Once in
/-- The memo is a function of a body that no step of any goroutine changes. -/
theorem lazy_once_body_immutable {B V : Type} (f : B → V) (b : B) (sched : List Nat) :
    (Once.run f (Once.init b) sched).body = b :=
  (Ownership.LazyOnce.J_run f b sched _ (Ownership.LazyOnce.J_init f b)).1

/-! ## Non-vacuity -/

/-- A history using every safe kind — the application allocates, constructs by copy, transfers a second buffer,
    reads a fresh copy, appends into its own buffer and then scribbles over everything it can reach — satisfies the
    hypotheses, and both items still read what they read when they were built. -/
example :
    let ops := [Op.callerAlloc [1, 2, 3], .constructCopy 0, .callerAlloc [7, 7], .constructTransfer 2,
                .accessFresh 1, .appendTo 2 0, .callerMutate 0 0 9, .callerMutate 3 1 9, .callerMutate 2 0 9]
    (∀ op ∈ ops, op.kind.safe = true) ∧
    observe (run init ops) = [(2, [7, 7]), (1, [1, 2, 3])] ∧
    (run init ops).heap 0 = [9, 2, 3, 7, 7] ∧ (run init ops).heap 3 = [1, 9, 3] := by
  decide

open Ownership.Once in
/-- Three goroutines racing on first `Item()` calls, goroutine 1 winning the Once while 0 and 2 block and retry:
    one computation, all three read the same value. -/
example :
    let c := Once.run (fun (b : Nat) => b + 1) (Once.init 41) [1, 0, 2, 0, 1, 2, 0, 1, 2, 0, 2]
    c.computations = 1 ∧ c.cell = some 42 ∧
    c.gs 0 = .got (some 42) ∧ c.gs 1 = .got (some 42) ∧ c.gs 2 = .got (some 42) := by
  decide

end GoSecs.Props.C12
