/-
  C09 — nothing crosses TCP connection generations: no stale frame, no stale reply.

  Property theorems only; model GoSecs/Model/Router.lean (epochs with identity: `Cfg.ep e` = context cancelled /
  socket open / goroutines joined; a send pins the epoch it loaded from `c.cur`; `writeFrame` = `wcheck` (capture
  the pinned epoch's conn, ctx check, gate) then `write` (on the captured conn); per-epoch reply registry
  `Cfg.reg e`; per-epoch async queue `Cfg.queue e`; `teardown e` = cancel + closeSocket, `join e` = e.done).
  The wire log `Cfg.wire` records for every accepted frame the epoch whose socket carried it (`sock`).

  MODELLING ASSUMPTION (stated, see DESIGN §5 C09 "Partial"): `join e` is a full join of generation e's receive
  goroutine, and a new generation is published only after it (`publish` requires the current epoch joined).
  The code bounds that join by the close timeout and abandons a receive goroutine wedged in an application handler;
  the model does not cover a receive goroutine that is descheduled for longer than the close timeout between reading
  a frame and routing it.  "Promptly" is measured by the harness, not proved.
-/
import GoSecs.Lemmas.RouterEpoch
import GoSecs.Lemmas.RouterOwn

namespace GoSecs.Props.C09
open GoSecs GoSecs.Router

/-! ## The property -/

/-- **A write lands on the pinned epoch's own socket**: every frame on the wire was carried by the socket of the
    epoch its sender had loaded when the send call was accepted — never a later generation's. -/
theorem write_lands_on_pinned_epoch (c : Cfg) (hr : Reachable c) (ev : WireEv) (h : ev ∈ c.wire) :
    ev.sock = (c.s ev.src).ep :=
  ((inv_reachable hr).wire ev h).1

/-- a queued (async) frame too is written on the socket of the generation whose queue accepted it -/
theorem queued_frame_belongs_to_its_epoch (c : Cfg) (hr : Reachable c) (e i : Nat) (h : i ∈ c.queue e) :
    (c.s i).ep = e ∧ (c.s i).pc = .done :=
  ⟨((inv_reachable hr).queue e i h).2.2, ((inv_reachable hr).queue e i h).2.1⟩

/-- once a generation is torn down nothing is ever written on its socket again -/
theorem no_write_after_teardown (c : Cfg) (hr : Reachable c) (e : Nat) (h : (c.ep e).ctxDone = true) (as : List Action) :
    (run c as).wire.filter (onSock e) = c.wire.filter (onSock e) :=
  wire_frozen_run e as c (inv_reachable hr) h

/-- **A reply completes only a send of the same epoch** (routing): whenever a frame hits a sender's channel (or is
    discarded as that transaction's duplicate), the receive loop that read it belongs to, and the registry it was
    looked up in is that of, the epoch the sender pinned. -/
theorem reply_completes_same_epoch_only (c : Cfg) (hr : Reachable c) (d : Deliv) (hd : d ∈ c.deliv) (i : Nat)
    (hi : d.to.hit = some i) : d.ep = (c.s i).ep ∧ d.reg = some (c.s i).ep := by
  obtain ⟨h1, h2, _, _⟩ := (inv_reachable hr).deliv d hd i hi
  exact ⟨h2, h1⟩

/-- ... and (result): whatever a call returns from the peer — reply, reject, control message, (nil, nil) — came
    through a delivery record of a frame read by the receive loop of the epoch the call pinned. -/
theorem returned_reply_was_read_on_pinned_epoch (c : Cfg) (hr : Reachable c) (i : Nat) (o : Outcome)
    (ho : (c.s i).out = some o) (hf : o.fromPeer = true) :
    ∃ d r, d ∈ c.deliv ∧ d.to.hit = some i ∧ d.ep = (c.s i).ep ∧ o = outcomeOfRes (c.s i).kind r ∧
      ∃ sb, d.frame.offer = some (sb, r) := by
  obtain ⟨r, h1, d, hd, h2, h3⟩ := (link_reachable hr i).out o ho hf
  exact ⟨d, r, hd, h2, (reply_completes_same_epoch_only c hr d hd i h2).1, h1, h3⟩

/-- at most one generation has a live receive loop, and it is the current one: a frame can only be routed into the
    registry of the generation it was read on -/
theorem only_current_epoch_receives (c : Cfg) (hr : Reachable c) (e : Nat) (f : Frame) (h : enabled c (.recv e f) = true) :
    c.cur = some e := by
  simp only [enabled, Bool.and_eq_true, decide_eq_true_eq, Bool.not_eq_true'] at h
  exact (inv_reachable hr).epoch.alive e h.1 h.2

/-- **Teardown releases every waiter of that epoch**: a sender parked in the reply wait of a torn-down epoch has
    the connection-closed branch enabled ... -/
theorem teardown_releases_waiters (c : Cfg) (i : Nat) (hw : (c.s i).pc = .waiting)
    (ht : (c.ep (c.s i).ep).ctxDone = true) : enabled c (.decide i .closed) = true := by
  simp [enabled, hw, ht]

/-- ... and taking it, then the two deferred calls, completes the call with connection-closed, leaves the in-flight
    gauge where it was before the send and the registry slot free — whatever else is going on. -/
theorem released_waiter_returns_closed (c : Cfg) (i : Nat) (hw : (c.s i).pc = .waiting)
    (ht : (c.ep (c.s i).ep).ctxDone = true) :
    let c' := run c [.decide i .closed, .decInflight i, .deregister i]
    (c'.s i).pc = .done ∧ (c'.s i).out = some .closed ∧ c'.reg (c.s i).ep (c.s i).sb = none ∧
      c'.m.inflight = c.m.inflight - (b2n ((c.s i).kind = .sync) : Nat) := by
  simp only [run, step, enabled, hw, ht, apply, setS, Sender.afterDecide, upd_same, decide_true, Bool.and_self, if_true,
    upd2_apply, and_self, b2n]

/-! ### the generation is REPLACED while a sender sits between its write and its wait

  `sendWaitReply` writes (Pc `written`), then increments the gauge and enters the four-way wait (Pc `waiting`).
  Nothing ties a sender at `written` to the present: by the time it enters the wait, the epoch it pinned may have been
  torn down, joined, and one or more later epochs published, brought up and selected.  The teardown arm of the wait
  must therefore read the PINNED epoch's context (`(c.ep (c.s i).ep).ctxDone`), never "the current epoch's"
  (`c.cur`).  (Harness: harness/c09_stale.go holds a real sender at exactly this point through the trace logger and
  replays the recorded history with the sender kept at `written` across `teardown`/`join`/`publish`.) -/

/-- the teardown arm of the reply wait is enabled exactly when the sender waits and the epoch IT PINNED is torn down ... -/
theorem closed_branch_iff_pinned_epoch_done (c : Cfg) (i : Nat) :
    enabled c (.decide i .closed) = true ↔ (c.s i).pc = .waiting ∧ (c.ep (c.s i).ep).ctxDone = true := by
  simp [enabled]

/-- ... whatever the current epoch is: `c.cur` (a later, live generation; or none) neither enables nor holds it -/
theorem closed_branch_ignores_current_epoch (c : Cfg) (i : Nat) (cur' : Option Nat) :
    enabled { c with cur := cur' } (.decide i .closed) = enabled c (.decide i .closed) := rfl

/-- a started sender keeps the epoch it pinned, and never moves backwards, whatever else happens -/
theorem pinned_epoch_stable_run (i : Nat) : ∀ (as : List Action) (c : Cfg), (c.s i).pc ≠ .new → (c.s i).pc ≠ .begun →
    ((run c as).s i).ep = (c.s i).ep ∧ (c.s i).pc.rank ≤ ((run c as).s i).pc.rank
  | [], _, _, _ => ⟨rfl, Nat.le_refl _⟩
  | a :: as, c, h1, h2 => by
    have hs : ((step c a).s i).ep = (c.s i).ep ∧ (c.s i).pc.rank ≤ ((step c a).s i).pc.rank := by
      unfold step
      split
      · rename_i he
        obtain ⟨s1, _, s3⟩ := apply_sender_stable c a he i
        exact ⟨s3 h1 h2, s1⟩
      · exact ⟨rfl, Nat.le_refl _⟩
    have hr : 2 ≤ (c.s i).pc.rank := by cases hp : (c.s i).pc <;> simp_all [Pc.rank]
    have h1' : ((step c a).s i).pc ≠ .new := by
      intro hn
      have h0 := hs.2
      rw [hn] at h0
      have : Pc.rank .new = 0 := rfl
      omega
    have h2' : ((step c a).s i).pc ≠ .begun := by
      intro hn
      have h0 := hs.2
      rw [hn] at h0
      have : Pc.rank .begun = 1 := rfl
      omega
    obtain ⟨r1, r2⟩ := pinned_epoch_stable_run i as (step c a) h1' h2'
    exact ⟨by rw [run, r1, hs.1], by rw [run]; exact Nat.le_trans hs.2 r2⟩

/-- **A sender whose generation ended between its write and its wait is released by THAT generation's end**, after any
    continuation `as` (later epochs published, connected, selected, used by other senders; this sender's own next
    step): as long as it has not decided yet, it either still sits at `written` — the increment is enabled and leads
    into a wait whose connection-closed branch is enabled — or it waits, with the connection-closed branch enabled. -/
theorem stale_sender_released_across_generations (c : Cfg) (i : Nat) (hw : (c.s i).pc = .written)
    (ht : (c.ep (c.s i).ep).ctxDone = true) (as : List Action) :
    (((run c as).s i).pc = .written →
        enabled (run c as) (.incInflight i) = true ∧ enabled (step (run c as) (.incInflight i)) (.decide i .closed) = true) ∧
    (((run c as).s i).pc = .waiting → enabled (run c as) (.decide i .closed) = true) := by
  obtain ⟨he, _⟩ := pinned_epoch_stable_run i as c (by simp [hw]) (by simp [hw])
  have hd : ((run c as).ep ((run c as).s i).ep).ctxDone = true := by rw [he]; exact ctxDone_run _ as c ht
  refine ⟨fun hp => ?_, fun hp => by simp [enabled, hp, hd]⟩
  have h1 : enabled (run c as) (.incInflight i) = true := by simp [enabled, hp]
  refine ⟨h1, ?_⟩
  have hs : ((apply (run c as) (.incInflight i)).s i).pc = .waiting ∧
      ((apply (run c as) (.incInflight i)).s i).ep = ((run c as).s i).ep ∧
      (apply (run c as) (.incInflight i)).ep = (run c as).ep := by simp [apply, setS]
  have hst : step (run c as) (.incInflight i) = apply (run c as) (.incInflight i) := by
    unfold step; rw [if_pos h1]
  rw [hst]
  simp [enabled, hs.1, hs.2.1, hs.2.2, hd]

/-- ... and from `written` its four own steps (increment, connection-closed branch, the two deferred calls) complete
    the call with connection-closed, the gauge back where it was and the registry slot of ITS epoch free. -/
theorem written_sender_of_ended_generation_returns_closed (c : Cfg) (i : Nat) (hw : (c.s i).pc = .written)
    (ht : (c.ep (c.s i).ep).ctxDone = true) :
    let c' := run c [.incInflight i, .decide i .closed, .decInflight i, .deregister i]
    (c'.s i).pc = .done ∧ (c'.s i).out = some .closed ∧ c'.reg (c.s i).ep (c.s i).sb = none ∧ c'.m.inflight = c.m.inflight := by
  simp only [run, step, enabled, hw, ht, apply, setS, Sender.afterDecide, upd_same, decide_true, Bool.and_self, if_true,
    upd2_apply, and_self, b2n, true_and]
  split <;> simp <;> omega

/-- nothing else a sender of a torn-down epoch does can block or reach the wire: the pre-write check answers
    connection-closed, a write that had already passed the check fails -/
theorem torn_down_epoch_refuses_writes (c : Cfg) (hr : Reachable c) (e : Nat) (h : (c.ep e).ctxDone = true) :
    (∀ d, checkRes c e d = .closed) ∧ (∀ ok, xmitRes c e ok = .err) ∧ (∀ ok, drainRes c e ok ≠ .ok) :=
  ⟨fun d => check_closed c (inv_reachable hr).epoch e d h, fun ok => xmit_err c (inv_reachable hr).epoch e ok h,
   fun ok => drain_not_ok c (inv_reachable hr).epoch e ok h⟩

/-- every step of a sender that has started and not returned, other than the reply wait itself, is enabled on its own
    (no lock or channel it needs can be held by anyone else in the model): it cannot be blocked -/
theorem sender_never_blocked (c : Cfg) (i : Nat) (h : (c.s i).isOpen) (hw : (c.s i).pc ≠ .waiting)
    (hr : Reachable c) : ∃ a w, enabled c a = true ∧ touched c a = some (i, w) := by
  have hp := (inv_reachable hr).pc i
  cases hpc : (c.s i).pc
  case new => exact absurd hpc h.1
  case done => exact absurd hpc h.2
  case waiting => exact absurd hpc hw
  case begun => exact ⟨.pin i, _, by simp [enabled, hpc], rfl⟩
  case pinned => exact ⟨.gate i, _, by simp [enabled, hpc], rfl⟩
  case registered => exact ⟨.wcheck i, _, by simp [enabled, hpc, hp.corr (Or.inl hpc)], rfl⟩
  case checked => exact ⟨.write i true, _, by simp [enabled, hpc], rfl⟩
  case written => exact ⟨.incInflight i, _, by simp [enabled, hpc], rfl⟩
  case decided => exact ⟨.decInflight i, _, by simp [enabled, hpc], rfl⟩
  case unwinding => exact ⟨.deregister i, _, by simp [enabled, hpc], rfl⟩
  case gated =>
    cases hk : (c.s i).kind
    · exact ⟨.register i, _, by simp [enabled, hpc, hk, Kind.correlates], rfl⟩
    · exact ⟨.wcheck i, _, by simp [enabled, hpc, hk], rfl⟩
    · exact ⟨.enqueue i .recv, _, by simp [enabled, hpc, hk], rfl⟩
    · exact ⟨.register i, _, by simp [enabled, hpc, hk, Kind.correlates], rfl⟩

/-- **Queued fire-and-forget messages of a dead generation are discarded, not flushed later**: once epoch e is torn
    down, a message still sitting in its queue never appears on any wire — not e's (nothing is written there any
    more) and not a later generation's (it could only ever be written on e's socket). -/
theorem queued_async_never_flushed_later (c : Cfg) (hr : Reachable c) (e i : Nat) (hq : i ∈ c.queue e)
    (ht : (c.ep e).ctxDone = true) (as : List Action) (ev : WireEv) (hev : ev ∈ (run c as).wire) (hsrc : ev.src = i) :
    ev ∈ c.wire := by
  have hinv := inv_reachable hr
  obtain ⟨_, q2, q3⟩ := hinv.queue e i hq
  have hr' : Reachable (run c as) := by
    obtain ⟨bs, rfl⟩ := hr
    exact ⟨bs ++ as, by rw [run_append]⟩
  have hsock : ev.sock = e := by
    have := ((inv_reachable hr').wire ev hev).1
    rw [hsrc, (done_stable_run i as c q2).2, q3] at this
    exact this
  have hmem : ev ∈ (run c as).wire.filter (onSock e) := by
    rw [List.mem_filter]; exact ⟨hev, by simp [onSock, hsock]⟩
  rw [wire_frozen_run e as c hinv ht] at hmem
  exact (List.mem_filter.mp hmem).1

/-- the drain goroutine of a torn-down epoch writes nothing (the step itself) -/
theorem drain_after_teardown_writes_nothing (c : Cfg) (hr : Reachable c) (e : Nat) (ok : Bool)
    (ht : (c.ep e).ctxDone = true) : (step c (.drain e ok)).wire = c.wire := by
  unfold step
  split
  · rw [apply_wire]
    simp only
    cases hq : c.queue e with
    | nil => rfl
    | cons i rest => simp [drain_not_ok c (inv_reachable hr).epoch e ok ht]
  · rfl

/-! ## Non-vacuity: two generations, a waiter and a queued async message stranded by the teardown of the first -/
def sampleTrace : List Action :=
  [.publish, .connUp, .setSelected true, .begin 0 .sync, .begin 1 .async, .pin 0, .pin 1, .gate 0, .gate 1, .register 0,
   .wcheck 0, .write 0 true, .incInflight 0, .enqueue 1 .recv, .setSelected false, .teardown 0]

example : Reachable (run init sampleTrace) ∧ ((run init sampleTrace).ep 0).ctxDone = true ∧
    ((run init sampleTrace).s 0).pc = .waiting ∧ 1 ∈ (run init sampleTrace).queue 0 := by
  refine ⟨⟨_, rfl⟩, by decide, by decide, by decide⟩

/-! ## Non-vacuity of the replaced-generation theorems: sender 0 wrote on epoch 0; epoch 0 was torn down and joined, epoch 1
    published, connected and selected (and used by sender 1) while sender 0 still sits at `written` -/
def staleTrace : List Action :=
  [.publish, .connUp, .setSelected true, .begin 0 .sync, .pin 0, .gate 0, .register 0, .wcheck 0, .write 0 true,
   .setSelected false, .teardown 0, .join 0, .publish, .connUp, .setSelected true,
   .begin 1 .sync, .pin 1, .gate 1, .register 1, .wcheck 1, .write 1 true, .incInflight 1]

example : Reachable (run init staleTrace) ∧ ((run init staleTrace).s 0).pc = .written ∧ ((run init staleTrace).s 0).ep = 0 ∧
    ((run init staleTrace).ep 0).ctxDone = true ∧ (run init staleTrace).cur = some 1 ∧ ((run init staleTrace).ep 1).ctxDone = false ∧
    (run init staleTrace).selected = true ∧
    ((run (run init staleTrace) [.incInflight 0, .decide 0 .closed, .decInflight 0, .deregister 0]).s 0).out = some .closed := by
  refine ⟨⟨_, rfl⟩, by decide, by decide, by decide, by decide, by decide, by decide, by decide⟩

end GoSecs.Props.C09
