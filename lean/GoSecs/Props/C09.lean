/-
  C09 — nothing crosses TCP connection generations: no stale frame, no stale reply.

  Property theorems only; model GoSecs/Model/Router.lean (epochs with identity: `Cfg.ep e` = context cancelled /
  socket open / goroutines joined; a send pins the epoch it loaded from `c.cur`; `writeFrame` = `wcheck` (capture
  the pinned epoch's conn, ctx check, gate) then `write` (on the captured conn); per-epoch reply registry
  `Cfg.reg e`; per-epoch async queue `Cfg.queue e`; `teardown e` = cancel + closeSocket, `join e` = e.done).
  The wire log `Cfg.wire` records for every accepted frame the epoch whose socket carried it (`sock`).

  MODELLING ASSUMPTION (stated, see DESIGN §5 C09 "Partial"): `join e` is a full join of generation e's receive
  goroutine, and a new generation is published only after it (`publish` requires the current epoch joined).
  The code bounds that join by the close timeout and abandons a receive goroutine wedged in an application handler;
  the model does not cover a receive goroutine that is descheduled for longer than the close timeout between reading
  a frame and routing it.  "Promptly" is measured by the harness, not proved.
-/
import GoSecs.Lemmas.RouterEpoch
import GoSecs.Lemmas.RouterOwn
import GoSecs.Lemmas.Secs1Transport

namespace GoSecs.Props.C09
open GoSecs GoSecs.Router

/-! ## The property -/

/-- **A write lands on the pinned epoch's own socket**: every frame on the wire was carried by the socket of the
    epoch its sender had loaded when the send call was accepted — never a later generation's. -/
theorem write_lands_on_pinned_epoch (c : Cfg) (hr : Reachable c) (ev : WireEv) (h : ev ∈ c.wire) :
    ev.sock = (c.s ev.src).ep :=
  ((inv_reachable hr).wire ev h).1

/-- a queued (async) frame too is written on the socket of the generation whose queue accepted it -/
theorem queued_frame_belongs_to_its_epoch (c : Cfg) (hr : Reachable c) (e i : Nat) (h : i ∈ c.queue e) :
    (c.s i).ep = e ∧ (c.s i).pc = .done :=
  ⟨((inv_reachable hr).queue e i h).2.2, ((inv_reachable hr).queue e i h).2.1⟩

/-- once a generation is torn down nothing is ever written on its socket again -/
theorem no_write_after_teardown (c : Cfg) (hr : Reachable c) (e : Nat) (h : (c.ep e).ctxDone = true) (as : List Action) :
    (run c as).wire.filter (onSock e) = c.wire.filter (onSock e) :=
  wire_frozen_run e as c (inv_reachable hr) h

/-- **A reply completes only a send of the same epoch** (routing): whenever a frame hits a sender's channel (or is
    discarded as that transaction's duplicate), the receive loop that read it belongs to, and the registry it was
    looked up in is that of, the epoch the sender pinned. -/
theorem reply_completes_same_epoch_only (c : Cfg) (hr : Reachable c) (d : Deliv) (hd : d ∈ c.deliv) (i : Nat)
    (hi : d.to.hit = some i) : d.ep = (c.s i).ep ∧ d.reg = some (c.s i).ep := by
  obtain ⟨h1, h2, _, _⟩ := (inv_reachable hr).deliv d hd i hi
  exact ⟨h2, h1⟩

/-- ... and (result): whatever a call returns from the peer — reply, reject, control message, (nil, nil) — came
    through a delivery record of a frame read by the receive loop of the epoch the call pinned. -/
theorem returned_reply_was_read_on_pinned_epoch (c : Cfg) (hr : Reachable c) (i : Nat) (o : Outcome)
    (ho : (c.s i).out = some o) (hf : o.fromPeer = true) :
    ∃ d r, d ∈ c.deliv ∧ d.to.hit = some i ∧ d.ep = (c.s i).ep ∧ o = outcomeOfRes (c.s i).kind r ∧
      ∃ sb, d.frame.offer = some (sb, r) := by
  obtain ⟨r, h1, d, hd, h2, h3⟩ := (link_reachable hr i).out o ho hf
  exact ⟨d, r, hd, h2, (reply_completes_same_epoch_only c hr d hd i h2).1, h1, h3⟩

/-- at most one generation has a live receive loop, and it is the current one: a frame can only be routed into the
    registry of the generation it was read on -/
theorem only_current_epoch_receives (c : Cfg) (hr : Reachable c) (e : Nat) (f : Frame) (h : enabled c (.recv e f) = true) :
    c.cur = some e := by
  simp only [enabled, Bool.and_eq_true, decide_eq_true_eq, Bool.not_eq_true'] at h
  exact (inv_reachable hr).epoch.alive e h.1 h.2

/-- **Teardown releases every waiter of that epoch**: a sender parked in the reply wait of a torn-down epoch has
    the connection-closed branch enabled ... -/
theorem teardown_releases_waiters (c : Cfg) (i : Nat) (hw : (c.s i).pc = .waiting)
    (ht : (c.ep (c.s i).ep).ctxDone = true) : enabled c (.decide i .closed) = true := by
  simp [enabled, hw, ht]

/-- ... and taking it, then the two deferred calls, completes the call with connection-closed, leaves the in-flight
    gauge where it was before the send and the registry slot free — whatever else is going on. -/
theorem released_waiter_returns_closed (c : Cfg) (i : Nat) (hw : (c.s i).pc = .waiting)
    (ht : (c.ep (c.s i).ep).ctxDone = true) :
    let c' := run c [.decide i .closed, .decInflight i, .deregister i]
    (c'.s i).pc = .done ∧ (c'.s i).out = some .closed ∧ c'.reg (c.s i).ep (c.s i).sb = none ∧
      c'.m.inflight = c.m.inflight - (b2n ((c.s i).kind = .sync) : Nat) := by
  simp only [run, step, enabled, hw, ht, apply, setS, Sender.afterDecide, upd_same, decide_true, Bool.and_self, if_true,
    upd2_apply, and_self, b2n]

/-! ### the generation is REPLACED while a sender sits between its write and its wait

  `sendWaitReply` writes (Pc `written`), then increments the gauge and enters the four-way wait (Pc `waiting`).
  Nothing ties a sender at `written` to the present: by the time it enters the wait, the epoch it pinned may have been
  torn down, joined, and one or more later epochs published, brought up and selected.  The teardown arm of the wait
  must therefore read the PINNED epoch's context (`(c.ep (c.s i).ep).ctxDone`), never "the current epoch's"
  (`c.cur`).  (Harness: harness/c09_stale.go holds a real sender at exactly this point through the trace logger and
  replays the recorded history with the sender kept at `written` across `teardown`/`join`/`publish`.) -/

/-- the teardown arm of the reply wait is enabled exactly when the sender waits and the epoch IT PINNED is torn down ... -/
theorem closed_branch_iff_pinned_epoch_done (c : Cfg) (i : Nat) :
    enabled c (.decide i .closed) = true ↔ (c.s i).pc = .waiting ∧ (c.ep (c.s i).ep).ctxDone = true := by
  simp [enabled]

/-- ... whatever the current epoch is: `c.cur` (a later, live generation; or none) neither enables nor holds it -/
theorem closed_branch_ignores_current_epoch (c : Cfg) (i : Nat) (cur' : Option Nat) :
    enabled { c with cur := cur' } (.decide i .closed) = enabled c (.decide i .closed) := rfl

/-- a started sender keeps the epoch it pinned, and never moves backwards, whatever else happens -/
theorem pinned_epoch_stable_run (i : Nat) : ∀ (as : List Action) (c : Cfg), (c.s i).pc ≠ .new → (c.s i).pc ≠ .begun →
    ((run c as).s i).ep = (c.s i).ep ∧ (c.s i).pc.rank ≤ ((run c as).s i).pc.rank
  | [], _, _, _ => ⟨rfl, Nat.le_refl _⟩
  | a :: as, c, h1, h2 => by
    have hs : ((step c a).s i).ep = (c.s i).ep ∧ (c.s i).pc.rank ≤ ((step c a).s i).pc.rank := by
      unfold step
      split
      · rename_i he
        obtain ⟨s1, _, s3⟩ := apply_sender_stable c a he i
        exact ⟨s3 h1 h2, s1⟩
      · exact ⟨rfl, Nat.le_refl _⟩
    have hr : 2 ≤ (c.s i).pc.rank := by cases hp : (c.s i).pc <;> simp_all [Pc.rank]
    have h1' : ((step c a).s i).pc ≠ .new := by
      intro hn
      have h0 := hs.2
      rw [hn] at h0
      have : Pc.rank .new = 0 := rfl
      omega
    have h2' : ((step c a).s i).pc ≠ .begun := by
      intro hn
      have h0 := hs.2
      rw [hn] at h0
      have : Pc.rank .begun = 1 := rfl
      omega
    obtain ⟨r1, r2⟩ := pinned_epoch_stable_run i as (step c a) h1' h2'
    exact ⟨by rw [run, r1, hs.1], by rw [run]; exact Nat.le_trans hs.2 r2⟩

/-- **A sender whose generation ended between its write and its wait is released by THAT generation's end**, after any
    continuation `as` (later epochs published, connected, selected, used by other senders; this sender's own next
    step): as long as it has not decided yet, it either still sits at `written` — the increment is enabled and leads
    into a wait whose connection-closed branch is enabled — or it waits, with the connection-closed branch enabled. -/
theorem stale_sender_released_across_generations (c : Cfg) (i : Nat) (hw : (c.s i).pc = .written)
    (ht : (c.ep (c.s i).ep).ctxDone = true) (as : List Action) :
    (((run c as).s i).pc = .written →
        enabled (run c as) (.incInflight i) = true ∧ enabled (step (run c as) (.incInflight i)) (.decide i .closed) = true) ∧
    (((run c as).s i).pc = .waiting → enabled (run c as) (.decide i .closed) = true) := by
  obtain ⟨he, _⟩ := pinned_epoch_stable_run i as c (by simp [hw]) (by simp [hw])
  have hd : ((run c as).ep ((run c as).s i).ep).ctxDone = true := by rw [he]; exact ctxDone_run _ as c ht
  refine ⟨fun hp => ?_, fun hp => by simp [enabled, hp, hd]⟩
  have h1 : enabled (run c as) (.incInflight i) = true := by simp [enabled, hp]
  refine ⟨h1, ?_⟩
  have hs : ((apply (run c as) (.incInflight i)).s i).pc = .waiting ∧
      ((apply (run c as) (.incInflight i)).s i).ep = ((run c as).s i).ep ∧
      (apply (run c as) (.incInflight i)).ep = (run c as).ep := by simp [apply, setS]
  have hst : step (run c as) (.incInflight i) = apply (run c as) (.incInflight i) := by
    unfold step; rw [if_pos h1]
  rw [hst]
  simp [enabled, hs.1, hs.2.1, hs.2.2, hd]

/-- ... and from `written` its four own steps (increment, connection-closed branch, the two deferred calls) complete
    the call with connection-closed, the gauge back where it was and the registry slot of ITS epoch free. -/
theorem written_sender_of_ended_generation_returns_closed (c : Cfg) (i : Nat) (hw : (c.s i).pc = .written)
    (ht : (c.ep (c.s i).ep).ctxDone = true) :
    let c' := run c [.incInflight i, .decide i .closed, .decInflight i, .deregister i]
    (c'.s i).pc = .done ∧ (c'.s i).out = some .closed ∧ c'.reg (c.s i).ep (c.s i).sb = none ∧ c'.m.inflight = c.m.inflight := by
  simp only [run, step, enabled, hw, ht, apply, setS, Sender.afterDecide, upd_same, decide_true, Bool.and_self, if_true,
    upd2_apply, and_self, b2n, true_and]
  split <;> simp <;> omega

/-- nothing else a sender of a torn-down epoch does can block or reach the wire: the pre-write check answers
    connection-closed, a write that had already passed the check fails -/
theorem torn_down_epoch_refuses_writes (c : Cfg) (hr : Reachable c) (e : Nat) (h : (c.ep e).ctxDone = true) :
    (∀ d, checkRes c e d = .closed) ∧ (∀ ok, xmitRes c e ok = .err) ∧ (∀ ok, drainRes c e ok ≠ .ok) :=
  ⟨fun d => check_closed c (inv_reachable hr).epoch e d h, fun ok => xmit_err c (inv_reachable hr).epoch e ok h,
   fun ok => drain_not_ok c (inv_reachable hr).epoch e ok h⟩

/-- every step of a sender that has started and not returned, other than the reply wait itself, is enabled on its own
    (no lock or channel it needs can be held by anyone else in the model): it cannot be blocked -/
theorem sender_never_blocked (c : Cfg) (i : Nat) (h : (c.s i).isOpen) (hw : (c.s i).pc ≠ .waiting)
    (hr : Reachable c) : ∃ a w, enabled c a = true ∧ touched c a = some (i, w) := by
  have hp := (inv_reachable hr).pc i
  cases hpc : (c.s i).pc
  case new => exact absurd hpc h.1
  case done => exact absurd hpc h.2
  case waiting => exact absurd hpc hw
  case begun => exact ⟨.pin i, _, by simp [enabled, hpc], rfl⟩
  case pinned => exact ⟨.gate i, _, by simp [enabled, hpc], rfl⟩
  case registered => exact ⟨.wcheck i, _, by simp [enabled, hpc, hp.corr (Or.inl hpc)], rfl⟩
  case checked => exact ⟨.write i true, _, by simp [enabled, hpc], rfl⟩
  case written => exact ⟨.incInflight i, _, by simp [enabled, hpc], rfl⟩
  case decided => exact ⟨.decInflight i, _, by simp [enabled, hpc], rfl⟩
  case unwinding => exact ⟨.deregister i, _, by simp [enabled, hpc], rfl⟩
  case gated =>
    cases hk : (c.s i).kind
    · exact ⟨.register i, _, by simp [enabled, hpc, hk, Kind.correlates], rfl⟩
    · exact ⟨.wcheck i, _, by simp [enabled, hpc, hk], rfl⟩
    · exact ⟨.enqueue i .recv, _, by simp [enabled, hpc, hk], rfl⟩
    · exact ⟨.register i, _, by simp [enabled, hpc, hk, Kind.correlates], rfl⟩

/-- **Queued fire-and-forget messages of a dead generation are discarded, not flushed later**: once epoch e is torn
    down, a message still sitting in its queue never appears on any wire — not e's (nothing is written there any
    more) and not a later generation's (it could only ever be written on e's socket). -/
theorem queued_async_never_flushed_later (c : Cfg) (hr : Reachable c) (e i : Nat) (hq : i ∈ c.queue e)
    (ht : (c.ep e).ctxDone = true) (as : List Action) (ev : WireEv) (hev : ev ∈ (run c as).wire) (hsrc : ev.src = i) :
    ev ∈ c.wire := by
  have hinv := inv_reachable hr
  obtain ⟨_, q2, q3⟩ := hinv.queue e i hq
  have hr' : Reachable (run c as) := by
    obtain ⟨bs, rfl⟩ := hr
    exact ⟨bs ++ as, by rw [run_append]⟩
  have hsock : ev.sock = e := by
    have := ((inv_reachable hr').wire ev hev).1
    rw [hsrc, (done_stable_run i as c q2).2, q3] at this
    exact this
  have hmem : ev ∈ (run c as).wire.filter (onSock e) := by
    rw [List.mem_filter]; exact ⟨hev, by simp [onSock, hsock]⟩
  rw [wire_frozen_run e as c hinv ht] at hmem
  exact (List.mem_filter.mp hmem).1

/-- the drain goroutine of a torn-down epoch writes nothing (the step itself) -/
theorem drain_after_teardown_writes_nothing (c : Cfg) (hr : Reachable c) (e : Nat) (ok : Bool)
    (ht : (c.ep e).ctxDone = true) : (step c (.drain e ok)).wire = c.wire := by
  unfold step
  split
  · rw [apply_wire]
    simp only
    cases hq : c.queue e with
    | nil => rfl
    | cons i rest => simp [drain_not_ok c (inv_reachable hr).epoch e ok ht]
  · rfl

/-! ## Non-vacuity: two generations, a waiter and a queued async message stranded by the teardown of the first -/
def sampleTrace : List Action :=
  [.publish, .connUp, .setSelected true, .begin 0 .sync, .begin 1 .async, .pin 0, .pin 1, .gate 0, .gate 1, .register 0,
   .wcheck 0, .write 0 true, .incInflight 0, .enqueue 1 .recv, .setSelected false, .teardown 0]

example : Reachable (run init sampleTrace) ∧ ((run init sampleTrace).ep 0).ctxDone = true ∧
    ((run init sampleTrace).s 0).pc = .waiting ∧ 1 ∈ (run init sampleTrace).queue 0 := by
  refine ⟨⟨_, rfl⟩, by decide, by decide, by decide⟩

/-! ## Non-vacuity of the replaced-generation theorems: sender 0 wrote on epoch 0; epoch 0 was torn down and joined, epoch 1
    published, connected and selected (and used by sender 1) while sender 0 still sits at `written` -/
def staleTrace : List Action :=
  [.publish, .connUp, .setSelected true, .begin 0 .sync, .pin 0, .gate 0, .register 0, .wcheck 0, .write 0 true,
   .setSelected false, .teardown 0, .join 0, .publish, .connUp, .setSelected true,
   .begin 1 .sync, .pin 1, .gate 1, .register 1, .wcheck 1, .write 1 true, .incInflight 1]

example : Reachable (run init staleTrace) ∧ ((run init staleTrace).s 0).pc = .written ∧ ((run init staleTrace).s 0).ep = 0 ∧
    ((run init staleTrace).ep 0).ctxDone = true ∧ (run init staleTrace).cur = some 1 ∧ ((run init staleTrace).ep 1).ctxDone = false ∧
    (run init staleTrace).selected = true ∧
    ((run (run init staleTrace) [.incInflight 0, .decide 0 .closed, .decInflight 0, .deregister 0]).s 0).out = some .closed := by
  refine ⟨⟨_, rfl⟩, by decide, by decide, by decide, by decide, by decide, by decide, by decide⟩

end GoSecs.Props.C09

/-! # SECS-I transport

  The same property on SECS-I connections.  Model GoSecs/Model/Secs1Transport.lean (namespace `GoSecs.S1T`): the shared
  core's `writeFrame` calls `secs1.transport.Write`, which loads the published generation bundle (`t.gen`), checks that it
  is the bundle of the caller's socket, hands the request to that generation's single line-engine goroutine and waits on
  `req.done | gs.genDone`; the engine transmits the blocks (with E4 retransmissions), runs inbound blocks through its own
  per-generation assembler and delivers complete messages to the core INLINE — also from inside a pending send (contention
  yield).  `Stop` seals, clears `t.gen`, closes `genDone` and the socket, then joins the engine with a bound.  Invariants:
  GoSecs/Lemmas/Secs1Transport.lean.

  MODELLING ASSUMPTIONS (stated): `join g` is taken when the engine has exited OR sits inside an inline handler (the bounded
  join of `Stop` abandoning a wedged handler — after the handler returns such a straggler cannot transmit, receive or deliver:
  its socket is closed, see `no_block_after_teardown`); an engine descheduled for longer than the close timeout between
  reading a block and delivering the message it completes is outside the model (as on HSMS-SS).  Distinct generations have
  distinct sockets (a custom dialer handing out the same net.Conn twice is outside the model).  "Promptly" is measured by the
  harness; proved is that the release needs no step of the engine. -/
namespace GoSecs.Props.C09.Secs1
open GoSecs GoSecs.S1T
open GoSecs.Router (upd upd_same upd_other b2n)

/-- **Every block goes out on the socket of the generation its sender pinned**: each transmission attempt on the wire
    log — first transmission or E4 retransmission — was made by the engine of the generation whose bundle the sender's
    Write loaded (`gs`), and that is the generation of the epoch the send call pinned (`ep`). -/
theorem block_goes_out_on_pinned_generation (c : Cfg) (hr : Reachable c) (ev : WireEv) (h : ev ∈ c.wire) :
    ev.sock = (c.s ev.src).ep ∧ (c.s ev.src).gs = some ev.sock := by
  have hi := inv_reachable hr
  obtain ⟨h1, _⟩ := hi.wire ev h
  exact ⟨((hi.sloc ev.src).2.1 ev.sock h1).symm, h1⟩

/-- an engine only ever works on requests of senders pinned to its own generation (directly, or around an inline handler) -/
theorem engine_serves_own_generation_only (c : Cfg) (hr : Reachable c) (g i : Nat) (h : (c.g g).eng.req = some i) :
    (c.s i).ep = g ∧ (c.s i).done = none := by
  have hi := inv_reachable hr
  obtain ⟨h1, _, h3⟩ := hi.eng g i h
  exact ⟨(hi.sloc i).2.1 g h1, h3⟩

/-- the I1 check of `Write`: with another generation's bundle published (or none) the request is refused — it is never
    handed to that generation's engine -/
theorem write_refuses_other_generation (c : Cfg) (i : Nat) (hp : (c.s i).pc = .checked) (hg : c.tgen ≠ some (c.s i).ep) :
    ((step c (.load i)).s i).pc = .returned ∧ ((step c (.load i)).s i).wres = some .closed ∧ (step c (.load i)).g = c.g := by
  simp only [step, enabled, hp, decide_true, if_true, apply, setS, upd_same, Sender.afterLoad]
  cases ht : c.tgen with
  | none => simp [Sender.failWith]
  | some g =>
    have : g ≠ (c.s i).ep := fun h => hg (by rw [ht, h])
    simp [this, Sender.failWith]

/-- **After the teardown of a generation nothing more is written to its socket** (nor read from it, nor delivered by its
    engine), whatever happens afterwards. -/
theorem no_block_after_teardown (c : Cfg) (hr : Reachable c) (g : Nat) (h : (c.g g).ctxDone = true) (as : List Action) :
    (run c as).wire.filter (onSock g) = c.wire.filter (onSock g) ∧
    (run c as).rxlog.filter (· = g) = c.rxlog.filter (· = g) ∧
    (run c as).deliv.filter (byGen g) = c.deliv.filter (byGen g) := by
  obtain ⟨a1, a2, a3⟩ := frozen_run g as c (dead_of_ctxDone (inv_reachable hr) g h)
  exact ⟨a1, a3, a2⟩

/-- the same once the peer has dropped the line -/
theorem no_block_after_peer_drop (c : Cfg) (g : Nat) (hu : (c.g g).connUp = true) (ho : (c.g g).sockOpen = false)
    (as : List Action) : (run c as).wire.filter (onSock g) = c.wire.filter (onSock g) :=
  (frozen_run g as c (by simp [Dead, hu, ho])).1

/-- **No retransmission across generations**: a request whose generation has been torn down — queued at the hand-off,
    partly transmitted, or fully transmitted — never appears on any wire again: not on its own generation's socket
    (nothing is written there any more) and not on a later generation's (its blocks can only ever go out on the socket
    of the generation it pinned). -/
theorem no_retransmission_on_later_generation (c : Cfg) (hr : Reachable c) (i : Nat) (hp : 2 ≤ (c.s i).pc.rank)
    (ht : (c.g (c.s i).ep).ctxDone = true) (as : List Action) (ev : WireEv) (hev : ev ∈ (run c as).wire) (hsrc : ev.src = i) :
    ev ∈ c.wire := by
  have hsock : ev.sock = (c.s i).ep := by
    have := (block_goes_out_on_pinned_generation (run c as) (hr.run as) ev hev).1
    rw [hsrc, (sender_stable_run i as c).2.1 hp] at this
    exact this
  have hmem : ev ∈ (run c as).wire.filter (onSock (c.s i).ep) := by
    rw [List.mem_filter]; exact ⟨hev, by simp [onSock, hsock]⟩
  rw [(no_block_after_teardown c hr _ ht as).1] at hmem
  exact (List.mem_filter.mp hmem).1

/-- **A message delivered to the core was assembled from blocks read on the current generation only**: the engine that
    delivered it belongs to the epoch that is `c.cur` at that moment (the one whose reply registry is consulted), and
    every block of the message was read from that generation's socket. -/
theorem delivered_message_read_on_current_generation (c : Cfg) (hr : Reachable c) (d : Deliv) (h : d ∈ c.deliv) :
    d.cur = some d.gen ∧ ∀ b, b ∈ d.blocks → b = d.gen :=
  (inv2_reachable hr).deliv d h

/-- the assembler of a generation only ever holds blocks read on that generation's socket ... -/
theorem assembler_holds_own_generation_blocks_only (c : Cfg) (hr : Reachable c) (g : Nat) (bs : List Nat)
    (h : (c.g g).part = some bs) : ∀ b, b ∈ bs → b = g :=
  (inv2_reachable hr).part g bs h

/-- ... every engine starts with an empty one, and no step of another generation's engine touches it: **a partial message of
    generation N is discarded with N's engine** (the code builds the assembler inside `lineEngine`, once per generation) -/
theorem partial_message_dies_with_its_generation (c : Cfg) (g g' : Nat) (x : Asm) (hne : g' ≠ g) :
    ((apply c (.spawn g)).g g).part = none ∧ ((apply c (.rx g' x)).g g).part = (c.g g).part := by
  simp [apply, setG, upd, hne.symm]

/-- only the engine of the current, not yet joined generation can receive (and therefore deliver) anything -/
theorem only_current_generation_receives (c : Cfg) (hr : Reachable c) (g : Nat) (x : Asm) (h : enabled c (.rx g x) = true) :
    c.cur = some g ∧ (c.g g).joined = false ∧ (c.g g).ctxDone = false := by
  have hi := inv_reachable hr
  have hch := hi.gen.chain g
  have hfr := hi.gen.fresh g
  have hal := hi.gen.alive g
  simp only [Chain] at hch
  simp only [enabled, Bool.and_eq_true] at h
  grind

/-- a sender inside `Write`: at the hand-off (`loaded`) or past it (`handed`) -/
def inWrite (w : Sender) : Bool := w.pc = .loaded || w.pc = .handed

/-- a sender parked inside `Write` WITHOUT an answer: at the hand-off, or awaiting the engine's report with `req.done` still empty.
    (Since the repair c77bf45 the teardown branch of the result select first takes a report that is already in: a sender whose
    report is in is not parked — its `result` step is enabled, see `answered_write_takes_result`.) -/
def parked (w : Sender) : Bool := w.pc = .loaded || (w.pc = .handed && w.done.isNone)

/-- **The teardown broadcast releases a parked Write**: the connection-closed branch of BOTH selects of `Write` is
    enabled exactly when the sender is parked there and the `genDone` of the bundle it loaded is closed ... -/
theorem closed_branch_iff_own_genDone (c : Cfg) (i : Nat) :
    enabled c (.bail i) = true ↔ parked (c.s i) = true ∧ ∃ g, (c.s i).gs = some g ∧ (c.g g).genDone = true := by
  simp only [enabled, parked, Bool.and_eq_true]
  cases (c.s i).gs <;> simp

/-- ... **independent of the engine's progress**: whatever the line engine of that generation is doing — idle, transmitting
    this or another request, inside an inline application handler (also one entered from within this very send during a
    contention yield), exited — neither enables nor holds the branch ... -/
theorem closed_branch_ignores_engine (c : Cfg) (i g : Nat) (x : Eng) :
    enabled (setG c g { c.g g with eng := x }) (.bail i) = enabled c (.bail i) := by
  simp only [enabled, setG, upd]
  cases (c.s i).gs with
  | none => rfl
  | some g' => simp only []; grind

/-- ... nor does the current generation: a later bundle published in `t.gen`, or none -/
theorem closed_branch_ignores_current_generation (c : Cfg) (i : Nat) (cur' tgen' : Option Nat) :
    enabled { c with cur := cur', tgen := tgen' } (.bail i) = enabled c (.bail i) := rfl

/-- the two steps of `Stop` (no-ops when already taken) close `genDone` and touch neither senders, engine, lock nor counters -/
theorem stop_closes_genDone (c : Cfg) (g : Nat) (ht : (c.g g).ctxDone = true) :
    let c' := run c [.stopSeal g, .stopDone g]
    (c'.g g).genDone = true ∧ c'.s = c.s ∧ (c'.g g).eng = (c.g g).eng ∧ (c'.g g).lock = (c.g g).lock ∧ c'.m = c.m ∧ c'.wire = c.wire := by
  cases hs : (c.g g).stopped <;> cases hd : (c.g g).genDone <;>
    simp [run, step, enabled, apply, setG, upd, ht, hs, hd]

set_option linter.unusedSimpArgs false in
/-- a parked Write whose `genDone` is closed: its own two steps (the `genDone` branch, then `writeFrame` returning) complete it
    with connection-closed, free the write lock and count nothing -/
theorem released_write_returns_closed (c : Cfg) (i g : Nat) (hp : parked (c.s i) = true) (hg : (c.s i).gs = some g)
    (he : (c.s i).ep = g) (hd : (c.g g).genDone = true) :
    let c' := run c [.bail i, .unlock i]
    (c'.s i).pc = .done ∧ ((c.s i).kind ≠ .async → (c'.s i).out = some .closed) ∧ (c'.g g).lock = none ∧
    (c'.g g).eng = (c.g g).eng ∧ c'.m.sent = c.m.sent ∧ c'.m.err = c.m.err ∧ c'.m.inflight = c.m.inflight ∧ c'.wire = c.wire := by
  simp only [parked, Bool.or_eq_true, Bool.and_eq_true, decide_eq_true_eq] at hp
  cases hk : (c.s i).kind <;> rcases hp with hp | ⟨hp, hn⟩ <;>
    simp [run, step, enabled, apply, setS, setG, upd, hp, hd, hk, hg, he, Sender.failWith, Sender.afterUnlock, WRes.outcome,
      WRes.counted, b2n, *]

/-- **From the start of the teardown, two steps of `Stop` and two own steps complete a parked Write with connection-closed**,
    whatever the engine does or does not do meanwhile (the engine's position is arbitrary and untouched): the seal and the
    broadcast are `Stop`'s own steps (no-ops when already taken), then the sender takes the `genDone` branch and
    `writeFrame` returns: the write lock is free again, nothing was counted as sent or as an error. -/
theorem teardown_releases_parked_write (c : Cfg) (i g : Nat) (hp : parked (c.s i) = true) (hg : (c.s i).gs = some g)
    (he : (c.s i).ep = g) (ht : (c.g g).ctxDone = true) :
    let c' := run c [.stopSeal g, .stopDone g, .bail i, .unlock i]
    (c'.s i).pc = .done ∧ ((c.s i).kind ≠ .async → (c'.s i).out = some .closed) ∧ (c'.g g).lock = none ∧
    (c'.g g).eng = (c.g g).eng ∧ c'.m.sent = c.m.sent ∧ c'.m.err = c.m.err ∧ c'.m.inflight = c.m.inflight ∧ c'.wire = c.wire := by
  obtain ⟨a1, a2, a3, a4, a5, a6⟩ := stop_closes_genDone c g ht
  have hrun : run c [.stopSeal g, .stopDone g, .bail i, .unlock i] = run (run c [.stopSeal g, .stopDone g]) [.bail i, .unlock i] :=
    run_append c [.stopSeal g, .stopDone g] [.bail i, .unlock i]
  obtain ⟨b1, b2, b3, b4, b5, b6, b7, b8⟩ := released_write_returns_closed (run c [.stopSeal g, .stopDone g]) i g
    (by rw [a2]; exact hp) (by rw [a2]; exact hg) (by rw [a2]; exact he) a1
  simp only [hrun]
  refine ⟨b1, fun hk => b2 (by rw [a2]; exact hk), b3, by rw [b4, a3], by rw [b5, a5], by rw [b6, a5], by rw [b7, a5], by rw [b8, a6]⟩

/-- a Write whose engine report is in takes it — also when the teardown broadcast is closed at the same moment (the repaired result
    select): its two own steps return the engine's result, and a message whose every block was ACKed is counted -/
theorem answered_write_takes_result (c : Cfg) (i : Nat) (r : WRes) (hp : (c.s i).pc = .handed) (hd : (c.s i).done = some r) :
    enabled c (.result i) = true ∧ enabled c (.bail i) = false ∧
    ((run c [.result i, .unlock i]).s i).wres = some r ∧
    (run c [.result i, .unlock i]).m.sent = c.m.sent + b2n (r = .ok) := by
  refine ⟨by simp [enabled, hp, hd], by simp [enabled, hp, hd], ?_, ?_⟩ <;>
    cases hk : (c.s i).kind <;> cases r <;>
      simp [run, step, enabled, apply, setS, setG, upd, hp, hd, hk, Sender.failWith, Sender.afterUnlock, b2n]

/-- **a Write parked when its generation's `genDone` closes stays releasable for ever**: after any continuation (later
    generations published, connected, used, the engine reporting after all), as long as it is still inside `Write` one of its
    own steps is enabled: the connection-closed branch, or — if the engine's report has come in meanwhile — taking that report -/
theorem parked_write_released_across_generations (c : Cfg) (i g : Nat) (hp : inWrite (c.s i) = true) (hg : (c.s i).gs = some g)
    (hd : (c.g g).genDone = true) (as : List Action) (hp' : inWrite ((run c as).s i) = true) :
    enabled (run c as) (.bail i) = true ∨ enabled (run c as) (.result i) = true := by
  have h7 : 7 ≤ (c.s i).pc.rank := by
    simp only [inWrite, Bool.or_eq_true, decide_eq_true_eq] at hp
    rcases hp with hp | hp <;> simp [hp, Pc.rank]
  have hgs := (sender_stable_run i as c).2.2 h7
  have hgd := genDone_run g as c hd
  simp only [inWrite, Bool.or_eq_true, decide_eq_true_eq] at hp'
  rw [hg] at hgs
  cases hdn : ((run c as).s i).done with
  | none => left; rcases hp' with h | h <;> simp [enabled, h, hgs, hgd, hdn]
  | some r =>
    rcases hp' with h | h
    · left; simp [enabled, h, hgs, hgd]
    · right; simp [enabled, h, hdn]

/-- a sender queued on the write lock of a torn-down generation (behind a Write that was released): once the lock is free
    its own three steps complete it with connection-closed — it never reaches `Write` -/
theorem lock_waiter_of_ended_generation_returns_closed (c : Cfg) (i : Nat) (hp : (c.s i).pc = .gated) (hk : (c.s i).kind ≠ .async)
    (ht : (c.g (c.s i).ep).ctxDone = true) (hl : (c.g (c.s i).ep).lock = none) :
    let c' := run c [.lock i, .check i, .unlock i]
    (c'.s i).pc = .done ∧ (c'.s i).out = some .closed ∧ (c'.g (c.s i).ep).lock = none ∧ c'.wire = c.wire ∧ c'.m.sent = c.m.sent ∧
    c'.m.err = c.m.err := by
  cases hkk : (c.s i).kind <;> first | exact absurd hkk hk | skip
  all_goals
    cases hu : (c.g (c.s i).ep).connUp <;>
    simp [run, step, enabled, apply, setS, setG, upd, hp, hkk, ht, hl, hu, checkRes, Sender.afterCheck, Sender.failWith,
      Sender.afterUnlock, WRes.outcome, WRes.counted, b2n]

/-- the reply wait is released by the PINNED epoch's context, as on HSMS-SS -/
theorem reply_wait_released_by_pinned_epoch (c : Cfg) (i : Nat) :
    enabled c (.decide i .closed) = true ↔ (c.s i).pc = .waiting ∧ (c.g (c.s i).ep).ctxDone = true := by
  simp [enabled]

/-- ... and its two own steps (the connection-closed branch, the deferred decrement) complete the call: connection-closed, the
    in-flight gauge back by exactly one, no error counted -/
theorem reply_waiter_of_ended_generation_returns_closed (c : Cfg) (i : Nat) (hw : (c.s i).pc = .waiting)
    (ht : (c.g (c.s i).ep).ctxDone = true) :
    let c' := run c [.decide i .closed, .decInflight i]
    (c'.s i).pc = .done ∧ (c'.s i).out = some .closed ∧ c'.m.inflight = c.m.inflight - 1 ∧ c'.m.err = c.m.err := by
  simp [run, step, enabled, apply, setS, upd, hw, ht, Sender.afterDecide, b2n]

/-- a sender whose generation ended (and may have been replaced) between its Write and its reply wait: three own steps,
    connection-closed, the gauge where it was -/
theorem written_sender_of_ended_generation_returns_closed (c : Cfg) (i : Nat) (hw : (c.s i).pc = .written)
    (ht : (c.g (c.s i).ep).ctxDone = true) :
    let c' := run c [.incInflight i, .decide i .closed, .decInflight i]
    (c'.s i).pc = .done ∧ (c'.s i).out = some .closed ∧ c'.m.inflight = c.m.inflight ∧ c'.m.err = c.m.err := by
  simp [run, step, enabled, apply, setS, upd, hw, ht, Sender.afterDecide, b2n]

/-- the steps sender i's own goroutine can take -/
def own (i : Nat) : Action → Bool
  | .pin j | .gate j | .enqueue j _ | .lock j | .check j | .load j | .take j | .bail j | .result j | .unlock j
  | .incInflight j | .decide j _ | .decInflight j => j = i
  | _ => false

/-- **Why the `genDone` branch of the result wait is needed** (the select `<-req.done | <-gs.genDone`): a Write whose request
    the engine has taken and not yet answered — e.g. because the engine sits in an inline handler entered during a
    contention yield of this very send — has NO enabled step of its own other than the `genDone` branch.  With
    `<-req.done` alone it would wait for the handler to return. -/
theorem only_genDone_releases_unanswered_write (c : Cfg) (i : Nat) (hp : (c.s i).pc = .handed) (hd : (c.s i).done = none)
    (a : Action) (ho : own i a = true) (he : enabled c a = true) : a = .bail i := by
  cases a <;> simp only [own, decide_eq_true_eq, Bool.false_eq_true] at ho <;> subst ho <;>
    simp [enabled, hp, hd] at he ⊢

/-- at every other point of a send that has begun and not returned the sender has an enabled step of its own, except
    where it waits for the write lock (held by a sender that is itself covered by this theorem or parked in Write) or
    for the engine / `genDone` inside Write: it cannot be blocked anywhere else -/
theorem sender_step_enabled (c : Cfg) (i : Nat) :
    ((c.s i).pc = .begun → enabled c (.pin i) = true) ∧ ((c.s i).pc = .pinned → enabled c (.gate i) = true) ∧
    ((c.s i).pc = .gated → (c.s i).kind = .async → enabled c (.enqueue i .recv) = true) ∧
    ((c.s i).pc = .gated → (c.s i).kind ≠ .async → (c.g (c.s i).ep).lock = none → enabled c (.lock i) = true) ∧
    ((c.s i).pc = .locked → enabled c (.check i) = true) ∧ ((c.s i).pc = .checked → enabled c (.load i) = true) ∧
    ((c.s i).pc = .returned → enabled c (.unlock i) = true) ∧ ((c.s i).pc = .written → enabled c (.incInflight i) = true) ∧
    ((c.s i).pc = .waiting → enabled c (.decide i .timer) = true) ∧ ((c.s i).pc = .decided → enabled c (.decInflight i) = true) := by
  refine ⟨?_, ?_, ?_, ?_, ?_, ?_, ?_, ?_, ?_, ?_⟩ <;> intros <;> simp_all [enabled]

/-- the write lock: at most one sender per generation is between `lock` and `unlock`, hence at most one request per generation
    is at the hand-off or with the engine -/
theorem one_writer_per_generation (c : Cfg) (hr : Reachable c) (i j : Nat) (hi : holds (c.s i).pc = true)
    (hj : holds (c.s j).pc = true) (he : (c.s i).ep = (c.s j).ep) : i = j := by
  have hl := (inv_reachable hr).lock
  have h1 := hl.2 i hi
  have h2 := hl.2 j hj
  rw [he, h2] at h1
  exact (Option.some.inj h1).symm

/-! ## Non-vacuity: the contention-yield case.  Sender 0 (one block) hands its request to the engine of generation 0; the
    peer contends, the engine yields and takes a single-block message, whose handler runs INLINE inside the pending send
    (`handler (some 0)`); sender 1 queues on the write lock.  The generation is torn down while the handler blocks. -/
def yieldTrace : List Action :=
  [.publish, .connUp, .setSelected true, .spawn 0, .begin 0 .sync 1, .begin 1 .sync 1, .pin 0, .pin 1, .gate 0, .gate 1,
   .lock 0, .check 0, .load 0, .take 0, .rx 0 (.first true), .setSelected false, .cancel 0]

set_option maxRecDepth 16000 in
example : Reachable (run init yieldTrace) ∧ ((run init yieldTrace).g 0).eng = .handler (some 0) ∧
    ((run init yieldTrace).s 0).pc = .handed ∧ ((run init yieldTrace).s 0).done = none ∧ ((run init yieldTrace).s 1).pc = .gated ∧
    ((run init yieldTrace).g 0).ctxDone = true ∧ ((run init yieldTrace).g 0).genDone = false ∧
    ((run (run init yieldTrace) [.stopSeal 0, .stopDone 0, .bail 0, .unlock 0, .lock 1, .check 1, .unlock 1]).s 0).out = some .closed ∧
    ((run (run init yieldTrace) [.stopSeal 0, .stopDone 0, .bail 0, .unlock 0, .lock 1, .check 1, .unlock 1]).s 1).out = some .closed ∧
    ((run (run init yieldTrace) [.stopSeal 0, .stopDone 0, .bail 0, .unlock 0, .lock 1, .check 1, .unlock 1]).g 0).eng = .handler (some 0) := by
  refine ⟨⟨_, rfl⟩, by decide, by decide, by decide, by decide, by decide, by decide, by decide, by decide, by decide⟩

/-! a request partly transmitted (one block ACKed, one retransmitted) when the peer drops the line; the next generation comes up
    and carries another sender's message: nothing of sender 0 is on generation 1 -/
def retransTrace : List Action :=
  [.publish, .connUp, .setSelected true, .spawn 0, .begin 0 .sync 2, .pin 0, .gate 0, .lock 0, .check 0, .load 0, .take 0,
   .xmit 0 true, .xmit 0 false, .peerDrop 0, .finish 0 .ioErr, .result 0, .unlock 0, .exit 0, .setSelected false, .cancel 0,
   .stopSeal 0, .stopDone 0, .join 0, .publish, .connUp, .setSelected true, .spawn 1, .begin 1 .ff 1, .pin 1, .gate 1, .lock 1,
   .check 1, .load 1, .take 1, .xmit 1 true, .finish 1 .ok, .result 1, .unlock 1]

set_option maxRecDepth 16000 in
example : Reachable (run init retransTrace) ∧ (run init retransTrace).wire = [⟨1, 1, true⟩, ⟨0, 0, false⟩, ⟨0, 0, true⟩] ∧
    ((run init retransTrace).s 0).out = some .ioErr ∧ ((run init retransTrace).s 1).out = some .sent ∧
    (run init retransTrace).m.sent = 1 ∧ (run init retransTrace).m.err = 1 := by
  refine ⟨⟨_, rfl⟩, by decide, by decide, by decide, by decide, by decide⟩

end GoSecs.Props.C09.Secs1
