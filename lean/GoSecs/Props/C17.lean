/-
  C17 — SECS-I sends well-formed SEMI E4 blocks and delivers only complete messages.

  Property theorems only; helper lemmas live in GoSecs/Lemmas/Secs1.lean, the executable model in
  GoSecs/Model/Secs1.lean, the independent receive specification in GoSecs/Spec/E4Receive.lean.
-/
import GoSecs.Lemmas.Secs1
import GoSecs.Lemmas.Secs1Gen
import GoSecs.Lemmas.Secs1AsmGen
import GoSecs.Lemmas.Secs1LineGen
import GoSecs.Lemmas.Secs1LineModel
import GoSecs.Gen.Consts

namespace GoSecs.Props.C17
open GoSecs GoSecs.Secs1 GoSecs.Spec.E4Receive

/-! ## Tie to the source (regenerated on every run) -/

theorem consts_gen :
    Gen.secs1_maxBlockBodySize = (maxBlockBodySize : Int) ∧ Gen.secs1_blockHeaderSize = (blockHeaderSize : Int) ∧
    Gen.secs1_checksumSize = (checksumSize : Int) ∧ Gen.secs1_minBlockLength = (minBlockLength : Int) ∧
    Gen.secs1_maxBlockLength = (maxBlockLength : Int) ∧ Gen.secs1_maxBlockNumber = (maxBlockNumber : Int) ∧
    Gen.secs1_hsmsHeaderLen = (hsmsHeaderLen : Int) ∧
    Gen.secs1_enq = (ENQ.toNat : Int) ∧ Gen.secs1_eot = (EOT.toNat : Int) ∧
    Gen.secs1_ack = (ACK.toNat : Int) ∧ Gen.secs1_nak = (NAK.toNat : Int) := by
  decide

/-! ### Functions regenerated from secs1/block.go, secs1/message.go, internal/wire/body.go

  `Gen.secs1_*` are re-translated from the working tree by tools/go2lean on every run; each theorem below
  says that the translated function computes, for ALL inputs, what the hand-written model function the
  property theorems are about computes (proofs in GoSecs/Lemmas/Secs1Gen.lean).  A functions returning
  `Option` is one whose Go source contains an operation that can panic; `= some …` therefore also says
  it never does. -/

/-- `buildHeader`: R-bit / device id, W-bit / stream, function, E-bit / block number, system bytes — byte
    for byte, for every header value and every `uint16` block number (no range hypothesis: both sides
    truncate the same way). -/
theorem buildHeader_gen (h : MsgHeader) (bn : Nat) (last : Bool) :
    Gen.secs1_buildHeader h.toGen (bn : Int) last = (buildHeader h bn last).toList :=
  Secs1.buildHeader_gen h bn last

/-- The `block` accessors extract the fields the model's `Hdr` accessors extract, for every 10-byte header. -/
theorem blockAccessors_gen (b : Block) :
    Gen.secs1_block_deviceID b.toGen = (b.hdr.deviceID : Int) ∧ Gen.secs1_block_rBit b.toGen = b.hdr.rBit ∧
    Gen.secs1_block_stream b.toGen = (b.hdr.stream : Int) ∧ Gen.secs1_block_waitBit b.toGen = b.hdr.waitBit ∧
    Gen.secs1_block_function b.toGen = (b.hdr.function : Int) ∧
    Gen.secs1_block_blockNumber b.toGen = (b.hdr.blockNumber : Int) ∧ Gen.secs1_block_eBit b.toGen = b.hdr.eBit ∧
    Gen.secs1_block_systemBytes b.toGen = [b.hdr.b6, b.hdr.b7, b.hdr.b8, b.hdr.b9] ∧
    Gen.secs1_block_messageHeader b.toGen = b.hdr.msgHeader.toGen :=
  ⟨deviceID_gen b, rBit_gen b, stream_gen b, waitBit_gen b, function_gen b, blockNumber_gen b, eBit_gen b,
   systemBytes_gen b, messageHeader_gen b⟩

/-- `block.appendTo`: length byte `10 + len(body)`, header, body, 16-bit checksum of header+body big-endian —
    for every block and destination (the `uint32` accumulator and the `byte(...)` truncation included). -/
theorem appendTo_gen (b : Block) (dst : Bytes) : Gen.secs1_block_appendTo b.toGen dst = some (appendTo dst b) :=
  Secs1.appendTo_gen b dst

/-- `parseBlock`: the length-range check (10..254), the length/data agreement, the checksum comparison and the
    header / body split, with the model's verdict for every length byte and every byte string. -/
theorem parseBlock_gen (lb : UInt8) (rest : Bytes) :
    Gen.secs1_parseBlock (lb.toNat : Int) rest =
      some (match parseBlock lb rest with
        | .ok b => (b.toGen, none)
        | .error e => (Gen.secs1_block.zero, some e.goName)) :=
  Secs1.parseBlock_gen lb rest

/-- `splitBody`: the validation gate and, for every body, the sequence of blocks its iterator yields — offsets
    `0, 244, 488, …`, lengths `min 244 (total - off)`, the E-bit on the block with `off + n == total`, block
    numbers counted in a `uint16` — is the model's `splitBody` (whose well-formedness is `split_wellformed`). -/
theorem splitBody_gen (body : Bytes) (h : MsgHeader) :
    Gen.secs1_splitBody { body := body } h.toGen =
      some (match splitBody body h with
        | .ok bs => (bs.map Block.toGen, none)
        | .error e => ([], some e.goName)) :=
  Secs1.splitBody_gen body h

/-- `assembleFrame`: the validation loop (contiguous block numbers 1..N — or the lone block numbered 0 —, the E-bit
    exactly on the last block, identical message headers), the synthesized HSMS header and the concatenated body
    are the model's `assembleFrame`, with the same error for every rejected block list; no index, slice or
    allocation in it can panic. -/
theorem assembleFrame_gen (blocks : List Block) :
    Gen.secs1_assembleFrame (blocks.map Block.toGen) =
      some (match assembleFrame blocks with
        | .ok f => (f, none)
        | .error e => (([] : Bytes), some e.goName)) :=
  Secs1.assembleFrame_gen blocks

/-- **`accept_gen`: the SOURCE's assembler is the model's.** `Gen.secs1_assembler_accept` (with `beginMessage`,
    `startMessage`, `appendBlock`, `complete`, `reset`, `report`) is re-translated from secs1/assembler.go on every run
    as a state-passing function on the assembler value. For every assembler state, every block, every clock reading
    `now`, every live-timer answer with `T4 = a.t4` and every verdict `derr` of the core on a delivered frame: run with
    the oracle values of exactly the calls it makes (`acceptOrc`: clock + timers while a partial is open, the clock
    when the block is taken, the verdict when a frame is delivered) it returns normally; the assembler it returns
    encodes `(a.accept now blk).1` — open flag, header, accumulated blocks, expected number, T4 base, and the
    duplicate record; the error it returns is the assembleFrame sentinel or the core's verdict; and its trace without
    the clock / timer reads is the model's events rendered call by call (each counter increment, each notify
    with its violation and the block's header, the delivered frame), in order. -/
theorem accept_gen (s0 : Gen.secs1_assembler) (a : Asm) (now : Nat) (tc : Gen.hsms_TimerConfig)
    (htc : tc.T4 = (a.t4 : Int)) (blk : Block) (derr : Go.Err) :
    ∃ tr, Gen.secs1_assembler_accept (a.toGen s0) blk.toGen (acceptOrc a now tc blk derr) =
        some ((a.accept now blk).1.toGen s0, errOf derr (a.accept now blk).2, tr, []) ∧
      obs tr = (a.accept now blk).2.flatMap (AEv.effects s0 blk) := by
  refine ⟨(acceptRes s0 a now blk derr).2, ?_, (acceptRes_model s0 a now blk derr).1⟩
  rw [Secs1.accept_gen s0 a now tc htc blk derr, (acceptRes_model s0 a now blk derr).2]

/-- `reset` keeps the duplicate record (E4 §9.4.2: `lastHeader` / `haveLast` persist across message boundaries), in
    the regenerated code. -/
theorem reset_gen (s0 : Gen.secs1_assembler) (a : Asm) :
    Gen.secs1_assembler_reset (a.toGen s0) = (a.reset.toGen s0, []) ∧
    a.reset.lastHeader = a.lastHeader ∧ a.reset.haveLast = a.haveLast :=
  ⟨Secs1.reset_gen s0 a, rfl, rfl⟩

/-! ### `receiveBlock` and its readers, regenerated from secs1/line.go (effect mode with the I/O extension)

  Which blocks reach the assembler at all: `receiveBlock` ACKs and returns exactly the blocks `parseBlock` accepts
  (`receiveS`, Lemmas/Secs1LineGen.lean, is the hand-written sequential function over a script of environment answers). -/

/-- `readFull(buf)`: the T1 deadline (clock + the LIVE T1) is re-armed before EACH `Read`; the bytes land in `buf` in
    order; an error from `SetReadDeadline` or `Read` is returned at once. -/
theorem readFull_gen (l : Gen.secs1_lineIO) (fuel : Nat) (buf : Bytes) (s : List Io.Ans) (rest : List Go.Val)
    (e : Go.Err) (buf' : Bytes) (evs : List LnEv) (s' : List Io.Ans)
    (h : readFullS fuel buf s = some (e, buf', evs, s')) :
    Gen.secs1_lineIO_readFull l buf fuel (Io.enc s ++ rest) = some (e, buf', rend evs, Io.enc s' ++ rest) :=
  Secs1.readFull_gen l fuel buf s rest e buf' evs s' h

/-- `drainUntilSilence()`: Reads under a re-armed T1 deadline until one fails. -/
theorem drainUntilSilence_gen (l : Gen.secs1_lineIO) (fuel : Nat) (s : List Io.Ans) (rest : List Go.Val)
    (evs : List LnEv) (s' : List Io.Ans) (h : drainS fuel s = some (evs, s')) :
    Gen.secs1_lineIO_drainUntilSilence l fuel (Io.enc s ++ rest) = some (rend evs, Io.enc s' ++ rest) :=
  Secs1.drain_gen l fuel s rest evs s' h

/-- **`receiveBlock`**: length byte under T2 (timeout → NAK, ErrT2Timeout, NO drain); length outside 10..254 → drain
    until silence, THEN NAK, ErrInvalidLength; `length+2` bytes under T1 (error → NAK, ErrT1Timeout, no drain);
    `parseBlock` (length, checksum) rejects → drain, THEN NAK, the parse error; otherwise ACK and the parsed block. -/
theorem receiveBlock_gen (l : Gen.secs1_lineIO) (fuel : Nat) (s : List Io.Ans) (rest : List Go.Val)
    (ob : Option Block) (err : Go.Err) (evs : List LnEv) (s' : List Io.Ans)
    (h : receiveS fuel s = some (ob, err, evs, s')) :
    Gen.secs1_lineIO_receiveBlock l fuel (Io.enc s ++ rest) = some (blkGen ob, err, rend evs, Io.enc s' ++ rest) :=
  Secs1.receive_gen l fuel s rest ob err evs s' h

/-- **What reaches the assembler**: for every byte string that arrives after our EOT (and then silence), the regenerated
    `receiveBlock` returns a block iff the model's `receiveBytes` accepts it — i.e. the length byte is in 10..254, all
    `length+2` bytes arrive, and `parseBlock` (length, checksum) accepts — answers ACK in that case and NAK in every
    other, and drains the line before the NAK exactly for a bad length and a parse error (`recvEvs`). -/
theorem receiveBlock_source_is_model (env : Env) (fuel : Nat) (l : Gen.secs1_lineIO) (bs : Bytes) (rest : List Go.Val) :
    Gen.secs1_lineIO_receiveBlock l (fuel + 2) (Io.enc (recvScript env bs) ++ rest) =
      some (blkGen (receiveBytes bs).blockOpt, (receiveBytes bs).err, rend (recvEvs env bs), rest) ∧
    writes (recvEvs env bs) = [(receiveBytes bs).answer] := by
  have h := receive_model env fuel bs []
  have := Secs1.receive_gen l (fuel + 2) _ rest _ _ _ [] h
  exact ⟨by simpa using this, recvEvs_writes env bs⟩

/-! ## Outbound: blocks on the line -/

/-- **Well-formed split.** For every body of at most 244·32767 bytes and every valid header
    (device id ≤ 0x7FFF, stream ≤ 0x7F, function ≤ 0xFF) `splitBody` succeeds with
    N = max 1 ⌈len/244⌉ blocks; block i (0-based) carries body bytes [244·i, 244·i+244), at most 244
    of them, is numbered i+1, has the E-bit iff it is the last, and carries the message's device id,
    R-bit, stream, function, W-bit and system bytes; the bodies concatenate to the input; an empty body
    gives exactly one header-only block numbered 1 with the E-bit. -/
theorem split_wellformed (body : Bytes) (h : MsgHeader) (hv : h.Valid) (hlen : body.length ≤ 244 * 32767) :
    ∃ bs, splitBody body h = .ok bs ∧ bs.length = max 1 ((body.length + 243) / 244) ∧
      (∀ i (hi : i < bs.length),
        bs[i].body = (body.drop (244 * i)).take 244 ∧ bs[i].body.length ≤ 244 ∧
        bs[i].hdr.blockNumber = i + 1 ∧ bs[i].hdr.eBit = decide (i + 1 = bs.length) ∧
        bs[i].hdr.msgHeader = h) ∧
      bodiesOf bs = body ∧
      (body = [] → bs = [{ hdr := buildHeader h 1 true, body := [] }]) := by
  obtain ⟨bs, h1, h2, h3, h4⟩ := split_ok body h hv hlen
  refine ⟨bs, h1, h2, ?_, h4, ?_⟩
  · intro i hi
    have hb : 1 + i ≤ 32767 := by
      have : bs.length ≤ 32767 := by rw [h2]; omega
      omega
    rw [h3 i hi]
    obtain ⟨e1, e2⟩ := buildHeader_blockNumber h (1 + i) hb (decide (i + 1 = bs.length))
    refine ⟨rfl, ?_, by simp only [e1]; omega, e2, buildHeader_msgHeader h hv _ _⟩
    simp only [List.length_take]; omega
  · intro hb
    subst hb
    have hl : bs.length = 1 := by simpa using h2
    match bs, hl, h3 with
    | [b], _, h3 =>
      have := h3 0 (by simp)
      simp at this
      simp [this]

/-- The invalid inputs are exactly the ones `splitBody` rejects. -/
theorem split_rejects (body : Bytes) (h : MsgHeader) :
    (∃ e, splitBody body h = .error e) ↔ (h.deviceID > 0x7FFF ∨ h.stream > 0x7F ∨ body.length > 244 * 32767) := by
  have hk : maxBlockBodySize * maxBlockNumber = 244 * 32767 := rfl
  simp only [splitBody, splitBodyN, hk]
  by_cases h1 : h.deviceID > 0x7FFF
  · simp [h1]
  · by_cases h2 : h.stream > 0x7F
    · simp [h2]
    · by_cases h3 : body.length > 244 * 32767
      · simp only [h1, h2, h3, reduceIte, or_true, iff_true]
        exact ⟨_, rfl⟩
      · simp only [h1, h2, h3, reduceIte, or_self, iff_false, not_exists]
        intro e
        split <;> simp

/-- **Checksum.** The two trailing bytes of a serialized block are the big-endian 16-bit arithmetic sum
    (mod 65536) of the header and body bytes; the length byte is 10 + body length and is not summed. -/
theorem checksum_is_sum_mod_65536 (b : Block) :
    ∃ lb, b.wire = lb :: (b.hdr.toList ++ b.body ++ beBytes 2 (sumBytes (b.hdr.toList ++ b.body) % 65536)) ∧
      lb = UInt8.ofNat (10 + b.body.length) ∧
      beVal (b.wire.drop (1 + 10 + b.body.length)) = sumBytes (b.hdr.toList ++ b.body) % 65536 := by
  refine ⟨_, rfl, rfl, ?_⟩
  have hpl := payload_length b
  simp only [Block.wire, checksum, Block.payload] at *
  rw [show 1 + 10 + b.body.length = (10 + b.body.length) + 1 by omega, List.drop_succ_cons, ← hpl,
    List.drop_left' rfl, beVal_beBytes]
  exact Nat.mod_eq_of_lt (Nat.mod_lt _ (by decide))

/-- A valid block's sum never wraps: header + body of at most 254 bytes sum below 65536. -/
theorem checksum_no_wrap (b : Block) (hb : b.body.length ≤ 244) : sumBytes b.payload < 65536 := by
  have := sumBytes_le b.payload
  rw [payload_length] at this
  omega

/-- **parse ∘ append = id.** -/
theorem parse_append (dst : Bytes) (b : Block) (hb : b.body.length ≤ 244) :
    (appendTo dst b).take dst.length = dst ∧ parseWire ((appendTo dst b).drop dst.length) = .ok b := by
  simp [appendTo, parse_wire b hb]

/-- **Every single-byte corruption is detected.** Replacing any one byte of a serialized block (length
    byte, header, body or checksum) by any different value makes `parseBlock` reject it. (Two
    compensating changes are not detected by a 16-bit sum: `two_byte_change_undetected`.) -/
theorem single_byte_corruption_detected (b : Block) (hb : b.body.length ≤ 244) (i : Nat) (hi : i < b.wire.length)
    (v : UInt8) (hv : v ≠ b.wire[i]) : ∃ e, parseWire (b.wire.set i v) = .error e :=
  corrupt_one_byte b hb i hi v hv

/-- The limit of the E4 checksum, stated exactly: +1 on one body byte and −1 on another passes. -/
theorem two_byte_change_undetected :
    ∃ (b b' : Block), b ≠ b' ∧ parseWire ((b.wire.set 11 6).set 12 8) = .ok b' := by
  refine ⟨{ hdr := {}, body := [5, 9] }, { hdr := {}, body := [6, 8] }, by decide, by rfl⟩

/-! ## Inbound: the assembler against the E4 receive specification -/

/-- **Soundness and completeness against the independent specification**, for every role, device id,
    T4 and every timed sequence of (checksum-valid) inbound blocks: block by block, the assembler hands a
    frame to the core exactly when the E4 reference receiver delivers a message, and the frame is that
    message's image (10-byte header image ++ body). -/
theorem assembler_delivers_iff_spec (c : Cfg) (evs : List TBlock) :
    ((Asm.init c.isEquip c.deviceID c.t4).run evs).2.map deliveredOf =
      (receive c evs).map (·.map Msg.image) :=
  (run_sim evs (inv_init _ _ _) (rel_init c)).1

/-- **Only complete messages are delivered.** Every frame the assembler hands to the core, at any point of
    any inbound sequence, is the image of a message in the declarative sense of the specification: there is
    a run of blocks that really arrived (a subsequence of the input up to that point, in arrival order),
    all addressed to us, numbered 1..N (or a lone block 0), E-bit exactly on the last, one invariant header,
    every inter-block gap within T4, whose bodies concatenate to the delivered body. -/
theorem delivered_only_complete_messages (c : Cfg) (evs : List TBlock) (j : Nat) (f : Bytes)
    (h : (((Asm.init c.isEquip c.deviceID c.t4).run evs).2.map deliveredOf)[j]? = some (some f)) :
    ∃ run m, List.Sublist run (evs.take (j + 1)) ∧ IsMessage c run m ∧ f = m.image := by
  rw [assembler_delivers_iff_spec, List.getElem?_map] at h
  cases hr : (receive c evs)[j]? with
  | none => rw [hr] at h; cases h
  | some o =>
    rw [hr] at h
    cases o with
    | none => cases h
    | some m =>
      have hf : f = m.image := by simpa using h.symm
      obtain ⟨run, h1, h2⟩ := run_sound c evs [] {} (sinv_nil c none []) j m hr
      exact ⟨run, m, by simpa using h1, h2, hf⟩

/-- **Never takes the link down.** On every block sequence, no `accept` call produces an
    `assembleFrame` error (the only error `accept` can return besides the core's own delivery error);
    dropped and discarded blocks return nil. -/
theorem accept_never_tears_down (isEquip : Bool) (deviceID t4 : Nat) (evs : List TBlock) :
    ∀ tr ∈ ((Asm.init isEquip deviceID t4).run evs).2, hasFrameErr tr = false :=
  (run_sim (c := ⟨isEquip, deviceID, t4⟩) evs (inv_init _ _ _) (rel_init ⟨isEquip, deviceID, t4⟩)).2.1

/-- **Retransmitted duplicates are never redelivered.** In any assembler state, a block whose 10-byte
    header equals that of the last accepted block delivers nothing and is not accumulated. -/
theorem duplicates_never_redelivered (a : Asm) (now : Nat) (blk : Block)
    (h1 : a.haveLast = true) (h2 : blk.hdr = a.lastHeader) :
    deliveredOf (a.accept now blk).2 = none ∧
    ((a.accept now blk).1.blocks = a.blocks ∨ (a.accept now blk).1.blocks = []) ∧
    (a.accept now blk).1.lastHeader = a.lastHeader ∧ (a.accept now blk).1.haveLast = true := by
  simp only [Asm.accept]
  split
  · exact ⟨rfl, Or.inl rfl, rfl, h1⟩
  · split
    · exact ⟨rfl, Or.inl rfl, rfl, h1⟩
    · simp only [Asm.expire]
      split
      · rw [acceptAddressed_dup a.reset now blk h1 h2]
        exact ⟨rfl, Or.inr rfl, rfl, h1⟩
      · rw [acceptAddressed_dup a now blk h1 h2]
        exact ⟨rfl, Or.inl rfl, rfl, h1⟩

/-- Wrong-device and wrong-direction blocks leave the assembler untouched and deliver nothing. -/
theorem foreign_blocks_ignored (a : Asm) (now : Nat) (blk : Block)
    (h : blk.hdr.deviceID ≠ a.deviceID ∨ blk.hdr.rBit = a.isEquip) :
    deliveredOf (a.accept now blk).2 = none ∧ (a.accept now blk).1 = a := by
  simp only [Asm.accept]
  split
  · exact ⟨rfl, rfl⟩
  · split
    · exact ⟨rfl, rfl⟩
    · rename_i h1 h2
      rcases h with h | h
      · exact absurd h h1
      · exact absurd h h2

/-- **The delivered frame is the HSMS image of what was sent.** For every message the peer's `splitBody`
    accepts that is addressed to us (our device id, R-bit toward us), whose blocks arrive in order within
    one T4 window — each possibly followed by retransmissions — the assembler delivers exactly one frame:
    the 10-byte header image (device id, W|stream, function, PType 0, SType 0, system bytes) followed
    by the message body, byte-identical. -/
theorem delivered_frame_is_hsms_image (c : Cfg) (m : OutMsg) (a : Arrivals) (hs : Sendable c m) (hf : Fits c m a) :
    ((Asm.init c.isEquip c.deviceID c.t4).run (lineEvents m a)).2.filterMap deliveredOf =
      [hsmsHeader m.hdr ++ m.body] := by
  have := exactly_once_asm c [(m, a)] (by intro x hx; simp at hx; subst hx; exact ⟨hs, hf⟩) trivial
  simpa [OutMsg.image] using this

/-! ## Non-vacuity -/

def sampleHeader : MsgHeader := { deviceID := 0x1234, rBit := true, stream := 6, function := 0x11, waitBit := true,
                                  s0 := 0xde, s1 := 0xad, s2 := 0xbe, s3 := 0xef }

example : sampleHeader.Valid := ⟨by decide, by decide, by decide⟩

/-- A two-block message followed by a retransmission of its last block: delivered once. -/
example :
    let b1 : Block := { hdr := buildHeader sampleHeader 1 false, body := [1, 2] }
    let b2 : Block := { hdr := buildHeader sampleHeader 2 true, body := [3] }
    (receive ⟨false, 0x1234, 100⟩ [⟨0, b1⟩, ⟨50, b2⟩, ⟨60, b2⟩]).map (·.map Msg.image) =
      [none, some (hsmsHeader sampleHeader ++ [1, 2, 3]), none] := by
  decide

end GoSecs.Props.C17
