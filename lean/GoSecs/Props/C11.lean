/-
  C11 — after any involuntary link loss an open connection recovers: the active side keeps dialing
  with delays that start at the configured initial value, never decrease, never exceed T5; the passive
  side resumes listening; `Reconnects()` grows by exactly one per successful re-dial; the reaction
  never starts a reconnect once Close has set `shutdown`.

  Property theorems only (helpers: GoSecs/Lemmas/Lifecycle.lean, model: GoSecs/Model/Lifecycle.lean).

  Modelled vs. observed
  * `scaled k` stands for Go's `time.Duration(float64(delay_k) * multiplier)`.  Float arithmetic is NOT
    modelled; the theorems need only `ScaledOK`: the product did not shrink the delay, or it is out of
    range (≤ 0 after a NaN/Inf/overflowing conversion, or > T5).  The harness validates that
    hypothesis on the real expression for `cur ≤ 2^53 ns` and `multiplier ≥ 1` (above 2^53 ns ≈ 104 days
    `float64(cur)` may round down — stated limit of the claim) and runs `nextBackoffDelay` itself against
    `clampNext` on NaN / ±Inf / huge / tiny multipliers.
  * `ceil k` is the T5 the loop reads in iteration `k` (the loop reloads the live config each time).
    `backoff_capped` holds for any sequence of ceilings; `backoff_monotone` needs the ceiling not to be
    lowered between two attempts (a caller who lowers T5 mid-backoff gets the lower cap at once).
  * "eventually re-establishes a Selected session once the peer is reachable" is liveness under a fair
    scheduler and a cooperating peer: the model proves that the recovery schedule EXISTS and ends in a
    dial (`every_failure_cause_reaches_reconnect`); that the real runtime takes it is OBSERVED by the
    harness (cutting proxy, dial timestamps, post-recovery round trip).
  * Which code paths raise which failure cause is read off the transport sources (`Cause` in the model);
    the cutting-proxy runs exercise each of them on the real code.
-/
import GoSecs.Lemmas.Lifecycle
import GoSecs.Gen.Facts
import GoSecs.Gen.Hsms

namespace GoSecs.Props.C11
open GoSecs.Lifecycle

/-! ## Backoff: start, monotone, capped — for every sequence -/

/-- Tie to the source, regenerated on every run: the reconnect loop obtains every next delay from the clamped
    pure function `nextBackoffDelay` (whose cap and `next ≤ 0` guard the theorems below describe), and nothing else
    calls it. A loop that advances its delay some other way (seeded change C11b-2: a bare float product, which
    overflows to a negative duration after enough failed dials) breaks this obligation. -/
theorem backoff_chokepoint_gen :
    (GoSecs.Gen.callSites.filter (fun s => s.2.2.2 == "nextBackoffDelay")).map (fun s => (s.1, s.2.1, s.2.2.1))
      = [("hsms", "connection_lifecycle.go", "connection.connectLoop")] := by
  decide

/-- **Start.** The first sleep is the configured initial value (capped by T5, which only matters for a
    configuration with `initial > T5`). -/
theorem backoff_start (initial : Int) (scaled ceil : Nat → Int) :
    sleepAt initial scaled ceil 0 = min initial (ceil 0) :=
  sleepFor_eq_min _ _

/-- With the usual configuration `initial ≤ T5` the first sleep is exactly `initial`. -/
theorem backoff_start_exact (initial : Int) (scaled ceil : Nat → Int) (h : initial ≤ ceil 0) :
    sleepAt initial scaled ceil 0 = initial := by
  rw [backoff_start]; omega

/-- **Capped.** No sleep exceeds the T5 in force at that attempt — for every sequence of float
    products whatsoever (no hypothesis: NaN, Inf, negative, huge are all covered by the clamp). -/
theorem backoff_capped (initial : Int) (scaled ceil : Nat → Int) (k : Nat) :
    sleepAt initial scaled ceil k ≤ ceil k :=
  sleepFor_le _ _

/-- Sleeps are positive (so the loop never spins) whenever `initial > 0` and every T5 > 0 — both are
    enforced by `WithReconnectBackoff` / `WithT5`. -/
theorem backoff_positive (initial : Int) (scaled ceil : Nat → Int) (hi : 0 < initial)
    (hc : ∀ k, 0 < ceil k) (k : Nat) : 0 < sleepAt initial scaled ceil k :=
  sleepFor_pos _ _ (delayAt_pos initial scaled ceil hi hc k) (hc k)

/-- **Monotone.** Consecutive sleeps never decrease, for every sequence satisfying the stated
    hypothesis on the float product, as long as T5 is not lowered between the two attempts. -/
theorem backoff_monotone (initial : Int) (scaled ceil : Nat → Int) (k : Nat)
    (hc : ceil k ≤ ceil (k+1)) (h : ScaledOK initial scaled ceil k) :
    sleepAt initial scaled ceil k ≤ sleepAt initial scaled ceil (k+1) := by
  have h1 := delay_succ_ge initial scaled ceil k h
  have h2 : delayAt initial scaled ceil (k+1) ≤ ceil k := clampNext_le _ _
  have : sleepAt initial scaled ceil (k+1) = delayAt initial scaled ceil (k+1) := by
    simp only [sleepAt, sleepFor]; split <;> omega
  omega

/-- Monotone over any distance, fixed T5. -/
theorem backoff_monotone_le (initial T5 : Int) (scaled : Nat → Int)
    (h : ∀ k, ScaledOK initial scaled (fun _ => T5) k) (j k : Nat) (hjk : j ≤ k) :
    sleepAt initial scaled (fun _ => T5) j ≤ sleepAt initial scaled (fun _ => T5) k := by
  induction k with
  | zero => have : j = 0 := by omega
            subst this; exact Int.le_refl _
  | succ k ih =>
    by_cases hj : j = k + 1
    · subst hj; exact Int.le_refl _
    · have := ih (by omega)
      have := backoff_monotone initial scaled (fun _ => T5) k (Int.le_refl _) (h k)
      omega

/-- Once the ceiling is reached the delay stays there (fixed T5, hypothesis on the product). -/
theorem backoff_stays_at_cap (initial T5 : Int) (scaled : Nat → Int)
    (h : ∀ k, ScaledOK initial scaled (fun _ => T5) k) (j k : Nat) (hjk : j ≤ k)
    (hcap : sleepAt initial scaled (fun _ => T5) j = T5) :
    sleepAt initial scaled (fun _ => T5) k = T5 := by
  have h1 := backoff_monotone_le initial T5 scaled h j k hjk
  have h2 : sleepAt initial scaled (fun _ => T5) k ≤ T5 := backoff_capped initial scaled (fun _ => T5) k
  omega

/-- The driver's executable `backoffRun` computes exactly the sleeps the theorems talk about. -/
theorem backoffRun_is_sleepAt (initial : Int) (scaled ceil : Nat → Int) (n : Nat) :
    backoffRun initial ((List.range n).map (fun j => (scaled j, ceil j)))
      = (List.range n).map (sleepAt initial scaled ceil) := by
  have := backoffRun_eq initial scaled ceil n 0
  simpa [List.range_eq_range', delayAt] using this

/-- The clamp of `nextBackoffDelay`, as a specification: inside `(0, T5]` the product is kept,
    anything else becomes T5. -/
theorem clamp_spec (scaled T5 : Int) :
    (0 < scaled ∧ scaled ≤ T5 → clampNext scaled T5 = scaled) ∧
    (scaled ≤ 0 ∨ scaled > T5 → clampNext scaled T5 = T5) :=
  ⟨fun h => clampNext_of_range _ _ h.1 h.2, clampNext_of_out _ _⟩

/-- **`nextBackoffDelay`, regenerated from hsms/connection_lifecycle.go, is the model's `clampNext`** of whatever
    integer the float product `time.Duration(float64(cur) * multiplier)` converts to (floats are not represented: the
    converted value is the one oracle value, so NaN, ±Inf, overflow, tiny and huge multipliers are all covered — Go leaves
    such conversions to the implementation): the `next <= 0 || next > ceil` guard, the cap, and nothing else. -/
theorem nextBackoffDelay_gen (cur ceil scaled : Int) (rest : List Go.Val) :
    GoSecs.Gen.hsms_nextBackoffDelay cur ceil (.int scaled :: rest) =
      (clampNext scaled ceil, [.call "float.toInt" [.opaque]], rest) := by
  have key : ∀ (next : Int) (tr : List Go.Effect),
      (if (decide (next ≤ 0) || decide (next > ceil)) then (ceil, tr, rest) else (next, tr, rest)) =
        (clampNext next ceil, tr, rest) := by
    intro next tr
    unfold clampNext
    by_cases h : next ≤ 0 ∨ next > ceil
    · have hb : (decide (next ≤ 0) || decide (next > ceil)) = true := by rcases h with h | h <;> simp [h]
      simp only [hb, h, reduceIte]
    · have hb : (decide (next ≤ 0) || decide (next > ceil)) = false := by
        simp only [not_or] at h; simp [h.1, h.2]
      simp only [hb, h, reduceIte, Bool.false_eq_true]
  exact key scaled _

/-! ## Reconnect counter -/

/-- **Exactly one per successful re-dial, nothing else.** One step changes `Reconnects()` by one iff
    it is a counting reconnect loop's successful `tr.Start` (dial/listen ok and not sealed by a
    concurrent Close); every other action — Open (including its first dial and the cold-peer loop,
    `count = false`), Close, failed dials, supervisor and transport activity — leaves it unchanged. -/
theorem reconnects_plus_one_per_success (c : Cfg) (a : Act) :
    (step c a).reconnects = c.reconnects + (if countsReconnect c a then 1 else 0) :=
  reconnects_step c a

/-- Over every interleaving: the counter equals the number of counting successful re-dials. -/
theorem reconnects_count_run (c : Cfg) (as : List Act) :
    (run c as).reconnects = c.reconnects + countSucc c as :=
  reconnects_run c as

/-- A failed dial never counts. -/
theorem failed_dial_not_counted (c : Cfg) (i : Nat) :
    (step c (.loopStartFail i)).reconnects = c.reconnects := by
  rw [reconnects_step]; rfl

/-- The first connect of an Open never counts (nor does anything else Open does). -/
theorem open_not_counted (c : Cfg) (m : Mode) :
    (run c [.openEnter m, .openArm, .openStartOk]).reconnects = c.reconnects := by
  rw [reconnects_run]; rfl

/-- The cold-peer background loop started by Open is created with `count = false`. -/
theorem cold_loop_not_counting (c c' : Cfg) (h : step? c .openColdDone = some c') :
    ∃ e, c'.loops = c.loops ++ [{ prev := e, gen := c.gen, count := false }] := by
  simp only [step?] at h
  split at h
  · split at h
    · injection h with h; subst h; exact ⟨_, rfl⟩
    · cases h
  · cases h

/-! ## Every failure cause funnels into the reconnect loop -/

/-- The action by which each cause reaches the supervisor. -/
theorem cause_event (cause : Cause) : cause.act = .envDown ∨ (cause = .t7Dwell ∧ cause.act = .envT7) := by
  cases cause <;> simp [Cause.act]

/-- **Funnel.** From an established generation (supervisor idle and drained, not shut down), every
    modelled failure cause — after the supervisor's reaction — leaves a fresh counting reconnect loop
    parked on the dropped generation's join, with that generation's teardown initiated, the state
    NotConnected and nothing dialled yet.  (T7 only applies while NotSelected, by design.) -/
theorem every_failure_cause_spawns_loop (c : Cfg) (e : Nat) (s : Sup) (h : Established c e s)
    (cause : Cause) (ht7 : cause = .t7Dwell → s.st = .ns) :
    let c' := run c [cause.act, .supStep, .reactCheck, .reactSpawn, .reactTeardown]
    c'.loops = c.loops ++ [{ prev := e, gen := c.gen, count := true, pc := .waitPrev, k := 0 }]
      ∧ phaseOf c' e = .torn ∧ supSt c' = .nc ∧ c'.cur = some e ∧ c'.shutdown = false
      ∧ c'.dials = c.dials := by
  apply spawn_after c e s h
  cases cause <;> simp_all [Cause.act]

/-- **Recovery exists.** …and the library-side continuation (join of the dropped generation, wake,
    initial sleep, both fences, publish, `tr.Start`) ends in exactly one new dial on a fresh published
    generation that owns the transport with the start gate open; on success the counter is +1, the
    active side is back at NotSelected (its Select procedure running), the passive side is listening. -/
theorem every_failure_cause_reaches_reconnect (c : Cfg) (e : Nat) (s : Sup) (h : Established c e s)
    (cause : Cause) (ht7 : cause = .t7Dwell → s.st = .ns) :
    let c' := run c (cause.act :: recoverySchedule c e)
    c'.dials = c.dials + 1 ∧ c'.reconnects = c.reconnects + 1 ∧ c'.cur = some c.epochs.length
      ∧ c'.tr.owner = some c.epochs.length ∧ c'.tr.stopping = false
      ∧ (c.active = true → supSt c' = .ns) ∧ (c.active = false → c'.tr.acceptAvail = true) := by
  apply redial_after c e s h
  cases cause <;> simp_all [Cause.act]

/-! ## No reconnect once Close has fenced -/

/-- With `shutdown` set the reaction goes straight to teardown: no loop is spawned. -/
theorem react_no_spawn_when_shutdown (c c' : Cfg) (hs : c.shutdown = true)
    (h : step? c .reactCheck = some c') : c'.loops = c.loops ∧
      ∀ s', c'.sup = some s' → ∀ e b, s'.pc ≠ .reactSpawn e b := by
  simp only [step?] at h
  split at h
  · next s hsup =>
    split at h
    · next closing hpc =>
      injection h with h; subst h
      refine ⟨rfl, ?_⟩
      intro s' hs' e b
      simp only [Option.some.injEq] at hs'
      subst hs'
      simp only [hs]
      cases c.cur <;> simp <;> split <;> simp
    · cases h
  · cases h

/-- With `shutdown` set (or the fence generation advanced) the loop abandons at F3 and at the
    `publishMu` fence: it neither builds nor publishes a generation, and dials nothing. -/
theorem loop_abandons_when_fenced (c : Cfg) (i : Nat) (l : Loop) (hl : c.loops[i]? = some l)
    (hs : stale c l = true) :
    (step c (.loopFence i)).cur = c.cur ∧ (step c (.loopFence i)).epochs = c.epochs ∧
    (step c (.loopPublish i)).cur = c.cur ∧ (step c (.loopPublish i)).dials = c.dials ∧
    (step c (.loopFence i)).dials = c.dials := by
  simp only [step, step?, hl]
  refine ⟨?_, ?_, ?_, ?_, ?_⟩ <;> (repeat' split) <;> simp_all [setLoop]

/-! ## Non-vacuity -/

/-- A concrete reachable established configuration (active role): Open, dial ok, peer selects. -/
def sampleEstablished : Cfg :=
  run (init true) [.openEnter .background, .openArm, .openStartOk, .envSelected]

example : ∃ e s, Established sampleEstablished e s :=
  ⟨0, { st := .sel }, by constructor <;> decide⟩

/-- …and a backoff sequence meeting `ScaledOK`: 20 ms doubling under T5 = 100 ms. -/
example : ∀ k, ScaledOK 20 (fun k => 20 * 2 ^ (k+1)) (fun _ => 100) k := by
  intro k
  unfold ScaledOK
  cases k with
  | zero => left; simp [delayAt]
  | succ k =>
    by_cases h : (20 * 2 ^ (k + 1 + 1) : Int) > 100
    · right; right; exact h
    · left
      simp only [delayAt, clampNext]
      have : (2:Int) ^ (k+1+1) = 2 * 2 ^ (k+1) := by rw [Int.pow_succ]; omega
      have hp : (0:Int) < 2 ^ (k+1) := Int.pow_pos (by omega)
      split <;> omega

end GoSecs.Props.C11
