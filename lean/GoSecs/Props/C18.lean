/-
  C18 — SECS-I delivers each successfully sent message exactly once over a faulty line.

  Property theorems only.  Model: GoSecs/Model/Secs1.lean part 2 — (2a) one `sendBlock` call against a
  scripted peer at character level and `receiveBlock`; (2b) two endpoints (assemblers from part 1) and a
  line that, per block-transfer attempt, delivers intact, corrupts, truncates, NAKs, drops a handshake
  character or loses the ACK.  T1/T2 are not wall time here: a timeout is "the awaited character never
  came" (DESIGN §4.5); inter-block gaps are within T4 by hypothesis (constant assembler clock).
-/
import GoSecs.Lemmas.Secs1
import GoSecs.Gen.Consts

namespace GoSecs.Props.C18
open GoSecs GoSecs.Secs1 GoSecs.Spec.E4Receive

/-! ## Tie to the source -/

theorem consts_gen :
    Gen.secs1_enq = (ENQ.toNat : Int) ∧ Gen.secs1_eot = (EOT.toNat : Int) ∧
    Gen.secs1_ack = (ACK.toNat : Int) ∧ Gen.secs1_nak = (NAK.toNat : Int) ∧
    Gen.secs1_sendOK = 0 ∧ Gen.secs1_sendRetry = 1 ∧ Gen.secs1_sendContention = 2 ∧ Gen.secs1_sendAbort = 3 ∧
    Gen.secs1_minBlockLength = (minBlockLength : Int) ∧ Gen.secs1_maxBlockLength = (maxBlockLength : Int) ∧
    Gen.secs1_checksumSize = (checksumSize : Int) := by
  decide

/-! ## The RTY loop (character level) -/

/-- **At most retry-limit+1 attempts** between successful contention yields, for every peer schedule,
    both roles, every retry limit: no run of attempts (ENQs) without an intervening delivered yield is
    longer than `limit + 1`. -/
theorem attempts_le_retry_plus_one (isEquip : Bool) (limit : Nat) (blk : Block) (sched : List PeerAct) :
    maxRun (sendBlock isEquip limit blk sched).attempts 0 0 ≤ limit + 1 :=
  sendLoop_maxRun isEquip limit blk sched 0 0 0 (limit + 1) (by omega) (by omega) (by omega)

/-- `sendBlock` returns nil iff exactly one attempt ended with the peer's ACK — the last one; a failed
    send never saw an ACK. -/
theorem send_ok_iff_single_ack (isEquip : Bool) (limit : Nat) (blk : Block) (sched : List PeerAct) :
    (sendBlock isEquip limit blk sched).attempts.count .ok = (if (sendBlock isEquip limit blk sched).ok then 1 else 0) ∧
    ((sendBlock isEquip limit blk sched).ok = true → (sendBlock isEquip limit blk sched).attempts.getLast? = some .ok) :=
  sendLoop_ok_count isEquip limit blk sched 0

/-- A master never yields: whatever the peer does, no attempt of an equipment-role sender is a yield,
    and nothing is delivered through the send path. -/
theorem master_never_yields (blk : Block) (act : PeerAct) :
    (sendAttempt true blk act).1 ≠ .yieldDelivered ∧ (sendAttempt true blk act).1 ≠ .yieldFailed ∧
    (sendAttempt true blk act).2.2 = none := by
  cases act <;> simp [sendAttempt]

/-- A slave delivers the master's block taken during a yield only when it arrived intact, and then
    exactly that block. -/
theorem yield_delivers_only_intact (blk : Block) (act : PeerAct) (b : Block) :
    (sendAttempt false blk act).2.2 = some b ↔ act = .contendGood b := by
  cases act <;> simp [sendAttempt]

/-- **A flipped character is never ACKed.** Any change of one character after the length character of a
    transmitted block makes `receiveBlock` answer NAK. (A flipped *length* character is caught by T1 or by
    the range check when it grows or leaves 10..254; when it shrinks, detection rests on the checksum of
    the shorter prefix — SEMI E4 gives no guarantee there and neither do we.) -/
theorem flipped_character_never_acked (b : Block) (hb : b.body.length ≤ 244) (j : Nat) (hj : j + 1 < b.wire.length)
    (v : UInt8) (hv : v ≠ b.wire[j+1]) :
    (receiveBlock (.raw (b.wire.set (j+1) v))).answer = NAK := by
  have h := receive_rejects_flipped b hb j hj v hv
  simp only [receiveBlock]
  cases hr : receiveBytes (b.wire.set (j+1) v) with
  | block b' => exact absurd hr (h b')
  | _ => rfl

/-- An intact block is ACKed and returned unchanged. -/
theorem intact_block_acked (b : Block) (hb : b.body.length ≤ 244) :
    ∃ r, receiveBlock (.intact b) = r ∧ r.answer = ACK ∧ (match r with | .block b' => b' = b | _ => False) := by
  have hlb : (UInt8.ofNat (blockHeaderSize + b.body.length)).toNat = 10 + b.body.length := by
    rw [ofNat_toNat]; simp only [blockHeaderSize]; omega
  have hl : (b.payload ++ beBytes 2 (checksum b.payload)).length = 10 + b.body.length + 2 := by simp [payload_length]
  have hp := parse_wire b hb
  simp only [Block.wire, parseWire] at hp
  have : receiveBlock (.intact b) = .block b := by
    simp only [receiveBlock, Block.wire, receiveBytes, hlb, minBlockLength, maxBlockLength, checksumSize]
    have h1 : ¬ (10 + b.body.length < 10 ∨ 10 + b.body.length > 254) := by omega
    have h2 : ¬ ((b.payload ++ beBytes 2 (checksum b.payload)).length < 10 + b.body.length + 2) := by omega
    simp only [h1, h2, reduceIte]
    rw [List.take_of_length_le (by omega), hp]
  exact ⟨_, this, rfl, rfl⟩

/-! ## Exactly once, unaltered, in order (receiver side of the composition) -/

/-- **Delivered exactly once, intact, in the order sent.** For every receiver configuration, every
    sequence of messages the sender's `splitBody` accepts (addressed to the receiver; consecutive messages
    with different headers — stated hypothesis), and every retransmission pattern — each block of each
    message arrives intact, followed by any number of retransmissions of that same block (the sender missed
    the ACK: dropped, replaced or late), all within the T4 window (second stated hypothesis) — the assembler
    hands the handlers exactly the images of the messages, each once, byte-identical, in the order sent.
    Corrupted or truncated transmissions never reach the assembler (`flipped_character_never_acked`), so
    "each block arrives intact, possibly repeated" is what a successful `sendBlock` of every block means.

    FULL STATEMENT (not proved as a theorem): in `Line.run` over every fault schedule, every message in
    `succeeded` of one endpoint occurs exactly once in `delivered` of the other.  Missing: the invariant
    that the blocks `Endpoint.take`n by the peer within one connection generation form exactly such a
    stream (block k is retransmitted only until ACKed; teardown resets both assemblers).  That link is
    covered by the end-to-end correspondence runs, not by proof. -/
theorem success_implies_delivered_once_partial (c : Cfg) (ms : List (OutMsg × Arrivals))
    (hs : ∀ x ∈ ms, Sendable c x.1 ∧ Fits c x.1 x.2) (hd : DistinctHdrs ms) :
    ((Asm.init c.isEquip c.deviceID c.t4).run (ms.flatMap (fun x => lineEvents x.1 x.2))).2.filterMap deliveredOf =
      ms.map (fun x => x.1.image) :=
  exactly_once_asm c ms hs hd

/-- **Never twice, never altered**: under the same hypotheses, every delivered frame is the image of one of
    the sent messages and there are exactly as many deliveries as messages. -/
theorem never_twice_never_altered (c : Cfg) (ms : List (OutMsg × Arrivals))
    (hs : ∀ x ∈ ms, Sendable c x.1 ∧ Fits c x.1 x.2) (hd : DistinctHdrs ms) :
    let out := ((Asm.init c.isEquip c.deviceID c.t4).run (ms.flatMap (fun x => lineEvents x.1 x.2))).2.filterMap deliveredOf
    out.length = ms.length ∧ ∀ f ∈ out, ∃ x ∈ ms, f = hsmsHeader x.1.hdr ++ x.1.body := by
  intro out
  have h : out = ms.map (fun x => x.1.image) := exactly_once_asm c ms hs hd
  refine ⟨by rw [h]; simp, ?_⟩
  intro f hf
  rw [h] at hf
  obtain ⟨x, hx, rfl⟩ := List.mem_map.mp hf
  exact ⟨x, hx, rfl⟩

/-- **Order per direction**: the i-th delivery is the i-th message sent. -/
theorem order_per_direction (c : Cfg) (ms : List (OutMsg × Arrivals))
    (hs : ∀ x ∈ ms, Sendable c x.1 ∧ Fits c x.1 x.2) (hd : DistinctHdrs ms) (i : Nat) (hi : i < ms.length) :
    (((Asm.init c.isEquip c.deviceID c.t4).run (ms.flatMap (fun x => lineEvents x.1 x.2))).2.filterMap deliveredOf)[i]? =
      some (ms[i].1.image) := by
  rw [exactly_once_asm c ms hs hd]
  simp [hi]

/-- The duplicate-header hypothesis is necessary: a second single-block message with the very same header
    right after the first is indistinguishable from a retransmission and is (correctly, per E4 §9.4.2)
    not delivered. -/
theorem same_header_message_is_dropped :
    let h : MsgHeader := { deviceID := 1, rBit := true, stream := 1, function := 1 }
    let b : Block := { hdr := buildHeader h 1 true, body := [7] }
    (receive ⟨false, 1, 100⟩ [⟨0, b⟩, ⟨1, b⟩]).filterMap id = [⟨h, [7]⟩] := by
  decide

/-! ## Contention (block-transfer level) -/

/-- **The master sends first.** For every configuration and every fault: whenever the master has a block
    to send, the step is the master's transfer attempt — none of the slave's sends completes and nothing
    from the slave reaches the master's handlers (the contending host yields). -/
theorem contention_master_first (l : Line) (f : Fault) (m : OutMsg) (blk : Block) (rest : List Block)
    (hm : l.master.load.cur = some (m, blk :: rest)) :
    (l.step f).slave.succeeded = l.slave.succeeded ∧ (l.step f).master.delivered = l.master.delivered :=
  master_first l f m blk rest hm

/-- **The host's postponed message follows.** Once the master has nothing left to send, the next
    undisturbed step transfers the slave's pending block to the master. -/
theorem contention_host_follows (l : Line) (m : OutMsg) (blk : Block) (rest : List Block)
    (hm : l.master.load.cur = none) (hs : l.slave.load.cur = some (m, blk :: rest)) :
    (l.step .none).master.delivered = (l.master.load.take blk).delivered ∧
    (l.step .none).slave.succeeded = l.slave.load.acked.succeeded :=
  slave_follows l m blk rest hm hs

/-- **No stuck configuration (partial).** In every configuration where the master holds a block, every
    fault leads to one of: the block is ACKed (the message advances or completes, retry counter 0); the
    retry counter grows by one and stays within the limit; or the link is re-established with nothing on
    the line and both counters 0.  Since the counter is bounded by the retry limit, a block is settled after
    at most limit+1 steps.

    FULL STATEMENT (not proved): for every schedule long enough (Σ blocks · (limit+1) steps) `Line.run`
    reaches a quiescent configuration.  Missing: the symmetric case for the slave holding the line (same
    proof shape) and the termination measure over queued messages; wall-clock liveness (T1/T2 actually
    expiring) is outside the model. -/
theorem no_stuck_configuration_partial (l : Line) (f : Fault) (m : OutMsg) (blk : Block) (rest : List Block)
    (hm : l.master.load.cur = some (m, blk :: rest)) :
    ((l.step f).master.cur = (if rest = [] then none else some (m, rest)) ∧ (l.step f).master.retry = 0) ∨
    ((l.step f).master.cur = l.master.load.cur ∧ (l.step f).master.retry = l.master.load.retry + 1 ∧
      (l.step f).master.retry ≤ l.master.load.limit) ∨
    ((l.step f).master.cur = none ∧ (l.step f).master.retry = 0 ∧ (l.step f).slave.cur = none ∧ (l.step f).slave.retry = 0) :=
  master_step_progress l f m blk rest hm

/-! ## Non-vacuity: contention, a lost ACK and a corrupted block, all messages delivered once -/

example :
    let hm : MsgHeader := { deviceID := 291, rBit := true, stream := 1, function := 1, s3 := 1 }
    let hs : MsgHeader := { deviceID := 291, rBit := false, stream := 2, function := 3, s3 := 2 }
    let l : Line := { master := Endpoint.init true 291 1 [⟨hm, [1, 2]⟩], slave := Endpoint.init false 291 1 [⟨hs, []⟩] }
    let r := l.run [.dropAck, .none, .flipChar, .none]
    r.quiescent = true ∧ r.slave.delivered = [hsmsHeader hm ++ [1, 2]] ∧ r.master.delivered = [hsmsHeader hs] ∧
    r.master.succeeded.length = 1 ∧ r.slave.succeeded.length = 1 := by
  decide

end GoSecs.Props.C18
