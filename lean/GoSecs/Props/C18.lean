/-
  C18 — SECS-I delivers each successfully sent message exactly once over a faulty line.

  Property theorems only.  Model: GoSecs/Model/Secs1.lean part 2 — (2a) one `sendBlock` call against a
  scripted peer at character level and `receiveBlock`; (2b) two endpoints (assemblers from part 1) and a
  line that, per block-transfer attempt, delivers intact, corrupts, truncates, NAKs, drops a handshake
  character or loses the ACK.  T1/T2 are not wall time here: a timeout is "the awaited character never
  came" (DESIGN §4.5); inter-block gaps are within T4 by hypothesis (constant assembler clock).
-/
import GoSecs.Lemmas.Secs1
import GoSecs.Lemmas.Secs1Line
import GoSecs.Lemmas.Secs1Gen
import GoSecs.Lemmas.Secs1LineGen
import GoSecs.Lemmas.Secs1LineModel
import GoSecs.Gen.Consts

namespace GoSecs.Props.C18
open GoSecs GoSecs.Secs1 GoSecs.Spec.E4Receive

/-! ## Tie to the source -/

theorem consts_gen :
    Gen.secs1_enq = (ENQ.toNat : Int) ∧ Gen.secs1_eot = (EOT.toNat : Int) ∧
    Gen.secs1_ack = (ACK.toNat : Int) ∧ Gen.secs1_nak = (NAK.toNat : Int) ∧
    Gen.secs1_sendOK = 0 ∧ Gen.secs1_sendRetry = 1 ∧ Gen.secs1_sendContention = 2 ∧ Gen.secs1_sendAbort = 3 ∧
    Gen.secs1_minBlockLength = (minBlockLength : Int) ∧ Gen.secs1_maxBlockLength = (maxBlockLength : Int) ∧
    Gen.secs1_checksumSize = (checksumSize : Int) := by
  decide

/-- The wire form the sender puts on the line (`block.appendTo`, regenerated from secs1/block.go) is the
    model's `Block.wire` appended, for every block. -/
theorem appendTo_gen (b : Block) (dst : Bytes) : Gen.secs1_block_appendTo b.toGen dst = some (appendTo dst b) :=
  Secs1.appendTo_gen b dst

/-- What the receiver accepts (`parseBlock`, regenerated from secs1/block.go) is what the model's
    `parseBlock` accepts, with the same error for every rejected input — in particular a corrupted or
    truncated block is NAKed in the code exactly when the exactly-once argument below assumes it is. -/
theorem parseBlock_gen (lb : UInt8) (rest : Bytes) :
    Gen.secs1_parseBlock (lb.toNat : Int) rest =
      some (match parseBlock lb rest with
        | .ok b => (b.toGen, none)
        | .error e => (Gen.secs1_block.zero, some e.goName)) :=
  Secs1.parseBlock_gen lb rest

/-! ## The line engine, regenerated from secs1/line.go (effect mode with the I/O extension of tools/go2lean)

  Socket reads / writes, deadline calls, the clock, the live timers, the context poll, the metrics counters and the
  `deliver` callback are trace entries (`LnEv`, rendered by `rend`); what they return comes from a script of environment
  answers (`Io.Ans`, rendered as the oracle list by `Io.enc`).  `…S` are the hand-written sequential functions of
  Lemmas/Secs1LineGen.lean.  Each theorem holds for every script, both roles, every block, every fuel for which the
  sequential function returns (`none` = the script does not answer what the code asks, or out of fuel; the regenerated
  function is then `none` too for "out of fuel", see `Io.loopWhileM_sim`). -/

/-- `readByte(timeout)`: clock, `SetReadDeadline(clock + timeout)`, one `ReadByte`. -/
theorem readByte_gen (l : Gen.secs1_lineIO) (timeout : Int) (s : List Io.Ans) (rest : List Go.Val)
    (b : UInt8) (e : Go.Err) (evs : List LnEv) (s' : List Io.Ans) (h : readByteS timeout s = some (b, e, evs, s')) :
    Gen.secs1_lineIO_readByte l timeout (Io.enc s ++ rest) = ((b.toNat : Int), e, rend evs, Io.enc s' ++ rest) :=
  Secs1.readByte_gen l timeout s rest b e evs s' h

/-- `writeAll(data)`: `conn.Write(data[written:])` until everything is out or a write fails. -/
theorem writeAll_gen (l : Gen.secs1_lineIO) (fuel : Nat) (data : Bytes) (s : List Io.Ans) (rest : List Go.Val)
    (e : Go.Err) (evs : List LnEv) (s' : List Io.Ans) (h : writeAllS fuel data s = some (e, evs, s')) :
    Gen.secs1_lineIO_writeAll l data fuel (Io.enc s ++ rest) = some (e, rend evs, Io.enc s' ++ rest) :=
  Secs1.writeAll_gen l fuel data s rest e evs s' h

/-- **`sendBlockData`**: write the block's wire form, then ONE character under T2: ACK → sendOK; any other
    character, a read error or the T2 timeout → sendRetry; a write error → sendAbort. -/
theorem sendBlockData_gen (l : Gen.secs1_lineIO) (fuel : Nat) (blk : Block) (s : List Io.Ans) (rest : List Go.Val)
    (code : Int) (err : Go.Err) (evs : List LnEv) (s' : List Io.Ans)
    (h : sendDataS fuel blk s = some (code, err, evs, s')) :
    Gen.secs1_lineIO_sendBlockData l blk.toGen fuel (Io.enc s ++ rest) = some (code, err, rend evs, Io.enc s' ++ rest) :=
  Secs1.sendData_gen l fuel blk s rest code err evs s' h

/-- **`sendBlockOnce`**: ENQ; deadline = clock + T2; per iteration the context poll, the remaining T2 budget
    (`deadline - clock <= 0` → sendRetry), one character under that budget; EOT → `sendBlockData`; ENQ at a slave
    (`!isEquip`) → sendContention, detected only; every other character (a stray ENQ at the master included) is
    ignored and the wait goes on. -/
theorem sendBlockOnce_gen (l : Gen.secs1_lineIO) (fuel : Nat) (blk : Block) (s : List Io.Ans) (rest : List Go.Val)
    (code : Int) (err : Go.Err) (evs : List LnEv) (s' : List Io.Ans)
    (h : sendOnceS fuel l.isEquip blk s = some (code, err, evs, s')) :
    Gen.secs1_lineIO_sendBlockOnce l blk.toGen fuel (Io.enc s ++ rest) = some (code, err, rend evs, Io.enc s' ++ rest) :=
  Secs1.sendOnce_gen l fuel blk s rest code err evs s' h

/-- **`sendBlock`, the RTY loop**: `for retry <= retryLimit`; sendOK → nil; sendRetry → `retry++`; sendContention →
    count the yield, EOT, `receiveBlock`: a failed receive is a retry (`retry++`, nothing delivered), a received block
    is handed to `deliver` and `retry = 0`; sendAbort → the error; the loop left → ErrSendFailed. -/
theorem sendBlock_gen (l : Gen.secs1_lineIO) (fuel : Nat) (blk : Block) (limit : Int) (s : List Io.Ans)
    (rest : List Go.Val) (err : Go.Err) (evs : List LnEv) (s' : List Io.Ans)
    (h : sendBlockS fuel l.isEquip blk limit s = some (err, evs, s')) :
    Gen.secs1_lineIO_sendBlock l blk.toGen limit fuel (Io.enc s ++ rest) = some (err, rend evs, Io.enc s' ++ rest) :=
  Secs1.sendBlock_gen l fuel blk limit s rest err evs s' h

/-- **`receiveBlock`** (the receiver side of the exactly-once argument: what gets ACKed): see Props/C17
    `receiveBlock_gen` for the statement; here re-exported because a block that is ACKed without being valid, or NAKed
    although valid, breaks "delivered exactly once". -/
theorem receiveBlock_gen (l : Gen.secs1_lineIO) (fuel : Nat) (s : List Io.Ans) (rest : List Go.Val)
    (ob : Option Block) (err : Go.Err) (evs : List LnEv) (s' : List Io.Ans)
    (h : receiveS fuel s = some (ob, err, evs, s')) :
    Gen.secs1_lineIO_receiveBlock l fuel (Io.enc s ++ rest) = some (blkGen ob, err, rend evs, Io.enc s' ++ rest) :=
  Secs1.receive_gen l fuel s rest ob err evs s' h

/-! ### … and the sequential line engine is the character-level model on the script of a peer schedule

  `Env`: how a peer behaviour becomes environment answers (clock readings, the live timers with `0 < T2`, a noise
  character other than ENQ/EOT, a reply other than ACK, what arrives of a corrupted block — any byte string
  `receiveBytes` does not accept, e.g. a block with one character flipped: `flipped_character_never_acked`). -/

/-- **One iteration of the RTY loop against one peer action is the model's `sendAttempt`**: the loop goes on / returns
    as the model's outcome says (OK → nil; retry and failed yield → `retry + 1`; delivered yield → `retry = 0`), the
    characters written are the model's, the block handed to `deliver` is the model's — both roles, all nine actions. -/
theorem attempt_is_sendAttempt (env : Env) (hok : env.OK) (F : Nat) (isEquip : Bool) (blk : Block) (act : PeerAct)
    (hwf : act.WF) (evs : List LnEv) (rest : List Io.Ans) (retry : Int) :
    sbStep (F + 2) isEquip blk ⟨evs, actScript env isEquip blk act ++ rest, retry⟩ =
      some (stepOf (sendAttempt isEquip blk act).1 (evs ++ actEvs env isEquip blk act) rest retry) ∧
    writes (actEvs env isEquip blk act) = (sendAttempt isEquip blk act).2.1 ∧
    delivered (actEvs env isEquip blk act) = ((sendAttempt isEquip blk act).2.2.map Block.toGen).toList :=
  ⟨attempt_model env hok F isEquip blk act hwf evs rest retry, act_writes env hok isEquip blk act hwf,
   act_delivered env hok isEquip blk act hwf⟩

/-- **The regenerated `sendBlock` is the model's `sendBlock`** — for every retry limit, both roles, every block, every
    schedule of peer actions, every environment and every fuel above the number of attempts the model makes: the Go
    function returns nil iff the model's trace is `ok` and ErrSendFailed otherwise, consumes exactly the answers of the
    attempts the model makes, writes exactly the model's `line` and hands `deliver` exactly the model's `delivered`.
    So `attempts_le_retry_plus_one`, `send_ok_iff_single_ack`, `master_never_yields`, `yield_delivers_only_intact`
    below are statements about what the source does on the line. -/
theorem sendBlock_source_is_model (env : Env) (hok : env.OK) (F : Nat) (l : Gen.secs1_lineIO) (blk : Block)
    (limit : Nat) (sched : List PeerAct) (hwf : ∀ a ∈ sched, a.WF)
    (hF : (sendBlock l.isEquip limit blk sched).attempts.length + 1 ≤ F + 2) (rest : List Go.Val) :
    ∃ evs, Gen.secs1_lineIO_sendBlock l blk.toGen (limit : Int) (F + 2)
              (Io.enc (schedScript env l.isEquip blk limit 0 sched) ++ rest) =
        some (if (sendBlock l.isEquip limit blk sched).ok then none else some "ErrSendFailed", rend evs, rest) ∧
      writes evs = (sendBlock l.isEquip limit blk sched).line ∧
      delivered evs = (sendBlock l.isEquip limit blk sched).delivered.map Block.toGen := by
  obtain ⟨evs, h, hw, hd⟩ := sendBlock_model env hok F l.isEquip blk limit sched hwf hF []
  refine ⟨evs, ?_, hw, hd⟩
  have := Secs1.sendBlock_gen l (F + 2) blk (limit : Int) _ rest _ evs [] h
  simpa using this

/-- **`receiveBlock` computes the model's verdict** for every byte string that arrives after our EOT (and then
    silence): it returns the block iff `receiveBytes` says `.block`, the verdict's sentinel otherwise, answers with the
    one character `(receiveBytes bs).answer`, and (`recvEvs`) drains the line before the NAK exactly for a bad length
    and for a parse error — never for the T2 / T1 timeouts. -/
theorem receiveBlock_source_is_model (env : Env) (fuel : Nat) (l : Gen.secs1_lineIO) (bs : Bytes) (rest : List Go.Val) :
    Gen.secs1_lineIO_receiveBlock l (fuel + 2) (Io.enc (recvScript env bs) ++ rest) =
      some (blkGen (receiveBytes bs).blockOpt, (receiveBytes bs).err, rend (recvEvs env bs), rest) ∧
    writes (recvEvs env bs) = [(receiveBytes bs).answer] := by
  have h := receive_model env fuel bs []
  have := Secs1.receive_gen l (fuel + 2) _ rest _ _ _ [] h
  exact ⟨by simpa using this, recvEvs_writes env bs⟩

/-- a usable environment exists (a corrupted block of which nothing arrives is one that is not accepted) -/
example : (⟨{ Gen.hsms_TimerConfig.zero with T2 := 1 }, 0, 0xFF, 0x00, fun _ => []⟩ : Env).OK :=
  ⟨by decide, by decide, by decide, by decide, fun _ _ => by simp [receiveBytes]⟩

/-! ## The RTY loop (character level) -/

/-- **At most retry-limit+1 attempts** between successful contention yields, for every peer schedule,
    both roles, every retry limit: no run of attempts (ENQs) without an intervening delivered yield is
    longer than `limit + 1`. -/
theorem attempts_le_retry_plus_one (isEquip : Bool) (limit : Nat) (blk : Block) (sched : List PeerAct) :
    maxRun (sendBlock isEquip limit blk sched).attempts 0 0 ≤ limit + 1 :=
  sendLoop_maxRun isEquip limit blk sched 0 0 0 (limit + 1) (by omega) (by omega) (by omega)

/-- `sendBlock` returns nil iff exactly one attempt ended with the peer's ACK — the last one; a failed
    send never saw an ACK. -/
theorem send_ok_iff_single_ack (isEquip : Bool) (limit : Nat) (blk : Block) (sched : List PeerAct) :
    (sendBlock isEquip limit blk sched).attempts.count .ok = (if (sendBlock isEquip limit blk sched).ok then 1 else 0) ∧
    ((sendBlock isEquip limit blk sched).ok = true → (sendBlock isEquip limit blk sched).attempts.getLast? = some .ok) :=
  sendLoop_ok_count isEquip limit blk sched 0

/-- A master never yields: whatever the peer does, no attempt of an equipment-role sender is a yield,
    and nothing is delivered through the send path. -/
theorem master_never_yields (blk : Block) (act : PeerAct) :
    (sendAttempt true blk act).1 ≠ .yieldDelivered ∧ (sendAttempt true blk act).1 ≠ .yieldFailed ∧
    (sendAttempt true blk act).2.2 = none := by
  cases act <;> simp [sendAttempt]

/-- A slave delivers the master's block taken during a yield only when it arrived intact, and then
    exactly that block. -/
theorem yield_delivers_only_intact (blk : Block) (act : PeerAct) (b : Block) :
    (sendAttempt false blk act).2.2 = some b ↔ act = .contendGood b := by
  cases act <;> simp [sendAttempt]

/-- **A flipped character is never ACKed.** Any change of one character after the length character of a
    transmitted block makes `receiveBlock` answer NAK. (A flipped *length* character is caught by T1 or by
    the range check when it grows or leaves 10..254; when it shrinks, detection rests on the checksum of
    the shorter prefix — SEMI E4 gives no guarantee there and neither do we.) -/
theorem flipped_character_never_acked (b : Block) (hb : b.body.length ≤ 244) (j : Nat) (hj : j + 1 < b.wire.length)
    (v : UInt8) (hv : v ≠ b.wire[j+1]) :
    (receiveBlock (.raw (b.wire.set (j+1) v))).answer = NAK := by
  have h := receive_rejects_flipped b hb j hj v hv
  simp only [receiveBlock]
  cases hr : receiveBytes (b.wire.set (j+1) v) with
  | block b' => exact absurd hr (h b')
  | _ => rfl

/-- An intact block is ACKed and returned unchanged. -/
theorem intact_block_acked (b : Block) (hb : b.body.length ≤ 244) :
    ∃ r, receiveBlock (.intact b) = r ∧ r.answer = ACK ∧ (match r with | .block b' => b' = b | _ => False) := by
  have hlb : (UInt8.ofNat (blockHeaderSize + b.body.length)).toNat = 10 + b.body.length := by
    rw [ofNat_toNat]; simp only [blockHeaderSize]; omega
  have hl : (b.payload ++ beBytes 2 (checksum b.payload)).length = 10 + b.body.length + 2 := by simp [payload_length]
  have hp := parse_wire b hb
  simp only [Block.wire, parseWire] at hp
  have : receiveBlock (.intact b) = .block b := by
    simp only [receiveBlock, Block.wire, receiveBytes, hlb, minBlockLength, maxBlockLength, checksumSize]
    have h1 : ¬ (10 + b.body.length < 10 ∨ 10 + b.body.length > 254) := by omega
    have h2 : ¬ ((b.payload ++ beBytes 2 (checksum b.payload)).length < 10 + b.body.length + 2) := by omega
    simp only [h1, h2, reduceIte]
    rw [List.take_of_length_le (by omega), hp]
  exact ⟨_, this, rfl, rfl⟩

/-! ## Exactly once, unaltered, in order (receiver side of the composition) -/

/-- **Delivered exactly once, intact, in the order sent.** For every receiver configuration, every
    sequence of messages the sender's `splitBody` accepts (addressed to the receiver; consecutive messages
    with different headers — stated hypothesis), and every retransmission pattern — each block of each
    message arrives intact, followed by any number of retransmissions of that same block (the sender missed
    the ACK: dropped, replaced or late), all within the T4 window (second stated hypothesis) — the assembler
    hands the handlers exactly the images of the messages, each once, byte-identical, in the order sent.
    Corrupted or truncated transmissions never reach the assembler (`flipped_character_never_acked`), so
    "each block arrives intact, possibly repeated" is what a successful `sendBlock` of every block means.

    The composed statement over the two-endpoint model is `success_implies_delivered_once` below. -/
theorem exactly_once_under_retransmission (c : Cfg) (ms : List (OutMsg × Arrivals))
    (hs : ∀ x ∈ ms, Sendable c x.1 ∧ Fits c x.1 x.2) (hd : DistinctHdrs ms) :
    ((Asm.init c.isEquip c.deviceID c.t4).run (ms.flatMap (fun x => lineEvents x.1 x.2))).2.filterMap deliveredOf =
      ms.map (fun x => x.1.image) :=
  exactly_once_asm c ms hs hd

/-- **Never twice, never altered**: under the same hypotheses, every delivered frame is the image of one of
    the sent messages and there are exactly as many deliveries as messages. -/
theorem never_twice_never_altered (c : Cfg) (ms : List (OutMsg × Arrivals))
    (hs : ∀ x ∈ ms, Sendable c x.1 ∧ Fits c x.1 x.2) (hd : DistinctHdrs ms) :
    let out := ((Asm.init c.isEquip c.deviceID c.t4).run (ms.flatMap (fun x => lineEvents x.1 x.2))).2.filterMap deliveredOf
    out.length = ms.length ∧ ∀ f ∈ out, ∃ x ∈ ms, f = hsmsHeader x.1.hdr ++ x.1.body := by
  intro out
  have h : out = ms.map (fun x => x.1.image) := exactly_once_asm c ms hs hd
  refine ⟨by rw [h]; simp, ?_⟩
  intro f hf
  rw [h] at hf
  obtain ⟨x, hx, rfl⟩ := List.mem_map.mp hf
  exact ⟨x, hx, rfl⟩

/-- **Order per direction**: the i-th delivery is the i-th message sent. -/
theorem order_per_direction (c : Cfg) (ms : List (OutMsg × Arrivals))
    (hs : ∀ x ∈ ms, Sendable c x.1 ∧ Fits c x.1 x.2) (hd : DistinctHdrs ms) (i : Nat) (hi : i < ms.length) :
    (((Asm.init c.isEquip c.deviceID c.t4).run (ms.flatMap (fun x => lineEvents x.1 x.2))).2.filterMap deliveredOf)[i]? =
      some (ms[i].1.image) := by
  rw [exactly_once_asm c ms hs hd]
  simp [hi]

/-- The duplicate-header hypothesis is necessary: a second single-block message with the very same header
    right after the first is indistinguishable from a retransmission and is (correctly, per E4 §9.4.2)
    not delivered. -/
theorem same_header_message_is_dropped :
    let h : MsgHeader := { deviceID := 1, rBit := true, stream := 1, function := 1 }
    let b : Block := { hdr := buildHeader h 1 true, body := [7] }
    (receive ⟨false, 1, 100⟩ [⟨0, b⟩, ⟨1, b⟩]).filterMap id = [⟨h, [7]⟩] := by
  decide

/-! ## The composed model: send succeeded ⇒ delivered exactly once -/

/-- **Every message whose send call succeeds is delivered to the peer exactly once and intact; nothing is
    delivered twice or altered; deliveries follow the order sent** — in the two-endpoint model, for every
    fault schedule (intact, flipped character, truncated/dropped block, NAK, dropped ENQ/EOT, lost ACK, in any
    order and number, including those that exhaust the retry limit and re-establish the link), every pair of
    retry limits, and every pair of message queues, under the stated hypotheses: the messages are ones
    `splitBody` accepts, addressed to the peer, with pairwise different headers per direction (`WellPosed`),
    and inter-block gaps stay within T4 (the model's constant assembler clock).

    For both directions X → Y, with `started` the messages X has put on the line (newest first):
    * every message in `X.succeeded` has its image in `Y.delivered`, and `Y.delivered` has no repetition —
      so it is there exactly once;
    * `Y.delivered` is, in order, the images of a subsequence `D` of `X.started` that contains all of
      `X.succeeded` in order: never altered, never out of order, nothing from nowhere. -/
theorem success_implies_delivered_once (dev lm ls : Nat) (mq sq : List OutMsg) (hw : WellPosed dev mq sq) (fs : List Fault) :
    let l := (Line.start dev lm ls mq sq).run fs
    ((∀ m ∈ l.master.succeeded, m.image ∈ l.slave.delivered) ∧ l.slave.delivered.Nodup ∧
      ∃ D, l.master.succeeded.Sublist D ∧ D.Sublist l.master.started ∧ l.slave.delivered = D.map OutMsg.image) ∧
    ((∀ m ∈ l.slave.succeeded, m.image ∈ l.master.delivered) ∧ l.master.delivered.Nodup ∧
      ∃ D, l.slave.succeeded.Sublist D ∧ D.Sublist l.slave.started ∧ l.master.delivered = D.map OutMsg.image) := by
  intro l
  obtain ⟨s1, D1, s2, D2, h1, h2⟩ := linv_run fs (linv_start dev lm ls mq sq hw)
  exact ⟨dir_exactly_once h1, dir_exactly_once h2⟩

/-- The blocks the peer takes within one connection generation are exactly what its assembler needs: after
    any schedule, while a message is on the line the peer's assembler (through the simulation with the E4
    reference receiver) holds precisely the first `k` blocks of that message, `k` being the number of ACKed
    blocks or one more (ACK lost), and otherwise has no message in progress (`Dir`, preserved by every step). -/
theorem line_invariant (dev lm ls : Nat) (mq sq : List OutMsg) (hw : WellPosed dev mq sq) (fs : List Fault) :
    LInv dev ((Line.start dev lm ls mq sq).run fs) :=
  linv_run fs (linv_start dev lm ls mq sq hw)

/-! ## Contention in the middle of a multi-block message (the straddle case) -/

/-- **The yield path shares the assembler.** In every master-holds step in which the slave takes the block
    (intact transfer, ACK seen or lost) and the link is not re-established, the slave's assembler after the
    step is its assembler before the step fed that block — no matter whether the slave was idle (the block came
    in on `lineEngine`'s idle path) or had its own send pending and yielded (the block came in through
    `sendBlock`'s `deliver`).  So blocks received during a yield continue the partial message begun on the idle
    path: there is one accumulation state per connection generation. -/
theorem yield_path_shares_assembler (l : Line) (f : Fault) (m : OutMsg) (blk : Block) (rest : List Block)
    (hm : l.master.load.cur = some (m, blk :: rest)) (hf : f.effect ≠ .notReceived)
    (hnt : (l.step f).slave.asm ≠ Asm.init l.slave.isEquip l.slave.deviceID 0) :
    (l.step f).slave.asm = (l.slave.asm.accept 0 blk).1 ∧
    l.slave.takeYield blk = l.slave.takeIdle blk :=
  ⟨slave_take_same_assembler l f m blk rest hm hf hnt, rfl⟩

/-- **Straddle: exactly once.** The master starts a message (any number of blocks) on an idle line; after any
    fault schedule `fs1` — e.g. when some but not all of its blocks have been transferred — the host
    application offers a message `m'` (fresh header), so the rest of the master's message is received on the
    yield path; then any schedule `fs2`.  Both directions keep "send succeeded ⇒ delivered exactly once, intact,
    in order": in particular the master's message, begun on the idle path and finished on the yield path, is
    delivered once and complete. -/
theorem straddle_exactly_once (dev lm ls : Nat) (m m' : OutMsg) (fs1 fs2 : List Fault)
    (hw : WellPosed dev [m] []) (hs' : Sendable ⟨true, dev, 0⟩ m')
    (hfresh : m'.hdr ∉ ((((Line.start dev lm ls [m] []).run fs1).slave.queue.reverse ++
                        ((Line.start dev lm ls [m] []).run fs1).slave.started).map (·.hdr))) :
    let l := (((Line.start dev lm ls [m] []).run fs1).apply (.offerSlave m')).run fs2
    ((∀ x ∈ l.master.succeeded, x.image ∈ l.slave.delivered) ∧ l.slave.delivered.Nodup ∧
      ∃ D, l.master.succeeded.Sublist D ∧ D.Sublist l.master.started ∧ l.slave.delivered = D.map OutMsg.image) ∧
    ((∀ x ∈ l.slave.succeeded, x.image ∈ l.master.delivered) ∧ l.master.delivered.Nodup ∧
      ∃ D, l.slave.succeeded.Sublist D ∧ D.Sublist l.slave.started ∧ l.master.delivered = D.map OutMsg.image) := by
  intro l
  have h0 := linv_run fs1 (linv_start dev lm ls [m] [] hw)
  obtain ⟨s1, D1, s2, D2, h1, h2⟩ := linv_run fs2 (linv_offer_slave h0 m' hs' hfresh)
  exact ⟨dir_exactly_once h1, dir_exactly_once h2⟩

/-- The straddle scenario of the harness on the model, concretely (three blocks of a master message; the
    host's message is offered after block 1): the master's message is delivered once, the host's follows. -/
theorem straddle_scenario :
    let hm : MsgHeader := { deviceID := 291, rBit := true, stream := 6, function := 11, s3 := 1 }
    let hs : MsgHeader := { deviceID := 291, rBit := false, stream := 1, function := 13, s3 := 2 }
    let b1 : Block := { hdr := buildHeader hm 1 false, body := [1] }
    let b2 : Block := { hdr := buildHeader hm 2 false, body := [2] }
    let b3 : Block := { hdr := buildHeader hm 3 true, body := [3] }
    let l0 : Line := { master := { (Endpoint.init true 291 3 []) with cur := some (⟨hm, [1, 2, 3]⟩, [b1, b2, b3]), started := [⟨hm, [1, 2, 3]⟩] },
                       slave := Endpoint.init false 291 3 [] }
    let l := ((l0.step .none).apply (.offerSlave ⟨hs, []⟩)).run [.none, .none, .none]
    l.quiescent = true ∧ l.slave.delivered = [hsmsHeader hm ++ [1, 2, 3]] ∧ l.master.delivered = [hsmsHeader hs] ∧
    l.master.succeeded.length = 1 ∧ l.slave.succeeded.length = 1 := by
  decide

/-! ## Contention (block-transfer level) -/

/-- **The master sends first.** For every configuration and every fault: whenever the master has a block
    to send, the step is the master's transfer attempt — none of the slave's sends completes and nothing
    from the slave reaches the master's handlers (the contending host yields). -/
theorem contention_master_first (l : Line) (f : Fault) (m : OutMsg) (blk : Block) (rest : List Block)
    (hm : l.master.load.cur = some (m, blk :: rest)) :
    (l.step f).slave.succeeded = l.slave.succeeded ∧ (l.step f).master.delivered = l.master.delivered :=
  master_first l f m blk rest hm

/-- **The host's postponed message follows.** Once the master has nothing left to send, the next
    undisturbed step transfers the slave's pending block to the master. -/
theorem contention_host_follows (l : Line) (m : OutMsg) (blk : Block) (rest : List Block)
    (hm : l.master.load.cur = none) (hs : l.slave.load.cur = some (m, blk :: rest)) :
    (l.step .none).master.delivered = (l.master.load.take blk).delivered ∧
    (l.step .none).slave.succeeded = l.slave.load.acked.succeeded :=
  slave_follows l m blk rest hm hs

/-- **No stuck configuration.** In every configuration reachable from a start configuration by any fault
    schedule, if anything is left to send (queued or on the line, at either end), the next step — under every
    fault — strictly decreases the lexicographic measure
    (blocks still to be ACKed incl. queued messages, master's remaining retries, slave's remaining retries):
    a block is ACKed, or a message fails and the link is re-established (work drops), or the endpoint holding
    the line uses up one retry.  `Prod.Lex` on naturals is well-founded, so every run reaches a quiescent
    configuration: no deadlock, no livelock, with the master holding the line, the slave holding it, or a
    rejected message at the head of a queue.  (Wall-clock liveness — T1/T2 actually expiring — is outside the
    model.) -/
theorem no_stuck_configuration (dev lm ls : Nat) (mq sq : List OutMsg) (fs : List Fault) (f : Fault)
    (hq : ((Line.start dev lm ls mq sq).run fs).quiescent = false) :
    MeasureLt (((Line.start dev lm ls mq sq).run fs).step f).measure ((Line.start dev lm ls mq sq).run fs).measure := by
  obtain ⟨h1, h2⟩ := curOK_run fs _ (curOK_start dev lm ls mq sq).1 (curOK_start dev lm ls mq sq).2
  exact measure_decreases _ f h1 h2 hq

/-- The same, spelled out, for any configuration in which no endpoint is "sending" an empty block list (true
    of every reachable one): work drops, or it stays and the master's slack drops, or both stay and the slave's
    slack drops. -/
theorem no_stuck_configuration_cases (l : Line) (f : Fault) (hM : l.master.curOK) (hS : l.slave.curOK)
    (hq : l.quiescent = false) :
    (l.step f).work < l.work ∨
    ((l.step f).work = l.work ∧ (l.step f).master.slack < l.master.slack) ∨
    ((l.step f).work = l.work ∧ (l.step f).master.slack = l.master.slack ∧ (l.step f).slave.slack < l.slave.slack) :=
  (step_decreases l f hM hS hq).1

/-! ## Non-vacuity: contention, a lost ACK and a corrupted block, all messages delivered once -/

example :
    let hm : MsgHeader := { deviceID := 291, rBit := true, stream := 1, function := 1, s3 := 1 }
    let hs : MsgHeader := { deviceID := 291, rBit := false, stream := 2, function := 3, s3 := 2 }
    let l : Line := { master := Endpoint.init true 291 1 [⟨hm, [1, 2]⟩], slave := Endpoint.init false 291 1 [⟨hs, []⟩] }
    let r := l.run [.dropAck, .none, .flipChar, .none]
    r.quiescent = true ∧ r.slave.delivered = [hsmsHeader hm ++ [1, 2]] ∧ r.master.delivered = [hsmsHeader hs] ∧
    r.master.succeeded.length = 1 ∧ r.slave.succeeded.length = 1 := by
  decide

/-- The hypotheses of the composed theorem are satisfiable. -/
example : WellPosed 291 [⟨{ deviceID := 291, rBit := true, stream := 1, function := 1, s3 := 1 }, [1, 2]⟩]
                        [⟨{ deviceID := 291, rBit := false, stream := 2, function := 3, s3 := 2 }, []⟩] := by
  refine ⟨?_, ?_, by decide, by decide⟩ <;> intro m hm <;> simp at hm <;> subst hm <;>
    exact ⟨⟨by decide, by decide, by decide⟩, by decide, rfl, rfl⟩

end GoSecs.Props.C18
