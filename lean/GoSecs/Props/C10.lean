/-
  C10 — Open/Close are safe from any state: bounded, idempotent, leak-free, reopenable.

  Property theorems only (helpers: GoSecs/Lemmas/Lifecycle.lean, model: GoSecs/Model/Lifecycle.lean).

  WHAT IS PROVED.  Statements about the small-step interleaving model of Open / Close / the supervisor's
  reaction / connectLoop / epoch teardown+join / transport Start-Stop with the start gate, for every
  configuration satisfying the stated hypotheses and every action list (= every interleaving).
  Lock-protected critical sections and single atomics are the atomic actions (see the model header).
  Three groups: SAFETY (an inductive invariant: no orphan generation, idempotence, no reconnect after
  Close, publishMu linearisation), TERMINATION of Close (deadlock freedom from a second invariant + a
  natural-number variant that every library action decreases: `close_terminates`, with the environment
  accounted for explicitly), and REOPEN FRESHNESS (a bisimulation up to renaming of epoch / loop indices
  with equal observable traces: `reopen_is_fresh`).  None of the theorems is partial.

  WHAT IS OBSERVED, NOT PROVED (per history, by harness/c10.go on the real code): goroutine / socket /
  listener leak freedom, wall-clock bounds (Close ≤ close-timeout + slack; an in-flight dial is aborted by
  the teardown), absence of panics, behaviour of sends and UpdateConfigOptions racing the lifecycle, the
  bounded-join timeout path (abandoned stragglers), and that the real scheduler is fair enough (runs a
  runnable library goroutine eventually), which is what turns "every run of a pending Close is finite and
  ends closed" into "Close returns".
-/
import GoSecs.Lemmas.LifecycleTerm
import GoSecs.Lemmas.LifecycleSim
import GoSecs.Gen.Facts
import GoSecs.Gen.Consts

namespace GoSecs.Props.C10
open GoSecs.Lifecycle

/-! ## Tie to the source (regenerated on every run): the active Start's seal guard -/

/-- **The farewell Separate's own write bound exists and is short** (constant `farewellWriteTimeout` regenerated from
    package hsms): positive and at most one second. What is pinned here is the constant only; that the one write
    Close makes on the supervisor goroutine before teardown is bounded by it rather than by `WithWriteTimeout` is
    observed by the harness (c09_farewell.go, the C10 long-write-timeout histories) — after seeded C09f-2. -/
theorem farewell_write_bound_gen :
    0 < GoSecs.Gen.hsms_farewellWriteTimeout ∧ GoSecs.Gen.hsms_farewellWriteTimeout ≤ 1000000000 := by
  decide

/-- **Start into a sealed transport leaves no socket** (call-site order regenerated from the Go AST of hsmsss
    `transport.startActive`): the dial is made outside the start gate; under the gate's read lock the sealed branch
    releases the gate, cancels the Select-procedure context and CLOSES the socket it has just dialed — all before
    the one place where TCP-up is reported and the socket handed to the generation — and the gate is released once
    more on the normal path. This is the model's `loopStartFail` for a start that meets `joinSeal`: it publishes
    nothing and owns nothing afterwards (the "Close leaves no socket open" clause for the Close-vs-redial race). -/
theorem start_sealed_closes_socket_gen :
    GoSecs.Gen.hsmsss_startActiveSites =
      ["cfg.dial", "startGate.RLock", "startGate.RUnlock", "procCancel", "conn.Close", "rt.TCPUp", "startGate.RUnlock"] := by
  decide

/-- **Double open.** Open on a logically open connection (supervisor present, `shutdown` clear —
    including the window between two reconnect generations) returns `ErrAlreadyOpen` and changes
    NOTHING in the configuration. -/
theorem double_open_no_effect (c : Cfg) (m : Mode) (hidle : c.api = .idle)
    (hsup : c.sup.isSome = true) (hopen : c.shutdown = false) :
    step? c (.openEnter m) = some c := by
  simp [step?, hidle, hsup, hopen]

/-- While another Open/Close holds `lifeMu`, a second Open cannot even start (it queues). -/
theorem open_queues_behind_lifeMu (c : Cfg) (m : Mode) (h : c.api ≠ .idle) :
    step? c (.openEnter m) = none := by
  simp [step?, h]

/-- **Close is idempotent.** On a closed configuration Close returns at once (the retained result)
    and changes nothing; on a never-opened one it returns `ErrNotOpen` and changes nothing. -/
theorem close_idempotent (c : Cfg) (h : Closed c) : step? c .closeEnter = some c := by
  obtain ⟨s, hs, hpc⟩ := h.sup
  obtain ⟨e, ep, hcur, hep, hpub⟩ := h.cur
  have hdone : isDone c e = true := by
    have := (h.epochs e ep hep).1 hpub
    simp [isDone, phaseOf, hep, this]
  simp [step?, h.api, hs, hcur, hpc, hdone]

theorem close_never_opened (active : Bool) : step? (init active) .closeEnter = some (init active) := by
  simp [step?, init]

/-- **No reconnect after Close.** From a closed configuration, every interleaving that contains no new
    Open leaves the configuration literally unchanged: no dial or listen (`dials`), no published
    generation, no loop, no supervisor activity, no transport goroutine. -/
theorem no_reconnect_after_close (c : Cfg) (h : Closed c) (as : List Act)
    (hno : ∀ a ∈ as, ∀ m, a ≠ .openEnter m) : run c as = c :=
  closed_run c h as hno

theorem no_dial_after_close (c : Cfg) (h : Closed c) (as : List Act)
    (hno : ∀ a ∈ as, ∀ m, a ≠ .openEnter m) : (run c as).dials = c.dials := by
  rw [closed_run c h as hno]


/-! ## The lifecycle invariant and what it gives when Close returns

  `Inv` (GoSecs/Lemmas/Lifecycle.lean) is a 31-clause inductive invariant of the interleaving model. Its
  load-bearing clauses, in words:
  * E2  every generation that was ever published and is no longer `cur` is fully joined (`done`);
  * U   while the connection is open (`shutdown` clear) at most ONE reconnect loop is live;
  * L1  that loop's position pins `cur`: parked on `prev.wait()` ⇒ `cur = prev`; sleeping / at a fence /
        holding an unpublished successor ⇒ `cur` is joined; inside `tr.Start` ⇒ `cur` is its own epoch;
  * A1/A5 while a loop is live, or the supervisor is inside a reaction, the state is NotConnected and no
        TCP-up can arrive (so no second reaction can start a second loop);
  * R2/S1 a Close past its `publishMu` section has `shutdown` set and its pinned epoch IS `cur`
        (the publishMu linearisation: a loop that publishes does so with `shutdown` clear, i.e. before
        the section, and then Close re-pins exactly that successor; after the section no loop publishes);
  * R5/O2 the transport only runs goroutines of a generation whose `tr.Stop` has not completed, and a
        `tr.Start` that finds its generation sealed is refused by the start gate;
  * S3  api idle ∧ `shutdown` ⇒ the configuration is `Closed`.
  It was first validated by bounded exploration (1.1 M perturbed configurations), then proved. -/

/-- The invariant holds in every reachable configuration: both roles, every interleaving. -/
theorem invariant_reachable (active : Bool) (as : List Act) : Inv (run (init active) as) :=
  inv_run _ as (inv_init active)

/-- **No orphan generation.** Whenever Close returns — in any reachable configuration, after any
    interleaving of Open / Close / reconnect loops / supervisor reactions / joins / transport events —
    the configuration is `Closed`: every generation that was ever published is torn down AND joined, no
    reconnect loop is live, the supervisor has exited, the transport runs no goroutine, and State() reads
    NotConnected. -/
theorem no_orphan_generation (active : Bool) (as : List Act) (c' : Cfg)
    (hret : step? (run (init active) as) .closeLoopsDone = some c') :
    Closed c' ∧ supSt c' = .nc := by
  have hinv := invariant_reachable active as
  generalize run (init active) as = c at hret hinv
  have hinv' := inv_step? c c' .closeLoopsDone hinv hret
  simp only [step?] at hret
  split at hret
  · next hapi =>
    split at hret
    · cases hret
      have hsd : c.shutdown = true := hinv.S1 true (by simp [hapi, apiShut])
      refine ⟨closed_of_inv _ hinv' rfl (by simpa using hsd), ?_⟩
      obtain ⟨_, s, hs, _⟩ := hinv.S2b hapi
      simp [supSt, setSup, hs]
    · cases hret
  · cases hret

/-- The same for the other way a `lifeMu` holder can leave `shutdown` set: a failed Open's rollback. -/
theorem failed_open_leaves_closed (active : Bool) (as : List Act) (c' : Cfg)
    (hret : step? (run (init active) as) .openRollbackDone = some c') : Closed c' := by
  have hinv := invariant_reachable active as
  generalize run (init active) as = c at hret hinv
  have hinv' := inv_step? c c' .openRollbackDone hinv hret
  simp only [step?] at hret
  split at hret
  · next hapi =>
    split at hret
    · cases hret
      have hsd : c.shutdown = true := hinv.S1 true (by simp [hapi, apiShut])
      exact closed_of_inv _ hinv' rfl hsd
    · cases hret
  · cases hret

/-- In every reachable configuration: idle api with `shutdown` set ⇒ `Closed` (so Close is idempotent
    and nothing reconnects, by the theorems above, in every reachable closed configuration). -/
theorem reachable_closed (active : Bool) (as : List Act)
    (hapi : (run (init active) as).api = .idle) (hsd : (run (init active) as).shutdown = true) :
    Closed (run (init active) as) :=
  closed_of_inv _ (invariant_reachable active as) hapi hsd

/-- **Generation serialisation**: at all times every superseded generation is fully joined. -/
theorem superseded_generations_joined (active : Bool) (as : List Act) (e : Nat) (ep : Epoch)
    (hep : (run (init active) as).epochs[e]? = some ep) (hpub : ep.published = true)
    (hne : (run (init active) as).cur ≠ some e) : ep.phase = .done :=
  (invariant_reachable active as).E2 e ep hep hpub hne

/-- **One reconnect loop at a time** while the connection is open. -/
theorem single_reconnect_loop (active : Bool) (as : List Act) (i j : Nat) (li lj : Loop)
    (hopen : (run (init active) as).shutdown = false)
    (hi : (run (init active) as).loops[i]? = some li) (hj : (run (init active) as).loops[j]? = some lj)
    (hli : li.pc ≠ .exited) (hlj : lj.pc ≠ .exited) : i = j :=
  (invariant_reachable active as).U hopen i j li lj hi hj hli hlj

/-- **Close pins the successor** (the `publishMu` argument): once Close is past its fence, the epoch it
    waits on is the current one, and `shutdown` is set — so no loop can publish another. -/
theorem close_pins_current (active : Bool) (as : List Act) (e : Nat)
    (h : (run (init active) as).api = .closeReq e ∨ (run (init active) as).api = .closeWaitEpoch e) :
    (run (init active) as).cur = some e ∧ (run (init active) as).shutdown = true := by
  have hinv := invariant_reachable active as
  rcases h with h | h
  · exact ⟨hinv.R2 e (by simp [h, apiEpoch]), hinv.S1 true (by simp [h, apiShut])⟩
  · exact ⟨hinv.R2 e (by simp [h, apiEpoch]), hinv.S1 true (by simp [h, apiShut])⟩

/-! ## Reopen -/

/-- What Open has set up when it reaches `tr.Start`: a fresh published live epoch as `cur`, a fresh
    supervisor, fences reset, transport armed and idle, no reconnect loop, every older generation joined. -/
structure FreshlyArmed (c : Cfg) (m : Mode) (e : Nat) : Prop where
  api : c.api = .openStart m e
  cur : c.cur = some e
  epoch : c.epochs[e]? = some { published := true, phase := .live }
  sup : c.sup = some {}
  shutdown : c.shutdown = false
  loops : loopsExited c = true
  tr : c.tr = { stopping := false, owner := none, acceptAvail := false }
  older : ∀ (e' : Nat) (ep : Epoch), e' ≠ e → c.epochs[e']? = some ep → ep.published = true → ep.phase = .done

/-- A never-opened connection: Open's first two steps are enabled without waiting and arm a fresh generation. -/
theorem open_fresh (active : Bool) (m : Mode) :
    FreshlyArmed (run (init active) [.openEnter m, .openArm]) m 0 := by
  constructor <;> simp [run, step, step?, init, loopsExited]
  intro e' ep hne hep
  cases e' <;> simp_all

/-- **Reopen, entry.** From ANY closed configuration Open's first two steps are enabled without waiting and
    produce the same armed shape as on a never-opened connection, up to the epoch's index and the fence
    counter. (The behavioural statement is `reopen_is_fresh` below.) -/
theorem reopen_entry_fresh (c : Cfg) (h : Closed c) (m : Mode) :
    FreshlyArmed (run c [.openEnter m, .openArm]) m c.epochs.length := by
  obtain ⟨s, hs, hpc⟩ := h.sup
  have hl := h.loops
  have h1 : step c (.openEnter m) = { c with gen := c.gen + 1, shutdown := false, api := .openJoin m } := by
    simp [step, step?, h.api, h.shutdown, hs]
  have hl1 : loopsExited { c with gen := c.gen + 1, shutdown := false, api := .openJoin m } = true := hl
  have hstep : run c [.openEnter m, .openArm] =
      { c with gen := c.gen + 1, shutdown := false, epochs := c.epochs ++ [{ published := true }],
               cur := some c.epochs.length, sup := some {}, tr := { c.tr with stopping := false },
               api := .openStart m c.epochs.length } := by
    show step (step c (.openEnter m)) .openArm = _
    rw [h1]
    simp [step, step?, hl1]
  rw [hstep]
  constructor
  · rfl
  · rfl
  · simp
  · rfl
  · rfl
  · exact hl
  · show ({ c.tr with stopping := false } : Tr) = _
    have ho := h.owner
    have ha := h.avail
    cases htr : c.tr with
    | mk st ow av => simp_all
  · intro e' ep hne hep hpub
    have hlt : e' < c.epochs.length := by
      have := (List.getElem?_eq_some_iff.1 hep).1
      simp at this; omega
    rw [List.getElem?_append_left hlt] at hep
    exact (h.epochs e' ep hep).1 hpub

/-! ### Reopen is fresh: a bisimulation up to renaming

  The model never garbage-collects: a reopened connection carries its joined generations and exited
  reconnect loops in front of the new ones, and its fence counter / Reconnects() gauge / dial count do not
  restart at zero.  `emb r c₂` (GoSecs/Lemmas/LifecycleSim.lean) is the configuration `c₂` with the residue
  `r` put in front: epoch indices shifted by `|r.oldE|`, loop indices by `|r.oldL|`, the three counters
  offset; `shAct r a` is the action `a` on the shifted indices; `renOf c` is the residue a closed
  configuration `c` leaves.  `Sim c m c₁ c₂` relates the reopened connection (left) to a first-time-opened one
  (right), both with an `Open m` past its guard: either both sit between guard and arming
  (`connectLoopWg.Wait()`), or `c₁ = emb (renOf c) c₂` — equality of the WHOLE configuration up to the
  renaming, which is the strongest relation there is.  `obsOf kr kd` is what the outside sees: `State()`,
  which API call is in flight and at which wait, what an Open / a Close issued now would answer
  (ErrAlreadyOpen / ErrNotOpen), whether the transport holds a socket or listener, whether a first accept
  is still owed, the Reconnecting gauge (live loops), and Reconnects() and the dial/listen count read
  relative to their values at the reopen.  (State-change NOTIFICATIONS are not in the lifecycle model —
  they are C05's; `State()` is.) -/

/-- **The renaming commutes with every one of the 34 actions** — library, environment and API alike, in
    every configuration whatsoever (no reachability or invariant needed): the renamed action on the
    configuration-with-residue does exactly what the action does on the configuration without, and is
    enabled exactly when it is. Old loops only have to have exited. -/
theorem reopen_step_commutes (r : Ren) (hL : ∀ l ∈ r.oldL, l.pc = .exited) (c : Cfg) (a : Act) :
    step? (emb r c) (shAct r a) = (step? c a).map (emb r) :=
  step?_emb r hL c a

/-- …and the remaining actions of the configuration-with-residue — those that name an OLD generation or
    an OLD loop — are all disabled: the residue is dead weight. -/
theorem reopen_residue_dead (r : Ren) (hr : r.Inert) (c : Cfg) (a₁ : Act) (h : unshAct r a₁ = none) :
    step? (emb r c) a₁ = none :=
  step?_emb_old r hr c a₁ h

/-- **`Sim` is a bisimulation with equal observations**, one step: from related configurations,
    (→) every enabled action of the reopened connection is the renaming of an enabled action of the fresh
        one, with related successors;
    (←) every enabled action of the fresh connection is enabled, renamed, on the reopened one, with related
        successors;
    and related configurations are observably equal. `Sim` starts at Open's guard (next theorem). -/
theorem reopen_bisimulation (c : Cfg) (h : Closed c) (hnc : supSt c = .nc) (m : Mode) (c₁ c₂ : Cfg)
    (hs : Sim c m c₁ c₂) :
    (∀ a₁ c₁', step? c₁ a₁ = some c₁' →
        ∃ a₂ c₂', a₁ = shAct (renOf c) a₂ ∧ step? c₂ a₂ = some c₂' ∧ Sim c m c₁' c₂') ∧
    (∀ a₂ c₂', step? c₂ a₂ = some c₂' →
        ∃ c₁', step? c₁ (shAct (renOf c) a₂) = some c₁' ∧ Sim c m c₁' c₂') ∧
    obsOf c.reconnects c.dials c₁ = obsOf 0 0 c₂ :=
  ⟨sim_forward c h m c₁ c₂ hs, sim_backward c h m c₁ c₂ hs, sim_obs c h hnc m c₁ c₂ hs⟩

/-- **Reopen is fresh.** Let `c` be ANY closed configuration (what a completed Close or a rolled-back Open
    leaves; for reachable ones `supSt c = .nc` holds, `reachable_closed_nc`). Enter `Open m` on it, and
    enter `Open m` on a never-opened connection of the same role. Then
    (→) every run of the reopened connection — any interleaving of library, environment and further API
        actions, including later Close/Open cycles — is, action for action up to the renaming of epoch and
        loop indices, a run of the fresh connection, the end configurations are related by `Sim`, and the
        two OBSERVABLE TRACES (the observation after every step) are EQUAL;
    (←) conversely every run of the fresh connection is matched by the reopened one, with equal observable
        traces.
    So any observable trace after a completed Close + Open is a trace of a fresh connection, and vice
    versa. -/
theorem reopen_is_fresh (c : Cfg) (h : Closed c) (hnc : supSt c = .nc) (m : Mode) :
    step? c (.openEnter m) = some (reopenJoin c m) ∧
    step? (init c.active) (.openEnter m) = some (freshJoin c.active m) ∧
    Sim c m (reopenJoin c m) (freshJoin c.active m) ∧
    (∀ as₁ c₁', exec? (reopenJoin c m) as₁ = some c₁' →
      ∃ as₂ c₂', as₁ = as₂.map (shAct (renOf c)) ∧ exec? (freshJoin c.active m) as₂ = some c₂' ∧ Sim c m c₁' c₂' ∧
        otrace c.reconnects c.dials (reopenJoin c m) as₁ = otrace 0 0 (freshJoin c.active m) as₂) ∧
    (∀ as₂ c₂', exec? (freshJoin c.active m) as₂ = some c₂' →
      ∃ c₁', exec? (reopenJoin c m) (as₂.map (shAct (renOf c))) = some c₁' ∧ Sim c m c₁' c₂' ∧
        otrace c.reconnects c.dials (reopenJoin c m) (as₂.map (shAct (renOf c))) =
          otrace 0 0 (freshJoin c.active m) as₂) :=
  ⟨step_openEnter_closed c h m, step_openEnter_init c.active m, Sim.join,
   fun as₁ c₁' hr => sim_run_forward c h hnc m _ _ Sim.join as₁ c₁' hr,
   fun as₂ c₂' hr => sim_run_backward c h hnc m _ _ Sim.join as₂ c₂' hr⟩

/-- Every reachable closed configuration reads NotConnected (so `reopen_is_fresh` applies to every closed
    configuration a real history can produce, whether it was left by Close or by a rolled-back Open). -/
theorem reachable_closed_nc (active : Bool) (as : List Act)
    (hapi : (run (init active) as).api = .idle) (hsd : (run (init active) as).shutdown = true) :
    Closed (run (init active) as) ∧ supSt (run (init active) as) = .nc :=
  ⟨closed_of_inv _ (invariant_reachable active as) hapi hsd,
   (inv3_run _ as (inv3_init active)).rb (Or.inr (Or.inr ⟨hapi, hsd⟩))⟩

/-! ## Termination -/

/-- **No deadlock in Close.** In EVERY reachable configuration (both roles, every interleaving) in which a
    Close — or the rollback of a failed Open — has passed its entry and not yet returned, some library-side
    action is enabled: Close's three waits (`e.wait()`, `supWg.Wait()`, `connectLoopWg.Wait()`) always
    have someone who can move toward satisfying them. Proved from a second inductive invariant (`Inv2`:
    the pinned epoch is live only while the evClose is still queued un-latched or being processed by a
    supervisor that has not been told to stop; every loop's `prev` is a published generation; the
    supervisor exits only after `stop()`), together with `Inv`.
    A stale loop's pending dial is counted as returning (its generation ctx is cancelled by then). -/
theorem close_never_stuck (active : Bool) (as : List Act)
    (hc : closingApi (run (init active) as).api = true) :
    ∃ a, isLibAct a = true ∧ (step? (run (init active) as) a).isSome = true := by
  obtain ⟨h, h2⟩ := inv12_run (init active) as (inv_init active) (inv2_init active)
  exact close_never_stuck_inv _ h h2 hc

/-- The library-side schedule of a Close on an established generation `e`. -/
def closeSchedule (e : Nat) : List Act :=
  [.closeEnter, .closeRequest, .supStep, .reactCheck, .reactTeardown, .closeTeardown,
   .joinSeal e, .joinStop e, .joinDone e, .closeEpochDone, .supExit, .closeSupDone, .closeLoopsDone]

/-- A representative schedule: from an established generation with an idle, drained supervisor and no
    live reconnect loop, thirteen library steps — none of which waits on the peer or on a timer —
    complete Close. (Used for non-vacuity below; the general statement is `close_terminates`.) -/
theorem close_schedule_completes (c : Cfg) (e : Nat) (s : Sup) (h : Established c e s)
    (hapi : c.api = .idle) (hl : loopsExited c = true) :
    let c' := run c (closeSchedule e)
    c'.api = .idle ∧ c'.shutdown = true ∧ phaseOf c' e = .done ∧ supSt c' = .nc ∧
      c'.tr.owner = none ∧ (∃ s', c'.sup = some s' ∧ s'.pc = .exited) ∧ c'.dials = c.dials := by
  obtain ⟨hsup, hidle, hq, hopen, hup, hns, hcur, howner, hlive⟩ := h
  obtain ⟨st, closed, queue, pc, stopReq, closeEpoch⟩ := s
  simp only at hidle hq hopen hup
  subst hidle hq hopen
  have he : e < c.epochs.length := (List.getElem?_eq_some_iff.1 hlive).1
  have hl' : loopsExited { c with shutdown := true } = true := hl
  simp_all [run, step, step?, closeSchedule, inject, injectOk, eventsCap, setSup, teardown, phaseOf, setPhase, supSt, isDone,
    loopsExited]

/-! ### The variant

  `mu : Cfg → Nat` (GoSecs/Lemmas/LifecycleTerm.lean) is the weighted sum
      apiRank(api pc) + 10·|supervisor queue| + runRank(supervisor pc) + Σ_epochs phaseRank + Σ_loops loopRank
  with  phaseRank live,torn,sealed,stopped,done = 4,3,2,1,0;
        loopRank  start,failWait,waitPrev,sleep,fence,publish,exited = 5,4,4,3,2,1,0;
        runRank   reactCheck,reactSpawn,reactTeardown,closeTeardown,idle,exited = 9,8,3,2,1,0
                  (reactSpawn pays for the loop it is about to add);
        apiRank   closeReq 14 (it is about to enqueue evClose), closeWaitEpoch 3, closeJoinSup 2,
                  closeJoinLoops 1, openRollbackWait 2, openRollbackSup 1, everything else 0.
  `pend? c as = some c'` (ibid.) says: `as` is a run from `c` — every action enabled in turn, library and
  environment actions in ANY interleaving — during which the Close is still pending in every configuration
  an action is taken from.

  THE ENVIRONMENT, honestly.  While a Close is pending, `lifeMu` is held, so Open/Close entries, Open's own
  dial and `waitSelected` are disabled (not a hypothesis: `mu_step` derives it).  What remains enabled
  besides the library:
    * `loopStartOk i`  — a re-dial already in flight completes; it is a progress action (decreases `mu`);
    * `envAccept / envSelected / envSelectLost` — peer activity on the generation being closed; they leave
      `mu` unchanged, and stop being enabled once `tr.Stop` has joined the transport (`joinStop`);
    * `envDown / envT7` — a transport goroutine reports a failure; each adds ONE queued event (+10).
      In the code each transport goroutine calls `TCPDown`/`T7Expired` at most once per generation and
      blocks in it while the 16-slot events channel is full; the model lets them repeat while the
      transport still runs the generation, so their number appears EXPLICITLY in the bound instead of
      being assumed away.
  RESIDUAL (what the model abstracts, not a hypothesis of the theorems): the bounded joins (`tr.Stop`,
  task join) are modelled as always-completing actions `joinStop`/`joinDone`; in the code they complete
  when the handlers return or when the close timeout fires (abandoning the straggler) — the timeout path
  and wall-clock bounds are OBSERVED by the harness. That the Go scheduler eventually runs a runnable
  library goroutine (weak fairness) is what turns "every run is finite" into "Close returns". -/

/-- **The variant, one inequality for all 34 actions.** In every reachable configuration with a Close (or
    a failed Open's rollback) pending, every enabled action `a` satisfies
        mu c' + [a is a progress action] ≤ mu c + 10·[a is a failure injection],
    and afterwards the Close is still pending or has returned into the closed configuration. -/
theorem close_variant (active : Bool) (pre : List Act) (a : Act) (c' : Cfg)
    (hc : closingApi (run (init active) pre).api = true)
    (hs : step? (run (init active) pre) a = some c') :
    mu c' + progressCost a ≤ mu (run (init active) pre) + injectCost a ∧
      (closingApi c'.api = true ∨ (c'.api = .idle ∧ Closed c' ∧ supSt c' = .nc)) := by
  have h3 := inv3_run _ pre (inv3_init active)
  generalize run (init active) pre = c at hc hs h3
  have hsd : c.shutdown = true := h3.i1.S1 true (apiShut_of_closing _ hc)
  refine ⟨mu_step c c' a hsd hc hs, ?_⟩
  rcases (closing_step c c' a hc hs).2 with h | h
  · exact Or.inl h
  · exact Or.inr ⟨h, close_return c c' a h3 hc hs h⟩

/-- **Close terminates.** From EVERY reachable configuration `c` with a Close (or a failed Open's
    rollback) pending, and for EVERY run `as` of the pending Close (`pend?`: library and environment
    actions in any interleaving):
    1. *finiteness, with an explicit bound* — the number of progress actions in `as` (library steps and
       completing re-dials) is at most `mu c + 10·(failure injections in as)`; in particular a run of
       library actions alone has length ≤ `mu c`;
    2. *where it ends* — the run ends with the Close still pending or returned into `Closed` with state
       NotConnected; if it is maximal (no library action enabled at its end) Close HAS returned: api idle,
       every published generation joined, every loop exited, supervisor exited, transport idle, state
       NotConnected;
    3. *completion is always possible* — from the end of the run, if the Close is still pending, library
       actions alone complete it within `mu` further steps (so no interleaving can paint Close into a
       corner). -/
theorem close_terminates (active : Bool) (pre as : List Act) (c' : Cfg)
    (hc : closingApi (run (init active) pre).api = true)
    (hrun : pend? (run (init active) pre) as = some c') :
    (as.countP isProgressAct + mu c' ≤ mu (run (init active) pre) + 10 * as.countP isInjectAct) ∧
    ((∀ a ∈ as, isLibAct a = true) → as.length ≤ mu (run (init active) pre)) ∧
    (closingApi c'.api = true ∨ (c'.api = .idle ∧ Closed c' ∧ supSt c' = .nc)) ∧
    ((∀ a, isLibAct a = true → step? c' a = none) → c'.api = .idle ∧ Closed c' ∧ supSt c' = .nc) ∧
    (closingApi c'.api = true →
      ∃ (bs : List Act) (c'' : Cfg), (∀ b ∈ bs, isLibAct b = true) ∧ pend? c' bs = some c'' ∧
        bs.length ≤ mu c' ∧ c''.api = .idle ∧ Closed c'' ∧ supSt c'' = .nc) := by
  have h3 := inv3_run _ pre (inv3_init active)
  generalize run (init active) pre = c at hc hrun h3
  have hb := close_bound c c' as h3.i1 hrun
  refine ⟨hb, ?_, pend_end c c' as h3 hc hrun, pend_maximal c c' as h3 hc hrun, ?_⟩
  · intro hlib
    have h1 : as.countP isProgressAct = as.length := by
      rw [List.countP_eq_length]
      intro a ha
      have := hlib a ha
      cases a <;> simp_all [isProgressAct, isLibAct]
    have h2 : as.countP isInjectAct = 0 := by
      rw [List.countP_eq_zero]
      intro a ha
      have := hlib a ha
      cases a <;> simp_all [isInjectAct, isLibAct]
    rw [h1, h2] at hb
    simp only [evW] at hb
    omega
  · intro hc'
    exact close_completes c' (pend_inv3 c c' as h3 hrun) hc'

/-- **No infinite run of a pending Close.** Any infinite schedule of progress actions — chosen by any
    scheduler — is cut within `mu c + 1` steps: a scheduled action is not enabled, or Close has already
    returned. (With `close_never_stuck`: a scheduler that keeps picking enabled library actions while any
    exists cannot be cut before the return, hence returns Close within `mu c` steps.) -/
theorem close_no_infinite_run (active : Bool) (pre : List Act) (f : Nat → Act)
    (hf : ∀ n, isProgressAct (f n) = true) :
    pend? (run (init active) pre) ((List.range (mu (run (init active) pre) + 1)).map f) = none :=
  no_infinite_pending _ (inv3_run _ pre (inv3_init active)).i1 f hf

/-! ## Non-vacuity -/

/-- A reachable closed configuration exists (Open, dial ok, select, Close to completion)… -/
example : Closed (run (init true) ([.openEnter .background, .openArm, .openStartOk, .envSelected] ++ closeSchedule 0)) := by
  apply reachable_closed <;> decide

/-- …and the hypothesis of `no_orphan_generation` is satisfiable (Close returning in a reachable run). -/
example : (step? (run (init true) ([.openEnter .background, .openArm, .openStartOk, .envSelected] ++
    (closeSchedule 0).dropLast)) .closeLoopsDone).isSome = true := by decide

/-- The hypotheses of `close_terminates` are satisfiable: a reachable configuration with a Close pending
    (here with a failure event and a live reconnect loop in flight), and a run of it to the return. -/
example :
    let pre : List Act := [.openEnter .background, .openArm, .openStartOk, .envSelected, .envDown, .supStep,
      .reactCheck, .reactSpawn, .closeEnter]
    closingApi (run (init true) pre).api = true ∧
    (pend? (run (init true) pre) [.closeRequest, .reactTeardown, .supStep, .closeTeardown, .joinSeal 0,
      .joinStop 0, .joinDone 0, .closeEpochDone, .supExit, .closeSupDone, .loopWake 0, .loopSleep 0,
      .loopFence 0, .closeLoopsDone]).isSome = true := by decide

/-- The hypotheses of `reopen_is_fresh` are satisfiable, and a reopened run exists that exercises the
    renaming (a second generation is joined under its shifted index). -/
example :
    let c := run (init true) ([.openEnter .background, .openArm, .openStartOk, .envSelected] ++ closeSchedule 0)
    Closed c ∧ supSt c = .nc ∧
    (exec? (reopenJoin c .background) [.openArm, .openStartOk, .envDown, .supStep, .reactCheck, .reactSpawn,
      .reactTeardown, .joinSeal 1, .joinStop 1, .joinDone 1, .loopWake 0]).isSome = true := by
  refine ⟨?_, ?_, ?_⟩
  · apply reachable_closed <;> decide
  · decide
  · decide

end GoSecs.Props.C10
