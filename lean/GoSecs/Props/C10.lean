/-
  C10 — Open/Close are safe from any state: bounded, idempotent, leak-free, reopenable.

  Property theorems only (helpers: GoSecs/Lemmas/Lifecycle.lean, model: GoSecs/Model/Lifecycle.lean).

  WHAT IS PROVED.  Statements about the small-step interleaving model of Open / Close / the supervisor's
  reaction / connectLoop / epoch teardown+join / transport Start-Stop with the start gate, for every
  configuration satisfying the stated hypotheses and every action list (= every interleaving).
  Lock-protected critical sections and single atomics are the atomic actions (see the model header).

  WHAT IS OBSERVED, NOT PROVED (per history, by harness/c10.go on the real code): goroutine / socket /
  listener leak freedom, wall-clock bounds (Close ≤ close-timeout + slack), absence of panics, behaviour
  of sends and UpdateConfigOptions racing the lifecycle, the bounded-join timeout path (abandoned
  stragglers), and that the real scheduler is fair enough to take the terminating schedule.
-/
import GoSecs.Lemmas.Lifecycle

namespace GoSecs.Props.C10
open GoSecs.Lifecycle

/-- **Double open.** Open on a logically open connection (supervisor present, `shutdown` clear —
    including the window between two reconnect generations) returns `ErrAlreadyOpen` and changes
    NOTHING in the configuration. -/
theorem double_open_no_effect (c : Cfg) (m : Mode) (hidle : c.api = .idle)
    (hsup : c.sup.isSome = true) (hopen : c.shutdown = false) :
    step? c (.openEnter m) = some c := by
  simp [step?, hidle, hsup, hopen]

/-- While another Open/Close holds `lifeMu`, a second Open cannot even start (it queues). -/
theorem open_queues_behind_lifeMu (c : Cfg) (m : Mode) (h : c.api ≠ .idle) :
    step? c (.openEnter m) = none := by
  simp [step?, h]

/-- **Close is idempotent.** On a closed configuration Close returns at once (the retained result)
    and changes nothing; on a never-opened one it returns `ErrNotOpen` and changes nothing. -/
theorem close_idempotent (c : Cfg) (h : Closed c) : step? c .closeEnter = some c := by
  obtain ⟨s, hs, hpc⟩ := h.sup
  obtain ⟨e, ep, hcur, hep, hpub⟩ := h.cur
  have hdone : isDone c e = true := by
    have := (h.epochs e ep hep).1 hpub
    simp [isDone, phaseOf, hep, this]
  simp [step?, h.api, hs, hcur, hpc, hdone]

theorem close_never_opened (active : Bool) : step? (init active) .closeEnter = some (init active) := by
  simp [step?, init]

/-- **No reconnect after Close.** From a closed configuration, every interleaving that contains no new
    Open leaves the configuration literally unchanged: no dial or listen (`dials`), no published
    generation, no loop, no supervisor activity, no transport goroutine. -/
theorem no_reconnect_after_close (c : Cfg) (h : Closed c) (as : List Act)
    (hno : ∀ a ∈ as, ∀ m, a ≠ .openEnter m) : run c as = c :=
  closed_run c h as hno

theorem no_dial_after_close (c : Cfg) (h : Closed c) (as : List Act)
    (hno : ∀ a ∈ as, ∀ m, a ≠ .openEnter m) : (run c as).dials = c.dials := by
  rw [closed_run c h as hno]


/-! ## The lifecycle invariant and what it gives when Close returns

  `Inv` (GoSecs/Lemmas/Lifecycle.lean) is a 31-clause inductive invariant of the interleaving model. Its
  load-bearing clauses, in words:
  * E2  every generation that was ever published and is no longer `cur` is fully joined (`done`);
  * U   while the connection is open (`shutdown` clear) at most ONE reconnect loop is live;
  * L1  that loop's position pins `cur`: parked on `prev.wait()` ⇒ `cur = prev`; sleeping / at a fence /
        holding an unpublished successor ⇒ `cur` is joined; inside `tr.Start` ⇒ `cur` is its own epoch;
  * A1/A5 while a loop is live, or the supervisor is inside a reaction, the state is NotConnected and no
        TCP-up can arrive (so no second reaction can start a second loop);
  * R2/S1 a Close past its `publishMu` section has `shutdown` set and its pinned epoch IS `cur`
        (the publishMu linearisation: a loop that publishes does so with `shutdown` clear, i.e. before
        the section, and then Close re-pins exactly that successor; after the section no loop publishes);
  * R5/O2 the transport only runs goroutines of a generation whose `tr.Stop` has not completed, and a
        `tr.Start` that finds its generation sealed is refused by the start gate;
  * S3  api idle ∧ `shutdown` ⇒ the configuration is `Closed`.
  It was first validated by bounded exploration (1.1 M perturbed configurations), then proved. -/

/-- The invariant holds in every reachable configuration: both roles, every interleaving. -/
theorem invariant_reachable (active : Bool) (as : List Act) : Inv (run (init active) as) :=
  inv_run _ as (inv_init active)

/-- **No orphan generation.** Whenever Close returns — in any reachable configuration, after any
    interleaving of Open / Close / reconnect loops / supervisor reactions / joins / transport events —
    the configuration is `Closed`: every generation that was ever published is torn down AND joined, no
    reconnect loop is live, the supervisor has exited, the transport runs no goroutine, and State() reads
    NotConnected. -/
theorem no_orphan_generation (active : Bool) (as : List Act) (c' : Cfg)
    (hret : step? (run (init active) as) .closeLoopsDone = some c') :
    Closed c' ∧ supSt c' = .nc := by
  have hinv := invariant_reachable active as
  generalize run (init active) as = c at hret hinv
  have hinv' := inv_step? c c' .closeLoopsDone hinv hret
  simp only [step?] at hret
  split at hret
  · next hapi =>
    split at hret
    · cases hret
      have hsd : c.shutdown = true := hinv.S1 true (by simp [hapi, apiShut])
      refine ⟨closed_of_inv _ hinv' rfl (by simpa using hsd), ?_⟩
      obtain ⟨_, s, hs, _⟩ := hinv.S2b hapi
      simp [supSt, setSup, hs]
    · cases hret
  · cases hret

/-- The same for the other way a `lifeMu` holder can leave `shutdown` set: a failed Open's rollback. -/
theorem failed_open_leaves_closed (active : Bool) (as : List Act) (c' : Cfg)
    (hret : step? (run (init active) as) .openRollbackDone = some c') : Closed c' := by
  have hinv := invariant_reachable active as
  generalize run (init active) as = c at hret hinv
  have hinv' := inv_step? c c' .openRollbackDone hinv hret
  simp only [step?] at hret
  split at hret
  · next hapi =>
    split at hret
    · cases hret
      have hsd : c.shutdown = true := hinv.S1 true (by simp [hapi, apiShut])
      exact closed_of_inv _ hinv' rfl hsd
    · cases hret
  · cases hret

/-- In every reachable configuration: idle api with `shutdown` set ⇒ `Closed` (so Close is idempotent
    and nothing reconnects, by the theorems above, in every reachable closed configuration). -/
theorem reachable_closed (active : Bool) (as : List Act)
    (hapi : (run (init active) as).api = .idle) (hsd : (run (init active) as).shutdown = true) :
    Closed (run (init active) as) :=
  closed_of_inv _ (invariant_reachable active as) hapi hsd

/-- **Generation serialisation**: at all times every superseded generation is fully joined. -/
theorem superseded_generations_joined (active : Bool) (as : List Act) (e : Nat) (ep : Epoch)
    (hep : (run (init active) as).epochs[e]? = some ep) (hpub : ep.published = true)
    (hne : (run (init active) as).cur ≠ some e) : ep.phase = .done :=
  (invariant_reachable active as).E2 e ep hep hpub hne

/-- **One reconnect loop at a time** while the connection is open. -/
theorem single_reconnect_loop (active : Bool) (as : List Act) (i j : Nat) (li lj : Loop)
    (hopen : (run (init active) as).shutdown = false)
    (hi : (run (init active) as).loops[i]? = some li) (hj : (run (init active) as).loops[j]? = some lj)
    (hli : li.pc ≠ .exited) (hlj : lj.pc ≠ .exited) : i = j :=
  (invariant_reachable active as).U hopen i j li lj hi hj hli hlj

/-- **Close pins the successor** (the `publishMu` argument): once Close is past its fence, the epoch it
    waits on is the current one, and `shutdown` is set — so no loop can publish another. -/
theorem close_pins_current (active : Bool) (as : List Act) (e : Nat)
    (h : (run (init active) as).api = .closeReq e ∨ (run (init active) as).api = .closeWaitEpoch e) :
    (run (init active) as).cur = some e ∧ (run (init active) as).shutdown = true := by
  have hinv := invariant_reachable active as
  rcases h with h | h
  · exact ⟨hinv.R2 e (by simp [h, apiEpoch]), hinv.S1 true (by simp [h, apiShut])⟩
  · exact ⟨hinv.R2 e (by simp [h, apiEpoch]), hinv.S1 true (by simp [h, apiShut])⟩

/-! ## Reopen -/

/-- What Open has set up when it reaches `tr.Start`: a fresh published live epoch as `cur`, a fresh
    supervisor, fences reset, transport armed and idle, no reconnect loop, every older generation joined. -/
structure FreshlyArmed (c : Cfg) (m : Mode) (e : Nat) : Prop where
  api : c.api = .openStart m e
  cur : c.cur = some e
  epoch : c.epochs[e]? = some { published := true, phase := .live }
  sup : c.sup = some {}
  shutdown : c.shutdown = false
  loops : loopsExited c = true
  tr : c.tr = { stopping := false, owner := none, acceptAvail := false }
  older : ∀ (e' : Nat) (ep : Epoch), e' ≠ e → c.epochs[e']? = some ep → ep.published = true → ep.phase = .done

/-- A never-opened connection: Open's first two steps are enabled without waiting and arm a fresh generation. -/
theorem open_fresh (active : Bool) (m : Mode) :
    FreshlyArmed (run (init active) [.openEnter m, .openArm]) m 0 := by
  constructor <;> simp [run, step, step?, init, loopsExited]
  intro e' ep hne hep
  cases e' <;> simp_all

/-- **Reopen is fresh (partial).** From ANY closed configuration the same two steps are enabled without
    waiting and produce the same armed shape as on a never-opened connection, up to the epoch's index and
    the fence counter; all residue of earlier cycles is joined generations and exited loops, which
    `closed_dead`-style reasoning shows inert. PARTIAL: this is the entry of Open; that every later
    behaviour coincides with a fresh connection's (a bisimulation up to renaming of epoch indices) is not
    proved — the harness observes it (reopen + Select + round trip after every history). Note that every
    safety theorem above (`invariant_reachable`, `no_orphan_generation`, `close_never_stuck`, …) quantifies
    over ALL action lists, hence over runs with any number of Close/Open cycles: a reopened connection
    enjoys exactly the guarantees of a fresh one; only behavioural equivalence is left unproved. -/
theorem reopen_is_fresh_partial (c : Cfg) (h : Closed c) (m : Mode) :
    FreshlyArmed (run c [.openEnter m, .openArm]) m c.epochs.length := by
  obtain ⟨s, hs, hpc⟩ := h.sup
  have hl := h.loops
  have h1 : step c (.openEnter m) = { c with gen := c.gen + 1, shutdown := false, api := .openJoin m } := by
    simp [step, step?, h.api, h.shutdown, hs]
  have hl1 : loopsExited { c with gen := c.gen + 1, shutdown := false, api := .openJoin m } = true := hl
  have hstep : run c [.openEnter m, .openArm] =
      { c with gen := c.gen + 1, shutdown := false, epochs := c.epochs ++ [{ published := true }],
               cur := some c.epochs.length, sup := some {}, tr := { c.tr with stopping := false },
               api := .openStart m c.epochs.length } := by
    show step (step c (.openEnter m)) .openArm = _
    rw [h1]
    simp [step, step?, hl1]
  rw [hstep]
  constructor
  · rfl
  · rfl
  · simp
  · rfl
  · rfl
  · exact hl
  · show ({ c.tr with stopping := false } : Tr) = _
    have ho := h.owner
    have ha := h.avail
    cases htr : c.tr with
    | mk st ow av => simp_all
  · intro e' ep hne hep hpub
    have hlt : e' < c.epochs.length := by
      have := (List.getElem?_eq_some_iff.1 hep).1
      simp at this; omega
    rw [List.getElem?_append_left hlt] at hep
    exact (h.epochs e' ep hep).1 hpub


/-! ## Termination -/

/-- **No deadlock in Close.** In EVERY reachable configuration (both roles, every interleaving) in which a
    Close — or the rollback of a failed Open — has passed its entry and not yet returned, some library-side
    action is enabled: Close's three waits (`e.wait()`, `supWg.Wait()`, `connectLoopWg.Wait()`) always
    have someone who can move toward satisfying them. Proved from a second inductive invariant (`Inv2`:
    the pinned epoch is live only while the evClose is still queued un-latched or being processed by a
    supervisor that has not been told to stop; every loop's `prev` is a published generation; the
    supervisor exits only after `stop()`), together with `Inv`.
    A stale loop's pending dial is counted as returning (its generation ctx is cancelled by then). -/
theorem close_never_stuck (active : Bool) (as : List Act)
    (hc : closingApi (run (init active) as).api = true) :
    ∃ a, isLibAct a = true ∧ (step? (run (init active) as) a).isSome = true := by
  obtain ⟨h, h2⟩ := inv12_run (init active) as (inv_init active) (inv2_init active)
  exact close_never_stuck_inv _ h h2 hc

/-- The library-side schedule of a Close on an established generation `e`. -/
def closeSchedule (e : Nat) : List Act :=
  [.closeEnter, .closeRequest, .supStep, .reactCheck, .reactTeardown, .closeTeardown,
   .joinSeal e, .joinStop e, .joinDone e, .closeEpochDone, .supExit, .closeSupDone, .closeLoopsDone]

/-- **Close terminates (partial).** From an established generation with an idle, drained supervisor and
    no live reconnect loop, thirteen library steps — none of which waits on the peer or on a timer —
    complete Close: the api is idle again, `shutdown` is set, the generation is joined, the supervisor
    has exited, State() is NotConnected.
    PARTIAL: deadlock freedom is proved for every reachable configuration (`close_never_stuck`), and so are
    the facts each wait relies on (`close_pins_current`, `no_orphan_generation`); what is NOT proved is
    the variant — that the enabled library actions cannot go on for ever (a measure over queue length,
    supervisor stage, epoch phases and loop positions that every library action decreases while
    `shutdown` is set). This theorem gives a representative terminating schedule instead. Wall-clock boundedness of the real waits (bounded join,
    interrupted backoff) is OBSERVED by the harness (Close latency oracle, close-during-long-backoff). -/
theorem close_terminates_model_partial (c : Cfg) (e : Nat) (s : Sup) (h : Established c e s)
    (hapi : c.api = .idle) (hl : loopsExited c = true) :
    let c' := run c (closeSchedule e)
    c'.api = .idle ∧ c'.shutdown = true ∧ phaseOf c' e = .done ∧ supSt c' = .nc ∧
      c'.tr.owner = none ∧ (∃ s', c'.sup = some s' ∧ s'.pc = .exited) ∧ c'.dials = c.dials := by
  obtain ⟨hsup, hidle, hq, hopen, hup, hns, hcur, howner, hlive⟩ := h
  obtain ⟨st, closed, queue, pc, stopReq, closeEpoch⟩ := s
  simp only at hidle hq hopen hup
  subst hidle hq hopen
  have he : e < c.epochs.length := (List.getElem?_eq_some_iff.1 hlive).1
  have hl' : loopsExited { c with shutdown := true } = true := hl
  simp_all [run, step, step?, closeSchedule, inject, setSup, teardown, phaseOf, setPhase, supSt, isDone,
    loopsExited]

/-! ## Non-vacuity -/

/-- A reachable closed configuration exists (Open, dial ok, select, Close to completion)… -/
example : Closed (run (init true) ([.openEnter .background, .openArm, .openStartOk, .envSelected] ++ closeSchedule 0)) := by
  apply reachable_closed <;> decide

/-- …and the hypothesis of `no_orphan_generation` is satisfiable (Close returning in a reachable run). -/
example : (step? (run (init true) ([.openEnter .background, .openArm, .openStartOk, .envSelected] ++
    (closeSchedule 0).dropLast)) .closeLoopsDone).isSome = true := by decide

end GoSecs.Props.C10
