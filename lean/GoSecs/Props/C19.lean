/-
  C19 — Linktest drops dead links in bounded probes and never drops a link showing life.

  Property theorems only; the loop model is GoSecs/Model/Linktest.lean (`step` = one wake-up of
  `runLinktest`, `run`/`discAt` = the loop over a history of observations), helper lemmas are in
  GoSecs/Lemmas/Linktest.lean. The two decision functions the loop is built around are hand-written
  SPEC reducers in the model; the first two theorems prove that the functions translated from the Go
  source on every run are equal to them for ALL inputs — a flipped comparison or a reset in the wrong
  branch in transport_procedures.go makes this file fail to build.
-/
import GoSecs.Lemmas.Linktest
import GoSecs.Gen.Funcs
import GoSecs.Gen.Facts

namespace GoSecs.Props.C19
open GoSecs GoSecs.Linktest

/-! ## Tie to the source (regenerated on every run): the "a reply is outstanding" input of rule 2 -/

/-- The tracked calls of `sendWaitReply` that concern the in-flight gauge, in source order. -/
def inflightOrder : List String :=
  (Gen.callSites.filter (fun s => s.2.2.1 == "connection.sendWaitReply" &&
      (s.2.2.2 == "c.writeFrame" || s.2.2.2 == "metrics.incDataMsgInflight" || s.2.2.2 == "metrics.decDataMsgInflight"))).map
    (fun s => s.2.2.2)

/-- **Gauge discipline** (call-site table regenerated from the Go AST): in `sendWaitReply` the in-flight gauge — what
    suppression rule 2 and the liveness credit read — is raised at exactly one site, AFTER the frame write, and dropped
    at exactly one site after that (the deferred decrement); no other function touches it. A send that never reached
    the wire therefore cannot leave it raised. -/
theorem inflight_gauge_order_gen :
    inflightOrder = ["c.writeFrame", "metrics.incDataMsgInflight", "metrics.decDataMsgInflight"] ∧
    (Gen.callSites.filter (fun s => (s.2.2.2 == "metrics.incDataMsgInflight" || s.2.2.2 == "metrics.decDataMsgInflight") &&
        s.2.2.1 != "connection.sendWaitReply")) = [] := by
  decide

/-! ## Tie to the source (regenerated on every run) -/

/-- `hsmsss.linktestFailureStep` (as translated from the working tree) is the spec reducer. -/
theorem gen_failureStep_eq_spec (suppress : Bool) (recvNow sentAt inflight fails recvAtLastFail : Int) :
    Gen.hsmsss_linktestFailureStep suppress recvNow sentAt inflight fails recvAtLastFail
      = failureStep suppress recvNow sentAt inflight fails recvAtLastFail := by
  unfold Gen.hsmsss_linktestFailureStep failureStep life
  cases suppress <;> simp

/-- `hsmsss.linktestDisconnectRecheck` (as translated from the working tree) is the spec re-check. -/
theorem gen_recheck_eq_spec (suppress : Bool) (inflight recvNow sentAt : Int) :
    Gen.hsmsss_linktestDisconnectRecheck suppress inflight recvNow sentAt
      = disconnectRecheck suppress inflight recvNow sentAt := by
  unfold Gen.hsmsss_linktestDisconnectRecheck disconnectRecheck life
  cases suppress <;> simp
  by_cases h1 : 0 < inflight <;> by_cases h2 : sentAt < recvNow <;> simp [h1, h2] <;> omega

/-! ## Suppression off: every interval is probed, every timeout counts -/

/-- With suppression off every wake-up sends a probe, and every probe timeout adds exactly one to the
    consecutive-failure counter (never credited); an answered probe resets it. -/
theorem off_counts_every_timeout (c : Cfg) (s : LState) (o : Obs) (hs : c.suppress = false) :
    (step c s o).2.probed = true ∧
    (o.probeOk = false → (step c s o).1.fails = s.fails + 1 ∧
        ((step c s o).2 = .counted ∨ (step c s o).2 = .disconnect)) ∧
    (o.probeOk = true → (step c s o).1.fails = 0 ∧ (step c s o).2 = .probeOk) := by
  rw [step_off c s o hs]
  cases hok : o.probeOk
  · by_cases ht : s.fails + 1 ≥ c.threshold <;> simp [ht, Act.probed]
  · simp [Act.probed]

/-- With suppression off the loop disconnects iff the history contains `threshold` consecutive probe
    timeouts (for every threshold ≥ 1 and every history). -/
theorem off_disconnect_iff_threshold_consecutive (c : Cfg) (k : Nat) (hs : c.suppress = false)
    (hk : c.threshold = (k : Int)) (h1 : 1 ≤ k) (os : List Obs) :
    (discAt c .init os).isSome = true ↔ hasRun k os = true := by
  rw [discAt_off_gen c k hs hk os .init 0 rfl (by omega)]
  constructor
  · rintro (h | h)
    · exact prefix_imp_hasRun k os (by simpa using h)
    · exact h
  · exact Or.inr

/-- … and it does so at exactly the observation that completes the FIRST such run: the history up to and
    including it has a run of `threshold` timeouts, the history before it has none. -/
theorem off_disconnect_exactly_at_threshold (c : Cfg) (k : Nat) (hs : c.suppress = false)
    (hk : c.threshold = (k : Int)) (h1 : 1 ≤ k) (os : List Obs) (i : Nat) (h : discAt c .init os = some i) :
    hasRun k (os.take (i + 1)) = true ∧ hasRun k (os.take i) = false := by
  obtain ⟨ha, hb⟩ := discAt_take c os .init i h
  constructor
  · exact (off_disconnect_iff_threshold_consecutive c k hs hk h1 _).mp (by simp [ha])
  · have := (off_disconnect_iff_threshold_consecutive c k hs hk h1 (os.take i))
    rw [hb] at this
    cases hr : hasRun k (os.take i)
    · rfl
    · exact absurd (this.mpr hr) (by simp)

/-! ## Suppression on -/

/-- A failed probe is credited (not counted) iff the link shows life at evaluation time: a frame arrived
    after the probe went out, or a data reply is outstanding. Stated for the translated Go function. -/
theorem credit_iff_life (suppress : Bool) (recvNow sentAt inflight fails ral : Int) :
    (Gen.hsmsss_linktestFailureStep suppress recvNow sentAt inflight fails ral).2.2 = true ↔
      suppress = true ∧ (recvNow > sentAt ∨ inflight > 0) := by
  rw [gen_failureStep_eq_spec]
  unfold failureStep life
  cases suppress
  · simp
  · by_cases h1 : recvNow > sentAt <;> by_cases h2 : inflight > 0 <;> by_cases h3 : fails > 0 ∧ recvNow > ral <;>
      simp [h1, h2, h3]
    all_goals (first | omega | (intro; omega) | skip)

/-- A credit resets the run and leaves the last-counted-failure stamp alone. -/
theorem credit_resets_run (suppress : Bool) (recvNow sentAt inflight fails ral : Int)
    (h : (Gen.hsmsss_linktestFailureStep suppress recvNow sentAt inflight fails ral).2.2 = true) :
    Gen.hsmsss_linktestFailureStep suppress recvNow sentAt inflight fails ral = (0, ral, true) := by
  rw [gen_failureStep_eq_spec] at h ⊢
  unfold failureStep at h ⊢
  cases hc : (suppress && life recvNow sentAt inflight)
  · rw [hc] at h
    by_cases h2 : (suppress && decide (fails > 0) && decide (recvNow > ral)) = true <;> simp [h2] at h
  · simp

/-- The counter is the number of counted failures since the last receive activity: after any history,
    `fails` equals the length of the current silent run read off the event history. -/
theorem fails_eq_silent_run_length (c : Cfg) (hs : c.suppress = true) (ht : 1 ≤ c.threshold) (os : List Obs) :
    (run c .init os).1.fails = (silentRun (events c .init os []) : Int) :=
  (summ_run c hs (by omega) os .init [] ⟨rfl, by simp [LState.init], by simp [prevCounted]⟩).1

/-- A history in which every probe timeout is preceded by life — life at evaluation time, or a frame
    received since the previous timeout — never reaches TCPDown, for every threshold ≥ 2. -/
theorem never_disconnect_when_alive (c : Cfg) (hs : c.suppress = true) (ht : 2 ≤ c.threshold)
    (os : List Obs) (h : AliveHistory c none os) : discAt c .init os = none :=
  never_disc_gen c hs ht os .init none (Or.inl rfl) h

/-- Whatever the threshold (including 1), a disconnect happens only on a probe that timed out with no
    sign of life at evaluation time AND none at the fresh pre-disconnect re-check. -/
theorem disconnect_only_without_life (c : Cfg) (hs : c.suppress = true) (ht : 1 ≤ c.threshold) (s : LState) (o : Obs)
    (h : (step c s o).2 = .disconnect) :
    o.timesOut c = true ∧ life o.recvNow o.sentAt o.inflight = false ∧
      life o.finalRecv o.sentAt o.finalInflight = false := by
  cases hp : (o.active || decide (o.inflightPre > 0))
  · cases hok : o.probeOk
    · cases hl : life o.recvNow o.sentAt o.inflight
      · rw [step_on_nolife c s o hs hp hok hl] at h
        cases hf : life o.finalRecv o.sentAt o.finalInflight
        · simp [Obs.timesOut, hp, hok]
        · exfalso
          simp only [hf, reduceIte] at h
          split at h <;> split at h <;> simp at h
      · rw [step_on_life c s o hs hp hok hl (by omega)] at h; simp at h
    · rw [step_ok c s o (by simp [hp]) hok] at h; simp at h
  · rw [step_suppressed c s o (by simp [hs, hp])] at h; simp at h

/-- Threshold 1: the re-check is what protects a live link — the loop disconnects on a timeout iff neither
    the evaluation snapshot nor the fresh re-read shows life. -/
theorem threshold_one_recheck (c : Cfg) (hs : c.suppress = true) (ht : c.threshold = 1) (s : LState) (o : Obs)
    (hf : 0 ≤ s.fails) :
    (step c s o).2 = .disconnect ↔
      (o.timesOut c = true ∧ life o.recvNow o.sentAt o.inflight = false ∧
        life o.finalRecv o.sentAt o.finalInflight = false) := by
  constructor
  · exact disconnect_only_without_life c hs (by omega) s o
  · rintro ⟨h1, h2, h3⟩
    simp only [Obs.timesOut, hs, Bool.true_and, Bool.and_eq_true, Bool.not_eq_eq_eq_not, Bool.not_true] at h1
    rw [step_on_nolife c s o hs h1.1 h1.2 h2]
    have : (if s.fails > 0 ∧ o.recvNow > s.recvAtLastFail then (1 : Int) else s.fails + 1) ≥ c.threshold := by
      split <;> omega
    simp [this, h3]

/-- No probe is sent while traffic flowed within the last interval or a reply is outstanding — and only then:
    a wake-up sends no Linktest.req iff suppression is on and (line active ∨ data in flight); it then leaves
    the failure accounting untouched. -/
theorem no_probe_while_active_or_inflight (c : Cfg) (s : LState) (o : Obs) :
    ((step c s o).2.probed = false ↔ (c.suppress = true ∧ (o.active = true ∨ o.inflightPre > 0))) ∧
    ((step c s o).2.probed = false → (step c s o).1 = s) := by
  cases hc : (c.suppress && (o.active || decide (o.inflightPre > 0)))
  · have hne : ¬ (c.suppress = true ∧ (o.active = true ∨ o.inflightPre > 0)) := by
      intro ⟨a, b⟩
      simp only [a, Bool.true_and, Bool.or_eq_false_iff, decide_eq_false_iff_not] at hc
      rcases b with b | b
      · rw [b] at hc; exact absurd hc.1 (by simp)
      · exact hc.2 b
    have hp : (step c s o).2.probed = true := step_unsuppressed_probed c s o hc
    simp [hp, hne]
  · rw [step_suppressed c s o hc]
    simp only [Bool.and_eq_true, Bool.or_eq_true, decide_eq_true_eq] at hc
    simp [Act.probed, hc]

/-- An answered probe resets the consecutive-failure counter (both modes). -/
theorem success_resets (c : Cfg) (s : LState) (o : Obs) (h : (step c s o).2 = .probeOk) :
    (step c s o).1.fails = 0 := by
  cases hc : (c.suppress && (o.active || decide (o.inflightPre > 0)))
  · cases hok : o.probeOk
    · exact absurd h (step_timeout_not_ok c s o hc hok)
    · rw [step_ok c s o hc hok]
  · rw [step_suppressed c s o hc] at h; simp at h

/-! ## Dead link: dropped after exactly `threshold` probes, suppression on or off -/

/-- A peer that stops answering while nothing else is received and nothing is outstanding is disconnected
    at exactly the `threshold`-th probe (index `threshold - 1`), and not before. -/
theorem silent_peer_dropped_at_threshold (c : Cfg) (k : Nat) (hk : c.threshold = (k : Int)) (h1 : 1 ≤ k)
    (r : Int) (os : List Obs) (hall : ∀ o ∈ os, Silent r o) :
    discAt c .init os = if k ≤ os.length then some (k - 1) else none := by
  simpa using discAt_silent_gen c k hk r os .init 0 rfl (by omega) (by omega) hall

/-- **Bounded detection after any history.** Whatever happened before (any accounting state below the threshold:
    earlier credits, restarts, answered probes), once the peer falls silent `threshold` further probes are
    enough: the loop disconnects at one of the next `threshold` wake-ups, suppression on or off. -/
theorem dead_link_dropped_within_threshold (c : Cfg) (k : Nat) (hk : c.threshold = (k : Int)) (r : Int)
    (s : LState) (n : Nat) (hf : s.fails = (n : Int)) (hn : n < k) (os : List Obs)
    (hall : ∀ o ∈ os, Silent r o) (hlen : k ≤ os.length) :
    ∃ i, discAt c s os = some i ∧ i < k :=
  discAt_silent_bounded c k hk r os s n hf hn hall hlen

/-! ## Non-vacuity -/

def cfgOn : Cfg := ⟨true, 3⟩
def cfgOff : Cfg := ⟨false, 3⟩
/-- silent timeout / timeout with a frame after the probe / answered -/
def oSilent (t : Int) : Obs := ⟨false, 0, false, t, 5, 0, 0, 5⟩
def oLife (t : Int) : Obs := ⟨false, 0, false, t, t + 1, 0, 0, t + 1⟩
def oOk (t : Int) : Obs := ⟨false, 0, true, t, t + 1, 0, 0, t + 1⟩

example : discAt cfgOff .init [oSilent 10, oSilent 20, oOk 30, oSilent 40, oSilent 50, oSilent 60] = some 5 := by decide
example : hasRun 3 [oSilent 10, oSilent 20, oOk 30, oSilent 40, oSilent 50, oSilent 60] = true := by decide
example : AliveHistory cfgOn none [oSilent 10, oLife 20, oSilent 30, oLife 40, oLife 50] := by
  simp [AliveHistory, cfgOn, oSilent, oLife, life]
example : ∀ o ∈ [oSilent 10, oSilent 20, oSilent 30], Silent 5 o := by
  simp [Silent, oSilent]
example : discAt cfgOn .init [oSilent 10, oSilent 20, oSilent 30] = some 2 := by decide
example : (step ⟨true, 1⟩ .init ⟨false, 0, false, 10, 5, 0, 1, 5⟩).2 = .recheckCredited := by decide

end GoSecs.Props.C19
