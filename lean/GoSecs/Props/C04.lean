/-
  C04 — frame decoding and stream framing are robust to arbitrary bytes and segmentation.

  Property theorems only; helper lemmas live in GoSecs/Lemmas/{Hsms,Framing}.lean.
  Totality ("never panics") is by construction for the model (every function is total and the driver
  runs the same definitions); on the implementation it is checked by the harness under `recover`.
-/
import GoSecs.Lemmas.Framing
import GoSecs.Lemmas.HsmsGen
import GoSecs.Lemmas.FramingGen
import GoSecs.Lemmas.ReadFrameGen
import GoSecs.Lemmas.ReadFrameModel
import GoSecs.Gen.Consts
import GoSecs.Gen.Funcs

namespace GoSecs.Props.C04
open GoSecs GoSecs.Secs2 GoSecs.Hsms GoSecs.Framing

/-! ## Tie to the source (regenerated on every run) -/

/-- The size cap both `DecodeHSMSMessage` (`maxHSMSMsgLen = secs2.MaxByteSize`) and `readFrame`
    (`secs2.MaxByteSize`) compare against, and the SType / reject-reason constants. -/
theorem consts_gen :
    Gen.secs2_MaxByteSize = (maxMsgLen : Int) ∧ Gen.hsms_maxHSMSMsgLen = (maxMsgLen : Int) ∧ Gen.hsms_DataMsgType = (stData : Int) ∧
    Gen.hsms_RejectSTypeNotSupported = 1 ∧ Gen.hsms_RejectPTypeNotSupported = 2 ∧
    Gen.hsms_SelectedState = 2 := by
  decide

set_option maxRecDepth 8192 in
/-- `hsms.IsValidSType` (used by `dispatchFrame`, translated from message.go) is the model's table. -/
theorem isValidSType_gen_table : ∀ n : Nat, n < 256 → Gen.hsms_IsValidSType (n : Int) = definedSType n := by
  decide

theorem isValidSType_gen (b : UInt8) : Gen.hsms_IsValidSType (b.toNat : Int) = definedSType b.toNat :=
  isValidSType_gen_table b.toNat (by have := b.toNat_lt; omega)

/-- What a decoded frame's header is read as (regenerated from hsms/data_msg.go, hsms/control_msg.go): the
    accessors applied to ANY ten header bytes give the model's fields — there is no header for which the
    code's view and the model's view of a received frame differ. -/
theorem decodedHeader_gen (m : DataMsg) (c : ControlMsg) :
    Gen.hsms_DataMessage_SessionID m.toGen = (m.hdr.sessionID : Int) ∧
    Gen.hsms_DataMessage_Stream m.toGen = (m.hdr.stream.toNat : Int) ∧
    Gen.hsms_DataMessage_Function m.toGen = (m.hdr.function.toNat : Int) ∧
    Gen.hsms_DataMessage_WaitBit m.toGen = m.hdr.wbit ∧
    Gen.hsms_DataMessage_ID m.toGen = (idOfSys m.hdr.sys : Int) ∧
    Gen.hsms_ControlMessage_Type c.toGen = (c.type : Int) ∧
    Gen.hsms_ControlMessage_ID c.toGen = (idOfSys c.hdr.sys : Int) :=
  ⟨dataSessionID_gen m, dataStream_gen m, dataFunction_gen m, dataWaitBit_gen m, dataID_gen m, controlType_gen c,
   controlID_gen c⟩

/-- `NewRejectReqRaw` (what `sendReject` answers an undefined SType / unsupported PType with) packs the echoed
    byte, the reason and the system bytes as the model's `rejectFor` assumes. -/
theorem newRejectReqRaw_gen (sid : Nat) (p st : UInt8) (s : Sys) (reason : UInt8) :
    Gen.hsms_NewRejectReqRaw (sid : Int) (p.toNat : Int) (st.toNat : Int) s.toBytes (reason.toNat : Int) =
      (newRejectReqRaw sid p st s reason).toGen :=
  Hsms.newRejectReqRaw_gen sid p st s reason

/-- **`readFrame`'s length gate, regenerated from hsmsss/transport_recv.go** (its statements from
    `msgLen := binary.BigEndian.Uint32(lenBuf[:])` to before `allocFrame`): `msgLen < 10` and
    `msgLen > secs2.MaxByteSize` are refused, anything else goes on to the allocation — the model's `lengthGate` at
    the cap, for every four prefix bytes; and the model's receive step applies exactly this gate when the prefix
    completes, before it counts any allocation. -/
theorem lengthGate_gen (a b c d : UInt8) :
    Gen.hsmsss_transport_readFrame_lengthGate [a, b, c, d] = gateOut (lengthGate maxMsgLen (beVal [a, b, c, d])) :=
  Framing.lengthGate_gen a b c d

theorem stepByte_gate (cap : Nat) (s : RState) (b : UInt8) (hd : s.dropped = none) (hl : s.len = none)
    (h4 : ¬ s.got + 1 < 4) :
    stepByte cap s b =
      (match lengthGate cap (beVal (b :: s.rbuf).reverse) with
       | .error d => { s with rbuf := b :: s.rbuf, got := s.got + 1, started := true, idle := 0, dropped := some d }
       | .ok L => { s with rbuf := b :: s.rbuf, got := s.got + 1, started := true, idle := 0, len := some L,
                           alloc := s.alloc + L }) :=
  Framing.stepByte_gate cap s b hd hl h4

/-- **The length gate of `DecodeHSMSMessage`, regenerated from hsms/decode.go** is the model's `frameGuard`
    (see Props/C03 `decodeGuards_gen`), for every byte string, with no slice out of range. -/
theorem decodeGuards_gen (data : Bytes) :
    Gen.hsms_DecodeHSMSMessage_guards data =
      some (match frameGuard data with
        | .error e => .error (false, some e.goName)
        | .ok owned => .ok (((beVal (data.take 4) : Nat) : Int), owned)) ∧
    decodeHSMSMessage data = (match frameGuard data with | .error e => .error e | .ok owned => decodeOwnedFrame owned) :=
  ⟨Hsms.decodeGuards_gen data, decodeHSMSMessage_guard data⟩

set_option maxRecDepth 8192 in
/-- `decodeOwnedFrame`'s explicit `case` list (data + eight control STypes) is the same set. -/
theorem decode_stypes_eq_valid : ∀ n : Nat, n < 256 → (n == stData || controlSType n) = definedSType n := by
  decide

/-! ## Which byte strings are frames -/

/-- The header-level verdict of `decodeOwnedFrame` on `[header ‖ body]`. -/
theorem decodeOwnedFrame_accepts (h : Header) (body : Bytes) :
    (∃ m, decodeOwnedFrame (h.toBytes ++ body) = .ok m) ↔ (h.ptype = 0 ∧ definedSType h.stype.toNat = true) := by
  have hd := decode_stypes_eq_valid h.stype.toNat (by have := h.stype.toNat_lt; omega)
  simp only [decodeOwnedFrame, Header.ofBytes_toBytes]
  by_cases hp : h.ptype = 0
  · by_cases h0 : (h.stype.toNat == stData) = true
    · simp [hp, h0, ← hd]
    · by_cases hc : controlSType h.stype.toNat = true
      · simp [hp, h0, hc, ← hd]
      · simp [hp, h0, hc, ← hd]
  · simp [hp]

/-- **Frame decoding accepts exactly the well-formed frames**: the input is a 4-byte big-endian length
    `L = 10 + |body|` equal to the number of remaining bytes, with `L ≤ cap`, followed by a header with
    PType 0 and a defined SType, followed by the body — *any* body.  (A control SType with a non-empty
    body is accepted at this level; `dispatchFrame` answers it with a Reject, see `classify_vs_decode`.) -/
theorem accepts_iff_wellformed (bs : Bytes) :
    (∃ m, decodeHSMSMessage bs = .ok m) ↔
      ∃ (h : Header) (body : Bytes), bs = beBytes 4 (10 + body.length) ++ h.toBytes ++ body ∧
        10 + body.length ≤ maxMsgLen ∧ h.ptype = 0 ∧ definedSType h.stype.toNat = true := by
  constructor
  · rintro ⟨m, hm⟩
    obtain ⟨p, rfl, h10, hmax, hd⟩ := decodeHSMSMessage_ok bs m hm
    cases ho : Header.ofBytes p with
    | none => rw [Header.ofBytes_eq_none] at ho; omega
    | some hb =>
      obtain ⟨h, body⟩ := hb
      have hp := Header.ofBytes_eq_some p h body ho
      subst hp
      have := (decodeOwnedFrame_accepts h body).mp ⟨m, hd⟩
      refine ⟨h, body, ?_, ?_, this.1, this.2⟩
      · simp [Nat.add_comm]
      · simpa [Nat.add_comm] using hmax
  · rintro ⟨h, body, rfl, hmax, hp, hs⟩
    have e : beBytes 4 (10 + body.length) ++ h.toBytes ++ body =
        beBytes 4 (h.toBytes ++ body).length ++ (h.toBytes ++ body) := by simp
    rw [e, decodeHSMSMessage_frame _ (by simp) (by simpa using hmax)]
    exact (decodeOwnedFrame_accepts h body).mpr ⟨hp, hs⟩

/-- The same verdict in terms of the raw numbers: at least 14 bytes, length field = remaining bytes,
    at most the cap (the lower bound 10 follows), byte 8 (PType) zero, byte 9 (SType) defined. -/
theorem accepts_iff_wellformed_numeric (bs : Bytes) :
    (∃ m, decodeHSMSMessage bs = .ok m) ↔
      14 ≤ bs.length ∧ bs.length = 4 + beVal (bs.take 4) ∧ beVal (bs.take 4) ≤ maxMsgLen ∧
      bs[8]? = some 0 ∧ ∃ s, bs[9]? = some s ∧ definedSType s.toNat = true := by
  rw [accepts_iff_wellformed]
  constructor
  · rintro ⟨h, body, rfl, hmax, hp, hs⟩
    have hv : beVal (beBytes 4 (10 + body.length)) = 10 + body.length :=
      beVal_beBytes4 _ (by unfold maxMsgLen at hmax; omega)
    have ht : (beBytes 4 (10 + body.length) ++ h.toBytes ++ body).take 4 = beBytes 4 (10 + body.length) := by
      rw [List.append_assoc]; exact take4_frame _ _
    rw [ht, hv]
    obtain ⟨a, b, c, d, hbe⟩ : ∃ a b c d, beBytes 4 (10 + body.length) = [a, b, c, d] := ⟨_, _, _, _, rfl⟩
    rw [hbe]
    refine ⟨by simp, by simp; omega, hmax, ?_, h.stype, ?_, hs⟩
    · simp [Header.toBytes, hp]
    · simp [Header.toBytes]
  · rintro ⟨h14, hlen, hmax, hp, s, hs, hdef⟩
    cases ho : Header.ofBytes (bs.drop 4) with
    | none => rw [Header.ofBytes_eq_none] at ho; simp at ho; omega
    | some hb =>
      obtain ⟨h, body⟩ := hb
      have hd := Header.ofBytes_eq_some _ h body ho
      have hsplit : bs = bs.take 4 ++ (h.toBytes ++ body) := by rw [← hd, List.take_append_drop]
      have ht : (bs.take 4).length = 4 := by simp; omega
      have hbl : 10 + body.length = beVal (bs.take 4) := by
        have : bs.length = (bs.take 4).length + (h.toBytes ++ body).length := by
          rw [← List.length_append, ← hsplit]
        simp at this; omega
      have hbe := beBytes_beVal (bs.take 4)
      rw [ht] at hbe
      refine ⟨h, body, ?_, by omega, ?_, ?_⟩
      · rw [hbl, hbe, List.append_assoc]; exact hsplit
      · have : bs[8]? = some h.ptype := by
          rw [hsplit, List.getElem?_append_right (by omega), ht]; simp [Header.toBytes]
        rw [this] at hp; exact Option.some.inj hp
      · have : bs[9]? = some h.stype := by
          rw [hsplit, List.getElem?_append_right (by omega), ht]; simp [Header.toBytes]
        rw [this] at hs; rw [Option.some.inj hs]; exact hdef

/-- The two payload entry points (no length prefix): between 10 bytes and the cap, PType 0, defined SType. -/
theorem payload_accepts_iff_wellformed (p : Bytes) :
    (∃ m, decodeHSMSPayload p = .ok m) ↔
      ∃ (h : Header) (body : Bytes), p = h.toBytes ++ body ∧ 10 + body.length ≤ maxMsgLen ∧
        h.ptype = 0 ∧ definedSType h.stype.toNat = true := by
  unfold decodeHSMSPayload
  constructor
  · rintro ⟨m, hm⟩
    by_cases h1 : lenLt p 10 = true
    · simp [h1] at hm
    · by_cases h2 : p.length > maxMsgLen
      · simp [h1, h2] at hm
      · simp only [h1, h2, Bool.false_eq_true, reduceIte] at hm
        cases ho : Header.ofBytes p with
        | none => simp [decodeOwnedFrame, ho] at hm
        | some hb =>
          obtain ⟨h, body⟩ := hb
          have hp := Header.ofBytes_eq_some p h body ho
          subst hp
          have := (decodeOwnedFrame_accepts h body).mp ⟨m, hm⟩
          exact ⟨h, body, rfl, by simp at h2; omega, this.1, this.2⟩
  · rintro ⟨h, body, rfl, hmax, hp, hs⟩
    have h1 : lenLt (h.toBytes ++ body) 10 = false := by rw [lenLt_false_iff]; simp
    have h2 : ¬ (h.toBytes ++ body).length > maxMsgLen := by simp; omega
    simp only [h1, h2, Bool.false_eq_true, reduceIte]
    exact (decodeOwnedFrame_accepts h body).mpr ⟨hp, hs⟩

/-- Which error a rejected input gets (the order of the checks in `DecodeHSMSMessage`). -/
theorem reject_reason (bs : Bytes) (e : FErr) (h : decodeHSMSMessage bs = .error e) :
    (e = .tooShort ∧ bs.length < 14) ∨
    (e = .lenSmall ∧ 14 ≤ bs.length ∧ beVal (bs.take 4) < 10) ∨
    (e = .lenBig ∧ 14 ≤ bs.length ∧ beVal (bs.take 4) > maxMsgLen) ∨
    (e = .mismatch ∧ 14 ≤ bs.length ∧ 10 ≤ beVal (bs.take 4) ∧ beVal (bs.take 4) ≤ maxMsgLen ∧
        bs.length ≠ 4 + beVal (bs.take 4)) ∨
    ((e = .ptype ∨ e = .stype) ∧ bs.length = 4 + beVal (bs.take 4)) := by
  unfold decodeHSMSMessage at h
  by_cases h14 : lenLt bs 14 = true
  · simp [h14] at h; subst h; exact .inl ⟨rfl, (lenLt_iff _ _).mp h14⟩
  · have h14' : 14 ≤ bs.length := by rw [Bool.not_eq_true, lenLt_false_iff] at h14; exact h14
    simp only [h14, Bool.false_eq_true, reduceIte] at h
    by_cases h1 : beVal (bs.take 4) < 10
    · simp [h1] at h; subst h; exact .inr (.inl ⟨rfl, h14', h1⟩)
    · by_cases h2 : beVal (bs.take 4) > maxMsgLen
      · simp [h1, h2] at h; subst h; exact .inr (.inr (.inl ⟨rfl, h14', h2⟩))
      · by_cases h3 : bs.length - 4 = beVal (bs.take 4)
        · simp only [h1, h2, h3, reduceIte, bne_self_eq_false, Bool.false_eq_true, List.length_drop] at h
          refine .inr (.inr (.inr (.inr ⟨?_, by omega⟩)))
          unfold decodeOwnedFrame at h
          cases ho : Header.ofBytes (bs.drop 4) with
          | none => rw [Header.ofBytes_eq_none] at ho; simp at ho; omega
          | some hb =>
            obtain ⟨hh, body⟩ := hb
            simp only [ho] at h
            by_cases hp : (hh.ptype != 0) = true
            · simp [hp] at h; exact .inl h.symm
            · by_cases h0 : (hh.stype.toNat == stData) = true
              · simp [hp, h0] at h
              · by_cases hc : controlSType hh.stype.toNat = true
                · simp [hp, h0, hc] at h
                · simp [hp, h0, hc] at h; exact .inr h.symm
        · simp [h1, h2, h3] at h; subst h
          exact .inr (.inr (.inr (.inl ⟨rfl, h14', by omega, by omega, by omega⟩)))

/-! ## Invalid bodies -/

/-- **A data frame whose body is not valid SECS-II is still accepted at the frame level**: for *any*
    body bytes the frame decodes to a data message owning exactly those bytes; the body's validity only
    shows in the lazily decoded item. -/
theorem bad_body_still_framed (h : Header) (body : Bytes) (hp : h.ptype = 0) (hs : h.stype = 0)
    (hmax : 10 + body.length ≤ maxMsgLen) :
    decodeHSMSMessage (beBytes 4 (10 + body.length) ++ h.toBytes ++ body) = .ok (.data ⟨h, .raw body⟩) ∧
    (⟨h, .raw body⟩ : DataMsg).decodeErr =
      (match Secs2.decode body with | .ok _ => none | .error e => some e) := by
  constructor
  · have e : beBytes 4 (10 + body.length) ++ h.toBytes ++ body =
        beBytes 4 (h.toBytes ++ body).length ++ (h.toBytes ++ body) := by simp
    rw [e, decodeHSMSMessage_frame _ (by simp) (by simpa using hmax)]
    simp [decodeOwnedFrame, Header.ofBytes_toBytes, hp, hs, stData]
  · simp only [DataMsg.decodeErr, DataMsg.item, Body.item]
    cases Secs2.decode body with
    | ok v => rfl
    | error e => rfl

set_option maxRecDepth 8192 in
/-- Such frames exist: body `FF` (format byte announcing 3 length bytes that are missing) in an
    S1F1 W frame (`00 00 00 0B | 00 01 81 01 00 00 00 00 00 01 | FF`). -/
theorem bad_body_example :
    ∃ m, decodeHSMSMessage (beBytes 4 11 ++ (⟨0, 1, 0x81, 1, 0, 0, 0, 0, 0, 1⟩ : Header).toBytes ++ [0xFF]) = .ok (.data m) ∧
      m.decodeErr = some .eofLen :=
  ⟨_, (bad_body_still_framed ⟨0, 1, 0x81, 1, 0, 0, 0, 0, 0, 1⟩ [0xFF] rfl rfl (by decide)).1, by decide⟩

/-- **The body error is the same for every holder, on every call.**  The lazily decoded item / error is
    a function of the message's body alone, and every re-stamped copy (any chain of `WithSessionID`,
    `WithSystemBytes`, `WithID`) shares that body. -/
theorem body_error_stable (m : DataMsg) (l : List Stamp) :
    ∃ m', (Msg.data m).stamps l = .data m' ∧ m'.item = m.item ∧ m'.decodeErr = m.decodeErr := by
  rw [Msg.stamps_eq_setHdr]
  exact ⟨_, rfl, rfl, rfl⟩

/-! ## Segmentation -/

/-- **Segmentation invariance.**  Take any byte stream and any two ways of delivering it as read events
    `(gap, chunk)` — any cut positions (inside the 4-byte length, inside the header, across frame
    boundaries, several frames per read, empty reads) and any delays.  If in both schedules every gap
    that falls inside a frame is within T8 (`GapsOK`; gaps between frames are unconstrained), the receiver
    ends in the same observable state: the same frames in the same order, the same drop verdict, the same
    partial frame, the same allocation total.  Both equal the timing-free reference `parseStream`.
    Holds from any receiver state `s`, for well-formed and malformed streams alike. -/
theorem segmentation_invariance (t8 cap : Nat) (s : RState) (ev₁ ev₂ : List Event)
    (hstream : stream ev₁ = stream ev₂) (h₁ : GapsOK t8 cap s ev₁) (h₂ : GapsOK t8 cap s ev₂) :
    (run t8 cap s ev₁).obs = (run t8 cap s ev₂).obs ∧
    (run t8 cap s ev₁).obs = (feed cap s (stream ev₁)).obs := by
  have a := run_obs t8 cap ev₁ s h₁
  have b := run_obs t8 cap ev₂ s h₂
  exact ⟨by rw [a, b, hstream], a⟩

/-- From the initial state: every admissible schedule of a stream yields `parseStream` of the stream. -/
theorem run_eq_parseStream (t8 cap : Nat) (evs : List Event) (h : GapsOK t8 cap .init evs) :
    (run t8 cap .init evs).obs = (parseStream cap (stream evs)).obs :=
  run_obs t8 cap evs .init h

/-- A receiver-independent sufficient condition for `GapsOK`: every delay within T8, no empty read. -/
theorem segmentation_invariance_bounded_gaps (t8 cap : Nat) (ev₁ ev₂ : List Event)
    (hstream : stream ev₁ = stream ev₂)
    (h₁ : ∀ e ∈ ev₁, e.gap ≤ t8 ∧ e.chunk ≠ []) (h₂ : ∀ e ∈ ev₂, e.gap ≤ t8 ∧ e.chunk ≠ []) :
    (run t8 cap .init ev₁).obs = (run t8 cap .init ev₂).obs :=
  (segmentation_invariance t8 cap .init ev₁ ev₂ hstream
    (gapsOK_of_all_le t8 cap ev₁ .init (.inr rfl) h₁) (gapsOK_of_all_le t8 cap ev₂ .init (.inr rfl) h₂)).1

/-- **A valid frame stream is delivered completely and in order under every segmentation**: if the
    bytes carried are the concatenation of well-formed frames `fs` (10 ≤ |payload| ≤ cap) then, however they
    are cut and delayed (in-frame gaps within T8), exactly `fs` reach `dispatchFrame`, in order, the link
    stays up, the receiver is between frames, and exactly Σ|payload| bytes were allocated. -/
theorem valid_stream_delivered (t8 cap : Nat) (hcap : cap < 4294967296) (fs : List Bytes)
    (hwf : ∀ p ∈ fs, 10 ≤ p.length ∧ p.length ≤ cap) (evs : List Event)
    (hstream : stream evs = (fs.map frameOf).flatten) (hg : GapsOK t8 cap .init evs) :
    (run t8 cap .init evs).obs = ⟨fs, none, [], false, (fs.map List.length).sum⟩ := by
  rw [run_eq_parseStream t8 cap evs hg, hstream]
  obtain ⟨⟨b1, _, _, b4, b5⟩, o, a⟩ := feed_frames cap hcap fs .init ⟨rfl, rfl, rfl, rfl, rfl⟩ hwf
  simp only [parseStream, RState.obs, o, a, b1, b4, b5]
  simp [RState.init]

/-! ## Timing -/

/-- **An idle gap never times out**: while no byte of the next frame has been read (`started = false`)
    an event is processed without any deadline, whatever the gap — the outcome is that of feeding the
    chunk, and in particular it is never a timeout. -/
theorem idle_gap_never_times_out (t8 cap : Nat) (s : RState) (hd : s.dropped = none)
    (hs : s.started = false) (gap : Nat) (chunk : Bytes) :
    stepEvent t8 cap s ⟨gap, chunk⟩ = feed cap { s with idle := s.idle + gap } chunk ∧
    (stepEvent t8 cap s ⟨gap, chunk⟩).dropped ≠ some .timeout := by
  have e := stepEvent_ok t8 cap s ⟨gap, chunk⟩ hd (by simp [hs])
  refine ⟨e, ?_⟩
  rw [e]
  exact feed_no_timeout cap chunk _ (by simp [hd])

/-- Whole frames separated by arbitrary idle gaps (hours, if you like) are all delivered. -/
theorem whole_frames_any_gaps (t8 cap : Nat) (hcap : cap < 4294967296) (gfs : List (Nat × Bytes))
    (hwf : ∀ gp ∈ gfs, 10 ≤ gp.2.length ∧ gp.2.length ≤ cap) :
    (run t8 cap .init (gfs.map (fun gp => ⟨gp.1, frameOf gp.2⟩))).obs =
      ⟨gfs.map Prod.snd, none, [], false, (gfs.map (fun gp => gp.2.length)).sum⟩ := by
  have key : ∀ (l : List (Nat × Bytes)) (s : RState), Boundary s → (∀ gp ∈ l, 10 ≤ gp.2.length ∧ gp.2.length ≤ cap) →
      GapsOK t8 cap s (l.map (fun gp => ⟨gp.1, frameOf gp.2⟩)) := by
    intro l
    induction l with
    | nil => intro s _ _; trivial
    | cons gp l ih =>
      intro s hb hall
      have hp := hall gp (by simp)
      obtain ⟨b1, b2, b3, b4, b5⟩ := hb
      refine ⟨fun _ hs => (by rw [b4] at hs; cases hs), ?_⟩
      have e := stepEvent_ok t8 cap s ⟨gp.1, frameOf gp.2⟩ b5 (by simp [b4])
      simp only at e
      have hb' : Boundary { s with idle := s.idle + gp.1 } := ⟨b1, b2, b3, b4, b5⟩
      rw [e, feed_frame cap gp.2 hp.1 hp.2 (by omega) { s with idle := s.idle + gp.1 } hb']
      exact ih _ ⟨b1, b2, b3, b4, b5⟩ (fun q hq => hall q (by simp [hq]))
  have hg := key gfs .init ⟨rfl, rfl, rfl, rfl, rfl⟩ hwf
  have hs : stream (gfs.map (fun gp => (⟨gp.1, frameOf gp.2⟩ : Event))) = ((gfs.map Prod.snd).map frameOf).flatten := by
    simp [stream, Function.comp_def]
  have hwf' : ∀ p ∈ gfs.map Prod.snd, 10 ≤ p.length ∧ p.length ≤ cap := by
    intro p hp
    rw [List.mem_map] at hp
    obtain ⟨gp, hgp, he⟩ := hp
    rw [← he]; exact hwf gp hgp
  have := valid_stream_delivered t8 cap hcap (gfs.map Prod.snd) hwf' _ hs hg
  rw [this]
  simp [Function.comp_def]

/-- A run only ever ends in a timeout if some in-frame gap exceeded T8. -/
theorem timeout_only_in_frame (t8 cap : Nat) (evs : List Event)
    (h : (run t8 cap .init evs).dropped = some .timeout) : ¬ GapsOK t8 cap .init evs := by
  intro hg
  have e := run_eq_parseStream t8 cap evs hg
  have : (parseStream cap (stream evs)).dropped ≠ some .timeout :=
    feed_no_timeout cap _ .init (by simp [RState.init])
  apply this
  have e2 := congrArg Obs.dropped e
  simp only [RState.obs] at e2
  rw [← e2, h]

/-- **A gap longer than T8 inside a frame drops the link**: the event is not consumed, nothing more is
    delivered, and every later event is ignored. -/
theorem inframe_gap_drops (t8 cap : Nat) (s : RState) (hd : s.dropped = none) (hs : s.started = true)
    (gap : Nat) (hgap : s.idle + gap > t8) (chunk : Bytes) (rest : List Event) :
    (run t8 cap s (⟨gap, chunk⟩ :: rest)).dropped = some .timeout ∧
    (run t8 cap s (⟨gap, chunk⟩ :: rest)).out = s.out ∧
    (run t8 cap s (⟨gap, chunk⟩ :: rest)).alloc = s.alloc := by
  have e : stepEvent t8 cap s ⟨gap, chunk⟩ = { s with idle := s.idle + gap, dropped := some .timeout } := by
    simp [stepEvent, hd, hs, hgap]
  rw [run_cons, e, run_dropped t8 cap rest _ .timeout rfl]
  exact ⟨rfl, rfl, rfl⟩

set_option maxRecDepth 8192 in
/-- The first bytes of a frame do start the clock: e.g. two bytes of a length prefix, then silence. -/
theorem inframe_gap_example :
    (run 80 16777215 .init [⟨1000000, [0, 0]⟩, ⟨81, [0, 10]⟩]).obs = ⟨[], some .timeout, [0, 0], true, 0⟩ := by
  decide

/-! ## Timing, tied to the source: which deadline each `Read` of `readN` / `readFrame` runs under

  `readN` and `readFrame` are regenerated from hsmsss/transport_recv.go on every run (effect mode with the I/O extension
  of tools/go2lean: `conn.SetReadDeadline`, `conn.Read`, the clock, `rt.Timers()`, `allocFrame` are trace entries; what
  they return comes from a script of environment answers `Io.Ans`, rendered as the oracle list by `Io.enc`).  The
  sequential reader `Framing.readN` / `Framing.readFrame` (Lemmas/ReadFrameGen.lean) consumes the same script. -/

/-- **`readN`, regenerated, is the sequential `readN`**: result, buffer contents, the `*started` flag handed back, the
    trace (`SetReadDeadline(zero)` / clock + `SetReadDeadline(clock+T8)` / `Read(room)` per iteration) and the unused
    answers — for every script, buffer, `*started`, T8 and fuel for which the sequential reader returns. -/
theorem readN_gen (t8 : Int) (fuel : Nat) (script : List Io.Ans) (buf : Bytes) (started : Bool) (rest : List Go.Val)
    (out : RdOut) (h : readN t8 fuel script buf started = some out) :
    Gen.hsmsss_readN buf t8 started fuel (Io.enc script ++ rest) =
      some (out.err, out.buf, out.started, render out.evs, Io.enc out.rest ++ rest) :=
  Framing.readN_gen t8 fuel script buf started rest out h

/-- **`readFrame`, regenerated, is the sequential `readFrame`**: live T8 → `readN` of the 4-byte prefix → `lengthGate`
    (10 ≤ L ≤ cap, BEFORE the allocation) → `allocFrame(L)` → `readN` of header+body with the SAME `started` flag. -/
theorem readFrame_gen (t : Gen.hsmsss_transport) (fuel : Nat) (script : List Io.Ans) (rest : List Go.Val) (out : FrOut)
    (h : readFrame fuel script = some out) :
    Gen.hsmsss_transport_readFrame t fuel (Io.enc script ++ rest) =
      some (out.frame, out.err, renderF out.evs, Io.enc out.rest ++ rest) :=
  Framing.readFrame_gen t fuel script rest out h

/-- more fuel never changes a result (so "for some fuel" is "for every larger fuel") -/
theorem readN_fuel_mono (t8 : Int) (fuel : Nat) (script : List Io.Ans) (buf : Bytes) (started : Bool) (out : RdOut)
    (h : readN t8 fuel script buf started = some out) (k : Nat) : readN t8 (fuel + k) script buf started = some out :=
  Framing.readN_mono t8 fuel script buf started out h k

/-- **T8 is armed from the first byte of a frame on — a statement about the source.**  For every script of Read
    results (any segmentation, zero-byte reads, errors, clock readings), the trace of the regenerated `readFrame` is
    the rendering of an event sequence that obeys `T8Rule false`: each `SetReadDeadline` is the idle wait
    (`time.Time{}`) iff no byte of this frame has been read so far, and `clock + T8` otherwise — over both `readN`
    calls, so also when the stall falls exactly after the 4-byte length prefix. -/
theorem readFrame_t8_rule (t : Gen.hsmsss_transport) (fuel : Nat) (script : List Io.Ans) (rest : List Go.Val)
    (out : FrOut) (h : readFrame fuel script = some out) :
    (∃ r, Gen.hsmsss_transport_readFrame t fuel (Io.enc script ++ rest) = some (out.frame, out.err, renderF out.evs, r)) ∧
    T8Rule false (rdEvs out.evs) :=
  ⟨⟨_, Framing.readFrame_gen t fuel script rest out h⟩, Framing.readFrame_rule fuel script out h⟩

/-- `readN` alone: it obeys the rule from the `*started` it is given and hands back exactly "a byte has been read". -/
theorem readN_t8_rule (t8 : Int) (fuel : Nat) (script : List Io.Ans) (buf : Bytes) (s0 : Bool) (out : RdOut)
    (h : readN t8 fuel script buf s0 = some out) :
    T8Rule s0 out.evs ∧ out.started = startedAfter s0 out.evs :=
  Framing.readN_rule t8 fuel script buf s0 out h

/-- The rule read off at one `SetReadDeadline`: after a Read that stored at least one byte of the frame, it arms a
    deadline — never the idle wait; and that deadline is the clock reading taken for it plus T8 (`armOf_deadline`). -/
theorem t8_armed_once_a_byte_was_read (s : Bool) (pre post : List RdEv) (d : Dl) (h : T8Rule s (pre ++ .arm d :: post))
    (room : Nat) (got : Bytes) (hin : RdEv.read room got ∈ pre) (hne : got ≠ []) : ∃ dd, d = .t8 dd :=
  Framing.T8Rule_armed s pre post d h room got hin hne

theorem t8_deadline_is_clock_plus_t8 (t8 : Int) (script : List Io.Ans) (dl : Dl) (s1 : List Io.Ans)
    (h : armOf t8 true script = some (dl, s1)) : ∃ t, script = .clock t :: s1 ∧ dl = .t8 (t + t8) :=
  Framing.armOf_deadline t8 script dl s1 h

/-- … and before the first byte of the frame it is the idle wait, however many empty Reads came before. -/
theorem idle_wait_before_first_byte (pre post : List RdEv) (d : Dl) (h : T8Rule false (pre ++ .arm d :: post))
    (hnone : ∀ room got, RdEv.read room got ∈ pre → got = []) : d = .idle :=
  Framing.T8Rule_idle pre post d h hnone

/-- **The deadline decisions of the source are the stream model's per-read decisions.**  For every script of Read results
    in which the allocator hands out a buffer of the requested length (the production `makeFrame`): walking through the
    `readN` events of the regenerated `readFrame` with the model's receiver state (`Framing.feed` consumes what each Read
    stored), every `SetReadDeadline` is the idle wait exactly when the model's state is not `started` — exactly when the
    model's `stepEvent` does not apply T8 to the next event (`idle_gap_never_times_out`), and arms clock+T8 exactly when it
    does (`inframe_gap_drops`). -/
theorem readFrame_decisions_are_the_models (t : Gen.hsmsss_transport) (fuel : Nat) (script : List Io.Ans)
    (rest : List Go.Val) (out : FrOut) (h : readFrame fuel script = some out)
    (halloc : ∀ n len, FrEv.alloc n len ∈ out.evs → len = n) :
    (∃ r, Gen.hsmsss_transport_readFrame t fuel (Io.enc script ++ rest) = some (out.frame, out.err, renderF out.evs, r)) ∧
    ModelRule maxMsgLen .init (rdEvs out.evs) :=
  ⟨⟨_, Framing.readFrame_gen t fuel script rest out h⟩, Framing.readFrame_model fuel script out h halloc⟩

/-- The stall exactly after the length prefix, concretely: the prefix arrives in one Read (idle wait), the allocator
    hands out 10 bytes, then nothing more arrives — the second `readN`'s only Read runs under clock+T8 (= 7+80) and its
    timeout is what `readFrame` returns. -/
theorem stall_after_prefix_example :
    (readFrame 3 [.timers { Gen.hsms_TimerConfig.zero with T8 := 80 }, .err none, .read [0, 0, 0, 10] none,
                  .alloc (List.replicate 10 0), .clock 7, .err none, .read [] (some "i/o timeout")]).map
        (fun o => (o.err, rdEvs o.evs)) =
      some (some "i/o timeout", [.arm .idle, .read 4 [0, 0, 0, 10], .arm (.t8 87), .read 10 []]) := by
  decide

/-! ## Length gate -/

/-- **A length field outside [10, cap] drops the link before anything is allocated for it.**  Between
    frames, if the next four bytes announce `L < 10` or `L > cap`, then under every segmentation (in-frame
    gaps within T8) the run ends with the link dropped for that reason, the allocation total unchanged —
    the claimed size is never requested from `allocFrame` — and no further frame delivered, whatever
    bytes follow. -/
theorem bad_length_drops_before_alloc (t8 cap : Nat) (s : RState) (hb : Boundary s) (L : Nat)
    (h32 : L < 4294967296) (hbad : L < 10 ∨ L > cap) (rest : Bytes) (evs : List Event)
    (hstream : stream evs = beBytes 4 L ++ rest) (hg : GapsOK t8 cap s evs) :
    (run t8 cap s evs).obs.dropped = some (if L < 10 then .lenSmall else .lenBig) ∧
    (run t8 cap s evs).obs.alloc = s.alloc ∧
    (run t8 cap s evs).obs.frames = s.out.reverse := by
  rw [run_obs t8 cap evs s hg, hstream]
  obtain ⟨a, b, c⟩ := feed_bad_length cap L h32 hbad rest s hb
  simp [RState.obs, a, b, c]

/-- Allocation only ever happens for a validated length: one byte step raises `alloc` by at most `cap`. -/
theorem alloc_step_le_cap (cap : Nat) (s : RState) (b : UInt8) :
    (stepByte cap s b).alloc ≤ s.alloc + cap := by
  rcases dropped_cases s with hd | ⟨d, hd⟩
  · simp only [stepByte, hd]
    cases s.len with
    | none => simp only; (repeat' split) <;> dsimp only <;> omega
    | some L => simp only; (repeat' split) <;> dsimp only <;> omega
  · rw [stepByte_dropped cap s b d hd]; omega


/-- **The receiver never holds more than it was sent, plus one cap**: for every byte stream (hostile or
    not) the total ever requested from `allocFrame` is at most the number of bytes actually received plus
    `cap` — a length field is only ever honoured up to `cap`, and every earlier allocation was filled by
    real bytes. -/
theorem alloc_bounded_by_received (cap : Nat) (bs : Bytes) :
    (parseStream cap bs).alloc ≤ bs.length + cap := by
  have hinit : LenInv cap .init := by simp [LenInv, RState.init]
  obtain ⟨hi, h⟩ := feed_alloc cap bs .init 0 hinit (by simp [RState.init])
  have := unreceived_le_cap cap _ hi
  simp only [parseStream]
  omega

/-- … under every segmentation / delay schedule with in-frame gaps within T8. -/
theorem alloc_bounded_any_schedule (t8 cap : Nat) (evs : List Event) (hg : GapsOK t8 cap .init evs) :
    (run t8 cap .init evs).alloc ≤ (stream evs).length + cap := by
  have e := congrArg Obs.alloc (run_eq_parseStream t8 cap evs hg)
  simp only [RState.obs] at e
  rw [e]
  exact alloc_bounded_by_received cap _

/-! ## Frame-level dispatch -/

/-- How `dispatchFrame`'s verdict relates to `decodeOwnedFrame`'s: decode accepts exactly the frames
    dispatch does not reject for PType / SType; among those, a control SType carrying a body is accepted
    by the decoder but answered with a Reject by the receive path. -/
theorem classify_vs_decode (h : Header) (body : Bytes) :
    ((∃ m, decodeOwnedFrame (h.toBytes ++ body) = .ok m) ↔
      (classify (h.toBytes ++ body) ≠ some .rejectPType ∧ classify (h.toBytes ++ body) ≠ some .rejectSType)) ∧
    (classify (h.toBytes ++ body) = some .data ↔ h.ptype = 0 ∧ h.stype = 0) := by
  rw [decodeOwnedFrame_accepts]
  simp only [classify, Header.ofBytes_toBytes]
  have h0 : (h.stype.toNat == stData) = true ↔ h.stype = 0 := by
    simp only [stData, beq_iff_eq]
    constructor
    · intro e; exact UInt8.toNat_inj.mp (by simpa using e)
    · intro e; rw [e]; rfl
  have hd0 : h.stype = 0 → definedSType h.stype.toNat = true := by intro e; rw [e]; rfl
  by_cases hp : h.ptype = 0
  · by_cases hs : definedSType h.stype.toNat = true
    · by_cases hz : h.stype = 0
      · have := h0.mpr hz
        simp [hp, hz, stData, definedSType]
      · have : ¬ (h.stype.toNat == stData) = true := fun e => hz (h0.mp e)
        by_cases hb : body.isEmpty = true <;> simp [hp, hs, hz, this, hb]
    · have hz : ¬ h.stype = 0 := fun e => hs (hd0 e)
      simp [hp, hs, hz]
  · simp [hp]

/-! ## Non-vacuity -/

set_option maxRecDepth 8192 in
/-- A schedule meeting `GapsOK` with a long idle gap, a cut inside the length prefix and one inside the
    header: both frames arrive. -/
example :
    GapsOK 80 16777215 .init
      [⟨5, [0, 0]⟩, ⟨80, [0, 10, 0, 1, 0x81]⟩, ⟨20, [1, 0, 0, 0, 0, 0, 1]⟩, ⟨999999999, frameOf [0xFF, 0xFF, 0, 0, 0, 5, 0, 0, 0, 2]⟩] ∧
    (run 80 16777215 .init
      [⟨5, [0, 0]⟩, ⟨80, [0, 10, 0, 1, 0x81]⟩, ⟨20, [1, 0, 0, 0, 0, 0, 1]⟩, ⟨999999999, frameOf [0xFF, 0xFF, 0, 0, 0, 5, 0, 0, 0, 2]⟩]).obs.frames =
      [[0, 1, 0x81, 1, 0, 0, 0, 0, 0, 1], [0xFF, 0xFF, 0, 0, 0, 5, 0, 0, 0, 2]] := by
  decide

end GoSecs.Props.C04
