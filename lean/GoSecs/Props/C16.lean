/-
  C16 — constructors never panic, clamp not wrap; errored items never reach the wire.

  Model: GoSecs/Model/Construct.lean. Panic-freedom of the real constructors is observed by the
  harness (every call under recover) — a Lean function is total by construction, so the theorem-side
  content is: what the constructors return for every argument list, and the error gate.
-/
import GoSecs.Lemmas.Construct
import GoSecs.Gen.Consts
import GoSecs.Gen.Funcs
import GoSecs.Gen.Facts

namespace GoSecs.Props.C16
open GoSecs GoSecs.Secs2 GoSecs.Construct

/-! ## Tie to the source -/

/-- Go's `clampInt64` is the mathematical clamp, for all values and all bounds. -/
theorem clampInt64_gen (v lo hi : Int) : Gen.secs2_clampInt64 v lo hi = clampI v lo hi := by
  unfold Gen.secs2_clampInt64 clampI
  by_cases h1 : v < lo <;> by_cases h2 : v > hi <;> simp [h1, h2]

/-- Go's `clampUint64` is `min v maxVal`. -/
theorem clampUint64_gen (v hi : Int) : Gen.secs2_clampUint64 v hi = if v > hi then hi else v := by
  unfold Gen.secs2_clampUint64
  by_cases h : v > hi <;> simp [h]

/-! ## Clamp, never wrap -/

/-- The clamp returns the argument itself when it fits, else the NEAREST bound — never `v mod 2^k`. -/
theorem clamp_nearest (v lo hi : Int) (h : lo ≤ hi) :
    (lo ≤ v ∧ v ≤ hi → clampI v lo hi = v) ∧ (v > hi → clampI v lo hi = hi) ∧ (v < lo → clampI v lo hi = lo) := by
  unfold clampI
  refine ⟨fun ⟨a, b⟩ => ?_, fun a => ?_, fun a => ?_⟩
  · have : ¬ v < lo := by omega
    have : ¬ v > hi := by omega
    simp [*]
  · have : ¬ v < lo := by omega
    simp [*]
  · simp [a]

/-- **NewIntItem**: for every argument list, an error-free result holds exactly the clamped supplied
    values in order, all inside the width — so it is well-formed (C01's round trip applies to it). -/
theorem newInt_wf (byteSize : Int) (args : List Arg) (it : Item) (h : newInt byteSize args = some it) :
    WF it ∧ depth it = 0 := by
  unfold newInt at h
  split at h
  · cases h
  · rename_i w _
    split at h
    · cases h
    · rename_i vs hvs
      split at h
      · cases h
      · rename_i hsz
        injection h with h; subst h
        exact ⟨⟨by omega, intArgs_range _ _ (intLo_le_intHi w) args vs hvs⟩, rfl⟩

/-- Scalars: one integer argument of any Go integer type gives the one-element item holding its clamp. -/
theorem newInt_scalar (w : Width) (v : Int) :
    newInt w.bytes [.int v] = some (.int w [clampI v (intLo w.bytes) (intHi w.bytes)]) := by
  cases w <;> simp [newInt, widthOfSize, Width.bytes, intArgs, intArg, maxByteSize, bind, Option.bind]

/-- **Shapes agree**: a scalar, a one-element slice and a numeric string with the same value build the
    same item; and splitting the arguments differently (slice vs scalars) gives the same item. -/
theorem shapes_agree (byteSize v : Int) :
    newInt byteSize [.int v] = newInt byteSize [.ints [v]] ∧
    newInt byteSize [.int v] = newInt byteSize [.str (.val v)] ∧
    newUint byteSize [.int v] = newUint byteSize [.ints [v]] ∧
    newUint byteSize [.int v] = newUint byteSize [.str (.val v)] := by
  refine ⟨?_, ?_, ?_, ?_⟩ <;>
    simp [newInt, newUint, intArgs, intArg, uintArgs, uintArg, strVal, bind, Option.bind]

theorem shapes_concat (byteSize : Int) (vs ws : List Int) :
    newInt byteSize [.ints vs, .ints ws] = newInt byteSize [.ints (vs ++ ws)] := by
  simp [newInt, intArgs, intArg, bind, Option.bind]

theorem intArgs_bad (pre post : List Arg) (a : Arg)
    (ha : a = .float ∨ a = .other ∨ a = .bool true ∨ a = .bool false ∨ a = .str .syntax) (lo mx : Int) :
    intArgs lo mx (pre ++ a :: post) = none := by
  induction pre with
  | nil => rcases ha with rfl | rfl | rfl | rfl | rfl <;> simp [intArgs, intArg, strVal, bind, Option.bind]
  | cons p ps ih => simp only [List.cons_append, intArgs, bind, Option.bind]; cases intArg lo mx p <;> simp [ih]

theorem uintArgs_bad (pre post : List Arg) (a : Arg)
    (ha : a = .float ∨ a = .other ∨ a = .bool true ∨ a = .bool false ∨ a = .str .syntax) (mx : Int) :
    uintArgs mx (pre ++ a :: post) = none := by
  induction pre with
  | nil => rcases ha with rfl | rfl | rfl | rfl | rfl <;> simp [uintArgs, uintArg, strVal, bind, Option.bind]
  | cons p ps ih => simp only [List.cons_append, uintArgs, bind, Option.bind]; cases uintArg mx p <;> simp [ih]

/-- **Unsupported or unparsable arguments yield an error** wherever they stand in the argument list. -/
theorem unsupported_is_error (byteSize : Int) (pre post : List Arg) (a : Arg)
    (ha : a = .float ∨ a = .other ∨ a = .bool true ∨ a = .bool false ∨ a = .str .syntax) :
    newInt byteSize (pre ++ a :: post) = none ∧ newUint byteSize (pre ++ a :: post) = none := by
  constructor
  · unfold newInt; split <;> simp [intArgs_bad pre post a ha]
  · unfold newUint; split <;> simp [uintArgs_bad pre post a ha]

theorem invalid_byte_size_is_error (byteSize : Int) (args : List Arg)
    (h : byteSize ≠ 1 ∧ byteSize ≠ 2 ∧ byteSize ≠ 4 ∧ byteSize ≠ 8) :
    newInt byteSize args = none ∧ newUint byteSize args = none := by
  simp [newInt, newUint, widthOfSize, h]

/-- Negative integers into an unsigned item are an error (documented class), never a wrapped value. -/
theorem negative_into_unsigned_is_error (byteSize v : Int) (h : v < 0) :
    newUint byteSize [.int v] = none := by
  unfold newUint; split <;> simp [uintArgs, uintArg, h, bind, Option.bind]

/-! ## Errors never reach the wire -/

/-- **The cached clean flag is exact**: for every item tree built by the constructors, `Error()` is
    non-nil iff some node (directly or nested at any depth) carries a deferred error. -/
theorem error_iff_errored_below (b : Built) (h : Built.Constructed b) : b.errorNonNil = b.errored :=
  errorNonNil_eq_errored b h

/-- An item with an error anywhere is never `Equal` to any item (itself included). -/
theorem errored_never_equal (a b : Built) (h : a.errored = true) :
    equalBuilt a b = false ∧ equalBuilt b a = false := by
  simp [equalBuilt, h]

/-- …and is refused by the message constructor; an error-free constructed item is accepted. -/
theorem errored_refused_by_message (b : Built) (hc : Built.Constructed b) :
    messageAccepts b = !b.errored := by
  simp [messageAccepts, error_iff_errored_below b hc]

/-- **Constructed ⇒ well-formed ⇒ round-trips.** Every tree the constructors build without an error
    anywhere (over error-free leaves, e.g. `newInt_wf`) is a well-formed item: it is exactly the class
    C01's theorems quantify over, so it encodes to the E5 bytes and decodes back to itself whenever its
    nesting is within the decoder's limit. -/
theorem constructed_wf (b : Built) (hc : Built.Constructed b) (he : b.errored = false)
    (hl : b.leavesOK) (hne : b ≠ .empty) : WF b.value :=
  GoSecs.Construct.constructed_wf b hc he hl hne

theorem constructed_roundtrip (b : Built) (hc : Built.Constructed b) (he : b.errored = false)
    (hl : b.leavesOK) (hne : b ≠ .empty) (hd : depth b.value ≤ maxListDepth) (rest : Bytes) :
    decode (enc b.value ++ rest) = .ok (b.value, (enc b.value).length) :=
  decode_enc b.value (GoSecs.Construct.constructed_wf b hc he hl hne) hd rest

/-- A list is errored iff it is over the size cap or one of the supplied children is errored. -/
theorem newList_errored_iff (kids : List Built) :
    (newList kids).errored = (decide (kids.length > maxByteSize) || Built.erroredL kids) := by
  unfold newList
  split
  · rename_i h; simp [Built.errored, h]
  · rename_i h; simp [Built.errored, erroredL_filter, h]

/-- **Wire entry points** (regenerated call-site table): a message body is adopted from an item only in
    `NewDataMessage` (behind the `Error()` gate) and from raw bytes only in the decode / SECS-I assembly
    paths — there is no other way a body reaches a frame. -/
theorem wire_entry_points :
    (Gen.callSites.filter (fun c => c.2.2.2 == "wire.FromItem")).map (fun c => (c.1, c.2.2.1)) =
      [("hsms", "NewDataMessage")] ∧
    (Gen.callSites.filter (fun c => c.2.2.2 == "wire.AdoptBody")).map (fun c => (c.1, c.2.2.1)) =
      [("hsms", "newRawFrameDataMessage"), ("secs1", "transport.splitFrame"), ("secs1", "assembleBlocks")] := by
  decide

theorem consts_gen : Gen.secs2_MaxByteSize = (maxByteSize : Int) := by decide

/-! ## Non-vacuity -/
example : newInt 1 [.int 300, .ints [-200, 5], .str (.range 9223372036854775807)] = some (.int .w1 [127, -128, 5, 127]) := by
  rfl
example : Built.Constructed (newList [.leaf (some (.ascii [])), newList [.leaf none]]) ∧
    (newList [.leaf (some (.ascii [])), newList [.leaf none]]).errored = true := by
  refine ⟨.list _ ?_, by decide⟩
  intro k hk
  simp at hk
  rcases hk with rfl | rfl
  · exact .leaf _
  · exact .list _ (by intro k hk; simp at hk; subst hk; exact .leaf _)

end GoSecs.Props.C16
