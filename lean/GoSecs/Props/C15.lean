/-
  C15 — the configurable SML encoder with defaults is byte-identical to Item.ToSML.

  Property theorems only; helper lemmas live in GoSecs/Lemmas/Sml.lean.
  `toSML` models the per-type `ToSML` methods and `ListItem.formatSML(level)`; `encodeDefault` models
  `sml.Encode` (= `NewEncoder().Encode`): the `Encoder.encodeItem` tree walk with the default options.
  Both models are parametric in the external number renderers (`Oracle`: strconv float formatting,
  strconv.Quote on non-ASCII text), so the equality holds whatever those produce.
-/
import GoSecs.Lemmas.Sml

namespace GoSecs.Props.C15
open GoSecs GoSecs.Secs2 GoSecs.Sml

/-! ## The two renderers agree -/

/-- **Byte-for-byte equality.** For every item tree (the model's items are exactly the error-free
    ones: any type, empty / one / many elements, any nesting, empty-item children), whatever the
    float and `Quote` renderers are, `sml.Encode(item)` equals `item.ToSML()`. -/
theorem encode_eq_toSML (O : Oracle) (it : Item) : encodeDefault O it = toSML O it :=
  encodeItem_eq_toSMLAt O 0 it

/-- The same at every indentation level: the encoder's walk at `level` equals `formatSML(level)`
    (this is the induction invariant, and what a nested list relies on). -/
theorem encode_eq_formatSML (O : Oracle) (level : Nat) (it : Item) :
    encodeItem O defaultOpts level it = toSMLAt O level it :=
  encodeItem_eq_toSMLAt O level it

/-- Indentation lemma: the encoder's child prefix `Repeat(indent, level+1)` is `formatSML`'s
    `indentStr + "  "`. -/
theorem child_indent (level : Nat) :
    repeatB defaultOpts.indent (level + 1) = ind2 level ++ [cSP, cSP] := by
  simp [defaultOpts, ind2, repeatB_succ_right]

/-- `AppendEncode` is `append(dst, Encode(it)...)`, so it appends exactly `ToSML`. -/
theorem appendEncode_eq (O : Oracle) (dst : Bytes) (it : Item) :
    dst ++ encodeDefault O it = dst ++ toSML O it := by rw [encode_eq_toSML]

/-! ## Elements parse back

  Each element token either renderer writes is read back to the same value by the parser's token
  readers (`strconv.ParseInt/ParseUint(tok, 0, bits)`, the boolean keywords, `ParseInt(tok,0,0)` for
  binary).  Decimal integers are modelled and proved; floats go through `strconv` on both sides
  and are a stated hypothesis (`FloatRoundTrip`), validated on the implementation by the harness. -/

/-- Decimal rendering then the modelled literal reader is the identity (`parseDec (showDec n) = n`). -/
theorem dec_render_parse_back (n : Nat) : natLit (showDec n) = some n := natLit_showDec n

/-- Unsigned integer elements (U1/U2/U4/U8) within their width parse back. -/
theorem uint_render_parse_back (O : Oracle) (w : Width) (v : Nat) (hv : v < 256 ^ w.bytes) :
    parseUintW O w.bytes (showDec v) = some v :=
  parseUintW_showDec O w.bytes v (by cases w <;> simp [Width.bytes]) hv

/-- Signed integer elements (I1/I2/I4/I8) within their width parse back, including the minimum. -/
theorem int_render_parse_back (O : Oracle) (w : Width) (v : Int)
    (hlo : intLo w.bytes ≤ v) (hhi : v ≤ intHi w.bytes) :
    parseIntW O w.bytes (showInt v) = some v :=
  parseIntW_showInt O w.bytes v (by cases w <;> simp [Width.bytes]) (by cases w <;> simp [Width.bytes]) hlo hhi

/-- Boolean elements (`True` / `False`) parse back. -/
theorem bool_render_parse_back (b : Bool) : parseBoolTok (boolTok b) = some b := parseBoolTok_boolTok b

/-- Binary elements (`0xHH`, and `0b…` in the encoder's BinaryLiteral style) parse back. -/
theorem binary_render_parse_back (O : Oracle) (b : UInt8) :
    parseBinTok O (hexTok b) = some b ∧ parseBinTok O (binTok b) = some b :=
  ⟨parseBinTok_hexTok O b, parseBinTok_binTok O b⟩

/-- The hypothesis under which float elements parse back: `ParseFloat(FormatFloat(v,'G',9|17,bits),
    bits)` returns a value with equal bits, or a NaN for a NaN (DESIGN §4.4; swept on the Go side). -/
def FloatRoundTrip (O : Oracle) : Prop :=
  ∀ w b, ∃ b', O.parseF w (O.fmtF w b) = some b' ∧ floatBitsEq w b b' = true

/-- Float elements parse back, given the stated law of `strconv`. -/
theorem float_render_parse_back (O : Oracle) (h : FloatRoundTrip O) (w : FWidth) (b : Nat) :
    ∃ b', O.parseF w (O.fmtF w b) = some b' ∧ floatBitsEq w b b' = true := h w b

/-! ## Non-vacuity -/

/-- An oracle satisfying `FloatRoundTrip` exists (render the bits in decimal, read them back). -/
example : ∃ O : Oracle, FloatRoundTrip O := by
  refine ⟨⟨fun _ b => showDec b, fun _ t => some (decVal 0 t), fun _ => none, fun _ => none, fun s => s, fun _ => none⟩, ?_⟩
  intro w b
  refine ⟨b, by simp [decVal_showDec], ?_⟩
  cases w <;> simp [floatBitsEq]

/-- A concrete nested tree on which both renderers are evaluated and agree (kernel evaluation). -/
example : ∀ O : Oracle,
    encodeDefault O (.list [.ascii [65], .list [], .list [.int .w1 [-1], .empty], .boolean [true]]) =
    toSML O (.list [.ascii [65], .list [], .list [.int .w1 [-1], .empty], .boolean [true]]) :=
  fun O => encode_eq_toSML O _

end GoSecs.Props.C15
