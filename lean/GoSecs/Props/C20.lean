/-
  C20 — connection metrics conserve: gauges return to zero and counters match the wire.

  Property theorems only; model GoSecs/Model/Router.lean, invariants GoSecs/Lemmas/Router*.lean.
  The counters of `hsms.ConnectionMetrics` are the fields of `Cfg.m`; `Cfg.wire` is the list of frames the
  transport accepted (what the peer receives on a synchronous pipe), `Cfg.deliv` the log of frames the receive
  goroutine dispatched, `Cfg.started` the senders that have begun, `dSent/dErr/dDrop/dAsyncErr` the (ghost)
  contribution of each call to the counters.  The reconnect loop itself (connection_lifecycle.go connectLoop) is
  modelled elsewhere; here only its two gauge operations (`loopStart` = entry, `loopEnd` = the deferred exit).
-/
import GoSecs.Lemmas.RouterLedger
import GoSecs.Gen.Facts

namespace GoSecs.Props.C20
open GoSecs GoSecs.Router

/-! ## Tie to the source (regenerated on every run): the chokepoints -/

def sitesOf (callee : String) : List (String × String × String) :=
  (Gen.callSites.filter (fun s => s.2.2.2 == callee)).map (fun s => (s.1, s.2.1, s.2.2.1))

/-- `incDataMsgSend` is called in `writeFrame` and nowhere else; `incDataMsgRecv` in `DeliverOwnedFrame` and
    nowhere else. -/
theorem send_recv_chokepoints_gen :
    sitesOf "metrics.incDataMsgSend" = [("hsms", "connection_send.go", "connection.writeFrame")] ∧
    sitesOf "metrics.incDataMsgRecv" = [("hsms", "connection_runtime.go", "connection.DeliverOwnedFrame")] := by
  decide

/-- the in-flight gauge is incremented once and decremented once, both in `sendWaitReply`. -/
theorem inflight_chokepoint_gen :
    sitesOf "metrics.incDataMsgInflight" = [("hsms", "connection_send.go", "connection.sendWaitReply")] ∧
    sitesOf "metrics.decDataMsgInflight" = [("hsms", "connection_send.go", "connection.sendWaitReply")] := by
  decide

/-- the reconnecting gauge is incremented once and decremented once, both in `connectLoop`. -/
theorem retry_chokepoint_gen :
    sitesOf "metrics.incConnRetry" = [("hsms", "connection_lifecycle.go", "connection.connectLoop")] ∧
    sitesOf "metrics.decConnRetry" = [("hsms", "connection_lifecycle.go", "connection.connectLoop")] := by
  decide

/-- the frame writer `tr.Write` is called by `writeFrame` (and by the farewell Separate, a control frame). -/
theorem write_sites_gen :
    sitesOf "tr.Write" = [("hsms", "connection_lifecycle.go", "connection.writeFarewellSeparate"),
                          ("hsms", "connection_send.go", "connection.writeFrame")] := by
  decide

/-! ## The property -/

/-- **In-flight gauge = number of W-bit data senders whose write has returned and whose deferred decrement has
    not yet run** (pc `waiting` or `decided`). -/
theorem inflight_eq_waiting_waiters (c : Cfg) (hr : Reachable c) :
    c.m.inflight = ((c.started.filter (fun i => (c.s i).inflight)).length : Int) := by
  have := (cinv_reachable hr).ledger.inflight
  rw [this, sumOver, sum_b2n]

/-- the gauge is never negative -/
theorem inflight_nonneg (c : Cfg) (hr : Reachable c) : 0 ≤ c.m.inflight := by
  rw [inflight_eq_waiting_waiters c hr]; omega

/-- and it is zero at every quiescent point (every call that began has returned) -/
theorem inflight_zero_at_quiescence (c : Cfg) (hr : Reachable c) (hq : ∀ i, i ∈ c.started → (c.s i).pc = .done) :
    c.m.inflight = 0 := by
  rw [inflight_eq_waiting_waiters c hr]
  have : c.started.filter (fun i => (c.s i).inflight) = [] := by
    rw [List.filter_eq_nil_iff]
    intro i hi
    simp [Sender.inflight, hq i hi]
  simp [this]

/-- **Data-sent counter = data frames on the wire** (frames the transport accepted = frames the peer received). -/
theorem sent_eq_wire_frames (c : Cfg) (hr : Reachable c) : c.m.sent = (c.wire.filter (·.data)).length :=
  (cinv_reachable hr).sent

/-- **Data-received counter = well-formed data frames dispatched while Selected.** -/
theorem recv_eq_selected_wellformed_frames (c : Cfg) (hr : Reachable c) :
    c.m.recv = (c.deliv.filter Deliv.counted).length :=
  (cinv_reachable hr).recv

/-- step form: receiving one frame bumps the counter exactly when it is a data frame and the link is Selected
    (a malformed frame, a control frame, or data while not Selected never counts); nothing else bumps it -/
theorem recv_counts_exactly (c : Cfg) (a : Action) :
    (apply c a).m.recv = match a with
      | .recv _ f => c.m.recv + b2n (f.isData && c.selected)
      | _ => c.m.recv := by
  rw [apply_recv]
  cases a <;> rfl

/-- **Session screening comes after the receive chokepoint** (WithSessionIDValidation): a well-formed data frame of a
    foreign session received while Selected is counted exactly like any other data frame, and only then answered with
    S9F1 and dropped — it is never routed to a sender or to the handlers. -/
theorem foreign_session_frame_counted_then_dropped (c : Cfg) (e fid : Nat) (hsel : c.selected = true) :
    (apply c (.recv e (.foreign fid))).m.recv = c.m.recv + 1 ∧
    dispatch c (.foreign fid) = (.foreignSession, none) ∧
    (apply c (.recv e (.foreign fid))).s = c.s := by
  refine ⟨?_, ?_, ?_⟩
  · rw [apply_recv]; simp [counted, Frame.isData, hsel, b2n]
  · simp [dispatch, Frame.isData, hsel, Frame.offer, missRecipient]
  · rw [apply_s]; simp [touched, dispatch, Frame.isData, hsel, Frame.offer, missRecipient]

/-- The documented counter effect of a synchronous data send, by outcome. -/
structure Deltas (w : Sender) (o : Outcome) : Prop where
  /-- DataMsgErrCount: +1 exactly for a T3 expiry (W-bit data) or a transport write error -/
  err : w.dErr = b2n ((o = .timeout && w.kind = .sync) || (o = .writeErr && w.kind.isData))
  /-- DataMsgDropNotSelectedCount: +1 exactly for a refused send -/
  drop : w.dDrop = b2n (o = .notSelected)
  /-- DataMsgSendCount: +1 when the frame reached the wire (see `SentBy`) -/
  sent : SentBy w o
  /-- AsyncSendErrCount: untouched -/
  asyncErr : w.dAsyncErr = 0

/-- **Each outcome changes exactly its documented counters** (per call). -/
theorem outcome_counter_deltas (c : Cfg) (hr : Reachable c) (i : Nat) (o : Outcome)
    (hk : (c.s i).kind ≠ .async) (h : (c.s i).out = some o) : Deltas (c.s i) o := by
  have hc := cinv_reachable hr
  refine ⟨?_, ?_, hc.cntSent i hk o h, (hc.cntOut i).noAsync hk⟩
  · have := (hc.cntOut i).err hk
    simpa [h] using this
  · have := (hc.cntOut i).drop hk
    simpa [h] using this

/-- in particular **a peer reject changes no error counter**: the frame was sent (and counted as sent), nothing else -/
theorem reject_changes_no_error_counter (c : Cfg) (hr : Reachable c) (i r : Nat)
    (hk : (c.s i).kind = .sync) (h : (c.s i).out = some (.reject r)) :
    (c.s i).dErr = 0 ∧ (c.s i).dDrop = 0 ∧ (c.s i).dAsyncErr = 0 ∧ (c.s i).dSent = 1 := by
  have d := outcome_counter_deltas c hr i (.reject r) (by simp [hk]) h
  refine ⟨by simpa [b2n] using d.err, by simpa [b2n] using d.drop, d.asyncErr, ?_⟩
  have := d.sent
  simpa [SentBy, hk, Kind.isData, b2n] using this

/-- ... and **the counters are exactly the sums of the per-call contributions**: nothing else moves them. -/
theorem counters_are_sums (c : Cfg) (hr : Reachable c) :
    c.m.sent = sumOver c (·.dSent) ∧ c.m.err = sumOver c (·.dErr) ∧ c.m.drop = sumOver c (·.dDrop) ∧
    c.m.asyncErr = sumOver c (·.dAsyncErr) := by
  have l := (cinv_reachable hr).ledger
  exact ⟨by exact_mod_cast l.sent, by exact_mod_cast l.err, by exact_mod_cast l.drop, by exact_mod_cast l.asyncErr⟩

/-- **Reconnecting gauge = number of live reconnect loops**: never negative, positive while a loop runs, zero when
    none runs (in particular at a quiescent Selected or closed point, where connectLoop has returned). -/
theorem retry_gauge_eq_live_loops (c : Cfg) (hr : Reachable c) :
    c.m.retry = (c.loops : Int) ∧ 0 ≤ c.m.retry ∧ (0 < c.loops → 0 < c.m.retry) ∧ (c.loops = 0 → c.m.retry = 0) := by
  have := (cinv_reachable hr).retry
  unfold RetryOk at this
  refine ⟨this, ?_, ?_, ?_⟩ <;> omega

/-! ## Non-vacuity: a reachable history with a reply, a T3 expiry, a refusal and a live reconnect loop -/
def sampleTrace : List Action :=
  [.publish, .connUp, .setSelected true, .begin 0 .sync, .begin 1 .sync, .begin 2 .sync, .pin 0, .pin 1, .gate 0, .gate 1,
   .register 0, .register 1, .wcheck 0, .write 0 true, .wcheck 1, .write 1 true, .incInflight 0, .incInflight 1,
   .recv 0 (.data 0 1 2 false), .decide 0 .recv, .decide 1 .timer, .decInflight 0, .deregister 0,
   .setSelected false, .pin 2, .gate 2, .loopStart]

set_option maxRecDepth 8000 in
example : Reachable (run init sampleTrace) ∧ (run init sampleTrace).m.inflight = 1 ∧ (run init sampleTrace).m.sent = 2 ∧
    (run init sampleTrace).m.recv = 1 ∧ (run init sampleTrace).m.err = 1 ∧ (run init sampleTrace).m.drop = 1 ∧
    (run init sampleTrace).m.retry = 1 := by
  refine ⟨⟨_, rfl⟩, by decide, by decide, by decide, by decide, by decide, by decide⟩

end GoSecs.Props.C20
