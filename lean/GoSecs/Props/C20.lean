/-
  C20 — connection metrics conserve: gauges return to zero and counters match the wire.

  Property theorems only; model GoSecs/Model/Router.lean, invariants GoSecs/Lemmas/Router*.lean.
  The counters of `hsms.ConnectionMetrics` are the fields of `Cfg.m`; `Cfg.wire` is the list of frames the
  transport accepted (what the peer receives on a synchronous pipe), `Cfg.deliv` the log of frames the receive
  goroutine dispatched, `Cfg.started` the senders that have begun, `dSent/dErr/dDrop/dAsyncErr` the (ghost)
  contribution of each call to the counters.  The reconnect loop itself (connection_lifecycle.go connectLoop) is
  modelled elsewhere; here only its two gauge operations (`loopStart` = entry, `loopEnd` = the deferred exit).
-/
import GoSecs.Lemmas.RouterLedger
import GoSecs.Gen.Facts
import GoSecs.Lemmas.Secs1TransportCount

namespace GoSecs.Props.C20
open GoSecs GoSecs.Router

/-! ## Tie to the source (regenerated on every run): the chokepoints -/

def sitesOf (callee : String) : List (String × String × String) :=
  (Gen.callSites.filter (fun s => s.2.2.2 == callee)).map (fun s => (s.1, s.2.1, s.2.2.1))

/-- `incDataMsgSend` is called in `writeFrame` and nowhere else; `incDataMsgRecv` in `DeliverOwnedFrame` and
    nowhere else. -/
theorem send_recv_chokepoints_gen :
    sitesOf "metrics.incDataMsgSend" = [("hsms", "connection_send.go", "connection.writeFrame")] ∧
    sitesOf "metrics.incDataMsgRecv" = [("hsms", "connection_runtime.go", "connection.DeliverOwnedFrame")] := by
  decide

/-- the in-flight gauge is incremented once and decremented once, both in `sendWaitReply`. -/
theorem inflight_chokepoint_gen :
    sitesOf "metrics.incDataMsgInflight" = [("hsms", "connection_send.go", "connection.sendWaitReply")] ∧
    sitesOf "metrics.decDataMsgInflight" = [("hsms", "connection_send.go", "connection.sendWaitReply")] := by
  decide

/-- **Which failed sends count** (regenerated from hsms `isCountedSendErr`): a failed data send counts as a data-message
    error unless it is one of exactly four lifecycle / caller outcomes — not-selected (own drop counter), connection
    closed, caller cancelled, caller deadline — and the predicate consults nothing else (no `Timeout()` probing that would
    also swallow a write-deadline failure; after seeded C20g-1). -/
theorem counted_send_errors_gen :
    Gen.hsms_countedSendErrExclusions =
      (["ErrNotSelectedState", "ErrConnClosed", "context.Canceled", "context.DeadlineExceeded"], 0) := by
  decide

/-- the reconnecting gauge is incremented once and decremented once, both in `connectLoop`. -/
theorem retry_chokepoint_gen :
    sitesOf "metrics.incConnRetry" = [("hsms", "connection_lifecycle.go", "connection.connectLoop")] ∧
    sitesOf "metrics.decConnRetry" = [("hsms", "connection_lifecycle.go", "connection.connectLoop")] := by
  decide

/-- the frame writer `tr.Write` is called by `writeFrame` (and by the farewell Separate, a control frame). -/
theorem write_sites_gen :
    sitesOf "tr.Write" = [("hsms", "connection_lifecycle.go", "connection.writeFarewellSeparate"),
                          ("hsms", "connection_send.go", "connection.writeFrame")] := by
  decide

/-! ## The property -/

/-- **In-flight gauge = number of W-bit data senders whose write has returned and whose deferred decrement has
    not yet run** (pc `waiting` or `decided`). -/
theorem inflight_eq_waiting_waiters (c : Cfg) (hr : Reachable c) :
    c.m.inflight = ((c.started.filter (fun i => (c.s i).inflight)).length : Int) := by
  have := (cinv_reachable hr).ledger.inflight
  rw [this, sumOver, sum_b2n]

/-- the gauge is never negative -/
theorem inflight_nonneg (c : Cfg) (hr : Reachable c) : 0 ≤ c.m.inflight := by
  rw [inflight_eq_waiting_waiters c hr]; omega

/-- and it is zero at every quiescent point (every call that began has returned) -/
theorem inflight_zero_at_quiescence (c : Cfg) (hr : Reachable c) (hq : ∀ i, i ∈ c.started → (c.s i).pc = .done) :
    c.m.inflight = 0 := by
  rw [inflight_eq_waiting_waiters c hr]
  have : c.started.filter (fun i => (c.s i).inflight) = [] := by
    rw [List.filter_eq_nil_iff]
    intro i hi
    simp [Sender.inflight, hq i hi]
  simp [this]

/-- **Data-sent counter = data frames on the wire** (frames the transport accepted = frames the peer received). -/
theorem sent_eq_wire_frames (c : Cfg) (hr : Reachable c) : c.m.sent = (c.wire.filter (·.data)).length :=
  (cinv_reachable hr).sent

/-- **Data-received counter = well-formed data frames dispatched while Selected.** -/
theorem recv_eq_selected_wellformed_frames (c : Cfg) (hr : Reachable c) :
    c.m.recv = (c.deliv.filter Deliv.counted).length :=
  (cinv_reachable hr).recv

/-- step form: receiving one frame bumps the counter exactly when it is a data frame and the link is Selected
    (a malformed frame, a control frame, or data while not Selected never counts); nothing else bumps it -/
theorem recv_counts_exactly (c : Cfg) (a : Action) :
    (apply c a).m.recv = match a with
      | .recv _ f => c.m.recv + b2n (f.isData && c.selected)
      | _ => c.m.recv := by
  rw [apply_recv]
  cases a <;> rfl

/-- **Session screening comes after the receive chokepoint** (WithSessionIDValidation): a well-formed data frame of a
    foreign session received while Selected is counted exactly like any other data frame, and only then answered with
    S9F1 and dropped — it is never routed to a sender or to the handlers. -/
theorem foreign_session_frame_counted_then_dropped (c : Cfg) (e fid : Nat) (hsel : c.selected = true) :
    (apply c (.recv e (.foreign fid))).m.recv = c.m.recv + 1 ∧
    dispatch c (.foreign fid) = (.foreignSession, none) ∧
    (apply c (.recv e (.foreign fid))).s = c.s := by
  refine ⟨?_, ?_, ?_⟩
  · rw [apply_recv]; simp [counted, Frame.isData, hsel, b2n]
  · simp [dispatch, Frame.isData, hsel, Frame.offer, missRecipient]
  · rw [apply_s]; simp [touched, dispatch, Frame.isData, hsel, Frame.offer, missRecipient]

/-- The documented counter effect of a synchronous data send, by outcome. -/
structure Deltas (w : Sender) (o : Outcome) : Prop where
  /-- DataMsgErrCount: +1 exactly for a T3 expiry (W-bit data) or a transport write error -/
  err : w.dErr = b2n ((o = .timeout && w.kind = .sync) || (o = .writeErr && w.kind.isData))
  /-- DataMsgDropNotSelectedCount: +1 exactly for a refused send -/
  drop : w.dDrop = b2n (o = .notSelected)
  /-- DataMsgSendCount: +1 when the frame reached the wire (see `SentBy`) -/
  sent : SentBy w o
  /-- AsyncSendErrCount: untouched -/
  asyncErr : w.dAsyncErr = 0

/-- **Each outcome changes exactly its documented counters** (per call). -/
theorem outcome_counter_deltas (c : Cfg) (hr : Reachable c) (i : Nat) (o : Outcome)
    (hk : (c.s i).kind ≠ .async) (h : (c.s i).out = some o) : Deltas (c.s i) o := by
  have hc := cinv_reachable hr
  refine ⟨?_, ?_, hc.cntSent i hk o h, (hc.cntOut i).noAsync hk⟩
  · have := (hc.cntOut i).err hk
    simpa [h] using this
  · have := (hc.cntOut i).drop hk
    simpa [h] using this

/-- in particular **a peer reject changes no error counter**: the frame was sent (and counted as sent), nothing else -/
theorem reject_changes_no_error_counter (c : Cfg) (hr : Reachable c) (i r : Nat)
    (hk : (c.s i).kind = .sync) (h : (c.s i).out = some (.reject r)) :
    (c.s i).dErr = 0 ∧ (c.s i).dDrop = 0 ∧ (c.s i).dAsyncErr = 0 ∧ (c.s i).dSent = 1 := by
  have d := outcome_counter_deltas c hr i (.reject r) (by simp [hk]) h
  refine ⟨by simpa [b2n] using d.err, by simpa [b2n] using d.drop, d.asyncErr, ?_⟩
  have := d.sent
  simpa [SentBy, hk, Kind.isData, b2n] using this

/-- ... and **the counters are exactly the sums of the per-call contributions**: nothing else moves them. -/
theorem counters_are_sums (c : Cfg) (hr : Reachable c) :
    c.m.sent = sumOver c (·.dSent) ∧ c.m.err = sumOver c (·.dErr) ∧ c.m.drop = sumOver c (·.dDrop) ∧
    c.m.asyncErr = sumOver c (·.dAsyncErr) := by
  have l := (cinv_reachable hr).ledger
  exact ⟨by exact_mod_cast l.sent, by exact_mod_cast l.err, by exact_mod_cast l.drop, by exact_mod_cast l.asyncErr⟩

/-- **Reconnecting gauge = number of live reconnect loops**: never negative, positive while a loop runs, zero when
    none runs (in particular at a quiescent Selected or closed point, where connectLoop has returned). -/
theorem retry_gauge_eq_live_loops (c : Cfg) (hr : Reachable c) :
    c.m.retry = (c.loops : Int) ∧ 0 ≤ c.m.retry ∧ (0 < c.loops → 0 < c.m.retry) ∧ (c.loops = 0 → c.m.retry = 0) := by
  have := (cinv_reachable hr).retry
  unfold RetryOk at this
  refine ⟨this, ?_, ?_, ?_⟩ <;> omega

/-! ## Non-vacuity: a reachable history with a reply, a T3 expiry, a refusal and a live reconnect loop -/
def sampleTrace : List Action :=
  [.publish, .connUp, .setSelected true, .begin 0 .sync, .begin 1 .sync, .begin 2 .sync, .pin 0, .pin 1, .gate 0, .gate 1,
   .register 0, .register 1, .wcheck 0, .write 0 true, .wcheck 1, .write 1 true, .incInflight 0, .incInflight 1,
   .recv 0 (.data 0 1 2 false), .decide 0 .recv, .decide 1 .timer, .decInflight 0, .deregister 0,
   .setSelected false, .pin 2, .gate 2, .loopStart]

set_option maxRecDepth 8000 in
example : Reachable (run init sampleTrace) ∧ (run init sampleTrace).m.inflight = 1 ∧ (run init sampleTrace).m.sent = 2 ∧
    (run init sampleTrace).m.recv = 1 ∧ (run init sampleTrace).m.err = 1 ∧ (run init sampleTrace).m.drop = 1 ∧
    (run init sampleTrace).m.retry = 1 := by
  refine ⟨⟨_, rfl⟩, by decide, by decide, by decide, by decide, by decide, by decide⟩

end GoSecs.Props.C20

/-! # SECS-I transport

  The same conservation clauses on SECS-I connections, over GoSecs/Model/Secs1Transport.lean (see Props/C09.lean, section
  "SECS-I transport"); invariants GoSecs/Lemmas/Secs1TransportCount.lean.  `Cfg.m` additionally carries the secs1 block counters
  (BlockSendCount / BlockRecvCount / BlockRetryCount / BlockSendFailedCount).  The exactly-once reassembly of messages under line
  faults (a retransmitted / duplicated block is dropped by the assembler) is C17 / C18; here a received block enters with the effect
  `Asm` its `accept` call had, and only an effect that completes a message reaches the receive chokepoint. -/
namespace GoSecs.Props.C20.Secs1
open GoSecs GoSecs.S1T
open GoSecs.Router (upd upd_same upd_other b2n)

/-- `writeFrame` got nil from `transport.Write` and has returned: the call is counted as sent -/
def wroteOk (w : Sender) : Bool := decide (w.wres = some .ok) && decide (10 ≤ w.pc.rank)

/-- **In-flight gauge = number of W-bit senders between "Write returned nil" and "deferred decrement ran"**. -/
theorem inflight_eq_waiting_senders (c : Cfg) (hr : Reachable c) :
    c.m.inflight = ((c.started.filter (fun i => (c.s i).inflight)).length : Int) := by
  have := (cinv_reachable hr).ledger.inflight
  rw [this, sumOver, sum_b2n]

theorem inflight_nonneg (c : Cfg) (hr : Reachable c) : 0 ≤ c.m.inflight := by
  rw [inflight_eq_waiting_senders c hr]; omega

/-- zero at every quiescent point — also after any number of generations ended under pending sends -/
theorem inflight_zero_at_quiescence (c : Cfg) (hr : Reachable c) (hq : ∀ i, i ∈ c.started → (c.s i).pc = .done ∨ (c.s i).pc = .queued) :
    c.m.inflight = 0 := by
  rw [inflight_eq_waiting_senders c hr]
  have : c.started.filter (fun i => (c.s i).inflight) = [] := by
    rw [List.filter_eq_nil_iff]
    intro i hi
    rcases hq i hi with h | h <;> simp [Sender.inflight, h]
  simp [this]

/-- the step on the `genDone` path: a W-bit sender released by the teardown broadcast never incremented the gauge, one released
    from the reply wait decrements it exactly once -/
theorem inflight_untouched_on_genDone_path (c : Cfg) (i : Nat) :
    (apply c (.bail i)).m.inflight = c.m.inflight ∧ (apply c (.unlock i)).m.inflight = c.m.inflight ∧
    (apply c (.decide i .closed)).m.inflight = c.m.inflight ∧ (apply c (.decInflight i)).m.inflight = c.m.inflight - 1 := by
  simp [apply, setS, setG]

/-- **DataMsgSendCount = number of send calls whose `transport.Write` returned nil** (one per message, however many blocks and
    transmission attempts it took). -/
theorem sent_eq_writes_returned_ok (c : Cfg) (hr : Reachable c) : c.m.sent = (c.started.filter (fun i => wroteOk (c.s i))).length := by
  have h := cinv_reachable hr
  have hs : (c.m.sent : Int) = (sumOver c (·.dSent) : Int) := h.ledger.sent
  have : sumOver c (·.dSent) = sumOver c (fun w => b2n (wroteOk w)) := by
    unfold sumOver
    congr 1
    apply List.map_congr_left
    intro j _
    exact (h.scnt j).2.2.1
  rw [this, sumOver, sum_b2n] at hs
  exact_mod_cast hs

/-- **Every counted message was completely transmitted, each block ACKed exactly once, on the socket of the generation the call
    pinned**: the engine reported success, the number of ACKed transmissions of this request on the wire log is exactly its number
    of blocks, and all of its transmissions went out on that one socket. -/
theorem counted_send_fully_acked_once (c : Cfg) (hr : Reachable c) (i : Nat) (h : wroteOk (c.s i) = true) :
    (c.s i).done = some .ok ∧ ackedCount i c.wire = (c.s i).nblk ∧ ∀ ev, ev ∈ c.wire → ev.src = i → ev.sock = (c.s i).ep := by
  have hc := cinv_reachable hr
  simp only [wroteOk, Bool.and_eq_true, decide_eq_true_eq] at h
  have hd : (c.s i).done = some .ok := (hc.scnt i).2.2.2.2.1 .ok h.1 (by simp) (by simp)
  refine ⟨hd, by rw [hc.log.ackedWire i, (hc.ack i).2 hd], fun ev hev hs => ?_⟩
  have := (hc.wire ev hev).1
  rw [hs] at this
  exact ((hc.sloc i).2.1 ev.sock this).symm

/-- **Nothing is counted twice when a block is retransmitted**: a call contributes at most 1 to DataMsgSendCount whatever the number
    of its transmission attempts on the wire; retransmissions are what BlockRetryCount counts, ACKed transmissions what
    BlockSendCount counts (= the sum of the per-request ACK counts), and together they are all the attempts on the wire. -/
theorem retransmission_not_counted_twice (c : Cfg) (hr : Reachable c) :
    (∀ i, (c.s i).dSent ≤ 1) ∧ c.m.blockSend = sumOver c (·.acked) ∧ c.m.blockSend = (c.wire.filter (·.acked)).length ∧
    c.m.blockRetry = (c.wire.filter (fun ev => !ev.acked)).length ∧ c.m.blockSend + c.m.blockRetry = c.wire.length := by
  have hc := cinv_reachable hr
  refine ⟨fun i => ?_, by exact_mod_cast hc.ledger.blockSend, hc.log.blockSend, hc.log.blockRetry, ?_⟩
  · rw [(hc.scnt i).2.2.1]; unfold b2n; split <;> omega
  · rw [hc.log.blockSend, hc.log.blockRetry]
    induction c.wire with
    | nil => rfl
    | cons ev l ih => cases hev : ev.acked <;> simp [hev] <;> omega

/-- **DataMsgRecvCount = complete messages delivered to the core**; BlockRecvCount = blocks received and ACKed. -/
theorem recv_eq_delivered_messages (c : Cfg) (hr : Reachable c) : c.m.recv = c.deliv.length ∧ c.m.blockRecv = c.rxlog.length :=
  ⟨(cinv_reachable hr).log.recv, (cinv_reachable hr).log.blockRecv⟩

/-- step form: a received block bumps DataMsgRecvCount exactly when it completes a message — **per message, not per block**: a
    duplicate / misdirected / out-of-sequence block (dropped), one that only discards a partial, a first or middle block of a
    multi-block message never count; every ACKed block bumps BlockRecvCount. -/
theorem recv_counts_messages_not_blocks (c : Cfg) (g : Nat) (x : Asm) :
    (apply c (.rx g x)).m.recv = c.m.recv + b2n (asmStep (c.g g).part g x).2.isSome ∧
    (apply c (.rx g x)).m.blockRecv = c.m.blockRecv + 1 ∧
    (x = .drop ∨ x = .discard ∨ x = .first false ∨ x = .cont false → (apply c (.rx g x)).m.recv = c.m.recv) := by
  refine ⟨rfl, rfl, ?_⟩
  rintro (rfl | rfl | rfl | rfl) <;> simp only [apply, setG, asmStep] <;> (try (cases (c.g g).part <;> simp [b2n])) <;> simp [b2n]

/-- The documented counter effect of a synchronous send (W-bit or not), by outcome. -/
structure Deltas (w : Sender) (o : Outcome) : Prop where
  /-- DataMsgErrCount: +1 exactly for a T3 expiry, an exhausted retry limit (ErrSendFailed) or a write error on the socket -/
  err : w.dErr = b2n (o = .timeout || o = .sendFailed || o = .ioErr)
  /-- DataMsgDropNotSelectedCount: +1 exactly for a refused send -/
  drop : w.dDrop = b2n (o = .notSelected)
  /-- AsyncSendErrCount: untouched -/
  asyncErr : w.dAsyncErr = 0
  /-- DataMsgSendCount: +1 exactly when Write returned nil -/
  sent : w.dSent = b2n (wroteOk w)
  /-- ... which is the case for a reply, a T3 expiry, a non-W send that returned nil, -/
  sentYes : o = .reply ∨ o = .timeout ∨ o = .sent → wroteOk w = true
  /-- ... and not for a refusal, a failed or aborted line transaction -/
  sentNo : o = .notOpen ∨ o = .notSelected ∨ o = .sendFailed ∨ o = .aborted ∨ o = .ioErr → wroteOk w = false

/-- **Each outcome changes exactly its documented counters** (per call; in particular a send aborted by the generation's teardown —
    connection-closed from either select of Write, or the engine's context error — changes none). -/
theorem outcome_counter_deltas (c : Cfg) (hr : Reachable c) (i : Nat) (o : Outcome) (hk : (c.s i).kind ≠ .async)
    (hp : (c.s i).pc = .done) (h : (c.s i).out = some o) : Deltas (c.s i) o := by
  have hc := cinv_reachable hr
  have h1 := hc.scnt i
  have h2 := hc.sout i
  generalize c.s i = w at *
  clear hc hr
  rec_cases w
  subst hp
  subst h
  simp only [SCnt, SOut, Sender.wcounted] at h1 h2
  cases kind <;> (try exact absurd rfl hk) <;> cases wres <;> (try (rename_i r; cases r)) <;>
    simp_all [Pc.rank, b2n, WRes.counted, WRes.outcome] <;>
    (constructor <;> simp_all [wroteOk, Pc.rank, b2n] <;> grind)

/-- ... and the counters are exactly the sums of the per-call contributions: nothing else moves them -/
theorem counters_are_sums (c : Cfg) (hr : Reachable c) :
    c.m.sent = sumOver c (·.dSent) ∧ c.m.err = sumOver c (·.dErr) ∧ c.m.drop = sumOver c (·.dDrop) ∧
    c.m.asyncErr = sumOver c (·.dAsyncErr) := by
  have l := (cinv_reachable hr).ledger
  exact ⟨by exact_mod_cast l.sent, by exact_mod_cast l.err, by exact_mod_cast l.drop, by exact_mod_cast l.asyncErr⟩

/-- a queued fire-and-forget message: written by the drain goroutine it counts as sent when Write returned nil, else as ONE async send
    error (whatever the reason: refused, connection-closed, failed line transaction) and never as a data-message error -/
theorem async_send_counters (c : Cfg) (hr : Reachable c) (i : Nat) (hk : (c.s i).kind = .async) (hp : (c.s i).pc = .done) :
    (c.s i).dErr = 0 ∧ (c.s i).dSent = b2n (wroteOk (c.s i)) ∧
    (c.s i).dAsyncErr = b2n ((c.s i).wres.isSome && decide ((c.s i).wres ≠ some .ok)) := by
  have hc := cinv_reachable hr
  have h1 := hc.scnt i
  generalize c.s i = w at *
  clear hc hr
  rec_cases w
  subst hp; subst hk
  simp only [SCnt, Sender.wcounted] at h1
  simp only [wroteOk]
  cases wres <;> (try (rename_i r; cases r)) <;> simp_all [Pc.rank, b2n, WRes.counted] <;> grind

/-- the engine reported success for this request (every block ACKed) while its sender was still waiting for the report -/
def finishedOk (w : Sender) : Bool := decide (w.done = some .ok) && !w.late

/-- **A message whose every block was ACKed is counted** (full strength since the repair c77bf45 of Write's result select): for a
    call that has returned, the engine reported success while the sender was waiting ⟺ Write returned nil and DataMsgSendCount was
    incremented exactly once.  In particular a report that is in when the generation's teardown broadcast closes is taken, not
    overridden by connection-closed. -/
theorem acked_in_full_is_counted (c : Cfg) (hr : Reachable c) (i : Nat) (hp : (c.s i).pc = .done) :
    (finishedOk (c.s i) = true ↔ wroteOk (c.s i) = true) ∧ (c.s i).dSent = b2n (finishedOk (c.s i)) := by
  have hc := cinv_reachable hr
  have h1 := hc.scnt i
  have h2 := hc.sout i
  generalize c.s i = w at *
  clear hc hr
  rec_cases w
  subst hp
  simp only [SCnt, SOut, Sender.wcounted, wroteOk, finishedOk] at *
  cases late <;> cases done <;> (try (rename_i d; cases d)) <;> cases wres <;> (try (rename_i r; cases r)) <;>
    simp_all [Pc.rank, b2n]

/-- **At quiescence DataMsgSendCount = number of requests whose every block was ACKed** (reported while the sender waited). -/
theorem sent_eq_requests_finished_ok (c : Cfg) (hr : Reachable c)
    (hq : ∀ i, i ∈ c.started → (c.s i).pc = .done ∨ (c.s i).pc = .queued) :
    c.m.sent = (c.started.filter (fun i => finishedOk (c.s i))).length := by
  rw [sent_eq_writes_returned_ok c hr]
  congr 1
  apply List.filter_congr
  intro i hi
  rcases hq i hi with h | h
  · have := (acked_in_full_is_counted c hr i h).1
    cases h1 : finishedOk (c.s i) <;> cases h2 : wroteOk (c.s i) <;> simp_all
  · have hd := ((cinv_reachable hr).sloc i).2.2.2 (by simp [h, Pc.rank])
    simp [wroteOk, finishedOk, h, hd, Pc.rank]

/-- what remains outside: a report the engine makes AFTER the sender has left `Write` through the teardown broadcast (the report was
    not in when `genDone` was seen closed).  It exists only on a generation whose teardown broadcast is closed, the call has returned
    connection-closed, and nothing is counted — the connection-closed outcome is by nature the one that does not say whether the
    peer has the message. -/
theorem late_report_only_after_teardown_broadcast (c : Cfg) (hr : Reachable c) (i : Nat) (hl : (c.s i).late = true) :
    (c.s i).wres = some .closed ∧ (c.s i).done.isSome = true ∧ (c.g (c.s i).ep).genDone = true := by
  have hc := cinv_reachable hr
  obtain ⟨h1, h2⟩ := (hc.sout i).2.2.2.2.1 hl
  obtain ⟨g, hg⟩ := Option.isSome_iff_exists.mp ((hc.bail i).2 h2)
  have hge := (hc.sloc i).2.1 g hg
  exact ⟨h1, h2, by rw [hge]; exact (hc.bail i).1 g hg h1⟩

/-- the old gap trace (before c77bf45): a single-block message completely ACKed and reported, then the generation torn down before the
    sender took the report; the sender used to be able to take the `genDone` branch -/
def gapPrefix : List Action :=
  [.publish, .connUp, .setSelected true, .spawn 0, .begin 0 .sync 1, .pin 0, .gate 0, .lock 0, .check 0, .load 0, .take 0,
   .xmit 0 true, .finish 0 .ok, .setSelected false, .cancel 0, .stopSeal 0, .stopDone 0]

def gapTrace : List Action := gapPrefix ++ [.bail 0, .unlock 0]

set_option maxRecDepth 16000 in
/-- REGRESSION: at that point of the trace the connection-closed branch is no longer enabled (the driver's replay rejects the action
    list at `bail`: `disabled@17`); the sender takes the report instead, the write is counted and the call goes on to its reply wait -/
theorem gap_trace_no_longer_enabled :
    enabled (run init gapPrefix) (.bail 0) = false ∧ enabled (run init gapPrefix) (.result 0) = true ∧
    ((run init gapTrace).s 0).pc = .handed ∧ (run init gapTrace).m.sent = 0 ∧
    ((run init (gapPrefix ++ [.result 0, .unlock 0])).s 0).pc = .written ∧ (run init (gapPrefix ++ [.result 0, .unlock 0])).m.sent = 1 :=
  ⟨by decide, by decide, by decide, by decide, by decide, by decide⟩

/-- the residual in the model: the broadcast closes and the sender leaves BEFORE the engine reports (one ACKed block on the wire, report
    `ok` marked late, connection-closed, nothing counted) -/
def lateTrace : List Action :=
  [.publish, .connUp, .setSelected true, .spawn 0, .begin 0 .sync 1, .pin 0, .gate 0, .lock 0, .check 0, .load 0, .take 0,
   .xmit 0 true, .setSelected false, .cancel 0, .stopSeal 0, .stopDone 0, .bail 0, .unlock 0, .finish 0 .ok]

set_option maxRecDepth 16000 in
example : Reachable (run init lateTrace) ∧ ((run init lateTrace).s 0).done = some .ok ∧ ((run init lateTrace).s 0).late = true ∧
    ((run init lateTrace).s 0).out = some .closed ∧ (run init lateTrace).m.sent = 0 :=
  ⟨⟨_, rfl⟩, by decide, by decide, by decide, by decide⟩

/-! ## Non-vacuity: a two-block send with one retransmission, a reply wait that times out, a failed line transaction, a two-block
    inbound message with a duplicate block in between (one delivery), an async send refused by the B2 gate -/
def sampleTrace : List Action :=
  [.publish, .connUp, .setSelected true, .spawn 0, .begin 0 .sync 2, .begin 1 .sync 1, .begin 2 .async 1,
   .pin 0, .gate 0, .lock 0, .check 0, .load 0, .take 0, .xmit 0 true, .xmit 0 false, .xmit 0 true, .finish 0 .ok, .result 0,
   .unlock 0, .incInflight 0,
   .rx 0 (.first false), .rx 0 .drop, .rx 0 (.cont true), .ret 0,
   .pin 1, .gate 1, .lock 1, .check 1, .load 1, .take 1, .xmit 0 false, .finish 0 .sendFailed, .result 1, .unlock 1,
   .pin 2, .gate 2, .enqueue 2 .recv, .decide 0 .timer, .setSelected false, .lock 2, .check 2, .unlock 2]

set_option maxRecDepth 16000 in
example : Reachable (run init sampleTrace) ∧ (run init sampleTrace).m.sent = 1 ∧ (run init sampleTrace).m.recv = 1 ∧
    (run init sampleTrace).m.blockRecv = 3 ∧ (run init sampleTrace).m.inflight = 1 ∧ (run init sampleTrace).m.err = 2 ∧
    (run init sampleTrace).m.drop = 1 ∧ (run init sampleTrace).m.asyncErr = 1 ∧ (run init sampleTrace).m.blockSend = 2 ∧
    (run init sampleTrace).m.blockRetry = 2 ∧ (run init sampleTrace).m.blockSendFailed = 1 ∧
    ((run init sampleTrace).s 1).out = some .sendFailed := by
  refine ⟨⟨_, rfl⟩, by decide, by decide, by decide, by decide, by decide, by decide, by decide, by decide, by decide, by decide, by decide⟩

end GoSecs.Props.C20.Secs1
