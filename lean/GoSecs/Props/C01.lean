/-
  C01 — SECS-II items encode to exact SEMI E5 bytes and decode back to an equal item.

  Property theorems only; helper lemmas live in GoSecs/Lemmas/Secs2.lean.
  `enc` (Model/Secs2) is the E5 reference encoder: format code << 2 | minimal length-byte count,
  big-endian length field (payload bytes, or child count for lists), big-endian payload.
-/
import GoSecs.Lemmas.Secs2
import GoSecs.Lemmas.Secs2Gen
import GoSecs.Gen.Consts
import GoSecs.Gen.Funcs

namespace GoSecs.Props.C01
open GoSecs GoSecs.Secs2

/-! ## Tie to the source (regenerated on every run) -/

/-- The implementation's `headerLen` is the E5 minimal header length, for every non-negative size. -/
theorem headerLen_gen (n : Nat) : Gen.secs2_headerLen (n : Int) = (headerLen n : Int) := by
  unfold Gen.secs2_headerLen headerLen lenCount
  by_cases h1 : n ≤ 255
  · have : ¬ ((n : Int) > 65535) := by omega
    have : ¬ ((n : Int) > 255) := by omega
    simp [*]
  · by_cases h2 : n ≤ 65535
    · have : ¬ ((n : Int) > 65535) := by omega
      have : ((n : Int) > 255) := by omega
      simp [*]
    · have : ((n : Int) > 65535) := by omega
      simp [*]

/-! ### Functions regenerated from secs2/item.go and the per-type files

  `Gen.secs2_*` are re-translated from the working tree by tools/go2lean on every run (proofs of the ties in
  GoSecs/Lemmas/Secs2Gen.lean). -/

/-- `appendHeaderBytesFC`: the size cap, the format byte `fc<<2 + number of length bytes` (as `byte` arithmetic),
    the MINIMAL number of big-endian length bytes — it appends exactly the model's `header fc n`, for every
    destination, format code and length; and `lenBytes[3-lenByteCount:]` is never out of range. -/
theorem appendHeaderBytesFC_gen (dst : Bytes) (fc n : Nat) :
    Gen.secs2_appendHeaderBytesFC dst (fc : Int) (n : Int) =
      some (if n > maxByteSize then (dst, some "size limit exceeded") else (dst ++ header fc n, none)) :=
  Secs2.appendHeaderBytesFC_gen dst fc n

/-- `EncodedLen` of every leaf item kind (deferred error → 0, decoder-owned raw bytes → their length, else
    `headerLen(n) + n` with the kind's payload length `n`): string kinds use the byte length, the localized
    string `len + 2` in BOTH terms, numeric kinds `size × byteSize`. -/
theorem encodedLen_strings_gen (a : Gen.secs2_ASCIIItem) (j : Gen.secs2_JIS8Item) (b : Gen.secs2_BinaryItem)
    (l : Gen.secs2_LocalizedStrItem) :
    (Gen.secs2_ASCIIItem_EncodedLen a =
      if a.baseItem.itemErr.isSome then 0 else if a.baseItem.rawPtr then a.baseItem.rawLen
      else (encodedLen (.ascii a.value) : Int)) ∧
    (Gen.secs2_JIS8Item_EncodedLen j =
      if j.baseItem.itemErr.isSome then 0 else if j.baseItem.rawPtr then j.baseItem.rawLen
      else (encodedLen (.jis8 j.value) : Int)) ∧
    (Gen.secs2_BinaryItem_EncodedLen b =
      if b.baseItem.itemErr.isSome then 0 else if b.baseItem.rawPtr then b.baseItem.rawLen
      else (encodedLen (.binary b.values) : Int)) ∧
    (Gen.secs2_LocalizedStrItem_EncodedLen l =
      if l.baseItem.itemErr.isSome then 0 else if l.baseItem.rawPtr then l.baseItem.rawLen
      else (encodedLen (.lstr l.lsh.toNat l.value) : Int)) ∧
    Gen.secs2_LocalizedStrItem_Size l = ((l.value.length + 2 : Nat) : Int) :=
  ⟨asciiEncodedLen_gen a, jis8EncodedLen_gen j, binaryEncodedLen_gen b, lstrEncodedLen_gen l, lstrSize_gen l⟩

theorem encodedLen_numeric_gen (b : Gen.secs2_baseItem) (sc : Int) (sb vals : Bool) (w : Width) (fw : FWidth)
    (bs : List Bool) (is : List Int) (us fs : List Nat) :
    (Gen.secs2_BooleanItem_EncodedLen { size := (bs.length : Int), scalar := sb, baseItem := b, values := vals } =
      if b.itemErr.isSome then 0 else if b.rawPtr then b.rawLen else (encodedLen (.boolean bs) : Int)) ∧
    (Gen.secs2_IntItem_EncodedLen { size := (is.length : Int), byteSize := (w.bytes : Int), scalar := sc, baseItem := b, values := vals } =
      if b.itemErr.isSome then 0 else if b.rawPtr then b.rawLen else (encodedLen (.int w is) : Int)) ∧
    (Gen.secs2_UintItem_EncodedLen { size := (us.length : Int), byteSize := (w.bytes : Int), scalar := sc, baseItem := b, values := vals } =
      if b.itemErr.isSome then 0 else if b.rawPtr then b.rawLen else (encodedLen (.uint w us) : Int)) ∧
    (Gen.secs2_FloatItem_EncodedLen { size := (fs.length : Int), byteSize := (fw.bytes : Int), baseItem := b, values := vals } =
      if b.itemErr.isSome then 0 else if b.rawPtr then b.rawLen else (encodedLen (.float fw fs) : Int)) :=
  ⟨booleanEncodedLen_gen b sb vals bs, intEncodedLen_gen b sc vals w is, uintEncodedLen_gen b sc vals w us,
   floatEncodedLen_gen b vals fw fs⟩

theorem consts_gen :
    Gen.secs2_MaxByteSize = (maxByteSize : Int) ∧ Gen.secs2_MaxListDepth = (maxListDepth : Int) ∧
    Gen.secs2_ListFormatCode = fcList ∧ Gen.secs2_BinaryFormatCode = fcBinary ∧
    Gen.secs2_BooleanFormatCode = fcBoolean ∧ Gen.secs2_ASCIIFormatCode = fcASCII ∧
    Gen.secs2_JIS8FormatCode = fcJIS8 ∧ Gen.secs2_LocalizedStrFormatCode = fcLStr ∧
    Gen.secs2_Int8FormatCode = fcInt .w1 ∧ Gen.secs2_Int16FormatCode = fcInt .w2 ∧
    Gen.secs2_Int32FormatCode = fcInt .w4 ∧ Gen.secs2_Int64FormatCode = fcInt .w8 ∧
    Gen.secs2_Uint8FormatCode = fcUint .w1 ∧ Gen.secs2_Uint16FormatCode = fcUint .w2 ∧
    Gen.secs2_Uint32FormatCode = fcUint .w4 ∧ Gen.secs2_Uint64FormatCode = fcUint .w8 ∧
    Gen.secs2_Float32FormatCode = fcFloat .f4 ∧ Gen.secs2_Float64FormatCode = fcFloat .f8 := by
  decide

/-! ## The property -/

/-- **Round trip.** For every well-formed item (error-free constructible, sizes within the E5 cap,
    nesting within the decoder's limit) and any trailing bytes, `Decode` returns an item `Equal` to
    the original and consumes exactly the encoding. -/
theorem decode_encode (it : Item) (h : WF it) (hd : depth it ≤ maxListDepth) (rest : Bytes) :
    ∃ it', decode (enc it ++ rest) = .ok (it', (enc it).length) ∧ equalItem it it' = true :=
  ⟨it, decode_enc it h hd rest, equalItem_refl it⟩

/-- The decoded item is in fact the same logical value (stronger than `Equal`). -/
theorem decode_encode_eq (it : Item) (h : WF it) (hd : depth it ≤ maxListDepth) (rest : Bytes) :
    decode (enc it ++ rest) = .ok (it, (enc it).length) :=
  decode_enc it h hd rest

/-- **Reported length.** `EncodedLen` is the length of the encoding. -/
theorem encodedLen_eq (it : Item) : (enc it).length = encodedLen it := enc_length it

/-- **Minimal header.** The header is the format byte followed by the minimal number of length bytes
    (1 iff n ≤ 255, 2 iff 256..65535, 3 otherwise), which hold the length field big-endian. -/
theorem header_minimal (fc n : Nat) (hfc : fc < 64) (hn : n ≤ maxByteSize) :
    ∃ lb : Bytes, header fc n = UInt8.ofNat (fc * 4 + lb.length) :: lb ∧ beVal lb = n ∧
      (lb.length = 1 ↔ n ≤ 255) ∧ (lb.length = 2 ↔ 255 < n ∧ n ≤ 65535) ∧
      (lb.length = 3 ↔ 65535 < n) := by
  refine ⟨beBytes (lenCount n) n, by simp [header], beVal_header_len n hn, ?_, ?_, ?_⟩ <;>
    simp only [beBytes_length, lenCount] <;> (repeat' split) <;> omega

/-- **Big-endian payload.** Each unsigned element of width `k` is written most significant byte
    first: byte `i` (from the left) is `v / 256^(k-1-i) mod 256`. -/
theorem payload_big_endian (k v : Nat) :
    beBytes (k+1) v = UInt8.ofNat (v / 256 ^ k % 256) :: beBytes k v := rfl

/-- A list's length field is its child count, and the children follow in order. -/
theorem list_layout (cs : List Item) :
    enc (.list cs) = header fcList cs.length ++ encL cs := by simp [enc]

/-- **AppendTo leaves the prefix untouched** and appends exactly the encoding. -/
theorem appendTo_prefix (dst : Bytes) (it : Item) :
    (appendTo dst it).take dst.length = dst ∧ (appendTo dst it).drop dst.length = enc it := by
  simp [appendTo]

/-- **Determinism / injectivity on values.** Two well-formed items with the same encoding are the
    same item. -/
theorem enc_injective (a b : Item) (ha : WF a) (hb : WF b)
    (hda : depth a ≤ maxListDepth) (hdb : depth b ≤ maxListDepth) (h : enc a = enc b) : a = b := by
  have h1 := decode_enc a ha hda []
  have h2 := decode_enc b hb hdb []
  rw [h] at h1
  rw [h1] at h2
  injection h2 with h2
  exact (Prod.mk.inj h2).1

/-! ## Non-vacuity: a concrete nested item meets every hypothesis -/
def sample : Item :=
  .list [.ascii [0x41, 0x42], .int .w2 [-1, 32767], .list [.uint .w8 [18446744073709551615], .boolean [true, false]],
         .float .f4 [0x7fc00000], .lstr 2 [0xe4], .binary []]

example : WF sample ∧ depth sample ≤ maxListDepth := by
  refine ⟨?_, by decide⟩
  simp [sample, WF, WFL, maxByteSize, Width.bytes, FWidth.bytes, intLo, intHi]

end GoSecs.Props.C01
