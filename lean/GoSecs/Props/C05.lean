/-
  C05 — connection state follows the SEMI E37 state diagram under every interleaving.

  Model: GoSecs/Model/Supervisor.lean (atomic actions = linearisation points of supervisor.go).
  "Every interleaving" = every finite action list `as`; reachable configurations are `run init as`.
  Helper lemmas and the inductive invariants are in GoSecs/Lemmas/Supervisor.lean.

  Events that report something about ONE TCP generation / ONE NotSelected dwell (disconnect, T7 expiry)
  carry that generation's / dwell's sequence number, and the supervisor ignores one that is older than
  the current number (findings F7 and F7b, repaired in the repository; the schedules on which they
  showed are kept below as regression theorems and replayed by the harness on the real supervisor).
-/
import GoSecs.Lemmas.Supervisor
import GoSecs.Lemmas.SupervisorReplay
import GoSecs.Lemmas.SupervisorTags
import GoSecs.Lemmas.SupervisorGen
import GoSecs.Gen.Consts
import GoSecs.Gen.Funcs
import GoSecs.Gen.Facts

namespace GoSecs.Props.C05
open GoSecs GoSecs.Sup

/-! ## Tie to the source (regenerated on every run) -/

/-- The Go `transition` table is the E37 table, for all 3 × 6 (state, event) pairs. -/
theorem transition_gen (cur : St) (ev : Ev) :
    Gen.hsms_transition cur.toNat ev.toNat = (((transition cur ev).1.toNat : Int), (transition cur ev).2) := by
  cases cur <;> cases ev <;> rfl

/-- Any event value outside the six defined ones is a no-op in the Go table. -/
theorem transition_gen_unknown (cur ev : Int) (h : ev < 0 ∨ 5 < ev) :
    Gen.hsms_transition cur ev = (cur, false) := by
  unfold Gen.hsms_transition
  have h0 : (ev == 0) = false := by simp; omega
  have h1 : (ev == 1) = false := by simp; omega
  have h2 : (ev == 2) = false := by simp; omega
  have h3 : (ev == 3) = false := by simp; omega
  have h4 : (ev == 4) = false := by simp; omega
  have h5 : (ev == 5) = false := by simp; omega
  simp [h0, h1, h2, h3, h4, h5]

theorem consts_gen :
    Gen.hsms_NotConnectedState = St.NC.toNat ∧ Gen.hsms_NotSelectedState = St.NS.toNat ∧
    Gen.hsms_SelectedState = St.S.toNat ∧
    Gen.hsms_evTCPUp = Ev.tcpUp.toNat ∧ Gen.hsms_evSelectAccepted = Ev.selAcc.toNat ∧
    Gen.hsms_evSelectLost = Ev.selLost.toNat ∧ (∀ g, Gen.hsms_evDisconnect = (Ev.disc g).toNat) ∧
    Gen.hsms_evClose = Ev.close.toNat ∧ (∀ d, Gen.hsms_evT7Timeout = (Ev.t7 d).toNat) ∧
    Gen.hsms_supervisorNotifyCap = notifyCap := by
  refine ⟨by decide, by decide, by decide, by decide, by decide, by decide, fun _ => rfl, by decide,
    fun _ => rfl, by decide⟩

/-- The only writers of the `state` atomic in package hsms are the three commits (each a CAS along
    an edge of the diagram), `step` (a plain Store and the CAS used for T7) and the terminal
    `Store(NotConnected)` at the end of Close (`closeReturn` in the model). -/
theorem write_sites_gen :
    Gen.hsms_stateWrites =
      [("connection.Close", "Store", ["0"]),
       ("supervisor.CommitConnected", "CompareAndSwap", ["0", "1"]),
       ("supervisor.CommitSelected", "CompareAndSwap", ["1", "2"]),
       ("supervisor.CommitSelectLost", "CompareAndSwap", ["2", "1"]),
       ("supervisor.step", "CompareAndSwap", ["cur", "next"]),
       ("supervisor.step", "Store", ["next"])] := by decide

/-- Each commit's CAS pair is an edge of the E37 diagram. -/
theorem commit_cas_pairs_are_edges : Edge .NC .NS ∧ Edge .NS .S ∧ Edge .S .NS := by simp [Edge]

/-! ## Tie of the per-goroutine CODE to the model's atomic actions (effect-mode translation, regenerated each run)

  `Gen.hsms_supervisor_step`, `…_CommitConnected`, … are re-translated from hsms/supervisor.go on every run
  (state passing for the receiver; atomics as fields with sequential meaning; every atomic operation, every
  `inject` / `react` / `emit` / `teardown` call recorded in a trace).  `Loc` (Lemmas/SupervisorSeq.lean) is the part of
  a configuration one such call touches; `(locOf c).enc s0` is the Go supervisor value of configuration `c` (all
  other fields arbitrary, from `s0`).  Sequential meaning = one goroutine's run between its own atomic operations;
  the interleavings are the model's (`run`), what is tied here is each thread's local code. -/

/-- **`step_gen`.** For every configuration with the run goroutine idle and `e` next in the queue, every supervisor
    value encoding it, every event as the injectors encode it (`Ev.wire`) and every oracle list (the close-timeout
    provider's answer): the regenerated `step` does not panic or spin; the supervisor it returns is the encoding
    of the configuration the model reaches by `runLoad; runCommit`; its trace is exactly `stepLoc`'s (consume
    [Load, CAS] — closed latch — Load state — stale select-lost abandon — Load generation / dwell for a tagged
    disconnect / T7 — CAS for T7, nothing for a superseded select, dwell.Add(1) + Store, or Store — deduped
    fireTransition — close latch and teardown); and the `react` / `emit` calls in it are the model's new reactions
    and notifications. -/
theorem step_gen (s0 : Gen.hsms_supervisor) (c : Cfg) (e : Ev) (q : List Ev) (orc : List Go.Val)
    (hst : c.stopped = false) (hpc : c.pc = .idle) (hq : c.queue = e :: q) (hok : (locOf c).ok) (ht : e.tagOk) :
    Gen.hsms_supervisor_step ((locOf c).enc s0) e.wire orc =
      some ((locOf (run c [.runLoad, .runCommit])).enc s0,
            (stepLoc (envOf s0) (locOf c) e orc).2.1, (stepLoc (envOf s0) (locOf c) e orc).2.2) ∧
    (run c [.runLoad, .runCommit]).reactions = c.reactions ++ reactsOf (stepLoc (envOf s0) (locOf c) e orc).2.1 ∧
    (run c [.runLoad, .runCommit]).emitted = c.emitted ++ emitsOf (stepLoc (envOf s0) (locOf c) e orc).2.1 := by
  refine ⟨?_, stepLoc_effects (envOf s0) c e q orc hst hpc hq⟩
  rw [step_gen_loc e s0 (locOf c) orc hok ht, stepLoc_model (envOf s0) c e q orc hst hpc hq]

/-- `step_gen` on the thread-local state alone: for EVERY supervisor value whose modelled fields encode some
    `Loc` (any state, any lastReacted, closed or not, any counters in range) and every event. -/
theorem step_gen_local (s0 : Gen.hsms_supervisor) (l : Loc) (e : Ev) (orc : List Go.Val) (hok : l.ok) (ht : e.tagOk) :
    Gen.hsms_supervisor_step (l.enc s0) e.wire orc =
      some ((stepLoc (envOf s0) l e orc).1.enc s0, (stepLoc (envOf s0) l e orc).2.1, (stepLoc (envOf s0) l e orc).2.2) :=
  step_gen_loc e s0 l orc hok ht

/-- The order of `step`'s atomic operations, spelled out on three paths (production supervisor: no test hook).
    A current-generation disconnect from Selected: state is loaded BEFORE the generation, then a plain Store. -/
theorem step_trace_disconnect (n g d : Nat) (orc : List Go.Val) :
    (stepLoc ⟨false, false, false⟩ ⟨.S, .S, false, n, g, d⟩ (.disc g) orc).2.1 =
      [.atomic "supervisor.state" "Load" [], .atomic "supervisor.generation" "Load" [],
       .atomic "supervisor.state" "Store" [.int 0],
       .call "hsms.supervisor.emit" [.int 2, .int 0], .call "hsms.supervisor.react" [.int 2, .int 0]] := by
  simp [stepLoc, consumeLoc, staleLoc, storeLoc, reactLoc, latchLoc, transition, fireTr, stV]

/-- A current-dwell T7 expiry from NotSelected: state, then dwell, then a CompareAndSwap (never a plain Store). -/
theorem step_trace_t7 (n g d : Nat) (orc : List Go.Val) :
    (stepLoc ⟨false, false, false⟩ ⟨.NS, .NS, false, n, g, d⟩ (.t7 d) orc).2.1 =
      [.atomic "supervisor.state" "Load" [], .atomic "supervisor.dwell" "Load" [],
       .atomic "supervisor.state" "CompareAndSwap" [.int 1, .int 0],
       .call "hsms.supervisor.emit" [.int 1, .int 0], .call "hsms.supervisor.react" [.int 1, .int 0]] := by
  simp [stepLoc, consumeLoc, staleLoc, storeLoc, reactLoc, latchLoc, transition, fireTr, stV]

/-- Once closed, an event costs no atomic operation at all (except the select-lost bookkeeping). -/
theorem step_trace_closed (env : Env) (st lr : St) (n g d : Nat) (orc : List Go.Val) :
    (stepLoc env ⟨st, lr, true, n, g, d⟩ .tcpUp orc).2.1 = [] := by
  simp [stepLoc, consumeLoc]

/-- **`commit_connected_gen`.** `CommitConnected` bumps generation and dwell, CASes NotConnected → NotSelected and
    then injects evTCPUp — or rolls both counters back; the supervisor it returns is the model's after
    `casConnected; injStart`, its result says whether the CAS happened, and what it injects is what the model
    enqueues. -/
theorem commit_connected_gen (s0 : Gen.hsms_supervisor) (c : Cfg) (hst : c.stopped = false)
    (hp : c.pendStart = none) (hok : (locOf c).ok) :
    Gen.hsms_supervisor_CommitConnected ((locOf c).enc s0) =
      ((locOf (run c [.casConnected, .injStart])).enc s0, (commitConnectedLoc (locOf c)).2.1,
        (commitConnectedLoc (locOf c)).2.2) ∧
    (run c [.casConnected, .injStart]).queue.map Ev.wire =
      c.queue.map Ev.wire ++ injectsOf (commitConnectedLoc (locOf c)).2.2 := by
  have h := commitConnectedLoc_model c hst hp
  refine ⟨by rw [commitConnected_gen_loc s0 _ hok, h.1], ?_⟩
  rw [h.2.1, h.2.2.1]; split <;> simp

/-- **`commit_selected_gen`.** CAS NotSelected → Selected, then inject evSelectAccepted (`casSelected; injRecv`). -/
theorem commit_selected_gen (s0 : Gen.hsms_supervisor) (c : Cfg) (hst : c.stopped = false) (hp : c.pendRecv = none) :
    Gen.hsms_supervisor_CommitSelected ((locOf c).enc s0) =
      ((locOf (run c [.casSelected, .injRecv])).enc s0, (commitSelectedLoc (locOf c)).2.1,
        (commitSelectedLoc (locOf c)).2.2) ∧
    (run c [.casSelected, .injRecv]).queue.map Ev.wire =
      c.queue.map Ev.wire ++ injectsOf (commitSelectedLoc (locOf c)).2.2 := by
  have h := commitSelectedLoc_model c hst hp
  refine ⟨by rw [commitSelected_gen_loc s0 _, h.1], ?_⟩
  rw [h.2.1, h.2.2.1]; split <;> simp

/-- **`commit_select_lost_gen`.** Announce (deselectPending.Add(1)), open the dwell, CAS Selected → NotSelected,
    then inject evSelectLost — or take both back (`casSelectLost; injRecv`). -/
theorem commit_select_lost_gen (s0 : Gen.hsms_supervisor) (c : Cfg) (hst : c.stopped = false)
    (hp : c.pendRecv = none) (hok : (locOf c).ok) (hd : (locOf c).desel + 1 < 2 ^ 31) :
    Gen.hsms_supervisor_CommitSelectLost ((locOf c).enc s0) =
      ((locOf (run c [.casSelectLost, .injRecv])).enc s0, (commitSelectLostLoc (locOf c)).2.1,
        (commitSelectLostLoc (locOf c)).2.2) ∧
    (run c [.casSelectLost, .injRecv]).queue.map Ev.wire =
      c.queue.map Ev.wire ++ injectsOf (commitSelectLostLoc (locOf c)).2.2 := by
  have h := commitSelectLostLoc_model c hst hp
  refine ⟨by rw [commitSelectLost_gen_loc s0 _ hok hd, h.1], ?_⟩
  rw [h.2.1, h.2.2.1]; split <;> simp

/-- The order inside the commits: counters first, CAS second, inject (or roll-back) last. -/
theorem commit_traces (l : Loc) :
    (commitConnectedLoc { l with st := .NC }).2.2 =
      [.atomic "supervisor.generation" "Add" [.int 1], .atomic "supervisor.dwell" "Add" [.int 1],
       .atomic "supervisor.state" "CompareAndSwap" [.int 0, .int 1], .call "hsms.supervisor.inject" [.int 0]] ∧
    (commitSelectLostLoc { l with st := .NS }).2.2 =
      [.atomic "supervisor.deselectPending" "Add" [.int 1], .atomic "supervisor.dwell" "Add" [.int 1],
       .atomic "supervisor.state" "CompareAndSwap" [.int 2, .int 1],
       .atomic "supervisor.deselectPending" "Add" [.int (-1)],
       .atomic "supervisor.dwell" "Add" [.int 18446744073709551615]] := by
  constructor <;> simp [commitConnectedLoc, commitSelectLostLoc, stV, Ev.wire, Ev.tag, Ev.toNat, minus1U64]

/-- **`inject_disconnect_gen` / `inject_t7_gen`.** The injectors load the generation (dwell) and inject the event
    tagged with it: exactly the event the model's `inject` action enqueues. -/
theorem inject_disconnect_gen (s0 : Gen.hsms_supervisor) (c : Cfg) (hst : c.stopped = false)
    (hg : c.gen + 1 < 2 ^ 56) :
    injectsOf (Gen.hsms_supervisor_injectDisconnect ((locOf c).enc s0)) = [(Inj.disc.toEv c).wire] ∧
    (run c [.inject .disc]).queue = c.queue ++ [Inj.disc.toEv c] := by
  rw [injectDisconnect_gen_loc s0 (locOf c) hg]
  exact ⟨(injectLoc_model c .disc hst).2, (injectLoc_model c .disc hst).1⟩

theorem inject_t7_gen (s0 : Gen.hsms_supervisor) (c : Cfg) (hst : c.stopped = false)
    (hw : c.dwell + 1 < 2 ^ 56) :
    injectsOf (Gen.hsms_supervisor_injectT7Timeout ((locOf c).enc s0)) = [(Inj.t7.toEv c).wire] ∧
    (run c [.inject .t7]).queue = c.queue ++ [Inj.t7.toEv c] := by
  rw [injectT7Timeout_gen_loc s0 (locOf c) hw]
  exact ⟨(injectLoc_model c .t7 hst).2, (injectLoc_model c .t7 hst).1⟩

/-- **`event_tag_gen`.** `split` undoes `withTag` (kind below 256, tag below 2^56 - 1): what an injector tags is
    what `step` compares with the counter. -/
theorem event_tag_gen (k seq : Nat) (hk : k < 256) (hs : seq + 1 < 2 ^ 56) :
    Gen.hsms_fsmEvent_split (Gen.hsms_fsmEvent_withTag (k : Int) (seq : Int)) = ((k : Int), (seq : Int), true) :=
  split_withTag_gen k seq hk hs

/-- Non-vacuity: the initial configuration after a TCP-up commit satisfies every hypothesis of `step_gen`. -/
example : let c := run init [.casConnected, .injStart]
    c.stopped = false ∧ c.pc = .idle ∧ c.queue = [.tcpUp] ∧ (locOf c).ok ∧ Ev.tcpUp.tagOk := by
  refine ⟨rfl, rfl, rfl, ?_, trivial⟩
  simp [Loc.ok, locOf, deselCount, run, step, stepLive, init]

/-! ## The property -/

/-- **Legal edges.** In every reachable configuration, every atomic action leaves `State()`
    unchanged or moves it along NC→NS, NS→S, S→NS, NS→NC, S→NC — including a store that lands after
    commits changed the value the run goroutine had loaded. -/
theorem legal_edges (as : List Act) (a : Act) :
    (step (run init as) a).st = (run init as).st ∨ Edge (run init as).st (step (run init as) a).st :=
  legal_edges_step _ a (winInv_run as)

/-- **T7 never leaves Selected.** Whatever the run goroutine loaded, if the session is Selected when
    the T7 store would happen (a commit landed between load and store), nothing is stored. -/
theorem t7_never_leaves_selected (c : Cfg) (d : Nat) (cur : St) (hpc : c.pc = .loaded (.t7 d) cur) (hs : c.st = .S) :
    (step c .runCommit).st = .S := by
  unfold step; split
  · exact hs
  · simp only [stepLive, hpc]; split
    · exact hs
    · exact t7_commit_keeps_selected c d cur hs

/-- T7 processed while Selected at the load is a no-op as well (no store, no notification). -/
theorem t7_from_selected_noop (c : Cfg) (d : Nat) (hpc : c.pc = .loaded (.t7 d) .S) :
    (step c .runCommit).st = c.st ∧ (step c .runCommit).emitted = c.emitted := by
  unfold step; split
  · exact ⟨rfl, rfl⟩
  · simp only [stepLive, hpc]; split
    · exact ⟨rfl, rfl⟩
    · simp only [commit]
      cases hs : c.st <;> cases deselPending c <;> simp [outcome, transition, latch]

/-- **Stale select-lost is abandoned**: observed Selected at the load, the event is dropped; state,
    notifications and reactions are untouched. -/
theorem select_lost_superseded (c : Cfg) (q : List Ev) (hst : c.stopped = false) (hpc : c.pc = .idle)
    (hq : c.queue = .selLost :: q) (hs : c.st = .S) :
    step c .runLoad = { c with queue := q } := selLost_abandoned c q hst hpc hq hs

/-- **Never undone or replayed by later internal processing.** On every schedule whose only causes are
    the synchronous commits (TCP up, select accepted, select lost: every change already took effect at
    its commit's CAS — no disconnect, T7 or close event), the supervisor's asynchronous processing of
    the queued events never changes `State()`: neither the load half nor the store half of any step. -/
theorem commit_events_never_replayed (as : List Act) (h : ∀ a ∈ as, a.commitOnly = true) :
    (step (run init as) .runLoad).st = (run init as).st ∧
    (step (run init as) .runCommit).st = (run init as).st :=
  replay_run_steps_keep_state _ (replayInv_run as h)

/-- **A superseded Select is not replayed.** While a Deselect commit's event is still on its way
    (the peer pipelined Select.req + Deselect.req), processing the earlier select-accepted event never
    stores: the state stays as the later commit published it; only the deduped reaction runs. -/
theorem superseded_select_not_replayed (c : Cfg) (cur : St) (hd : deselPending c = true) :
    (commit c .selAcc cur).st = c.st := by
  rw [commit_st, hd]
  cases cur <;> cases c.st <;> simp [outcome, transition]

/-- The pipelined Select.req + Deselect.req history: both commits land before the supervisor runs;
    the state ends NotSelected and handlers see NotSelected→Selected→NotSelected in order. (Before the
    repair recorded in known_findings.txt the first event re-stored Selected and the second was
    abandoned, leaving State() == Selected after the peer had been told the deselect succeeded.) -/
theorem pipelined_select_deselect :
    let c := run init [.casConnected, .injStart, .runLoad, .runCommit,
      .casSelected, .injRecv, .casSelectLost, .injRecv, .runLoad, .runCommit, .runLoad, .runCommit]
    c.st = .NS ∧ c.lastReacted = .NS ∧ c.emitted = [(.NC, .NS), (.NS, .S), (.S, .NS)] := by decide

/-- **A disconnect reaction is never fired without the state change.** When the supervisor processes a
    disconnect or T7 event and fires a reaction (teardown, reconnect), it has published NotConnected:
    a T7 that lost the tie to a select commit fires nothing. -/
theorem disconnect_reaction_publishes (c : Cfg) (ev : Ev) (cur : St) (hev : (∃ g, ev = .disc g) ∨ (∃ d, ev = .t7 d))
    (h : (commit c ev cur).reactions ≠ c.reactions) : (commit c ev cur).st = .NC := by
  rw [commit_st]
  cases ho : outcome ev cur c.st (deselPending c)
  · exfalso; apply h; unfold commit; simp [ho]
  · exfalso
    rcases hev with ⟨g, rfl⟩ | ⟨d, rfl⟩ <;> cases cur <;> cases hs : c.st <;> cases hd : deselPending c <;>
      simp [outcome, transition, hs, hd] at ho
  · exfalso; apply h; unfold commit; simp [ho]
  · rcases hev with ⟨g, rfl⟩ | ⟨d, rfl⟩ <;> cases cur <;> cases hs : c.st <;> cases hd : deselPending c <;>
      simp_all [outcome, transition]

/-- **Closed latch.** In every reachable configuration, once the close event has been processed no
    action of the run goroutine changes `State()` any more. -/
theorem closed_latch (as : List Act) (h : (run init as).closed = true) :
    (step (run init as) .runLoad).st = (run init as).st ∧
    (step (run init as) .runCommit).st = (run init as).st := by
  refine ⟨(closed_latch_load _ h).1, ?_⟩
  have := closedInv_run as h
  unfold step; split
  · rfl
  · simp [stepLive, this]

/-- Processing the close event from any state stores NotConnected (if no commit interferes the
    value read back is NotConnected). -/
theorem close_stores_NC (c : Cfg) (cur : St) (hpc : c.pc = .loaded .close cur) (hs : c.st = cur) :
    c.stopped = false → (step c .runCommit).st = .NC ∧ (step c .runCommit).closed = true := by
  intro hst
  simp only [step, hst, Bool.false_eq_true, if_false, stepLive, hpc, stale]
  refine ⟨?_, ?_⟩
  · rw [commit_st]; cases cur <;> cases deselPending c <;> simp [outcome, transition, hs]
  · rw [commit_closed]; cases cur <;> cases deselPending c <;> simp [outcome, transition]

/-- **Notification order.** Along every schedule the emitted notifications form a chain from
    NotConnected: each one's previous state is the preceding one's next state, none is a
    self-transition, and the last one's next state is what the supervisor last reacted to. -/
theorem notif_chain (as : List Act) :
    IsChain .NC (run init as).emitted ∧ endOf .NC (run init as).emitted = (run init as).lastReacted :=
  chainInv_run as

/-- What handlers have seen plus what is still buffered is the emitted sequence with exactly
    `dropped` elements removed, in order, and always retains the latest notification. -/
theorem delivered_is_emitted_minus_drops (as : List Act) :
    let c := run init as
    (c.delivered ++ c.notify).Sublist c.emitted ∧
    c.emitted.length = c.delivered.length + c.notify.length + c.dropped ∧
    (c.delivered ++ c.notify).getLast? = c.emitted.getLast? := by
  have := bufInv_run as
  exact ⟨this.1, this.2.1, this.2.2.2⟩

/-- **No reported coalescing ⇒ unbroken chain.** If the library has counted no dropped notification,
    the delivered sequence itself is a chain from NotConnected without self-transitions. -/
theorem delivered_chain_of_no_drops (as : List Act) (h : (run init as).dropped = 0) :
    IsChain .NC (run init as).delivered := by
  obtain ⟨hsub, hlen, _⟩ := delivered_is_emitted_minus_drops as
  have heq : (run init as).delivered ++ (run init as).notify = (run init as).emitted := by
    apply hsub.eq_of_length
    simp only [List.length_append]; omega
  have := (notif_chain as).1
  rw [← heq] at this
  exact isChain_prefix _ _ _ this

theorem endOf_eq_getLast (s : St) (l : List (St × St)) :
    endOf s l = match l.getLast? with | none => s | some x => x.2 := by
  induction l generalizing s with
  | nil => rfl
  | cons x l ih =>
    obtain ⟨a, b⟩ := x
    simp only [endOf, ih]
    cases l with
    | nil => rfl
    | cons y l =>
      rw [List.getLast?_cons_cons]
      cases h : (y :: l).getLast? with
      | none => simp at h
      | some z => rfl

/-- **Quiescence.** When nothing is in flight (event queue empty, no commit between its CAS and its
    inject, run goroutine idle) and Close has not been processed, `State()` equals the state the
    supervisor last reacted to; and once handlers have drained the buffer, the last notification's
    next state equals `State()` (or no notification was ever emitted and the state is NotConnected). -/
theorem quiescent_agrees (as : List Act)
    (hq : (run init as).queue = []) (hps : (run init as).pendStart = none)
    (hpr : (run init as).pendRecv = none) (hpc : (run init as).pc = .idle)
    (hcl : (run init as).closed = false) :
    (run init as).st = (run init as).lastReacted ∧
    ((run init as).notify = [] →
      match (run init as).delivered.getLast? with
      | none => (run init as).st = .NC
      | some x => x.2 = (run init as).st) := by
  have hag := agreeInv_run as hcl
  simp only [hpc] at hag
  have hst : (run init as).st = (run init as).lastReacted := by
    rcases hag with h | ⟨e, he, _⟩
    · exact h
    · rcases he with he | he | he
      · rw [hq] at he; cases he
      · rw [hps] at he; cases he
      · rw [hpr] at he; cases he
  refine ⟨hst, ?_⟩
  intro hn
  obtain ⟨_, _, hlast⟩ := delivered_is_emitted_minus_drops as
  simp only [hn, List.append_nil] at hlast
  have hend := (notif_chain as).2
  rw [endOf_eq_getLast, ← hlast, ← hst] at hend
  cases hd : (run init as).delivered.getLast? with
  | none => simp only [hd] at hend ⊢; exact hend.symm
  | some x => simp only [hd] at hend ⊢; exact hend

/-! ## After Close

  "After Close returns, State() is NotConnected and stays so, and no further notification is
  delivered, until the next Open."  `closeReturn` is the tail of Close(): it runs after evClose was
  processed and everything was joined, stores NotConnected, and nothing is enabled afterwards. -/

/-- **After Close returns** the state is NotConnected, and it stays NotConnected — with no further
    notification delivered — under every later action list whatsoever. -/
theorem after_close_state_NC (c : Cfg) (hcl : c.closed = true) (hpc : c.pc = .idle) (hst : c.stopped = false)
    (bs : List Act) :
    (run (step c .closeReturn) bs).st = .NC ∧
    (run (step c .closeReturn) bs).delivered = (step c .closeReturn).delivered := by
  have h1 : (step c .closeReturn).stopped = true ∧ (step c .closeReturn).st = .NC := by
    simp [step, hst, stepLive, hcl, hpc]
  have frozen : ∀ (d : Cfg), d.stopped = true → ∀ bs, run d bs = d := by
    intro d hd bs
    induction bs with
    | nil => rfl
    | cons b bs ih => simp only [run, List.foldl] at ih ⊢; simp only [step, hd, if_true]; exact ih
  rw [frozen _ h1.1 bs]; exact ⟨h1.2, rfl⟩

/-- Close can always get there: on every schedule, once the close event has been processed the run
    goroutine is idle (so `closeReturn` is enabled). -/
theorem close_return_enabled (as : List Act) (h : (run init as).closed = true) :
    (run init as).pc = .idle := closedInv_run as h

/-  The final store is what makes this true.  Without it the clause fails: a commit's CAS does not
    consult the close latch, so a reconnect's TCP-up commit landing after evClose was processed left
    State() == NotSelected after Close (finding F4, repaired in the repository by a `fix:` commit; the
    harness's history mode replays Close racing a reconnect against the real connection). -/

def f4Schedule : List Act :=
  [.inject .close, .runLoad, .runCommit,   -- Close processed: NotConnected, latched
   .casConnected]                           -- a reconnect's Start then commits TCP-up

theorem f4_window_needs_final_store :
    (run init (f4Schedule.take 3)).closed = true ∧ (run init (f4Schedule.take 3)).st = .NC ∧
    (run init f4Schedule).closed = true ∧ (run init f4Schedule).st = .NS ∧
    (run init (f4Schedule ++ [.injStart, .closeReturn])).st = .NC := by decide

/-! ## Stale events: an earlier TCP generation / an earlier NotSelected dwell never disturbs a later one

  Full statement B: "each change … is never undone or replayed by the library's later internal
  processing of an earlier event", and full statement C: "a session that has reached Selected is never
  disconnected by a T7 timeout armed before it was selected."

  Both used to fail when the run goroutine lagged (findings F7 / F7b: `counterexample_stale_disconnect`,
  `counterexample_stale_t7` in earlier revisions of this file): a second disconnect report of generation
  N, still queued when generation N+1 committed, took N+1 down; a T7 expiry still queued when the session
  was selected and later deselected disconnected it.  The repository now tags `evDisconnect` with the TCP
  generation and `evT7Timeout` with the NotSelected dwell current when the cause was reported, and `step`
  ignores an event whose number is older than the current one.  The theorems below state this locally
  (one run step), for every schedule (induction over the action list), show that nothing of the CURRENT
  generation / dwell is discarded, and keep the two former counterexample schedules as regressions. -/

/-- Nothing observable happened: state, notifications (emitted and buffered), reactions, the dedup
    key and the close latch are as before. -/
def Undisturbed (c c' : Cfg) : Prop :=
  c'.st = c.st ∧ c'.emitted = c.emitted ∧ c'.notify = c.notify ∧ c'.reactions = c.reactions ∧
  c'.lastReacted = c.lastReacted ∧ c'.closed = c.closed ∧ c'.dropped = c.dropped

theorem undisturbed_refl (c : Cfg) : Undisturbed c c := ⟨rfl, rfl, rfl, rfl, rfl, rfl, rfl⟩

/-- **A stale disconnect is ignored.** A disconnect event tagged with generation `g`, processed when
    the current generation is larger, only returns the run goroutine to idle: no store, no reaction,
    no notification. -/
theorem stale_disconnect_ignored (c : Cfg) (g : Nat) (cur : St) (hst : c.stopped = false)
    (hpc : c.pc = .loaded (.disc g) cur) (hg : g < c.gen) :
    step c .runCommit = { c with pc := .idle } := by
  simp [step, hst, stepLive, hpc, stale, hg]

/-- **A stale T7 expiry is ignored**, likewise, when its dwell is older than the current one. -/
theorem stale_t7_ignored (c : Cfg) (d : Nat) (cur : St) (hst : c.stopped = false)
    (hpc : c.pc = .loaded (.t7 d) cur) (hd : d < c.dwell) :
    step c .runCommit = { c with pc := .idle } := by
  simp [step, hst, stepLive, hpc, stale, hd]

/-- **The check discards nothing current.** On every schedule the tag of an event the run goroutine
    holds is at most the current number — so an event that is not discarded belongs to exactly the
    current generation (dwell), and is then processed by the unchanged `commit` (table, store / T7 CAS,
    deduped reaction): the repair removes no behaviour. -/
theorem live_tags_are_current (as : List Act) (ev : Ev) (cur : St)
    (hpc : (run init as).pc = .loaded ev cur) (hns : stale (run init as) ev = false) :
    (∀ g, ev = .disc g → g = (run init as).gen) ∧ (∀ d, ev = .t7 d → d = (run init as).dwell) ∧
    step (run init as) .runCommit =
      if (run init as).stopped then run init as else commit (run init as) ev cur := by
  have htag := (tagInv_run as).loaded ev cur hpc
  refine ⟨?_, ?_, ?_⟩
  · rintro g rfl; simp [stale] at hns; simp [tagOK] at htag; omega
  · rintro d rfl; simp [stale] at hns; simp [tagOK] at htag; omega
  · unfold step; split
    · rfl
    · simp [stepLive, hpc, hns]

/-- The injectors tag with the number current at the call. -/
theorem inject_tags (c : Cfg) (hst : c.stopped = false) :
    (step c (.inject .disc)).queue = c.queue ++ [.disc c.gen] ∧
    (step c (.inject .t7)).queue = c.queue ++ [.t7 c.dwell] := by
  simp [step, hst, stepLive, Inj.toEv]

/-- **A disconnect of an earlier generation never disturbs a later one — every schedule.**
    Take any reachable configuration `c1` and any disconnect report of a generation `g ≤ c1.gen` (in
    particular the event `TCPDown` enqueues at `c1`, `inject_tags`).  Let anything happen (`as2`), let a
    reconnect's TCP-up commit succeed, let anything happen again (`as3`: the new generation selects,
    exchanges data, …).  Whenever the run goroutine then gets to a disconnect event of generation `g`,
    processing it changes nothing. -/
theorem disconnect_never_disturbs_later_generation (as1 as2 as3 : List Act) (g : Nat) (cur : St)
    (hg : g ≤ (run init as1).gen)
    (hst : (run (run init as1) as2).stopped = false)
    (hps : (run (run init as1) as2).pendStart = none) (hnc : (run (run init as1) as2).st = .NC)
    (hpc : (run (step (run (run init as1) as2) .casConnected) as3).pc = .loaded (.disc g) cur) :
    Undisturbed (run (step (run (run init as1) as2) .casConnected) as3)
      (step (run (step (run (run init as1) as2) .casConnected) as3) .runCommit) := by
  have h2 := gen_mono_run as2 (run init as1)
  have h3 := (casConnected_gen _ hst hps hnc).1
  have h4 := gen_mono_run as3 (step (run (run init as1) as2) .casConnected)
  generalize run (step (run (run init as1) as2) .casConnected) as3 = c3 at *
  cases hs3 : c3.stopped
  · rw [stale_disconnect_ignored c3 g cur hs3 hpc (by omega)]; exact undisturbed_refl c3
  · simp only [step, hs3, if_true]; exact undisturbed_refl c3

/-- **A session that has reached Selected is never disconnected by a T7 armed before it was selected —
    every schedule.**  Take any reachable configuration `c1` and any T7 expiry of a dwell `d ≤ c1.dwell`
    (in particular the event `T7Expired` enqueues at `c1`).  Let anything happen (`as2`), let a Select
    commit succeed, let anything happen again (`as3`: the peer deselects, the link drops and reconnects,
    the run goroutine lags arbitrarily, commits land inside its load/store window, …).  Whenever the run
    goroutine then gets to a T7 event of dwell `d`, processing it changes nothing: no store, no
    reaction, no notification. -/
theorem t7_never_disconnects_later_dwell (as1 as2 as3 : List Act) (d : Nat) (cur : St)
    (hd : d ≤ (run init as1).dwell)
    (hst : (run (run init as1) as2).stopped = false)
    (hpr : (run (run init as1) as2).pendRecv = none) (hns : (run (run init as1) as2).st = .NS)
    (hpc : (run (step (run (run init as1) as2) .casSelected) as3).pc = .loaded (.t7 d) cur) :
    Undisturbed (run (step (run (run init as1) as2) .casSelected) as3)
      (step (run (step (run (run init as1) as2) .casSelected) as3) .runCommit) := by
  have h2 := dwell_mono_run as2 (run init as1)
  obtain ⟨hS, hdw⟩ := casSelected_ok _ hst hpr hns
  -- the invariant holds right after the Select commit, for the dwell it was committed in
  have hinv : DwellInv (run (run init as1) as2).dwell (step (run (run init as1) as2) .casSelected) :=
    ⟨by omega, fun _ => by rw [hS]; simp⟩
  have h3 := dwellInv_run _ as3 _ hinv
  generalize run (step (run (run init as1) as2) .casSelected) as3 = c3 at *
  generalize (run (run init as1) as2).dwell = d2 at *
  obtain ⟨hle, hne⟩ := h3
  cases hs3 : c3.stopped
  · by_cases hlt : d < c3.dwell
    · rw [stale_t7_ignored c3 d cur hs3 hpc hlt]; exact undisturbed_refl c3
    · -- same dwell as the Select commit: the state is Selected or NotConnected, T7 is a no-op / loses its CAS
      have hst3 : c3.st ≠ .NS := hne (by omega)
      have hstale : stale c3 (.t7 d) = false := by simp [stale]; omega
      simp only [step, hs3, Bool.false_eq_true, if_false, stepLive, hpc, hstale, commit]
      cases cur <;> cases h : c3.st <;> cases deselPending c3 <;>
        simp_all [outcome, transition, latch, Undisturbed]
  · simp only [step, hs3, if_true]; exact undisturbed_refl c3

/-- In particular `State()` is not moved (the literal reading of the clause). -/
theorem t7_never_disconnects_later_dwell_state (as1 as2 as3 : List Act) (d : Nat) (cur : St)
    (hd : d ≤ (run init as1).dwell)
    (hst : (run (run init as1) as2).stopped = false)
    (hpr : (run (run init as1) as2).pendRecv = none) (hns : (run (run init as1) as2).st = .NS)
    (hpc : (run (step (run (run init as1) as2) .casSelected) as3).pc = .loaded (.t7 d) cur) :
    (step (run (step (run (run init as1) as2) .casSelected) as3) .runCommit).st =
      (run (step (run (run init as1) as2) .casSelected) as3).st :=
  (t7_never_disconnects_later_dwell as1 as2 as3 d cur hd hst hpr hns hpc).1

/-! ### The former counterexample schedules, as regressions (replayed by the harness on the real supervisor) -/

def f7Schedule : List Act :=
  [.casConnected, .injStart, .casSelected, .injRecv,            -- generation N up and selected
   .runLoad, .runCommit, .runLoad, .runCommit,                  -- … and reacted to
   .inject .disc, .inject .disc,                                -- two causes report the same drop
   .runLoad, .runCommit,                                        -- first one processed: NotConnected
   .casConnected, .injStart, .casSelected, .injRecv,            -- generation N+1 commits up to Selected
   .runLoad, .runCommit]                                        -- stale second disconnect of N processed

/-- The second disconnect of generation N leaves generation N+1 Selected, with no notification. -/
theorem f7_schedule_repaired :
    (run init (f7Schedule.take 16)).st = .S ∧ (run init f7Schedule).st = .S ∧
    (run init f7Schedule).emitted = (run init (f7Schedule.take 16)).emitted ∧
    (run init f7Schedule).reactions = (run init (f7Schedule.take 16)).reactions := by decide

/-- … while the FIRST disconnect of a generation still takes it down (the behaviour is kept). -/
theorem f7_first_disconnect_applies :
    (run init (f7Schedule.take 10)).st = .S ∧ (run init (f7Schedule.take 12)).st = .NC ∧
    (run init (f7Schedule.take 12)).reactions = [(.NC, .S), (.S, .NC)] := by decide

def staleT7Schedule : List Act :=
  [.casConnected, .injStart, .runLoad, .runCommit,   -- NotSelected (T7 armed here)
   .inject .t7,                                       -- T7 fires at the same moment …
   .casSelected, .injRecv,                            -- … but the select wins
   .casSelectLost, .injRecv,                          -- later the peer deselects (T7 re-armed afresh)
   .runLoad, .runCommit]                              -- the stale T7 is processed in NotSelected

/-- The T7 expiry of the first dwell leaves the session in its second dwell. -/
theorem stale_t7_schedule_repaired :
    (run init (staleT7Schedule.take 7)).st = .S ∧ (run init staleT7Schedule).st = .NS ∧
    (run init staleT7Schedule).reactions = (run init (staleT7Schedule.take 9)).reactions := by decide

/-- … while a T7 expiry of the CURRENT dwell still disconnects: the first dwell's own expiry, and the
    second dwell's own expiry after the deselect. -/
theorem t7_current_dwell_applies :
    (run init [.casConnected, .injStart, .runLoad, .runCommit, .inject .t7, .runLoad, .runCommit]).st = .NC ∧
    (run init (staleT7Schedule ++ [.runLoad, .runCommit, .runLoad, .runCommit,
      .inject .t7, .runLoad, .runCommit])).st = .NC := by decide

/-! ## Non-vacuity -/
example : (run init [.casConnected, .injStart, .runLoad, .casSelected, .runCommit]).pc = .idle ∧
    (run init [.casConnected, .injStart, .runLoad, .casSelected, .runCommit]).st = .S := by decide
example : (run init [.casConnected, .injStart, .runLoad, .runCommit, .casSelected, .injRecv, .runLoad,
    .runCommit, .deliver, .deliver]).delivered = [(.NC, .NS), (.NS, .S)] := by decide
-- a pre-committed Select is still reported once, as a proper transition from the last reacted state
example : (run init [.casConnected, .injStart, .casSelected, .injRecv, .runLoad, .runCommit, .runLoad,
    .runCommit, .deliver]).delivered = [(.NC, .S)] := by decide

end GoSecs.Props.C05
