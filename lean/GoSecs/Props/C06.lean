/-
  C06 — every reply-expected send gets exactly its own reply or one definite error.

  Property theorems only; the model is GoSecs/Model/Router.lean (sender threads, per-generation reply
  registry, receive thread, epochs; `step : Cfg → Action → Cfg`, "every interleaving" = every finite
  action list), helper lemmas and invariants are in GoSecs/Lemmas/Router*.lean.
  `Reachable c` means `c = run init as` for some finite action list `as`.

  STATUS.  The defect DESIGN §7 F5 (a Select/Deselect/Linktest.rsp whose system bytes equal those of an open W-bit
  data transaction was routed to the data sender and `SendDataMessage` returned (nil, nil)) is repaired in the repo
  ("fix: a control response reusing a data transaction's System Bytes no longer completes it with (nil, nil)"):
  registry entries carry the waiter's kind and `route` treats a kind mismatch as a miss.  The model follows
  (`Frame.matches` in `dispatch`), `outcome_exhaustive` is proved at full strength, and so is the mirror statement
  `control_transaction_never_completed_by_data`.  The old counterexample trace is kept as `f5_regression`.
-/
import GoSecs.Lemmas.RouterOwn
import GoSecs.Lemmas.HsmsGen
import GoSecs.Gen.Facts

namespace GoSecs.Props.C06
open GoSecs GoSecs.Router

/-! ## Tie to the source (regenerated on every run) -/

/-- `replies.register` and `replies.deregister` are called in `sendWaitReply` and nowhere else. -/
theorem register_sites_gen :
    (Gen.callSites.filter (fun s => s.2.2.2 == "replies.register")).map (fun s => (s.1, s.2.2.1)) =
      [("hsms", "connection.sendWaitReply")] ∧
    (Gen.callSites.filter (fun s => s.2.2.2 == "replies.deregister")).map (fun s => (s.1, s.2.2.1)) =
      [("hsms", "connection.sendWaitReply")] := by
  decide

/-- `isSecondaryReply` (regenerated from hsms/connection_runtime.go, with the `WaitBit()` / `Function()` accessors
    it calls): W-bit clear and even function, read from header bytes 2 and 3 — the discriminator the model's
    `dispatch` uses to offer a frame to the reply registry, for every data message. -/
theorem isSecondaryReply_gen (m : Hsms.DataMsg) :
    Gen.hsms_isSecondaryReply m.toGen = isSecondaryReply m.hdr.wbit m.hdr.function.toNat :=
  Hsms.isSecondaryReply_gen m

/-- `kindOf` (regenerated from hsms/reply_registry.go): the first optional kind, `replyAny` when omitted; it
    never indexes an empty slice. -/
theorem kindOf_gen (ks : Bytes) :
    Gen.hsms_kindOf ks = some (match ks with | [] => 0 | k :: _ => (k.toNat : Int)) :=
  Hsms.kindOf_gen ks

/-- The correlation key: `ID()` of a data / control message is `FromSystemBytes` of header bytes 6..9. -/
theorem correlationKey_gen (m : Hsms.DataMsg) (c : Hsms.ControlMsg) :
    Gen.hsms_DataMessage_ID m.toGen = (Hsms.idOfSys m.hdr.sys : Int) ∧
    Gen.hsms_ControlMessage_ID c.toGen = (Hsms.idOfSys c.hdr.sys : Int) :=
  ⟨Hsms.dataID_gen m, Hsms.controlID_gen c⟩

/-! ## The property -/

/-- **A returned reply is the caller's own secondary**: same system bytes, W-bit clear, even function —
    never another transaction's reply, never a peer primary reusing the system bytes. -/
theorem reply_is_own_secondary (c : Cfg) (hr : Reachable c) (i fid sb fn : Nat) (w : Bool)
    (h : (c.s i).out = some (.reply fid sb fn w)) :
    sb = (c.s i).sb ∧ w = false ∧ fn % 2 = 0 := by
  have := ((inv_reachable hr).chan i).out _ h
  simp only [OutFor, isSecondaryReply, Bool.and_eq_true, Bool.not_eq_true', beq_iff_eq] at this
  exact ⟨this.1, this.2.1.1, this.2.1.2⟩

/-- the documented results of a synchronous reply-expected data send -/
def Documented (w : Sender) : Outcome → Prop
  | .reply _ sb fn wb => sb = w.sb ∧ isSecondaryReply wb fn = true
  | .reject _ | .timeout | .closed | .ctx | .notOpen | .notSelected | .writeErr => True
  | _ => False

/-- **Outcome is one of the documented ones**: a W-bit data send returns its own secondary, a RejectError, the T3
    error, connection-closed, the caller's ctx error (or a refusal / write error before the wire) — never a control
    message, never "sent without reply", never (nil, nil). -/
theorem outcome_exhaustive (c : Cfg) (hr : Reachable c) (i : Nat) (o : Outcome) (hk : (c.s i).kind = .sync)
    (h : (c.s i).out = some o) : Documented (c.s i) o := by
  have := ((inv_reachable hr).chan i).out _ h
  cases o <;> simp_all [OutFor, Documented]

/-- **Mirror**: a control transaction (Select / Deselect / Linktest procedure) is never completed by a data message:
    what it gets back from the peer is a control response with its own system bytes, or a RejectError. -/
theorem control_transaction_never_completed_by_data (c : Cfg) (hr : Reachable c) (i : Nat) (o : Outcome)
    (hk : (c.s i).kind = .ctrl) (h : (c.s i).out = some o) :
    (∀ fid sb fn w, o ≠ .reply fid sb fn w) ∧ (∀ fid, o ≠ .nilnil fid) ∧
      (∀ fid sb st, o = .ctrlReply fid sb st → sb = (c.s i).sb) := by
  have := ((inv_reachable hr).chan i).out _ h
  cases o <;> simp_all [OutFor]

/-- routing form of both: a frame only ever hits (fills, or is discarded as a duplicate of) a waiter of its own kind -/
theorem hit_only_matching_kind (c : Cfg) (f : Frame) (i : Nat) (h : (dispatch c f).1.hit = some i) :
    f.matches (c.s i).kind = true := by
  obtain ⟨_, _, _, _, hm⟩ := dispatch_hit c f i h
  exact hm

/-- a control response that collides with an open data transaction is an orphan control response
    (answered with Reject(TransactionNotOpen)); the data sender's channel is left alone -/
theorem colliding_control_response_is_orphan (c : Cfg) (fid sb st i : Nat) (hl : lookup c sb = some i)
    (hk : (c.s i).kind.isData = true) :
    dispatch c (.ctrlRsp fid sb st) = (.orphanCtrl, none) := by
  simp [dispatch, Frame.isData, Frame.offer, hl, Frame.matches, hk, missRecipient]

/-- The former F5 history, continued by the real reply: one W-bit sender on a Selected link; the peer first sends a
    Linktest.rsp (SType 6) carrying the sender's system bytes (1), then the secondary. -/
def f5Trace : List Action :=
  [.publish, .connUp, .setSelected true, .begin 0 .sync, .pin 0, .gate 0, .register 0, .wcheck 0, .write 0 true,
   .incInflight 0, .recv 0 (.ctrlRsp 0 1 6), .recv 0 (.data 1 1 2 false), .decide 0 .recv, .decInflight 0, .deregister 0]

/-- **Regression** for F5: the control response is an orphan, the call returns its own secondary. -/
theorem f5_regression :
    ((run init f5Trace).s 0).pc = .done ∧ ((run init f5Trace).s 0).out = some (.reply 1 1 2 false) ∧
    ((run init f5Trace).deliv.map (·.to)) = [.sender 0, .orphanCtrl] ∧
    Documented ((run init f5Trace).s 0) (.reply 1 1 2 false) := by
  refine ⟨by decide, by decide, by decide, by simp [Documented, isSecondaryReply]; decide⟩

/-- **No peer primary is ever offered to the registry**: a data frame that hits a waiting sender (or is
    discarded as its duplicate) is a secondary — W-bit clear, even function. -/
theorem never_peer_primary (c : Cfg) (fid sb fn : Nat) (w : Bool) (i : Nat)
    (h : (dispatch c (.data fid sb fn w)).1.hit = some i) : w = false ∧ fn % 2 = 0 := by
  obtain ⟨sb', r, hoff, _, _⟩ := dispatch_hit c _ i h
  simp only [Frame.offer] at hoff
  split at hoff
  · rename_i hs
    simpa [isSecondaryReply] using hs
  · simp at hoff

/-- a primary received while Selected goes to the handlers (all `c.handlers` of them, once, on the receive
    goroutine) unless the generation is already torn down -/
theorem primary_goes_to_handlers (c : Cfg) (fid sb fn : Nat) (w : Bool) (hsel : c.selected = true)
    (hp : isSecondaryReply w fn = false) :
    (dispatch c (.data fid sb fn w)).1 = fanout c ∧ (dispatch c (.data fid sb fn w)).2 = none := by
  simp [dispatch, Frame.isData, hsel, Frame.offer, hp, missRecipient]

/-- **Single recipient.** Receiving one frame appends exactly one delivery record (so the log is in arrival
    order), and rewrites at most the one sender record whose channel it filled. -/
theorem single_recipient (c : Cfg) (e : Nat) (f : Frame) :
    (apply c (.recv e f)).deliv = ⟨e, c.cur, f, (dispatch c f).1⟩ :: c.deliv ∧
    (∀ j, (apply c (.recv e f)).s j = c.s j ∨
      ((dispatch c f).1 = .sender j ∨ (dispatch c f).1 = .lateDrop j) ∧
        ∃ r, (apply c (.recv e f)).s j = { c.s j with chan := some r }) := by
  refine ⟨by rw [apply_deliv], ?_⟩
  intro j
  rw [apply_s]
  cases hd : (dispatch c f).2 with
  | none => simp [touched, hd]
  | some p =>
    obtain ⟨i, r⟩ := p
    simp only [touched, hd, upd_apply]
    by_cases hj : j = i
    · subst hj
      right
      refine ⟨?_, r, by simp⟩
      -- the channel is only filled on a registry hit with an empty channel
      unfold dispatch at hd ⊢
      repeat' split at hd
      all_goals simp_all [hitRecipient]
      all_goals (
        have hns : ¬ (f.isData = true ∧ c.selected = false) := by
          intro hh; simp_all
        simp only [hns, if_false]
        by_cases hx : (c.s j).pc = .decided ∨ (c.s j).pc = .unwinding <;> simp [hx])
    · left; simp [hj]

/-- the recipient of a data frame received while Selected: a registry hit for a secondary on a DATA waiter (one
    waiting sender, or a discarded duplicate / late reply of that transaction), else every handler -/
theorem recipient_cases (c : Cfg) (fid sb fn : Nat) (w : Bool) (hsel : c.selected = true) :
    (dispatch c (.data fid sb fn w)).1 =
      if isSecondaryReply w fn then
        (match lookup c sb with
         | some i => if (c.s i).kind.isData then hitRecipient (c.s i) i else fanout c
         | none => fanout c)
      else fanout c := by
  simp only [dispatch, Frame.isData, hsel, Frame.offer, missRecipient, Frame.matches]
  by_cases hs : isSecondaryReply w fn = true
  · simp only [hs, if_true]
    cases lookup c sb with
    | none => simp
    | some i => by_cases hk : (c.s i).kind.isData = true <;> simp [hk]
  · simp [hs]

/-- nothing but the receive thread delivers -/
theorem deliv_only_recv (c : Cfg) (a : Action) (h : ∀ e f, a ≠ .recv e f) : (step c a).deliv = c.deliv := by
  unfold step
  split
  · rw [apply_deliv]
    cases a <;> first | rfl | exact absurd rfl (h _ _)
  · rfl

/-- **System bytes are unique among concurrently open transactions**, provided no open transaction is
    2^32 or more draws old (the generator's wrap distance — the stated hypothesis). -/
theorem sysbytes_unique_among_open (c : Cfg) (hr : Reachable c) (hnw : NoWrap c) (i j : Nat) (hij : i ≠ j)
    (hi : (c.s i).isOpen) (hj : (c.s j).isOpen) : (c.s i).sb ≠ (c.s j).sb :=
  sb_unique c (inv_reachable hr) hnw i j hij hi hj

/-- **Register before write** (structure): the write is only enabled after the write check, which a
    correlating sender only reaches from `registered`. -/
theorem register_before_write_order (c : Cfg) (i : Nat) (ok : Bool) :
    (enabled c (.write i ok) = true → (c.s i).pc = .checked) ∧
    (enabled c (.wcheck i) = true → (c.s i).kind.correlates = true → (c.s i).pc = .registered) := by
  constructor
  · intro h; simpa [enabled] using h
  · intro h hk
    simp only [enabled, Bool.or_eq_true, Bool.and_eq_true, decide_eq_true_eq] at h
    rcases h with h | h
    · exact h.1
    · simp [h.2, Kind.correlates] at hk

/-- **Register before write** (state): along every interleaving that respects the wrap hypothesis, whenever a
    correlating sender is about to write (or has written and is still waiting), the registry of its pinned
    epoch maps its system bytes to its own channel. -/
theorem register_before_write (as : List Action) (hal : Along NoWrap init as) (i : Nat)
    (hk : ((run init as).s i).kind.correlates = true) (ho : ((run init as).s i).pc.open = true) :
    (run init as).reg ((run init as).s i).ep ((run init as).s i).sb = some i :=
  (owned_run as init inv_init owned_init hal).1 i hk ho

/-- **Deregister on every exit**: once a call has returned, no registry entry of any epoch points at it. -/
theorem deregister_on_every_exit (c : Cfg) (hr : Reachable c) (i : Nat) (h : (c.s i).pc = .done) :
    ∀ e sb, c.reg e sb ≠ some i := by
  intro e sb hreg
  have := ((inv_reachable hr).reg e sb i hreg).2.2.1
  simp [h, Pc.open] at this

/-- at quiescence (every sender returned or never started) every registry is empty -/
theorem registry_empty_at_quiescence (c : Cfg) (hr : Reachable c)
    (hq : ∀ i, (c.s i).pc = .new ∨ (c.s i).pc = .done) : ∀ e sb, c.reg e sb = none := by
  intro e sb
  cases hreg : c.reg e sb with
  | none => rfl
  | some i =>
    have := ((inv_reachable hr).reg e sb i hreg).2.2.1
    rcases hq i with h | h <;> simp [h, Pc.open] at this

/-! ## Non-vacuity: a reachable configuration with two open transactions, one already answered -/
def sampleTrace : List Action :=
  [.publish, .connUp, .setSelected true, .addHandler, .begin 0 .sync, .begin 1 .sync, .pin 0, .pin 1, .gate 0, .gate 1,
   .register 1, .register 0, .wcheck 1, .write 1 true, .wcheck 0, .write 0 true, .incInflight 0, .incInflight 1,
   .recv 0 (.data 0 2 1 false), .recv 0 (.data 1 2 2 false), .decide 1 .recv]

example : Reachable (run init sampleTrace) ∧ NoWrap (run init sampleTrace) ∧
    ((run init sampleTrace).s 0).isOpen ∧ ((run init sampleTrace).s 1).isOpen ∧
    ((run init sampleTrace).s 1).out = some (.reply 1 2 2 false) := by
  refine ⟨⟨_, rfl⟩, ?_, ⟨by decide, by decide⟩, ⟨by decide, by decide⟩, by decide⟩
  intro i _
  have : (run init sampleTrace).gen = 2 := by decide
  rw [this]; unfold wrap; omega

end GoSecs.Props.C06
