/-
  C14 — the SML parser is total on any text, resource-bounded, with accurate error positions.

  Property theorems only; helper lemmas live in GoSecs/Lemmas/Sml.lean.

  Totality is definitional: `parseAll`, `parseOne` (Model/Sml.lean) are total functions
  `Oracle → Bool → Bytes → Out`, structurally recursive on a fuel that is fixed from the input length,
  so the model has an answer for every byte string in both modes; `no_panic` and `depth_bound` show
  that the answer is always an ordinary one reached with bounded recursion.
-/
import GoSecs.Lemmas.SmlInv
import GoSecs.Lemmas.SmlCost
import GoSecs.Lemmas.SmlGen
import GoSecs.Gen.Facts
import GoSecs.Gen.Consts

namespace GoSecs.Props.C14
open GoSecs GoSecs.Secs2 GoSecs.Sml

/-! ## Tie to the source: functions regenerated from sml/errors.go and sml/parser.go

  `Gen.sml_*` are re-translated from the working tree by tools/go2lean on every run (proofs of the ties in
  GoSecs/Lemmas/SmlGen.lean); `= some …` also says the Go function cannot index out of range. -/

/-- `newParseError`: the offset clamp and the line / column loop over `input[0:offset)` give the model's position,
    for every input and every non-negative offset. -/
theorem newParseError_gen (input : Bytes) (offset : Nat) (msg : Bytes) :
    Gen.sml_newParseError input (offset : Int) msg =
      some { Offset := ((newParseError input offset).offset : Int), Line := ((newParseError input offset).line : Int),
             Col := ((newParseError input offset).col : Int), Msg := msg } :=
  Sml.newParseError_gen input offset msg

/-- `checkASCIICloseQuote(idx, q)`: the bound check, the quote comparison and the white-space scan up to `>` —
    the model's `checkClose`, for every parser window, index and quote byte. -/
theorem checkASCIICloseQuote_gen (p : Gen.sml_Parser) (idx : Nat) (q : UInt8) :
    Gen.sml_Parser_checkASCIICloseQuote p (idx : Int) (q.toNat : Int) =
      some (closeRes (checkClose q idx (p.data.drop idx))) :=
  Sml.checkASCIICloseQuote_gen p idx q

/-- `toUpperRune` on a byte is the model's `upperB`; `getIntFormatCode` is the 'I' / 'U' × width table. -/
theorem scannerHelpers_gen (c s d : UInt8) :
    Gen.sml_toUpperRune (c.toNat : Int) = ((upperB c).toNat : Int) ∧
    Gen.sml_getIntFormatCode (s.toNat : Int) (d.toNat : Int) = intFormatCode s d :=
  ⟨toUpperRune_gen c, getIntFormatCode_gen s d⟩

/-! ## Error positions (`newParseError`) -/

/-- **Offset in range.** Whatever raw offset the parser hands to `newParseError`, the reported
    `Offset` lies in `[0, len(input)]`. -/
theorem error_offset_in_range (input : Bytes) (off : Nat) :
    (newParseError input off).offset ≤ input.length := by
  simp only [newParseError]; split <;> omega

/-- The reported offset is the raw one whenever that is inside the input (no silent shift). -/
theorem error_offset_exact (input : Bytes) (off : Nat) (h : off ≤ input.length) :
    (newParseError input off).offset = off := by
  simp only [newParseError]; split <;> omega

/-- **Line / column consistent with the offset.** Split the input before the reported offset into
    the complete lines `pre` (empty, or ending in a newline) and the current partial line `post`
    (no newline): then `Line = 1 + number of newlines before the offset` and `Col = |post| + 1`,
    i.e. `Col = Offset − (index just after the last newline) + 1`. -/
theorem line_col_consistent (input : Bytes) (off : Nat) :
    ∃ pre post, input.take (newParseError input off).offset = pre ++ post ∧ cNL ∉ post ∧
      (pre = [] ∨ pre.getLast? = some cNL) ∧
      (newParseError input off).line = 1 + (input.take (newParseError input off).offset).count cNL ∧
      (newParseError input off).col = post.length + 1 := by
  have hp : ∀ k, newParseError input off = ⟨k, (lineCol k 1 1 input).1, (lineCol k 1 1 input).2⟩ →
      ∃ pre post, input.take k = pre ++ post ∧ cNL ∉ post ∧ (pre = [] ∨ pre.getLast? = some cNL) ∧
        (lineCol k 1 1 input).1 = 1 + (input.take k).count cNL ∧ (lineCol k 1 1 input).2 = post.length + 1 := by
    intro k _
    obtain ⟨pre, post, e, hp, h⟩ := lineCol_spec input k 1 1
    have hcount : (input.take k).count cNL = pre.count cNL := by
      rw [e, List.count_append]
      have : post.count cNL = 0 := List.count_eq_zero.mpr hp
      omega
    refine ⟨pre, post, e, hp, ?_, ?_, ?_⟩
    · rcases h with ⟨h1, _, _⟩ | ⟨h1, _, _⟩
      · exact Or.inl h1
      · exact Or.inr h1
    · rcases h with ⟨h1, h2, _⟩ | ⟨_, h2, _⟩
      · subst h1; rw [h2, hcount]; simp
      · rw [h2, hcount]
    · rcases h with ⟨_, _, h3⟩ | ⟨_, _, h3⟩
      · rw [h3]; omega
      · rw [h3]
  exact hp _ rfl

/-- Line and column are 1-based. -/
theorem line_col_positive (input : Bytes) (off : Nat) :
    1 ≤ (newParseError input off).line ∧ 1 ≤ (newParseError input off).col := by
  obtain ⟨pre, post, _, _, _, hl, hc⟩ := line_col_consistent input off
  omega

/-! ## No shared mutable state -/

/-- Tie to the source (regenerated on every run): package `sml` has no package-level variable that
    any function body assigns to (the only one is the sentinel error `ErrNoMessage`). -/
theorem sml_has_no_written_package_state : ∀ v ∈ Gen.sml_packageVars, v.2 = false := by decide

/-- …and the only package-level variable at all is that immutable sentinel: no pool, cache or scratch
    buffer exists at package level that distinct parser / encoder instances could share without ever
    assigning to it (a `sync.Pool` is mutated through its methods, not by assignment). -/
theorem sml_package_variables_exact : Gen.sml_packageVars = [("ErrNoMessage", false)] := by decide

/-- **Per-instance state.** The result of a parse is a function of (oracle, mode, input) alone:
    `initInput` resets the whole scan window, so nothing survives from an earlier parse on the same
    `Parser`, and two instances cannot influence each other. -/
theorem parser_state_is_per_instance (O : Oracle) (strict : Bool) (input : Bytes) (earlier : St) :
    parseAll O strict input =
      (match parseLoop O strict (input.length + 1) [] (initSt input) with
       | .error e => failOut input e
       | .ok (ms, st) => ⟨.ok ms, st.alloc, st.maxDepth⟩) ∧
    (initSt input).pos = 0 ∧ (initSt input).data = input ∧ (initSt input).len = input.length := by
  let _ := earlier
  exact ⟨rfl, rfl, rfl, rfl⟩

/-! ## Resource bounds and panics

  History: before the repairs (`fix: SML parser no longer allocates from the size hints …`,
  `fix: SML parser limits list nesting to secs2.MaxListDepth`, `fix: non-strict ASCII close-quote scan
  stays inside the unread input`) all three statements below were false and this file proved the
  negations: `counterexample_hint_alloc` (the 21 bytes `S1F1\n<L[2000000000]>.` pre-allocated 32 GB),
  `depth_unbounded` (for every n, n+1 nested lists were accepted with recursion depth n+1),
  `counterexample_panic` (`S1F1\n<A "abc"   ` panicked in non-strict mode; only `no_panic_strict`
  held).  Model and theorems follow the repaired code; the harness keeps the three oracles
  (`size-hint-preallocation`, `deep-nesting-stack-overflow`, `parse-panic-index-out-of-range`) and the
  child-process probes as regression guards. -/

/-- **Bounded recursion (`depth_bound`).** In both modes, for every input and every entry point, the
    parser never has more than `MaxListDepth + 1` nested `parseItem` activations (64 lists and a leaf):
    the stack it needs is bounded by a constant, whatever the text says. -/
theorem depth_bound (O : Oracle) (strict : Bool) (input : Bytes) :
    (parseAll O strict input).maxDepth ≤ maxListDepth + 1 ∧
    (∀ headerOnly, (parseOne O strict headerOnly input).maxDepth ≤ maxListDepth + 1) :=
  ⟨parseAll_depth_bound O strict input, fun h => parseOne_depth_bound O strict h input⟩

/-- The limit is the binary codec's: regenerated constant `secs2.MaxListDepth`. -/
theorem depth_limit_is_MaxListDepth : (maxListDepth : Int) = Gen.secs2_MaxListDepth := by decide

/-- **No panic (`no_panic`)**, in strict and non-strict mode: for every input and every entry point
    (`Parse`, `ParseMessage`, `ParseHeader`) the result is messages, "no message", a syntax error or a
    validation error — never a run-time panic.  (Invariant carried through every parser function.) -/
theorem no_panic (O : Oracle) (strict : Bool) (input : Bytes) :
    (∀ a d, parseAll O strict input ≠ ⟨.panic, a, d⟩) ∧
    (∀ headerOnly a d, parseOne O strict headerOnly input ≠ ⟨.panic, a, d⟩) :=
  parse_no_panic O strict input

/-- **Size hints cannot make the parser reserve memory (`hint_alloc_bound`).** In both modes, for
    every input and every entry point, the SUM of everything the parser pre-allocates (list child slots,
    `strings.Builder.Grow` for strict ASCII, element slices of numeric / boolean / binary items) is at most
    `1024·|t| + 1024` bytes: linear in the input, whatever the size hints say.  Proved by induction over
    the parse with the potential `alloc + 1024·(bytes left)`, which no parser function increases (each
    reservation is paid for by the bytes the function consumes). -/
theorem hint_alloc_bound (O : Oracle) (strict : Bool) (input : Bytes) :
    (parseAll O strict input).alloc ≤ 1024 * input.length + 1024 ∧
    (∀ headerOnly, (parseOne O strict headerOnly input).alloc ≤ 1024 * input.length + 1024) :=
  ⟨parseAll_alloc_bound O strict input, fun h => parseOne_alloc_bound O strict h input⟩

/-- The per-allocation bounds the summation rests on: a list reserves at most
    `min(64, remaining/3)` slots and a strict ASCII value at most the remaining bytes — independent of
    the hint. -/
theorem hint_alloc_local (size : Nat) (data : Bytes) :
    (listPrealloc size data ≤ maxListPrealloc ∧ 3 * listPrealloc size data ≤ data.length) ∧
    asciiPrealloc size data ≤ data.length :=
  ⟨⟨(listPrealloc_le size data).1, (listPrealloc_le size data).2.1⟩, (asciiPrealloc_le size data).1⟩

/-- **Error offsets are never clamped (`error_offset_unclamped`).** Every syntax error the parser
    reports carries the raw offset it computed, and that offset lies within `[0, len(input)]`: the
    parser's scan window never leaves the input (invariant `pos + len(data) = len(input)` through every
    parser function, including the `backward(1)` after a look-ahead at the end of the input), so the
    clamp in `newParseError` is dead code and `Offset`, `Line`, `Col` describe the true position. -/
theorem error_offset_unclamped (O : Oracle) (strict : Bool) (input : Bytes) (p : Pos) (a d : Nat)
    (h : parseAll O strict input = ⟨.syntax p, a, d⟩) :
    ∃ off, off ≤ input.length ∧ p = newParseError input off ∧ p.offset = off :=
  parseAll_offset_in_input O strict input p a d h

/-- **`fuel_suffices`.** The model recurses on a fuel, so totality is definitional; this theorem
    shows the fuel is never what decides the result.  `parseItem` on `n` remaining bytes needs at most
    `2n+1` units and `parseList` at most `2n+2` — with any two fuels above that they return the same
    item / error / counters; the body parser is started with exactly `2·(bytes left)+1`, and the message
    loop of `Parse` with `len(input)+1` steps, which any larger number reproduces. -/
theorem fuel_suffices (O : Oracle) (strict : Bool) :
    (∀ (st : St) (depth f : Nat), 2 * st.data.length + 1 ≤ f →
      parseItem O strict f depth st = parseItem O strict (2 * st.data.length + 1) depth st) ∧
    (∀ (st : St) (depth : Nat) (acc : List Item) (f1 f2 : Nat), 2 * st.data.length + 2 ≤ f1 → 2 * st.data.length + 2 ≤ f2 →
      parseList O strict f1 depth acc st = parseList O strict f2 depth acc st) ∧
    (∀ (input : Bytes) (f : Nat), input.length + 1 ≤ f →
      parseLoop O strict f [] (initSt input) = parseLoop O strict (input.length + 1) [] (initSt input)) :=
  ⟨fun st depth f h => fuel_suffices_body O strict st depth f h,
   fun st depth acc f1 f2 h1 h2 => (fuel_indep O strict st.data.length).2 st depth acc f1 f2 (Nat.le_refl _) h1 h2,
   fun input f h => parseLoop_fuel_suffices O strict input f h⟩

/-! ## Time

  The cost semantics is in Model/SmlCost.lean (what a step is, which scans are counted — every byte a
  scan examines, every time it is examined, plus every byte `numStr += string(ch)` copies, plus one per
  method activation); the model itself is untouched. -/

/-- **The instrumented parser computes what the model computes (`erase`).** `parseAllC` / `parseOneC`
    return `(result, steps)`; the result component is the model function, so every theorem above
    (`no_panic`, `depth_bound`, `hint_alloc_bound`, `error_offset_unclamped`, …) is a theorem about the
    instrumented run whose steps are counted. -/
theorem steps_erase (O : Oracle) (strict : Bool) (input : Bytes) :
    (parseAllC O strict input).1 = parseAll O strict input ∧
    (∀ headerOnly, (parseOneC O strict headerOnly input).1 = parseOne O strict headerOnly input) :=
  ⟨rfl, fun _ => rfl⟩

/-- **Quadratic time (`steps_quadratic_bound`).** In both modes, for every input `t` and every oracle:
    `Parse` takes at most `19·|t|² + 158·|t| + 66` steps and `ParseMessage` / `ParseHeader` at most
    `10·|t|² + 88·|t| + 65`, error reporting (the line/column scan of `newParseError`) included.  No
    input makes the parser loop or take more than quadratic time.

    Proof (Lemmas/SmlCost.lean), in the style of `hint_alloc_bound`: every scan examines at most the
    unread input, so every non-recursive parser function costs at most `k·(bytes left) + k0` steps; the
    two loops that are not of that shape cost at most `(bytes consumed)·(4·(bytes consumed) + 1)`
    (`numStr += …` in strict ASCII) and `(bytes consumed)·((bytes left) + 1)` (`checkASCIICloseQuote` per
    byte in non-strict ASCII).  With `pot L = 10·L² + 70·L`, `steps + pot(bytes left)` never increases
    across a `parseItem` activation — it consumes at least its `<`, and `pot L − pot (L−1) ≥ 20·L + 60`
    pays for all of its own scans — nor across a list loop; a message costs at most `pot` of what it
    consumes plus `17·L + 57`, and every returned message consumed a byte, which pays for that with the
    second potential `9·L² + 70·L`.

    The order is exact for `Parse` and for strict mode, not an artefact of the proof: `k` body-less
    messages `S1F1.\n` cost ≈ 3·k² steps (`IndexByte('<')` runs over the whole unread input for each),
    and one numeric token of `k` bytes in a strict ASCII item costs ≈ k²/2 (each `numStr +=` copies the
    token); the harness checks both on the model's step counts (driver command `sml.steps`) and on the
    implementation (time and bytes allocated over doubling sizes). -/
theorem steps_quadratic_bound (O : Oracle) (strict : Bool) (input : Bytes) :
    (parseAllC O strict input).2 ≤ 19 * input.length ^ 2 + 158 * input.length + 66 ∧
    (∀ headerOnly, (parseOneC O strict headerOnly input).2 ≤ 10 * input.length ^ 2 + 88 * input.length + 65) := by
  simp only [Nat.pow_two]
  exact ⟨parseAllSteps_le O strict input, fun h => parseOneSteps_le O strict h input⟩

/-- The accounting the bound rests on (the analogue of `hint_alloc_local`).  (1) A scan for the first
    byte with some property is counted in full: exactly `|data|` steps when no byte has it, never more.
    (2) A successful `parseItem` activation on `L` unread bytes that leaves `L'` takes at most
    `pot L − pot L' − (L + 5)` steps, children included, and consumes at least one byte; a failing one
    at most `pot L + 6`.  (3) A message on `L` unread bytes takes at most `pot L − pot L' + 17·L + 57`
    steps (`+ 63` if it fails). -/
theorem steps_accounting (O : Oracle) (strict : Bool) :
    (∀ (p : UInt8 → Bool) (data : Bytes), idxExam p data ≤ data.length ∧
      ((∀ c ∈ data, p c = false) → idxExam p data = data.length)) ∧
    (∀ (fuel depth : Nat) (st : St),
      (∀ it st', parseItem O strict fuel depth st = .ok (it, st') →
        st'.data.length + 1 ≤ st.data.length ∧
        parseItemCost O strict fuel depth st + pot st'.data.length + (st.data.length + 5) ≤ pot st.data.length) ∧
      (∀ e, parseItem O strict fuel depth st = .error e →
        parseItemCost O strict fuel depth st ≤ pot st.data.length + 6)) ∧
    (∀ (headerOnly : Bool) (st : St),
      (∀ v st', parseMsg O strict headerOnly st = .ok (v, st') →
        parseMsgCost O strict headerOnly st + pot st'.data.length ≤ pot st.data.length + 17 * st.data.length + 57) ∧
      (∀ e, parseMsg O strict headerOnly st = .error e →
        parseMsgCost O strict headerOnly st ≤ pot st.data.length + 17 * st.data.length + 63)) :=
  ⟨fun p data => ⟨idxExam_le p data, idxExam_all p data⟩,
   fun fuel depth st =>
    ⟨fun it st' h => ⟨(parseItem_ok' h).2.2.1, (parseItem_cost O strict fuel depth st).1 it st' h⟩,
     (parseItem_cost O strict fuel depth st).2⟩,
   fun headerOnly st => parseMsg_cost O strict headerOnly st⟩

/-- The potential is the stated polynomial. -/
theorem steps_potential (L : Nat) : pot L = 10 * L ^ 2 + 70 * L := by
  simp only [pot, Nat.pow_two]

end GoSecs.Props.C14
