/-
  C14 — the SML parser is total on any text, resource-bounded, with accurate error positions.

  Property theorems only; helper lemmas live in GoSecs/Lemmas/Sml.lean.

  Totality is definitional: `parseAll`, `parseOne` (Model/Sml.lean) are total functions
  `Oracle → Bool → Bytes → Out`, structurally recursive on a fuel that is fixed from the input length,
  so the model has an answer for every byte string in both modes; `no_panic` and `depth_bound` show
  that the answer is always an ordinary one reached with bounded recursion.
-/
import GoSecs.Lemmas.SmlInv
import GoSecs.Gen.Facts
import GoSecs.Gen.Consts

namespace GoSecs.Props.C14
open GoSecs GoSecs.Secs2 GoSecs.Sml

/-! ## Error positions (`newParseError`) -/

/-- **Offset in range.** Whatever raw offset the parser hands to `newParseError`, the reported
    `Offset` lies in `[0, len(input)]`. -/
theorem error_offset_in_range (input : Bytes) (off : Nat) :
    (newParseError input off).offset ≤ input.length := by
  simp only [newParseError]; split <;> omega

/-- The reported offset is the raw one whenever that is inside the input (no silent shift). -/
theorem error_offset_exact (input : Bytes) (off : Nat) (h : off ≤ input.length) :
    (newParseError input off).offset = off := by
  simp only [newParseError]; split <;> omega

/-- **Line / column consistent with the offset.** Split the input before the reported offset into
    the complete lines `pre` (empty, or ending in a newline) and the current partial line `post`
    (no newline): then `Line = 1 + number of newlines before the offset` and `Col = |post| + 1`,
    i.e. `Col = Offset − (index just after the last newline) + 1`. -/
theorem line_col_consistent (input : Bytes) (off : Nat) :
    ∃ pre post, input.take (newParseError input off).offset = pre ++ post ∧ cNL ∉ post ∧
      (pre = [] ∨ pre.getLast? = some cNL) ∧
      (newParseError input off).line = 1 + (input.take (newParseError input off).offset).count cNL ∧
      (newParseError input off).col = post.length + 1 := by
  have hp : ∀ k, newParseError input off = ⟨k, (lineCol k 1 1 input).1, (lineCol k 1 1 input).2⟩ →
      ∃ pre post, input.take k = pre ++ post ∧ cNL ∉ post ∧ (pre = [] ∨ pre.getLast? = some cNL) ∧
        (lineCol k 1 1 input).1 = 1 + (input.take k).count cNL ∧ (lineCol k 1 1 input).2 = post.length + 1 := by
    intro k _
    obtain ⟨pre, post, e, hp, h⟩ := lineCol_spec input k 1 1
    have hcount : (input.take k).count cNL = pre.count cNL := by
      rw [e, List.count_append]
      have : post.count cNL = 0 := List.count_eq_zero.mpr hp
      omega
    refine ⟨pre, post, e, hp, ?_, ?_, ?_⟩
    · rcases h with ⟨h1, _, _⟩ | ⟨h1, _, _⟩
      · exact Or.inl h1
      · exact Or.inr h1
    · rcases h with ⟨h1, h2, _⟩ | ⟨_, h2, _⟩
      · subst h1; rw [h2, hcount]; simp
      · rw [h2, hcount]
    · rcases h with ⟨_, _, h3⟩ | ⟨_, _, h3⟩
      · rw [h3]; omega
      · rw [h3]
  exact hp _ rfl

/-- Line and column are 1-based. -/
theorem line_col_positive (input : Bytes) (off : Nat) :
    1 ≤ (newParseError input off).line ∧ 1 ≤ (newParseError input off).col := by
  obtain ⟨pre, post, _, _, _, hl, hc⟩ := line_col_consistent input off
  omega

/-! ## No shared mutable state -/

/-- Tie to the source (regenerated on every run): package `sml` has no package-level variable that
    any function body assigns to (the only one is the sentinel error `ErrNoMessage`). -/
theorem sml_has_no_written_package_state : ∀ v ∈ Gen.sml_packageVars, v.2 = false := by decide

/-- …and the only package-level variable at all is that immutable sentinel: no pool, cache or scratch
    buffer exists at package level that distinct parser / encoder instances could share without ever
    assigning to it (a `sync.Pool` is mutated through its methods, not by assignment). -/
theorem sml_package_variables_exact : Gen.sml_packageVars = [("ErrNoMessage", false)] := by decide

/-- **Per-instance state.** The result of a parse is a function of (oracle, mode, input) alone:
    `initInput` resets the whole scan window, so nothing survives from an earlier parse on the same
    `Parser`, and two instances cannot influence each other. -/
theorem parser_state_is_per_instance (O : Oracle) (strict : Bool) (input : Bytes) (earlier : St) :
    parseAll O strict input =
      (match parseLoop O strict (input.length + 1) [] (initSt input) with
       | .error e => failOut input e
       | .ok (ms, st) => ⟨.ok ms, st.alloc, st.maxDepth⟩) ∧
    (initSt input).pos = 0 ∧ (initSt input).data = input ∧ (initSt input).len = input.length := by
  let _ := earlier
  exact ⟨rfl, rfl, rfl, rfl⟩

/-! ## Resource bounds and panics

  History: before the repairs (`fix: SML parser no longer allocates from the size hints …`,
  `fix: SML parser limits list nesting to secs2.MaxListDepth`, `fix: non-strict ASCII close-quote scan
  stays inside the unread input`) all three statements below were false and this file proved the
  negations: `counterexample_hint_alloc` (the 21 bytes `S1F1\n<L[2000000000]>.` pre-allocated 32 GB),
  `depth_unbounded` (for every n, n+1 nested lists were accepted with recursion depth n+1),
  `counterexample_panic` (`S1F1\n<A "abc"   ` panicked in non-strict mode; only `no_panic_strict`
  held).  Model and theorems follow the repaired code; the harness keeps the three oracles
  (`size-hint-preallocation`, `deep-nesting-stack-overflow`, `parse-panic-index-out-of-range`) and the
  child-process probes as regression guards. -/

/-- **Bounded recursion (`depth_bound`).** In both modes, for every input and every entry point, the
    parser never has more than `MaxListDepth + 1` nested `parseItem` activations (64 lists and a leaf):
    the stack it needs is bounded by a constant, whatever the text says. -/
theorem depth_bound (O : Oracle) (strict : Bool) (input : Bytes) :
    (parseAll O strict input).maxDepth ≤ maxListDepth + 1 ∧
    (∀ headerOnly, (parseOne O strict headerOnly input).maxDepth ≤ maxListDepth + 1) :=
  ⟨parseAll_depth_bound O strict input, fun h => parseOne_depth_bound O strict h input⟩

/-- The limit is the binary codec's: regenerated constant `secs2.MaxListDepth`. -/
theorem depth_limit_is_MaxListDepth : (maxListDepth : Int) = Gen.secs2_MaxListDepth := by decide

/-- **No panic (`no_panic`)**, in strict and non-strict mode: for every input and every entry point
    (`Parse`, `ParseMessage`, `ParseHeader`) the result is messages, "no message", a syntax error or a
    validation error — never a run-time panic.  (Invariant carried through every parser function.) -/
theorem no_panic (O : Oracle) (strict : Bool) (input : Bytes) :
    (∀ a d, parseAll O strict input ≠ ⟨.panic, a, d⟩) ∧
    (∀ headerOnly a d, parseOne O strict headerOnly input ≠ ⟨.panic, a, d⟩) :=
  parse_no_panic O strict input

/-- **Size hints cannot make the parser reserve memory (`hint_alloc_bound`).** In both modes, for
    every input and every entry point, the SUM of everything the parser pre-allocates (list child slots,
    `strings.Builder.Grow` for strict ASCII, element slices of numeric / boolean / binary items) is at most
    `1024·|t| + 1024` bytes: linear in the input, whatever the size hints say.  Proved by induction over
    the parse with the potential `alloc + 1024·(bytes left)`, which no parser function increases (each
    reservation is paid for by the bytes the function consumes). -/
theorem hint_alloc_bound (O : Oracle) (strict : Bool) (input : Bytes) :
    (parseAll O strict input).alloc ≤ 1024 * input.length + 1024 ∧
    (∀ headerOnly, (parseOne O strict headerOnly input).alloc ≤ 1024 * input.length + 1024) :=
  ⟨parseAll_alloc_bound O strict input, fun h => parseOne_alloc_bound O strict h input⟩

/-- The per-allocation bounds the summation rests on: a list reserves at most
    `min(64, remaining/3)` slots and a strict ASCII value at most the remaining bytes — independent of
    the hint. -/
theorem hint_alloc_local (size : Nat) (data : Bytes) :
    (listPrealloc size data ≤ maxListPrealloc ∧ 3 * listPrealloc size data ≤ data.length) ∧
    asciiPrealloc size data ≤ data.length :=
  ⟨⟨(listPrealloc_le size data).1, (listPrealloc_le size data).2.1⟩, (asciiPrealloc_le size data).1⟩

/-- **Error offsets are never clamped (`error_offset_unclamped`).** Every syntax error the parser
    reports carries the raw offset it computed, and that offset lies within `[0, len(input)]`: the
    parser's scan window never leaves the input (invariant `pos + len(data) = len(input)` through every
    parser function, including the `backward(1)` after a look-ahead at the end of the input), so the
    clamp in `newParseError` is dead code and `Offset`, `Line`, `Col` describe the true position. -/
theorem error_offset_unclamped (O : Oracle) (strict : Bool) (input : Bytes) (p : Pos) (a d : Nat)
    (h : parseAll O strict input = ⟨.syntax p, a, d⟩) :
    ∃ off, off ≤ input.length ∧ p = newParseError input off ∧ p.offset = off :=
  parseAll_offset_in_input O strict input p a d h

/-- **`fuel_suffices`.** The model recurses on a fuel, so totality is definitional; this theorem
    shows the fuel is never what decides the result.  `parseItem` on `n` remaining bytes needs at most
    `2n+1` units and `parseList` at most `2n+2` — with any two fuels above that they return the same
    item / error / counters; the body parser is started with exactly `2·(bytes left)+1`, and the message
    loop of `Parse` with `len(input)+1` steps, which any larger number reproduces. -/
theorem fuel_suffices (O : Oracle) (strict : Bool) :
    (∀ (st : St) (depth f : Nat), 2 * st.data.length + 1 ≤ f →
      parseItem O strict f depth st = parseItem O strict (2 * st.data.length + 1) depth st) ∧
    (∀ (st : St) (depth : Nat) (acc : List Item) (f1 f2 : Nat), 2 * st.data.length + 2 ≤ f1 → 2 * st.data.length + 2 ≤ f2 →
      parseList O strict f1 depth acc st = parseList O strict f2 depth acc st) ∧
    (∀ (input : Bytes) (f : Nat), input.length + 1 ≤ f →
      parseLoop O strict f [] (initSt input) = parseLoop O strict (input.length + 1) [] (initSt input)) :=
  ⟨fun st depth f h => fuel_suffices_body O strict st depth f h,
   fun st depth acc f1 f2 h1 h2 => (fuel_indep O strict st.data.length).2 st depth acc f1 f2 (Nat.le_refl _) h1 h2,
   fun input f h => parseLoop_fuel_suffices O strict input f h⟩

/-
  Not proved: `steps_quadratic_bound` (model step count ≤ c·|t|²).  The model has no step counter; the
  ingredients are here — every `parseItem` activation consumes its own `<` (`ItemOk`), so there are at
  most |t| of them and at most 2|t| list-loop iterations (`fuel_suffices`), and each does a bounded number
  of linear scans of the remaining input — but the scans are not instrumented.  Time is observed on the
  implementation (five super-linear shapes, wide margin) by the harness.
-/

end GoSecs.Props.C14
