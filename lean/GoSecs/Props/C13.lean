/-
  C13 — strict SML encoding and strict parsing are mutual inverses on messages.

  Property theorems only; helper lemmas live in GoSecs/Lemmas/Sml.lean.
  `encodeItem O o level it` / `encodeMsg O o m` model `sml.Encoder` (options `o`: strict flag, ASCII
  quote, S/F quote, binary style, indent unit); `parseItem O true …` / `parseAll O true` model the strict
  `sml.Parser`.  `strconv` float formatting/parsing and `strconv.Quote` on non-ASCII text are the
  parameters `O` with the stated hypotheses (`LeafOK`), validated on the Go side by the harness.

  The grammar (`OKItem`, Lemmas/Sml.lean): lists (≤ 2³¹−1 children) over
    binary, boolean, I1..I8 / U1..U8 within their width, floats whose rendering `ParseFloat` reads back,
    ASCII with **any byte values**, JIS-8 without quotes and `>`, localized text whose `strconv.Quote`
    rendering has no bare `"` / `>` and is inverted by `strconv.Unquote` (the recorded oracle law —
    it covers U+00A0, U+00AD, U+200B, U+2028, U+FEFF, non-UTF-8 bytes: everything `Quote` escapes).
  Messages (`OKMsg`): stream ≤ 127, function ≤ 255, W only on odd functions, body empty or such a tree
  nested at most `MaxListDepth` deep.

  History: before the repairs `fix: strict SML encoder escapes '>' …` and `fix: SML parser unquotes
  double-quoted Localized (W) text` the full statement was false; this file then carried
  `parse_encode_partial`, `counterexample_gt` (the value `>` was written `">"` and rejected) and
  `counterexample_quote_escape` (`a<U+00A0>b` came back as `a\u00a0b`).  Model and theorems follow the
  repaired code; the harness keeps both oracles (`strict-ascii-gt-unescaped`,
  `w-text-quote-escape-not-unquoted`) as regression guards.
-/
import GoSecs.Lemmas.Sml

namespace GoSecs.Props.C13
open GoSecs GoSecs.Secs2 GoSecs.Sml

/-! ## The strict ASCII escaping state machine -/

/-- **writeStrictASCII / parseASCIIStrict are inverse** on every byte string, for both quote
    characters: all 256 byte values in any position (quote, backslash and `>` escaped inside runs,
    bytes outside 0x20..0x7e as `0xHH` tokens, empty string as an empty run), whatever follows the
    closing `>`. -/
theorem strict_ascii_roundtrip (O : Oracle) (q : UInt8) (hq : IsQuote q) (size : Nat) (st : St) (s rest : Bytes)
    (h : st.data = writeStrictASCII q s ++ cGT :: rest) :
    ∃ st', parseASCIIStrict O size st = .ok (.ascii s, st') ∧ st'.data = rest :=
  let ⟨st', h1, h2, _⟩ := parseASCIIStrict_write O q hq size st s rest h
  ⟨st', h1, h2⟩

/-- The loop invariant behind it: from either encoder state (inside / outside a quoted run) the
    parser's loop appends exactly the remaining bytes and stops at the closing `>`. -/
theorem strict_loop_inverts_runs (O : Oracle) (q : UInt8) (hq : IsQuote q) (rest s acc : Bytes) (i : Nat) :
    (∀ first, strictLoop O q .dflt acc i 0 (strictRuns q first false s ++ cGT :: rest) =
      some (acc.reverse ++ s, i + (strictRuns q first false s).length + 1)) ∧
    strictLoop O q (.quoted false) acc i 0 (strictRuns q false true s ++ cGT :: rest) =
      some (acc.reverse ++ s, i + (strictRuns q false true s).length + 1) :=
  strictLoop_strictRuns O q hq rest s acc i

/-- The parser's quote detection finds the encoder's quote whenever the rendering has a quoted
    run, and a rendering without one does not depend on the quote. -/
theorem quote_detection (q : UInt8) (hq : IsQuote q) (rest s : Bytes) :
    detectQuote (strictRuns q true false s ++ cGT :: rest) = (if s.any isPrintASCII then q else cDQ) ∧
    (s.any isPrintASCII = false → ∀ q', strictRuns q true false s = strictRuns q' true false s) :=
  ⟨detectQuote_strictRuns q hq rest s true, fun h q' => strictRuns_noprint q q' s true h⟩

/-! ## Items -/

/-- **Leaves.** Every leaf of the grammar, as the strict encoder writes it under any options,
    followed by white space and any non-space byte other than `/`, is parsed back (strict mode) to the
    same value (localized strings: header 2). -/
theorem parse_encode_leaf (O : Oracle) (o : Opts) (ho : o.strict = true) (it : Item) (hok : LeafOK O it)
    (fuel depth : Nat) (st : St) (ws : Bytes) (c : UInt8) (r : Bytes)
    (hws : AllWS ws) (hcw : isWS c = false) (hc47 : c ≠ 47)
    (h : st.data = encodeLeaf O o it ++ (ws ++ c :: r)) :
    ∃ st', parseItem O true (fuel + 1) depth st = .ok (canonLeaf O it, st') ∧ st'.data = c :: r :=
  let ⟨st', h1, h2, _⟩ := parseItem_leaf O o ho it hok fuel depth st ws c r hws hcw hc47 h
  ⟨st', h1, h2⟩

/-- **Items (parse ∘ encode = id on the grammar).** For every item tree of the grammar, every
    combination of quote style, S/F quote style, binary style and every indentation unit made of white
    space, at every nesting level: the strict parser reads the strict encoder's text (from the item's
    `<` on, followed by white space and a non-space byte other than `/`, e.g. the `.` or the parent's
    `>`; nested no deeper than the parser's limit allows from `depth`) back to the same tree — same types, sizes, element values and nesting; localized strings with
    header 2 — and stops exactly behind it.  No bound on size, element count or depth. -/
theorem parse_encode_item (O : Oracle) (o : Opts) (ho : o.strict = true) (hind : AllWS o.indent)
    (it : Item) (hok : OKItem O it) (level fuel depth : Nat) (st : St) (ws : Bytes) (c : UInt8) (r : Bytes)
    (hfuel : 2 * nodes it ≤ fuel) (hdepth : depth + Secs2.depth it ≤ maxListDepth + 1)
    (hws : AllWS ws) (hcw : isWS c = false) (hc47 : c ≠ 47)
    (h : st.data = coreItem O o level it ++ (ws ++ c :: r)) :
    ∃ st', parseItem O true fuel depth st = .ok (canon O it, st') ∧ st'.data = c :: r :=
  let ⟨st', h1, h2, _⟩ := parseItem_core O o ho hind it hok level fuel depth st ws c r hfuel hdepth hws hcw hc47 h
  ⟨st', h1, h2⟩

/-- The text `parse_encode_item` speaks about is the encoder's output: `encodeItem` is the
    indentation (for a list) followed by `coreItem`. -/
theorem encodeItem_is_indent_core (O : Oracle) (o : Opts) (level : Nat) (it : Item) :
    encodeItem O o level it = (match it with | .list _ => repeatB o.indent level | _ => []) ++ coreItem O o level it :=
  encodeItem_core O o level it

/-! ## Messages -/

/-- **parse ∘ encode = id on messages.** For every message of the grammar (`OKMsg`: stream ≤ 127,
    function ≤ 255, no W-bit on an even function, body empty or an item tree of the grammar within the
    E5 size caps and `MaxListDepth`), every quote style × S/F quote style × binary style and every
    white-space indent unit: `ParseStrict(EncodeMessage(m))` is exactly one message with the same
    stream, function and W-bit and the same body (localized strings with header 2, an empty body
    stays empty). -/
theorem parse_encode (O : Oracle) (o : Opts) (ho : o.strict = true) (hind : AllWS o.indent) (m : Msg)
    (hm : OKMsg O m) :
    ∃ a d, parseAll O true (encodeMsg O o m) = ⟨.ok [⟨m.s, m.f, m.w, canonBody O m.body⟩], a, d⟩ :=
  parseAll_encodeMsg O o ho hind m hm

/-- The same through `Parser.ParseMessage`'s core (`parseMsg`): the message is read and the whole
    text is consumed. -/
theorem parseMsg_encode (O : Oracle) (o : Opts) (ho : o.strict = true) (hind : AllWS o.indent) (m : Msg)
    (hm : OKMsg O m) (st : St) (h : st.data = encodeMsg O o m) :
    ∃ st', parseMsg O true false st = .ok (some ⟨m.s, m.f, m.w, canonBody O m.body⟩, st') ∧ st'.data = [] :=
  parseMsg_encodeMsg O o ho hind m hm st h

/-- **The parsed message equals the original as the property states it**: same stream, function and
    W-bit, and a body equal up to NaN payload bits and the localized-string header (`simItem`: every
    other type, size, element value and the nesting are identical; a NaN element comes back as a NaN). -/
theorem parse_encode_similar (O : Oracle) (o : Opts) (ho : o.strict = true) (hind : AllWS o.indent) (m : Msg)
    (hm : OKMsg O m) :
    ∃ a d body', parseAll O true (encodeMsg O o m) = ⟨.ok [⟨m.s, m.f, m.w, body'⟩], a, d⟩ ∧
      (m.body = .empty → body' = .empty) ∧ (m.body ≠ .empty → simItem m.body body' = true) := by
  obtain ⟨a, d, h⟩ := parseAll_encodeMsg O o ho hind m hm
  refine ⟨a, d, canonBody O m.body, h, ?_, ?_⟩
  · intro he; simp [he, canonBody]
  · intro hne
    rcases hm.2.2.2 with he | ⟨hok, _, _⟩
    · exact absurd he hne
    · have : canonBody O m.body = canon O m.body := by
        cases hb : m.body <;> simp [canonBody]
        exact absurd hb hne
      rw [this]; exact sim_canon O m.body hok

/-- **Accepted texts re-encode stably.** Every message the strict parser returns for any text `t`,
    if it lies in the grammar (the restriction the property puts on JIS-8 / localized text), re-encodes
    under any options and re-parses to one message equal to it in the property's sense (`simItem`). -/
theorem reencode_stable (O : Oracle) (t : Bytes) (ms : List Msg) (a d : Nat)
    (_hparse : parseAll O true t = ⟨.ok ms, a, d⟩)
    (o : Opts) (ho : o.strict = true) (hind : AllWS o.indent) (m : Msg) (_hmem : m ∈ ms) (hm : OKMsg O m) :
    ∃ a' d' body', parseAll O true (encodeMsg O o m) = ⟨.ok [⟨m.s, m.f, m.w, body'⟩], a', d'⟩ ∧
      (m.body = .empty → body' = .empty) ∧ (m.body ≠ .empty → simItem m.body body' = true) :=
  parse_encode_similar O o ho hind m hm

/-- Printable ASCII text without `"` and `\` is left unchanged by `strconv.Quote`, so a localized
    string of such text without `>` is in the grammar outright (no oracle law needed). -/
theorem quote_identity_printable (O : Oracle) (s : Bytes)
    (h : ∀ c ∈ s, isPrintASCII c = true ∧ c ≠ cDQ ∧ c ≠ cBS) : goQuote O s = cDQ :: (s ++ [cDQ]) := by
  have hasc : isASCIIStr s = true := by
    simp only [isASCIIStr, List.all_eq_true, decide_eq_true_eq]
    intro c hc
    exact isPrint_lt c (h c hc).1
  have hbody : quoteBodyASCII s = s := by
    induction s with
    | nil => rfl
    | cons c cs ih =>
      obtain ⟨h1, h2, h3⟩ := h c (by simp)
      have := ih (fun x hx => h x (by simp [hx])) (by
        simp only [isASCIIStr, List.all_eq_true, decide_eq_true_eq]
        intro x hx; exact isPrint_lt x (h x (by simp [hx])).1)
      simp [quoteBodyASCII, quoteByteASCII, h1, h2, h3, this]
  simp [goQuote, hasc, hbody]

theorem lstr_printable_in_grammar (O : Oracle) (l : Nat) (s : Bytes)
    (h : ∀ c ∈ s, isPrintASCII c = true ∧ c ≠ cDQ ∧ c ≠ cBS ∧ c ≠ cGT) : LeafOK O (.lstr l s) := by
  refine ⟨s, quote_identity_printable O s (fun c hc => ⟨(h c hc).1, (h c hc).2.1, (h c hc).2.2.1⟩),
    fun c hc => ⟨(h c hc).2.1, (h c hc).2.2.2⟩, ?_⟩
  have hnm : cBS ∉ s := fun hm => (h _ hm).2.2.1 rfl
  simp [unquoteW, hnm]

/-- **The Quote-escaped classes (formerly F8) are inside the theorem.** With the recorded behaviour
    of `strconv.Quote` / `strconv.Unquote` on `a<U+00A0>b` (the dictionary entries the harness ships),
    that localized string is in the grammar, so `parse_encode` applies to it. -/
theorem lstr_nbsp_in_grammar (O : Oracle)
    (hq : O.quote [97, 0xC2, 0xA0, 98] = b!"\"a\\u00a0b\"")
    (hu : O.unquote b!"a\\u00a0b" = some [97, 0xC2, 0xA0, 98]) : LeafOK O (.lstr 2 [97, 0xC2, 0xA0, 98]) := by
  refine ⟨b!"a\\u00a0b", ?_, by decide, ?_⟩
  · simp [goQuote, isASCIIStr, hq]
  · have hc : (b!"a\\u00a0b" : Bytes).contains cBS = true := by decide
    simp only [unquoteW, hc, hu]
    simp

/-! ## Non-vacuity -/

def sampleOracle : Oracle :=
  ⟨fun _ b => showDec b, fun _ t => some (decVal 0 t), fun _ => none, fun _ => none, fun s => s, fun _ => none⟩

def sampleItem : Item :=
  .list [.ascii [0, 65, 34, 39, 92, 62, 127, 255], .int .w1 [-128, 127], .list [], .boolean [true, false],
         .float .f4 [1069547520], .binary [0, 255], .jis8 [0xB1, 32], .lstr 7 [97, 98]]

/-- The hypotheses of `parse_encode_item` are satisfiable: a nested tree with control bytes, both
    quotes and a backslash in ASCII, extreme integers, an empty list, floats, binary, JIS-8 and
    localized text is in the grammar (with the decimal-bits float oracle). -/
example : OKItem sampleOracle sampleItem := by
  have hf : ∀ v ∈ [1069547520], Tok (sampleOracle.fmtF .f4 v) ∧
      ∃ v', sampleOracle.parseF .f4 (sampleOracle.fmtF .f4 v) = some v' ∧ floatBitsEq .f4 v v' = true := by
    intro v _
    exact ⟨tok_showDec v, v, by simp [sampleOracle, decVal_showDec], by simp [floatBitsEq]⟩
  have hq : LeafOK sampleOracle (.lstr 7 [97, 98]) := lstr_printable_in_grammar sampleOracle 7 [97, 98] (by decide)
  simp only [sampleItem, OKItem, OKItems, LeafOK, maxInt32, List.length_cons, List.length_nil, and_true]
  repeat' apply And.intro
  all_goals first | omega | exact hf | exact hq | trivial | decide

/-- ... and so are those of `parse_encode` (a W-bit primary message with that body). -/
example : OKMsg sampleOracle ⟨127, 255, true, sampleItem⟩ := by
  refine ⟨by decide, by decide, by decide, Or.inr ⟨?_, by decide, by decide⟩⟩
  have hf : ∀ v ∈ [1069547520], Tok (sampleOracle.fmtF .f4 v) ∧
      ∃ v', sampleOracle.parseF .f4 (sampleOracle.fmtF .f4 v) = some v' ∧ floatBitsEq .f4 v v' = true := by
    intro v _
    exact ⟨tok_showDec v, v, by simp [sampleOracle, decVal_showDec], by simp [floatBitsEq]⟩
  have hq : LeafOK sampleOracle (.lstr 7 [97, 98]) := lstr_printable_in_grammar sampleOracle 7 [97, 98] (by decide)
  simp only [sampleItem, OKItem, OKItems, LeafOK, maxInt32, List.length_cons, List.length_nil, and_true]
  repeat' apply And.intro
  all_goals first | omega | exact hf | exact hq | trivial | decide

end GoSecs.Props.C13
