/-
  C03 — HSMS messages serialise to exact SEMI E37 frames and decode back unchanged.

  Property theorems only; helper lemmas live in GoSecs/Lemmas/Hsms.lean.
  Frame = 4-byte big-endian length (10 + |body|) ‖ 10-byte header ‖ body, header bytes:
  0–1 session id, 2 W|stream (data) / 0 / echoed PType-SType (reject), 3 function / status / reason,
  4 PType, 5 SType, 6–9 system bytes.  Frame positions are header positions + 4.
-/
import GoSecs.Lemmas.Hsms
import GoSecs.Lemmas.HsmsGen
import GoSecs.Gen.Consts
import GoSecs.Gen.Funcs

namespace GoSecs.Props.C03
open GoSecs GoSecs.Secs2 GoSecs.Hsms

/-! ## Tie to the source (regenerated on every run) -/

/-- SType values, the stream cap, reject reasons and the length cap are the source's constants.
    (`maxHSMSMsgLen` is declared `= secs2.MaxByteSize`; the harness checks the cap boundary on the
    real decoder.) -/
theorem consts_gen :
    Gen.hsms_DataMsgType = (stData : Int) ∧ Gen.hsms_SelectReqType = (stSelectReq : Int) ∧
    Gen.hsms_SelectRspType = (stSelectRsp : Int) ∧ Gen.hsms_DeselectReqType = (stDeselectReq : Int) ∧
    Gen.hsms_DeselectRspType = (stDeselectRsp : Int) ∧ Gen.hsms_LinktestReqType = (stLinktestReq : Int) ∧
    Gen.hsms_LinktestRspType = (stLinktestRsp : Int) ∧ Gen.hsms_RejectReqType = (stRejectReq : Int) ∧
    Gen.hsms_SeparateReqType = (stSeparateReq : Int) ∧ Gen.hsms_UndefinedMsgType = (stUndefined : Int) ∧
    Gen.hsms_MaxStreamCode = (maxStream : Int) ∧ Gen.secs2_MaxByteSize = (maxMsgLen : Int) ∧
    Gen.hsms_maxHSMSMsgLen = (maxMsgLen : Int) ∧
    Gen.hsms_RejectSTypeNotSupported = (rejectSTypeNotSupported : Int) ∧
    Gen.hsms_RejectPTypeNotSupported = (rejectPTypeNotSupported : Int) ∧
    Gen.hsms_RejectTransactionNotOpen = (rejectTransactionNotOpen : Int) ∧
    Gen.hsms_RejectNotSelected = (rejectNotSelected : Int) := by
  decide

/-! ### Functions regenerated from hsms/data_msg.go, hsms/control_msg.go, hsms/id_gen.go, internal/wire/body.go

  `Gen.hsms_*` are re-translated from the working tree by tools/go2lean on every run (proofs of the ties in
  GoSecs/Lemmas/HsmsGen.lean).  `m.toGen` is the model message as the generated Go struct; a data message's
  `wire.Body` is represented by the bytes it holds (the translator's `wire.Body ↦ rawFrameBody` entry). -/

/-- `(*DataMessage).ToBytes`: `uint32(10 + body.Len())` big-endian, the header, the body — for every message;
    and the `make([]byte, 0, 4+10+n)` never panics. -/
theorem dataToBytes_gen (m : DataMsg) : Gen.hsms_DataMessage_ToBytes m.toGen = some (Msg.toBytes (.data m)) :=
  Hsms.dataToBytes_gen m

/-- `(*ControlMessage).ToBytes`: the 14 bytes `00 00 00 0A ‖ header`, no index out of range. -/
theorem controlToBytes_gen (m : ControlMsg) : Gen.hsms_ControlMessage_ToBytes m.toGen = some (Msg.toBytes (.control m)) :=
  Hsms.controlToBytes_gen m

/-- The header accessors of a data message read the E37 fields the model reads. -/
theorem dataAccessors_gen (m : DataMsg) :
    Gen.hsms_DataMessage_SessionID m.toGen = (m.hdr.sessionID : Int) ∧
    Gen.hsms_DataMessage_SystemBytes m.toGen = m.hdr.sys.toBytes ∧
    Gen.hsms_DataMessage_HeaderBytes m.toGen = m.hdr.toBytes ∧
    Gen.hsms_DataMessage_Stream m.toGen = (m.hdr.stream.toNat : Int) ∧
    Gen.hsms_DataMessage_Function m.toGen = (m.hdr.function.toNat : Int) ∧
    Gen.hsms_DataMessage_WaitBit m.toGen = m.hdr.wbit ∧
    Gen.hsms_DataMessage_ID m.toGen = (idOfSys m.hdr.sys : Int) :=
  ⟨dataSessionID_gen m, dataSystemBytes_gen m, dataHeaderBytes_gen m, dataStream_gen m, dataFunction_gen m,
   dataWaitBit_gen m, dataID_gen m⟩

/-- …and those of a control message (`Type()` included: the SType byte, 255 when E37 does not define it). -/
theorem controlAccessors_gen (m : ControlMsg) :
    Gen.hsms_ControlMessage_Type m.toGen = (m.type : Int) ∧
    Gen.hsms_ControlMessage_SessionID m.toGen = (m.hdr.sessionID : Int) ∧
    Gen.hsms_ControlMessage_SystemBytes m.toGen = m.hdr.sys.toBytes ∧
    Gen.hsms_ControlMessage_HeaderBytes m.toGen = m.hdr.toBytes ∧
    Gen.hsms_ControlMessage_WaitBit m.toGen = m.replyExpected ∧
    Gen.hsms_ControlMessage_ID m.toGen = (idOfSys m.hdr.sys : Int) :=
  ⟨controlType_gen m, controlSessionID_gen m, controlSystemBytes_gen m, controlHeaderBytes_gen m, controlWaitBit_gen m,
   controlID_gen m⟩

/-- `ToSystemBytes` / `FromSystemBytes` are the model's big-endian packing, for every id / every four bytes. -/
theorem systemBytes_gen (id : Nat) (s : Sys) :
    Gen.hsms_ToSystemBytes (id : Int) = (sysOfID id).toBytes ∧ Gen.hsms_FromSystemBytes s.toBytes = (idOfSys s : Int) :=
  ⟨toSystemBytes_gen id, fromSystemBytes_gen s⟩

/-- The request constructors pack session id, SType and system bytes as the model does. -/
theorem requestCtors_gen (sid : Nat) (s : Sys) :
    Gen.hsms_NewSelectReq (sid : Int) s.toBytes = (newSelectReq sid s).toGen ∧
    Gen.hsms_NewDeselectReq (sid : Int) s.toBytes = (newDeselectReq sid s).toGen ∧
    Gen.hsms_NewSeparateReq (sid : Int) s.toBytes = (newSeparateReq sid s).toGen ∧
    Gen.hsms_NewLinktestReq s.toBytes = (newLinktestReq s).toGen :=
  ⟨newSelectReq_gen sid s, newDeselectReq_gen sid s, newSeparateReq_gen sid s, newLinktestReq_gen s⟩

/-- Re-stamping a control message replaces exactly the session id / the system bytes. -/
theorem restamp_gen (m : ControlMsg) (sid : Nat) (s : Sys) :
    Gen.hsms_ControlMessage_WithSessionID m.toGen (sid : Int) = (m.withSessionID sid).toGen ∧
    Gen.hsms_ControlMessage_WithSystemBytes m.toGen s.toBytes = (m.withSys s).toGen :=
  ⟨withSessionID_gen m sid, withSystemBytes_gen m s⟩

/-- **The length gates of `DecodeHSMSMessage` and `DecodeHSMSPayload`, regenerated from hsms/decode.go** (their
    statements before `decodeOwnedFrame`): minimum 14 bytes, length field ≥ 10 and ≤ `maxHSMSMsgLen`, length field =
    `len(data) - 4`, then the owned copy `data[4:4+msgLen]` (`4+msgLen` in `uint32` arithmetic) — are the model's
    `frameGuard` / `payloadGuard`, for every byte string, with no slice out of range; the model decoders are these
    gates followed by `decodeOwnedFrame`. -/
theorem decodeGuards_gen (data : Bytes) :
    Gen.hsms_DecodeHSMSMessage_guards data =
      some (match frameGuard data with
        | .error e => .error (false, some e.goName)
        | .ok owned => .ok (((beVal (data.take 4) : Nat) : Int), owned)) ∧
    decodeHSMSMessage data = (match frameGuard data with | .error e => .error e | .ok owned => decodeOwnedFrame owned) :=
  ⟨Hsms.decodeGuards_gen data, decodeHSMSMessage_guard data⟩

theorem payloadGuards_gen (payload : Bytes) :
    Gen.hsms_DecodeHSMSPayload_guards payload =
      (match payloadGuard payload with
        | .error e => .error (false, some (match e with
            | .lenBig => "hsms payload exceeds maximum: %d > %d" | _ => "ErrInvalidHeaderLength"))
        | .ok _ => .ok ()) ∧
    decodeHSMSPayload payload = (match payloadGuard payload with | .error e => .error e | .ok _ => decodeOwnedFrame payload) :=
  ⟨Hsms.payloadGuards_gen payload, decodeHSMSPayload_guard payload⟩

set_option maxRecDepth 8192 in
/-- The source's `IsValidSType` (translated from message.go) is the E37 table, for every byte. -/
theorem isValidSType_gen_table : ∀ n : Nat, n < 256 → Gen.hsms_IsValidSType (n : Int) = definedSType n := by
  decide

theorem isValidSType_gen (b : UInt8) : Gen.hsms_IsValidSType (b.toNat : Int) = definedSType b.toNat :=
  isValidSType_gen_table b.toNat (by have := b.toNat_lt; omega)

set_option maxRecDepth 8192 in
/-- The control STypes `decodeOwnedFrame` enumerates are exactly the defined non-data ones. -/
theorem controlSType_iff : ∀ n : Nat, n < 256 → controlSType n = (definedSType n && n != stData) := by
  decide

/-! ## Construction gate -/

/-- **Construction rejects exactly the invalid combinations**: stream above 127, W-bit on an even
    function, or a body carrying a deferred error. -/
theorem construct_rejects_iff (st f : UInt8) (w : Bool) (sid : Nat) (sys : Sys) (item : ItemArg) :
    (∃ e, newDataMessage st f w sid sys item = .error e) ↔
      (st.toNat > 127 ∨ (w = true ∧ f.toNat % 2 = 0) ∨ (match item with | .errored => True | _ => False)) := by
  unfold newDataMessage maxStream
  by_cases h1 : st.toNat > 127
  · simp [h1]
  · cases item <;> cases w <;> by_cases h2 : f.toNat % 2 = 0 <;> simp [h1, h2]

/-- Which error, in the code's precedence: stream, then item error, then W on an even function. -/
theorem construct_error_kind (st f : UInt8) (w : Bool) (sid : Nat) (sys : Sys) (item : ItemArg) (e : CErr)
    (h : newDataMessage st f w sid sys item = .error e) :
    (e = .invalidStream ∧ st.toNat > 127) ∨
    (e = .itemError ∧ st.toNat ≤ 127 ∧ (match item with | .errored => True | _ => False)) ∨
    (e = .invalidRspMsg ∧ st.toNat ≤ 127 ∧ w = true ∧ f.toNat % 2 = 0) := by
  unfold newDataMessage maxStream at h
  by_cases h1 : st.toNat > 127
  · simp [h1] at h; subst h; exact .inl ⟨rfl, h1⟩
  · cases item <;> cases w <;> by_cases h2 : f.toNat % 2 = 0 <;> simp [h1, h2] at h <;> subst h <;> simp <;> omega

/-- The body a successful construction owns: the supplied item, or the empty item for nil. -/
def bodyItem : ItemArg → Item
  | .ok it => it
  | _ => .empty

/-! ## Frame layout -/

/-- **Data frame layout.**  For every accepted `(stream, function, W, session id, system bytes, item)`:
    frame bytes 0–3 are the big-endian length `10 + |body|`; 4–5 the session id big-endian; byte 6 is
    `W·128 + stream`; byte 7 the function; bytes 8–9 (PType, SType) are 0; 10–13 the system bytes in
    order; the SECS-II encoding of the item follows. -/
theorem frame_layout_data (st f : UInt8) (w : Bool) (sid : Nat) (sys : Sys) (item : ItemArg) (m : DataMsg)
    (h : newDataMessage st f w sid sys item = .ok m) :
    (Msg.data m).toBytes =
      beBytes 4 (10 + (enc (bodyItem item)).length) ++
      [UInt8.ofNat (sid / 256 % 256), UInt8.ofNat (sid % 256),
       UInt8.ofNat (st.toNat + (if w then 128 else 0)), f, 0, 0, sys.y0, sys.y1, sys.y2, sys.y3] ++
      enc (bodyItem item) := by
  unfold newDataMessage maxStream at h
  by_cases h1 : st.toNat > 127
  · simp [h1] at h
  · have hs : st.toNat ≤ 127 := by omega
    cases item <;> cases w <;> by_cases h2 : f.toNat % 2 = 0 <;> simp [h1, h2] at h <;> subst h <;>
      simp [Msg.toBytes, Body.len, Body.bytes, Header.toBytes, bodyItem, enc_length, sidHi, sidLo,
        wStreamByte_eq _ hs]

/-- The length field is the number `10 + |body|` itself (no wrap) whenever that fits 32 bits. -/
theorem length_field_value (n : Nat) (h : 10 + n < 4294967296) : beVal (beBytes 4 (10 + n)) = 10 + n :=
  beVal_beBytes4 _ h

/-- The accessors read the fields back: stream, W-bit, function, session id (mod 2^16), system bytes. -/
theorem data_accessors (st f : UInt8) (w : Bool) (sid : Nat) (sys : Sys) (item : ItemArg) (m : DataMsg)
    (h : newDataMessage st f w sid sys item = .ok m) :
    m.hdr.stream = st ∧ m.hdr.wbit = w ∧ m.hdr.function = f ∧ m.hdr.sessionID = sid % 65536 ∧
    m.hdr.sys = sys ∧ m.hdr.ptype = 0 ∧ m.hdr.stype = 0 := by
  unfold newDataMessage maxStream at h
  by_cases h1 : st.toNat > 127
  · simp [h1] at h
  · have hs : st.toNat < 128 := by omega
    have hm : m.hdr = ⟨sidHi sid, sidLo sid, wStreamByte st w, f, 0, 0, sys.y0, sys.y1, sys.y2, sys.y3⟩ := by
      cases item <;> cases w <;> by_cases h2 : f.toNat % 2 = 0 <;> simp [h1, h2] at h <;> subst h <;> rfl
    have hb : (wStreamByte st w).toNat = st.toNat + (if w then 128 else 0) := by
      rw [wStreamByte_eq _ (by omega)]
      cases w <;> simp <;> omega
    obtain ⟨u1, u2⟩ := stream_unpack st.toNat hs w
    rw [hm]
    refine ⟨?_, ?_, rfl, ?_, rfl, rfl, rfl⟩
    · simp only [Header.stream, hb, u1]; simp
    · simp only [Header.wbit, hb, u2]
    · simp only [Header.sessionID, sidHi, sidLo, UInt8.toNat_ofNat']; omega

/-- **Control frame layouts** — every factory, `status` / `reason` ranging over all bytes.
    All control frames are the 14 bytes `00 00 00 0A` ‖ header.  Requests carry the caller's session id
    and system bytes; a `.rsp` copies both from its request and puts the status in header byte 3
    (frame byte 7); Linktest always uses session id 0xFFFF. -/
theorem frame_layout_control (sid : Nat) (sys : Sys) :
    (Msg.control (newSelectReq sid sys)).toBytes =
      [0, 0, 0, 10, UInt8.ofNat (sid / 256 % 256), UInt8.ofNat (sid % 256), 0, 0, 0, 1, sys.y0, sys.y1, sys.y2, sys.y3] ∧
    (Msg.control (newDeselectReq sid sys)).toBytes =
      [0, 0, 0, 10, UInt8.ofNat (sid / 256 % 256), UInt8.ofNat (sid % 256), 0, 0, 0, 3, sys.y0, sys.y1, sys.y2, sys.y3] ∧
    (Msg.control (newLinktestReq sys)).toBytes =
      [0, 0, 0, 10, 0xFF, 0xFF, 0, 0, 0, 5, sys.y0, sys.y1, sys.y2, sys.y3] ∧
    (Msg.control (newSeparateReq sid sys)).toBytes =
      [0, 0, 0, 10, UInt8.ofNat (sid / 256 % 256), UInt8.ofNat (sid % 256), 0, 0, 0, 9, sys.y0, sys.y1, sys.y2, sys.y3] :=
  ⟨rfl, rfl, rfl, rfl⟩

theorem frame_layout_select_rsp (req : ControlMsg) (status : UInt8) (m : ControlMsg)
    (h : newSelectRsp req status = .ok m) :
    req.hdr.stype = 1 ∧
    (Msg.control m).toBytes =
      [0, 0, 0, 10, req.hdr.sid0, req.hdr.sid1, 0, status, 0, 2, req.hdr.sys0, req.hdr.sys1, req.hdr.sys2, req.hdr.sys3] := by
  unfold newSelectRsp at h
  by_cases ht : req.type = stSelectReq
  · simp [ht] at h; subst h
    refine ⟨?_, rfl⟩
    unfold ControlMsg.type at ht
    by_cases hd : definedSType req.hdr.stype.toNat = true
    · simp [hd, stSelectReq] at ht
      exact UInt8.toNat_inj.mp (by simpa using ht)
    · simp [hd, stUndefined, stSelectReq] at ht
  · simp [ht] at h

theorem frame_layout_deselect_rsp (req : ControlMsg) (status : UInt8) (m : ControlMsg)
    (h : newDeselectRsp req status = .ok m) :
    req.hdr.stype = 3 ∧
    (Msg.control m).toBytes =
      [0, 0, 0, 10, req.hdr.sid0, req.hdr.sid1, 0, status, 0, 4, req.hdr.sys0, req.hdr.sys1, req.hdr.sys2, req.hdr.sys3] := by
  unfold newDeselectRsp at h
  by_cases ht : req.type = stDeselectReq
  · simp [ht] at h; subst h
    refine ⟨?_, rfl⟩
    unfold ControlMsg.type at ht
    by_cases hd : definedSType req.hdr.stype.toNat = true
    · simp [hd, stDeselectReq] at ht
      exact UInt8.toNat_inj.mp (by simpa using ht)
    · simp [hd, stUndefined, stDeselectReq] at ht
  · simp [ht] at h

theorem frame_layout_linktest_rsp (req : ControlMsg) (m : ControlMsg)
    (h : newLinktestRsp req = .ok m) :
    req.hdr.stype = 5 ∧
    (Msg.control m).toBytes =
      [0, 0, 0, 10, 0xFF, 0xFF, 0, 0, 0, 6, req.hdr.sys0, req.hdr.sys1, req.hdr.sys2, req.hdr.sys3] := by
  unfold newLinktestRsp at h
  by_cases ht : req.type = stLinktestReq
  · simp [ht] at h; subst h
    refine ⟨?_, rfl⟩
    unfold ControlMsg.type at ht
    by_cases hd : definedSType req.hdr.stype.toNat = true
    · simp [hd, stLinktestReq] at ht
      exact UInt8.toNat_inj.mp (by simpa using ht)
    · simp [hd, stUndefined, stLinktestReq] at ht
  · simp [ht] at h

/-- A `.rsp` factory refuses exactly the requests of another type. -/
theorem rsp_rejects_iff (req : ControlMsg) (status : UInt8) :
    ((∃ e, newSelectRsp req status = .error e) ↔ req.type ≠ stSelectReq) ∧
    ((∃ e, newDeselectRsp req status = .error e) ↔ req.type ≠ stDeselectReq) ∧
    ((∃ e, newLinktestRsp req = .error e) ↔ req.type ≠ stLinktestReq) := by
  unfold newSelectRsp newDeselectRsp newLinktestRsp
  refine ⟨?_, ?_, ?_⟩
  · by_cases ht : req.type = stSelectReq <;> simp [ht]
  · by_cases ht : req.type = stDeselectReq <;> simp [ht]
  · by_cases ht : req.type = stLinktestReq <;> simp [ht]

/-- **Reject.req layout.**  Session id and system bytes are the rejected message's; the reason is in
    header byte 3 (frame byte 7); header byte 2 (frame byte 6) echoes the rejected PType when the
    reason is 2, the rejected SType for every other reason, and is 0 when a data message is rejected. -/
theorem frame_layout_reject (rejected : Msg) (reason : UInt8) :
    (Msg.control (newRejectReq rejected reason)).toBytes =
      [0, 0, 0, 10, rejected.hdr.sid0, rejected.hdr.sid1,
       (if rejected.type = stData then 0 else if reason = 2 then rejected.hdr.ptype else rejected.hdr.stype),
       reason, 0, 7, rejected.hdr.sys0, rejected.hdr.sys1, rejected.hdr.sys2, rejected.hdr.sys3] := by
  have hr : (reason.toNat == rejectPTypeNotSupported) = decide (reason = 2) := by
    by_cases h : reason = 2
    · subst h; rfl
    · have : reason.toNat ≠ 2 := fun e => h (UInt8.toNat_inj.mp (by simpa using e))
      simp [rejectPTypeNotSupported, h, this]
  simp only [newRejectReq, Msg.toBytes, ctlHeader, Header.toBytes, Header.sys, hr, stRejectReq]
  by_cases h1 : rejected.type = stData <;> by_cases h2 : reason = 2 <;> simp [h1, h2]

theorem frame_layout_reject_raw (sid : Nat) (ptype stype : UInt8) (sys : Sys) (reason : UInt8) :
    (Msg.control (newRejectReqRaw sid ptype stype sys reason)).toBytes =
      [0, 0, 0, 10, UInt8.ofNat (sid / 256 % 256), UInt8.ofNat (sid % 256),
       (if reason = 2 then ptype else stype), reason, 0, 7, sys.y0, sys.y1, sys.y2, sys.y3] := by
  have hr : (reason.toNat == rejectPTypeNotSupported) = decide (reason = 2) := by
    by_cases h : reason = 2
    · subst h; rfl
    · have : reason.toNat ≠ 2 := fun e => h (UInt8.toNat_inj.mp (by simpa using e))
      simp [rejectPTypeNotSupported, h, this]
  simp only [newRejectReqRaw, Msg.toBytes, ctlHeader, Header.toBytes, hr, stRejectReq, sidHi, sidLo]
  by_cases h2 : reason = 2 <;> simp [h2]

/-! ## Decode ∘ serialise -/

/-- A message that can legally be on the wire: PType 0; a data message has SType 0 and fits the
    length cap; a control message has one of the eight control STypes. -/
def Wire : Msg → Prop
  | .data m => m.hdr.ptype = 0 ∧ m.hdr.stype = 0 ∧ 10 + m.body.bytes.length ≤ maxMsgLen
  | .control m => m.hdr.ptype = 0 ∧ controlSType m.hdr.stype.toNat = true

/-- What the receiving side holds after decoding `m`'s frame: the same header; the body as raw
    bytes; a control message's local `replyExpected` flag is not on the wire and reads false. -/
def received : Msg → Msg
  | .data m => .data ⟨m.hdr, .raw m.body.bytes⟩
  | .control m => .control ⟨m.hdr, false⟩

/-- **Decoding the serialised frame yields the same header and the same body bytes.**
    Full statement (property text): for *every* valid message, `decodeHSMSMessage m.toBytes = ok (received m)`.
    `_partial`: `Wire` adds the hypothesis `10 + |body| ≤ maxHSMSMsgLen` for data messages; without it the
    statement is false in model and code — see `counterexample_valid_message_over_cap` below. -/
theorem decode_toBytes_partial (m : Msg) (hw : Wire m) : decodeHSMSMessage m.toBytes = .ok (received m) := by
  cases m with
  | data d =>
    obtain ⟨hp, hs, hl⟩ := hw
    have e : (Msg.data d).toBytes = beBytes 4 (d.hdr.toBytes ++ d.body.bytes).length ++ (d.hdr.toBytes ++ d.body.bytes) := by
      simp [Msg.toBytes, Body.len_eq]
    rw [e, decodeHSMSMessage_frame _ (by simp) (by simpa using hl)]
    simp [decodeOwnedFrame, Header.ofBytes_toBytes, hp, hs, stData, received]
  | control c =>
    obtain ⟨hp, hs⟩ := hw
    have e : (Msg.control c).toBytes = beBytes 4 c.hdr.toBytes.length ++ c.hdr.toBytes := by
      simp [Msg.toBytes, beBytes]
    rw [e, decodeHSMSMessage_frame _ (by simp) (by simp [maxMsgLen])]
    have h0 : ¬ c.hdr.stype.toNat = 0 := by
      intro h0; rw [h0] at hs; simp [controlSType] at hs
    have := Header.ofBytes_toBytes c.hdr []
    rw [List.append_nil] at this
    simp [decodeOwnedFrame, this, hp, hs, stData, h0, received]

/-- **…and an equal body.**  (`_partial`: hypothesis `hcap`, the frame fits the cap, is the only gap to the
    full statement "every valid data message decodes back"; see `counterexample_valid_message_over_cap`.)  A constructed data message whose frame fits the cap decodes to a message
    with identical header whose (lazily decoded) item is the original item; `Equal` holds.  The item
    is either the empty body or any well-formed tree within the decoder's nesting limit (C01). -/
theorem decode_constructed_partial (st f : UInt8) (w : Bool) (sid : Nat) (sys : Sys) (item : ItemArg) (m : DataMsg)
    (h : newDataMessage st f w sid sys item = .ok m)
    (hcap : 10 + (enc (bodyItem item)).length ≤ maxMsgLen)
    (hwf : bodyItem item = .empty ∨ (WF (bodyItem item) ∧ depth (bodyItem item) ≤ maxListDepth)) :
    ∃ m', decodeHSMSMessage (Msg.data m).toBytes = .ok (.data m') ∧ m'.hdr = m.hdr ∧
      m'.item = .ok (bodyItem item) ∧ m'.decodeErr = none ∧ m.equal m' = true := by
  have hacc := data_accessors st f w sid sys item m h
  have hb : m.body = .tree (bodyItem item) := by
    unfold newDataMessage maxStream at h
    by_cases h1 : st.toNat > 127
    · simp [h1] at h
    · cases item <;> cases w <;> by_cases h2 : f.toNat % 2 = 0 <;> simp [h1, h2] at h <;> subst h <;> rfl
  have hw : Wire (.data m) := ⟨hacc.2.2.2.2.2.1, hacc.2.2.2.2.2.2, by rw [hb]; exact hcap⟩
  have hit : (Body.raw (enc (bodyItem item))).item = .ok (bodyItem item) := by
    rcases hwf with he | ⟨h1, h2⟩
    · rw [he]; rfl
    · have := decode_enc (bodyItem item) h1 h2 []
      rw [List.append_nil] at this
      simp [Body.item, this]
  refine ⟨⟨m.hdr, .raw m.body.bytes⟩, decode_toBytes_partial _ hw, rfl, ?_, ?_, ?_⟩
  · simp only [DataMsg.item, hb, Body.bytes]; exact hit
  · simp only [DataMsg.decodeErr, DataMsg.item, hb, Body.bytes, hit]
  · have ha : m.item = .ok (bodyItem item) := by simp [DataMsg.item, hb, Body.item]
    have hb' : (⟨m.hdr, .raw m.body.bytes⟩ : DataMsg).item = .ok (bodyItem item) := by
      simp only [DataMsg.item, hb, Body.bytes]; exact hit
    simp only [DataMsg.equal, ha, hb', equalItem_refl]
    simp

/-- **Re-serialising a decoded data frame reproduces it byte for byte** — for *every* accepted input,
    not only frames this library produced. -/
theorem toBytes_decode_data (bs : Bytes) (m : DataMsg) (h : decodeHSMSMessage bs = .ok (.data m)) :
    (Msg.data m).toBytes = bs := by
  obtain ⟨p, rfl, _, _, hd⟩ := decodeHSMSMessage_ok bs _ h
  unfold decodeOwnedFrame at hd
  cases ho : Header.ofBytes p with
  | none => simp [ho] at hd
  | some hb =>
    obtain ⟨hh, body⟩ := hb
    have hp := Header.ofBytes_eq_some p hh body ho
    simp only [ho] at hd
    by_cases h1 : (hh.ptype != 0) = true
    · simp [h1] at hd
    · by_cases h2 : (hh.stype.toNat == stData) = true
      · simp [h1, h2] at hd
        subst hd
        simp [Msg.toBytes, Body.len, Body.bytes, hp]
      · by_cases h3 : controlSType hh.stype.toNat = true <;> simp [h1, h2, h3] at hd

/-- A decoded control frame re-serialises to its first 14 bytes (length field forced to 10): a control
    frame is header-only, any body an input carried is not part of the message. -/
theorem toBytes_decode_control (bs : Bytes) (m : ControlMsg) (h : decodeHSMSMessage bs = .ok (.control m)) :
    (Msg.control m).toBytes = [0, 0, 0, 10] ++ (bs.drop 4).take 10 ∧
    (bs.length = 14 → (Msg.control m).toBytes = bs) := by
  obtain ⟨p, rfl, _, _, hd⟩ := decodeHSMSMessage_ok bs _ h
  unfold decodeOwnedFrame at hd
  cases ho : Header.ofBytes p with
  | none => simp [ho] at hd
  | some hb =>
    obtain ⟨hh, body⟩ := hb
    have hp := Header.ofBytes_eq_some p hh body ho
    simp only [ho] at hd
    by_cases h1 : (hh.ptype != 0) = true
    · simp [h1] at hd
    · by_cases h2 : (hh.stype.toNat == stData) = true
      · simp [h1, h2] at hd
      · by_cases h3 : controlSType hh.stype.toNat = true
        · simp [h1, h2, h3] at hd
          subst hd
          subst hp
          rw [drop4_frame]
          have ht : (hh.toBytes ++ body).take 10 = hh.toBytes := by
            rw [List.take_append_of_le_length (by simp), List.take_of_length_le (by simp)]
          refine ⟨by simp only [Msg.toBytes, ht], ?_⟩
          intro hl
          have hb0 : body = [] := by
            simp at hl
            exact List.eq_nil_of_length_eq_zero (by omega)
          subst hb0
          simp [Msg.toBytes, beBytes]
        · simp [h1, h2, h3] at hd

/-- **Serialise → decode → serialise is the identity on bytes** for every wire-legal message
    (`_partial`: `Wire` includes the cap hypothesis; `toBytes_decode_data` above needs none). -/
theorem toBytes_decode_toBytes_partial (m : Msg) (hw : Wire m) :
    ∃ m', decodeHSMSMessage m.toBytes = .ok m' ∧ m'.toBytes = m.toBytes := by
  refine ⟨received m, decode_toBytes_partial m hw, ?_⟩
  cases m with
  | data d => simp [received, Msg.toBytes, Body.len_eq, Body.bytes]
  | control c => rfl

/-- The payload entry points (`DecodeHSMSPayload`, `DecodeOwnedHSMSPayload`) accept the frame without
    its 4-byte prefix and give the same message. -/
theorem decodePayload_toBytes_partial (m : Msg) (hw : Wire m) :
    decodeHSMSPayload (m.toBytes.drop 4) = .ok (received m) := by
  have h := decode_toBytes_partial m hw
  obtain ⟨p, hp, h10, hmax, hd⟩ := decodeHSMSMessage_ok _ _ h
  rw [hp, drop4_frame]
  unfold decodeHSMSPayload
  have : lenLt p 10 = false := by rw [lenLt_false_iff]; exact h10
  have h2 : ¬ p.length > maxMsgLen := by omega
  simp [this, h2, hd]

/-! ## What the connection writes -/

/-- **The bytes handed to the socket are `ToBytes`** — for every message, constructed or received,
    including the empty-body / control single-slice branch.  (`ToBytes` sizes the frame with
    `Body.Len` = `EncodedLen`, `buildFrameBuffers` with the length of the materialised encoding; they
    agree by C01's `encodedLen_eq`.) -/
theorem wire_eq_toBytes (m : Msg) : m.wire = m.toBytes := by
  cases m with
  | data d =>
    simp only [Msg.wire, Msg.frameBuffers, Msg.toBytes, Body.len_eq, List.map_cons, List.map_nil,
      List.sum_cons, List.sum_nil, Nat.add_zero]
    by_cases hn : d.body.bytes.length > 0
    · simp [hn]
    · have : d.body.bytes = [] := List.eq_nil_of_length_eq_zero (by omega)
      simp [this]
  | control c => simp [Msg.wire, Msg.frameBuffers, Msg.toBytes, beBytes]

/-- The frame is split over at most two slices and the first is always the 14-byte prefix. -/
theorem frameBuffers_shape (m : Msg) :
    ∃ pre rest, m.frameBuffers = pre :: rest ∧ pre.length = 14 ∧ rest.length ≤ 1 ∧ ∀ b ∈ rest, b ≠ [] := by
  cases m with
  | data d =>
    simp only [Msg.frameBuffers, List.map_cons, List.map_nil, List.sum_cons, List.sum_nil, Nat.add_zero]
    by_cases hn : d.body.bytes.length > 0
    · refine ⟨beBytes 4 (10 + d.body.bytes.length) ++ d.hdr.toBytes, [d.body.bytes], by simp [hn], by simp, by simp, ?_⟩
      intro b hb; simp at hb; subst hb
      intro h0; rw [h0] at hn; simp at hn
    · exact ⟨beBytes 4 10 ++ d.hdr.toBytes, [], by simp [hn], by simp, by simp, by simp⟩
  | control c => exact ⟨beBytes 4 10 ++ c.hdr.toBytes, [], rfl, by simp, by simp, by simp⟩

/-! ## Re-stamping -/

/-- **`WithSessionID` changes frame bytes 4–5 only**, `WithSystemBytes` / `WithID` bytes 10–13 only;
    length, remaining header bytes and body are untouched, the body (hence the decoded item and any
    decode error) is shared. -/
theorem restamp_frame (m : Msg) (sid : Nat) (s : Sys) :
    (m.withSessionID sid).toBytes =
      m.toBytes.take 4 ++ [UInt8.ofNat (sid / 256 % 256), UInt8.ofNat (sid % 256)] ++ m.toBytes.drop 6 ∧
    (m.withSys s).toBytes = m.toBytes.take 10 ++ [s.y0, s.y1, s.y2, s.y3] ++ m.toBytes.drop 14 := by
  cases m with
  | data d =>
    have e4 : (beBytes 4 (10 + d.body.len)).length = 4 := by simp
    constructor
    · simp only [Msg.withSessionID, DataMsg.withSessionID, Msg.toBytes, Header.withSessionID, Header.toBytes]
      generalize beBytes 4 (10 + d.body.len) = pre at e4 ⊢
      match pre, e4 with
      | [a, b, c, e], _ => simp [sidHi, sidLo]
    · simp only [Msg.withSys, DataMsg.withSys, Msg.toBytes, Header.withSys, Header.toBytes]
      generalize beBytes 4 (10 + d.body.len) = pre at e4 ⊢
      match pre, e4 with
      | [a, b, c, e], _ => simp
  | control c =>
    constructor
    · simp [Msg.withSessionID, ControlMsg.withSessionID, Msg.toBytes, Header.withSessionID, Header.toBytes, sidHi, sidLo]
    · simp [Msg.withSys, ControlMsg.withSys, Msg.toBytes, Header.withSys, Header.toBytes]

/-- `WithID v` is `WithSystemBytes` of the big-endian bytes of `v`, and `ID()` reads it back. -/
theorem withID_bytes (v : Nat) :
    (sysOfID v).toBytes = beBytes 4 v ∧ idOfSys (sysOfID v) = v % 4294967296 := by
  constructor
  · simp [sysOfID, Sys.toBytes, beBytes]
  · have : (sysOfID v).toBytes = beBytes 4 v := by simp [sysOfID, Sys.toBytes, beBytes]
    rw [idOfSys, this, beVal_beBytes]

/-- **Arbitrary re-stamp chains reduce to the last stamp of each field.**  Whatever sequence of
    `WithSessionID` / `WithSystemBytes` / `WithID` is applied, the result is the original message with
    its header stamped by the last session id (if any) and the last system bytes (if any);
    the frame differs from the original only inside the ten header bytes, and in fact only in bytes
    4–5 and 10–13 (`restamp_frame`). -/
theorem restamp_chain (m : Msg) (l : List Stamp) :
    m.stamps l = m.setHdr (applyLast m.hdr (lastSid none l) (lastSys none l)) ∧
    (m.stamps l).toBytes =
      m.toBytes.take 4 ++ (applyLast m.hdr (lastSid none l) (lastSys none l)).toBytes ++ m.toBytes.drop 14 := by
  have h := Msg.stamps_eq_setHdr l m
  have h2 := foldl_stampH m.hdr l none none
  have h3 : applyLast m.hdr none none = m.hdr := rfl
  rw [h3] at h2
  rw [h2] at h
  exact ⟨h, by rw [h, Msg.toBytes_setHdr]⟩

/-- A chain touches nothing but session id and system bytes in the header … -/
theorem restamp_chain_header (h : Header) (a : Option Nat) (b : Option Sys) :
    (applyLast h a b).b2 = h.b2 ∧ (applyLast h a b).b3 = h.b3 ∧ (applyLast h a b).ptype = h.ptype ∧
    (applyLast h a b).stype = h.stype ∧
    (a = none → (applyLast h a b).sid0 = h.sid0 ∧ (applyLast h a b).sid1 = h.sid1) ∧
    (b = none → (applyLast h a b).sys = h.sys) := by
  cases a <;> cases b <;> simp [applyLast, Header.withSessionID, Header.withSys, Header.sys]

/-- … and never the body: the decoded item and its error are those of the original, for every copy. -/
theorem restamp_chain_body (m : DataMsg) (l : List Stamp) :
    ∃ m', (Msg.data m).stamps l = .data m' ∧ m'.body.bytes = m.body.bytes ∧ m'.item = m.item ∧
      m'.decodeErr = m.decodeErr := by
  rw [Msg.stamps_eq_setHdr]
  exact ⟨_, rfl, rfl, rfl, rfl⟩

/-! ## Derive … Build -/

/-- `Derive().Build()` of a constructed message reproduces its frame. -/
theorem derive_build (st f : UInt8) (w : Bool) (sid : Nat) (hsid : sid < 65536) (sys : Sys) (item : ItemArg) (m : DataMsg)
    (h : newDataMessage st f w sid sys item = .ok m) :
    ∃ m', m.derive.build = .ok m' ∧ (Msg.data m').toBytes = (Msg.data m).toBytes := by
  obtain ⟨a1, a2, a3, a4, a5, _, _⟩ := data_accessors st f w sid sys item m h
  have hb : m.body = .tree (bodyItem item) := by
    unfold newDataMessage maxStream at h
    by_cases h1 : st.toNat > 127
    · simp [h1] at h
    · cases item <;> cases w <;> by_cases h2 : f.toNat % 2 = 0 <;> simp [h1, h2] at h <;> subst h <;> rfl
  have hd : m.derive.build = newDataMessage st f w sid sys (.ok (bodyItem item)) := by
    simp only [DataMsg.derive, Builder.build, a1, a2, a3, a4, a5, DataMsg.item, hb, Body.item,
      Nat.mod_eq_of_lt hsid]
  have hok : ∃ m', newDataMessage st f w sid sys (.ok (bodyItem item)) = .ok m' := by
    unfold newDataMessage maxStream at h ⊢
    by_cases h1 : st.toNat > 127
    · simp [h1] at h
    · cases item <;> cases w <;> by_cases h2 : f.toNat % 2 = 0 <;> simp [h1, h2] at h ⊢
  obtain ⟨m', hm'⟩ := hok
  refine ⟨m', by rw [hd, hm'], ?_⟩
  rw [frame_layout_data _ _ _ _ _ _ _ hm', frame_layout_data _ _ _ _ _ _ _ h]
  rfl

/-! ## The cap leaves error-free bodies the library itself cannot read back -/

/-- Full statement asked by the property: *every* valid data message decodes back.  It fails at the
    frame-size cap: `NewDataMessage` accepts any error-free item, but a frame whose length field
    exceeds `maxHSMSMsgLen` (= `secs2.MaxByteSize`, header included) is refused by the decoder.
    Every message with `10 + |body| > cap` is such a case … -/
theorem decode_rejects_over_cap (m : DataMsg) (hbig : 10 + m.body.bytes.length > maxMsgLen)
    (h32 : 10 + m.body.bytes.length < 4294967296) :
    decodeHSMSMessage (Msg.data m).toBytes = .error .lenBig := by
  have e : (Msg.data m).toBytes = beBytes 4 (10 + m.body.bytes.length) ++ (m.hdr.toBytes ++ m.body.bytes) := by
    simp [Msg.toBytes, Body.len_eq]
  rw [e]
  unfold decodeHSMSMessage
  have hlt : lenLt (beBytes 4 (10 + m.body.bytes.length) ++ (m.hdr.toBytes ++ m.body.bytes)) 14 = false := by
    rw [lenLt_false_iff]; simp; omega
  have h1 : ¬ 10 + m.body.bytes.length < 10 := by omega
  simp only [hlt, take4_frame, beVal_beBytes4 _ h32, Bool.false_eq_true, reduceIte, h1, hbig]

/-- … and one exists among single well-formed items: a binary item of 2^24−1 bytes (the E5 maximum)
    is error-free, is accepted by `NewDataMessage`, serialises to a 16 777 233-byte frame, and the
    decoder answers "length exceeds maximum".  Replayed on the real code by the harness. -/
theorem counterexample_valid_message_over_cap :
    ∃ (it : Item) (m : DataMsg), WF it ∧ depth it ≤ maxListDepth ∧
      newDataMessage 1 1 true 0 ⟨0, 0, 0, 1⟩ (.ok it) = .ok m ∧
      decodeHSMSMessage (Msg.data m).toBytes = .error .lenBig := by
  have hl : (enc (.binary (List.replicate 16777215 0))).length = 16777219 := by
    simp only [enc, List.length_append, header_length, List.length_replicate]
    decide
  refine ⟨.binary (List.replicate 16777215 0), _, ?_, ?_, rfl, ?_⟩
  · simp only [WF, List.length_replicate]; decide
  · simp only [depth]; decide
  · apply decode_rejects_over_cap
    · simp only [Body.bytes, hl]; decide
    · simp only [Body.bytes, hl]; decide

/-! ## Non-vacuity -/

example : ∃ m, newDataMessage 127 255 true 0x8001 ⟨0xDE, 0xAD, 0xBE, 0xEF⟩ (.ok (.list [.ascii [0x41], .uint .w2 [65535]])) = .ok m ∧
    Wire (.data m) := by
  refine ⟨_, rfl, rfl, rfl, ?_⟩
  decide

end GoSecs.Props.C03
